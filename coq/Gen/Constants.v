(* GENERATED on every run by `harness constgen` from the Go constants compiled from /repo. Do not edit. *)
From Coq Require Import NArith List.
Import ListNotations.
Open Scope N_scope.
Module K.
Definition ContentKeysLimit : N := 64.
Definition DefaultUtpConnSize : N := 50.
Definition acc_Accepted : N := 0.
Definition acc_AlreadyStored : N := 2.
Definition acc_GenericDeclined : N := 1.
Definition acc_InboundTransferInProgress : N := 5.
Definition acc_NotWithinRadius : N := 3.
Definition acc_RateLimited : N := 4.
Definition acc_Unspecified : N := 6.
Definition alpha : N := 3.
Definition bucketIPLimit : N := 2.
Definition bucketMinDistance : N := 239.
Definition bucketSize : N := 16.
Definition bucketSubnet : N := 24.
Definition hashBits : N := 256.
Definition lookupRequestLimit : N := 3.
Definition maxFindnodeFailures : N := 5.
Definition maxPacketSize : N := 1280.
Definition maxReplacements : N := 10.
Definition msg_ACCEPT : N := 7.
Definition msg_CONTENT : N := 5.
Definition msg_FINDCONTENT : N := 4.
Definition msg_FINDNODES : N := 2.
Definition msg_NODES : N := 3.
Definition msg_OFFER : N := 6.
Definition msg_PING : N := 0.
Definition msg_PONG : N := 1.
Definition nBuckets : N := 17.
Definition offerQueueSize : N := 1000.
Definition portalFindnodesResultLimit : N := 32.
Definition sel_ConnId : N := 0.
Definition sel_Enrs : N := 2.
Definition sel_Raw : N := 1.
Definition slowRevalidationFactor : N := 3.
Definition tableIPLimit : N := 10.
Definition tableSubnet : N := 24.
Definition talkRespOverhead : N := 103.
Definition Versions : list N := [0; 1].
End K.
