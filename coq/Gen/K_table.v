(* GENERATED on every run by `harness constgen_table` from the Go constants compiled from /repo. Do not edit. *)
From Coq Require Import NArith List.
Import ListNotations.
Open Scope N_scope.
Definition K_alpha : N := 3.
Definition K_bucketIPLimit : N := 2.
Definition K_bucketMinDistance : N := 239.
Definition K_bucketSize : N := 16.
Definition K_bucketSubnet : N := 24.
Definition K_hashBits : N := 256.
Definition K_maxFindnodeFailures : N := 5.
Definition K_maxReplacements : N := 10.
Definition K_nBuckets : N := 17.
Definition K_slowRevalidationFactor : N := 3.
Definition K_tableIPLimit : N := 10.
Definition K_tableSubnet : N := 24.
