(* GENERATED on every run by `harness constgen_handlers` from the Go constants compiled from /repo. Do not edit. *)
From Coq Require Import NArith List.
Import ListNotations.
Open Scope N_scope.
Definition K_ext_BasicRadius : N := 1.
Definition K_ext_ClientInfo : N := 0.
Definition K_ext_Error : N := 65535.
Definition K_ext_HistoryRadius : N := 2.
Definition K_inRange_xor : N := 1.
Definition K_processContent_short_panics : N := 0.
Definition K_ext_beacon : list N := [0; 1; 65535].
Definition K_ext_default : list N := [0; 65535].
Definition K_ext_history : list N := [0; 2; 65535].
Definition K_ext_state : list N := [0; 1; 65535].
