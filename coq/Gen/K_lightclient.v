(* GENERATED on every run by `harness constgen_lightclient` from the Go constants compiled from /repo. Do not edit. *)
From Coq Require Import NArith List.
Import ListNotations.
Open Scope N_scope.
Definition K_LC_DOMAIN_SYNC_COMMITTEE_B0 : N := 7.
Definition K_LC_ELECTRA_CUR_BRANCH_LEN : N := 6.
Definition K_LC_EPOCHS_PER_PERIOD : N := 256.
Definition K_LC_FINALITY_BRANCH_LEN : N := 6.
Definition K_LC_FINALIZED_ROOT_GINDEX : N := 105.
Definition K_LC_MAX_CHECKPOINT_AGE : N := 1209600.
Definition K_LC_NEXT_SYNC_COMM_GINDEX : N := 55.
Definition K_LC_SECONDS_PER_SLOT : N := 12.
Definition K_LC_SLOTS_PER_EPOCH : N := 32.
Definition K_LC_SLOTS_PER_PERIOD_PROBED : N := 8192.
Definition K_LC_SYNC_BRANCH_LEN : N := 5.
Definition K_LC_SYNC_COMMITTEE_SIZE : N := 512.
