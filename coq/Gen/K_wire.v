(* GENERATED on every run by `harness constgen_wire` from the Go constants compiled from /repo. Do not edit. *)
From Coq Require Import NArith List.
Import ListNotations.
Open Scope N_scope.
Definition K_ContentKeysLimit : N := 64.
Definition K_DefaultUtpConnSize : N := 50.
Definition K_acc_Accepted : N := 0.
Definition K_acc_AlreadyStored : N := 2.
Definition K_acc_GenericDeclined : N := 1.
Definition K_acc_InboundTransferInProgress : N := 5.
Definition K_acc_NotWithinRadius : N := 3.
Definition K_acc_RateLimited : N := 4.
Definition K_acc_Unspecified : N := 6.
Definition K_lookupRequestLimit : N := 3.
Definition K_maxPacketSize : N := 1280.
Definition K_msg_ACCEPT : N := 7.
Definition K_msg_CONTENT : N := 5.
Definition K_msg_FINDCONTENT : N := 4.
Definition K_msg_FINDNODES : N := 2.
Definition K_msg_NODES : N := 3.
Definition K_msg_OFFER : N := 6.
Definition K_msg_PING : N := 0.
Definition K_msg_PONG : N := 1.
Definition K_offerQueueSize : N := 1000.
Definition K_portalFindnodesResultLimit : N := 32.
Definition K_sel_ConnId : N := 0.
Definition K_sel_Enrs : N := 2.
Definition K_sel_Raw : N := 1.
Definition K_talkRespOverhead : N := 103.
Definition K_Versions : list N := [0; 1].
