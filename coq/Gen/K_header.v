(* GENERATED on every run by `harness constgen_header` from the Go constants compiled from /repo. Do not edit. *)
From Coq Require Import NArith List.
Import ListNotations.
Open Scope N_scope.
Definition K_CancunNumber : N := 19426587.
Definition K_EpochSize : N := 8192.
Definition K_MergeBlockNumber : N := 15537394.
Definition K_PreMergeEpochs : N := 1897.
Definition K_ShanghaiBlockNumber : N := 17034870.
Definition K_capellaForkEpoch : N := 194048.
Definition K_epochSize : N := 8192.
Definition K_proverEpochSize : N := 8192.
Definition K_proverMergeBlockNumber : N := 15537394.
Definition K_proverPreMergeEpochs : N := 1897.
Definition K_slotsPerEpoch : N := 32.
