(* GENERATED on every run by `harness constgen_storage` from the Go constants compiled from /repo. Do not edit. *)
From Coq Require Import NArith List.
Import ListNotations.
Open Scope N_scope.
Definition K_bytesPerMB : N := 1000000.
Definition K_contentDeletionPPM : N := 50000.
Definition K_offerEphemeralType : N := 5.
