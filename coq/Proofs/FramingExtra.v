(* Proofs/FramingExtra.v : further theorems about Model/Framing.v (C15):
   unique decodability, size accounting of an accepted stream, the uint32 wrap of the encoder for an item of exactly
   2^32 bytes (why `short` is in the statements), non-canonical varints (what the image does NOT exclude), and the
   effect of the two sides framing with different versions (feeds C19). *)
From Shisui Require Import Base.Bytes Base.Arith Model.Framing Proofs.Framing.
From Coq Require Import ZifyBool ZifyN ZifyNat.

Local Arguments N.land : simpl never.
Local Arguments N.lor : simpl never.
Local Arguments N.shiftl : simpl never.
Local Arguments N.shiftr : simpl never.
Local Arguments N.modulo : simpl never.
Local Arguments N.div : simpl never.
Local Arguments N.pow : simpl never.
Local Arguments N.mul : simpl never.
Local Arguments N.add : simpl never.
Local Arguments N.ltb : simpl never.
Local Arguments N.eqb : simpl never.

(* ---------- unique decodability: two lists of short items with the same stream are the same list ---------- *)

Theorem encode_contents_injective l1 l2 :
  Forall short l1 -> Forall short l2 -> encode_contents l1 = encode_contents l2 -> l1 = l2.
Proof.
  intros H1 H2 E.
  pose proof (decode_encode_contents l1 H1) as D1.
  pose proof (decode_encode_contents l2 H2) as D2.
  rewrite E in D1. rewrite D1 in D2. inversion D2. reflexivity.
Qed.

(* the decoder is a function, so a stream never splits in two ways; together with the image theorem: every accepted
   stream has exactly one list, and every list of short items exactly one accepted canonical stream *)
Theorem framed_functional data l1 l2 : framed data l1 -> framed data l2 -> l1 = l2.
Proof.
  intros F1 F2. apply framed_decodes in F1. apply framed_decodes in F2. rewrite F1 in F2. inversion F2. reflexivity.
Qed.

(* ---------- size accounting: an accepted stream pays at least one byte per item plus the items' bytes ---------- *)

Definition total_len (l : list bytes) : nat := fold_right (fun c acc => (length c + acc)%nat) O l.

Lemma framed_size data l : framed data l -> (length l + total_len l <= length data)%nat.
Proof.
  induction 1 as [|h c rest cs Hl Hh Hs F IH]; cbn [length total_len fold_right]; [lia|].
  rewrite !app_length. unfold total_len in IH. lia.
Qed.

Theorem decode_contents_size data l :
  decode_contents data = Ok l -> (length l + total_len l <= length data)%nat.
Proof. intros H. apply framed_size. apply decode_contents_image. exact H. Qed.

Theorem decode_contents_upper data l :
  decode_contents data = Ok l -> (length data <= 5 * length l + total_len l)%nat.
Proof.
  intros H. apply decode_contents_image in H.
  induction H as [|h c rest cs Hl Hh Hs F IH]; cbn [length total_len fold_right]; [lia|].
  rewrite !app_length. unfold total_len in IH. lia.
Qed.

(* ---------- the encoder's uint32(len(data)) wrap: an item of exactly 2^32 bytes is framed as an EMPTY item
   followed by 2^32 bytes that the splitter then reads as further items.  This is why the round-trip theorems carry
   `short`; such an item cannot be built in the correspondence run (4 GiB), the theorem is about the model's explicit
   `mod two32`. ---------- *)

Lemma leb_encode_zero : leb_encode_u32 0 = [n2b 0].
Proof. vm_compute. reflexivity. Qed.

Lemma encode_single_wrap d : nlen d = two32 -> encode_single d = encode_single [] ++ d.
Proof.
  intros H. unfold encode_single. rewrite H.
  assert (E : leb_encode_u32 two32 = leb_encode_u32 (nlen (@nil byte))) by (vm_compute; reflexivity).
  rewrite E. rewrite app_nil_r. reflexivity.
Qed.

Theorem long_item_wraps d r :
  nlen d = two32 -> decode_single (encode_single d ++ r) = Ok ([], d ++ r).
Proof.
  intros H. rewrite encode_single_wrap by assumption. rewrite <- app_assoc.
  apply decode_single_encode. unfold short. vm_compute. reflexivity.
Qed.

Theorem long_item_not_roundtrip d :
  nlen d = two32 -> decode_contents (encode_contents [d]) <> Ok [d].
Proof.
  intros H E. unfold encode_contents in E. cbn [map concat] in E. rewrite app_nil_r in E.
  assert (Hne : encode_single d <> []) by apply encode_single_nonempty.
  pose proof (long_item_wraps d [] H) as W. rewrite !app_nil_r in W.
  destruct (encode_single d) as [|b s] eqn:Es; [congruence|].
  rewrite (decode_contents_cons _ [] d) in E by (congruence || assumption).
  destruct (decode_contents d) as [cs| |]; try discriminate.
  inversion E as [[E1 E2]]. subst d. unfold nlen in H. cbn in H. discriminate.
Qed.

(* ---------- non-canonical length prefixes are accepted: the image allows any <=5-byte varint that decodes to the
   item's length, so two different streams can carry the same items.  The property asks for rejection of truncated,
   over-long and overflowing streams, not for canonical prefixes; this theorem records the gap as an observation. ---------- *)

Theorem noncanonical_prefix_accepted :
  exists s1 s2 l, s1 <> s2 /\ decode_contents s1 = Ok l /\ decode_contents s2 = Ok l /\ s1 = encode_contents l.
Proof.
  exists [n2b 1; n2b 170], [n2b 129; n2b 0; n2b 170], [[n2b 170]].
  split; [discriminate|]. split; [vm_compute; reflexivity|]. split; vm_compute; reflexivity.
Qed.

(* ---------- the two sides must frame with the same version (what C19's negotiation is for) ---------- *)

Lemma decode_single_strictly_shorter data c rem :
  decode_single data = Ok (c, rem) -> (length c < length data)%nat.
Proof.
  intros H. apply decode_single_image in H as (h & -> & Hl & _). rewrite !app_length. lia.
Qed.

Lemma encode_single_longer d : (length d < length (encode_single d))%nat.
Proof.
  unfold encode_single. rewrite app_length.
  pose proof (leb_enc_aux_nonempty 9 (nlen d mod two32)) as Hne.
  unfold leb_encode_u32. destruct (leb_enc_aux 10 (nlen d mod two32)); [congruence|]. cbn [length]. lia.
Qed.

(* a sender on version 1 and a receiver on version 0, or the other way round, never hand over the sent bytes *)
Theorem utp_version_mismatch_never_right vs vr d :
  (vs =? 1) <> (vr =? 1) -> decode_utp_content vr (encode_utp_content vs d) <> Ok d.
Proof.
  intros Hv. unfold decode_utp_content, encode_utp_content.
  destruct (vs =? 1) eqn:Es; destruct (vr =? 1) eqn:Er; try congruence.
  - (* framed by the sender, taken raw by the receiver: one to five extra bytes in front *)
    intros E. inversion E as [E']. pose proof (encode_single_longer d) as Hl. rewrite E' in Hl. lia.
  - (* sent raw, unframed by the receiver: at least one byte shorter, whenever it is accepted at all *)
    destruct (decode_single d) as [[c rem]| |] eqn:E; try discriminate.
    destruct rem; [|discriminate]. intros E'. inversion E'. subst c.
    apply decode_single_strictly_shorter in E. lia.
Qed.

(* and when both sides use the same version the content arrives, whatever the version (restated for the pair) *)
Theorem utp_same_version_right vs vr d :
  (vs =? 1) = (vr =? 1) -> short d -> decode_utp_content vr (encode_utp_content vs d) = Ok d.
Proof.
  intros Hv Hd. unfold decode_utp_content, encode_utp_content. rewrite <- Hv.
  destruct (vs =? 1).
  - rewrite <- (app_nil_r (encode_single d)). rewrite decode_single_encode by assumption. reflexivity.
  - reflexivity.
Qed.

(* ---------- streams compose: joining distributes over list append, and two accepted streams laid end to end split
   into the two lists laid end to end (no item straddles the seam) ---------- *)

Lemma encode_contents_app l1 l2 : encode_contents (l1 ++ l2) = encode_contents l1 ++ encode_contents l2.
Proof. unfold encode_contents. rewrite map_app, concat_app. reflexivity. Qed.

Lemma framed_app s1 l1 s2 l2 : framed s1 l1 -> framed s2 l2 -> framed (s1 ++ s2) (l1 ++ l2).
Proof.
  induction 1 as [|h c rest cs Hl Hh Hs F IH]; intros F2; [exact F2|].
  cbn [app]. rewrite <- !app_assoc. constructor; try assumption. apply IH. exact F2.
Qed.

Theorem decode_contents_app s1 l1 s2 l2 :
  decode_contents s1 = Ok l1 -> decode_contents s2 = Ok l2 -> decode_contents (s1 ++ s2) = Ok (l1 ++ l2).
Proof.
  intros H1 H2. apply framed_decodes. apply framed_app; apply decode_contents_image; assumption.
Qed.
