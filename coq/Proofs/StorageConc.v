(* Proofs/StorageConc.v : the concurrent clause of C05 (partial, see Properties/C05.v). *)
From Shisui Require Import Base.Bytes Gen.K_storage Model.Storage Model.StorageConc Proofs.Storage.

(* two goroutines, node id zero, values of 100 and 200 bytes *)
Definition conc_demo : cstate (V:=N) :=
  {| cdb := empty_db; ccnt := 0; crad := MAXD; cnode := zero32;
     threads := [ {| t_id := key32 x01 x01; t_val := 100; t_pc := T0 |};
                  {| t_id := key32 x02 x02; t_val := 200; t_pc := T0 |} ] |}.

(* unlocked Put: A checks and adds (132), B checks, adds (364) and commits, A commits last: the persisted record
   says 132 while 364 bytes are held *)
Lemma conc_unlocked_refuted :
  exists sched y, exec_sched nv_len le_to_N conc_demo sched = Some y /\ all_done y = true /\
    (exists n, rec (cdb y) = Some (SizeRec n) /\ n < held_kv nv_len (kv (cdb y))).
Proof.
  exists [0; 0; 1; 1; 1; 0]%nat. eexists. split; [vm_compute; reflexivity|]. split; [reflexivity|].
  exists 132. split; vm_compute; reflexivity.
Qed.

Lemma locked_is_serial {V : Type} (vlen : V -> N) (vhead8 : V -> res N) (dec : bytes -> N) (y : sys (V:=V)) sched :
  exec_locked vlen dec vhead8 y sched = run vlen vhead8 dec y (map (fun p => OPut (fst p) (snd p)) sched).
Proof.
  revert y; induction sched as [|[id v] r IH]; intros y; cbn [exec_locked map run fst snd]; [reflexivity|].
  destruct (step vlen vhead8 dec y (OPut id v)); cbn [bind]; [apply IH | reflexivity | reflexivity].
Qed.
