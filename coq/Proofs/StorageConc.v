(* Proofs/StorageConc.v : the concurrent clause of C05 over the small-step model of Model/StorageConc.v. *)
From Shisui Require Import Base.Bytes Gen.K_storage Model.Storage Model.StorageConc Proofs.Storage.
From Coq Require Import ZifyBool ZifyN ZifyNat.
Local Arguments N.add : simpl never.
Local Arguments N.mul : simpl never.
Local Arguments N.sub : simpl never.
Local Arguments N.ltb : simpl never.

Section ConcFacts.
  Context {V : Type}.
  Variable vlen : V -> N.
  Variable vhead8 : V -> res N.
  Variable dec : bytes -> N.
  Notation micro := (micro vlen dec).
  Notation micro_iter := (micro_iter vlen dec).
  Notation put_state := (put_state vlen dec).
  Notation seq_puts := (seq_puts vlen dec).
  Notation cstep := (cstep vlen dec).
  Notation exec := (exec vlen dec).
  Notation st := (@st V).

  (* ---------------- one Put, step by step, is Put *)
  Lemma micro_done (s : st) id v r : micro s id v (MDone r) = (s, MDone r).
  Proof. reflexivity. Qed.

  Lemma micro_iter_done k (s : st) id v r : micro_iter k s id v (MDone r) = (s, MDone r).
  Proof. induction k as [|k IH]; [reflexivity|]. cbn [StorageConc.micro_iter]. rewrite micro_done. exact IH. Qed.

  Lemma micro_iter_add a b (s : st) id v pc :
    micro_iter (a + b) s id v pc = let '(s', pc') := micro_iter a s id v pc in micro_iter b s' id v pc'.
  Proof.
    revert s pc; induction a as [|a IH]; intros s pc; [reflexivity|].
    cbn [Nat.add StorageConc.micro_iter]. destruct (micro s id v pc) as [s1 pc1]. apply IH.
  Qed.

  Lemma micro_node (s : st) id v pc : node (fst (micro s id v pc)) = node s.
  Proof.
    destruct pc; cbn [StorageConc.micro]; try reflexivity.
    - destruct (xor_key id (node s)); [destruct (dec a <? rad s)| |]; reflexivity.
    - destruct (drop_far vlen (expect s) 0 (rev (kv (sdb s)))) as [[ds freed] stop]. reflexivity.
    - destruct (size <? freed); reflexivity.
  Qed.

  Lemma micro_iter_node k : forall (s : st) id v pc, node (fst (micro_iter k s id v pc)) = node s.
  Proof.
    induction k as [|k IH]; intros s id v pc; [reflexivity|]. cbn [StorageConc.micro_iter].
    pose proof (micro_node s id v pc) as H. destruct (micro s id v pc) as [s1 pc1]. cbn [fst] in H. now rewrite IH.
  Qed.

  (* six steps from MCheck finish the call, in exactly the state Put produces *)
  Lemma micro_run_put (s : st) id v : length (node s) = 32%nat ->
    exists r, micro_iter 6 s id v MCheck = (put_state s (id, v), MDone r).
  Proof.
    intros HN. destruct (xor_key_total id (node s) HN) as (k & XK & _).
    unfold StorageConc.put_state, put. cbn [fst snd]. rewrite XK. cbn [bind].
    cbn [StorageConc.micro_iter StorageConc.micro]. rewrite XK.
    destruct (dec k <? rad s) eqn:ER; cbn [negb].
    - cbn [StorageConc.micro]. change (cap (set_cnt s (cnt s + nlen id + vlen v))) with (cap s).
      set (n := cnt s + nlen id + vlen v).
      change (set_sdb (set_cnt s n) (apply_batch (sdb (set_cnt s n)) [BSetSize n; BSetItem k v]))
        with (with_db s (apply_batch (sdb s) [BSetSize n; BSetItem k v]) n (rad s)).
      set (s1 := with_db s (apply_batch (sdb s) [BSetSize n; BSetItem k v]) n (rad s)).
      change (cap s) with (cap s1). destruct (cap s1 <? n) eqn:EC.
      + cbn [StorageConc.micro]. unfold prune.
        destruct (drop_far vlen (expect s1) 0 (rev (kv (sdb s1)))) as [[ds freed] stop].
        cbn [StorageConc.micro]. change (cnt (set_rad s1 _)) with (cnt s1).
        destruct (cnt s1 <? freed); cbn [StorageConc.micro]; eexists; reflexivity.
      + cbn [StorageConc.micro]. eexists; reflexivity.
    - cbn [StorageConc.micro]. eexists; reflexivity.
  Qed.

  Lemma reach_done k (s0 s : st) id v r : length (node s0) = 32%nat ->
    micro_iter k s0 id v MCheck = (s, MDone r) -> s = put_state s0 (id, v).
  Proof.
    intros HN H. destruct (micro_run_put s0 id v HN) as (r' & R).
    pose proof (micro_iter_add k 6 s0 id v MCheck) as A. rewrite H, micro_iter_done in A.
    pose proof (micro_iter_add 6 k s0 id v MCheck) as B. rewrite R, micro_iter_done in B.
    rewrite Nat.add_comm in B. rewrite A in B. now inversion B.
  Qed.

  Lemma put_state_node (s : st) p : node (put_state s p) = node s.
  Proof.
    destruct p as [id v]. unfold StorageConc.put_state, put. cbn [fst snd].
    destruct (xor_key id (node s)); cbn [bind]; try reflexivity.
    destruct (negb (dec a <? rad s)); [reflexivity|].
    destruct (cap s <? cnt s + nlen id + vlen v); [|reflexivity].
    unfold prune. destruct (drop_far _ _ _ _) as [[ds freed] stop]. destruct (_ <? freed); reflexivity.
  Qed.

  Lemma seq_puts_node l : forall s : st, node (seq_puts s l) = node s.
  Proof.
    induction l as [|p l IH]; intros s; [reflexivity|]. cbn [StorageConc.seq_puts fold_left].
    change (fold_left put_state l (put_state s p)) with (seq_puts (put_state s p) l). now rewrite IH, put_state_node.
  Qed.

  Lemma seq_puts_snoc (s : st) l p : seq_puts s (l ++ [p]) = put_state (seq_puts s l) p.
  Proof. unfold StorageConc.seq_puts. now rewrite fold_left_app. Qed.

  (* ---------------- lists with one position replaced *)
  Lemma nth_replace_same {A} (l : list A) i x t : nth_error l i = Some t -> nth_error (replace_nth l i x) i = Some x.
  Proof. revert i; induction l as [|h l IH]; intros [|i] H; cbn in *; try discriminate; [reflexivity | now apply IH]. Qed.

  Lemma nth_replace_other {A} (l : list A) i j x : i <> j -> nth_error (replace_nth l i x) j = nth_error l j.
  Proof.
    revert i j; induction l as [|h l IH]; intros [|i] [|j] H; cbn; try reflexivity; try congruence.
    apply IH. congruence.
  Qed.

  (* ---------------- the locked machine: every schedule is the serial history in lock-acquisition order *)
  Definition CInv (s0 : st) (c : cstate (V:=V)) : Prop :=
    node (sh c) = node s0 /\
    match lock c with
    | None =>
        (forall i t, nth_error (thrs c) i = Some t -> cur t = None) /\ sh c = seq_puts s0 (log c)
    | Some i =>
        exists t id v pc l',
          nth_error (thrs c) i = Some t /\ cur t = Some (id, v, pc) /\
          (forall j t', j <> i -> nth_error (thrs c) j = Some t' -> cur t' = None) /\
          log c = l' ++ [(id, v)] /\
          exists k, micro_iter k (seq_puts s0 l') id v MCheck = (sh c, pc)
    end.

  Lemma cstep_inv (s0 : st) c i : length (node s0) = 32%nat -> CInv s0 c -> CInv s0 (cstep true false c i).
  Proof.
    intros HN (NE & I). unfold StorageConc.cstep. destruct (nth_error (thrs c) i) as [t|] eqn:Ti; [|now split].
    cbn [andb].
    destruct (lock c) as [h|] eqn:L.
    - assert (TK : taken c = true) by (unfold taken; now rewrite L).
      assert (HH : holds c h = true) by (unfold holds; rewrite L; apply Nat.eqb_refl).
      destruct I as (th & id & v & pc & l' & Th & Ch & Oth & LG & k & RK).
      destruct (Nat.eq_dec i h) as [->|NI].
      + rewrite Ti in Th. inversion Th; subst th. rewrite Ch.
        assert (DONE : forall r, pc = MDone r ->
                  CInv s0 {| sh := sh c; lock := None; thrs := replace_nth (thrs c) h {| todo := todo t; cur := None |}; log := log c |}).
        { intros r ->. split; [exact NE|]. cbn [lock thrs sh log]. split.
          - intros j t' Hj. destruct (Nat.eq_dec h j) as [<-|NJ].
            + rewrite (nth_replace_same _ _ _ _ Ti) in Hj. now inversion Hj.
            + rewrite nth_replace_other in Hj by exact NJ. eapply Oth; [|exact Hj]. congruence.
          - rewrite LG, seq_puts_snoc. eapply reach_done; [now rewrite seq_puts_node | exact RK]. }
        assert (STEP : forall s' pc', micro (sh c) id v pc = (s', pc') ->
                  CInv s0 {| sh := s'; lock := lock c; thrs := replace_nth (thrs c) h {| todo := todo t; cur := Some (id, v, pc') |}; log := log c |}).
        { intros s' pc' M. split.
          - cbn [sh]. pose proof (micro_node (sh c) id v pc) as MN. rewrite M in MN. cbn [fst] in MN. congruence.
          - cbn [lock thrs sh log]. rewrite L. eexists _, id, v, pc', l'.
            split; [eapply nth_replace_same; exact Ti|]. split; [reflexivity|]. split.
            + intros j t' NJ Hj. rewrite nth_replace_other in Hj by congruence. eapply Oth; eassumption.
            + split; [exact LG|]. exists (k + 1)%nat. rewrite micro_iter_add, RK. cbn [StorageConc.micro_iter]. now rewrite M. }
        destruct pc; try (destruct (micro (sh c) id v _) as [s' pc'] eqn:M; rewrite L in STEP; now apply STEP).
        rewrite HH. cbn [andb]. eapply DONE. reflexivity.
      + assert (Ct : cur t = None) by (eapply Oth; eassumption). rewrite Ct.
        destruct (todo t) as [|[id' v'] rest]; [|rewrite TK; cbn [andb]]; (split; [exact NE|]); rewrite L;
          exists th, id, v, pc, l'; repeat split; try assumption; exists k; exact RK.
    - assert (TK : taken c = false) by (unfold taken; now rewrite L).
      destruct I as (AllN & SH). rewrite (AllN i t Ti).
      destruct (todo t) as [|[id v] rest] eqn:TD; [split; [exact NE|]; rewrite L; now split|].
      rewrite TK. cbn [andb]. split; [exact NE|]. cbn [lock thrs sh log].
      eexists _, id, v, MCheck, (log c). split; [eapply nth_replace_same; exact Ti|]. split; [reflexivity|]. split.
      + intros j t' NJ Hj. rewrite nth_replace_other in Hj by congruence. eapply AllN; exact Hj.
      + split; [reflexivity|]. exists 0%nat. cbn [StorageConc.micro_iter]. now rewrite SH.
  Qed.

  Lemma start_inv (s0 : st) work : CInv s0 (start s0 work).
  Proof.
    split; [reflexivity|]. cbn [lock start thrs sh log]. split; [|reflexivity].
    intros i t H. apply nth_error_In in H. apply in_map_iff in H as (w & <- & _). reflexivity.
  Qed.

  Theorem exec_locked_inv (s0 : st) sched : forall c, length (node s0) = 32%nat -> CInv s0 c -> CInv s0 (exec true false c sched).
  Proof.
    induction sched as [|i r IH]; intros c HN I; [exact I|]. cbn [StorageConc.exec fold_left].
    apply IH; [exact HN | now apply cstep_inv].
  Qed.

  (* EVERY schedule: whenever nobody is inside Put - in particular when all goroutines have finished - the shared
     store is exactly the result of the Puts started so far, executed one after another in lock-acquisition order *)
  Theorem locked_is_serial (s0 : st) work sched : length (node s0) = 32%nat ->
    let c := exec true false (start s0 work) sched in
    (lock c = None -> sh c = seq_puts s0 (log c)) /\
    (quiescent c = true -> lock c = None).
  Proof.
    intros HN c. pose proof (exec_locked_inv s0 sched (start s0 work) HN (start_inv s0 work)) as (NE & I). fold c in NE, I.
    split.
    - intros L. rewrite L in I. apply I.
    - intros Q. destruct (lock c) as [h|]; [|reflexivity].
      destruct I as (t & id & v & pc & l' & Th & Ch & _). unfold quiescent in Q. rewrite forallb_forall in Q.
      specialize (Q t (nth_error_In _ _ Th)). now rewrite Ch in Q.
  Qed.

  (* the Puts that ran are Puts some goroutine was given *)
  Definition JInv (W : list (bytes * V)) (c : cstate (V:=V)) : Prop :=
    (forall p, In p (log c) -> In p W) /\
    (forall i t p, nth_error (thrs c) i = Some t -> In p (todo t) -> In p W) /\
    (forall i t id v pc, nth_error (thrs c) i = Some t -> cur t = Some (id, v, pc) -> In (id, v) W).

  Lemma cstep_jinv W locked outside c i : JInv W c -> JInv W (cstep locked outside c i).
  Proof.
    intros (JL & JT & JC). unfold StorageConc.cstep. destruct (nth_error (thrs c) i) as [t|] eqn:Ti; [|now repeat split].
    (* replacing goroutine i by one whose todo is part of the old one and whose current Put is known *)
    assert (REPL : forall td cu, (forall p, In p td -> In p (todo t)) ->
              (forall id v pc, cu = Some (id, v, pc) -> In (id, v) W) ->
              (forall j t' p, nth_error (replace_nth (thrs c) i {| todo := td; cur := cu |}) j = Some t' -> In p (todo t') -> In p W) /\
              (forall j t' id v pc, nth_error (replace_nth (thrs c) i {| todo := td; cur := cu |}) j = Some t' ->
                 cur t' = Some (id, v, pc) -> In (id, v) W)).
    { intros td cu SUB CU. split.
      - intros j t' p Hj Hp. destruct (Nat.eq_dec i j) as [<-|NJ].
        + rewrite (nth_replace_same _ _ _ _ Ti) in Hj. inversion Hj; subst t'. cbn [todo] in Hp. eapply JT; [exact Ti | now apply SUB].
        + rewrite nth_replace_other in Hj by exact NJ. eapply JT; eassumption.
      - intros j t' id v pc Hj Hc. destruct (Nat.eq_dec i j) as [<-|NJ].
        + rewrite (nth_replace_same _ _ _ _ Ti) in Hj. inversion Hj; subst t'. cbn [cur] in Hc. eapply CU; exact Hc.
        + rewrite nth_replace_other in Hj by exact NJ. eapply JC; eassumption. }
    destruct (cur t) as [[[id v] pc]|] eqn:Ct.
    - assert (PW : In (id, v) W) by (eapply JC; eassumption).
      assert (SAME : forall cu, (forall id' v' pc', cu = Some (id', v', pc') -> (id', v') = (id, v)) ->
                JInv W {| sh := sh c; lock := lock c; thrs := replace_nth (thrs c) i {| todo := todo t; cur := cu |}; log := log c |}).
      { intros cu CU. destruct (REPL (todo t) cu (fun p H => H)) as (R1 & R2).
        - intros id' v' pc' E. rewrite (CU _ _ _ E). exact PW.
        - split; [exact JL|]. split; [exact R1 | exact R2]. }
      destruct pc.
      all: try (destruct (outside && locked && _ && _);
                [destruct (taken c); [now repeat split|]; split; [|split; [exact JT | exact JC]];
                 cbn [log]; intros p Hp; apply in_app_or in Hp as [Hp|[<-|[]]]; [now apply JL | exact PW]
                |destruct (micro (sh c) id v _) as [s' pc'];
                 destruct (REPL (todo t) (Some (id, v, pc')) (fun p H => H)) as (R1 & R2);
                 [intros id' v' pc'' E; inversion E; subst; exact PW | split; [exact JL|]; split; [exact R1 | exact R2]]]).
      destruct (REPL (todo t) None (fun p H => H)) as (R1 & R2); [intros ? ? ? E; discriminate|].
      split; [exact JL|]. split; [exact R1 | exact R2].
    - destruct (todo t) as [|[id v] rest] eqn:TD; [now repeat split|].
      assert (PW : In (id, v) W) by (eapply JT; [exact Ti|]; rewrite TD; now left).
      destruct (REPL rest (Some (id, v, MCheck))) as (R1 & R2).
      { intros p Hp. try rewrite TD. now right. }
      { intros id' v' pc' E. inversion E; subst. exact PW. }
      destruct outside; [split; [exact JL|]; split; [exact R1 | exact R2]|].
      destruct (locked && taken c); [now repeat split|]. split; [|split; [exact R1 | exact R2]].
      cbn [log]. intros p Hp. apply in_app_or in Hp as [Hp|[<-|[]]]; [now apply JL | exact PW].
  Qed.

  Lemma exec_jinv W locked outside sched : forall c, JInv W c -> JInv W (exec locked outside c sched).
  Proof.
    induction sched as [|i r IH]; intros c J; [exact J|]. cbn [StorageConc.exec fold_left]. apply IH. now apply cstep_jinv.
  Qed.

  Lemma start_jinv (s0 : st) work : JInv (concat work) (start s0 work).
  Proof.
    split; [intros p []|]. split.
    - intros i t p Hi Hp. cbn [start thrs] in Hi. apply nth_error_In in Hi.
      apply in_map_iff in Hi as (w & <- & Hw). cbn [todo] in Hp. apply in_concat. eauto.
    - intros i t id v pc Hi Hc. cbn [start thrs] in Hi. apply nth_error_In in Hi.
      apply in_map_iff in Hi as (w & <- & Hw). discriminate Hc.
  Qed.

  (* ---------------- the serial history is a history of the sequential model *)
  Notation run := (run vlen vhead8 dec).
  Lemma seq_puts_run Q l : forall (y : sys (V:=V)), SInv vlen Q y -> Forall (fun p => valid_id (node (mem y)) (fst p)) l ->
    exists y', run y (map (fun p => OPut (fst p) (snd p)) l) = Ok y' /\ mem y' = seq_puts (mem y) l /\
      SInv vlen (fun k v => Q k v \/ was_put (node (mem y)) (map (fun p => OPut (fst p) (snd p)) l) k v) y'.
  Proof.
    intros y S F.
    assert (FV : Forall (valid_op (node (mem y))) (map (fun p => OPut (fst p) (snd p)) l)).
    { apply Forall_forall. intros o Ho. apply in_map_iff in Ho as (p & <- & Hp). rewrite Forall_forall in F. exact (F p Hp). }
    destruct (run_inv vlen vhead8 dec _ Q y S FV) as (y' & R & S' & _). exists y'. split; [exact R|]. split; [|exact S'].
    clear S S' FV F. revert y y' R. induction l as [|[id v] l IH]; intros y y' R; cbn [map Storage.run] in R.
    - now inversion R.
    - cbn [fst snd Storage.step] in R. cbn [StorageConc.seq_puts fold_left]. unfold StorageConc.put_state at 2. cbn [fst snd].
      destruct (put vlen dec (mem y) id v) as [[[s' r] bs]| |]; cbn [bind] in R; try discriminate.
      change (fold_left put_state l s') with (seq_puts s' l). now apply (IH (commit y s' bs) y' R).
  Qed.

  (* after EVERY schedule of the locked machine, once all goroutines have finished, the sequential theorems hold:
     the accounting invariant (held <= counter, record = counter, everything held was put) ... *)
  Theorem locked_quiescent_inv Q (y0 : sys (V:=V)) work sched :
    SInv vlen Q y0 -> Forall (fun p => valid_id (node (mem y0)) (fst p)) (concat work) ->
    let c := exec true false (start (mem y0) work) sched in
    quiescent c = true ->
    exists y', run y0 (map (fun p => OPut (fst p) (snd p)) (log c)) = Ok y' /\ mem y' = sh c /\
      SInv vlen (fun k v => Q k v \/ was_put (node (mem y0)) (map (fun p => OPut (fst p) (snd p)) (log c)) k v) y' /\
      forall p, In p (log c) -> In p (concat work).
  Proof.
    intros S F c QU. pose proof S as ((_ & HN & _) & _).
    destruct (locked_is_serial (mem y0) work sched HN) as (SER & QL). fold c in SER, QL.
    pose proof (exec_jinv (concat work) true false sched _ (start_jinv (mem y0) work)) as (JL & _). fold c in JL.
    assert (FL : Forall (fun p => valid_id (node (mem y0)) (fst p)) (log c)).
    { apply Forall_forall. intros p Hp. rewrite Forall_forall in F. apply F, JL, Hp. }
    destruct (seq_puts_run Q (log c) y0 S FL) as (y' & R & M & S').
    exists y'. split; [exact R|]. split; [rewrite M; symmetry; apply SER, QL, QU|]. split; [exact S' | exact JL].
  Qed.

  (* ... and the capacity bound when every item is small *)
  Theorem locked_quiescent_within_capacity Q (y0 : sys (V:=V)) work sched :
    SInv vlen Q y0 -> cnt (mem y0) <= cap (mem y0) ->
    Forall (fun p => valid_id (node (mem y0)) (fst p) /\ 32 + vlen (snd p) <= expect (mem y0)) (concat work) ->
    let c := exec true false (start (mem y0) work) sched in
    quiescent c = true -> cnt (sh c) <= cap (sh c) /\ held vlen (sh c) <= cap (sh c).
  Proof.
    intros S LC F c QU.
    assert (F1 : Forall (fun p => valid_id (node (mem y0)) (fst p)) (concat work)).
    { eapply Forall_impl; [|exact F]. cbn. tauto. }
    destruct (locked_quiescent_inv Q y0 work sched S F1 QU) as (y' & R & M & _ & JL). fold c in R, M, JL.
    rewrite <- M. eapply (history_within_capacity vlen vhead8 dec _ Q y0 y' S LC); [|exact R].
    apply Forall_forall. intros o Ho. apply in_map_iff in Ho as (p & <- & Hp). cbn [small_op].
    rewrite Forall_forall in F. exact (F p (JL p Hp)).
  Qed.
  (* ---------------- C06 over concurrent histories: radius clauses at every point where nobody is inside Put *)
  Lemma locked_lockfree_run Q (y0 : sys (V:=V)) work sched :
    SInv vlen Q y0 -> Forall (fun p => valid_id (node (mem y0)) (fst p)) (concat work) ->
    let c := exec true false (start (mem y0) work) sched in
    lock c = None ->
    exists y', run y0 (map (fun p => OPut (fst p) (snd p)) (log c)) = Ok y' /\ mem y' = sh c /\
      SInv vlen (fun k v => Q k v \/ was_put (node (mem y0)) (map (fun p => OPut (fst p) (snd p)) (log c)) k v) y' /\
      (forall p, In p (log c) -> In p (concat work)) /\ node (sh c) = node (mem y0).
  Proof.
    intros S F c LF. pose proof S as ((_ & HN & _) & _).
    destruct (locked_is_serial (mem y0) work sched HN) as (SER & _). fold c in SER.
    pose proof (exec_jinv (concat work) true false sched _ (start_jinv (mem y0) work)) as (JL & _). fold c in JL.
    pose proof (exec_locked_inv (mem y0) sched (start (mem y0) work) HN (start_inv (mem y0) work)) as (NE & _). fold c in NE.
    assert (FL : Forall (fun p => valid_id (node (mem y0)) (fst p)) (log c)).
    { apply Forall_forall. intros p Hp. rewrite Forall_forall in F. apply F, JL, Hp. }
    destruct (seq_puts_run Q (log c) y0 S FL) as (y' & R & M & S').
    exists y'. split; [exact R|]. split; [rewrite M; symmetry; apply SER, LF|]. split; [exact S'|]. split; [exact JL | exact NE].
  Qed.

  Lemma puts_are_puts (l : list (bytes * V)) : forallb (is_put_or_get (V:=V)) (map (fun p => OPut (fst p) (snd p)) l) = true.
  Proof. induction l as [|p l IH]; [reflexivity | exact IH]. Qed.

  Lemma puts_valid nd (l : list (bytes * V)) : Forall (fun p => valid_id nd (fst p)) l ->
    Forall (valid_op nd) (map (fun p => OPut (fst p) (snd p)) l).
  Proof. intros F. apply Forall_forall. intros o Ho. apply in_map_iff in Ho as (p & <- & Hp). rewrite Forall_forall in F. exact (F p Hp). Qed.

  (* with the radius check inside the lock (the code as it is): whenever nobody is inside Put - after every schedule -
     every retained item is within the radius, and the radius has not grown *)
  Theorem conc_radius_inv Q (y0 : sys (V:=V)) work sched :
    good dec -> SInv vlen Q y0 -> RInv dec (mem y0) ->
    Forall (fun p => valid_id (node (mem y0)) (fst p)) (concat work) ->
    let c := exec true false (start (mem y0) work) sched in
    lock c = None -> RInv dec (sh c) /\ rad (sh c) <= rad (mem y0).
  Proof.
    intros G S R F c LF. destruct (locked_lockfree_run Q y0 work sched S F LF) as (y' & RU & M & _ & JL & _). fold c in RU, M, JL.
    assert (FL : Forall (fun p => valid_id (node (mem y0)) (fst p)) (log c)).
    { apply Forall_forall. intros p Hp. rewrite Forall_forall in F. apply F, JL, Hp. }
    rewrite <- M. split.
    - eapply (run_rinv vlen vhead8 dec _ Q y0 y' G S (puts_valid _ _ FL) R RU).
    - eapply (run_radius_antitone vlen vhead8 dec _ Q y0 y' G S R (puts_valid _ _ FL) (puts_are_puts _) RU).
  Qed.

  Lemma cstep_log locked outside (c : cstate (V:=V)) i : exists l, log (cstep locked outside c i) = log c ++ l.
  Proof.
    unfold StorageConc.cstep. destruct (nth_error (thrs c) i) as [t|]; [|exists []; now rewrite app_nil_r].
    destruct (cur t) as [[[id v] pc]|].
    - destruct pc; try (destruct (outside && locked && _ && _); [destruct (taken c); [exists []; now rewrite app_nil_r | eexists; reflexivity]
                        | destruct (micro (sh c) id v _); exists []; now rewrite app_nil_r]).
      exists []. now rewrite app_nil_r.
    - destruct (todo t) as [|[id v] rest]; [exists []; now rewrite app_nil_r|].
      destruct outside; [exists []; now rewrite app_nil_r|].
      destruct (locked && taken c); [exists []; now rewrite app_nil_r | eexists; reflexivity].
  Qed.

  Lemma exec_log locked outside sched : forall c : cstate (V:=V), exists l, log (exec locked outside c sched) = log c ++ l.
  Proof.
    induction sched as [|i r IH]; intros c; [exists []; now rewrite app_nil_r|]. cbn [StorageConc.exec fold_left].
    destruct (cstep_log locked outside c i) as (l1 & E1). destruct (IH (cstep locked outside c i)) as (l2 & E2).
    exists (l1 ++ l2). unfold StorageConc.exec in E2. now rewrite E2, E1, app_assoc.
  Qed.

  (* ... and between any two such points of one execution the radius only shrinks *)
  Theorem conc_radius_antitone Q (y0 : sys (V:=V)) work sched1 sched2 :
    good dec -> SInv vlen Q y0 -> RInv dec (mem y0) ->
    Forall (fun p => valid_id (node (mem y0)) (fst p)) (concat work) ->
    let c1 := exec true false (start (mem y0) work) sched1 in
    let c2 := exec true false c1 sched2 in
    lock c1 = None -> lock c2 = None -> rad (sh c2) <= rad (sh c1).
  Proof.
    intros G S R F c1 c2 L1 L2.
    assert (E2 : c2 = exec true false (start (mem y0) work) (sched1 ++ sched2)).
    { unfold c2, c1, StorageConc.exec. now rewrite fold_left_app. }
    destruct (locked_lockfree_run Q y0 work sched1 S F L1) as (y1 & RU1 & M1 & S1 & JL1 & N1). fold c1 in RU1, M1, S1, JL1, N1.
    rewrite E2 in L2. destruct (locked_lockfree_run Q y0 work (sched1 ++ sched2) S F L2) as (y2 & RU2 & M2 & _ & JL2 & _).
    rewrite <- E2 in RU2, M2, JL2.
    destruct (exec_log true false sched2 c1) as (l & EL). fold c2 in EL.
    rewrite EL, map_app, run_app, RU1 in RU2. cbn [bind] in RU2.
    assert (FL1 : Forall (fun p => valid_id (node (mem y0)) (fst p)) (log c1)).
    { apply Forall_forall. intros p Hp. rewrite Forall_forall in F. apply F, JL1, Hp. }
    assert (Fl : Forall (fun p => valid_id (node (mem y1)) (fst p)) l).
    { apply Forall_forall. intros p Hp. rewrite M1, N1. rewrite Forall_forall in F. apply F, JL2. rewrite EL. apply in_or_app. now right. }
    assert (R1 : RInv dec (mem y1)) by (eapply (run_rinv vlen vhead8 dec _ Q y0 y1 G S (puts_valid _ _ FL1) R RU1)).
    rewrite <- M1, <- M2.
    eapply (run_radius_antitone vlen vhead8 dec _ _ y1 y2 G S1 R1 (puts_valid _ _ Fl) (puts_are_puts _) RU2).
  Qed.
  (* C17/C05 "the persisted usage figure is not below the bytes actually present", over concurrent histories of the
     locked machine: at every point where nobody is inside Put the record on disk is the counter and covers what is held *)
  Theorem conc_record_covers_bytes Q (y0 : sys (V:=V)) work sched :
    SInv vlen Q y0 -> Forall (fun p => valid_id (node (mem y0)) (fst p)) (concat work) ->
    let c := exec true false (start (mem y0) work) sched in
    lock c = None ->
    held vlen (sh c) <= cnt (sh c) /\
    (rec (sdb (sh c)) = None /\ cnt (sh c) = 0 \/ rec (sdb (sh c)) = Some (SizeRec (cnt (sh c)))).
  Proof.
    intros S F c LF. destruct (locked_lockfree_run Q y0 work sched S F LF) as (y' & _ & M & (I & _) & _). fold c in M.
    rewrite <- M. eapply inv_meaning. exact I.
  Qed.
End ConcFacts.

(* ================================================================ the unlocked code: two prune passes over one snapshot *)

(* a 1 MB store holding three 300 kB items; two goroutines put 100 kB each *)
Definition conc_s0 : st (V:=N) :=
  match run nv_len nv_head le_to_N (init 1 K_contentDeletionPPM zero32)
          [OPut (key32 x00 x01) 300000; OPut (key32 x00 x02) 300000; OPut (key32 x00 x03) 300000] with
  | Ok y => mem y
  | _ => mem (init 1 K_contentDeletionPPM zero32)
  end.
Definition conc_work : list (list (bytes * N)) := [[(key32 x00 x05, 100000)]; [(key32 x00 x06, 100000)]].
(* both add and commit (the counter passes the capacity twice), both scan the same database, both subtract *)
Definition conc_sched : list nat := [0; 0; 0; 0; 1; 1; 1; 1; 0; 1; 0; 0; 1; 1; 0; 1]%nat.

Lemma conc_unlocked_refuted :
  let c := exec nv_len le_to_N false false (start conc_s0 conc_work) conc_sched in
  quiescent c = true /\
  cnt (sh c) = 900096 /\ held nv_len (sh c) = 1000128 /\          (* the usage figure under-reports what is held ... *)
  rec (sdb (sh c)) = Some (SizeRec 900096) /\                       (* ... and so does the persisted record ... *)
  cap (sh c) < held nv_len (sh c).                                  (* ... while the bytes held exceed the capacity *)
Proof. vm_compute. repeat split; reflexivity. Qed.

(* the same schedule with the mutex: the serial result, within capacity *)
Lemma conc_locked_same_schedule :
  let c := exec nv_len le_to_N true false (start conc_s0 conc_work) (conc_sched ++ conc_sched) in
  quiescent c = true /\ held nv_len (sh c) <= cnt (sh c) /\ cnt (sh c) <= cap (sh c).
Proof. vm_compute. repeat split; discriminate. Qed.

(* ================================================================ the radius check made BEFORE Lock() (seeded variant) *)

(* big-endian decoder (the reading the property fixes), 1 MB store holding 00..01, 00..02, 00..03 (300 kB each).
   B passes the radius check (radius = maximum) for the far id 00..c8 and waits for the lock; A puts 00..04 (150 kB),
   goes over capacity, prunes and shrinks the radius to 3; then B stores its item at distance 200. *)
Definition chk_s0 : st (V:=N) :=
  match run nv_len nv_head be_to_N (init 1 K_contentDeletionPPM zero32)
          [OPut (key32 x00 x01) 300000; OPut (key32 x00 x02) 300000; OPut (key32 x00 x03) 300000] with
  | Ok y => mem y
  | _ => mem (init 1 K_contentDeletionPPM zero32)
  end.
Definition chk_work2 : list (list (bytes * N)) := [[(key32 x00 x04, 150000)]; [(key32 x00 xc8, 17)]].
(* B: start, check.  A: start, check, lock, add, commit, scan, load, store, return.  B: lock, add, commit, return *)
Definition chk_sched2 : list nat := [1; 1; 0; 0; 0; 0; 0; 0; 0; 0; 0; 1; 1; 1; 1]%nat.

Lemma check_outside_lock_refuted :
  let c := exec nv_len be_to_N true true (start chk_s0 chk_work2) chk_sched2 in
  quiescent c = true /\ lock c = None /\ rad (sh c) = 3 /\
  In (key32 x00 xc8, 17) (kv (sdb (sh c))) /\ rad (sh c) < be_to_N (key32 x00 xc8).
Proof. vm_compute. repeat split; try reflexivity. tauto. Qed.

(* the same goroutines and scheduler choices with the check inside the lock: B is refused *)
Lemma check_inside_lock_same_schedule :
  let c := exec nv_len be_to_N true false (start chk_s0 chk_work2) (chk_sched2 ++ chk_sched2) in
  quiescent c = true /\ rad (sh c) = 3 /\ lookup (key32 x00 xc8) (kv (sdb (sh c))) = None.
Proof. vm_compute. repeat split; reflexivity. Qed.

(* three goroutines: two far items (00..c8 small, 00..fa 60 kB) slip in the same way; A's next over-capacity put
   prunes 00..fa, stops at 00..c8 - and the advertised radius GROWS from 3 to 200 *)
Definition chk_work3 : list (list (bytes * N)) :=
  [[(key32 x00 x04, 150000); (key32 x00 x01, 300000)]; [(key32 x00 xc8, 17)]; [(key32 x00 xfa, 60000)]].
Definition chk_sched3 : list nat :=
  [1; 1; 2; 2; 0; 0; 0; 0; 0; 0; 0; 0; 0; 1; 1; 1; 1; 2; 2; 2; 2; 0; 0; 0; 0; 0; 0; 0; 0; 0]%nat.
Lemma check_outside_lock_radius_grows :
  let c1 := exec nv_len be_to_N true true (start chk_s0 chk_work3) (firstn 13 chk_sched3) in
  let c2 := exec nv_len be_to_N true true (start chk_s0 chk_work3) chk_sched3 in
  lock c1 = None /\ rad (sh c1) = 3 /\ quiescent c2 = true /\ rad (sh c2) = 200.
Proof. vm_compute. repeat split; reflexivity. Qed.

(* ================================================================ prune outside the writers' lock (seeded variant):
   a put lands between the prune's counter load and its counter store *)
Definition pdp_s0 : st (V:=N) :=
  match run nv_len nv_head le_to_N (init 1 K_contentDeletionPPM zero32)
          [OPut (key32 x00 x10) 300000; OPut (key32 x00 x20) 300000; OPut (key32 x00 x30) 300000] with
  | Ok y => mem y
  | _ => mem (init 1 K_contentDeletionPPM zero32)
  end.
Definition pdp_work : list (list (bytes * N)) := [[(key32 x00 x40, 150000); (key32 x00 x02, 1000)]; [(key32 x00 x01, 1000)]].
(* A: start, check, add, commit, scan, load.  B: start, check, add, commit.  A: store (overwrites B's add), return.
   B: its own pruning pass (scan, load, store), return.  A: one more put.  The counter and every later size record
   miss B's item *)
Definition pdp_sched : list nat := [0; 0; 0; 0; 0; 0; 1; 1; 1; 1; 0; 0; 1; 1; 1; 1; 0; 0; 0; 0; 0]%nat.
Lemma put_during_prune_refuted :
  let c := exec nv_len le_to_N false false (start pdp_s0 pdp_work) pdp_sched in
  quiescent c = true /\
  match rec (sdb (sh c)) with Some (SizeRec n) => n <? held nv_len (sh c) = true | _ => False end /\
  cnt (sh c) <? held nv_len (sh c) = true.
Proof. vm_compute. repeat split; reflexivity. Qed.
