(* Proofs/Offer.v : theorems about Model/Offer.v (C09). *)
From Shisui Require Import Base.Bytes Model.Framing Proofs.Framing Model.Versions Proofs.Versions Model.Offer Gen.K_wire.
From Coq Require Import ZifyBool ZifyN ZifyNat.
Ltac Zify.zify_post_hook ::= Z.div_mod_to_equations.

Local Arguments N.ltb : simpl never.
Local Arguments N.eqb : simpl never.
Local Arguments N.mul : simpl never.
Local Arguments N.add : simpl never.
Local Arguments N.div : simpl never.
Local Arguments N.modulo : simpl never.
Local Arguments Nat.div : simpl never.
Local Arguments Nat.ltb : simpl never.

(* ================================================================ bitlists *)

Lemma chunk_ind (P : list bool -> Prop) :
  (forall l, (length l < 8)%nat -> P l) ->
  (forall b0 b1 b2 b3 b4 b5 b6 b7 r, P r -> P (b0 :: b1 :: b2 :: b3 :: b4 :: b5 :: b6 :: b7 :: r)) ->
  forall l, P l.
Proof.
  intros Hs Hc l. remember (length l) as n eqn:E. revert l E.
  induction n as [n IH] using lt_wf_ind. intros l E.
  destruct l as [|b0 [|b1 [|b2 [|b3 [|b4 [|b5 [|b6 [|b7 r]]]]]]]]; try (apply Hs; simpl; lia).
  apply Hc. apply (IH (length r)); [subst; simpl; lia | reflexivity].
Qed.

Lemma byte_bits_of_bits b0 b1 b2 b3 b4 b5 b6 b7 :
  byte_bits (Byte.of_bits (b0, (b1, (b2, (b3, (b4, (b5, (b6, b7)))))))) = [b0; b1; b2; b3; b4; b5; b6; b7].
Proof. unfold byte_bits. now rewrite Byte.to_bits_of_bits. Qed.

Lemma enc_short l f : (length l < 8)%nat -> bl_encode_aux (S f) l = [bits_byte (l ++ [true])].
Proof.
  intros H. destruct l as [|b0 [|b1 [|b2 [|b3 [|b4 [|b5 [|b6 [|b7 r]]]]]]]]; try reflexivity. cbn [length] in H; lia.
Qed.

Lemma enc_nonempty l f : exists y t, bl_encode_aux (S f) l = y :: t.
Proof.
  destruct l as [|b0 [|b1 [|b2 [|b3 [|b4 [|b5 [|b6 [|b7 r]]]]]]]]; cbn [bl_encode_aux]; eauto.
Qed.

Lemma len8_short l : (length l < 8)%nat -> len8 (bits_byte (l ++ [true])) = S (length l).
Proof.
  intros H. unfold len8, bits_byte.
  destruct l as [|b0 [|b1 [|b2 [|b3 [|b4 [|b5 [|b6 [|b7 r]]]]]]]]; [| | | | | | | | cbn [length] in H; lia];
    cbn [app nth]; rewrite byte_bits_of_bits; reflexivity.
Qed.

Lemma positions_app off a b : positions off (a ++ b) = positions off a ++ positions (length a + off) b.
Proof.
  revert off; induction a as [|x a IH]; intros off; [reflexivity|]. cbn [app positions length].
  rewrite IH. replace (length a + S off)%nat with (S (length a) + off)%nat by lia. now destruct x.
Qed.

Lemma indices_short l off : (length l < 8)%nat ->
  positions off (clear_msb (byte_bits (bits_byte (l ++ [true])))) = positions off l.
Proof.
  intros H. unfold bits_byte.
  destruct l as [|b0 [|b1 [|b2 [|b3 [|b4 [|b5 [|b6 [|b7 r]]]]]]]]; [| | | | | | | | cbn [length] in H; lia];
    cbn [app nth]; rewrite byte_bits_of_bits; unfold clear_msb; cbn [last_true_from clear_at];
    repeat match goal with b : bool |- _ => destruct b end; reflexivity.
Qed.

Lemma bl_len_enc : forall l f, (length l < f)%nat -> bl_len_opt (bl_encode_aux f l) = Some (length l).
Proof.
  intros l. pattern l. apply chunk_ind; clear l.
  - intros l H f Hf. destruct f as [|f]; [lia|]. rewrite enc_short by assumption.
    cbn [bl_len_opt]. now rewrite len8_short.
  - intros b0 b1 b2 b3 b4 b5 b6 b7 r IH f Hf. destruct f as [|f]; [simpl in Hf; lia|].
    cbn [bl_encode_aux]. destruct f as [|f]; [simpl in Hf; lia|].
    destruct (enc_nonempty r f) as (y & t & E). specialize (IH (S f)). rewrite E in *.
    cbn [bl_len_opt] in *. cbn [bl_len_opt]. rewrite IH by (simpl in Hf; lia). simpl. reflexivity.
Qed.

Lemma bit_indices_cons2 off x y t :
  bit_indices_from off (x :: y :: t) = positions off (byte_bits x) ++ bit_indices_from (8 + off) (y :: t).
Proof. reflexivity. Qed.

Lemma bit_indices_enc : forall l f off, (length l < f)%nat -> bit_indices_from off (bl_encode_aux f l) = positions off l.
Proof.
  intros l. pattern l. apply chunk_ind; clear l.
  - intros l H f off Hf. destruct f as [|f]; [lia|]. rewrite enc_short by assumption.
    cbn [bit_indices_from]. now apply indices_short.
  - intros b0 b1 b2 b3 b4 b5 b6 b7 r IH f off Hf. destruct f as [|f]; [simpl in Hf; lia|].
    cbn [bl_encode_aux]. destruct f as [|f]; [simpl in Hf; lia|].
    destruct (enc_nonempty r f) as (y & t & E). specialize (IH (S f) (8 + off)%nat). rewrite E in *.
    rewrite bit_indices_cons2. rewrite IH by (simpl in Hf; lia). rewrite byte_bits_of_bits.
    change (b0 :: b1 :: b2 :: b3 :: b4 :: b5 :: b6 :: b7 :: r) with ([b0; b1; b2; b3; b4; b5; b6; b7] ++ r).
    now rewrite positions_app.
Qed.

Lemma enc_length : forall l f, (length l < f)%nat -> (8 * length (bl_encode_aux f l) <= length l + 8)%nat.
Proof.
  intros l. pattern l. apply chunk_ind; clear l.
  - intros l H f Hf. destruct f as [|f]; [lia|]. rewrite enc_short by assumption. simpl. lia.
  - intros b0 b1 b2 b3 b4 b5 b6 b7 r IH f Hf. destruct f as [|f]; [simpl in Hf; lia|].
    cbn [bl_encode_aux length]. specialize (IH f). simpl in Hf. lia.
Qed.

(* the serialisation of a bitlist with content bs reads back as: length |bs|, set positions = the true entries *)
Theorem bl_len_encode bs : bl_len (bl_encode bs) = length bs.
Proof. unfold bl_len, bl_encode. rewrite bl_len_enc by lia. reflexivity. Qed.

Theorem bit_indices_encode bs : bit_indices (bl_encode bs) = positions 0 bs.
Proof. unfold bit_indices, bl_encode. apply bit_indices_enc. lia. Qed.

Theorem validate_encode bs : (length bs <= 64)%nat -> validate_bitlist (bl_encode bs) accept_keys_limit = Ok tt.
Proof.
  intros H. unfold validate_bitlist, bl_encode.
  destruct (enc_nonempty bs (length bs)) as (y & t & E). rewrite E.
  pose proof (enc_length bs (S (length bs)) ltac:(lia)) as L. rewrite E in L.
  pose proof (bl_len_enc bs (S (length bs)) ltac:(lia)) as B. rewrite E in B. rewrite B.
  unfold accept_keys_limit. change (64 / 8 + 1)%nat with 9%nat.
  destruct (Nat.ltb 9 (length (y :: t))) eqn:C; [apply Nat.ltb_lt in C; lia|].
  destruct (Nat.ltb 64 (length bs)) eqn:D; [apply Nat.ltb_lt in D; lia|]. reflexivity.
Qed.

(* ================================================================ list helpers *)

Lemma positions_lt off l i : In i (positions off l) -> (off <= i < off + length l)%nat.
Proof.
  revert off; induction l as [|x l IH]; intros off H; [destruct H|]. cbn [positions] in H.
  destruct x; [destruct H as [H|H]; [subst; simpl; lia|]|]; apply IH in H; simpl; lia.
Qed.

Lemma positions_true off l i : In i (positions off l) -> nth_error l (i - off) = Some true.
Proof.
  revert off; induction l as [|x l IH]; intros off H; [destruct H|]. cbn [positions] in H.
  destruct x.
  - destruct H as [H|H]; [subst; now rewrite Nat.sub_diag|].
    pose proof (positions_lt _ _ _ H). apply IH in H. replace (i - off)%nat with (S (i - S off)) by lia. exact H.
  - pose proof (positions_lt _ _ _ H). apply IH in H. replace (i - off)%nat with (S (i - S off)) by lia. exact H.
Qed.

Lemma positions_nil_iff off l : positions off l = [] <-> existsb (fun x => x) l = false.
Proof.
  revert off; induction l as [|x l IH]; intros off; [easy|]. cbn [positions existsb]. destruct x; [easy|]. apply IH.
Qed.

(* gather picks exactly what the flags select *)
Lemma gather_select {A} (pre : list A) : forall (flags : list bool) (l : list A),
  length flags = length l ->
  gather (pre ++ l) (positions (length pre) flags) = Ok (select flags l).
Proof.
  intros flags; revert pre; induction flags as [|f fr IH]; intros pre l H; destruct l as [|x r]; try discriminate; [reflexivity|].
  cbn [positions select]. simpl in H.
  assert (E : pre ++ x :: r = (pre ++ [x]) ++ r) by now rewrite <- app_assoc.
  assert (L : S (length pre) = length (pre ++ [x])) by (rewrite app_length; simpl; lia).
  destruct f.
  - cbn [gather]. unfold idx at 1. rewrite nth_error_app2 by lia. rewrite Nat.sub_diag. cbn [nth_error bind].
    rewrite E, L, IH by lia. reflexivity.
  - rewrite E, L, IH by lia. reflexivity.
Qed.

Lemma select_length_le {A} flags (l : list A) : (length (select flags l) <= length l)%nat.
Proof. revert l; induction flags as [|f fr IH]; intros [|x r]; simpl; try lia. specialize (IH r). destruct f; simpl; lia. Qed.

Lemma select_map {A B} (g : A -> B) flags (l : list A) : select flags (map g l) = map g (select flags l).
Proof. revert l; induction flags as [|f fr IH]; intros [|x r]; simpl; try reflexivity. destruct f; simpl; now rewrite IH. Qed.

Lemma select_combine {A B} flags (a : list A) (b : list B) :
  length a = length b -> select flags (combine a b) = combine (select flags a) (select flags b).
Proof.
  revert a b; induction flags as [|f fr IH]; intros [|x a] [|y b] H; simpl; try reflexivity; try discriminate.
  simpl in H. destruct f; simpl; rewrite IH by lia; reflexivity.
Qed.

Lemma select_filter {A} (p : A -> bool) (l : list A) : select (map p l) l = filter p l.
Proof. induction l as [|x l IH]; simpl; [reflexivity|]. destruct (p x); now rewrite IH. Qed.

Lemma select_all_false {A} (l : list A) n : select (repeat false n) l = [].
Proof. revert l; induction n as [|n IH]; intros [|x r]; simpl; auto. Qed.

Lemma Forall_select {A} (P : A -> Prop) flags (l : list A) : Forall P l -> Forall P (select flags l).
Proof.
  revert l; induction flags as [|f fr IH]; intros [|x r] H; simpl; auto. inversion H; subst.
  destruct f; [constructor|]; auto.
Qed.

(* ================================================================ ACCEPT codec *)

Lemma unmarshal_head_marshal a b body :
  unmarshal_accept_head (a :: b :: x06 :: x00 :: x00 :: x00 :: body) = Ok ([a; b], body).
Proof.
  unfold unmarshal_accept_head.
  assert (L : Nat.ltb (length (a :: b :: x06 :: x00 :: x00 :: x00 :: body)) 6 = false)
    by (apply Nat.ltb_ge; simpl; lia).
  rewrite L. unfold slice. cbn [length Nat.leb andb].
  replace (Nat.leb (length body) (length body)) with true by (symmetry; apply Nat.leb_refl).
  cbn [Nat.sub skipn firstn bind le32_dec idx nth_error].
  change (b2n x06 + 256 * b2n x00 + 65536 * b2n x00 + 16777216 * b2n x00) with 6.
  assert (Q : (nlen (a :: b :: x06 :: x00 :: x00 :: x00 :: body) <? 6) = false) by (unfold nlen; simpl length; lia).
  rewrite Q. cbn [negb N.eqb]. change (6 =? 6) with true. cbn [negb].
  rewrite Nat.sub_0_r. now rewrite firstn_all.
Qed.

Lemma be16_shape v : exists a b, be16 v = [a; b].
Proof. unfold be16. eauto. Qed.

Lemma be16_roundtrip v : v < 65536 -> be16_dec (be16 v) = Ok v.
Proof.
  intros H. unfold be16, be16_dec, idx. cbn [nth_error bind]. f_equal.
  rewrite !b2n_n2b. assert (v / 256 < 256) by (apply N.div_lt_upper_bound; lia).
  rewrite (N.mod_small (v / 256)) by lia. pose proof (N.div_mod v 256). lia.
Qed.

Lemma code_indices_spec codes off : Forall (fun c => c < 256) codes ->
  code_indices off (map n2b codes) = positions off (map (fun c => c =? K_acc_Accepted) codes).
Proof.
  revert off; induction codes as [|c r IH]; intros off H; [reflexivity|]. inversion H; subst.
  cbn [map code_indices positions]. rewrite b2n_n2b_small by assumption. now rewrite IH.
Qed.

(* ================================================================ the filters *)

Definition code_of (nv : nodeview) (k : bytes) : N :=
  if negb (nv_inrange nv k) then K_acc_NotWithinRadius
  else if nv_stored nv k then K_acc_AlreadyStored
  else if nv_inflight nv k then K_acc_InboundTransferInProgress
  else K_acc_Accepted.

Lemma code_of_accepted nv k : (code_of nv k =? K_acc_Accepted) = acceptable_v1 nv k.
Proof.
  unfold code_of, acceptable_v1. destruct (nv_inrange nv k), (nv_stored nv k), (nv_inflight nv k); reflexivity.
Qed.

Lemma code_of_small nv k : code_of nv k < 256.
Proof. unfold code_of. destruct (nv_inrange nv k), (nv_stored nv k), (nv_inflight nv k); vm_compute; reflexivity. Qed.

Lemma filter_v1_loop_spec nv : forall keys codes acc c a,
  filter_v1_loop nv keys codes acc = Ok (c, a) ->
  c = codes ++ map (code_of nv) keys /\ a = acc ++ filter (acceptable_v1 nv) keys.
Proof.
  induction keys as [|k r IH]; intros codes acc c a H; cbn [filter_v1_loop] in H.
  - inversion H; subst. now rewrite !app_nil_r.
  - destruct (nv_nilid nv k); [discriminate|].
    cbn [map filter]. unfold code_of, acceptable_v1.
    destruct (nv_inrange nv k); cbn [negb andb] in *.
    + destruct (nv_stored nv k); cbn [negb andb] in *.
      * apply IH in H as [-> ->]. now rewrite <- app_assoc.
      * destruct (nv_inflight nv k); cbn [negb] in *; apply IH in H as [-> ->]; now rewrite <- !app_assoc.
    + apply IH in H as [-> ->]. now rewrite <- app_assoc.
Qed.

Lemma set_nth_true_app done rest : set_nth_true (length done) (done ++ false :: rest) = done ++ true :: rest.
Proof. induction done as [|x d IH]; [reflexivity|]. cbn [length app set_nth_true]. now rewrite IH. Qed.

Lemma filter_v0_loop_spec nv : forall keys done acc bits' acc',
  filter_v0_loop nv keys (length done) (done ++ repeat false (length keys)) acc = Ok (bits', acc') ->
  bits' = done ++ map (acceptable_v0 nv) keys /\ acc' = acc ++ filter (acceptable_v0 nv) keys.
Proof.
  induction keys as [|k r IH]; intros done acc bits' acc' H; cbn [filter_v0_loop] in H.
  - inversion H; subst. now rewrite !app_nil_r.
  - destruct (nv_nilid nv k); [discriminate|].
    cbn [map filter length repeat] in *. unfold acceptable_v0.
    assert (E1 : forall b, done ++ b :: repeat false (length r) = (done ++ [b]) ++ repeat false (length r))
      by (intros; now rewrite <- app_assoc).
    assert (L : S (length done) = length (done ++ [false])) by (rewrite app_length; simpl; lia).
    assert (L' : S (length done) = length (done ++ [true])) by (rewrite app_length; simpl; lia).
    destruct (nv_inrange nv k); cbn [negb andb] in *.
    + destruct (nv_stored nv k); cbn [negb andb] in *.
      * rewrite E1, L in H. apply IH in H as [-> ->]. now rewrite <- app_assoc.
      * rewrite set_nth_true_app, E1, L' in H. apply IH in H as [-> ->]. now rewrite <- !app_assoc.
    + rewrite E1, L in H. apply IH in H as [-> ->]. now rewrite <- app_assoc.
Qed.

Lemma filter_v0_spec nv keys bits akeys :
  filter_v0 nv keys = Ok (bits, akeys) ->
  bits = map (fun k => nv_queue_room nv && acceptable_v0 nv k) keys /\
  akeys = select bits keys.
Proof.
  unfold filter_v0, bl_new. destruct (nv_queue_room nv); intros H.
  - apply (filter_v0_loop_spec nv keys [] []) in H as [-> ->]. cbn [app andb]. split; [reflexivity|].
    now rewrite select_filter.
  - inversion H; subst. split.
    + clear H. induction keys; simpl; [reflexivity|]. now f_equal.
    + now rewrite select_all_false.
Qed.

Lemma filter_v1_spec nv keys codes akeys :
  filter_v1 nv keys = Ok (codes, akeys) ->
  codes = map (code_of nv) keys /\ akeys = select (map (acceptable_v1 nv) keys) keys.
Proof.
  unfold filter_v1. intros H. apply filter_v1_loop_spec in H as [-> ->]. cbn [app].
  split; [reflexivity | now rewrite select_filter].
Qed.

(* ================================================================ handleOffer *)

Definition anyb (l : list bool) : bool := existsb (fun x => x) l.

Lemma select_nil_iff {A} flags (l : list A) : length flags = length l -> (select flags l = [] <-> anyb flags = false).
Proof.
  revert l; induction flags as [|f fr IH]; intros [|x r] H; try discriminate; [easy|]. simpl in H.
  cbn [select anyb existsb]. destruct f; [easy|]. apply IH. lia.
Qed.

Lemma map_andb_true {A} (f : A -> bool) l : map (fun k => f k && true) l = map f l.
Proof. apply map_ext. intros. apply andb_true_r. Qed.
Lemma map_andb_false {A} (f : A -> bool) l : map (fun k => f k && false) l = repeat false (length l).
Proof. induction l; simpl; [reflexivity|]. rewrite andb_false_r. now f_equal. Qed.
Lemma anyb_false_map {A} (f : A -> bool) l g : anyb (map f l) = false -> map (fun k => f k && g) l = map f l.
Proof.
  induction l as [|x l IH]; [reflexivity|]. cbn [map anyb existsb]. intros H. apply orb_false_iff in H as [H1 H2].
  rewrite H1. cbn [andb]. f_equal. now apply IH.
Qed.
Lemma anyb_repeat_false n : anyb (repeat false n) = false.
Proof. induction n; simpl; auto. Qed.
Lemma positions_repeat_false off n : positions off (repeat false n) = [].
Proof. revert off; induction n; intros; simpl; auto. Qed.

(* the verdict the node is entitled to give for each key *)
Definition final_flags (v : N) (nv : nodeview) (pf : bool) (keys : list bytes) : list bool :=
  if v =? 0 then map (fun k => nv_queue_room nv && acceptable_v0 nv k && pf) keys
  else map (fun k => acceptable_v1 nv k && pf) keys.

Lemma final_flags_length v nv pf keys : length (final_flags v nv pf keys) = length keys.
Proof. unfold final_flags. destruct (v =? 0); now rewrite map_length. Qed.

Definition accept_payload (idv : N) (body : bytes) : bytes := be16 idv ++ [x06; x00; x00; x00] ++ body.

Lemma marshal_accept_ok idv body : (length body <= 64)%nat -> marshal_accept (be16 idv) body = Ok (accept_payload idv body).
Proof.
  intros H. unfold marshal_accept, accept_keys_limit. cbn [be16 length Nat.eqb negb].
  destruct (Nat.ltb 64 (length body)) eqn:E; [apply Nat.ltb_lt in E; lia | reflexivity].
Qed.
Lemma marshal_accept_inv idv body m : marshal_accept (be16 idv) body = Ok m -> m = accept_payload idv body.
Proof.
  unfold marshal_accept. cbn [be16 length Nat.eqb negb]. destruct (Nat.ltb accept_keys_limit (length body)); [discriminate|].
  intros H; now inversion H.
Qed.

Definition offer_reply (v : N) (flags : list bool) (body : bytes) : Prop :=
  (v = 0 /\ body = bl_encode flags) \/
  (v = 1 /\ length body = length flags /\ code_indices 0 body = positions 0 flags).

(* shape of everything handleOffer produces, in terms of the verdict flags *)
Theorem handle_offer_shape v nv pf cid keys r :
  v = 0 \/ v = 1 ->
  handle_offer (Ok v) nv pf cid keys = Ok r ->
  let flags := final_flags v nv pf keys in
  let listening := anyb flags in
  exists body,
    offer_reply v flags body /\
    or_reply r = n2b K_msg_ACCEPT :: accept_payload (if listening then cid else 0) body /\
    or_listen r = (if listening then Some (cid, select flags keys) else None) /\
    or_permit_taken r = listening.
Proof.
  intros [-> | ->] H; unfold handle_offer, handle_offer_gen in H; cbn [accept_kind_of N.eqb] in H.
  - (* version 0 *)
    change (accept_kind_of 0) with (Ok AcceptBitlist) in H. cbv iota in H.
    destruct (filter_v0 nv keys) as [[bits akeys]| |] eqn:F; cbn [bind] in H; try discriminate.
    apply filter_v0_spec in F as [Eb Ea].
    assert (Lb : length bits = length keys) by (subst bits; now rewrite map_length).
    pose proof (select_nil_iff bits keys Lb) as SN. rewrite <- Ea in SN.
    unfold final_flags. change (0 =? 0) with true. cbv iota.
    set (f := fun k => nv_queue_room nv && acceptable_v0 nv k) in *.
    change (map (fun k => nv_queue_room nv && acceptable_v0 nv k && pf) keys) with (map (fun k => f k && pf) keys).
    destruct akeys as [|k0 ak].
    + (* nothing accepted *)
      assert (A : anyb bits = false) by now apply SN.
      assert (FF : map (fun k => f k && pf) keys = bits) by (subst bits; now apply anyb_false_map).
      cbv zeta. rewrite FF, A.
      destruct (marshal_accept (be16 0) (bl_encode bits)) as [m| |] eqn:M; cbn [bind] in H; try discriminate.
      apply marshal_accept_inv in M. inversion H; subst r m; cbn.
      exists (bl_encode bits). repeat split; auto. left; auto.
    + assert (A : anyb bits = true).
      { destruct (anyb bits) eqn:A; [reflexivity|]. destruct SN as [_ SN']. specialize (SN' eq_refl). discriminate. }
      destruct pf.
      * assert (FF : map (fun k => f k && true) keys = bits) by (subst bits; apply map_andb_true).
        cbv zeta. rewrite FF, A.
        destruct (marshal_accept (be16 cid) (bl_encode bits)) as [m| |] eqn:M; cbn [bind] in H; try discriminate.
        apply marshal_accept_inv in M. inversion H; subst r m; cbn.
        exists (bl_encode bits). rewrite Ea. repeat split; auto. left; auto.
      * assert (FF : map (fun k => f k && false) keys = repeat false (length keys)) by apply map_andb_false.
        cbv zeta. rewrite FF, anyb_repeat_false. unfold bl_new in H.
        destruct (marshal_accept (be16 0) (bl_encode (repeat false (length keys)))) as [m| |] eqn:M; cbn [bind] in H; try discriminate.
        apply marshal_accept_inv in M. inversion H; subst r m; cbn.
        exists (bl_encode (repeat false (length keys))). repeat split; auto. left; auto.
  - (* version 1 *)
    change (accept_kind_of 1) with (Ok AcceptCodes) in H. cbv iota in H.
    destruct (filter_v1 nv keys) as [[codes akeys]| |] eqn:F; cbn [bind] in H; try discriminate.
    apply filter_v1_spec in F as [Ec Ea].
    set (bits := map (acceptable_v1 nv) keys) in *.
    assert (Lb : length bits = length keys) by (subst bits; now rewrite map_length).
    pose proof (select_nil_iff bits keys Lb) as SN. rewrite <- Ea in SN.
    assert (CI : code_indices 0 (map n2b codes) = positions 0 bits).
    { rewrite code_indices_spec.
      - subst codes bits. rewrite map_map. f_equal. apply map_ext. intros; apply code_of_accepted.
      - subst codes. apply Forall_forall. intros c Hc. apply in_map_iff in Hc as (k & <- & _). apply code_of_small. }
    assert (LC : length (map n2b codes) = length keys) by (subst codes; now rewrite !map_length).
    unfold final_flags. change (1 =? 0) with false. cbv iota.
    destruct akeys as [|k0 ak].
    + assert (A : anyb bits = false) by now apply SN.
      assert (FF : map (fun k => acceptable_v1 nv k && pf) keys = bits) by (subst bits; now apply anyb_false_map).
      cbv zeta. rewrite FF, A.
      destruct (marshal_accept (be16 0) (map n2b codes)) as [m| |] eqn:M; cbn [bind] in H; try discriminate.
      apply marshal_accept_inv in M. inversion H; subst r m; cbn.
      exists (map n2b codes). repeat split; auto. right. rewrite Lb. auto.
    + assert (A : anyb bits = true).
      { destruct (anyb bits) eqn:A; [reflexivity|]. destruct SN as [_ SN']. specialize (SN' eq_refl). discriminate. }
      destruct pf.
      * assert (FF : map (fun k => acceptable_v1 nv k && true) keys = bits) by (subst bits; apply map_andb_true).
        cbv zeta. rewrite FF, A.
        destruct (marshal_accept (be16 cid) (map n2b codes)) as [m| |] eqn:M; cbn [bind] in H; try discriminate.
        apply marshal_accept_inv in M. inversion H; subst r m; cbn.
        exists (map n2b codes). rewrite Ea. repeat split; auto. right. rewrite Lb. auto.
      * assert (FF : map (fun k => acceptable_v1 nv k && false) keys = repeat false (length keys)) by apply map_andb_false.
        cbv zeta. rewrite FF, anyb_repeat_false.
        destruct (marshal_accept (be16 0) (map n2b (repeat K_acc_RateLimited (length codes)))) as [m| |] eqn:M; cbn [bind] in H; try discriminate.
        apply marshal_accept_inv in M. inversion H; subst r m; cbn.
        exists (map n2b (repeat K_acc_RateLimited (length codes))).
        assert (LK : length codes = length keys) by (subst codes; now rewrite map_length).
        repeat split; auto. right. split; [reflexivity|]. rewrite !map_length, !repeat_length. split; [assumption|].
        rewrite positions_repeat_false, LK. clear. generalize 0%nat. induction (length keys); intros; simpl; auto.
Qed.

(* ================================================================ the offerer reads the reply *)

Lemma anyb_positions flags : positions 0 flags = [] <-> anyb flags = false.
Proof. apply positions_nil_iff. Qed.

Theorem parse_reply v flags body idv :
  offer_reply v flags body -> (length flags <= 64)%nat ->
  parse_offer_resp (Ok v) (accept_payload idv body) = Ok (be16 idv, body, length flags, positions 0 flags).
Proof.
  intros [[-> ->] | (-> & L & C)] H64; unfold parse_offer_resp, accept_payload.
  - change (accept_kind_of 0) with (Ok AcceptBitlist). cbv iota.
    unfold unmarshal_accept_v0, be16. cbn [app]. rewrite unmarshal_head_marshal. cbn [bind].
    rewrite validate_encode by assumption. cbn [bind].
    now rewrite bl_len_encode, bit_indices_encode.
  - change (accept_kind_of 1) with (Ok AcceptCodes). cbv iota.
    unfold unmarshal_accept_v1, be16. cbn [app]. rewrite unmarshal_head_marshal. cbn [bind].
    unfold accept_keys_limit. destruct (Nat.ltb 64 (length body)) eqn:E; [apply Nat.ltb_lt in E; lia|].
    cbn [bind]. now rewrite L, C.
Qed.

Lemma flags_sound v nv pf keys i :
  v = 0 \/ v = 1 ->
  In i (positions 0 (final_flags v nv pf keys)) ->
  exists k, nth_error keys i = Some k /\
            nv_inrange nv k = true /\ nv_stored nv k = false /\ (v = 1 -> nv_inflight nv k = false) /\
            (v = 0 -> nv_queue_room nv = true) /\ pf = true.
Proof.
  intros Hv H. apply positions_true in H. rewrite Nat.sub_0_r in H. unfold final_flags in H.
  destruct Hv as [-> | ->]; [change (0 =? 0) with true in H | change (1 =? 0) with false in H]; cbv iota in H;
    rewrite nth_error_map in H; destruct (nth_error keys i) as [k|]; try discriminate; cbn [option_map] in H;
    injection H as E; exists k; (split; [reflexivity|]).
  - unfold acceptable_v0 in E.
    repeat match goal with X : _ && _ = true |- _ => apply andb_true_iff in X as [? ?] end.
    repeat match goal with X : negb _ = true |- _ => apply negb_true_iff in X end.
    repeat split; auto; discriminate.
  - unfold acceptable_v1 in E.
    repeat match goal with X : _ && _ = true |- _ => apply andb_true_iff in X as [? ?] end.
    repeat match goal with X : negb _ = true |- _ => apply negb_true_iff in X end.
    repeat split; auto; discriminate.
Qed.

(* reply has |keys| verdicts in order; accepted verdicts are entitled; connection id and listener agree *)
Theorem offer_reply_verdicts v nv pf cid keys r :
  v = 0 \/ v = 1 -> (length keys <= 64)%nat -> cid < 65536 ->
  handle_offer (Ok v) nv pf cid keys = Ok r ->
  exists payload connid body ixs,
    or_reply r = n2b K_msg_ACCEPT :: payload /\
    parse_offer_resp (Ok v) payload = Ok (connid, body, length keys, ixs) /\
    ixs = positions 0 (final_flags v nv pf keys) /\
    (forall i, In i ixs ->
       exists k, nth_error keys i = Some k /\ nv_inrange nv k = true /\ nv_stored nv k = false /\
                 (v = 1 -> nv_inflight nv k = false) /\ pf = true /\ or_permit_taken r = true) /\
    (ixs <> [] -> be16_dec connid = Ok cid /\ or_listen r = Some (cid, select (final_flags v nv pf keys) keys)) /\
    (ixs = [] -> be16_dec connid = Ok 0 /\ or_listen r = None /\ or_permit_taken r = false).
Proof.
  intros Hv H64 Hc H. pose proof (handle_offer_shape v nv pf cid keys r Hv H) as S. cbv zeta in S.
  destruct S as (body & OR & ER & EL & EP).
  set (flags := final_flags v nv pf keys) in *.
  assert (LF : length flags = length keys) by apply final_flags_length.
  exists (accept_payload (if anyb flags then cid else 0) body), (be16 (if anyb flags then cid else 0)), body, (positions 0 flags).
  split; [exact ER|]. split; [rewrite <- LF; apply parse_reply; [assumption | lia]|]. split; [reflexivity|].
  split; [|split].
  - intros i Hi. assert (A : anyb flags = true).
    { destruct (anyb flags) eqn:A; [reflexivity|]. apply anyb_positions in A. rewrite A in Hi. destruct Hi. }
    destruct (flags_sound v nv pf keys i Hv Hi) as (k & K1 & K2 & K3 & K4 & _ & K6).
    exists k. repeat split; auto. now rewrite EP.
  - intros NE. assert (A : anyb flags = true).
    { destruct (anyb flags) eqn:A; [reflexivity|]. apply anyb_positions in A. contradiction. }
    rewrite A in *. split; [now apply be16_roundtrip | exact EL].
  - intros E. apply anyb_positions in E. rewrite E in *. repeat split; auto; apply be16_roundtrip; lia.
Qed.

(* ================================================================ end to end *)

Lemma map_snd_combine' {A B} (a : list A) (b : list B) : length a = length b -> map snd (combine a b) = b.
Proof. revert b; induction a as [|x a IH]; intros [|y b] H; try discriminate; [reflexivity|]. simpl in *. f_equal. apply IH. lia. Qed.

Lemma select_length_eq {A B} flags (a : list A) (b : list B) :
  length a = length b -> length (select flags a) = length (select flags b).
Proof.
  revert a b; induction flags as [|f fr IH]; intros [|x a] [|y b] H; try discriminate; try reflexivity.
  simpl in H. cbn [select]. destruct f; cbn [length]; rewrite (IH a b) by lia; reflexivity.
Qed.

Lemma accept_byte : (b2n (n2b K_msg_ACCEPT) =? K_msg_ACCEPT) = true.
Proof. vm_compute. reflexivity. Qed.

Theorem offer_end_to_end v nv pf cid keys cs r lookup room :
  v = 0 \/ v = 1 -> (length keys <= 64)%nat -> cid < 65536 ->
  length cs = length keys -> Forall short cs ->
  handle_offer (Ok v) nv pf cid keys = Ok r ->
  let flags := final_flags v nv pf keys in
  let req := ReqTransient (combine keys cs) in
  (anyb flags = false ->
     or_listen r = None /\ exists body, process_offer (Ok v) lookup (or_reply r) req = Ok (body, None)) /\
  (anyb flags = true ->
     or_listen r = Some (cid, select flags keys) /\
     (exists body, process_offer (Ok v) lookup (or_reply r) req = Ok (body, Some (cid, encode_contents (select flags cs)))) /\
     handle_offered_contents (select flags keys) (encode_contents (select flags cs)) room =
       if room then Ok (Some (select flags keys, select flags cs)) else Ok None).
Proof.
  intros Hv H64 Hc HL HS H. cbv zeta.
  pose proof (handle_offer_shape v nv pf cid keys r Hv H) as S. cbv zeta in S.
  destruct S as (body & OR & ER & EL & EP).
  set (flags := final_flags v nv pf keys) in *.
  assert (LF : length flags = length keys) by apply final_flags_length.
  assert (P : forall idv, parse_offer_resp (Ok v) (accept_payload idv body) = Ok (be16 idv, body, length flags, positions 0 flags))
    by (intros; apply parse_reply; [assumption | lia]).
  assert (KC : Nat.eqb (length flags) (length (combine keys cs)) = true)
    by (apply Nat.eqb_eq; rewrite combine_length; lia).
  split; intros A; rewrite A in *.
  - split; [exact EL|]. exists body. rewrite ER. unfold process_offer. rewrite accept_byte. cbn [negb].
    rewrite P. cbn [bind req_key_count]. rewrite KC. cbn [negb].
    apply anyb_positions in A. now rewrite A.
  - split; [exact EL|]. split.
    + exists body. rewrite ER. unfold process_offer. rewrite accept_byte. cbn [negb].
      rewrite P. cbn [bind req_key_count]. rewrite KC. cbn [negb].
      destruct (positions 0 flags) as [|i0 ix] eqn:PX; [apply anyb_positions in PX; congruence|].
      rewrite be16_roundtrip by assumption. cbn [bind]. rewrite map_snd_combine' by lia.
      rewrite <- PX. change cs with ([] ++ cs) at 1. change 0%nat with (@length bytes []).
      rewrite gather_select by lia. reflexivity.
    + unfold handle_offered_contents.
      rewrite decode_encode_contents by (now apply Forall_select).
      rewrite (select_length_eq flags keys cs) by lia. rewrite Nat.eqb_refl. reflexivity.
Qed.

(* the same for a request whose contents come from the offerer's own store: every accepted key travels with what the
   offerer's store holds for it (an empty item when it holds nothing) *)
Definition stored_or_empty (lookup : bytes -> option bytes) (k : bytes) : bytes :=
  match lookup k with Some c => c | None => [] end.

Theorem offer_end_to_end_persist v nv pf cid keys r lookup room :
  v = 0 \/ v = 1 -> (length keys <= 64)%nat -> cid < 65536 ->
  (forall k c, lookup k = Some c -> short c) ->
  handle_offer (Ok v) nv pf cid keys = Ok r ->
  let flags := final_flags v nv pf keys in
  let sent := map (stored_or_empty lookup) (select flags keys) in
  anyb flags = true ->
     or_listen r = Some (cid, select flags keys) /\
     (exists body, process_offer (Ok v) lookup (or_reply r) (ReqPersist keys) = Ok (body, Some (cid, encode_contents sent))) /\
     handle_offered_contents (select flags keys) (encode_contents sent) room =
       if room then Ok (Some (select flags keys, sent)) else Ok None.
Proof.
  intros Hv H64 Hc HS H. cbv zeta.
  pose proof (handle_offer_shape v nv pf cid keys r Hv H) as S. cbv zeta in S.
  destruct S as (body & OR & ER & EL & EP).
  set (flags := final_flags v nv pf keys) in *.
  assert (LF : length flags = length keys) by apply final_flags_length.
  assert (P : forall idv, parse_offer_resp (Ok v) (accept_payload idv body) = Ok (be16 idv, body, length flags, positions 0 flags))
    by (intros; apply parse_reply; [assumption | lia]).
  assert (KC : Nat.eqb (length flags) (length keys) = true) by (apply Nat.eqb_eq; lia).
  intros A; rewrite A in *. split; [exact EL|]. split.
  - exists body. rewrite ER. unfold process_offer. rewrite accept_byte. cbn [negb].
    rewrite P. cbn [bind req_key_count]. rewrite KC. cbn [negb].
    destruct (positions 0 flags) as [|i0 ix] eqn:PX; [apply anyb_positions in PX; congruence|].
    rewrite be16_roundtrip by assumption. cbn [bind].
    rewrite <- PX. change keys with ([] ++ keys) at 1. change 0%nat with (@length bytes []).
    rewrite gather_select by lia. reflexivity.
  - unfold handle_offered_contents.
    rewrite decode_encode_contents.
    + rewrite map_length, Nat.eqb_refl. reflexivity.
    + apply Forall_forall. intros c Hc'. apply in_map_iff in Hc' as (k & <- & _). unfold stored_or_empty.
      destruct (lookup k) eqn:L; [eapply HS; eassumption | vm_compute; reflexivity].
Qed.

(* a stream with another item count (or one that does not decode) enqueues nothing *)
Theorem offered_contents_enqueue_iff keys payload room ks cs :
  handle_offered_contents keys payload room = Ok (Some (ks, cs)) <->
  room = true /\ ks = keys /\ decode_contents payload = Ok cs /\ length cs = length keys.
Proof.
  unfold handle_offered_contents. destruct (decode_contents payload) as [l| |]; split; intros H; try discriminate;
    try (destruct H as (_ & _ & D & _); discriminate).
  - destruct (Nat.eqb (length keys) (length l)) eqn:E; cbn [negb] in H; [|discriminate].
    apply Nat.eqb_eq in E. destruct room; inversion H; subst. repeat split; auto.
  - destruct H as (-> & -> & D & L). inversion D; subst. rewrite <- L, Nat.eqb_refl. reflexivity.
Qed.

Theorem wrong_count_rejected keys payload room cs :
  decode_contents payload = Ok cs -> length cs <> length keys ->
  handle_offered_contents keys payload room = Err E_CONTENT_COUNT.
Proof.
  intros D L. unfold handle_offered_contents. rewrite D.
  destruct (Nat.eqb (length keys) (length cs)) eqn:E; [apply Nat.eqb_eq in E; congruence | reflexivity].
Qed.

(* ================================================================ the code as found, and the in-flight race *)

Definition witness_nv : nodeview :=
  {| nv_nilid := fun _ => false; nv_inrange := fun _ => true; nv_stored := fun _ => false;
     nv_inflight := fun _ => false; nv_queue_room := true |}.

(* as found: version 0, no free slot: both keys marked accepted (bitlist 0b111), connection id 0, nobody listening *)
Theorem v0_accepts_without_permit_refuted :
  exists r, handle_offer_as_found (Ok 0) witness_nv false 7 [[x01]; [x02]] = Ok r /\
            or_reply r = [x07; x00; x00; x06; x00; x00; x00; x07] /\
            parse_offer_resp (Ok 0) (tl (or_reply r)) = Ok ([x00; x00], [x07], 2%nat, [0%nat; 1%nat]) /\
            or_listen r = None /\ or_permit_taken r = false.
Proof. eexists. vm_compute. repeat split. Qed.

(* the in-flight mark is set by the goroutine: two offers of the same key, second one before the goroutine ran *)
Theorem inflight_race_refuted :
  exists k, rx_accepted (rx_run false [EvOffer [k]; EvOffer [k]]) = [[k]; [k]].
Proof. exists [x01]. vm_compute. reflexivity. Qed.

(* when the goroutine of the first offer has run before the second offer arrives, the key is refused *)
Theorem inflight_sequential_ok k :
  rx_accepted (rx_run false [EvOffer [k]; EvGoroutineRuns 0; EvOffer [k]]) = [[]; [k]].
Proof.
  unfold rx_run. cbn [fold_left rx_step rx_init rx_marked rx_pending rx_accepted filter mem_bytes negb app nth_error].
  assert (E : bytes_eqb k k = true) by now apply bytes_eqb_eq. rewrite E. reflexivity.
Qed.

(* ================================================================ the in-flight set across a history of offers *)

Lemma bytes_eqb_refl k : bytes_eqb k k = true.
Proof. now apply bytes_eqb_eq. Qed.

Lemma mem_bytes_eq k x l : bytes_eqb k x = true -> mem_bytes k l = mem_bytes x l.
Proof. intros H. apply bytes_eqb_eq in H. now subst. Qed.

Lemma mem_unmark k ks marked : mem_bytes k (unmark ks marked) = mem_bytes k marked && negb (mem_bytes k ks).
Proof.
  unfold unmark. induction marked as [|x r IH]; [reflexivity|]. cbn [filter mem_bytes].
  destruct (bytes_eqb k x) eqn:E.
  - rewrite (mem_bytes_eq k x ks E). destruct (mem_bytes x ks) eqn:M; cbn [negb mem_bytes orb andb].
    + rewrite IH. rewrite (mem_bytes_eq k x ks E), M. cbn [negb]. now rewrite andb_false_r.
    + now rewrite E.
  - destruct (mem_bytes x ks); cbn [negb mem_bytes orb]; [exact IH | rewrite E; exact IH].
Qed.

Lemma mem_app k a b : mem_bytes k (a ++ b) = mem_bytes k a || mem_bytes k b.
Proof. induction a as [|x a IH]; [reflexivity|]. cbn [app mem_bytes]. rewrite IH. now rewrite orb_assoc. Qed.

Lemma mem_filter_marked k marked keys :
  mem_bytes k marked = true -> mem_bytes k (filter (fun k' => negb (mem_bytes k' marked)) keys) = false.
Proof.
  intros H. induction keys as [|x r IH]; [reflexivity|]. cbn [filter].
  destruct (mem_bytes x marked) eqn:M; cbn [negb]; [exact IH|]. cbn [mem_bytes]. rewrite IH, orb_false_r.
  destruct (bytes_eqb k x) eqn:E; [|reflexivity]. rewrite (mem_bytes_eq k x marked E) in H. congruence.
Qed.

(* an event that could take the mark of k away: the end of a transfer whose accepted keys contain k *)
Definition ends_owner (k : bytes) (s : rx_state) (e : rx_event) : bool :=
  match e with
  | EvTransferEnds n => match nth_error (rx_pending s) n with Some ks => mem_bytes k ks | None => false end
  | _ => false
  end.

(* one step: a marked key stays marked unless a transfer that accepted it ends *)
Theorem mark_preserved sync s e k :
  mem_bytes k (rx_marked s) = true -> ends_owner k s e = false ->
  mem_bytes k (rx_marked (rx_step sync s e)) = true.
Proof.
  intros M N. destruct e as [keys|n|n|keys|keys]; cbn [rx_step ends_owner] in *; [| | | |exact M].
  - destruct sync; cbn [rx_marked]; [rewrite mem_app, M; apply orb_true_r | exact M].
  - destruct (nth_error (rx_pending s) n); cbn [rx_marked]; [rewrite mem_app, M; apply orb_true_r | exact M].
  - destruct (nth_error (rx_pending s) n); cbn [rx_marked]; [|exact M]. rewrite mem_unmark, M, N. reflexivity.
  - destruct sync; cbn [rx_marked]; [rewrite mem_app, M; apply orb_true_r | exact M].
Qed.

(* an OFFER answered without a free slot leaves the in-flight set exactly as it was (it starts no transfer, so it has
   nothing to clear - in particular not the marks of OTHER pending transfers whose keys it happens to offer) *)
Theorem rate_limited_offer_keeps_marks sync s keys :
  rx_marked (rx_step sync s (EvOfferNoSlot keys)) = rx_marked s.
Proof. reflexivity. Qed.

(* the harness scenario: K accepted and pending; a rate-limited OFFER of K; then a version-1 OFFER of K: still in progress *)
Theorem rate_limited_scenario k :
  rx_accepted (rx_run false [EvOffer [k]; EvGoroutineRuns 0; EvOfferNoSlot [k]; EvOffer [k]]) = [[]; []; [k]] /\
  rx_accepted (rx_run false [EvOfferV0 [k]; EvGoroutineRuns 0; EvOfferNoSlot [k]; EvOffer [k]]) = [[]; []; [k]].
Proof.
  unfold rx_run. cbn [fold_left rx_step rx_init rx_marked rx_pending rx_accepted filter mem_bytes negb app nth_error].
  rewrite bytes_eqb_refl. cbn [orb negb filter]. split; reflexivity.
Qed.

(* the keys a version-0 transfer brings in are marked by its goroutine like any other: a later version-1 OFFER of such a key
   is answered "in progress" (mixed versions), while a later version-0 OFFER is not filtered by the marks at all *)
Theorem v0_transfer_marks_for_v1 k :
  rx_accepted (rx_run false [EvOfferV0 [k]; EvGoroutineRuns 0; EvOffer [k]]) = [[]; [k]] /\
  rx_accepted (rx_run false [EvOffer [k]; EvGoroutineRuns 0; EvOfferV0 [k]]) = [[k]; [k]] /\
  rx_accepted (rx_run false [EvOfferV0 [k]; EvGoroutineRuns 0; EvOfferV0 [k]]) = [[k]; [k]].
Proof.
  unfold rx_run. cbn [fold_left rx_step rx_init rx_marked rx_pending rx_accepted filter mem_bytes negb app nth_error].
  rewrite bytes_eqb_refl. cbn [orb negb filter]. repeat split; reflexivity.
Qed.

(* an OFFER that contains a marked key does not accept it *)
Theorem marked_key_not_accepted sync s keys k :
  mem_bytes k (rx_marked s) = true ->
  match rx_accepted (rx_step sync s (EvOffer keys)) with acc :: _ => mem_bytes k acc = false | [] => False end.
Proof. intros M. cbn [rx_step rx_accepted]. now apply mem_filter_marked. Qed.

(* along a whole history: as long as no transfer that accepted k ends, k stays marked - whatever other offers are made,
   accepted, started and finished in between - and therefore every later OFFER of k is answered "in progress" *)
Fixpoint no_owner_ends (k : bytes) (sync : bool) (s : rx_state) (evs : list rx_event) : bool :=
  match evs with
  | [] => true
  | e :: r => negb (ends_owner k s e) && no_owner_ends k sync (rx_step sync s e) r
  end.

Theorem mark_preserved_history sync k : forall evs s,
  mem_bytes k (rx_marked s) = true -> no_owner_ends k sync s evs = true ->
  mem_bytes k (rx_marked (fold_left (rx_step sync) evs s)) = true.
Proof.
  induction evs as [|e r IH]; intros s M N; [exact M|]. cbn [fold_left no_owner_ends] in *.
  apply andb_true_iff in N as [N1 N2]. apply negb_true_iff in N1. apply IH; [now apply mark_preserved | exact N2].
Qed.

Theorem inflight_history_declines sync k evs s keys :
  mem_bytes k (rx_marked s) = true -> no_owner_ends k sync s evs = true ->
  match rx_accepted (rx_step sync (fold_left (rx_step sync) evs s) (EvOffer keys)) with
  | acc :: _ => mem_bytes k acc = false | [] => False end.
Proof. intros M N. apply marked_key_not_accepted. now apply mark_preserved_history. Qed.

(* and the mark does go away when the transfer it belongs to ends (the key can be offered again) *)
Theorem mark_cleared_at_end sync s n ks k :
  nth_error (rx_pending s) n = Some ks -> mem_bytes k ks = true ->
  mem_bytes k (rx_marked (rx_step sync s (EvTransferEnds n))) = false.
Proof. intros H M. cbn [rx_step]. rewrite H. cbn [rx_marked]. rewrite mem_unmark, M. apply andb_false_r. Qed.

(* the three-offer scenario of the harness: O1 accepts K and stalls; O2 = [K; L] is answered [in progress; accepted] and
   completes; O3 = [K] is still answered in progress; after O1 has ended, O4 = [K] is accepted again *)
Theorem three_offer_scenario :
  rx_accepted (rx_run false [EvOffer [[x01]]; EvGoroutineRuns 0; EvOffer [[x01]; [x02]]; EvGoroutineRuns 1;
                             EvTransferEnds 1; EvOffer [[x01]]; EvTransferEnds 0; EvOffer [[x01]]])
  = [[[x01]]; []; [[x02]]; [[x01]]].
Proof. vm_compute. reflexivity. Qed.
