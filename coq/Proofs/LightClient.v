(* Proofs/LightClient.v : proofs about Model/LightClient.v (C12). *)
From Shisui Require Import Base.Bytes Base.Sha256 Base.Merkle Proofs.Merkle Model.LightClient Gen.K_lightclient.
From Coq Require Import ZifyBool ZifyN ZifyNat Permutation.
Ltac Zify.zify_post_hook ::= Z.div_mod_to_equations.

Local Arguments N.add : simpl never.
Local Arguments N.mul : simpl never.
Local Arguments N.div : simpl never.
Local Arguments N.ltb : simpl never.
Local Arguments N.leb : simpl never.
Local Arguments N.eqb : simpl never.
Local Arguments N.shiftr : simpl never.
Local Arguments N.land : simpl never.
Local Arguments N.testbit : simpl never.
Local Arguments N.to_nat : simpl never.
Local Opaque sha_pair Hp sha256.

(* ================================================================== constants *)

(* the literal (depth, index) pairs of light_client.go are the generalized indices zrnt defines,
   the branch arrays are as long as the depths, the literal 32*256 is the period length of the configuration *)
Lemma finality_position_is_gindex : 2 ^ FIN_DEPTH + FIN_INDEX = K_LC_FINALIZED_ROOT_GINDEX.
Proof. reflexivity. Qed.
Lemma next_committee_position_is_gindex : 2 ^ NEXT_DEPTH + NEXT_INDEX = K_LC_NEXT_SYNC_COMM_GINDEX.
Proof. reflexivity. Qed.
Lemma branch_lengths_cover_depths :
  FIN_DEPTH = K_LC_FINALITY_BRANCH_LEN /\ NEXT_DEPTH = K_LC_SYNC_BRANCH_LEN /\ CUR_DEPTH <= K_LC_ELECTRA_CUR_BRANCH_LEN.
Proof. repeat split; vm_compute; congruence. Qed.
Lemma calc_sync_period_spec slot :
  calc_sync_period slot = slot / (K_LC_SLOTS_PER_EPOCH * K_LC_EPOCHS_PER_PERIOD) /\
  calc_sync_period slot = slot / K_LC_SLOTS_PER_PERIOD_PROBED.
Proof.
  unfold calc_sync_period. change (K_LC_SLOTS_PER_EPOCH * K_LC_EPOCHS_PER_PERIOD) with 8192.
  change K_LC_SLOTS_PER_PERIOD_PROBED with 8192. rewrite N.div_div by lia. split; reflexivity.
Qed.
Lemma committee_size_is_512 : K_LC_SYNC_COMMITTEE_SIZE = 512.
Proof. reflexivity. Qed.
Lemma domain_type_is_sync_committee : domain_type_sync = [n2b K_LC_DOMAIN_SYNC_COMMITTEE_B0; x00; x00; x00].
Proof. reflexivity. Qed.

(* ================================================================== ApplyGenericUpdate, one step *)

Notation fslot s := (h_slot (s_fin s)) (only parsing).
Notation oslot s := (h_slot (s_opt s)) (only parsing).

(* everything ApplyGenericUpdate can do to the store, as one relation between s and s' *)
Record apply_post (s : store) (u : update) (bits : N) (s' : store) : Prop := {
  ap_fin_mono : fslot s <= fslot s';
  ap_opt_mono : oslot s <= oslot s';
  ap_inv : fslot s <= oslot s -> fslot s' <= oslot s';
  ap_majority : (s_fin s' = s_fin s /\ s_cur s' = s_cur s /\ s_next s' = s_next s) \/ 512 * 2 <= bits * 3;
  ap_rotation : s_cur s' = s_cur s \/ s_next s = Some (s_cur s');
  ap_next_src : s_next s' = s_next s \/ s_next s' = u_next u;
  ap_fin_src : s_fin s' = s_fin s \/ (u_fin u = Some (s_fin s') /\ fslot s < fslot s');
  ap_opt_src : s_opt s' = s_opt s \/ s_opt s' = u_attested u \/ u_fin u = Some (s_opt s');
  ap_max : s_cur_max s' = 0 \/ (s_cur_max s <= s_cur_max s' /\ bits <= s_cur_max s');
  (* the committees, exactly: untouched; or a missing next committee is filled in from the update; or a rotation:
     current := the stored next, next := what the update carries (nothing, for a finality or optimistic update) *)
  ap_committees : (s_cur s' = s_cur s /\ s_next s' = s_next s) \/
                  (s_cur s' = s_cur s /\ s_next s = None /\ s_next s' = u_next u) \/
                  (s_next s = Some (s_cur s') /\ s_next s' = u_next u)
}.

Lemma apply_spec s u s' :
  apply s u = Ok s' -> exists bits, get_bits (u_bits u) = Ok bits /\ apply_post s u bits s'.
Proof.
  unfold apply. destruct (get_bits (u_bits u)) as [bits| |]; cbn [bind]; try discriminate.
  intros H. exists bits. split; [reflexivity|]. revert H.
  set (s1 := if s_cur_max s <? bits then set_cur_max s bits else s).
  assert (E1 : s_fin s1 = s_fin s /\ s_opt s1 = s_opt s /\ s_cur s1 = s_cur s /\ s_next s1 = s_next s /\
                s_cur_max s <= s_cur_max s1 /\ bits <= s_cur_max s1).
  { unfold s1. destruct (s_cur_max s <? bits) eqn:E; cbn; repeat split; lia. }
  destruct E1 as (F1 & O1 & C1 & N1 & M1 & M1').
  set (s2 := if (safety_threshold s1 <? bits) && (h_slot (s_opt s1) <? h_slot (u_attested u)) then set_opt s1 (u_attested u) else s1).
  assert (E2 : s_fin s2 = s_fin s /\ s_cur s2 = s_cur s /\ s_next s2 = s_next s /\ s_cur_max s2 = s_cur_max s1 /\
                (s_opt s2 = s_opt s \/ (s_opt s2 = u_attested u /\ oslot s < h_slot (u_attested u)))).
  { unfold s2. destruct ((safety_threshold s1 <? bits) && (h_slot (s_opt s1) <? h_slot (u_attested u))) eqn:E; cbn.
    - apply andb_true_iff in E as [_ E]. rewrite O1 in E. repeat split; try assumption. right. split; [reflexivity|lia].
    - repeat split; try assumption. left; assumption. }
  destruct E2 as (F2 & C2 & N2 & M2 & O2).
  assert (M : s_cur_max s <= s_cur_max s2 /\ bits <= s_cur_max s2) by lia.
  clearbody s2. clear M1 M1' M2 F1 O1 C1 N1. clear s1.
  assert (Oge : oslot s <= oslot s2) by (destruct O2 as [E | [E L]]; rewrite E; lia).
  assert (Osrc : s_opt s2 = s_opt s \/ s_opt s2 = u_attested u) by (destruct O2 as [E | [E L]]; auto).
  clear O2.
  destruct ((512 * 2 <=? bits * 3) && ((h_slot (s_fin s2) <? fin_slot_or_0 u) || _)) eqn:EM.
  2:{ intros H; inversion H; subst s'. constructor.
      - rewrite F2; lia.
      - exact Oge.
      - rewrite F2; lia.
      - left; auto.
      - left; auto.
      - left; auto.
      - left; auto.
      - destruct Osrc; auto.
      - right; lia.
      - left; auto. }
  apply andb_true_iff in EM as [EMaj _]. assert (Maj : 512 * 2 <= bits * 3) by lia. clear EMaj.
  set (s3 := match s_next s2 with
             | None => set_next s2 (u_next u)
             | Some nx => if calc_sync_period (fin_slot_or_0 u) =? calc_sync_period (h_slot (s_fin s2)) + 1 then rotate s2 nx (u_next u) else s2
             end).
  assert (E3 : s_fin s3 = s_fin s /\ s_opt s3 = s_opt s2 /\
                (s_cur s3 = s_cur s \/ s_next s = Some (s_cur s3)) /\
                (s_next s3 = s_next s \/ s_next s3 = u_next u) /\
                (s_cur_max s3 = 0 \/ s_cur_max s3 = s_cur_max s2) /\
                ((s_cur s3 = s_cur s /\ s_next s3 = s_next s) \/
                 (s_cur s3 = s_cur s /\ s_next s = None /\ s_next s3 = u_next u) \/
                 (s_next s = Some (s_cur s3) /\ s_next s3 = u_next u))).
  { unfold s3. destruct (s_next s2) as [nx|] eqn:EN.
    - destruct (calc_sync_period (fin_slot_or_0 u) =? calc_sync_period (h_slot (s_fin s2)) + 1); cbn.
      + split; [assumption|]. split; [reflexivity|]. split; [right; cbn; congruence|]. split; [now right|]. split; [now left|].
        right; right. split; [congruence | reflexivity].
      + split; [assumption|]. split; [reflexivity|]. split; [now left|]. split; [left; congruence|]. split; [now right|].
        left. split; [assumption | congruence].
    - cbn. split; [assumption|]. split; [reflexivity|]. split; [now left|]. split; [now right|]. split; [now right|].
      right; left. split; [assumption|]. split; [congruence | reflexivity]. }
  destruct E3 as (F3 & O3 & C3 & N3 & M3 & CN3). clearbody s3.
  assert (M' : s_cur_max s3 = 0 \/ (s_cur_max s <= s_cur_max s3 /\ bits <= s_cur_max s3)) by (destruct M3 as [E | E]; [now left | right; rewrite E; lia]).
  destruct (h_slot (s_fin s3) <? fin_slot_or_0 u) eqn:EF.
  2:{ intros H; inversion H; subst s'. constructor.
      - rewrite F3; lia.
      - rewrite O3; exact Oge.
      - rewrite F3, O3; lia.
      - now right.
      - exact C3.
      - exact N3.
      - now left.
      - rewrite O3. destruct Osrc; auto.
      - exact M'.
      - exact CN3. }
  unfold fin_slot_or_0 in EF. destruct (u_fin u) as [fh|] eqn:EU; [|discriminate].
  assert (Lt : fslot s < h_slot fh) by (rewrite <- F3; lia).
  destruct (h_slot (s_opt (set_fin s3 fh)) <? h_slot (s_fin (set_fin s3 fh))) eqn:EO; cbn in EO;
    intros H; inversion H; subst s'; clear H; constructor; cbn.
  - lia.
  - rewrite O3 in EO. lia.
  - intros _; lia.
  - now right.
  - exact C3.
  - exact N3.
  - right. split; [exact EU|exact Lt].
  - right; right; exact EU.
  - exact M'.
  - exact CN3.
  - lia.
  - rewrite O3; exact Oge.
  - intros _. lia.
  - now right.
  - exact C3.
  - exact N3.
  - right. split; [exact EU|exact Lt].
  - rewrite O3. destruct Osrc; auto.
  - exact M'.
  - exact CN3.
Qed.

(* ================================================================== sequences: verify, then apply *)

Definition step_verified (s : store) (x : step) : Prop :=
  verify s (st_update x) (st_now x) (st_genesis x) (st_fork x) = Ok tt.

Lemma process_cases s x :
  process s x = s \/
  (step_verified s x /\ exists bits, get_bits (u_bits (st_update x)) = Ok bits /\ apply_post s (st_update x) bits (process s x)).
Proof.
  unfold process, step_verified. destruct (verify s (st_update x) (st_now x) (st_genesis x) (st_fork x)) as [[]| |]; auto.
  destruct (apply s (st_update x)) as [s'| |] eqn:EA; auto.
  right. split; [reflexivity|]. apply apply_spec. exact EA.
Qed.

Lemma run_cons s x l : run s (x :: l) = run (process s x) l.
Proof. reflexivity. Qed.
Lemma run_app s l1 l2 : run s (l1 ++ l2) = run (run s l1) l2.
Proof. unfold run. apply fold_left_app. Qed.
Lemma run_snoc s l x : run s (l ++ [x]) = process (run s l) x.
Proof. rewrite run_app. reflexivity. Qed.

Lemma process_mono s x : fslot s <= fslot (process s x) /\ oslot s <= oslot (process s x).
Proof.
  destruct (process_cases s x) as [-> | (_ & bits & _ & P)]; [lia|].
  split; [apply (ap_fin_mono _ _ _ _ P) | apply (ap_opt_mono _ _ _ _ P)].
Qed.

Theorem run_mono : forall l s, fslot s <= fslot (run s l) /\ oslot s <= oslot (run s l).
Proof.
  induction l as [|x l IH]; intros s; [cbn; lia|].
  rewrite run_cons. pose proof (process_mono s x). pose proof (IH (process s x)). lia.
Qed.

(* between ANY two points of ANY sequence, with arbitrary (not necessarily increasing) clocks, forks and genesis roots per step *)
Theorem run_mono_between s0 l1 l2 :
  fslot (run s0 l1) <= fslot (run s0 (l1 ++ l2)) /\ oslot (run s0 l1) <= oslot (run s0 (l1 ++ l2)).
Proof. rewrite run_app. apply run_mono. Qed.

Theorem run_opt_ge_fin : forall l s, fslot s <= oslot s -> fslot (run s l) <= oslot (run s l).
Proof.
  induction l as [|x l IH]; intros s Hs; [exact Hs|].
  rewrite run_cons. apply IH.
  destruct (process_cases s x) as [-> | (_ & bits & _ & P)]; [exact Hs|]. apply (ap_inv _ _ _ _ P Hs).
Qed.

(* one step taken from any point of any sequence *)
Theorem step_needs_majority s0 l x :
  let s := run s0 l in let s' := process s x in
  (s_fin s' = s_fin s /\ s_cur s' = s_cur s /\ s_next s' = s_next s) \/
  (step_verified s x /\ exists bits, get_bits (u_bits (st_update x)) = Ok bits /\ 512 * 2 <= bits * 3).
Proof.
  intros s s'. subst s'. destruct (process_cases s x) as [-> | (V & bits & G & P)]; [left; auto|].
  destruct (ap_majority _ _ _ _ P) as [U | M]; [left; exact U | right; split; [exact V | exists bits; auto]].
Qed.

Theorem step_rotation s0 l x :
  let s := run s0 l in let s' := process s x in
  s_cur s' = s_cur s \/ s_next s = Some (s_cur s').
Proof.
  intros s s'. subst s'. destruct (process_cases s x) as [-> | (V & bits & G & P)]; [left; auto|].
  exact (ap_rotation _ _ _ _ P).
Qed.

(* the committees after one step, exactly (this is where "rotation" is defined) *)
Theorem step_committees s0 l x :
  let s := run s0 l in let s' := process s x in let u := st_update x in
  (s_cur s' = s_cur s /\ s_next s' = s_next s) \/
  (s_cur s' = s_cur s /\ s_next s = None /\ s_next s' = u_next u) \/
  (s_next s = Some (s_cur s') /\ s_next s' = u_next u).
Proof.
  intros s s' u. subst s' u. destruct (process_cases s x) as [-> | (V & bits & G & P)]; [left; auto|].
  exact (ap_committees _ _ _ _ P).
Qed.

Theorem step_sources s0 l x :
  let s := run s0 l in let s' := process s x in let u := st_update x in
  (s_next s' = s_next s \/ s_next s' = u_next u) /\
  (s_fin s' = s_fin s \/ (u_fin u = Some (s_fin s') /\ fslot s < fslot s')) /\
  (s_opt s' = s_opt s \/ s_opt s' = u_attested u \/ u_fin u = Some (s_opt s')).
Proof.
  intros s s' u. subst s' u. destruct (process_cases s x) as [-> | (V & bits & G & P)]; [auto|].
  split; [exact (ap_next_src _ _ _ _ P)|]. split; [exact (ap_fin_src _ _ _ _ P) | exact (ap_opt_src _ _ _ _ P)].
Qed.

(* whole-sequence forms: where the current committee and the finalized header of a reached store come from *)
Theorem run_current_committee_origin : forall l s0,
  s_cur (run s0 l) = s_cur s0 \/
  exists l1 l2, l = l1 ++ l2 /\ s_next (run s0 l1) = Some (s_cur (run s0 l)).
Proof.
  induction l as [|x l IH] using rev_ind; intros s0; [left; reflexivity|].
  rewrite run_snoc. destruct (step_rotation s0 l x) as [E | E]; cbv zeta in E.
  - rewrite E. destruct (IH s0) as [I | (l1 & l2 & -> & I)]; [left; exact I|].
    right. exists l1, (l2 ++ [x]). split; [now rewrite app_assoc | exact I].
  - right. exists l, [x]. split; [reflexivity | exact E].
Qed.

Theorem run_finalized_origin : forall l s0,
  s_fin (run s0 l) = s_fin s0 \/
  exists l1 x l2 bits, l = l1 ++ x :: l2 /\ step_verified (run s0 l1) x /\
    u_fin (st_update x) = Some (s_fin (run s0 l)) /\
    get_bits (u_bits (st_update x)) = Ok bits /\ 512 * 2 <= bits * 3.
Proof.
  induction l as [|x l IH] using rev_ind; intros s0; [left; reflexivity|].
  rewrite run_snoc.
  destruct (process_cases (run s0 l) x) as [E | (V & bits & G & P)].
  - rewrite E. destruct (IH s0) as [I | (l1 & y & l2 & b & -> & I)]; [left; exact I|].
    right. exists l1, y, (l2 ++ [x]), b. split; [now rewrite <- app_assoc | exact I].
  - destruct (ap_fin_src _ _ _ _ P) as [E | [E Lt]].
    + rewrite E. destruct (IH s0) as [I | (l1 & y & l2 & b & -> & I)]; [left; exact I|].
      right. exists l1, y, (l2 ++ [x]), b. split; [now rewrite <- app_assoc | exact I].
    + right. exists l, x, [], bits. split; [reflexivity|]. split; [exact V|]. split; [exact E|]. split; [exact G|].
      destruct (ap_majority _ _ _ _ P) as [(U & _) | M]; [|exact M].
      exfalso. rewrite U in Lt. lia.
Qed.

(* ================================================================== symbolic BLS *)

Lemma remove_one_perm x : forall l l', remove_one x l = Some l' -> Permutation l (x :: l').
Proof.
  induction l as [|y t IH]; intros l' H; cbn in H; [discriminate|].
  destruct (x =? y) eqn:E.
  - inversion H; subst. apply N.eqb_eq in E. subst. apply Permutation_refl.
  - destruct (remove_one x t) as [t'|]; [|discriminate]. inversion H; subst.
    eapply Permutation_trans; [apply perm_skip, IH; reflexivity | apply perm_swap].
Qed.

Lemma perm_eqb_perm : forall a b, perm_eqb a b = true -> Permutation a b.
Proof.
  induction a as [|x a IH]; intros b H; cbn in H.
  - destruct b; [constructor | discriminate].
  - destruct (remove_one x b) as [b'|] eqn:E; [|discriminate].
    apply Permutation_sym. eapply Permutation_trans; [apply remove_one_perm; exact E|].
    apply perm_skip, Permutation_sym, IH, H.
Qed.

Lemma perm_eqb_complete : forall a b, Permutation a b -> perm_eqb a b = true.
Proof.
  assert (R : forall x l1 l2, remove_one x (l1 ++ x :: l2) = Some (l1 ++ l2) \/
                             exists l', remove_one x (l1 ++ x :: l2) = Some l' /\ Permutation l' (l1 ++ l2)).
  { intros x. induction l1 as [|y l1 IH]; intros l2; cbn.
    - rewrite N.eqb_refl. left; reflexivity.
    - destruct (x =? y) eqn:E.
      + apply N.eqb_eq in E; subst. right. eexists; split; [reflexivity|]. apply Permutation_sym, Permutation_middle.
      + right. destruct (IH l2) as [E' | (l' & E' & P)]; rewrite E'.
        * eexists; split; [reflexivity | apply Permutation_refl].
        * eexists; split; [reflexivity | apply perm_skip, P]. }
  induction a as [|x a IH]; intros b P.
  - apply Permutation_nil in P. subst. reflexivity.
  - assert (I : In x b) by (eapply Permutation_in; [exact P | now left]).
    apply in_split in I as (l1 & l2 & ->). cbn.
    apply Permutation_cons_app_inv in P.
    destruct (R x l1 l2) as [-> | (l' & -> & P')]; apply IH; [exact P|].
    eapply Permutation_trans; [exact P | apply Permutation_sym, P'].
Qed.

Lemma key_ids_map : forall pks ids, key_ids pks = Some ids -> pks = map PkValid ids.
Proof.
  induction pks as [|p pks IH]; intros ids H; cbn in H.
  - inversion H; reflexivity.
  - destruct p; try discriminate. destruct (key_ids pks) as [l|]; [|discriminate].
    inversion H; subst. cbn. f_equal. apply IH. reflexivity.
Qed.

(* acceptance by the (symbolic) signature check: all keys decode to key identities, there is at least one,
   and the signature is the aggregate of exactly that multiset of signers over exactly the signing root *)
Lemma verify_signature_sound pks att sg genesis fv :
  verify_sync_committee_signature pks att sg genesis fv = Ok true ->
  exists ids signers, pks = map PkValid ids /\ ids <> [] /\
    sg = SigOf signers (committee_sign_root genesis (htr_header att) fv) /\ Permutation signers ids.
Proof.
  unfold verify_sync_committee_signature. destruct (existsb is_invalid_key pks); [discriminate|].
  intros H.
  assert (F : fast_aggregate_verify pks (committee_sign_root genesis (htr_header att) fv) sg = true).
  { destruct sg as [sn m | []]; inversion H; reflexivity. }
  clear H. unfold fast_aggregate_verify in F.
  destruct pks as [|p pks]; [discriminate|].
  destruct (key_ids (p :: pks)) as [ids|] eqn:EK; [|discriminate].
  destruct sg as [signers m|d]; [|discriminate].
  apply andb_true_iff in F as [FP FM]. apply bytes_eqb_eq in FM. subst m.
  exists ids, signers. split; [apply key_ids_map; exact EK|]. split.
  - intros ->. apply key_ids_map in EK. discriminate.
  - split; [reflexivity | apply perm_eqb_perm; exact FP].
Qed.

(* ================================================================== VerifyGenericUpdate: soundness *)

Definition period_fits (s : store) (u : update) : Prop :=
  let sp := calc_sync_period (h_slot (s_fin s)) in
  let up := calc_sync_period (u_sigslot u) in
  up = sp \/ (s_next s <> None /\ up = sp + 1).

Definition relevant (s : store) (u : update) : Prop :=
  h_slot (s_fin s) < h_slot (u_attested u) \/
  (s_next s = None /\ u_next u <> None /\
   calc_sync_period (h_slot (u_attested u)) = calc_sync_period (h_slot (s_fin s))).

(* the leaf sits at (depth, index) of ANY tree whose root is `root`, or SHA-256 has an explicit pair collision *)
Definition branch_holds (leaf : bytes) (depth index : N) (root : bytes) : Prop :=
  forall t sub, troot Hp t = root -> subtree t (path_of (N.to_nat depth) index) = Some sub ->
    troot Hp sub = leaf \/ Collision Hp.

(* the committee the store holds for the signature period *)
Definition committee_for (s : store) (u : update) : option committee :=
  if calc_sync_period (u_sigslot u) =? calc_sync_period (h_slot (s_fin s)) then Some (s_cur s) else s_next s.

Definition signature_ok (s : store) (u : update) (genesis fv : bytes) : Prop :=
  exists c pks ids signers,
    committee_for s u = Some c /\ participating_keys c (u_bits u) = Ok pks /\
    pks = map PkValid ids /\ ids <> [] /\
    u_sig u = SigOf signers (committee_sign_root genesis (htr_header (u_attested u)) fv) /\
    Permutation signers ids.

Record verify_post (s : store) (u : update) (now : N) (genesis fv : bytes) : Prop := {
  vp_participation : exists bits, get_bits (u_bits u) = Ok bits /\ 1 <= bits;
  vp_time : u_sigslot u <= now /\ h_slot (u_attested u) < u_sigslot u /\ fin_slot_or_0 u <= h_slot (u_attested u);
  vp_period : period_fits s u;
  vp_relevant : relevant s u;
  vp_finality : forall fh br, u_fin u = Some fh -> u_fin_branch u = Some br ->
      branch_holds (htr_header fh) FIN_DEPTH FIN_INDEX (h_state (u_attested u));
  vp_next_committee : forall nc br, u_next u = Some nc -> u_next_branch u = Some br ->
      branch_holds (c_root nc) NEXT_DEPTH NEXT_INDEX (h_state (u_attested u));
  vp_signature : signature_ok s u genesis fv
}.

Lemma branch_holds_of_verify leaf br depth index root :
  verify_branch Hp leaf br depth index root = Ok true -> branch_holds leaf depth index root.
Proof.
  intros V t sub Rt St. subst root. eapply verify_branch_sound; eassumption.
Qed.

Theorem verify_sound s u now genesis fv :
  verify s u now genesis fv = Ok tt -> verify_post s u now genesis fv.
Proof.
  unfold verify. destruct (get_bits (u_bits u)) as [bits| |] eqn:EB; cbn [bind]; try discriminate.
  destruct (bits =? 0) eqn:E0; [discriminate|].
  destruct ((u_sigslot u <=? now) && (h_slot (u_attested u) <? u_sigslot u) && (fin_slot_or_0 u <=? h_slot (u_attested u))) eqn:ET;
    cbn [negb]; [|discriminate].
  match goal with |- (if negb ?c then _ else _) = _ -> _ => destruct c eqn:EP; cbn [negb]; [|discriminate] end.
  match goal with |- (if ?c then _ else _) = _ -> _ => destruct c eqn:ER; [discriminate|] end.
  match goal with |- bind ?c _ = _ -> _ => destruct c as [[]| |] eqn:EF; cbn [bind]; try discriminate end.
  match goal with |- bind ?c _ = _ -> _ => destruct c as [[]| |] eqn:EN; cbn [bind]; try discriminate end.
  match goal with |- bind ?c _ = _ -> _ => destruct c as [sc| |] eqn:EC; cbn [bind]; try discriminate end.
  destruct (participating_keys sc (u_bits u)) as [pks| |] eqn:EK; cbn [bind]; try discriminate.
  destruct (verify_sync_committee_signature pks (u_attested u) (u_sig u) genesis fv) as [[]| |] eqn:ES; cbn [bind]; try discriminate.
  intros _.
  apply andb_true_iff in ET as [ET ET3]. apply andb_true_iff in ET as [ET1 ET2].
  constructor.
  - exists bits. split; [exact EB | lia].
  - lia.
  - unfold period_fits. destruct (s_next s) as [nx|].
    + apply orb_true_iff in EP as [EP | EP]; [left; lia | right; split; [discriminate | lia]].
    + left; lia.
  - unfold relevant. apply andb_false_iff in ER as [ER | ER]; [left; lia|].
    apply negb_false_iff in ER. apply andb_true_iff in ER as [ER ER3]. apply andb_true_iff in ER as [ER1 ER2].
    right. split; [destruct (s_next s); [discriminate | reflexivity]|].
    split; [destruct (u_next u); [discriminate | discriminate] | lia].
  - intros fh br Hf Hb. rewrite Hf, Hb in EF. unfold is_finality_proof_valid in EF.
    destruct (verify_branch Hp (htr_header fh) br FIN_DEPTH FIN_INDEX (h_state (u_attested u))) as [[]| |] eqn:EV;
      cbn [bind] in EF; try discriminate.
    apply branch_holds_of_verify with (br := br). exact EV.
  - intros nc br Hn Hb. rewrite Hn, Hb in EN. unfold is_next_committee_proof_valid in EN.
    destruct (verify_branch Hp (c_root nc) br NEXT_DEPTH NEXT_INDEX (h_state (u_attested u))) as [[]| |] eqn:EV;
      cbn [bind] in EN; try discriminate.
    apply branch_holds_of_verify with (br := br). exact EV.
  - apply verify_signature_sound in ES as (ids & signers & E1 & E2 & E3 & E4).
    exists sc, pks, ids, signers. split; [|auto].
    unfold committee_for. destruct (calc_sync_period (u_sigslot u) =? calc_sync_period (h_slot (s_fin s))).
    + inversion EC; reflexivity.
    + destruct (s_next s); [inversion EC; reflexivity | discriminate].
Qed.

(* ================================================================== VerifyGenericUpdate: completeness *)

Lemma key_ids_of_map ids : key_ids (map PkValid ids) = Some ids.
Proof. induction ids as [|i ids IH]; cbn; [reflexivity | now rewrite IH]. Qed.

Lemma no_invalid_in_map ids : existsb is_invalid_key (map PkValid ids) = false.
Proof. induction ids as [|i ids IH]; cbn; [reflexivity | exact IH]. Qed.

(* the listed conditions are also sufficient: an update that satisfies them is accepted (so a rejection of such an
   update by the implementation is a departure from the model) *)
Theorem verify_complete s u now genesis fv bits c pks ids signers :
  get_bits (u_bits u) = Ok bits -> 1 <= bits ->
  u_sigslot u <= now -> h_slot (u_attested u) < u_sigslot u -> fin_slot_or_0 u <= h_slot (u_attested u) ->
  period_fits s u -> relevant s u ->
  (forall fh br, u_fin u = Some fh -> u_fin_branch u = Some br -> is_finality_proof_valid (u_attested u) fh br = Ok true) ->
  (forall nc br, u_next u = Some nc -> u_next_branch u = Some br -> is_next_committee_proof_valid (u_attested u) nc br = Ok true) ->
  committee_for s u = Some c -> participating_keys c (u_bits u) = Ok pks ->
  pks = map PkValid ids -> ids <> [] ->
  u_sig u = SigOf signers (committee_sign_root genesis (htr_header (u_attested u)) fv) -> Permutation signers ids ->
  verify s u now genesis fv = Ok tt.
Proof.
  intros HB H1 T1 T2 T3 PF RL FB NB CF PK EP NE SG PM.
  unfold verify. rewrite HB. cbn [bind].
  replace (bits =? 0) with false by lia.
  replace ((u_sigslot u <=? now) && (h_slot (u_attested u) <? u_sigslot u) && (fin_slot_or_0 u <=? h_slot (u_attested u))) with true by lia.
  cbn [negb].
  unfold period_fits in PF. unfold committee_for in CF.
  assert (VP : match s_next s with
               | Some _ => (calc_sync_period (u_sigslot u) =? calc_sync_period (h_slot (s_fin s))) ||
                           (calc_sync_period (u_sigslot u) =? calc_sync_period (h_slot (s_fin s)) + 1)
               | None => calc_sync_period (u_sigslot u) =? calc_sync_period (h_slot (s_fin s))
               end = true).
  { destruct (s_next s) as [nx|]; [destruct PF as [E | [_ E]]; rewrite E; rewrite ?N.eqb_refl, ?orb_true_r; reflexivity|].
    destruct PF as [E | [F _]]; [rewrite E; apply N.eqb_refl | congruence]. }
  rewrite VP. cbn [negb].
  assert (VR : (h_slot (u_attested u) <=? h_slot (s_fin s)) &&
               negb (negb (is_some (s_next s)) && is_some (u_next u) &&
                     (calc_sync_period (h_slot (u_attested u)) =? calc_sync_period (h_slot (s_fin s)))) = false).
  { destruct RL as [L | (E1 & E2 & E3)]; [apply andb_false_iff; left; lia|].
    apply andb_false_iff; right. rewrite E1, E3, N.eqb_refl. destruct (u_next u); [reflexivity | congruence]. }
  rewrite VR.
  assert (F1 : match u_fin u, u_fin_branch u with
               | Some fh, Some br => bind (is_finality_proof_valid (u_attested u) fh br) (fun ok => if ok then Ok tt else Err E_FINALITY)
               | _, _ => Ok tt
               end = Ok tt).
  { destruct (u_fin u) as [fh|]; [|reflexivity]. destruct (u_fin_branch u) as [br|]; [|reflexivity].
    rewrite (FB fh br eq_refl eq_refl). reflexivity. }
  rewrite F1. cbn [bind].
  assert (F2 : match u_next u, u_next_branch u with
               | Some nc, Some br => bind (is_next_committee_proof_valid (u_attested u) nc br) (fun ok => if ok then Ok tt else Err E_NEXT_COMMITTEE)
               | _, _ => Ok tt
               end = Ok tt).
  { destruct (u_next u) as [nc|]; [|reflexivity]. destruct (u_next_branch u) as [br|]; [|reflexivity].
    rewrite (NB nc br eq_refl eq_refl). reflexivity. }
  rewrite F2. cbn [bind].
  assert (SC : (if calc_sync_period (u_sigslot u) =? calc_sync_period (h_slot (s_fin s)) then Ok (s_cur s)
                else match s_next s with Some c0 => Ok c0 | None => Panic end) = Ok c).
  { destruct (calc_sync_period (u_sigslot u) =? calc_sync_period (h_slot (s_fin s))); [congruence|].
    destruct (s_next s); congruence. }
  rewrite SC. cbn [bind]. rewrite PK. cbn [bind].
  unfold verify_sync_committee_signature. subst pks. rewrite no_invalid_in_map, SG.
  unfold fast_aggregate_verify. destruct ids as [|i ids]; [congruence|].
  change (map PkValid (i :: ids)) with (PkValid i :: map PkValid ids).
  replace (key_ids (PkValid i :: map PkValid ids)) with (Some (i :: ids)) by (symmetry; apply (key_ids_of_map (i :: ids))).
  rewrite (perm_eqb_complete _ _ PM). 
  replace (bytes_eqb _ _) with true by (symmetry; apply bytes_eqb_eq; reflexivity).
  reflexivity.
Qed.

(* ---- wire updates always carry header and branch together *)
Definition paired (u : update) : Prop :=
  is_some (u_fin u) = is_some (u_fin_branch u) /\ is_some (u_next u) = is_some (u_next_branch u).

Lemma converters_paired att next nbr fin fbr bits sg slot :
  paired (from_update att next nbr fin fbr bits sg slot) /\
  paired (from_finality_update att fin fbr bits sg slot) /\
  paired (from_optimistic_update att bits sg slot).
Proof. repeat split. Qed.

Theorem verify_sound_paired s u now genesis fv :
  paired u -> verify s u now genesis fv = Ok tt ->
  (forall fh, u_fin u = Some fh -> branch_holds (htr_header fh) FIN_DEPTH FIN_INDEX (h_state (u_attested u))) /\
  (forall nc, u_next u = Some nc -> branch_holds (c_root nc) NEXT_DEPTH NEXT_INDEX (h_state (u_attested u))).
Proof.
  intros [P1 P2] V. apply verify_sound in V. split.
  - intros fh E. rewrite E in P1. destruct (u_fin_branch u) as [br|] eqn:EB; [|discriminate].
    eapply (vp_finality _ _ _ _ _ V); eassumption.
  - intros nc E. rewrite E in P2. destruct (u_next_branch u) as [br|] eqn:EB; [|discriminate].
    eapply (vp_next_committee _ _ _ _ _ V); eassumption.
Qed.

(* ---- the wire entry points, per fork container type: every case of the three type switches yields exactly the
   intended shape (so header and branch always travel together), any other type is an error *)
Lemma wire_converters_exact f att next nbr fin fbr bits sg slot :
  (forall u, from_light_client_update f att next nbr fin fbr bits sg slot = Ok u ->
             u = from_update att next nbr fin fbr bits sg slot) /\
  (forall u, from_light_client_finality_update f att fin fbr bits sg slot = Ok u ->
             u = from_finality_update att fin fbr bits sg slot) /\
  (forall u, from_light_client_optimistic_update f att bits sg slot = Ok u ->
             u = from_optimistic_update att bits sg slot) /\
  (f <> WOther -> f <> WElectra ->
     from_light_client_update f att next nbr fin fbr bits sg slot <> Err E_UNKNOWN_TYPE /\
     from_light_client_finality_update f att fin fbr bits sg slot <> Err E_UNKNOWN_TYPE /\
     from_light_client_optimistic_update f att bits sg slot <> Err E_UNKNOWN_TYPE).
Proof.
  repeat split; try (intros u H; destruct f; inversion H; reflexivity); destruct f; try discriminate; congruence.
Qed.

(* what a successful VerifyUpdate / VerifyFinalityUpdate establishes about the WIRE object's own fields,
   for every fork container type: the branch clauses are unconditional *)
Theorem verify_wire_update_sound f s att next nbr fin fbr bits sg slot now genesis fv :
  verify_wire s (from_light_client_update f att next nbr fin fbr bits sg slot) now genesis fv = Ok tt ->
  branch_holds (htr_header fin) FIN_DEPTH FIN_INDEX (h_state att) /\
  branch_holds (c_root next) NEXT_DEPTH NEXT_INDEX (h_state att) /\
  verify_post s (from_update att next nbr fin fbr bits sg slot) now genesis fv.
Proof.
  unfold verify_wire. destruct (from_light_client_update f att next nbr fin fbr bits sg slot) as [u| |] eqn:E; cbn [bind]; try discriminate.
  apply (proj1 (wire_converters_exact f att next nbr fin fbr bits sg slot)) in E. subst u. intros V.
  pose proof (verify_sound _ _ _ _ _ V) as P.
  split; [exact (vp_finality _ _ _ _ _ P fin fbr eq_refl eq_refl)|].
  split; [exact (vp_next_committee _ _ _ _ _ P next nbr eq_refl eq_refl) | exact P].
Qed.

Theorem verify_wire_finality_sound f s att fin fbr bits sg slot now genesis fv :
  verify_wire s (from_light_client_finality_update f att fin fbr bits sg slot) now genesis fv = Ok tt ->
  branch_holds (htr_header fin) FIN_DEPTH FIN_INDEX (h_state att) /\
  verify_post s (from_finality_update att fin fbr bits sg slot) now genesis fv.
Proof.
  unfold verify_wire. destruct (from_light_client_finality_update f att fin fbr bits sg slot) as [u| |] eqn:E; cbn [bind]; try discriminate.
  assert (U : u = from_finality_update att fin fbr bits sg slot) by (destruct f; inversion E; reflexivity).
  subst u. intros V. pose proof (verify_sound _ _ _ _ _ V) as P.
  split; [exact (vp_finality _ _ _ _ _ P fin fbr eq_refl eq_refl) | exact P].
Qed.

(* ---- the number of participating keys is the bit count *)
Lemma part_keys_count keys bits : forall n i acc r pks,
  count_bits n i bits acc = Ok r -> part_keys n i keys bits = Ok pks -> r = acc + N.of_nat (length pks).
Proof.
  induction n as [|k IH]; intros i acc r pks HC HP; cbn in HC, HP.
  - inversion HC; inversion HP; subst. cbn. lia.
  - destruct (get_bit bits i) as [b| |]; cbn [bind] in HC, HP; try discriminate.
    destruct b.
    + destruct (idx keys (N.to_nat i)) as [p| |]; cbn [bind] in HP; try discriminate.
      destruct (part_keys k (i + 1) keys bits) as [rest| |] eqn:ER; cbn [bind] in HP; try discriminate.
      inversion HP; subst. rewrite (IH _ _ _ _ HC ER). cbn [length]. lia.
    + apply (IH _ _ _ _ HC HP).
Qed.

Lemma participating_keys_count c bits n pks :
  get_bits bits = Ok n -> participating_keys c bits = Ok pks -> N.of_nat (length pks) = n.
Proof.
  unfold get_bits, participating_keys. intros HC HP.
  pose proof (part_keys_count (c_keys c) bits _ _ _ _ _ HC HP) as E. lia.
Qed.

Local Arguments Nat.div : simpl never.
Local Arguments Nat.modulo : simpl never.

(* ---- declarative reading of getParticipatingKeys: the keys at the positions whose bit is set, in order *)
Definition bit_at (bits : bytes) (i : nat) : bool :=
  match nth_error bits (i / 8) with
  | Some b => N.testbit (b2n b) (N.of_nat (i mod 8))
  | None => false
  end.
Definition selected (keys : list pubkey) (bits : bytes) : list pubkey :=
  map snd (filter (fun p => bit_at bits (fst p)) (combine (seq 0 512) keys)).

Lemma get_bit_bit_at bits i b : get_bit bits i = Ok b -> b = bit_at bits (N.to_nat i).
Proof.
  unfold get_bit, idx, bit_at.
  replace (N.to_nat (N.shiftr i 3)) with (N.to_nat i / 8)%nat
    by (rewrite N.shiftr_div_pow2; change (2 ^ 3) with 8; lia).
  destruct (nth_error bits (N.to_nat i / 8)) as [x|]; cbn [bind]; [|discriminate].
  intros H; inversion H. f_equal.
  change 7 with (N.ones 3). rewrite N.land_ones. change (2 ^ 3) with 8. lia.
Qed.

Lemma skipn_nth_cons {A} : forall (l : list A) n x, nth_error l n = Some x -> skipn n l = x :: skipn (S n) l.
Proof.
  induction l as [|y l IH]; intros [|n] x H; cbn in *; try discriminate.
  - inversion H; reflexivity.
  - apply IH. exact H.
Qed.

Lemma part_keys_selected_aux keys bits : forall n i pks,
  (N.to_nat i + n <= length keys)%nat ->
  part_keys n i keys bits = Ok pks ->
  pks = map snd (filter (fun p => bit_at bits (fst p)) (combine (seq (N.to_nat i) n) (skipn (N.to_nat i) keys))).
Proof.
  induction n as [|k IH]; intros i pks L H; cbn in H.
  - inversion H; reflexivity.
  - destruct (get_bit bits i) as [b| |] eqn:EB; cbn [bind] in H; try discriminate.
    apply get_bit_bit_at in EB.
    destruct (nth_error keys (N.to_nat i)) as [p|] eqn:EK; [|apply nth_error_None in EK; lia].
    rewrite (skipn_nth_cons _ _ _ EK). cbn [seq combine filter fst].
    replace (S (N.to_nat i)) with (N.to_nat (i + 1)) by lia.
    destruct b.
    + unfold idx in H. rewrite EK in H. cbn [bind] in H.
      destruct (part_keys k (i + 1) keys bits) as [rest| |] eqn:ER; cbn [bind] in H; try discriminate.
      inversion H; subst pks. rewrite <- EB. cbn [map snd]. f_equal. apply IH; [lia | exact ER].
    + rewrite <- EB. apply IH; [lia | exact H].
Qed.

Theorem participating_keys_selected c bits pks :
  length (c_keys c) = 512%nat -> participating_keys c bits = Ok pks -> pks = selected (c_keys c) bits.
Proof.
  unfold participating_keys, selected. intros W H.
  apply part_keys_selected_aux in H; [exact H|]. rewrite W. vm_compute. lia.
Qed.

(* ---- no index expression can go out of range on well-typed (SSZ-decoded) data *)
Definition wt_committee (c : committee) : Prop := length (c_keys c) = 512%nat.
Definition wt_store (s : store) : Prop := wt_committee (s_cur s) /\ forall c, s_next s = Some c -> wt_committee c.
Definition wt_update (u : update) : Prop :=
  length (u_bits u) = 64%nat /\
  (forall br, u_fin_branch u = Some br -> length br = 6%nat) /\
  (forall br, u_next_branch u = Some br -> length br = 5%nat) /\
  (forall c, u_next u = Some c -> wt_committee c).

Lemma get_bit_ok bits i : length bits = 64%nat -> i < 512 -> exists b, get_bit bits i = Ok b.
Proof.
  intros L Hi. unfold get_bit, idx.
  destruct (nth_error bits (N.to_nat (N.shiftr i 3))) as [b|] eqn:E; [eexists; reflexivity|].
  apply nth_error_None in E. rewrite N.shiftr_div_pow2 in E. change (2 ^ 3) with 8 in E. lia.
Qed.

Lemma count_bits_ok bits : length bits = 64%nat -> forall n i acc, i + N.of_nat n <= 512 -> exists r, count_bits n i bits acc = Ok r.
Proof.
  intros L. induction n as [|k IH]; intros i acc Hi; cbn; [eexists; reflexivity|].
  destruct (get_bit_ok bits i L) as [b ->]; [lia|]. cbn [bind]. apply IH. lia.
Qed.

Lemma get_bits_ok bits : length bits = 64%nat -> exists r, get_bits bits = Ok r.
Proof. intros L. unfold get_bits. apply (count_bits_ok bits L); vm_compute; discriminate. Qed.

Lemma part_keys_ok keys bits : length bits = 64%nat -> length keys = 512%nat ->
  forall n i, i + N.of_nat n <= 512 -> exists r, part_keys n i keys bits = Ok r.
Proof.
  intros L LK. induction n as [|k IH]; intros i Hi; cbn; [eexists; reflexivity|].
  destruct (get_bit_ok bits i L) as [b ->]; [lia|]. cbn [bind].
  destruct (IH (i + 1)) as [r Hr]; [lia|]. destruct b; [|eexists; exact Hr].
  unfold idx. destruct (nth_error keys (N.to_nat i)) as [p|] eqn:E.
  - cbn [bind]. rewrite Hr. cbn [bind]. eexists; reflexivity.
  - apply nth_error_None in E. lia.
Qed.

Lemma verify_branch_no_panic leaf br depth index root :
  (N.to_nat depth <= length br)%nat -> verify_branch Hp leaf br depth index root <> Panic.
Proof. intros L E. apply verify_branch_panic_iff in E. lia. Qed.

Theorem verify_no_panic s u now genesis fv :
  wt_store s -> wt_update u -> verify s u now genesis fv <> Panic.
Proof.
  intros [WC WN] (WB & WF & WNB & WNC). unfold verify.
  destruct (get_bits_ok _ WB) as [bits ->]. cbn [bind].
  destruct (bits =? 0); [discriminate|].
  match goal with |- (if negb ?c then _ else _) <> _ => destruct c; cbn [negb]; [|discriminate] end.
  match goal with |- (if negb ?c then _ else _) <> _ => destruct c eqn:EP; cbn [negb]; [|discriminate] end.
  match goal with |- (if ?c then _ else _) <> _ => destruct c; [discriminate|] end.
  assert (F : forall fh br, u_fin_branch u = Some br -> is_finality_proof_valid (u_attested u) fh br <> Panic).
  { intros fh br E. apply verify_branch_no_panic. rewrite (WF _ E). vm_compute. lia. }
  assert (Nx : forall nc br, u_next_branch u = Some br -> is_next_committee_proof_valid (u_attested u) nc br <> Panic).
  { intros nc br E. apply verify_branch_no_panic. rewrite (WNB _ E). vm_compute. lia. }
  match goal with |- bind ?c _ <> _ => assert (c <> Panic) as NP1 end.
  { destruct (u_fin u) as [fh|]; [|discriminate]. destruct (u_fin_branch u) as [br|] eqn:E; [|discriminate].
    specialize (F fh br eq_refl). destruct (is_finality_proof_valid (u_attested u) fh br) as [[]| |]; cbn [bind]; congruence. }
  match goal with |- bind ?c _ <> _ => destruct c as [[]| |]; cbn [bind]; try discriminate; try congruence end.
  match goal with |- bind ?c _ <> _ => assert (c <> Panic) as NP2 end.
  { destruct (u_next u) as [nc|]; [|discriminate]. destruct (u_next_branch u) as [br|] eqn:E; [|discriminate].
    specialize (Nx nc br eq_refl). destruct (is_next_committee_proof_valid (u_attested u) nc br) as [[]| |]; cbn [bind]; congruence. }
  match goal with |- bind ?c _ <> _ => destruct c as [[]| |]; cbn [bind]; try discriminate; try congruence end.
  match goal with |- bind ?c _ <> _ => assert (exists sc, c = Ok sc /\ wt_committee sc) as (sc & -> & WS) end.
  { destruct (calc_sync_period (u_sigslot u) =? calc_sync_period (h_slot (s_fin s))) eqn:E.
    - eexists; split; [reflexivity | exact WC].
    - destruct (s_next s) as [c|] eqn:EN'; [eexists; split; [reflexivity | apply WN; reflexivity]|].
      discriminate EP. }
  cbn [bind]. unfold participating_keys.
  destruct (part_keys_ok (c_keys sc) (u_bits u) WB WS (N.to_nat K_LC_SYNC_COMMITTEE_SIZE) 0) as [pks ->]; [vm_compute; discriminate|].
  cbn [bind]. unfold verify_sync_committee_signature.
  destruct (existsb is_invalid_key pks); [discriminate|].
  destruct (u_sig u) as [sn m|[]]; cbn [bind]; try discriminate;
    match goal with |- (if ?c then _ else _) <> _ => destruct c; discriminate end.
Qed.

(* ApplyGenericUpdate can only panic through the bit vector *)
Lemma apply_ok_of_bits s u bits : get_bits (u_bits u) = Ok bits -> exists s', apply s u = Ok s'.
Proof.
  intros E. unfold apply. rewrite E. cbn [bind].
  match goal with |- context [if ?c then _ else Ok ?z] => destruct c; [|eexists; reflexivity] end.
  match goal with |- context [if ?a <? ?b then _ else Ok ?z] => destruct (a <? b) eqn:EL; [|eexists; reflexivity] end.
  unfold fin_slot_or_0 in *. destruct (u_fin u); [eexists; reflexivity|]. lia.
Qed.

Theorem apply_no_panic s u : length (u_bits u) = 64%nat -> apply s u <> Panic.
Proof.
  intros L. destruct (get_bits_ok _ L) as [bits E]. destruct (apply_ok_of_bits s u bits E) as [s' ->]. discriminate.
Qed.

(* a verified update is always applied: process is "verify, then the result of apply" *)
Theorem verified_is_applied s x : step_verified s x -> apply s (st_update x) = Ok (process s x).
Proof.
  intros V. pose proof V as V'. apply verify_sound in V'. destruct (vp_participation _ _ _ _ _ V') as (bits & E & _).
  destruct (apply_ok_of_bits s (st_update x) bits E) as [s' A].
  unfold process. unfold step_verified in V. rewrite V, A. reflexivity.
Qed.

(* well-typedness is preserved, so no reachable store can make a committee index go out of range *)
Theorem process_wt s x : wt_store s -> wt_update (st_update x) -> wt_store (process s x).
Proof.
  intros [WC WN] (WB & WF & WNB & WNC).
  destruct (process_cases s x) as [-> | (_ & bits & _ & P)]; [split; assumption|].
  split.
  - destruct (ap_rotation _ _ _ _ P) as [-> | E]; [exact WC | apply WN; exact E].
  - intros c E. destruct (ap_next_src _ _ _ _ P) as [E' | E']; rewrite E' in E; [apply WN; exact E | apply WNC; exact E].
Qed.

(* ================================================================== bootstrap *)

Theorem bootstrap_sound checkpoint b now max_age strict s :
  bootstrap checkpoint b now max_age strict = Ok s ->
  htr_lc_header b = checkpoint /\
  s = mkStore (b_beacon b) (b_beacon b) (b_committee b) None 0 0 /\
  branch_holds (c_root (b_committee b)) CUR_DEPTH CUR_INDEX (h_state (b_beacon b)) /\
  (strict = true -> is_valid_checkpoint now (h_slot (b_beacon b)) max_age = true).
Proof.
  unfold bootstrap.
  destruct (negb (is_valid_checkpoint now (h_slot (b_beacon b)) max_age) && strict) eqn:EA; [discriminate|].
  unfold is_current_committee_proof_valid.
  destruct (verify_branch Hp (c_root (b_committee b)) (b_branch b) CUR_DEPTH CUR_INDEX (h_state (b_beacon b))) as [ok| |] eqn:EV;
    cbn [bind]; [| intros H; discriminate H | intros H; discriminate H].
  destruct (bytes_eqb (htr_lc_header b) checkpoint) eqn:EH; cbn [negb]; [| intros H; discriminate H].
  destruct ok; cbn [negb]; [| intros H; discriminate H].
  intros H; inversion H; subst s. apply bytes_eqb_eq in EH.
  split; [exact EH|]. split; [reflexivity|]. split; [eapply branch_holds_of_verify; exact EV|].
  intros ->. rewrite andb_true_r in EA. now apply negb_false_iff in EA.
Qed.

(* ================================================================== the four kinds of step of ApplyGenericUpdate *)

Definition fin_part (s : store) (u : update) (s' : store) : Prop :=
  (s_fin s' = s_fin s /\ fin_slot_or_0 u <= h_slot (s_fin s)) \/
  (u_fin u = Some (s_fin s') /\ h_slot (s_fin s) < fin_slot_or_0 u /\ h_slot (s_fin s') = fin_slot_or_0 u).

Lemma fin_part_ext s u s' s'' : s_fin s' = s_fin s'' -> fin_part s u s'' -> fin_part s u s'.
Proof. unfold fin_part. intros ->. auto. Qed.

Lemma apply_kinds s u s' bits :
  apply s u = Ok s' -> get_bits (u_bits u) = Ok bits ->
  (s_fin s' = s_fin s /\ s_cur s' = s_cur s /\ s_next s' = s_next s) \/
  (512 * 2 <= bits * 3 /\ fin_part s u s' /\
   ((s_next s = None /\ s_cur s' = s_cur s /\ s_next s' = u_next u) \/
    (exists nx, s_next s = Some nx /\
        calc_sync_period (fin_slot_or_0 u) <> calc_sync_period (h_slot (s_fin s)) + 1 /\
        s_cur s' = s_cur s /\ s_next s' = s_next s) \/
    (exists nx, s_next s = Some nx /\
        calc_sync_period (fin_slot_or_0 u) = calc_sync_period (h_slot (s_fin s)) + 1 /\
        s_cur s' = nx /\ s_next s' = u_next u))).
Proof.
  unfold apply. intros H G. rewrite G in H. cbn [bind] in H. revert H.
  set (s1 := if s_cur_max s <? bits then set_cur_max s bits else s).
  set (s2 := if (safety_threshold s1 <? bits) && (h_slot (s_opt s1) <? h_slot (u_attested u)) then set_opt s1 (u_attested u) else s1).
  assert (E2 : s_fin s2 = s_fin s /\ s_cur s2 = s_cur s /\ s_next s2 = s_next s).
  { unfold s2, s1. destruct (s_cur_max s <? bits); destruct (_ && _); cbn; auto. }
  destruct E2 as (F2 & C2 & N2). clearbody s2. clear s1.
  destruct ((512 * 2 <=? bits * 3) && ((h_slot (s_fin s2) <? fin_slot_or_0 u) || _)) eqn:EM.
  2:{ intros H; inversion H; subst s'. left; auto. }
  apply andb_true_iff in EM as [EMaj _]. assert (Maj : 512 * 2 <= bits * 3) by lia. clear EMaj.
  intros H. right. split; [exact Maj|].
  destruct (s_next s2) as [nx|] eqn:EN.
  - destruct (calc_sync_period (fin_slot_or_0 u) =? calc_sync_period (h_slot (s_fin s2)) + 1) eqn:EP.
    + (* rotation *)
      assert (P : calc_sync_period (fin_slot_or_0 u) = calc_sync_period (h_slot (s_fin s)) + 1) by (rewrite <- F2; lia).
      cbn in H. destruct (h_slot (s_fin s2) <? fin_slot_or_0 u) eqn:EF.
      * unfold fin_slot_or_0 in EF, H. destruct (u_fin u) as [fh|] eqn:EU; [|discriminate].
        assert (FP : fin_part s u (set_fin s2 fh)).
        { right. unfold fin_slot_or_0. rewrite EU. cbn. split; [reflexivity|]. split; [rewrite <- F2; lia | reflexivity]. }
        destruct (h_slot (s_opt s2) <? h_slot fh); inversion H; subst s'; cbn;
          (split; [apply (fin_part_ext _ _ _ (set_fin s2 fh)); [reflexivity | exact FP]|]); right; right; exists nx; (split; [congruence|]); (split; [exact P|]); (split; reflexivity).
      * inversion H; subst s'. cbn. split.
        -- left. split; [exact F2 | rewrite <- F2; lia].
        -- right; right. exists nx. split; [congruence|]. split; [exact P|]. split; reflexivity.
    + assert (P : calc_sync_period (fin_slot_or_0 u) <> calc_sync_period (h_slot (s_fin s)) + 1) by (rewrite <- F2; lia).
      destruct (h_slot (s_fin s2) <? fin_slot_or_0 u) eqn:EF.
      * unfold fin_slot_or_0 in EF, H. destruct (u_fin u) as [fh|] eqn:EU; [|discriminate].
        assert (FP : fin_part s u (set_fin s2 fh)).
        { right. unfold fin_slot_or_0. rewrite EU. cbn. split; [reflexivity|]. split; [rewrite <- F2; lia | reflexivity]. }
        cbn in H. destruct (h_slot (s_opt s2) <? h_slot fh); inversion H; subst s'; cbn;
          (split; [apply (fin_part_ext _ _ _ (set_fin s2 fh)); [reflexivity | exact FP]|]); right; left; exists nx; (split; [congruence|]); (split; [exact P|]); (split; congruence).
      * inversion H; subst s'. split.
        -- left. split; [exact F2 | rewrite <- F2; lia].
        -- right; left. exists nx. split; [congruence|]. split; [exact P|]. split; congruence.
  - cbn in H. destruct (h_slot (s_fin s2) <? fin_slot_or_0 u) eqn:EF.
    + unfold fin_slot_or_0 in EF, H. destruct (u_fin u) as [fh|] eqn:EU; [|discriminate].
      assert (FP : fin_part s u (set_fin s2 fh)).
      { right. unfold fin_slot_or_0. rewrite EU. cbn. split; [reflexivity|]. split; [rewrite <- F2; lia | reflexivity]. }
      destruct (h_slot (s_opt s2) <? h_slot fh); inversion H; subst s'; cbn;
        (split; [apply (fin_part_ext _ _ _ (set_fin s2 fh)); [reflexivity | exact FP]|]); left; (split; [congruence|]); (split; [exact C2 | reflexivity]).
    + inversion H; subst s'. cbn. split.
      * left. split; [exact F2 | rewrite <- F2; lia].
      * left. split; [congruence|]. split; [exact C2 | reflexivity].
Qed.

(* ================================================================== trust: chains of committee hand-overs *)

Section Trust.
  Variable g : bytes.    (* genesis validators root: configuration, fixed for a history *)

  Definition sig_period (u : update) : N := calc_sync_period (u_sigslot u).
  Definition att_period (u : update) : N := calc_sync_period (h_slot (u_attested u)).

  (* more than two thirds (3*bits >= 2*512, as the code writes it) of committee c signed the attested header of u:
     the signature is the aggregate of exactly the keys of c at the set bits, over the signing root *)
  Definition supermajority_signed (c : committee) (u : update) : Prop :=
    exists fv bits pks ids signers,
      get_bits (u_bits u) = Ok bits /\ 512 * 2 <= bits * 3 /\
      participating_keys c (u_bits u) = Ok pks /\ pks = map PkValid ids /\
      u_sig u = SigOf signers (committee_sign_root g (htr_header (u_attested u)) fv) /\ Permutation signers ids.

  (* c, the committee of period p, hands over to nc, the committee of period p+1: a supermajority of c signed, in period p,
     a header of period p whose state root commits to nc at the next-sync-committee position (or SHA-256 collides) *)
  Definition hands_over (c : committee) (p : N) (nc : committee) : Prop :=
    exists u br, supermajority_signed c u /\ sig_period u = p /\ att_period u = p /\
      u_next u = Some nc /\ u_next_branch u = Some br /\
      branch_holds (c_root nc) NEXT_DEPTH NEXT_INDEX (h_state (u_attested u)).

  (* committees reachable from the initial store through hand-overs, labelled with their period *)
  Inductive trusted (s0 : store) : committee -> N -> Prop :=
  | tr_cur : trusted s0 (s_cur s0) (calc_sync_period (h_slot (s_fin s0)))
  | tr_next n : s_next s0 = Some n -> trusted s0 n (calc_sync_period (h_slot (s_fin s0)) + 1)
  | tr_hand c p nc : trusted s0 c p -> hands_over c p nc -> trusted s0 nc (p + 1).

  (* header h was finalized by committee c of period p: a supermajority of c signed, in period p, a header at or after h whose
     state root commits to h at the finalized-checkpoint position (or SHA-256 collides) *)
  Definition finalized_by (c : committee) (p : N) (h : header) : Prop :=
    exists u br, supermajority_signed c u /\ sig_period u = p /\
      u_fin u = Some h /\ u_fin_branch u = Some br /\
      h_slot h <= h_slot (u_attested u) /\ h_slot (u_attested u) < u_sigslot u /\
      branch_holds (htr_header h) FIN_DEPTH FIN_INDEX (h_state (u_attested u)).

  Record trust_inv (s0 s : store) : Prop := {
    ti_cur : trusted s0 (s_cur s) (calc_sync_period (h_slot (s_fin s)));
    ti_next : forall n, s_next s = Some n -> trusted s0 n (calc_sync_period (h_slot (s_fin s)) + 1);
    ti_fin : s_fin s = s_fin s0 \/
             exists c p, trusted s0 c p /\ finalized_by c p (s_fin s) /\ calc_sync_period (h_slot (s_fin s)) <= p
  }.

  Lemma trust_inv_init s0 : trust_inv s0 s0.
  Proof. constructor; [apply tr_cur | intros n E; apply tr_next; exact E | left; reflexivity]. Qed.

  Lemma period_mono a b : a <= b -> calc_sync_period a <= calc_sync_period b.
  Proof. unfold calc_sync_period. intros. lia. Qed.
  Lemma period_lt a b : calc_sync_period a < calc_sync_period b -> a < b.
  Proof. unfold calc_sync_period. intros. lia. Qed.

  Local Notation sp_ s := (calc_sync_period (h_slot (s_fin s))).
  Lemma process_preserves_trust s0 s u now fv :
    paired u -> trust_inv s0 s -> trust_inv s0 (process s (mkStep u now g fv)).
  Proof.
    intros [PF PN] I.
    destruct (process_cases s (mkStep u now g fv)) as [-> | (V & bits & G & _)]; [exact I|].
    pose proof (verified_is_applied _ _ V) as A. cbn [st_update] in A, G.
    unfold step_verified in V. cbn in V. apply verify_sound in V.
    set (s' := process s (mkStep u now g fv)) in *. clearbody s'.
    destruct (vp_time _ _ _ _ _ V) as (T1 & T2 & T3).
    pose proof (vp_period _ _ _ _ _ V) as PFt. unfold period_fits in PFt. cbv zeta in PFt.
    pose proof (vp_relevant _ _ _ _ _ V) as RL. unfold relevant in RL.
    destruct (vp_signature _ _ _ _ _ V) as (c & pks & ids & signers & CF & PK & EP & NE & SG & PM).
    (* the signing committee is trusted, with the signature period as its label *)
    assert (TS : trusted s0 c (sig_period u)).
    { unfold committee_for in CF. unfold sig_period. 
      destruct (calc_sync_period (u_sigslot u) =? (sp_ s)) eqn:E.
      - inversion CF; subst c. replace (calc_sync_period (u_sigslot u)) with (sp_ s) by lia. apply (ti_cur _ _ I).
      - destruct PFt as [E' | [_ E']]; [lia|]. rewrite E'. apply (ti_next _ _ I). exact CF. }
    destruct (apply_kinds _ _ _ _ A G) as [(F & C & N) | (Maj & FP & K)].
    { constructor.
      - rewrite C, F. apply (ti_cur _ _ I).
      - intros n E. rewrite N in E. rewrite F. apply (ti_next _ _ I). exact E.
      - rewrite F. apply (ti_fin _ _ I). }
    assert (SM : supermajority_signed c u).
    { exists fv, bits, pks, ids, signers. repeat split; assumption. }
    (* the finalized header part, given the period of the new finalized header *)
    assert (FIN : s_fin s' = s_fin s0 \/
                  exists c0 p, trusted s0 c0 p /\ finalized_by c0 p (s_fin s') /\ calc_sync_period (h_slot (s_fin s')) <= p).
    { destruct FP as [(E & _) | (E & L & E2)].
      - rewrite E. apply (ti_fin _ _ I).
      - right. exists c, (sig_period u). split; [exact TS|].
        rewrite E in PF. destruct (u_fin_branch u) as [br|] eqn:EB; [|discriminate].
        split.
        + exists u, br. split; [exact SM|]. split; [reflexivity|]. split; [exact E|]. split; [exact EB|].
          unfold fin_slot_or_0 in T3, E2. rewrite E in T3, E2. split; [lia|]. split; [exact T2|].
          eapply (vp_finality _ _ _ _ _ V); [exact E | exact EB].
        + unfold sig_period. apply period_mono. lia. }
    destruct K as [(N0 & C & N) | [(nx & N0 & P & C & N) | (nx & N0 & P & C & N)]].
    - (* the store had no next committee: it may take the update's *)
      assert (SP : calc_sync_period (u_sigslot u) = (sp_ s)) by (destruct PFt as [E | [E _]]; [exact E | congruence]).
      assert (AP : att_period u = (sp_ s)).
      { unfold att_period. pose proof (period_mono _ _ (N.lt_le_incl _ _ T2)).
        destruct RL as [L | (_ & _ & E)]; [|exact E]. pose proof (period_mono _ _ (N.lt_le_incl _ _ L)). lia. }
      assert (FS : calc_sync_period (h_slot (s_fin s')) = (sp_ s)).
      { destruct FP as [(E & _) | (E & L & E2)]; [rewrite E; reflexivity|].
        rewrite E2. pose proof (period_mono _ _ (N.lt_le_incl _ _ L)). pose proof (period_mono _ _ T3).
        unfold att_period in AP. lia. }
      constructor.
      + rewrite C, FS. apply (ti_cur _ _ I).
      + intros n E. rewrite N in E. rewrite FS.
        rewrite E in PN. destruct (u_next_branch u) as [br|] eqn:EB; [|discriminate].
        apply (tr_hand s0 c (sp_ s) n).
        * unfold sig_period in TS. rewrite SP in TS. exact TS.
        * exists u, br. split; [exact SM|]. split; [exact SP|]. split; [exact AP|]. split; [exact E|]. split; [exact EB|].
          eapply (vp_next_committee _ _ _ _ _ V); [exact E | exact EB].
      + exact FIN.
    - (* next committee known, no rotation: the finalized header stays in the store period *)
      assert (FS : calc_sync_period (h_slot (s_fin s')) = (sp_ s)).
      { destruct FP as [(E & _) | (E & L & E2)]; [rewrite E; reflexivity|].
        rewrite E2. pose proof (period_mono _ _ (N.lt_le_incl _ _ L)). pose proof (period_mono _ _ T3).
        pose proof (period_mono _ _ (N.lt_le_incl _ _ T2)). lia. }
      constructor.
      + rewrite C, FS. apply (ti_cur _ _ I).
      + intros n E. rewrite N in E. rewrite FS. apply (ti_next _ _ I). exact E.
      + exact FIN.
    - (* rotation *)
            assert (L : h_slot (s_fin s) < fin_slot_or_0 u) by (apply period_lt; lia).
      destruct FP as [(_ & L') | (E & _ & E2)]; [lia|].
      assert (FS : calc_sync_period (h_slot (s_fin s')) = (sp_ s) + 1) by (rewrite E2; exact P).
      pose proof (period_mono _ _ T3) as M1. pose proof (period_mono _ _ (N.lt_le_incl _ _ T2)) as M2.
      assert (SP : calc_sync_period (u_sigslot u) = (sp_ s) + 1) by (destruct PFt as [E' | [_ E']]; lia).
      assert (AP : att_period u = (sp_ s) + 1) by (unfold att_period; lia).
      constructor.
      + rewrite C, FS. apply (ti_next _ _ I). exact N0.
      + intros n En. rewrite N in En. rewrite FS.
        rewrite En in PN. destruct (u_next_branch u) as [br|] eqn:EB; [|discriminate].
        apply (tr_hand s0 c ((sp_ s) + 1) n).
        * unfold sig_period in TS. rewrite SP in TS. exact TS.
        * exists u, br. split; [exact SM|]. split; [exact SP|]. split; [exact AP|]. split; [exact En|]. split; [exact EB|].
          eapply (vp_next_committee _ _ _ _ _ V); [exact En | exact EB].
      + exact FIN.
  Qed.
End Trust.

(* ================================================================== histories of wire messages *)

Lemma conv_of_paired m u : conv_of m = Ok u -> paired u.
Proof. destruct m as [f| f| f]; destruct f; cbn; intros H; inversion H; split; reflexivity. Qed.

Lemma process_wire_preserves_trust g s0 s x : trust_inv g s0 s -> trust_inv g s0 (process_wire g s x).
Proof.
  intros I. unfold process_wire. destruct (conv_of (ws_msg x)) as [u| |] eqn:E; try exact I.
  apply process_preserves_trust; [eapply conv_of_paired; exact E | exact I].
Qed.

(* THE history-level safety theorem: for ANY sequence of wire messages (updates, finality updates, optimistic updates of any
   fork container, valid or not, any slots, any clock values, any fork versions), run through convert / verify / apply from
   ANY initial store: the current committee of every reached store is a committee reached from the initial store's
   committees through hand-overs, each attested - in the period of the handing-over committee, for a header of that period,
   at the next-sync-committee position of its state root - by more than two thirds of the previous one, and it carries the
   label of the store's own period; the next committee likewise with the following period; and the finalized header is
   the initial one or was finalized by more than two thirds of such a committee, in a period not before the header's. *)
Theorem history_safety g s0 : forall l, trust_inv g s0 (run_wire g s0 l).
Proof.
  intros l. unfold run_wire. generalize (trust_inv_init g s0). generalize s0 at 2 4 as s.
  induction l as [|x l IH]; intros s I; [exact I|]. cbn [fold_left]. apply IH. apply process_wire_preserves_trust. exact I.
Qed.

(* from bootstrap: the chain starts at the committee bound, through its branch and the header container root, to the
   trusted checkpoint *)
Theorem history_safety_from_bootstrap g checkpoint b now max_age strict s0 :
  bootstrap checkpoint b now max_age strict = Ok s0 ->
  htr_lc_header b = checkpoint /\ s_cur s0 = b_committee b /\ s_next s0 = None /\ s_fin s0 = b_beacon b /\
  forall l, trust_inv g s0 (run_wire g s0 l).
Proof.
  intros B. apply bootstrap_sound in B as (E & -> & _ & _).
  split; [exact E|]. split; [reflexivity|]. split; [reflexivity|]. split; [reflexivity|]. apply history_safety.
Qed.

(* no trusted committee can be conjured: every trusted committee other than the initial ones has a hand-over behind it *)
Lemma trusted_inversion g s0 c p :
  trusted g s0 c p ->
  (c = s_cur s0 /\ p = calc_sync_period (h_slot (s_fin s0))) \/
  (s_next s0 = Some c /\ p = calc_sync_period (h_slot (s_fin s0)) + 1) \/
  (exists c' p', trusted g s0 c' p' /\ hands_over g c' p' c /\ p = p' + 1).
Proof. intros T. destruct T; [left; auto | right; left; auto | right; right; eauto]. Qed.

(* ================================================================== clock and period arithmetic, for all values *)

Lemma expected_current_slot_spec now_time genesis_time slot :
  expected_current_slot now_time genesis_time < slot <->
  (0 < slot /\ now_time < genesis_time + slot * K_LC_SECONDS_PER_SLOT).
Proof.
  unfold expected_current_slot. change K_LC_SECONDS_PER_SLOT with 12.
  destruct (now_time <? genesis_time) eqn:E; split; intros H; lia.
Qed.

(* an update whose signature slot is in the future of the clock, or not after the attested slot, or whose finalized slot is
   after the attested one, is rejected with the timestamp error - for every store, every other field, every value *)
Theorem verify_rejects_bad_time s u now genesis fv bits :
  get_bits (u_bits u) = Ok bits -> bits <> 0 ->
  (now < u_sigslot u \/ u_sigslot u <= h_slot (u_attested u) \/ h_slot (u_attested u) < fin_slot_or_0 u) ->
  verify s u now genesis fv = Err E_TIMESTAMP.
Proof.
  intros G NZ H. unfold verify. rewrite G. cbn [bind]. replace (bits =? 0) with false by lia.
  replace ((u_sigslot u <=? now) && (h_slot (u_attested u) <? u_sigslot u) && (fin_slot_or_0 u <=? h_slot (u_attested u))) with false by lia.
  reflexivity.
Qed.

Theorem verify_at_rejects_future s u now_time genesis_time genesis fv :
  now_time < genesis_time + u_sigslot u * K_LC_SECONDS_PER_SLOT -> 0 < u_sigslot u ->
  verify_at s u now_time genesis_time genesis fv <> Ok tt.
Proof.
  intros F P. unfold verify_at. intros V.
  assert (L : expected_current_slot now_time genesis_time < u_sigslot u) by (apply expected_current_slot_spec; split; assumption).
  revert V L. generalize (expected_current_slot now_time genesis_time) as now. intros now V L.
  apply verify_sound in V. destruct (vp_time _ _ _ _ _ V) as (T & _ & _). lia.
Qed.

(* TimeAtSlot never wraps: its guard keeps slot * SECONDS_PER_SLOT + genesis below 2^64 *)
Lemma time_at_slot_no_wrap slot genesis_time t :
  genesis_time <= two64m1 -> time_at_slot slot genesis_time = Ok t ->
  t = slot * K_LC_SECONDS_PER_SLOT + genesis_time /\ t <= two64m1.
Proof.
  unfold time_at_slot. change K_LC_SECONDS_PER_SLOT with 12. unfold two64m1.
  intros B. destruct (_ <=? slot) eqn:E; intros H; inversion H. split; [reflexivity|]. lia.
Qed.

(* isValidCheckpoint subtracts two timestamps in uint64: a bootstrap header whose slot is in the FUTURE of the clock wraps
   to an enormous age and is invalid (rejected under StrictCheckpointAge) *)
Lemma checkpoint_in_future_is_invalid now_slot slot max_age :
  now_slot < slot -> slot * K_LC_SECONDS_PER_SLOT < two64 ->
  (slot - now_slot) * K_LC_SECONDS_PER_SLOT + max_age <= two64 ->
  is_valid_checkpoint now_slot slot max_age = false.
Proof.
  unfold is_valid_checkpoint, two64. change K_LC_SECONDS_PER_SLOT with 12. intros L B M.
  apply N.ltb_ge. rewrite (N.mod_small (slot * 12)) by exact B.
  replace (now_slot * 12 + 18446744073709551616 - slot * 12) with (18446744073709551616 - (slot - now_slot) * 12) by lia.
  rewrite N.mod_small by lia. lia.
Qed.
Lemma checkpoint_age_spec now_slot slot max_age :
  slot <= now_slot -> now_slot * K_LC_SECONDS_PER_SLOT < two64 ->
  is_valid_checkpoint now_slot slot max_age = ((now_slot - slot) * K_LC_SECONDS_PER_SLOT <? max_age).
Proof.
  unfold is_valid_checkpoint, two64. change K_LC_SECONDS_PER_SLOT with 12. intros L B.
  rewrite (N.mod_small (slot * 12)) by lia.
  replace (now_slot * 12 + 18446744073709551616 - slot * 12) with ((now_slot - slot) * 12 + 1 * 18446744073709551616) by lia.
  rewrite N.mod_add by lia. rewrite N.mod_small by lia. reflexivity.
Qed.

(* ================================================================== Electra
   The light client accepts only the electra.LightClientBootstrap container, whose branch has 6 nodes (the Electra state has
   37 fields, 64 leaves, current_sync_committee at generalized index 86 = depth 6 index 22).  The code folds 5 nodes at index
   22, i.e. it proves membership at generalized index 54 of the state root.  In a 6-deep state tree that position is the
   parent of leaves 44 and 45, which do not exist in an Electra state and are zero chunks.  So: an accepted bootstrap whose
   state root is that of an Electra-shaped tree has a committee whose hash-tree-root is H(0,0) - or SHA-256 collides.  No
   committee has that root in practice: genuine Electra bootstraps are rejected, none is wrongly accepted.  (A pre-Electra
   state served in the Electra container - 32 leaves, committee at generalized index 54 - is accepted, correctly: the sixth
   node is never read.)  Electra LightClientUpdate / LightClientFinalityUpdate containers are rejected by the converters
   (WElectra / WOther), so the depth-7 finality and depth-6 next-committee branches are never evaluated. *)
Lemma electra_leaves_under_the_checked_position :
  path_of 6 44 = path_of 5 22 ++ [false] /\ path_of 6 45 = path_of 5 22 ++ [true] /\
  firstn 5 (path_of 6 22) <> path_of 5 22.
Proof. repeat split; vm_compute; congruence. Qed.

Theorem bootstrap_on_electra_state checkpoint b now max_age strict s t :
  bootstrap checkpoint b now max_age strict = Ok s ->
  troot Hp t = h_state (b_beacon b) ->
  subtree t (path_of 5 22) = Some (Node (Leaf zero32) (Leaf zero32)) ->
  c_root (b_committee b) = Hp zero32 zero32 \/ Collision Hp.
Proof.
  intros B R S. apply bootstrap_sound in B as (_ & _ & BH & _).
  destruct (BH t _ R S) as [E | C]; [left; rewrite <- E; reflexivity | right; exact C].
Qed.

(* ================================================================== bootstrap as an operation of the history *)

(* a successful bootstrap step forgets everything that came before: the store IS the bootstrap store *)
Theorem rebootstrap_forgets g s cp b now max_age strict :
  is_ok (bootstrap cp b now max_age strict) = true ->
  process_op g s (HBootstrap cp b now max_age strict) = store_of_bootstrap b /\
  s_next (process_op g s (HBootstrap cp b now max_age strict)) = None.
Proof.
  cbn [process_op]. destruct (bootstrap cp b now max_age strict) as [s'| |] eqn:E; try discriminate. intros _.
  apply bootstrap_sound in E as (_ & -> & _). split; reflexivity.
Qed.

(* a failed bootstrap step leaves the store alone *)
Lemma failed_bootstrap_keeps g s cp b now max_age strict :
  is_ok (bootstrap cp b now max_age strict) = false -> process_op g s (HBootstrap cp b now max_age strict) = s.
Proof. cbn [process_op]. destruct (bootstrap cp b now max_age strict); [discriminate | reflexivity | reflexivity]. Qed.

Lemma run_ops_msgs g s l : run_ops g s (map HMsg l) = run_wire g s l.
Proof. unfold run_ops, run_wire. revert s. induction l as [|x l IH]; intros s; [reflexivity|]. cbn. apply IH. Qed.

(* whatever history precedes it, after a successful bootstrap the client is exactly a freshly bootstrapped one: the messages
   that follow run from store_of_bootstrap b, so the history-safety theorem applies with the bootstrap committee as the only root *)
Theorem history_after_rebootstrap g s0 before cp b now max_age strict msgs :
  is_ok (bootstrap cp b now max_age strict) = true ->
  run_ops g s0 (before ++ HBootstrap cp b now max_age strict :: map HMsg msgs) = run_wire g (store_of_bootstrap b) msgs /\
  trust_inv g (store_of_bootstrap b) (run_wire g (store_of_bootstrap b) msgs).
Proof.
  intros B. split; [|apply history_safety].
  unfold run_ops. rewrite fold_left_app. cbn [fold_left].
  destruct (rebootstrap_forgets g (fold_left (process_op g) before s0) cp b now max_age strict B) as [-> _].
  apply run_ops_msgs.
Qed.

(* ================================================================== relevance, for all values
   An update whose attested header is not newer than the store's finalized header is rejected as not relevant unless the store
   lacks a next committee AND the update carries one AND its ATTESTED period is the store's period.  In particular the closing
   update of the previous period (attested in its last slot, signed in the first slot of the store's period) is rejected by a
   store finalized in the current period: its "next" committee is the committee of the store's own period. *)
Theorem verify_rejects_irrelevant s u now genesis fv bits :
  get_bits (u_bits u) = Ok bits -> bits <> 0 ->
  u_sigslot u <= now -> h_slot (u_attested u) < u_sigslot u -> fin_slot_or_0 u <= h_slot (u_attested u) ->
  period_fits s u ->
  h_slot (u_attested u) <= h_slot (s_fin s) ->
  ~ (s_next s = None /\ u_next u <> None /\
     calc_sync_period (h_slot (u_attested u)) = calc_sync_period (h_slot (s_fin s))) ->
  verify s u now genesis fv = Err E_NOT_RELEVANT.
Proof.
  intros G NZ T1 T2 T3 PF L NR. unfold verify. rewrite G. cbn [bind]. replace (bits =? 0) with false by lia.
  replace ((u_sigslot u <=? now) && (h_slot (u_attested u) <? u_sigslot u) && (fin_slot_or_0 u <=? h_slot (u_attested u))) with true by lia.
  cbn [negb].
  assert (VP : match s_next s with
               | Some _ => (calc_sync_period (u_sigslot u) =? calc_sync_period (h_slot (s_fin s))) ||
                           (calc_sync_period (u_sigslot u) =? calc_sync_period (h_slot (s_fin s)) + 1)
               | None => calc_sync_period (u_sigslot u) =? calc_sync_period (h_slot (s_fin s))
               end = true).
  { unfold period_fits in PF. destruct (s_next s) as [nx|]; [destruct PF as [E | [_ E]]; rewrite E; rewrite ?N.eqb_refl, ?orb_true_r; reflexivity|].
    destruct PF as [E | [F _]]; [rewrite E; apply N.eqb_refl | congruence]. }
  rewrite VP. cbn [negb].
  assert (VR : (h_slot (u_attested u) <=? h_slot (s_fin s)) &&
               negb (negb (is_some (s_next s)) && is_some (u_next u) &&
                     (calc_sync_period (h_slot (u_attested u)) =? calc_sync_period (h_slot (s_fin s)))) = true).
  { apply andb_true_iff. split; [lia|]. apply negb_true_iff. apply not_true_is_false. intros H.
    apply andb_true_iff in H as [H H3]. apply andb_true_iff in H as [H1 H2]. apply NR.
    split; [destruct (s_next s); [discriminate | reflexivity]|]. split; [destruct (u_next u); [discriminate | discriminate]|]. lia. }
  rewrite VR. reflexivity.
Qed.

Corollary closing_update_of_previous_period_rejected s u now genesis fv bits :
  get_bits (u_bits u) = Ok bits -> bits <> 0 -> u_sigslot u <= now ->
  fin_slot_or_0 u <= h_slot (u_attested u) ->
  let p := calc_sync_period (h_slot (s_fin s)) in
  1 <= p -> u_sigslot u = p * 8192 -> h_slot (u_attested u) = p * 8192 - 1 ->
  verify s u now genesis fv = Err E_NOT_RELEVANT.
Proof.
  intros G NZ T1 T3 p P1 SG AT. subst p.
  apply (verify_rejects_irrelevant s u now genesis fv bits G NZ T1); try assumption.
  - unfold calc_sync_period in *. lia.
  - left. unfold calc_sync_period in *. lia.
  - unfold calc_sync_period in *. lia.
  - intros (_ & _ & E). unfold calc_sync_period in *. lia.
Qed.
