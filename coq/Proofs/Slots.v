(* Proofs/Slots.v : theorems about Model/Slots.v (C16). *)
From Shisui Require Import Base.Bytes Model.Slots.
From Coq Require Import ZifyBool ZifyN ZifyNat.

Local Arguments N.ltb : simpl never.
Local Arguments N.eqb : simpl never.
Local Arguments N.add : simpl never.
Local Arguments N.sub : simpl never.
Local Arguments N.of_nat : simpl never.

(* ------------------------------------------------------------------ 1. the counter never exceeds the limit *)

Lemma try_acquire_some limit c c' : try_acquire limit c = Some c' -> c < limit /\ c' = c + 1.
Proof. unfold try_acquire. destruct (c <? limit) eqn:E; [|discriminate]. intros H; inversion H. lia. Qed.
Lemma try_acquire_none limit c : try_acquire limit c = None <-> limit <= c.
Proof. unfold try_acquire. destruct (c <? limit) eqn:E; split; intros; try discriminate; try reflexivity; lia. Qed.
Lemma sem_release_ok c c' : sem_release c = Ok c' -> 0 < c /\ c' = c - 1.
Proof. unfold sem_release. destruct (c =? 0) eqn:E; [discriminate|]. intros H; inversion H. lia. Qed.

Lemma sem_apply_bounded limit c o c' : c <= limit -> sem_apply limit c o = Ok c' -> c' <= limit.
Proof.
  intros Hc H. destruct o; cbn [sem_apply] in H.
  - destruct (try_acquire limit c) eqn:E; inversion H; subst; [apply try_acquire_some in E|]; lia.
  - apply sem_release_ok in H. lia.
Qed.

Theorem sem_bounded limit ops : forall c, c <= limit -> Forall (fun x => x <= limit) (sem_trace limit ops c).
Proof.
  induction ops as [|o r IH]; intros c Hc; cbn [sem_trace].
  - repeat constructor; assumption.
  - constructor; [assumption|]. destruct (sem_apply limit c o) eqn:E; try constructor.
    apply IH. eapply sem_apply_bounded; eassumption.
Qed.

(* a failed TryAcquire means that the limit is reached (the semaphore does not refuse while slots are free) *)
Theorem try_acquire_fails_only_when_full limit c : c <= limit -> (try_acquire limit c = None <-> c = limit).
Proof. intros. rewrite try_acquire_none. lia. Qed.

Lemma acquire_many_ok limit : forall n c, c + N.of_nat n <= limit -> acquire_many limit n c = Some (c + N.of_nat n).
Proof.
  induction n as [|n IH]; intros c H; cbn [acquire_many].
  - f_equal. lia.
  - unfold try_acquire. destruct (c <? limit) eqn:E; [|lia]. rewrite IH by lia. f_equal. lia.
Qed.

(* from an idle semaphore exactly `limit` acquisitions succeed *)
Theorem idle_gives_limit limit :
  acquire_many limit (N.to_nat limit) 0 = Some limit /\ try_acquire limit limit = None.
Proof.
  split.
  - rewrite acquire_many_ok by lia. f_equal. lia.
  - apply try_acquire_none. lia.
Qed.

(* ------------------------------------------------------------------ 2. every flow releases exactly once *)

Lemma exec_app p evs1 evs2 n0 :
  fold_left exec_ev (evs1 ++ evs2) (p, n0) = fold_left exec_ev evs2 (fold_left exec_ev evs1 (p, n0)).
Proof. apply fold_left_app. Qed.

(* what one offer must satisfy: acquired -> action() ran exactly once and Release was called; not acquired -> nothing *)
Definition release_once (evs : list ev) : Prop :=
  effective evs = (if acquired evs then 1%nat else 0%nat) /\
  (acquired evs = true -> (1 <= calls evs)%nat) /\
  (acquired evs = false -> calls evs = 0%nat).

(* outbound, repaired flow: every outcome except "still queued at shutdown" *)
Theorem out_release_once : forall o, o <> OGot PShutdownQueued -> release_once (out_events true o).
Proof.
  intros o Hne. unfold release_once.
  destruct o as [|p]; [cbv; repeat split; auto; lia|].
  destruct p as [| |s]; [cbv; repeat split; auto; try lia; discriminate| congruence |].
  destruct s as [| |r]; [cbv; repeat split; auto; try lia; discriminate ..|].
  destruct r as [| | | | |t]; [cbv; repeat split; auto; try lia; discriminate ..|].
  destruct t; cbv; repeat split; auto; try lia; discriminate.
Qed.

(* offer() called with a caller-supplied permit (the worker, the API): exactly one Release call on every exit, so a
   real permit is given back exactly once and nothing is released twice *)
Theorem offer_one_call : forall s, calls (offer true s) = 1%nat /\ effective (Acquire :: offer true s) = 1%nat.
Proof.
  intros s. destruct s as [| |r]; [cbv; auto ..|].
  destruct r as [| | | | |t]; [cbv; auto ..|]. destruct t; cbv; auto.
Qed.

(* code as found *)
Theorem offer_leak_refuted :
  (exists s, acquired (Acquire :: offer false s) = true /\ calls (offer false s) = 0%nat /\ effective (Acquire :: offer false s) = 0%nat /\ s = STalkErr) /\
  (exists s, acquired (Acquire :: offer false s) = true /\ calls (offer false s) = 0%nat /\ effective (Acquire :: offer false s) = 0%nat /\ s = SMarshalErr).
Proof. split; [exists STalkErr | exists SMarshalErr]; cbv; auto. Qed.

Theorem gossip_queue_full_leak_refuted :
  acquired (out_events false (OGot PQueueFull)) = true /\
  calls (out_events false (OGot PQueueFull)) = 0%nat /\ effective (out_events false (OGot PQueueFull)) = 0%nat.
Proof. cbv; auto. Qed.

(* the only leaks of the code as found are these three exits *)
Theorem as_found_leaks_exactly : forall o,
  release_once (out_events false o) <->
  (o <> OGot PQueueFull /\ o <> OGot (PWorker SMarshalErr) /\ o <> OGot (PWorker STalkErr) /\ o <> OGot PShutdownQueued).
Proof.
  intros o. unfold release_once. split.
  - intros (He & Hc & _). repeat split; intros ->; cbv in Hc; specialize (Hc eq_refl); lia.
  - intros (H1 & H2 & H3 & H4).
    destruct o as [|p]; [cbv; repeat split; auto; lia|].
    destruct p as [| |s]; [congruence | congruence |].
    destruct s as [| |r]; [congruence | congruence |].
    destruct r as [| | | | |t]; [cbv; repeat split; auto; try lia; discriminate ..|].
    destruct t; cbv; repeat split; auto; try lia; discriminate.
Qed.

(* stated, not hidden: a request still in the queue when closeCtx is cancelled keeps its slot (no worker takes it out) *)
Theorem shutdown_queued_keeps_slot : forall fixed,
  acquired (out_events fixed (OGot PShutdownQueued)) = true /\ effective (out_events fixed (OGot PShutdownQueued)) = 0%nat.
Proof. intros []; cbv; auto. Qed.

(* inbound *)
Lemma recv_loop_shape : forall its e f, recv_loop its = (e, f) -> e = repeat Release (length e).
Proof.
  induction its as [|it r IH]; intros e f H; cbn [recv_loop] in H.
  - inversion H; reflexivity.
  - destruct it as [| |h]; try (inversion H; reflexivity).
    destruct (handled_err h).
    + inversion H; reflexivity.
    + destruct (recv_loop r) as [e' f'] eqn:E. inversion H; subst. cbn [length repeat]. f_equal. eapply IH; reflexivity.
Qed.

Lemma exec_releases_after_release n k :
  fold_left exec_ev (repeat Release n) (ReleasePermit true, k) = (ReleasePermit true, k).
Proof. induction n; cbn [repeat fold_left exec_ev fst]; auto. Qed.

Lemma exec_acquire_releases n :
  effective (Acquire :: repeat Release (S n)) = 1%nat.
Proof.
  unfold effective, exec. cbn [fold_left exec_ev repeat fst snd]. rewrite exec_releases_after_release. reflexivity.
Qed.

Lemma calls_repeat n : calls (repeat Release n) = n.
Proof. unfold calls. induction n; cbn [repeat filter is_release length]; auto. Qed.

Lemma repeat_snoc {A} (x : A) n : repeat x n ++ [x] = repeat x (S n).
Proof. induction n; cbn [repeat app]; [reflexivity|]. rewrite IHn. reflexivity. Qed.

(* every inbound outcome whose goroutine has returned (any number of loop iterations, any read results) *)
Theorem in_release_once : forall o evs, in_events o = (evs, true) -> release_once evs.
Proof.
  intros o evs H. unfold release_once.
  destruct o as [| | | |its]; cbn [in_events] in H; try (inversion H; subst; cbv; repeat split; auto; lia).
  unfold recv_goroutine in H. destruct (recv_loop its) as [e f] eqn:E.
  destruct f; inversion H; subst; clear H.
  apply recv_loop_shape in E. rewrite E. rewrite repeat_snoc.
  cbn [acquired existsb is_acquire orb].
  repeat split.
  - apply exec_acquire_releases.
  - intros _. unfold calls. cbn [filter is_acquire is_release]. fold (calls (repeat Release (S (length e)))).
    rewrite calls_repeat. lia.
  - discriminate.
Qed.

(* the early release: as soon as one read has completed the slot is back, even if the goroutine is still looping *)
Theorem in_released_after_first_read : forall h rest evs f,
  in_events (IGot (RRead h :: rest)) = (evs, f) -> effective evs = 1%nat.
Proof.
  intros h rest evs f H. cbn [in_events] in H. unfold recv_goroutine in H.
  destruct (recv_loop (RRead h :: rest)) as [e f'] eqn:E.
  pose proof (recv_loop_shape _ _ _ E) as Hs.
  assert (He : exists n, e = repeat Release (S n)).
  { cbn [recv_loop] in E. destruct (handled_err h).
    - inversion E; subst. exists 0%nat. reflexivity.
    - destruct (recv_loop rest) as [e' f''] eqn:E'. inversion E; subst. exists (length e').
      cbn [repeat]. f_equal. eapply recv_loop_shape; eassumption. }
  destruct He as [n ->].
  destruct f'; inversion H; subst.
  - rewrite repeat_snoc. apply exec_acquire_releases.
  - apply exec_acquire_releases.
Qed.

(* a goroutine that has not returned and has not read yet still holds its slot: it is waiting in AcceptWithCid, for at
   most defaultUTPConnectTimeout *)
Theorem in_unfinished_means_looping : forall its evs, in_events (IGot its) = (evs, false) ->
  evs = Acquire :: repeat Release (length its) /\ Forall (fun it => exists h, it = RRead h /\ handled_err h = false) its.
Proof.
  intros its evs H. cbn [in_events] in H. unfold recv_goroutine in H.
  destruct (recv_loop its) as [e f] eqn:E. destruct f; inversion H; subst; clear H.
  revert e E. induction its as [|it r IH]; intros e E; cbn [recv_loop] in E.
  - inversion E; subst. split; [reflexivity | constructor].
  - destruct it as [| |h]; try discriminate.
    destruct (handled_err h) eqn:Hh; [discriminate|].
    destruct (recv_loop r) as [e' f'] eqn:E'. inversion E; subst.
    destruct (IH e' eq_refl) as [H1 H2]. inversion H1 as [H1']. split.
    + cbn [length repeat]. rewrite <- H1'. reflexivity.
    + constructor; [exists h; auto | assumption].
Qed.

(* ------------------------------------------------------------------ gossip loop on the real semaphore *)

(* one round conserves slots: what is held afterwards is what was held before plus exactly the queued requests *)
Theorem gossip_round_conserves limit : forall targets sem room q d s sem' room' q' d' s',
  sem <= limit ->
  gossip_round true limit targets sem room (q, d, s) = Ok (sem', room', (q', d', s')) ->
  sem' <= limit /\ sem' + q = sem + q' /\ room' + q' = room + q /\
  q' + d' + s' = q + d + s + N.of_nat targets.
Proof.
  induction targets as [|t IH]; intros sem room q d s sem' room' q' d' s' Hle H; cbn [gossip_round] in H.
  - inversion H; subst. lia.
  - unfold get_permit in H. destruct (try_acquire limit sem) as [c|] eqn:E.
    + apply try_acquire_some in E. destruct E as [Hlt ->].
      destruct (0 <? room) eqn:R.
      * apply IH in H; lia.
      * cbn [permit_release] in H. unfold sem_release in H.
        destruct (sem + 1 =? 0) eqn:Z; [lia|].
        apply IH in H; lia.
    + apply IH in H; lia.
Qed.

(* the repaired loop never trips the semaphore's "released more than held" panic *)
Theorem gossip_round_total limit : forall targets sem room acc, exists r, gossip_round true limit targets sem room acc = Ok r.
Proof.
  induction targets as [|t IH]; intros sem room [[q d] s]; cbn [gossip_round].
  - eexists; reflexivity.
  - unfold get_permit. destruct (try_acquire limit sem) as [c|] eqn:E.
    + apply try_acquire_some in E. destruct E as [Hlt ->].
      destruct (0 <? room); [apply IH|].
      cbn [permit_release]. unfold sem_release. destruct (sem + 1 =? 0) eqn:Z; [lia|]. apply IH.
    + apply IH.
Qed.

(* as found: with a full queue every target that gets a permit loses it *)
Theorem gossip_round_as_found_leaks :
  exists limit targets, gossip_round false limit targets 0 0 (0, 0, 0) = Ok (limit, 0, (0, limit, N.of_nat targets - limit)) /\ 0 < limit.
Proof. exists 3, 5%nat. vm_compute. split; reflexivity. Qed.

(* with at most as many slots as queue places, a gossip round that starts with `sem` slots in use - all of them held by
   queued or running offers - always finds room: the overflow branch needs limit > queue capacity *)
Theorem gossip_never_overflows_when_limit_small limit : forall targets sem room q d s sem' room' q' d' s',
  sem <= limit -> limit <= sem + room ->
  gossip_round true limit targets sem room (q, d, s) = Ok (sem', room', (q', d', s')) -> d' = d.
Proof.
  induction targets as [|t IH]; intros sem room q d s sem' room' q' d' s' Hle Hroom H; cbn [gossip_round] in H.
  - inversion H; subst. reflexivity.
  - unfold get_permit in H. destruct (try_acquire limit sem) as [c|] eqn:E.
    + apply try_acquire_some in E. destruct E as [Hlt ->].
      destruct (0 <? room) eqn:R; [|lia].
      apply IH in H; [assumption | lia | lia].
    + apply IH in H; assumption.
Qed.

(* ------------------------------------------------------------------ 3. any number of offers, any schedule *)

Definition nheld (ls : list local) : nat := length (filter local_holding ls).
Definition bnat (b : bool) : nat := if b then 1%nat else 0%nat.

Lemma nheld_upd : forall ls i l l', nth_error ls i = Some l ->
  (nheld (upd ls i l') + bnat (local_holding l) = nheld ls + bnat (local_holding l'))%nat.
Proof.
  unfold nheld. induction ls as [|y r IH]; intros i l l' H.
  - destruct i; discriminate.
  - destruct i as [|j]; cbn [nth_error] in H.
    + inversion H; subst. cbn [upd filter]. destruct (local_holding l), (local_holding l'); cbn [length bnat]; lia.
    + cbn [upd filter]. specialize (IH j l l' H). destruct (local_holding y); cbn [length]; lia.
Qed.

(* an offer that holds (or may come to hold) a slot still has a Release call to make *)
Definition local_good (l : local) : Prop :=
  match l with
  | LPending k => (1 <= k)%nat
  | LRunning (ReleasePermit false) k => (1 <= k)%nat
  | _ => True
  end.

Lemma Forall_upd {A} (P : A -> Prop) : forall ls i x, Forall P ls -> P x -> Forall P (upd ls i x).
Proof.
  induction ls as [|y r IH]; intros i x H Hx; cbn [upd]; [constructor|].
  inversion H; subst. destruct i; constructor; auto.
Qed.

Lemma Forall_nth_error {A} (P : A -> Prop) : forall ls i x, Forall P ls -> nth_error ls i = Some x -> P x.
Proof.
  induction ls as [|y r IH]; intros i x H E; destruct i; try discriminate; inversion H; subst.
  - inversion E; subst; assumption.
  - eapply IH; eassumption.
Qed.

Definition ginv (limit : N) (g : N * list local) : Prop :=
  fst g = N.of_nat (nheld (snd g)) /\ fst g <= limit /\ Forall local_good (snd g).

Lemma sched_step_inv limit g i : ginv limit g -> exists g', sched_step limit g i = Ok g' /\ ginv limit g'.
Proof.
  destruct g as [sem ls]. intros (Hc & Hle & Hg). cbn [fst snd] in *. unfold sched_step. cbn [fst snd].
  destruct (nth_error ls i) as [l|] eqn:E; [|eexists; split; [reflexivity|repeat split; assumption]].
  pose proof (Forall_nth_error _ _ _ _ Hg E) as Hl.
  destruct l as [k|p k]; cbn [local_step].
  - (* asks for a permit *)
    unfold get_permit. destruct (try_acquire limit sem) as [c|] eqn:A.
    + apply try_acquire_some in A. destruct A as [Hlt ->].
      eexists; split; [reflexivity|]. unfold ginv; cbn [fst snd].
      pose proof (nheld_upd ls i _ (LRunning (ReleasePermit false) k) E) as U. cbn [local_holding bnat] in U.
      repeat split; [lia | lia | apply Forall_upd; [assumption | exact Hl]].
    + eexists; split; [reflexivity|]. unfold ginv; cbn [fst snd].
      pose proof (nheld_upd ls i _ (LRunning NoPermit 0) E) as U. cbn [local_holding bnat] in U.
      repeat split; [lia | lia | apply Forall_upd; [assumption | exact I]].
  - destruct k as [|k].
    + eexists; split; [reflexivity|]. unfold ginv; cbn [fst snd].
      pose proof (nheld_upd ls i _ (LRunning p 0) E) as U.
      repeat split; [lia | lia | apply Forall_upd; assumption].
    + destruct p as [|[|]]; cbn [permit_release].
      * eexists; split; [reflexivity|]. unfold ginv; cbn [fst snd].
        pose proof (nheld_upd ls i _ (LRunning NoPermit k) E) as U. cbn [local_holding bnat] in U.
        repeat split; [lia | lia | apply Forall_upd; [assumption | exact I]].
      * eexists; split; [reflexivity|]. unfold ginv; cbn [fst snd].
        pose proof (nheld_upd ls i _ (LRunning (ReleasePermit true) k) E) as U. cbn [local_holding bnat] in U.
        repeat split; [lia | lia | apply Forall_upd; [assumption | exact I]].
      * pose proof (nheld_upd ls i _ (LRunning (ReleasePermit true) k) E) as U. cbn [local_holding bnat] in U.
        unfold sem_release. destruct (sem =? 0) eqn:Z; [lia|].
        eexists; split; [reflexivity|]. unfold ginv; cbn [fst snd].
        repeat split; [lia | lia | apply Forall_upd; [assumption | exact I]].
Qed.

Lemma sched_run_inv limit : forall sched g, ginv limit g -> exists g', sched_run limit sched g = Ok g' /\ ginv limit g'.
Proof.
  induction sched as [|i r IH]; intros g H; cbn [sched_run].
  - eexists; split; [reflexivity | assumption].
  - destruct (sched_step_inv limit g i H) as (g1 & E1 & H1). rewrite E1. apply IH. assumption.
Qed.

Lemma finished_good_not_holding : forall ls, Forall local_good ls -> all_finished ls = true -> nheld ls = 0%nat.
Proof.
  unfold nheld, all_finished. induction ls as [|l r IH]; intros Hg Hf; [reflexivity|].
  inversion Hg; subst. cbn [forallb] in Hf. apply andb_true_iff in Hf as [Hl Hr].
  cbn [filter]. destruct l as [k|p k]; [discriminate|].
  destruct k; [|discriminate]. destruct p as [|[|]]; cbn [local_holding]; try (apply IH; assumption).
  cbn [local_good] in H1. lia.
Qed.

Lemma nheld_pending ks : nheld (map LPending ks) = 0%nat.
Proof. unfold nheld. induction ks; cbn [map filter local_holding]; auto. Qed.

(* MAIN: any number of offers, each making at least one Release call once it holds a slot, under ANY schedule
   (any interleaving of their steps that respects each offer's own order), stopped at ANY point:
   - no step panics ("released more than held" never happens),
   - the number of slots in use never exceeds the limit (every prefix of a schedule is a schedule),
   - the counter equals the number of offers that hold an unreleased permit,
   - when all offers have finished the counter is 0 and exactly `limit` acquisitions succeed again. *)
Theorem any_schedule limit ks sched :
  Forall (fun k => (1 <= k)%nat) ks ->
  exists sem ls,
    sched_run limit sched (0, map LPending ks) = Ok (sem, ls) /\
    sem <= limit /\ sem = N.of_nat (nheld ls) /\
    (all_finished ls = true ->
       sem = 0 /\ acquire_many limit (N.to_nat limit) sem = Some limit /\ try_acquire limit limit = None).
Proof.
  intros Hk.
  assert (H0 : ginv limit (0, map LPending ks)).
  { unfold ginv; cbn [fst snd]. rewrite nheld_pending. repeat split; [lia|].
    induction Hk; cbn [map]; constructor; auto. }
  destruct (sched_run_inv limit sched _ H0) as ([sem ls] & E & (Hc & Hle & Hg)). cbn [fst snd] in *.
  exists sem, ls. repeat split; try assumption.
  - pose proof (finished_good_not_holding ls Hg H). lia.
  - pose proof (finished_good_not_holding ls Hg H). replace sem with 0 by lia. apply idle_gives_limit.
  - apply idle_gives_limit.
Qed.

(* the premise is what section 2 proves of every flow *)
Lemma calls_ge1_out : forall p, p <> PShutdownQueued -> (1 <= calls (gossip_path true p))%nat.
Proof.
  intros p Hp. destruct (out_release_once (OGot p)) as (_ & H & _); [congruence|].
  specialize (H eq_refl). unfold calls in *. cbn [out_events filter is_release] in H. exact H.
Qed.

Lemma calls_ge1_in : forall its evs, in_events (IGot its) = (evs, true) -> (1 <= calls (tl evs))%nat.
Proof.
  intros its evs H. pose proof (in_release_once _ _ H) as (_ & Hc & _).
  cbn [in_events] in H. destruct (recv_goroutine its) as [e f]. inversion H; subst.
  specialize (Hc eq_refl). unfold calls in *. cbn [filter is_release tl] in *. exact Hc.
Qed.

(* instantiated with the flows: any list of outbound paths (none left in the queue at shutdown) *)
Theorem any_schedule_outbound limit paths sched :
  Forall (fun p => p <> PShutdownQueued) paths ->
  exists sem ls,
    sched_run limit sched (0, start_offers (map (gossip_path true) paths)) = Ok (sem, ls) /\
    sem <= limit /\
    (all_finished ls = true -> sem = 0 /\ acquire_many limit (N.to_nat limit) sem = Some limit).
Proof.
  intros Hp. unfold start_offers. rewrite map_map.
  destruct (any_schedule limit (map (fun p => calls (gossip_path true p)) paths) sched) as (sem & ls & E & Hle & _ & Hf).
  - induction Hp; cbn [map]; constructor; auto. apply calls_ge1_out; assumption.
  - rewrite map_map in E. exists sem, ls. repeat split; try assumption; apply Hf; assumption.
Qed.

(* and inbound: any list of receive goroutines that have returned *)
Theorem any_schedule_inbound limit (itss : list (list recv_iter)) sched :
  Forall (fun its => snd (recv_goroutine its) = true) itss ->
  exists sem ls,
    sched_run limit sched (0, start_offers (map (fun its => fst (recv_goroutine its)) itss)) = Ok (sem, ls) /\
    sem <= limit /\
    (all_finished ls = true -> sem = 0 /\ acquire_many limit (N.to_nat limit) sem = Some limit).
Proof.
  intros Hp. unfold start_offers. rewrite map_map.
  destruct (any_schedule limit (map (fun its => calls (fst (recv_goroutine its))) itss) sched) as (sem & ls & E & Hle & _ & Hf).
  - induction Hp as [|its r Hi Hr IH]; cbn [map]; constructor; auto.
    destruct (recv_goroutine its) as [e f] eqn:G. cbn [snd] in Hi. subst f. cbn [fst].
    assert (H : in_events (IGot its) = (Acquire :: e, true)) by (cbn [in_events]; rewrite G; reflexivity).
    apply calls_ge1_in in H. exact H.
  - rewrite map_map in E. exists sem, ls. repeat split; try assumption; apply Hf; assumption.
Qed.

(* the code as found violates it: one offer to a silent peer, run to its end, and a slot is gone for good *)
Theorem any_schedule_as_found_refuted :
  exists limit sched sem ls,
    sched_run limit sched (0, start_offers [gossip_path false (PWorker STalkErr)]) = Ok (sem, ls) /\
    all_finished ls = true /\ sem = 1 /\ acquire_many limit (N.to_nat limit) sem = None.
Proof. exists 1, [0%nat], 1, [LRunning (ReleasePermit false) 0]. vm_compute. repeat split; reflexivity. Qed.

(* ------------------------------------------------------------------ schedules that finish exist (non-vacuity of "finished") *)

Lemma upd_app_r {A} (pre : list A) x post y : upd (pre ++ x :: post) (length pre) y = pre ++ y :: post.
Proof. induction pre; cbn [app length upd]; [reflexivity | f_equal; assumption]. Qed.
Lemma nth_error_mid {A} (pre : list A) x post : nth_error (pre ++ x :: post) (length pre) = Some x.
Proof. induction pre; cbn [app length nth_error]; auto. Qed.

Lemma run_releases limit pre post : forall k p sem,
  (p = NoPermit \/ p = ReleasePermit true) ->
  sched_run limit (repeat (length pre) k) (sem, pre ++ LRunning p k :: post) = Ok (sem, pre ++ LRunning p 0 :: post).
Proof.
  induction k as [|k IH]; intros p sem Hp; cbn [repeat sched_run]; [reflexivity|].
  unfold sched_step. cbn [fst snd]. rewrite nth_error_mid. cbn [local_step].
  destruct Hp as [-> | ->]; cbn [permit_release]; rewrite upd_app_r; apply IH; auto.
Qed.

Lemma upd_same {A} : forall (ls : list A) i l, nth_error ls i = Some l -> upd ls i l = ls.
Proof.
  induction ls as [|y r IH]; intros i l H; destruct i; try discriminate; cbn [upd nth_error] in *.
  - inversion H; reflexivity.
  - f_equal. apply IH. assumption.
Qed.

Lemma run_stutter limit pre post p : forall n sem,
  sched_run limit (repeat (length pre) n) (sem, pre ++ LRunning p 0 :: post) = Ok (sem, pre ++ LRunning p 0 :: post).
Proof.
  induction n as [|n IH]; intros sem; cbn [repeat sched_run]; [reflexivity|].
  unfold sched_step. cbn [fst snd]. rewrite nth_error_mid. cbn [local_step].
  rewrite upd_same by apply nth_error_mid. apply IH.
Qed.

(* one offer run from its first step to its end on an idle semaphore *)
Lemma seq_one limit pre post k : (1 <= k)%nat ->
  exists l', sched_run limit (repeat (length pre) (S k)) (0, pre ++ LPending k :: post) = Ok (0, pre ++ l' :: post) /\
             local_finished l' = true /\ local_holding l' = false.
Proof.
  intros Hk. cbn [repeat sched_run]. unfold sched_step at 1. cbn [fst snd]. rewrite nth_error_mid. cbn [local_step].
  unfold get_permit, try_acquire. destruct (0 <? limit) eqn:L.
  - rewrite upd_app_r. destruct k as [|k]; [lia|].
    cbn [repeat sched_run]. unfold sched_step at 1. cbn [fst snd]. rewrite nth_error_mid. cbn [local_step permit_release].
    unfold sem_release. replace (0 + 1 =? 0) with false by (symmetry; apply N.eqb_neq; lia).
    rewrite upd_app_r. replace (0 + 1 - 1) with 0 by lia.
    exists (LRunning (ReleasePermit true) 0). split; [apply run_releases; auto | split; reflexivity].
  - rewrite upd_app_r. exists (LRunning NoPermit 0). split; [apply run_stutter | split; reflexivity].
Qed.

Lemma sched_run_app limit : forall s1 s2 g,
  sched_run limit (s1 ++ s2) g =
  match sched_run limit s1 g with Ok g' => sched_run limit s2 g' | Err e => Err e | Panic => Panic end.
Proof.
  induction s1 as [|i r IH]; intros s2 g; cbn [app sched_run]; [reflexivity|].
  destruct (sched_step limit g i); auto.
Qed.

(* sequential composition: each offer runs to its end before the next starts - a schedule that finishes everything *)
Theorem seq_sched_finishes limit : forall ks pre,
  Forall (fun k => (1 <= k)%nat) ks -> all_finished pre = true ->
  exists ls, sched_run limit (seq_sched (length pre) ks) (0, pre ++ map LPending ks) = Ok (0, ls) /\ all_finished ls = true.
Proof.
  induction ks as [|k r IH]; intros pre Hk Hpre; cbn [seq_sched map].
  - rewrite app_nil_r. exists pre. split; [reflexivity | assumption].
  - inversion Hk as [|? ? Hk1 Hkr]; subst.
    destruct (seq_one limit pre (map LPending r) k Hk1) as (l' & E & Hf & _).
    rewrite sched_run_app, E.
    replace (pre ++ l' :: map LPending r) with ((pre ++ [l']) ++ map LPending r) by (rewrite <- app_assoc; reflexivity).
    replace (S (length pre)) with (length (pre ++ [l'])) by (rewrite app_length; cbn [length]; lia).
    apply IH; [assumption|].
    unfold all_finished in *. rewrite forallb_app, Hpre. cbn [forallb]. rewrite Hf. reflexivity.
Qed.

Corollary seq_sched_finishes0 limit ks :
  Forall (fun k => (1 <= k)%nat) ks ->
  exists ls, sched_run limit (seq_sched 0 ks) (0, map LPending ks) = Ok (0, ls) /\ all_finished ls = true.
Proof. intros H. exact (seq_sched_finishes limit ks [] H eq_refl). Qed.

(* ================================================================ inbound transfer phases: in progress => slot held *)

(* forgetting the phases gives exactly the slot events the rest of this file reasons about *)
Lemma erase_app a b : erase_phases (a ++ b) = erase_phases a ++ erase_phases b.
Proof. unfold erase_phases. apply flat_map_app. Qed.

Lemma erase_loop early : forall its, erase_phases (fst (recv_phases_loop early true its)) = fst (recv_loop its) /\
                                      snd (recv_phases_loop early true its) = snd (recv_loop its).
Proof.
  induction its as [|it rest IH]; [split; reflexivity|].
  destruct it as [| |h]; cbn [recv_phases_loop recv_loop]; try (split; reflexivity).
  destruct (handled_err h); cbn [orb negb]; [destruct early; split; reflexivity|].
  destruct (recv_phases_loop early true rest) as [e f], (recv_loop rest) as [e' f']. cbn [fst snd] in *. destruct IH as [E F].
  subst. rewrite erase_app. destruct early; split; reflexivity.
Qed.

Theorem phases_erase early its :
  (Acquire :: fst (recv_goroutine its), snd (recv_goroutine its)) =
  (erase_phases (fst (recv_phases early true its)), snd (recv_phases early true its)).
Proof.
  unfold recv_phases, recv_goroutine. destruct (erase_loop early its) as [E F].
  destruct (recv_phases_loop early true its) as [e f], (recv_loop its) as [e' f']. cbn [fst snd] in *. subst.
  destruct f'; cbn [fst snd erase_phases flat_map phase_ev app]; [|reflexivity].
  change (flat_map phase_ev (e ++ [PRelease])) with (erase_phases (e ++ [PRelease])).
  now rewrite erase_app.
Qed.

(* at most one stream: after a read whose contents were handled without error the loop goes round again, and that further
   iteration does not get a stream (nobody connects a second time on the same connection id) *)
Fixpoint single_stream (its : list recv_iter) : bool :=
  match its with
  | RRead h :: rest =>
      handled_err h || match rest with RRead _ :: _ => false | _ => single_stream rest end
  | _ => true
  end.

Lemma covers_after_release : forall its e f, recv_phases_loop false true its = (e, f) -> single_stream its = true ->
  (match its with RRead _ :: _ => False | _ => True end) ->
  slot_covers false false (if f then e ++ [PRelease] else e) = true.
Proof.
  intros its e f H _ NR. destruct its as [|[| |h] rest]; cbn [recv_phases_loop] in H; try contradiction;
    inversion H; subst; reflexivity.
Qed.

(* the code as found (looping goroutine): while the offered transfer is in progress its slot is held, provided nobody
   connects a second time *)
Theorem recv_phases_covered_loop its : single_stream its = true ->
  slot_covers false false (fst (recv_phases false true its)) = true.
Proof.
  intros S. unfold recv_phases. destruct (recv_phases_loop false true its) as [e f] eqn:L. cbn [fst slot_covers implb andb].
  destruct its as [|[| |h] rest]; cbn [recv_phases_loop] in L.
  - inversion L; subst. reflexivity.
  - inversion L; subst. reflexivity.
  - inversion L; subst. reflexivity.
  - cbn [single_stream] in S. destruct (handled_err h) eqn:HE.
    + inversion L; subst. reflexivity.
    + cbn [orb negb] in S, L. destruct (recv_phases_loop false true rest) as [e' f'] eqn:L'. inversion L; subst.
      assert (NR : match rest with RRead _ :: _ => False | _ => True end) by (destruct rest as [|[| |?] ?]; auto; discriminate).
      assert (S' : single_stream rest = true) by (destruct rest as [|[| |?] ?]; auto; discriminate).
      pose proof (covers_after_release rest e' f L' S' NR) as C.
      destruct f; cbn [app slot_covers implb andb negb]; exact C.
Qed.

(* the repaired code (the goroutine returns after the stream it was started for): unconditionally *)
Theorem recv_phases_covered its : slot_covers false false (fst (recv_phases false false its)) = true.
Proof.
  unfold recv_phases. destruct its as [|[| |h] rest]; cbn [recv_phases_loop negb]; try reflexivity.
  rewrite orb_true_r. reflexivity.
Qed.

(* the ordering with the early release does NOT have the property (so the theorem above says something) *)
Theorem early_release_not_covered :
  slot_covers false false (fst (recv_phases true false [RRead HEnqueued; RAcceptFail])) = false.
Proof. reflexivity. Qed.

(* and neither does the loop of the code as found when a second stream arrives on the same connection id after a
   successful first one: it is read without any slot *)
Theorem second_stream_not_covered :
  slot_covers false false (fst (recv_phases false true [RRead HEnqueued; RRead HEnqueued; RAcceptFail])) = false.
Proof. reflexivity. Qed.

(* ---- any number of inbound offers under any schedule *)

Definition it_covered (t : itransfer) : Prop := slot_covers (it_held t) (it_inprog t) (it_rest t) = true.

Lemma count_upd {A} (f : A -> bool) : forall ls i l l', nth_error ls i = Some l ->
  (length (filter f (upd ls i l')) + bnat (f l) = length (filter f ls) + bnat (f l'))%nat.
Proof.
  induction ls as [|y r IH]; intros i l l' H.
  - destruct i; discriminate.
  - destruct i as [|j]; cbn [nth_error] in H.
    + inversion H; subst. cbn [upd filter]. destruct (f l), (f l'); cbn [length bnat]; lia.
    + cbn [upd filter]. specialize (IH j l l' H). destruct (f y); cbn [length]; lia.
Qed.

Definition iinv (limit : N) (g : N * list itransfer) : Prop :=
  fst g = N.of_nat (n_held (snd g)) /\ fst g <= limit /\ Forall it_covered (snd g).

Lemma covers_head h i ps : slot_covers h i ps = true -> implb i h = true.
Proof. destruct ps; cbn [slot_covers]; intros H; apply andb_true_iff in H; tauto. Qed.

Ltac istep_done ts i E t' :=
  eexists; split; [reflexivity|]; unfold iinv, n_held in *; cbn [fst snd];
  let U := fresh "U" in
  pose proof (count_upd it_held ts i _ t' E) as U; cbn [it_held bnat] in U.

Lemma isched_step_inv limit g i : iinv limit g -> exists g', isched_step limit g i = Ok g' /\ iinv limit g'.
Proof.
  destruct g as [sem ts]. intros (Hc & Hle & Hg). cbn [fst snd] in *. unfold isched_step. cbn [fst snd].
  destruct (nth_error ts i) as [t|] eqn:E; [|eexists; split; [reflexivity|repeat split; assumption]].
  pose proof (Forall_nth_error _ _ _ _ Hg E) as Ht. unfold it_covered in Ht.
  destruct t as [h ip rest]. cbn [it_held it_inprog it_rest] in Ht. unfold it_step. cbn [it_rest it_held it_inprog].
  destruct rest as [|p r].
  - istep_done ts i E {| it_held := h; it_inprog := ip; it_rest := [] |}.
    repeat split; [lia | lia | apply Forall_upd; [assumption | exact Ht]].
  - cbn [slot_covers] in Ht. apply andb_true_iff in Ht as [Hi Ht].
    destruct p.
    + apply andb_true_iff in Ht as [Hh Ht]. apply negb_true_iff in Hh. subst h.
      destruct (try_acquire limit sem) as [c|] eqn:A.
      * apply try_acquire_some in A. destruct A as [Hlt ->].
        istep_done ts i E {| it_held := true; it_inprog := true; it_rest := r |}.
        repeat split; [lia | lia | apply Forall_upd; [assumption | exact Ht]].
      * istep_done ts i E {| it_held := false; it_inprog := false; it_rest := [] |}.
        repeat split; [lia | lia | apply Forall_upd; [assumption | reflexivity]].
    + istep_done ts i E {| it_held := h; it_inprog := true; it_rest := r |}.
      repeat split; [lia | lia | apply Forall_upd; [assumption | exact Ht]].
    + istep_done ts i E {| it_held := h; it_inprog := false; it_rest := r |}.
      repeat split; [lia | lia | apply Forall_upd; [assumption | exact Ht]].
    + istep_done ts i E {| it_held := h; it_inprog := false; it_rest := r |}.
      repeat split; [lia | lia | apply Forall_upd; [assumption | exact Ht]].
    + destruct h.
      * pose proof (count_upd it_held ts i _ {| it_held := false; it_inprog := ip; it_rest := r |} E) as U.
        cbn [it_held bnat] in U. unfold n_held in *.
        unfold sem_release. destruct (sem =? 0) eqn:Z; [lia|].
        eexists; split; [reflexivity|]. unfold iinv, n_held; cbn [fst snd].
        repeat split; [lia | lia | apply Forall_upd; [assumption | exact Ht]].
      * istep_done ts i E {| it_held := false; it_inprog := ip; it_rest := r |}.
        repeat split; [lia | lia | apply Forall_upd; [assumption | exact Ht]].
Qed.

Lemma isched_run_inv limit : forall sched g, iinv limit g -> exists g', isched_run limit sched g = Ok g' /\ iinv limit g'.
Proof.
  induction sched as [|i r IH]; intros g H; cbn [isched_run].
  - eexists; split; [reflexivity | assumption].
  - destruct (isched_step_inv limit g i H) as (g1 & E1 & H1). rewrite E1. apply IH. assumption.
Qed.

Lemma inprog_le_held : forall ts, Forall it_covered ts -> (n_inprog ts <= n_held ts)%nat.
Proof.
  unfold n_inprog, n_held. induction ts as [|t r IH]; intros H; [simpl; lia|]. inversion H as [|? ? Ht Hr]; subst.
  specialize (IH Hr). apply covers_head in Ht. cbn [filter].
  destruct (it_inprog t), (it_held t); cbn [length]; try lia; discriminate.
Qed.

(* At no time are more inbound transfers in progress than the limit: any number of offers whose phase lists keep the slot
   while in progress, any interleaving, stopped anywhere; the semaphore never panics. *)
Theorem inbound_in_progress_bounded limit (pss : list (list phase)) sched :
  Forall (fun ps => slot_covers false false ps = true) pss ->
  exists sem ts,
    isched_run limit sched (0, map it_start pss) = Ok (sem, ts) /\
    (N.of_nat (n_inprog ts) <= sem) /\ sem = N.of_nat (n_held ts) /\ sem <= limit.
Proof.
  intros H.
  assert (I0 : iinv limit (0, map it_start pss)).
  { unfold iinv; cbn [fst snd]. repeat split; [|lia|].
    - unfold n_held. clear H. induction pss; [reflexivity|]. cbn [map filter it_start it_held]. assumption.
    - apply Forall_forall. intros t Ht. apply in_map_iff in Ht as (ps & <- & Hp).
      rewrite Forall_forall in H. unfold it_covered, it_start; cbn. now apply H. }
  destruct (isched_run_inv limit sched _ I0) as ([sem ts] & E & (Hc & Hle & Hg)). cbn [fst snd] in *.
  exists sem, ts. repeat split; auto. pose proof (inprog_le_held ts Hg). lia.
Qed.

Theorem inbound_in_progress_bounded_code limit (itss : list (list recv_iter)) sched :
  exists sem ts,
    isched_run limit sched (0, map (fun its => it_start (fst (recv_phases false false its))) itss) = Ok (sem, ts) /\
    (N.of_nat (n_inprog ts) <= sem) /\ sem = N.of_nat (n_held ts) /\ sem <= limit.
Proof.
  rewrite <- (map_map (fun its => fst (recv_phases false false its)) it_start).
  apply inbound_in_progress_bounded. apply Forall_forall. intros ps Hp. apply in_map_iff in Hp as (its & <- & Hi).
  apply recv_phases_covered.
Qed.

Theorem inbound_in_progress_bounded_loop limit (itss : list (list recv_iter)) sched :
  Forall (fun its => single_stream its = true) itss ->
  exists sem ts,
    isched_run limit sched (0, map (fun its => it_start (fst (recv_phases false true its))) itss) = Ok (sem, ts) /\
    (N.of_nat (n_inprog ts) <= sem) /\ sem = N.of_nat (n_held ts) /\ sem <= limit.
Proof.
  intros H. rewrite <- (map_map (fun its => fst (recv_phases false true its)) it_start).
  apply inbound_in_progress_bounded. apply Forall_forall. intros ps Hp. apply in_map_iff in Hp as (its & <- & Hi).
  rewrite Forall_forall in H. apply recv_phases_covered_loop. now apply H.
Qed.

(* as found: one offer, two streams on its connection id: a transfer in progress with no slot held at all *)
Theorem second_stream_exceeds :
  exists sched sem ts,
    isched_run 1 sched (0, [it_start (fst (recv_phases false true [RRead HEnqueued; RRead HEnqueued; RAcceptFail]))]) = Ok (sem, ts) /\
    sem = 0 /\ n_inprog ts = 1%nat.
Proof. exists [0; 0; 0; 0; 0]%nat. eexists. eexists. repeat split; reflexivity. Qed.

(* with the early release two transfers are in progress under limit 1 *)
Theorem early_release_exceeds_limit :
  exists sched sem ts,
    isched_run 1 sched (0, map (fun its => it_start (fst (recv_phases true false its)))
                              [[RRead HEnqueued; RAcceptFail]; [RRead HEnqueued; RAcceptFail]]) = Ok (sem, ts) /\
    n_inprog ts = 2%nat.
Proof. exists [0; 0; 0; 1; 1]%nat. eexists. eexists. split; reflexivity. Qed.

(* the scenario the harness plays: code as it is / early ordering *)
Theorem stall_scenario_code :
  stall_scenario false false 1 0 = Ok (0, false, 1) /\
  stall_scenario false false 3 0 = Ok (2, true, 3) /\
  stall_scenario false false 3 2 = Ok (0, false, 1) /\
  stall_scenario false false 50 49 = Ok (0, false, 1).
Proof. repeat split; vm_compute; reflexivity. Qed.

(* with the early release the slot is free during the stall and the second offer gets it *)
Theorem stall_scenario_early : stall_scenario true false 1 0 = Ok (1, true, 1).
Proof. vm_compute. reflexivity. Qed.

(* ================================================================ outbound transfer phases *)

(* forgetting the phases gives exactly the outbound slot events of the repaired code *)
Theorem out_phases_erase : forall o, erase_phases (out_phases false o) = out_events true o.
Proof.
  intros [|[| |[| |[| | | | |[| | |]]]]]; reflexivity.
Qed.

(* the code as it is: from the moment the slot is taken until the offer has ended (no transfer started, or the transfer
   goroutine finished or gave up) the slot is held - for every outcome, the request still queued at shutdown included *)
Theorem out_phases_covered : forall o, slot_covers false false (out_phases false o) = true.
Proof.
  intros [|[| |[| |[| | | | |[| | |]]]]]; reflexivity.
Qed.

(* the ordering in which the deferred closure of processOffer gets the flag by value (Release at return although the
   transfer was started) does not have the property, for every way the started transfer can go *)
Theorem out_early_release_not_covered : forall t,
  slot_covers false false (out_phases true (OGot (PWorker (SReply (RAccepted t))))) = false.
Proof. intros [| | |]; reflexivity. Qed.

(* any number of outbound offers with any outcomes under any interleaving: in progress <= held = counter <= limit *)
Theorem outbound_in_progress_bounded limit (os : list out_outcome) sched :
  exists sem ts,
    isched_run limit sched (0, map (fun o => it_start (out_phases false o)) os) = Ok (sem, ts) /\
    (N.of_nat (n_inprog ts) <= sem) /\ sem = N.of_nat (n_held ts) /\ sem <= limit.
Proof.
  rewrite <- (map_map (out_phases false) it_start).
  apply inbound_in_progress_bounded. apply Forall_forall. intros ps Hp. apply in_map_iff in Hp as (o & <- & _).
  apply out_phases_covered.
Qed.

Theorem out_early_release_exceeds_limit :
  exists sched sem ts,
    isched_run 1 sched (0, map (fun o => it_start (out_phases true o))
                              [OGot (PWorker (SReply (RAccepted TSuccess))); OGot (PWorker (SReply (RAccepted TSuccess)))]) = Ok (sem, ts) /\
    n_inprog ts = 2%nat.
Proof. exists [0; 0; 1]%nat. eexists. eexists. split; reflexivity. Qed.

Theorem ostall_scenario_code :
  ostall_scenario false 1 0 = Ok (0, 1) /\ ostall_scenario false 3 0 = Ok (2, 3) /\
  ostall_scenario false 3 2 = Ok (0, 1) /\ ostall_scenario true 1 0 = Ok (1, 1).
Proof. repeat split; vm_compute; reflexivity. Qed.

(* ================================================================ stale handles *)

Definition pinv (limit : N) (st : N * list permit) : Prop :=
  fst st = N.of_nat (n_live (snd st)) /\ fst st <= limit.

Lemma n_live_app hs p : n_live (hs ++ [p]) = (n_live hs + bnat (handle_live p))%nat.
Proof.
  unfold n_live. rewrite filter_app, app_length. cbn [filter]. destruct (handle_live p); cbn [length bnat]; lia.
Qed.

Lemma pop_step_inv limit st o : pinv limit st ->
  exists c hs ok, pop_step limit st o = Ok (c, hs, ok) /\ pinv limit (c, hs) /\
    (o = PopGet -> (ok = true <-> fst st < limit) /\ (ok = true -> c = fst st + 1) /\ (ok = false -> c = fst st)).
Proof.
  destruct st as [sem hs]. intros [Hc Hle]. cbn [fst snd] in *. destruct o as [|i|]; cbn [pop_step];
    [| | exists sem, hs, true; split; [reflexivity|]; split; [split; assumption | discriminate]].
  - unfold get_permit. destruct (try_acquire limit sem) as [c|] eqn:A.
    + apply try_acquire_some in A. destruct A as [Hlt ->].
      exists (sem + 1), (hs ++ [ReleasePermit false]), true. split; [reflexivity|]. split.
      * unfold pinv; cbn [fst snd]. rewrite n_live_app. cbn [handle_live bnat]. lia.
      * intros _. repeat split; auto; try lia; discriminate.
    + apply try_acquire_none in A.
      exists sem, (hs ++ [NoPermit]), false. split; [reflexivity|]. split.
      * unfold pinv; cbn [fst snd]. rewrite n_live_app. cbn [handle_live bnat]. lia.
      * intros _. repeat split; auto; try lia; try discriminate; intros; try lia; discriminate.
  - destruct (nth_error hs i) as [p|] eqn:E.
    + pose proof (count_upd handle_live hs i p) as U.
      destruct p as [|[|]]; cbn [permit_release].
      * exists sem, (upd hs i NoPermit), true. split; [reflexivity|]. split; [|discriminate].
        specialize (U NoPermit E). cbn [handle_live bnat] in U. unfold pinv, n_live in *; cbn [fst snd]. lia.
      * exists sem, (upd hs i (ReleasePermit true)), true. split; [reflexivity|]. split; [|discriminate].
        specialize (U (ReleasePermit true) E). cbn [handle_live bnat] in U. unfold pinv, n_live in *; cbn [fst snd]. lia.
      * specialize (U (ReleasePermit true) E). cbn [handle_live bnat] in U. unfold n_live in *.
        unfold sem_release. destruct (sem =? 0) eqn:Z; [lia|].
        exists (sem - 1), (upd hs i (ReleasePermit true)), true. split; [reflexivity|]. split; [|discriminate].
        unfold pinv, n_live; cbn [fst snd]. lia.
    + exists sem, hs, true. split; [reflexivity|]. split; [split; assumption | discriminate].
Qed.

(* Any sequence of Get and Release calls, Release through ANY handle ever handed out, any number of times: the semaphore
   never panics, the slots in use are exactly the handles not yet released (so never more than the limit, and a repeated
   Release through an old handle frees nothing), and a Get fails exactly when the limit is reached. *)
Theorem stale_handles_harmless limit : forall ops st, pinv limit st ->
  exists l, pops_run limit ops st = Ok l /\ Forall (fun x => snd x <= limit) l.
Proof.
  induction ops as [|o r IH]; intros st H; cbn [pops_run]; [eexists; split; [reflexivity | constructor]|].
  destruct (pop_step_inv limit st o H) as (c & hs & ok & E & I & _). rewrite E.
  destruct (IH (c, hs) I) as (l & El & Fl). rewrite El. eexists; split; [reflexivity|].
  constructor; [cbn [snd]; destruct I as [_ I2]; exact I2 | exact Fl].
Qed.

Theorem get_after_stale_release limit st o : pinv limit st ->
  exists c hs ok, pop_step limit st o = Ok (c, hs, ok) /\ c = N.of_nat (n_live hs) /\ c <= limit /\
    (o = PopGet -> (ok = true <-> fst st < limit)).
Proof.
  intros H. destruct (pop_step_inv limit st o H) as (c & hs & ok & E & [I1 I2] & G).
  exists c, hs, ok. repeat split; auto; intros; now apply G.
Qed.

(* starting the uTP service again changes nothing: slots in use stay in use *)
Theorem restart_keeps_slots limit st : pop_step limit st PopRestart = Ok (fst st, snd st, true).
Proof. destruct st; reflexivity. Qed.

Theorem restart_scenario :
  pops_run 1 [PopGet; PopGet; PopRestart; PopGet] (0, []) = Ok [(true, 1); (false, 1); (true, 1); (false, 1)].
Proof. vm_compute. reflexivity. Qed.

(* the controller-level witness of a recycled permit object: A released, B acquired, A released again, limit 1:
   in the model B still holds the only slot and the next Get fails *)
Theorem stale_release_example :
  pops_run 1 [PopGet; PopRelease 0; PopGet; PopRelease 0; PopGet; PopRelease 1; PopGet] (0, []) =
  Ok [(true, 1); (true, 0); (true, 1); (true, 1); (false, 1); (true, 0); (true, 1)].
Proof. vm_compute. reflexivity. Qed.
