(* Proofs/Slots.v : theorems about Model/Slots.v (C16). *)
From Shisui Require Import Base.Bytes Model.Slots.
From Coq Require Import ZifyBool ZifyN ZifyNat.

Local Arguments N.ltb : simpl never.
Local Arguments N.eqb : simpl never.
Local Arguments N.add : simpl never.
Local Arguments N.sub : simpl never.
Local Arguments N.of_nat : simpl never.

(* ------------------------------------------------------------------ 1. the counter never exceeds the limit *)

Lemma try_acquire_some limit c c' : try_acquire limit c = Some c' -> c < limit /\ c' = c + 1.
Proof. unfold try_acquire. destruct (c <? limit) eqn:E; [|discriminate]. intros H; inversion H. lia. Qed.
Lemma try_acquire_none limit c : try_acquire limit c = None <-> limit <= c.
Proof. unfold try_acquire. destruct (c <? limit) eqn:E; split; intros; try discriminate; try reflexivity; lia. Qed.
Lemma sem_release_ok c c' : sem_release c = Ok c' -> 0 < c /\ c' = c - 1.
Proof. unfold sem_release. destruct (c =? 0) eqn:E; [discriminate|]. intros H; inversion H. lia. Qed.

Lemma sem_apply_bounded limit c o c' : c <= limit -> sem_apply limit c o = Ok c' -> c' <= limit.
Proof.
  intros Hc H. destruct o; cbn [sem_apply] in H.
  - destruct (try_acquire limit c) eqn:E; inversion H; subst; [apply try_acquire_some in E|]; lia.
  - apply sem_release_ok in H. lia.
Qed.

Theorem sem_bounded limit ops : forall c, c <= limit -> Forall (fun x => x <= limit) (sem_trace limit ops c).
Proof.
  induction ops as [|o r IH]; intros c Hc; cbn [sem_trace].
  - repeat constructor; assumption.
  - constructor; [assumption|]. destruct (sem_apply limit c o) eqn:E; try constructor.
    apply IH. eapply sem_apply_bounded; eassumption.
Qed.

(* a failed TryAcquire means that the limit is reached (the semaphore does not refuse while slots are free) *)
Theorem try_acquire_fails_only_when_full limit c : c <= limit -> (try_acquire limit c = None <-> c = limit).
Proof. intros. rewrite try_acquire_none. lia. Qed.

Lemma acquire_many_ok limit : forall n c, c + N.of_nat n <= limit -> acquire_many limit n c = Some (c + N.of_nat n).
Proof.
  induction n as [|n IH]; intros c H; cbn [acquire_many].
  - f_equal. lia.
  - unfold try_acquire. destruct (c <? limit) eqn:E; [|lia]. rewrite IH by lia. f_equal. lia.
Qed.

(* from an idle semaphore exactly `limit` acquisitions succeed *)
Theorem idle_gives_limit limit :
  acquire_many limit (N.to_nat limit) 0 = Some limit /\ try_acquire limit limit = None.
Proof.
  split.
  - rewrite acquire_many_ok by lia. f_equal. lia.
  - apply try_acquire_none. lia.
Qed.

(* ------------------------------------------------------------------ 2. every flow releases exactly once *)

Lemma exec_app p evs1 evs2 n0 :
  fold_left exec_ev (evs1 ++ evs2) (p, n0) = fold_left exec_ev evs2 (fold_left exec_ev evs1 (p, n0)).
Proof. apply fold_left_app. Qed.

(* what one offer must satisfy: acquired -> action() ran exactly once and Release was called; not acquired -> nothing *)
Definition release_once (evs : list ev) : Prop :=
  effective evs = (if acquired evs then 1%nat else 0%nat) /\
  (acquired evs = true -> (1 <= calls evs)%nat) /\
  (acquired evs = false -> calls evs = 0%nat).

(* outbound, repaired flow: every outcome except "still queued at shutdown" *)
Theorem out_release_once : forall o, o <> OGot PShutdownQueued -> release_once (out_events true o).
Proof.
  intros o Hne. unfold release_once.
  destruct o as [|p]; [cbv; repeat split; auto; lia|].
  destruct p as [| |s]; [cbv; repeat split; auto; try lia; discriminate| congruence |].
  destruct s as [| |r]; [cbv; repeat split; auto; try lia; discriminate ..|].
  destruct r as [| | | | |t]; [cbv; repeat split; auto; try lia; discriminate ..|].
  destruct t; cbv; repeat split; auto; try lia; discriminate.
Qed.

(* offer() called with a caller-supplied permit (the worker, the API): exactly one Release call on every exit, so a
   real permit is given back exactly once and nothing is released twice *)
Theorem offer_one_call : forall s, calls (offer true s) = 1%nat /\ effective (Acquire :: offer true s) = 1%nat.
Proof.
  intros s. destruct s as [| |r]; [cbv; auto ..|].
  destruct r as [| | | | |t]; [cbv; auto ..|]. destruct t; cbv; auto.
Qed.

(* code as found *)
Theorem offer_leak_refuted :
  (exists s, acquired (Acquire :: offer false s) = true /\ calls (offer false s) = 0%nat /\ effective (Acquire :: offer false s) = 0%nat /\ s = STalkErr) /\
  (exists s, acquired (Acquire :: offer false s) = true /\ calls (offer false s) = 0%nat /\ effective (Acquire :: offer false s) = 0%nat /\ s = SMarshalErr).
Proof. split; [exists STalkErr | exists SMarshalErr]; cbv; auto. Qed.

Theorem gossip_queue_full_leak_refuted :
  acquired (out_events false (OGot PQueueFull)) = true /\
  calls (out_events false (OGot PQueueFull)) = 0%nat /\ effective (out_events false (OGot PQueueFull)) = 0%nat.
Proof. cbv; auto. Qed.

(* the only leaks of the code as found are these three exits *)
Theorem as_found_leaks_exactly : forall o,
  release_once (out_events false o) <->
  (o <> OGot PQueueFull /\ o <> OGot (PWorker SMarshalErr) /\ o <> OGot (PWorker STalkErr) /\ o <> OGot PShutdownQueued).
Proof.
  intros o. unfold release_once. split.
  - intros (He & Hc & _). repeat split; intros ->; cbv in Hc; specialize (Hc eq_refl); lia.
  - intros (H1 & H2 & H3 & H4).
    destruct o as [|p]; [cbv; repeat split; auto; lia|].
    destruct p as [| |s]; [congruence | congruence |].
    destruct s as [| |r]; [congruence | congruence |].
    destruct r as [| | | | |t]; [cbv; repeat split; auto; try lia; discriminate ..|].
    destruct t; cbv; repeat split; auto; try lia; discriminate.
Qed.

(* stated, not hidden: a request still in the queue when closeCtx is cancelled keeps its slot (no worker takes it out) *)
Theorem shutdown_queued_keeps_slot : forall fixed,
  acquired (out_events fixed (OGot PShutdownQueued)) = true /\ effective (out_events fixed (OGot PShutdownQueued)) = 0%nat.
Proof. intros []; cbv; auto. Qed.

(* inbound *)
Lemma recv_loop_shape : forall its e f, recv_loop its = (e, f) -> e = repeat Release (length e).
Proof.
  induction its as [|it r IH]; intros e f H; cbn [recv_loop] in H.
  - inversion H; reflexivity.
  - destruct it as [| |h]; try (inversion H; reflexivity).
    destruct (handled_err h).
    + inversion H; reflexivity.
    + destruct (recv_loop r) as [e' f'] eqn:E. inversion H; subst. cbn [length repeat]. f_equal. eapply IH; reflexivity.
Qed.

Lemma exec_releases_after_release n k :
  fold_left exec_ev (repeat Release n) (ReleasePermit true, k) = (ReleasePermit true, k).
Proof. induction n; cbn [repeat fold_left exec_ev fst]; auto. Qed.

Lemma exec_acquire_releases n :
  effective (Acquire :: repeat Release (S n)) = 1%nat.
Proof.
  unfold effective, exec. cbn [fold_left exec_ev repeat fst snd]. rewrite exec_releases_after_release. reflexivity.
Qed.

Lemma calls_repeat n : calls (repeat Release n) = n.
Proof. unfold calls. induction n; cbn [repeat filter is_release length]; auto. Qed.

Lemma repeat_snoc {A} (x : A) n : repeat x n ++ [x] = repeat x (S n).
Proof. induction n; cbn [repeat app]; [reflexivity|]. rewrite IHn. reflexivity. Qed.

(* every inbound outcome whose goroutine has returned (any number of loop iterations, any read results) *)
Theorem in_release_once : forall o evs, in_events o = (evs, true) -> release_once evs.
Proof.
  intros o evs H. unfold release_once.
  destruct o as [| | | |its]; cbn [in_events] in H; try (inversion H; subst; cbv; repeat split; auto; lia).
  unfold recv_goroutine in H. destruct (recv_loop its) as [e f] eqn:E.
  destruct f; inversion H; subst; clear H.
  apply recv_loop_shape in E. rewrite E. rewrite repeat_snoc.
  cbn [acquired existsb is_acquire orb].
  repeat split.
  - apply exec_acquire_releases.
  - intros _. unfold calls. cbn [filter is_acquire is_release]. fold (calls (repeat Release (S (length e)))).
    rewrite calls_repeat. lia.
  - discriminate.
Qed.

(* the early release: as soon as one read has completed the slot is back, even if the goroutine is still looping *)
Theorem in_released_after_first_read : forall h rest evs f,
  in_events (IGot (RRead h :: rest)) = (evs, f) -> effective evs = 1%nat.
Proof.
  intros h rest evs f H. cbn [in_events] in H. unfold recv_goroutine in H.
  destruct (recv_loop (RRead h :: rest)) as [e f'] eqn:E.
  pose proof (recv_loop_shape _ _ _ E) as Hs.
  assert (He : exists n, e = repeat Release (S n)).
  { cbn [recv_loop] in E. destruct (handled_err h).
    - inversion E; subst. exists 0%nat. reflexivity.
    - destruct (recv_loop rest) as [e' f''] eqn:E'. inversion E; subst. exists (length e').
      cbn [repeat]. f_equal. eapply recv_loop_shape; eassumption. }
  destruct He as [n ->].
  destruct f'; inversion H; subst.
  - rewrite repeat_snoc. apply exec_acquire_releases.
  - apply exec_acquire_releases.
Qed.

(* a goroutine that has not returned and has not read yet still holds its slot: it is waiting in AcceptWithCid, for at
   most defaultUTPConnectTimeout *)
Theorem in_unfinished_means_looping : forall its evs, in_events (IGot its) = (evs, false) ->
  evs = Acquire :: repeat Release (length its) /\ Forall (fun it => exists h, it = RRead h /\ handled_err h = false) its.
Proof.
  intros its evs H. cbn [in_events] in H. unfold recv_goroutine in H.
  destruct (recv_loop its) as [e f] eqn:E. destruct f; inversion H; subst; clear H.
  revert e E. induction its as [|it r IH]; intros e E; cbn [recv_loop] in E.
  - inversion E; subst. split; [reflexivity | constructor].
  - destruct it as [| |h]; try discriminate.
    destruct (handled_err h) eqn:Hh; [discriminate|].
    destruct (recv_loop r) as [e' f'] eqn:E'. inversion E; subst.
    destruct (IH e' eq_refl) as [H1 H2]. inversion H1 as [H1']. split.
    + cbn [length repeat]. rewrite <- H1'. reflexivity.
    + constructor; [exists h; auto | assumption].
Qed.

(* ------------------------------------------------------------------ gossip loop on the real semaphore *)

(* one round conserves slots: what is held afterwards is what was held before plus exactly the queued requests *)
Theorem gossip_round_conserves limit : forall targets sem room q d s sem' room' q' d' s',
  sem <= limit ->
  gossip_round true limit targets sem room (q, d, s) = Ok (sem', room', (q', d', s')) ->
  sem' <= limit /\ sem' + q = sem + q' /\ room' + q' = room + q /\
  q' + d' + s' = q + d + s + N.of_nat targets.
Proof.
  induction targets as [|t IH]; intros sem room q d s sem' room' q' d' s' Hle H; cbn [gossip_round] in H.
  - inversion H; subst. lia.
  - unfold get_permit in H. destruct (try_acquire limit sem) as [c|] eqn:E.
    + apply try_acquire_some in E. destruct E as [Hlt ->].
      destruct (0 <? room) eqn:R.
      * apply IH in H; lia.
      * cbn [permit_release] in H. unfold sem_release in H.
        destruct (sem + 1 =? 0) eqn:Z; [lia|].
        apply IH in H; lia.
    + apply IH in H; lia.
Qed.

(* the repaired loop never trips the semaphore's "released more than held" panic *)
Theorem gossip_round_total limit : forall targets sem room acc, exists r, gossip_round true limit targets sem room acc = Ok r.
Proof.
  induction targets as [|t IH]; intros sem room [[q d] s]; cbn [gossip_round].
  - eexists; reflexivity.
  - unfold get_permit. destruct (try_acquire limit sem) as [c|] eqn:E.
    + apply try_acquire_some in E. destruct E as [Hlt ->].
      destruct (0 <? room); [apply IH|].
      cbn [permit_release]. unfold sem_release. destruct (sem + 1 =? 0) eqn:Z; [lia|]. apply IH.
    + apply IH.
Qed.

(* as found: with a full queue every target that gets a permit loses it *)
Theorem gossip_round_as_found_leaks :
  exists limit targets, gossip_round false limit targets 0 0 (0, 0, 0) = Ok (limit, 0, (0, limit, N.of_nat targets - limit)) /\ 0 < limit.
Proof. exists 3, 5%nat. vm_compute. split; reflexivity. Qed.

(* with at most as many slots as queue places, a gossip round that starts with `sem` slots in use - all of them held by
   queued or running offers - always finds room: the overflow branch needs limit > queue capacity *)
Theorem gossip_never_overflows_when_limit_small limit : forall targets sem room q d s sem' room' q' d' s',
  sem <= limit -> limit <= sem + room ->
  gossip_round true limit targets sem room (q, d, s) = Ok (sem', room', (q', d', s')) -> d' = d.
Proof.
  induction targets as [|t IH]; intros sem room q d s sem' room' q' d' s' Hle Hroom H; cbn [gossip_round] in H.
  - inversion H; subst. reflexivity.
  - unfold get_permit in H. destruct (try_acquire limit sem) as [c|] eqn:E.
    + apply try_acquire_some in E. destruct E as [Hlt ->].
      destruct (0 <? room) eqn:R; [|lia].
      apply IH in H; [assumption | lia | lia].
    + apply IH in H; assumption.
Qed.

(* ------------------------------------------------------------------ 3. any number of offers, any schedule *)

Definition nheld (ls : list local) : nat := length (filter local_holding ls).
Definition bnat (b : bool) : nat := if b then 1%nat else 0%nat.

Lemma nheld_upd : forall ls i l l', nth_error ls i = Some l ->
  (nheld (upd ls i l') + bnat (local_holding l) = nheld ls + bnat (local_holding l'))%nat.
Proof.
  unfold nheld. induction ls as [|y r IH]; intros i l l' H.
  - destruct i; discriminate.
  - destruct i as [|j]; cbn [nth_error] in H.
    + inversion H; subst. cbn [upd filter]. destruct (local_holding l), (local_holding l'); cbn [length bnat]; lia.
    + cbn [upd filter]. specialize (IH j l l' H). destruct (local_holding y); cbn [length]; lia.
Qed.

(* an offer that holds (or may come to hold) a slot still has a Release call to make *)
Definition local_good (l : local) : Prop :=
  match l with
  | LPending k => (1 <= k)%nat
  | LRunning (ReleasePermit false) k => (1 <= k)%nat
  | _ => True
  end.

Lemma Forall_upd {A} (P : A -> Prop) : forall ls i x, Forall P ls -> P x -> Forall P (upd ls i x).
Proof.
  induction ls as [|y r IH]; intros i x H Hx; cbn [upd]; [constructor|].
  inversion H; subst. destruct i; constructor; auto.
Qed.

Lemma Forall_nth_error {A} (P : A -> Prop) : forall ls i x, Forall P ls -> nth_error ls i = Some x -> P x.
Proof.
  induction ls as [|y r IH]; intros i x H E; destruct i; try discriminate; inversion H; subst.
  - inversion E; subst; assumption.
  - eapply IH; eassumption.
Qed.

Definition ginv (limit : N) (g : N * list local) : Prop :=
  fst g = N.of_nat (nheld (snd g)) /\ fst g <= limit /\ Forall local_good (snd g).

Lemma sched_step_inv limit g i : ginv limit g -> exists g', sched_step limit g i = Ok g' /\ ginv limit g'.
Proof.
  destruct g as [sem ls]. intros (Hc & Hle & Hg). cbn [fst snd] in *. unfold sched_step. cbn [fst snd].
  destruct (nth_error ls i) as [l|] eqn:E; [|eexists; split; [reflexivity|repeat split; assumption]].
  pose proof (Forall_nth_error _ _ _ _ Hg E) as Hl.
  destruct l as [k|p k]; cbn [local_step].
  - (* asks for a permit *)
    unfold get_permit. destruct (try_acquire limit sem) as [c|] eqn:A.
    + apply try_acquire_some in A. destruct A as [Hlt ->].
      eexists; split; [reflexivity|]. unfold ginv; cbn [fst snd].
      pose proof (nheld_upd ls i _ (LRunning (ReleasePermit false) k) E) as U. cbn [local_holding bnat] in U.
      repeat split; [lia | lia | apply Forall_upd; [assumption | exact Hl]].
    + eexists; split; [reflexivity|]. unfold ginv; cbn [fst snd].
      pose proof (nheld_upd ls i _ (LRunning NoPermit 0) E) as U. cbn [local_holding bnat] in U.
      repeat split; [lia | lia | apply Forall_upd; [assumption | exact I]].
  - destruct k as [|k].
    + eexists; split; [reflexivity|]. unfold ginv; cbn [fst snd].
      pose proof (nheld_upd ls i _ (LRunning p 0) E) as U.
      repeat split; [lia | lia | apply Forall_upd; assumption].
    + destruct p as [|[|]]; cbn [permit_release].
      * eexists; split; [reflexivity|]. unfold ginv; cbn [fst snd].
        pose proof (nheld_upd ls i _ (LRunning NoPermit k) E) as U. cbn [local_holding bnat] in U.
        repeat split; [lia | lia | apply Forall_upd; [assumption | exact I]].
      * eexists; split; [reflexivity|]. unfold ginv; cbn [fst snd].
        pose proof (nheld_upd ls i _ (LRunning (ReleasePermit true) k) E) as U. cbn [local_holding bnat] in U.
        repeat split; [lia | lia | apply Forall_upd; [assumption | exact I]].
      * pose proof (nheld_upd ls i _ (LRunning (ReleasePermit true) k) E) as U. cbn [local_holding bnat] in U.
        unfold sem_release. destruct (sem =? 0) eqn:Z; [lia|].
        eexists; split; [reflexivity|]. unfold ginv; cbn [fst snd].
        repeat split; [lia | lia | apply Forall_upd; [assumption | exact I]].
Qed.

Lemma sched_run_inv limit : forall sched g, ginv limit g -> exists g', sched_run limit sched g = Ok g' /\ ginv limit g'.
Proof.
  induction sched as [|i r IH]; intros g H; cbn [sched_run].
  - eexists; split; [reflexivity | assumption].
  - destruct (sched_step_inv limit g i H) as (g1 & E1 & H1). rewrite E1. apply IH. assumption.
Qed.

Lemma finished_good_not_holding : forall ls, Forall local_good ls -> all_finished ls = true -> nheld ls = 0%nat.
Proof.
  unfold nheld, all_finished. induction ls as [|l r IH]; intros Hg Hf; [reflexivity|].
  inversion Hg; subst. cbn [forallb] in Hf. apply andb_true_iff in Hf as [Hl Hr].
  cbn [filter]. destruct l as [k|p k]; [discriminate|].
  destruct k; [|discriminate]. destruct p as [|[|]]; cbn [local_holding]; try (apply IH; assumption).
  cbn [local_good] in H1. lia.
Qed.

Lemma nheld_pending ks : nheld (map LPending ks) = 0%nat.
Proof. unfold nheld. induction ks; cbn [map filter local_holding]; auto. Qed.

(* MAIN: any number of offers, each making at least one Release call once it holds a slot, under ANY schedule
   (any interleaving of their steps that respects each offer's own order), stopped at ANY point:
   - no step panics ("released more than held" never happens),
   - the number of slots in use never exceeds the limit (every prefix of a schedule is a schedule),
   - the counter equals the number of offers that hold an unreleased permit,
   - when all offers have finished the counter is 0 and exactly `limit` acquisitions succeed again. *)
Theorem any_schedule limit ks sched :
  Forall (fun k => (1 <= k)%nat) ks ->
  exists sem ls,
    sched_run limit sched (0, map LPending ks) = Ok (sem, ls) /\
    sem <= limit /\ sem = N.of_nat (nheld ls) /\
    (all_finished ls = true ->
       sem = 0 /\ acquire_many limit (N.to_nat limit) sem = Some limit /\ try_acquire limit limit = None).
Proof.
  intros Hk.
  assert (H0 : ginv limit (0, map LPending ks)).
  { unfold ginv; cbn [fst snd]. rewrite nheld_pending. repeat split; [lia|].
    induction Hk; cbn [map]; constructor; auto. }
  destruct (sched_run_inv limit sched _ H0) as ([sem ls] & E & (Hc & Hle & Hg)). cbn [fst snd] in *.
  exists sem, ls. repeat split; try assumption.
  - pose proof (finished_good_not_holding ls Hg H). lia.
  - pose proof (finished_good_not_holding ls Hg H). replace sem with 0 by lia. apply idle_gives_limit.
  - apply idle_gives_limit.
Qed.

(* the premise is what section 2 proves of every flow *)
Lemma calls_ge1_out : forall p, p <> PShutdownQueued -> (1 <= calls (gossip_path true p))%nat.
Proof.
  intros p Hp. destruct (out_release_once (OGot p)) as (_ & H & _); [congruence|].
  specialize (H eq_refl). unfold calls in *. cbn [out_events filter is_release] in H. exact H.
Qed.

Lemma calls_ge1_in : forall its evs, in_events (IGot its) = (evs, true) -> (1 <= calls (tl evs))%nat.
Proof.
  intros its evs H. pose proof (in_release_once _ _ H) as (_ & Hc & _).
  cbn [in_events] in H. destruct (recv_goroutine its) as [e f]. inversion H; subst.
  specialize (Hc eq_refl). unfold calls in *. cbn [filter is_release tl] in *. exact Hc.
Qed.

(* instantiated with the flows: any list of outbound paths (none left in the queue at shutdown) *)
Theorem any_schedule_outbound limit paths sched :
  Forall (fun p => p <> PShutdownQueued) paths ->
  exists sem ls,
    sched_run limit sched (0, start_offers (map (gossip_path true) paths)) = Ok (sem, ls) /\
    sem <= limit /\
    (all_finished ls = true -> sem = 0 /\ acquire_many limit (N.to_nat limit) sem = Some limit).
Proof.
  intros Hp. unfold start_offers. rewrite map_map.
  destruct (any_schedule limit (map (fun p => calls (gossip_path true p)) paths) sched) as (sem & ls & E & Hle & _ & Hf).
  - induction Hp; cbn [map]; constructor; auto. apply calls_ge1_out; assumption.
  - rewrite map_map in E. exists sem, ls. repeat split; try assumption; apply Hf; assumption.
Qed.

(* and inbound: any list of receive goroutines that have returned *)
Theorem any_schedule_inbound limit (itss : list (list recv_iter)) sched :
  Forall (fun its => snd (recv_goroutine its) = true) itss ->
  exists sem ls,
    sched_run limit sched (0, start_offers (map (fun its => fst (recv_goroutine its)) itss)) = Ok (sem, ls) /\
    sem <= limit /\
    (all_finished ls = true -> sem = 0 /\ acquire_many limit (N.to_nat limit) sem = Some limit).
Proof.
  intros Hp. unfold start_offers. rewrite map_map.
  destruct (any_schedule limit (map (fun its => calls (fst (recv_goroutine its))) itss) sched) as (sem & ls & E & Hle & _ & Hf).
  - induction Hp as [|its r Hi Hr IH]; cbn [map]; constructor; auto.
    destruct (recv_goroutine its) as [e f] eqn:G. cbn [snd] in Hi. subst f. cbn [fst].
    assert (H : in_events (IGot its) = (Acquire :: e, true)) by (cbn [in_events]; rewrite G; reflexivity).
    apply calls_ge1_in in H. exact H.
  - rewrite map_map in E. exists sem, ls. repeat split; try assumption; apply Hf; assumption.
Qed.

(* the code as found violates it: one offer to a silent peer, run to its end, and a slot is gone for good *)
Theorem any_schedule_as_found_refuted :
  exists limit sched sem ls,
    sched_run limit sched (0, start_offers [gossip_path false (PWorker STalkErr)]) = Ok (sem, ls) /\
    all_finished ls = true /\ sem = 1 /\ acquire_many limit (N.to_nat limit) sem = None.
Proof. exists 1, [0%nat], 1, [LRunning (ReleasePermit false) 0]. vm_compute. repeat split; reflexivity. Qed.

(* ------------------------------------------------------------------ schedules that finish exist (non-vacuity of "finished") *)

Lemma upd_app_r {A} (pre : list A) x post y : upd (pre ++ x :: post) (length pre) y = pre ++ y :: post.
Proof. induction pre; cbn [app length upd]; [reflexivity | f_equal; assumption]. Qed.
Lemma nth_error_mid {A} (pre : list A) x post : nth_error (pre ++ x :: post) (length pre) = Some x.
Proof. induction pre; cbn [app length nth_error]; auto. Qed.

Lemma run_releases limit pre post : forall k p sem,
  (p = NoPermit \/ p = ReleasePermit true) ->
  sched_run limit (repeat (length pre) k) (sem, pre ++ LRunning p k :: post) = Ok (sem, pre ++ LRunning p 0 :: post).
Proof.
  induction k as [|k IH]; intros p sem Hp; cbn [repeat sched_run]; [reflexivity|].
  unfold sched_step. cbn [fst snd]. rewrite nth_error_mid. cbn [local_step].
  destruct Hp as [-> | ->]; cbn [permit_release]; rewrite upd_app_r; apply IH; auto.
Qed.

Lemma upd_same {A} : forall (ls : list A) i l, nth_error ls i = Some l -> upd ls i l = ls.
Proof.
  induction ls as [|y r IH]; intros i l H; destruct i; try discriminate; cbn [upd nth_error] in *.
  - inversion H; reflexivity.
  - f_equal. apply IH. assumption.
Qed.

Lemma run_stutter limit pre post p : forall n sem,
  sched_run limit (repeat (length pre) n) (sem, pre ++ LRunning p 0 :: post) = Ok (sem, pre ++ LRunning p 0 :: post).
Proof.
  induction n as [|n IH]; intros sem; cbn [repeat sched_run]; [reflexivity|].
  unfold sched_step. cbn [fst snd]. rewrite nth_error_mid. cbn [local_step].
  rewrite upd_same by apply nth_error_mid. apply IH.
Qed.

(* one offer run from its first step to its end on an idle semaphore *)
Lemma seq_one limit pre post k : (1 <= k)%nat ->
  exists l', sched_run limit (repeat (length pre) (S k)) (0, pre ++ LPending k :: post) = Ok (0, pre ++ l' :: post) /\
             local_finished l' = true /\ local_holding l' = false.
Proof.
  intros Hk. cbn [repeat sched_run]. unfold sched_step at 1. cbn [fst snd]. rewrite nth_error_mid. cbn [local_step].
  unfold get_permit, try_acquire. destruct (0 <? limit) eqn:L.
  - rewrite upd_app_r. destruct k as [|k]; [lia|].
    cbn [repeat sched_run]. unfold sched_step at 1. cbn [fst snd]. rewrite nth_error_mid. cbn [local_step permit_release].
    unfold sem_release. replace (0 + 1 =? 0) with false by (symmetry; apply N.eqb_neq; lia).
    rewrite upd_app_r. replace (0 + 1 - 1) with 0 by lia.
    exists (LRunning (ReleasePermit true) 0). split; [apply run_releases; auto | split; reflexivity].
  - rewrite upd_app_r. exists (LRunning NoPermit 0). split; [apply run_stutter | split; reflexivity].
Qed.

Lemma sched_run_app limit : forall s1 s2 g,
  sched_run limit (s1 ++ s2) g =
  match sched_run limit s1 g with Ok g' => sched_run limit s2 g' | Err e => Err e | Panic => Panic end.
Proof.
  induction s1 as [|i r IH]; intros s2 g; cbn [app sched_run]; [reflexivity|].
  destruct (sched_step limit g i); auto.
Qed.

(* sequential composition: each offer runs to its end before the next starts - a schedule that finishes everything *)
Theorem seq_sched_finishes limit : forall ks pre,
  Forall (fun k => (1 <= k)%nat) ks -> all_finished pre = true ->
  exists ls, sched_run limit (seq_sched (length pre) ks) (0, pre ++ map LPending ks) = Ok (0, ls) /\ all_finished ls = true.
Proof.
  induction ks as [|k r IH]; intros pre Hk Hpre; cbn [seq_sched map].
  - rewrite app_nil_r. exists pre. split; [reflexivity | assumption].
  - inversion Hk as [|? ? Hk1 Hkr]; subst.
    destruct (seq_one limit pre (map LPending r) k Hk1) as (l' & E & Hf & _).
    rewrite sched_run_app, E.
    replace (pre ++ l' :: map LPending r) with ((pre ++ [l']) ++ map LPending r) by (rewrite <- app_assoc; reflexivity).
    replace (S (length pre)) with (length (pre ++ [l'])) by (rewrite app_length; cbn [length]; lia).
    apply IH; [assumption|].
    unfold all_finished in *. rewrite forallb_app, Hpre. cbn [forallb]. rewrite Hf. reflexivity.
Qed.

Corollary seq_sched_finishes0 limit ks :
  Forall (fun k => (1 <= k)%nat) ks ->
  exists ls, sched_run limit (seq_sched 0 ks) (0, map LPending ks) = Ok (0, ls) /\ all_finished ls = true.
Proof. intros H. exact (seq_sched_finishes limit ks [] H eq_refl). Qed.
