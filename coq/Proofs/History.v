(* Proofs/History.v : C02, history content bound to its key.  Lemmas about Model/History.v. *)
From Shisui Require Import Base.Bytes Model.History.
Local Arguments N.add : simpl never.
Local Arguments N.mul : simpl never.
Local Arguments N.modulo : simpl never.
Local Arguments N.eqb : simpl never.
Local Arguments two64 : simpl never.

(* the library functions the validator calls, bundled (all universally quantified in every theorem) *)
Record lib := mkLib {
  l_body : Type; l_receipts : Type;
  l_hdr_hash : header -> bytes;
  l_dec_hwp : bytes -> option (bytes * bytes);
  l_dec_header : bytes -> option header;
  l_proof_check : header -> bytes -> res unit;
  l_dec_body : bytes -> option l_body;
  l_uncle_hash : l_body -> bytes;
  l_tx_root : l_body -> bytes;
  l_wd_root : l_body -> option bytes;
  l_dec_receipts : bytes -> option l_receipts;
  l_receipt_root : l_receipts -> bytes;
  l_empty_receipt_hash : bytes }.

Definition vc (L : lib) (v : variant) := validate_content (l_body L) (l_receipts L) (l_hdr_hash L) (l_dec_hwp L) (l_dec_header L) (l_proof_check L)
  (l_dec_body L) (l_uncle_hash L) (l_tx_root L) (l_wd_root L) (l_dec_receipts L) (l_receipt_root L) (l_empty_receipt_hash L) v.
Definition vcs (L : lib) (v : variant) := validate_contents (l_body L) (l_receipts L) (l_hdr_hash L) (l_dec_hwp L) (l_dec_header L) (l_proof_check L)
  (l_dec_body L) (l_uncle_hash L) (l_tx_root L) (l_wd_root L) (l_dec_receipts L) (l_receipt_root L) (l_empty_receipt_hash L) v.
Definition vcs_loop (L : lib) (v : variant) := validate_contents_loop (l_body L) (l_receipts L) (l_hdr_hash L) (l_dec_hwp L) (l_dec_header L) (l_proof_check L)
  (l_dec_body L) (l_uncle_hash L) (l_tx_root L) (l_wd_root L) (l_dec_receipts L) (l_receipt_root L) (l_empty_receipt_hash L) v.
Definition gett (L : lib) (v : variant) {A} := @getter (l_body L) (l_receipts L) (l_hdr_hash L) (l_dec_hwp L) (l_dec_header L) (l_proof_check L)
  (l_dec_body L) (l_uncle_hash L) (l_tx_root L) (l_wd_root L) (l_dec_receipts L) (l_receipt_root L) (l_empty_receipt_hash L) v A.
Definition hdr_of (L : lib) := header_of (l_dec_hwp L) (l_dec_header L).
Definition get_hdr (L : lib) (v : variant) := get_block_header (l_body L) (l_receipts L) (l_hdr_hash L) (l_dec_hwp L) (l_dec_header L) (l_proof_check L)
  (l_dec_body L) (l_uncle_hash L) (l_tx_root L) (l_wd_root L) (l_dec_receipts L) (l_receipt_root L) (l_empty_receipt_hash L) v.
Definition get_body (L : lib) (v : variant) := get_block_body (l_body L) (l_receipts L) (l_hdr_hash L) (l_dec_hwp L) (l_dec_header L) (l_proof_check L)
  (l_dec_body L) (l_uncle_hash L) (l_tx_root L) (l_wd_root L) (l_dec_receipts L) (l_receipt_root L) (l_empty_receipt_hash L) v.
Definition get_rcpts (L : lib) (v : variant) := get_receipts (l_body L) (l_receipts L) (l_hdr_hash L) (l_dec_hwp L) (l_dec_header L) (l_proof_check L)
  (l_dec_body L) (l_uncle_hash L) (l_tx_root L) (l_wd_root L) (l_dec_receipts L) (l_receipt_root L) (l_empty_receipt_hash L) v.
Definition run (L : lib) (v : variant) := run_ops (l_body L) (l_receipts L) (l_hdr_hash L) (l_dec_hwp L) (l_dec_header L) (l_proof_check L)
  (l_dec_body L) (l_uncle_hash L) (l_tx_root L) (l_wd_root L) (l_dec_receipts L) (l_receipt_root L) (l_empty_receipt_hash L) v.
Definition oracle (L : lib) (v : variant) := oracle_get_header (l_hdr_hash L) (l_dec_hwp L) (l_dec_header L) v.

Ltac fold_vc L v :=
  change (validate_content (l_body L) (l_receipts L) (l_hdr_hash L) (l_dec_hwp L) (l_dec_header L) (l_proof_check L)
            (l_dec_body L) (l_uncle_hash L) (l_tx_root L) (l_wd_root L) (l_dec_receipts L) (l_receipt_root L)
            (l_empty_receipt_hash L) v) with (vc L v) in *.

(* ------------------------------------------------------------------ the property's predicates *)

Definition body_matches (L : lib) (b : l_body L) (h : header) : Prop :=
  l_uncle_hash L b = h_uncle h /\ l_tx_root L b = h_tx h /\ l_wd_root L b = h_wd h.

Definition receipts_match (L : lib) (content : bytes) (h : header) : Prop :=
  (h_rcpt h = l_empty_receipt_hash L /\ content = []) \/
  (h_rcpt h <> l_empty_receipt_hash L /\ exists r, l_dec_receipts L content = Some r /\ l_receipt_root L r = h_rcpt h).

(* what acceptance means, relative to the header the source answers with *)
Definition accepts (L : lib) (src : bytes -> option header) (key content : bytes) : Prop :=
  match key with
  | [] => False
  | s :: kh =>
      if Byte.eqb s x00 then
        exists hb proof h, l_dec_hwp L content = Some (hb, proof) /\ l_dec_header L hb = Some h /\
                           l_hdr_hash L h = kh /\ l_proof_check L h proof = Ok tt
      else if Byte.eqb s x03 then
        length kh = 8%nat /\
        exists hb proof h n, l_dec_hwp L content = Some (hb, proof) /\ l_dec_header L hb = Some h /\
                             key_number kh = Some n /\ h_number h mod two64 = n /\ l_proof_check L h proof = Ok tt
      else if Byte.eqb s x01 then
        exists h b, src kh = Some h /\ l_hdr_hash L h = kh /\ l_dec_body L content = Some b /\ body_matches L b h
      else if Byte.eqb s x02 then
        exists h, src kh = Some h /\ l_hdr_hash L h = kh /\ receipts_match L content h
      else False
  end.

(* the source-independent statement of the property: the content is bound to the key *)
Definition genuine (L : lib) (key content : bytes) : Prop :=
  match key with
  | [] => False
  | s :: kh =>
      if Byte.eqb s x00 then
        exists hb proof h, l_dec_hwp L content = Some (hb, proof) /\ l_dec_header L hb = Some h /\
                           l_hdr_hash L h = kh /\ l_proof_check L h proof = Ok tt
      else if Byte.eqb s x03 then
        length kh = 8%nat /\
        exists hb proof h n, l_dec_hwp L content = Some (hb, proof) /\ l_dec_header L hb = Some h /\
                             key_number kh = Some n /\ h_number h mod two64 = n /\ l_proof_check L h proof = Ok tt
      else if Byte.eqb s x01 then
        exists h b, l_hdr_hash L h = kh /\ l_dec_body L content = Some b /\ body_matches L b h
      else if Byte.eqb s x02 then
        exists h, l_hdr_hash L h = kh /\ receipts_match L content h
      else False
  end.

Definition collision (L : lib) : Prop := exists h1 h2, h1 <> h2 /\ l_hdr_hash L h1 = l_hdr_hash L h2.

(* ------------------------------------------------------------------ helpers *)

Lemma beq_true a b : bytes_eqb a b = true -> a = b.
Proof. apply bytes_eqb_eq. Qed.
Lemma beq_refl a : bytes_eqb a a = true.
Proof. now apply bytes_eqb_eq. Qed.
Lemma beq_false a b : bytes_eqb a b = false -> a <> b.
Proof. intros H E. subst. rewrite beq_refl in H. discriminate. Qed.
Lemma beq_neq a b : a <> b -> bytes_eqb a b = false.
Proof. intros H. destruct (bytes_eqb a b) eqn:E; [apply beq_true in E; contradiction | reflexivity]. Qed.

Lemma bytes_eq_dec (a b : bytes) : {a = b} + {a <> b}.
Proof. destruct (bytes_eqb a b) eqn:E; [left; now apply beq_true | right; now apply beq_false]. Qed.
Lemma header_eq_dec (a b : header) : {a = b} + {a <> b}.
Proof.
  decide equality; try apply bytes_eq_dec; try apply N.eq_dec.
  decide equality; apply bytes_eq_dec.
Qed.

Lemma accepts_genuine L src key content : accepts L src key content -> genuine L key content.
Proof.
  destruct key as [|s kh]; simpl; [easy|].
  destruct (Byte.eqb s x00); [easy|]. destruct (Byte.eqb s x03); [easy|].
  destruct (Byte.eqb s x01).
  - intros (h & b & _ & H). now exists h, b.
  - destruct (Byte.eqb s x02); [|easy]. intros (h & _ & H). now exists h.
Qed.

(* ------------------------------------------------------------------ validateBlockBody *)

Lemma body_ok_iff L v b h : v_wd v = true ->
  validate_block_body (l_body L) (l_uncle_hash L) (l_tx_root L) (l_wd_root L) v b h = Ok tt <-> body_matches L b h.
Proof.
  intros Hw. unfold validate_block_body, body_matches. rewrite Hw.
  destruct (bytes_eqb (l_uncle_hash L b) (h_uncle h)) eqn:E1; simpl.
  2:{ split; [discriminate|]. intros (A & _). apply beq_false in E1. contradiction. }
  destruct (bytes_eqb (l_tx_root L b) (h_tx h)) eqn:E2; simpl.
  2:{ split; [discriminate|]. intros (_ & A & _). apply beq_false in E2. contradiction. }
  apply beq_true in E1, E2.
  destruct (l_wd_root L b) as [w|], (h_wd h) as [hw|].
  - destruct (bytes_eqb w hw) eqn:E3.
    + apply beq_true in E3. subst. tauto.
    + apply beq_false in E3. split; [discriminate|]. intros (_ & _ & A). congruence.
  - split; [discriminate|]. intros (_ & _ & A). discriminate.
  - split; [discriminate|]. intros (_ & _ & A). discriminate.
  - tauto.
Qed.

Lemma body_no_panic L v b h : v_wd v = true ->
  validate_block_body (l_body L) (l_uncle_hash L) (l_tx_root L) (l_wd_root L) v b h <> Panic.
Proof.
  intros Hw. unfold validate_block_body. rewrite Hw.
  destruct (negb _); [discriminate|]. destruct (negb _); [discriminate|].
  destruct (l_wd_root L b), (h_wd h); try discriminate. destruct (bytes_eqb _ _); discriminate.
Qed.

(* ------------------------------------------------------------------ source_header *)

Lemma source_ok_iff L v src kh h : v_bind v = true ->
  source_header (l_hdr_hash L) v src kh = Ok h <-> src kh = Some h /\ l_hdr_hash L h = kh.
Proof.
  intros Hb. unfold source_header. rewrite Hb. destruct (src kh) as [h0|]; simpl.
  - destruct (bytes_eqb (l_hdr_hash L h0) kh) eqn:E; simpl.
    + apply beq_true in E. split; [intros A; inversion A; subst; auto | intros (A & _); now inversion A].
    + apply beq_false in E. split; [discriminate | intros (A & B); inversion A; subst; contradiction].
  - split; [discriminate | intros (A & _); discriminate].
Qed.

Lemma source_no_panic L v src kh : source_header (l_hdr_hash L) v src kh <> Panic.
Proof. unfold source_header. destruct (src kh); [|discriminate]. destruct (_ && _); discriminate. Qed.

(* ------------------------------------------------------------------ ValidateContent: acceptance <-> bound *)

Lemma receipts_ok_iff L content h :
  (if bytes_eqb (h_rcpt h) (l_empty_receipt_hash L)
   then match content with [] => Ok tt | _ => Err E_NONEMPTY end
   else validate_receipts_bytes (l_receipts L) (l_dec_receipts L) (l_receipt_root L) content (h_rcpt h)) = Ok tt
  <-> receipts_match L content h.
Proof.
  unfold receipts_match. destruct (bytes_eqb (h_rcpt h) (l_empty_receipt_hash L)) eqn:E.
  - apply beq_true in E. destruct content.
    + split; auto.
    + split; [discriminate|]. intros [(_ & A)|(A & _)]; [discriminate | contradiction].
  - apply beq_false in E. unfold validate_receipts_bytes.
    destruct (l_dec_receipts L content) as [r|].
    + destruct (bytes_eqb (l_receipt_root L r) (h_rcpt h)) eqn:E2.
      * apply beq_true in E2. split; [intros _; right; split; [exact E|]; now exists r | reflexivity].
      * apply beq_false in E2. split; [discriminate|].
        intros [(A & _)|(_ & r' & A & B)]; [contradiction | inversion A; subst; contradiction].
    + split; [discriminate|]. intros [(A & _)|(_ & r' & A & _)]; [contradiction | discriminate].
Qed.

Lemma accept_iff L v src key content : v_bind v = true -> v_wd v = true -> v_numlen v = true ->
  vc L v src key content = Ok tt <-> accepts L src key content.
Proof.
  intros Hb Hw Hn. unfold vc, validate_content, accepts.
  destruct key as [|s kh].
  - destruct (v_key v); simpl; split; try discriminate; easy.
  - replace (v_key v && false) with false by (destruct (v_key v); reflexivity).
    cbn [idx nth_error bind tl].
    destruct (Byte.eqb s x00).
    { destruct (l_dec_hwp L content) as [[hb proof]|] eqn:DW.
      2:{ split; [discriminate | intros (? & ? & ? & A & _); discriminate]. }
      destruct (l_dec_header L hb) as [h|] eqn:DH.
      2:{ split; [discriminate | intros (? & ? & ? & A & B & _); inversion A; subst; congruence]. }
      destruct (bytes_eqb (l_hdr_hash L h) kh) eqn:E; simpl.
      - apply beq_true in E. split.
        + intros P. now exists hb, proof, h.
        + intros (hb' & p' & h' & A & B & _ & D). inversion A; subst. rewrite DH in B. now inversion B.
      - apply beq_false in E. split; [discriminate|].
        intros (hb' & p' & h' & A & B & C & _). inversion A; subst. rewrite DH in B. inversion B; subst. contradiction. }
    destruct (Byte.eqb s x03).
    { rewrite Hn. cbn [andb].
      destruct (Nat.eqb_spec (length kh) 8) as [LK|LK]; cbn [negb].
      2:{ split; [discriminate | intros (A & _); contradiction]. }
      assert (X : forall P : Prop, P <-> (length kh = 8%nat /\ P)) by tauto. rewrite <- X. clear X.
      unfold dec_header_with_proof.
      destruct (l_dec_hwp L content) as [[hb proof]|] eqn:DW.
      2:{ split; [discriminate | intros (? & ? & ? & ? & A & _); discriminate]. }
      destruct (l_dec_header L hb) as [h|] eqn:DH.
      2:{ split; [discriminate | intros (? & ? & ? & ? & A & B & _); inversion A; subst; congruence]. }
      destruct (key_number kh) as [n|] eqn:KN.
      2:{ split; [discriminate | intros (? & ? & ? & ? & _ & _ & A & _); discriminate]. }
      destruct (N.eqb_spec (h_number h mod two64) n) as [E|E]; simpl.
      - split.
        + intros P. now exists hb, proof, h, n.
        + intros (hb' & p' & h' & n' & A & B & _ & _ & D). inversion A; subst. rewrite DH in B. now inversion B.
      - split; [discriminate|].
        intros (hb' & p' & h' & n' & A & B & C & D & _). inversion A; subst. rewrite DH in B. inversion B; subst.
        inversion C; subst. contradiction. }
    destruct (Byte.eqb s x01).
    { destruct (source_header (l_hdr_hash L) v src kh) as [h| |] eqn:S; cbn [bind].
      - apply (source_ok_iff L v src kh h Hb) in S as (S1 & S2).
        unfold validate_block_body_bytes. destruct (l_dec_body L content) as [b|].
        + rewrite (body_ok_iff L v b h Hw). split.
          * intros M. now exists h, b.
          * intros (h' & b' & A & _ & C & D). rewrite S1 in A. inversion A; inversion C; subst. exact D.
        + split; [discriminate | intros (? & ? & _ & _ & A & _); discriminate].
      - split; [discriminate|]. intros (h & b & A & B & _).
        assert (X : source_header (l_hdr_hash L) v src kh = Ok h) by (apply source_ok_iff; auto). congruence.
      - now apply source_no_panic in S. }
    destruct (Byte.eqb s x02); [|split; [discriminate | easy]].
    destruct (source_header (l_hdr_hash L) v src kh) as [h| |] eqn:S; cbn [bind].
    + apply (source_ok_iff L v src kh h Hb) in S as (S1 & S2).
      rewrite receipts_ok_iff. split.
      * intros M. now exists h.
      * intros (h' & A & _ & C). rewrite S1 in A. inversion A; subst. exact C.
    + split; [discriminate|]. intros (h & A & B & _).
      assert (X : source_header (l_hdr_hash L) v src kh = Ok h) by (apply source_ok_iff; auto). congruence.
    + now apply source_no_panic in S.
Qed.

(* soundness in the source-independent form *)
Lemma accept_sound L v src key content : v_bind v = true -> v_wd v = true -> v_numlen v = true ->
  vc L v src key content = Ok tt -> genuine L key content.
Proof. intros Hb Hw Hn H. eapply accepts_genuine. apply (accept_iff L v src key content Hb Hw Hn). exact H. Qed.

(* no panic, whatever the source answers and whatever the bytes are *)
Lemma no_panic L v src key content : v_key v = true -> v_wd v = true ->
  (forall h p, l_proof_check L h p <> Panic) -> vc L v src key content <> Panic.
Proof.
  intros Hk Hw Hp. unfold vc, validate_content. rewrite Hk.
  destruct key as [|s kh]; [discriminate|]. cbn [andb idx nth_error bind tl].
  destruct (Byte.eqb s x00).
  { destruct (l_dec_hwp L content) as [[hb proof]|]; [|discriminate].
    destruct (l_dec_header L hb); [|discriminate]. destruct (negb _); [discriminate | apply Hp]. }
  destruct (Byte.eqb s x03).
  { destruct (v_numlen v && negb (Nat.eqb (length kh) 8)); [discriminate|].
    destruct (dec_header_with_proof _ _ content) as [[h proof]|]; [|discriminate].
    destruct (key_number kh); [|discriminate]. destruct (negb _); [discriminate | apply Hp]. }
  destruct (Byte.eqb s x01).
  { destruct (source_header (l_hdr_hash L) v src kh) as [h| |] eqn:S; cbn [bind]; try discriminate.
    - unfold validate_block_body_bytes. destruct (l_dec_body L content); [|discriminate]. now apply body_no_panic.
    - now apply source_no_panic in S. }
  destruct (Byte.eqb s x02); [|discriminate].
  destruct (source_header (l_hdr_hash L) v src kh) as [h| |] eqn:S; cbn [bind]; try discriminate.
  - destruct (bytes_eqb _ _). + destruct content; discriminate.
    + unfold validate_receipts_bytes. destruct (l_dec_receipts L content); [|discriminate]. destruct (bytes_eqb _ _); discriminate.
  - now apply source_no_panic in S.
Qed.

(* every byte string that is not bound to the key is rejected with an error *)
Lemma unbound_rejected L src key content :
  (forall h p, l_proof_check L h p <> Panic) ->
  ~ accepts L src key content -> exists e, vc L repaired src key content = Err e.
Proof.
  intros Hp Hn. destruct (vc L repaired src key content) as [[]|e|] eqn:E.
  - exfalso. apply Hn. now apply (accept_iff L repaired src key content eq_refl eq_refl eq_refl).
  - now exists e.
  - exfalso. now apply (no_panic L repaired src key content eq_refl eq_refl Hp).
Qed.

(* "the header with the key's block hash": any header with that hash agrees, or the two are a keccak collision *)
Lemma body_any_header_or_collision L kh content :
  genuine L (x01 :: kh) content ->
  forall h', l_hdr_hash L h' = kh ->
    (exists b, l_dec_body L content = Some b /\ body_matches L b h') \/ collision L.
Proof.
  cbn. intros (h & b & H1 & H2 & H3) h' Hh'.
  destruct (header_eq_dec h h') as [E|E].
  - subst. left. now exists b.
  - right. exists h, h'. split; [exact E | congruence].
Qed.

Lemma receipts_any_header_or_collision L kh content :
  genuine L (x02 :: kh) content ->
  forall h', l_hdr_hash L h' = kh -> receipts_match L content h' \/ collision L.
Proof.
  cbn. intros (h & H1 & H2) h' Hh'.
  destruct (header_eq_dec h h') as [E|E].
  - subst. now left.
  - right. exists h, h'. split; [exact E | congruence].
Qed.

(* ------------------------------------------------------------------ the oracle *)

Lemma oracle_bound L v serve hash h : v_obind v = true ->
  oracle L v serve hash = Some h -> l_hdr_hash L h = hash.
Proof.
  intros Ho. unfold oracle, oracle_get_header. rewrite Ho.
  destruct (serve (x00 :: hash)); [|discriminate].
  destruct (header_of _ _ _) as [h0|]; [|discriminate]. cbn [andb].
  destruct (bytes_eqb (l_hdr_hash L h0) hash) eqn:E; simpl; [|discriminate].
  intros A. inversion A; subst. now apply beq_true.
Qed.

(* ------------------------------------------------------------------ validateContents, getters, histories *)

Definition gp (L : lib) (p : bytes * bytes) : Prop := genuine L (fst p) (snd p).
Definition store_ok (L : lib) (s : store) : Prop := forall k c, store_get s k = Some c -> genuine L k c.

Lemma store_ok_nil L : store_ok L [].
Proof. intros k c H. discriminate. Qed.

Lemma store_ok_put L s k c : store_ok L s -> genuine L k c -> store_ok L (store_put s k c).
Proof.
  intros Hs Hg k' c'. unfold store_put. cbn [store_get].
  destruct (bytes_eqb k k') eqn:E.
  - apply beq_true in E. intros A. inversion A; subst. exact Hg.
  - apply Hs.
Qed.

(* generic in the validator and under storage faults: if whatever `validate` accepts is bound, only bound content is
   stored / returned; failing Gets and Puts change nothing about that *)
Lemma loop_g_sound L validate gfail pfail keys :
  (forall k c, validate k c = Ok tt -> genuine L k c) ->
  forall contents i s puts r s' puts',
    validate_contents_loop_g validate gfail pfail keys i contents s puts = (r, s', puts') ->
    store_ok L s -> Forall (gp L) puts -> store_ok L s' /\ Forall (gp L) puts'.
Proof.
  intros Hv.
  induction contents as [|c rest IH]; intros i s puts r s' puts' H Hs Hp; cbn [validate_contents_loop_g] in H.
  - inversion H; subst. auto.
  - destruct (idx keys i) as [k|e|]; try (inversion H; subst; auto; fail).
    destruct (if gfail then None else store_get s k).
    + eapply IH; eauto.
    + destruct (validate k c) as [[]|e|] eqn:V; try (inversion H; subst; auto; fail).
      assert (G : genuine L k c) by (apply Hv; exact V).
      destruct pfail.
      * eapply IH; eauto.
      * eapply IH; [exact H | now apply store_ok_put |].
        apply Forall_app. split; [exact Hp | constructor; [exact G | constructor]].
Qed.

Lemma loop_g_no_panic validate gfail pfail keys :
  (forall k c, validate k c <> Panic) ->
  forall contents i s puts, (i + length contents <= length keys)%nat ->
    fst (fst (validate_contents_loop_g validate gfail pfail keys i contents s puts)) <> Panic.
Proof.
  intros Hv.
  induction contents as [|c rest IH]; intros i s puts Hl; cbn [validate_contents_loop_g].
  - discriminate.
  - cbn [length] in Hl. unfold idx. destruct (nth_error keys i) as [k|] eqn:N.
    2:{ apply nth_error_None in N. lia. }
    destruct (if gfail then None else store_get s k).
    + apply IH. lia.
    + pose proof (Hv k c) as NP.
      destruct (validate k c) as [[]|e|]; [|discriminate|contradiction].
      destruct pfail; apply IH; lia.
Qed.

Lemma getter_g_sound L {A} validate gfail pfail sel (decode : bytes -> option A) lookup s hash r s' p :
  (forall k c, validate k c = Ok tt -> genuine L k c) ->
  getter_g validate gfail pfail sel decode lookup s hash = (r, s', p) -> store_ok L s ->
  store_ok L s' /\ Forall (gp L) p /\
  (forall a, r = Ok a -> exists c, genuine L (sel :: hash) c /\ decode c = Some a).
Proof.
  intros Hv H Hs. unfold getter_g in H.
  destruct gfail.
  { inversion H; subst. repeat split; auto; discriminate. }
  destruct (store_get s (sel :: hash)) as [local|] eqn:G.
  - inversion H; subst. split; [exact Hs|]. split; [constructor|].
    intros a Ha. exists local. split; [now apply Hs|]. destruct (decode local); [now inversion Ha | discriminate].
  - destruct (lookup (sel :: hash)) as [content|].
    2:{ inversion H; subst. repeat split; auto; discriminate. }
    destruct (validate (sel :: hash) content) as [[]|e|] eqn:V;
      try (inversion H; subst; repeat split; auto; discriminate).
    assert (Gn : genuine L (sel :: hash) content) by (apply Hv; exact V).
    destruct (decode content) as [a|] eqn:D.
    + destruct pfail.
      * inversion H; subst. split; [exact Hs|]. split; [constructor|].
        intros a' Ha. inversion Ha; subst. now exists content.
      * inversion H; subst. split; [now apply store_ok_put|]. split; [constructor; [exact Gn | constructor]|].
        intros a' Ha. inversion Ha; subst. now exists content.
    + inversion H; subst. repeat split; auto; discriminate.
Qed.

Lemma getter_g_no_panic {A} validate gfail pfail sel (decode : bytes -> option A) lookup s hash :
  (forall k c, validate k c <> Panic) ->
  fst (fst (getter_g validate gfail pfail sel decode lookup s hash)) <> Panic.
Proof.
  intros Hv. unfold getter_g. destruct gfail; [discriminate|].
  destruct (store_get s (sel :: hash)) as [local|]; cbn [fst].
  - destruct (decode local); discriminate.
  - destruct (lookup (sel :: hash)) as [content|]; [|discriminate].
    pose proof (Hv (sel :: hash) content) as NP.
    destruct (validate (sel :: hash) content) as [[]|e|]; [|discriminate|contradiction].
    destruct (decode content); [destruct pfail|]; discriminate.
Qed.

(* the functions written out in the Section are the fault-free instances of the generic glue *)
Lemma loop_is_instance L v src keys : forall contents i s puts,
  vcs_loop L v src keys i contents s puts = validate_contents_loop_g (vc L v src) false false keys i contents s puts.
Proof.
  unfold vcs_loop, vc. induction contents as [|c rest IH]; intros i s puts; cbn [validate_contents_loop validate_contents_loop_g]; [reflexivity|].
  destruct (idx keys i) as [k|e|]; try reflexivity.
  destruct (store_get s k); [apply IH|].
  destruct (validate_content _ _ _ _ _ _ _ _ _ _ _ _ _ v src k c) as [[]|e|]; try reflexivity. apply IH.
Qed.
Lemma getter_is_instance L v {A} sel (decode : bytes -> option A) src lookup s hash :
  gett L v sel decode src lookup s hash = getter_g (vc L v src) false false sel decode lookup s hash.
Proof. reflexivity. Qed.

(* the instances with the history validator *)
Lemma vcs_loop_sound L v src keys : v_bind v = true -> v_wd v = true -> v_numlen v = true ->
  forall contents i s puts r s' puts',
    vcs_loop L v src keys i contents s puts = (r, s', puts') ->
    store_ok L s -> Forall (gp L) puts -> store_ok L s' /\ Forall (gp L) puts'.
Proof.
  intros Hb Hw Hn contents i s puts r s' puts'. rewrite loop_is_instance.
  apply loop_g_sound. intros k c. apply (accept_sound L v src k c Hb Hw Hn).
Qed.

Lemma vcs_sound L v src keys contents s r s' puts : v_bind v = true -> v_wd v = true -> v_numlen v = true ->
  vcs L v src keys contents s = (r, s', puts) -> store_ok L s -> store_ok L s' /\ Forall (gp L) puts.
Proof. intros Hb Hw Hn H Hs. eapply (vcs_loop_sound L v src keys Hb Hw Hn); eauto. Qed.

Lemma vcs_loop_no_panic L v src keys : v_key v = true -> v_wd v = true ->
  (forall h p, l_proof_check L h p <> Panic) ->
  forall contents i s puts, (i + length contents <= length keys)%nat ->
    fst (fst (vcs_loop L v src keys i contents s puts)) <> Panic.
Proof.
  intros Hk Hw Hp contents i s puts. rewrite loop_is_instance. revert contents i s puts. apply loop_g_no_panic.
  intros k c. apply (no_panic L v src k c Hk Hw Hp).
Qed.

Lemma getter_sound L v {A} sel (decode : bytes -> option A) src lookup s hash r s' p :
  v_bind v = true -> v_wd v = true -> v_numlen v = true ->
  gett L v sel decode src lookup s hash = (r, s', p) -> store_ok L s ->
  store_ok L s' /\ Forall (gp L) p /\
  (forall a, r = Ok a -> exists c, genuine L (sel :: hash) c /\ decode c = Some a).
Proof.
  intros Hb Hw Hn. rewrite getter_is_instance. apply getter_g_sound.
  intros k c. apply (accept_sound L v src k c Hb Hw Hn).
Qed.

Lemma getter_no_panic L v {A} sel (decode : bytes -> option A) src lookup s hash :
  v_key v = true -> v_wd v = true -> (forall h p, l_proof_check L h p <> Panic) ->
  fst (fst (gett L v sel decode src lookup s hash)) <> Panic.
Proof.
  intros Hk Hw Hp. rewrite getter_is_instance. apply getter_g_no_panic.
  intros k c. apply (no_panic L v src k c Hk Hw Hp).
Qed.

(* one step of a history and its observation *)
Definition op_obs_ok (L : lib) (o : op) (ob : obs (l_body L) (l_receipts L)) : Prop :=
  match o, ob with
  | OpOffer _ _ _, ObsOffer _ _ _ p => Forall (gp L) p
  | OpGet _ _ _ hash, ObsHeader _ _ r p =>
      Forall (gp L) p /\ forall h, r = Ok h -> exists c, genuine L (x00 :: hash) c /\ hdr_of L c = Some h
  | OpGet _ _ _ hash, ObsBody _ _ r p =>
      Forall (gp L) p /\ forall b, r = Ok b -> exists c, genuine L (x01 :: hash) c /\ l_dec_body L c = Some b
  | OpGet _ _ _ hash, ObsReceipts _ _ r p =>
      Forall (gp L) p /\ forall x, r = Ok x -> exists c, genuine L (x02 :: hash) c /\ l_dec_receipts L c = Some x
  | _, _ => False
  end.

Definition stp (L : lib) (v : variant) := step (l_body L) (l_receipts L) (l_hdr_hash L) (l_dec_hwp L) (l_dec_header L) (l_proof_check L)
  (l_dec_body L) (l_uncle_hash L) (l_tx_root L) (l_wd_root L) (l_dec_receipts L) (l_receipt_root L) (l_empty_receipt_hash L) v.

Lemma step_sound L v o s ob s' : v_bind v = true -> v_wd v = true -> v_numlen v = true ->
  stp L v o s = (ob, s') -> store_ok L s -> store_ok L s' /\ op_obs_ok L o ob.
Proof.
  intros Hb Hw Hn H Hs. unfold stp, step in H. destruct o as [src keys contents | t src lookup hash].
  - destruct (validate_contents _ _ _ _ _ _ _ _ _ _ _ _ _ v src keys contents s) as [[r s1] p] eqn:V.
    inversion H; subst. apply (vcs_sound L v src keys contents s r s' p Hb Hw Hn V) in Hs as (A & B). now split.
  - destruct (t =? 0).
    + destruct (get_block_header _ _ _ _ _ _ _ _ _ _ _ _ _ v src lookup s hash) as [[r s1] p] eqn:G.
      inversion H; subst.
      apply (getter_sound L v x00 (hdr_of L) src lookup s hash r s' p Hb Hw Hn G) in Hs as (A & B & C). split; [exact A|]. now split.
    + destruct (t =? 1).
      * destruct (get_block_body _ _ _ _ _ _ _ _ _ _ _ _ _ v src lookup s hash) as [[r s1] p] eqn:G.
        inversion H; subst.
        apply (getter_sound L v x01 (l_dec_body L) src lookup s hash r s' p Hb Hw Hn G) in Hs as (A & B & C). split; [exact A|]. now split.
      * destruct (get_receipts _ _ _ _ _ _ _ _ _ _ _ _ _ v src lookup s hash) as [[r s1] p] eqn:G.
        inversion H; subst.
        apply (getter_sound L v x02 (l_dec_receipts L) src lookup s hash r s' p Hb Hw Hn G) in Hs as (A & B & C). split; [exact A|]. now split.
Qed.

Lemma run_sound L v : v_bind v = true -> v_wd v = true -> v_numlen v = true ->
  forall ops s obs s', run L v ops s = (obs, s') -> store_ok L s ->
    store_ok L s' /\ Forall2 (op_obs_ok L) ops obs.
Proof.
  intros Hb Hw Hn. unfold run. induction ops as [|o rest IH]; intros s obs s' H Hs; cbn [run_ops] in H.
  - inversion H; subst. split; [exact Hs | constructor].
  - destruct (step _ _ _ _ _ _ _ _ _ _ _ _ _ v o s) as [ob s1] eqn:S.
    destruct (run_ops _ _ _ _ _ _ _ _ _ _ _ _ _ v rest s1) as [obs1 s2] eqn:R.
    inversion H; subst.
    apply (step_sound L v o s ob s1 Hb Hw Hn S) in Hs as (A & B).
    destruct (IH s1 obs1 s' R A) as (C & D). split; [exact C | now constructor].
Qed.

(* ------------------------------------------------------------------ the code as found: refutations (vm_compute witnesses)
   A concrete library instance: body = receipts = bytes, decoders are the identity, the "hash" of a header is
   h_rest ++ h_tx ++ h_rcpt (so a hash constrains the transaction and receipt roots), every proof verifies. *)
Definition wl : lib := mkLib bytes bytes
  (fun h => h_rest h ++ h_tx h ++ h_rcpt h)            (* hdr_hash *)
  (fun c => Some (c, []))                              (* dec_hwp *)
  (fun c => Some (mkHeader c 0 [] [] [] None))         (* dec_header *)
  (fun _ _ => Ok tt)                                   (* proof_check *)
  (fun c => Some c)                                    (* dec_body: the body "is" its bytes *)
  (fun _ => [])                                        (* uncle_hash *)
  (fun b => firstn 1 b)                                (* tx_root = first byte *)
  (fun b => match b with _ :: w :: _ => Some [w] | _ => None end)  (* wd_root = second byte, if any *)
  (fun c => Some c) (fun r => r) [x00].

Definition wA : header := mkHeader [xaa] 1 [] [x01] [x07] None.             (* block A: tx root 01, no withdrawals root *)
Definition wS : header := mkHeader [xbb] 2 [] [x01] [x07] (Some [x09]).     (* block S: has a withdrawals root *)

(* no header whose hash is bb 02 05 has transaction root 01 / receipt root 07 *)
Lemma w_body_not_genuine : ~ genuine wl [x01; xbb; x02; x05] [x01].
Proof.
  cbn. intros (h & b & H1 & H2 & _ & H4 & _). inversion H2; subst. cbn in H4.
  assert (I : In x01 [xbb; x02; x05]).
  { rewrite <- H1. apply in_or_app. right. apply in_or_app. left. rewrite <- H4. now left. }
  cbn in I. repeat (destruct I as [I|I]; [discriminate|]). exact I.
Qed.
Lemma w_receipts_not_genuine : ~ genuine wl [x02; xbb; x02; x05] [x07].
Proof.
  cbn. intros (h & H1 & [(_ & A)|(_ & r & B & C)]); [discriminate|]. inversion B; subst.
  assert (I : In x07 [xbb; x02; x05]).
  { rewrite <- H1. apply in_or_app. right. apply in_or_app. right. rewrite <- C. now left. }
  cbn in I. repeat (destruct I as [I|I]; [discriminate|]). exact I.
Qed.

(* (i) the source answers the request for hash bb0205 with the header of block A: A's body / receipts are accepted
   under the key of that other block *)
Lemma lying_source_body_refuted :
  exists src key content,
    vc wl (mkVariant false true true true true) src key content = Ok tt /\ ~ genuine wl key content.
Proof.
  exists (fun _ => Some wA), [x01; xbb; x02; x05], [x01]. split; [vm_compute; reflexivity | exact w_body_not_genuine].
Qed.
Lemma lying_source_receipts_refuted :
  exists src key content,
    vc wl (mkVariant false true true true true) src key content = Ok tt /\ ~ genuine wl key content.
Proof.
  exists (fun _ => Some wA), [x02; xbb; x02; x05], [x07]. split; [vm_compute; reflexivity | exact w_receipts_not_genuine].
Qed.

(* (ii) legacy-encoded body (no withdrawals) accepted for a header that has a withdrawals root; the source is honest *)
Lemma legacy_body_refuted :
  exists src key content h b,
    vc wl (mkVariant true false true true true) src key content = Ok tt /\
    src (tl key) = Some h /\ l_hdr_hash wl h = tl key /\ l_dec_body wl content = Some b /\
    l_wd_root wl b = None /\ h_wd h <> None /\ ~ body_matches wl b h.
Proof.
  exists (fun _ => Some wS), [x01; xbb; x01; x07], [x01], wS, [x01].
  split; [vm_compute; reflexivity|]. repeat (split; [reflexivity|]). split; [discriminate|].
  intros (_ & _ & A). discriminate.
Qed.

(* (iii) Shanghai-encoded body against a header without a withdrawals root: nil dereference; the source is honest *)
Lemma nil_withdrawals_hash_refuted :
  exists src key content h,
    src (tl key) = Some h /\ l_hdr_hash wl h = tl key /\
    vc wl (mkVariant true false true true true) src key content = Panic.
Proof. exists (fun _ => Some wA), [x01; xaa; x01; x07], [x01; x09], wA. repeat split; vm_compute; reflexivity. Qed.

(* empty key: contentKey[0] *)
Lemma empty_key_refuted : exists src content, vc wl (mkVariant true true false true true) src [] content = Panic.
Proof. exists (fun _ => None), []. vm_compute. reflexivity. Qed.

(* the oracle as found hands back a header that does not hash to the request *)
Lemma oracle_refuted :
  exists serve hash h, oracle wl (mkVariant true true true false true) serve hash = Some h /\ l_hdr_hash wl h <> hash.
Proof.
  exists (fun _ => Some [xaa]), [xbb], (mkHeader [xaa] 0 [] [] [] None). split; [vm_compute; reflexivity|].
  vm_compute. discriminate.
Qed.

(* the code as found (all flags off): forged content accepted, and a panic *)
Lemma as_found_refuted :
  (exists src key content, vc wl as_found src key content = Ok tt /\ ~ genuine wl key content) /\
  (exists src key content, vc wl as_found src key content = Panic).
Proof.
  split.
  - exists (fun _ => Some wA), [x01; xbb; x02; x05], [x01]. split; [vm_compute; reflexivity | exact w_body_not_genuine].
  - exists (fun _ => Some wA), [x01; xaa; x01; x07], [x01; x09]. vm_compute. reflexivity.
Qed.

(* the same inputs on the repaired model, and a genuine one (non-vacuity) *)
Lemma repaired_example :
  vc wl repaired (fun _ => Some wS) [x01; xbb; x01; x07] [x01; x09] = Ok tt /\
  genuine wl [x01; xbb; x01; x07] [x01; x09] /\
  vc wl repaired (fun _ => Some wA) [x01; xbb; x02; x05] [x01] = Err E_HASH /\
  vc wl repaired (fun _ => Some wA) [x02; xbb; x02; x05] [x07] = Err E_HASH /\
  vc wl repaired (fun _ => Some wS) [x01; xbb; x01; x07] [x01] = Err E_WD /\
  vc wl repaired (fun _ => Some wA) [x01; xaa; x01; x07] [x01; x09] = Err E_WD /\
  vc wl repaired (fun _ => None) [] [] = Err E_KEY /\
  oracle wl repaired (fun _ => Some [xaa]) [xbb] = None.
Proof.
  split; [vm_compute; reflexivity|]. split.
  - apply (accept_sound wl repaired (fun _ => Some wS)); [reflexivity | reflexivity | reflexivity | vm_compute; reflexivity].
  - repeat split; vm_compute; reflexivity.
Qed.

(* ------------------------------------------------------------------ per-type corollaries in the words of the property *)
Lemma header_by_hash_sound L src kh content :
  vc L repaired src (x00 :: kh) content = Ok tt ->
  exists hb proof h, l_dec_hwp L content = Some (hb, proof) /\ l_dec_header L hb = Some h /\
                     l_hdr_hash L h = kh /\ l_proof_check L h proof = Ok tt.
Proof. intros H. apply (accept_iff L repaired src _ content eq_refl eq_refl eq_refl) in H. exact H. Qed.

Lemma header_by_number_sound L src kh content :
  vc L repaired src (x03 :: kh) content = Ok tt ->
  length kh = 8%nat /\
  exists hb proof h n, l_dec_hwp L content = Some (hb, proof) /\ l_dec_header L hb = Some h /\
                       key_number kh = Some n /\ h_number h mod two64 = n /\ l_proof_check L h proof = Ok tt.
Proof. intros H. apply (accept_iff L repaired src _ content eq_refl eq_refl eq_refl) in H. exact H. Qed.

Lemma body_sound L src kh content :
  vc L repaired src (x01 :: kh) content = Ok tt ->
  exists h b, l_hdr_hash L h = kh /\ l_dec_body L content = Some b /\ body_matches L b h.
Proof. intros H. apply (accept_sound L repaired src _ content eq_refl eq_refl eq_refl) in H. exact H. Qed.

Lemma receipts_sound L src kh content :
  vc L repaired src (x02 :: kh) content = Ok tt ->
  exists h, l_hdr_hash L h = kh /\ receipts_match L content h.
Proof. intros H. apply (accept_sound L repaired src _ content eq_refl eq_refl eq_refl) in H. exact H. Qed.

Lemma other_selector_rejected L src s kh content :
  Byte.eqb s x00 = false -> Byte.eqb s x01 = false -> Byte.eqb s x02 = false -> Byte.eqb s x03 = false ->
  vc L repaired src (s :: kh) content = Err E_UNKNOWN.
Proof.
  intros A B C D. unfold vc, validate_content. cbn [v_key repaired andb idx nth_error bind tl].
  now rewrite A, D, B, C.
Qed.

Lemma history_sound L ops obs s' :
  run L repaired ops [] = (obs, s') -> store_ok L s' /\ Forall2 (op_obs_ok L) ops obs.
Proof. intros H. eapply (run_sound L repaired eq_refl eq_refl eq_refl); [exact H | apply store_ok_nil]. Qed.

Lemma offer_no_panic L src keys contents s :
  (forall h p, l_proof_check L h p <> Panic) -> length keys = length contents ->
  fst (fst (vcs L repaired src keys contents s)) <> Panic.
Proof. intros Hp Hl. apply (vcs_loop_no_panic L repaired src keys eq_refl eq_refl Hp). simpl. lia. Qed.

(* ------------------------------------------------------------------ the key itself: exact length
   The comparison of header.Hash() (32 bytes) with the WHOLE of contentKey[1:] is what rejects over-long and short
   keys for the three by-hash selectors; the by-number selector checks len(contentKey) == 9. *)
Definition key_exact (key : bytes) : Prop :=
  match key with
  | [] => False
  | s :: kh => if Byte.eqb s x03 then length kh = 8%nat else length kh = 32%nat
  end.

Lemma key_length L src key content :
  (forall h, length (l_hdr_hash L h) = 32%nat) ->
  vc L repaired src key content = Ok tt -> key_exact key.
Proof.
  intros H32 H. apply (accept_iff L repaired src key content eq_refl eq_refl eq_refl) in H.
  destruct key as [|s kh]; [exact H|]. cbn in H |- *.
  destruct (Byte.eqb s x00) eqn:E0.
  { assert (s = x00) by (now apply Byte.byte_dec_bl). subst. cbn.
    destruct H as (hb & p & h & _ & _ & A & _). rewrite <- A. apply H32. }
  destruct (Byte.eqb s x03); [now destruct H|].
  destruct (Byte.eqb s x01).
  { destruct H as (h & b & _ & A & _). rewrite <- A. apply H32. }
  destruct (Byte.eqb s x02); [|contradiction].
  destruct H as (h & _ & A & _). rewrite <- A. apply H32.
Qed.

(* as found: bytes after the 8-byte number of a 0x03 key were ignored *)
Lemma number_key_trailing_refuted :
  exists src key content,
    vc wl (mkVariant true true true true false) src key content = Ok tt /\ ~ key_exact key.
Proof.
  exists (fun _ => None), [x03; x00; x00; x00; x00; x00; x00; x00; x00; xff], []. split; [vm_compute; reflexivity|].
  cbn. discriminate.
Qed.
Lemma number_key_trailing_repaired :
  vc wl repaired (fun _ => None) [x03; x00; x00; x00; x00; x00; x00; x00; x00; xff] [] = Err E_KEY /\
  vc wl repaired (fun _ => None) [x03; x00; x00; x00; x00; x00; x00; x00; x00] [] = Ok tt.
Proof. split; vm_compute; reflexivity. Qed.
