(* Proofs/Dispatch.v : totality of the modelled entry points (C01), and refutations for the code as found. *)
From Shisui Require Import Base.Bytes Model.Framing Proofs.Framing Model.Dispatch.
From Coq Require Import ZifyBool ZifyN ZifyNat.

Lemma idx_ok {A} (l : list A) i : (i < length l)%nat -> exists a, idx l i = Ok a.
Proof.
  intros H. unfold idx. destruct (nth_error l i) eqn:E; [eexists; reflexivity|].
  apply nth_error_None in E. lia.
Qed.
Lemma idx_panic {A} (l : list A) i : (length l <= i)%nat -> idx l i = Panic.
Proof. intros H. unfold idx. apply nth_error_None in H. now rewrite H. Qed.
Lemma slice_ok {A} (l : list A) lo hi : (lo <= hi)%nat -> (hi <= length l)%nat -> exists s, slice l lo hi = Ok s /\ length s = (hi - lo)%nat.
Proof.
  intros H1 H2. unfold slice. replace (Nat.leb lo hi && Nat.leb hi (length l)) with true by lia.
  eexists; split; [reflexivity|]. rewrite firstn_length, skipn_length. lia.
Qed.
Lemma tail1_ok (b : bytes) : (1 <= length b)%nat -> exists t, tail1 b = Ok t /\ length t = (length b - 1)%nat.
Proof. intros H. apply slice_ok; lia. Qed.

Lemma bind_no_panic {A B} (r : res A) (f : A -> res B) :
  r <> Panic -> (forall a, r = Ok a -> f a <> Panic) -> bind r f <> Panic.
Proof. destruct r; simpl; intros H1 H2; [now apply H2|discriminate|congruence]. Qed.

Section DispatchProofs.
  Variable PING PONG FINDNODES NODES FINDCONTENT CONTENT OFFER ACCEPT : N.
  Variable SEL_CONNID SEL_RAW SEL_ENRS : N.
  Variable h_ping h_findnodes h_findcontent h_offer : bytes -> res reply.
  Variable p_pong p_nodes p_accept p_raw p_connid p_enrs : bytes -> res unit.

  Notation handle_talk_request := (handle_talk_request PING FINDNODES FINDCONTENT OFFER h_ping h_findnodes h_findcontent h_offer).
  Notation process_content := (process_content CONTENT SEL_CONNID SEL_RAW SEL_ENRS p_raw p_connid p_enrs).

  Theorem handle_talk_request_total :
    (forall b, h_ping b <> Panic) -> (forall b, h_findnodes b <> Panic) ->
    (forall b, h_findcontent b <> Panic) -> (forall b, h_offer b <> Panic) ->
    forall msg, handle_talk_request true msg <> Panic.
  Proof.
    clear p_pong p_nodes p_accept p_raw p_connid p_enrs PONG NODES CONTENT ACCEPT SEL_CONNID SEL_RAW SEL_ENRS.
    intros H1 H2 H3 H4 msg. unfold Dispatch.handle_talk_request. simpl andb.
    destruct (Nat.eqb (length msg) 0) eqn:E; [discriminate|].
    assert (L : (1 <= length msg)%nat) by lia.
    destruct (idx_ok msg 0 ltac:(lia)) as [c Ec]. rewrite Ec. cbn [bind].
    destruct (tail1_ok msg L) as [t [Et _]]. rewrite Et. cbn [bind].
    destruct (b2n c =? PING); [apply H1|]. destruct (b2n c =? FINDNODES); [apply H2|].
    destruct (b2n c =? FINDCONTENT); [apply H3|]. destruct (b2n c =? OFFER); [apply H4|discriminate].
  Qed.

  Theorem handle_talk_request_empty_refuted : handle_talk_request false [] = Panic.
  Proof. reflexivity. Qed.

  Theorem process_resp_total code k :
    (forall b, k b <> Panic) -> forall resp, process_resp code k resp <> Panic.
  Proof.
    clear p_pong p_nodes p_accept p_raw p_connid p_enrs h_ping h_findnodes h_findcontent h_offer.
    clear PING PONG FINDNODES NODES FINDCONTENT CONTENT OFFER ACCEPT SEL_CONNID SEL_RAW SEL_ENRS.
    intros Hk resp. unfold process_resp.
    destruct (Nat.eqb (length resp) 0) eqn:E; [discriminate|].
    destruct (idx_ok resp 0 ltac:(lia)) as [c Ec]. rewrite Ec. cbn [bind].
    destruct (negb (b2n c =? code)); [discriminate|].
    destruct (tail1_ok resp ltac:(lia)) as [t [Et _]]. rewrite Et. cbn [bind]. apply Hk.
  Qed.

  Theorem process_content_total :
    (forall b, p_raw b <> Panic) -> (forall b, p_connid b <> Panic) -> (forall b, p_enrs b <> Panic) ->
    forall resp, process_content true resp <> Panic.
  Proof.
    clear p_pong p_nodes p_accept h_ping h_findnodes h_findcontent h_offer PING PONG FINDNODES NODES FINDCONTENT OFFER ACCEPT.
    intros H1 H2 H3 resp. unfold Dispatch.process_content.
    destruct (Nat.eqb (length resp) 0) eqn:E; [discriminate|].
    destruct (idx_ok resp 0 ltac:(lia)) as [c Ec]. rewrite Ec. cbn [bind].
    destruct (negb (b2n c =? CONTENT)); [discriminate|]. simpl andb.
    destruct (Nat.ltb (length resp) 2) eqn:E2; [discriminate|].
    destruct (idx_ok resp 1 ltac:(lia)) as [s Es]. rewrite Es. cbn [bind].
    destruct (slice_ok resp 2 (length resp) ltac:(lia) ltac:(lia)) as [t [Et _]]. rewrite Et. cbn [bind].
    destruct (b2n s =? SEL_RAW); [apply H1|]. destruct (b2n s =? SEL_CONNID); [apply H2|].
    destruct (b2n s =? SEL_ENRS); [apply H3|discriminate].
  Qed.

  Theorem process_content_one_byte_refuted c : b2n c = CONTENT -> process_content false [c] = Panic.
  Proof.
    clear p_pong p_nodes p_accept h_ping h_findnodes h_findcontent h_offer PING PONG FINDNODES NODES FINDCONTENT OFFER ACCEPT.
    intros Hc. unfold Dispatch.process_content. simpl. rewrite Hc, N.eqb_refl. reflexivity.
  Qed.
End DispatchProofs.

Theorem handle_offered_contents_total nkeys payload : handle_offered_contents nkeys payload <> Panic.
Proof.
  unfold handle_offered_contents. pose proof (decode_contents_no_panic payload).
  destruct (decode_contents payload); [destruct (Nat.eqb _ _); discriminate|discriminate|congruence].
Qed.

(* the count check: nothing is enqueued unless the stream holds exactly one item per awaited key *)
Theorem handle_offered_contents_count nkeys payload cs :
  handle_offered_contents nkeys payload = Ok (Some cs) -> length cs = nkeys /\ decode_contents payload = Ok cs.
Proof.
  unfold handle_offered_contents. destruct (decode_contents payload) as [l| |]; try discriminate.
  destruct (Nat.eqb nkeys (length l)) eqn:E; [|discriminate]. intros H; inversion H; subst. split; [lia|reflexivity].
Qed.

Theorem key_dispatch_total k_sub types :
  (forall t body content, k_sub t body content <> Panic) ->
  forall key content, key_dispatch k_sub true types key content <> Panic.
Proof.
  intros Hk key content. unfold key_dispatch. simpl andb.
  destruct (Nat.eqb (length key) 0) eqn:E; [discriminate|].
  destruct (idx_ok key 0 ltac:(lia)) as [t Et]. rewrite Et. cbn [bind].
  destruct (existsb _ types); [|discriminate].
  destruct (tail1_ok key ltac:(lia)) as [b [Eb _]]. rewrite Eb. cbn [bind]. apply Hk.
Qed.

Theorem key_dispatch_empty_refuted k_sub types content : key_dispatch k_sub false types [] content = Panic.
Proof. reflexivity. Qed.

Theorem history_is_ephemeral_total oe key : history_is_ephemeral true oe key <> Panic.
Proof.
  unfold history_is_ephemeral. simpl andb. destruct (Nat.eqb (length key) 0) eqn:E; [discriminate|].
  destruct (idx_ok key 0 ltac:(lia)) as [t Et]. rewrite Et. discriminate.
Qed.
Theorem history_is_ephemeral_empty_refuted oe : history_is_ephemeral false oe [] = Panic.
Proof. reflexivity. Qed.

(* reverseCompare walks a from its last index down and reads b at the same index *)
Lemma reverse_compare_aux_total n a b : (n <= length a)%nat -> (n <= length b)%nat -> reverse_compare_aux n a b <> Panic.
Proof.
  induction n as [|i IH]; intros Ha Hb; simpl; [discriminate|].
  destruct (idx_ok a i ltac:(lia)) as [x Ex]. destruct (idx_ok b i ltac:(lia)) as [y Ey].
  rewrite Ex, Ey. cbn [bind]. destruct (b2n y <? b2n x); [discriminate|]. destruct (b2n x <? b2n y); [discriminate|].
  apply IH; lia.
Qed.
Theorem reverse_compare_total a b : (length a <= length b)%nat -> reverse_compare a b <> Panic.
Proof. intros H. apply reverse_compare_aux_total; lia. Qed.
Theorem reverse_compare_longer_panics a b : (length b < length a)%nat -> reverse_compare a b = Panic.
Proof.
  intros H. unfold reverse_compare. destruct (length a) as [|i] eqn:E; [lia|]. simpl.
  destruct (idx_ok a i ltac:(lia)) as [x Ex]. rewrite Ex. cbn [bind]. rewrite idx_panic by lia. reflexivity.
Qed.

Theorem beacon_get_summaries_total key stored : beacon_get_summaries true key stored <> Panic.
Proof.
  unfold beacon_get_summaries. destruct stored as [data|]; [|discriminate].
  destruct (Nat.leb 8 (length data) && Nat.eqb (length key) 9) eqn:E; [|discriminate].
  destruct (slice_ok data 0 8 ltac:(lia) ltac:(lia)) as [ep [Eep Lep]]. rewrite Eep. cbn [bind].
  destruct (tail1_ok key ltac:(lia)) as [kb [Ekb Lkb]]. rewrite Ekb. cbn [bind].
  apply bind_no_panic; [apply reverse_compare_total; lia|].
  intros c _. destruct (c =? -1)%Z; [discriminate|].
  destruct (slice_ok data 8 (length data) ltac:(lia) ltac:(lia)) as [s [Es _]]. rewrite Es. discriminate.
Qed.

Theorem beacon_put_summaries_total key content stored : beacon_put_summaries true key content stored <> Panic.
Proof.
  unfold beacon_put_summaries. simpl andb.
  destruct (Nat.eqb (length key) 9) eqn:E; simpl negb; cbv iota; [|discriminate].
  destruct (tail1_ok key ltac:(lia)) as [kb [Ekb Lkb]]. rewrite Ekb. cbn [bind].
  destruct stored as [data|]; [|discriminate].
  destruct (Nat.ltb (length data) 8) eqn:E8; [discriminate|].
  destruct (slice_ok data 0 8 ltac:(lia) ltac:(lia)) as [ep [Eep Lep]]. rewrite Eep. cbn [bind].
  apply bind_no_panic; [apply reverse_compare_total; lia|].
  intros c _. destruct (c =? 1)%Z; discriminate.
Qed.

(* with the guards, every record the adapter ever stores starts with a full 8-byte epoch *)
Definition record_ok (st : option bytes) : Prop := match st with Some d => (8 <= length d)%nat | None => True end.
Theorem beacon_put_summaries_record key content st st' :
  record_ok st -> beacon_put_summaries true key content st = Ok st' -> record_ok st'.
Proof.
  unfold beacon_put_summaries. simpl andb. intros Hst.
  destruct (Nat.eqb (length key) 9) eqn:E; simpl negb; cbv iota; [|discriminate].
  destruct (tail1_ok key ltac:(lia)) as [kb [Ekb Lkb]]. rewrite Ekb. cbn [bind].
  assert (Hnew : record_ok (Some (kb ++ content))) by (simpl; rewrite app_length; lia).
  destruct st as [data|]; [|intros H; inversion H; subst; exact Hnew].
  destruct (Nat.ltb (length data) 8) eqn:E8; [intros H; inversion H; subst; exact Hnew|].
  destruct (slice data 0 8) as [ep| |]; cbn [bind]; try discriminate.
  destruct (reverse_compare kb ep) as [c| |]; cbn [bind]; try discriminate.
  destruct (c =? 1)%Z; intros H; inversion H; subst; [exact Hnew|exact Hst].
Qed.

(* the code as found: a stored record and a FINDCONTENT key shorter than nine bytes *)
Theorem beacon_get_summaries_short_key_refuted :
  beacon_get_summaries false [x14] (Some [x01; x00; x00; x00; x00; x00; x00; x00; xaa]) = Panic.
Proof. vm_compute. reflexivity. Qed.
Theorem beacon_get_summaries_short_record_refuted :
  beacon_get_summaries false [x14; x01; x00; x00; x00; x00; x00; x00; x00] (Some [x01; x02]) = Panic.
Proof. vm_compute. reflexivity. Qed.
Theorem beacon_put_summaries_long_key_refuted :
  beacon_put_summaries false [x14; x01; x00; x00; x00; x00; x00; x00; x00; x09] [] (Some [x01; x00; x00; x00; x00; x00; x00; x00; xaa]) = Panic.
Proof. vm_compute. reflexivity. Qed.
