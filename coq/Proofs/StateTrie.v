(* Proofs/StateTrie.v : theorems about Model/StateTrie.v (C13). *)
From Shisui Require Import Base.Bytes Model.StateTrie.
From Coq Require Import ZifyBool ZifyN ZifyNat.

Local Arguments N.add : simpl never.
Local Arguments N.mul : simpl never.
Local Arguments N.div : simpl never.
Local Arguments N.modulo : simpl never.
Local Arguments N.leb : simpl never.
Local Arguments N.eqb : simpl never.
Local Arguments N.to_nat : simpl never.
Local Arguments Z.of_nat : simpl never.
Local Arguments Z.sub : simpl never.
Local Arguments Z.ltb : simpl never.
Local Arguments Z.eqb : simpl never.

(* ---------- an induction principle for the nested type ---------- *)
Section NodeInd.
  Variable P : node -> Prop.
  Hypothesis HFull : forall cs, Forall P cs -> P (Full cs).
  Hypothesis HShort : forall k v, P v -> P (Short k v).
  Hypothesis HHash : forall h, P (Hash h).
  Hypothesis HValue : forall v, P (Value v).
  Hypothesis HNil : P Nil.
  Fixpoint node_ind' (n : node) : P n :=
    match n with
    | Full cs => HFull cs ((fix go (l : list node) : Forall P l :=
                              match l with [] => Forall_nil P | c :: t => Forall_cons c (node_ind' c) (go t) end) cs)
    | Short k v => HShort k v (node_ind' v)
    | Hash h => HHash h
    | Value v => HValue v
    | Nil => HNil
    end.
End NodeInd.

(* ---------- small facts ---------- *)
Lemma byte_eqb_eq a b : byte_eqb a b = true <-> a = b.
Proof. unfold byte_eqb. split; [apply Byte.byte_dec_bl | intros ->; apply Byte.byte_dec_lb; reflexivity]. Qed.
Lemma byte_eqb_refl a : byte_eqb a a = true.
Proof. now apply byte_eqb_eq. Qed.
Lemma byte_eqb_neq a b : byte_eqb a b = false <-> a <> b.
Proof. split; intros H; [intros E; apply byte_eqb_eq in E; congruence | destruct (byte_eqb a b) eqn:E; [apply byte_eqb_eq in E; contradiction | reflexivity]]. Qed.
Lemma bytes_eqb_refl a : bytes_eqb a a = true.
Proof. now apply bytes_eqb_eq. Qed.
Lemma bytes_eqb_neq a b : bytes_eqb a b = false <-> a <> b.
Proof. split; intros H; [intros E; apply bytes_eqb_eq in E; congruence | destruct (bytes_eqb a b) eqn:E; [apply bytes_eqb_eq in E; contradiction | reflexivity]]. Qed.
Lemma bytes_dec (a b : bytes) : {a = b} + {a <> b}.
Proof. destruct (bytes_eqb a b) eqn:E; [left; now apply bytes_eqb_eq | right; now apply bytes_eqb_neq]. Qed.

Lemma idx_0_cons {A} (a : A) l : idx (a :: l) 0 = Ok a.
Proof. reflexivity. Qed.
Lemma slice_tail {A} (a : A) l : slice (a :: l) 1 (S (length l)) = Ok l.
Proof.
  unfold slice. cbn [length]. replace (Nat.leb 1 (S (length l))) with true by (symmetry; apply Nat.leb_le; lia).
  rewrite Nat.leb_refl. cbn [andb skipn]. replace (S (length l) - 1)%nat with (length l) by lia.
  now rewrite firstn_all.
Qed.

Lemma exists_last_or_nil {A} (l : list A) : l = [] \/ exists pre x, l = pre ++ [x].
Proof.
  destruct l as [|a l]; [now left|right].
  destruct (@exists_last A (a :: l)) as (pre & x & E); [discriminate|]. now exists pre, x.
Qed.

Lemma idxz_last {A} (pre : list A) (l : A) : idxz (pre ++ [l]) (zlen (pre ++ [l]) - 1) = Ok l.
Proof.
  unfold idxz, zlen. rewrite app_length. cbn [length].
  replace (Z.of_nat (length pre + 1) - 1 <? 0)%Z with false by lia.
  replace (Z.to_nat (Z.of_nat (length pre + 1) - 1)) with (length pre) by lia.
  unfold idx. rewrite nth_error_app2 by lia. now rewrite Nat.sub_diag.
Qed.
Lemma slicez_init {A} (pre : list A) (l : A) : slicez (pre ++ [l]) 0 (zlen (pre ++ [l]) - 1) = Ok pre.
Proof.
  unfold slicez, zlen. rewrite app_length. cbn [length].
  replace ((0 <? 0) || (Z.of_nat (length pre + 1) - 1 <? 0))%bool%Z with false by lia.
  replace (Z.to_nat (Z.of_nat (length pre + 1) - 1)) with (length pre) by lia.
  unfold slice. change (Z.to_nat 0) with 0%nat. cbn [Nat.leb skipn]. rewrite app_length. cbn [length].
  replace (Nat.leb (length pre) (length pre + 1)) with true by (symmetry; apply Nat.leb_le; lia).
  cbn [andb]. rewrite Nat.sub_0_r. rewrite firstn_app, Nat.sub_diag, firstn_all. cbn [firstn]. now rewrite app_nil_r.
Qed.

Lemma is_ext_key_snoc pre l : is_ext_key (pre ++ [l]) = negb (byte_eqb l x16).
Proof. unfold is_ext_key. now rewrite rev_app_distr. Qed.
Lemma is_ext_key_nil : is_ext_key [] = false.
Proof. reflexivity. Qed.

Lemma strip_prefix_some key : forall path r, strip_prefix key path = Some r -> path = key ++ r.
Proof.
  induction key as [|k key IH]; intros path r H; cbn [strip_prefix] in H.
  - now inversion H.
  - destruct path as [|p path]; [discriminate|]. destruct (byte_eqb p k) eqn:E; [|discriminate].
    apply byte_eqb_eq in E; subst. cbn [app]. f_equal. now apply IH.
Qed.
Lemma strip_prefix_app key r : strip_prefix key (key ++ r) = Some r.
Proof. induction key as [|k key IH]; cbn [strip_prefix app]; [reflexivity|]. now rewrite byte_eqb_refl. Qed.
Lemma strip_prefix_short key path : (length path < length key)%nat -> strip_prefix key path = None.
Proof.
  revert path; induction key as [|k key IH]; intros path H; cbn [length] in H; [lia|].
  cbn [strip_prefix]. destruct path as [|p path]; [reflexivity|]. cbn [length] in H.
  destruct (byte_eqb p k); [apply IH; lia | reflexivity].
Qed.

(* the extension loop, when the path is long enough: success iff the key is a prefix *)
Lemma ext_loop_spec key : forall pfx rest,
  (length key <= length rest)%nat ->
  ext_loop key (length pfx) (pfx ++ rest) =
  match strip_prefix key rest with Some _ => Ok tt | None => Err E_DIFF_EXT end.
Proof.
  induction key as [|k key IH]; intros pfx rest Hl; cbn [ext_loop strip_prefix]; [reflexivity|].
  destruct rest as [|p rest]; [cbn [length] in Hl; lia|].
  unfold idx. rewrite nth_error_app2 by lia. rewrite Nat.sub_diag. cbn [nth_error bind].
  destruct (byte_eqb p k); [|reflexivity].
  specialize (IH (pfx ++ [p]) rest). rewrite app_length in IH. cbn [length] in IH.
  replace (length pfx + 1)%nat with (S (length pfx)) in IH by lia.
  rewrite <- app_assoc in IH. cbn [app] in IH. apply IH. cbn [length] in Hl. lia.
Qed.

Lemma slice_drop {A} (k r : list A) : slice (k ++ r) (length k) (length (k ++ r)) = Ok r.
Proof.
  unfold slice. rewrite app_length.
  replace (Nat.leb (length k) (length k + length r)) with true by (symmetry; apply Nat.leb_le; lia).
  rewrite Nat.leb_refl. cbn [andb]. rewrite skipn_app, Nat.sub_diag, skipn_all. cbn [skipn app].
  replace (length k + length r - length k)%nat with (length r) by lia. now rewrite firstn_all.
Qed.

(* ---------- unfolding equations of the traversal ---------- *)
Lemma pick_eq {A} (F : node -> A) (d : A) cs : forall k,
  (fix pick (l : list node) (k : nat) {struct l} : A :=
     match l with [] => d | c :: t => match k with O => F c | S k' => pick t k' end end) cs k
  = match nth_error cs k with Some c => F c | None => d end.
Proof. induction cs as [|c cs IH]; intros [|k]; cbn; auto. Qed.

Lemma tk_full_nil cs : traverse_kind (Full cs) [] = Err E_EMPTY_PATH.
Proof. reflexivity. Qed.
Lemma tk_full_cons cs i p :
  traverse_kind (Full cs) (i :: p) =
  match nth_error cs (N.to_nat (b2n i)) with Some c => traverse_kind c p | None => Panic end.
Proof.
  cbn [traverse_kind]. cbn [length Nat.eqb]. rewrite idx_0_cons. cbn [bind].
  rewrite slice_tail. cbn [bind]. apply (pick_eq (fun c => traverse_kind c p)).
Qed.
Lemma tk_short_nil v path : traverse_kind (Short [] v) path = Err E_EMPTY_EXT.
Proof. reflexivity. Qed.
Lemma tk_short_snoc pre l v path :
  traverse_kind (Short (pre ++ [l]) v) path =
  if byte_eqb l x16 then
    if Nat.eqb (length pre) 0 then Err E_EMPTY_LEAF_KEY
    else if negb (bytes_eqb pre path) then Err E_DIFF_LEAF
    else match v with Value x => Ok (x, path, true) | _ => Panic end
  else if (length path <? length (pre ++ [l]))%nat then Err E_DIFF_EXT
  else match strip_prefix (pre ++ [l]) path with
       | Some r => traverse_kind v r
       | None => Err E_DIFF_EXT
       end.
Proof.
  cbn [traverse_kind].
  assert (Hz : (zlen (pre ++ [l]) =? 0)%Z = false).
  { unfold zlen. rewrite app_length. cbn [length]. lia. }
  rewrite Hz, idxz_last, slicez_init. cbn [bind].
  destruct (byte_eqb l x16); [reflexivity|].
  destruct (length path <? length (pre ++ [l]))%nat eqn:El.
  - replace (zlen path <? zlen (pre ++ [l]))%Z with true by (unfold zlen; lia). reflexivity.
  - replace (zlen path <? zlen (pre ++ [l]))%Z with false by (unfold zlen; lia).
    pose proof (ext_loop_spec (pre ++ [l]) [] path ltac:(lia)) as E. cbn [length app] in E. rewrite E.
    destruct (strip_prefix (pre ++ [l]) path) as [r|] eqn:Es; [|reflexivity].
    cbn [bind]. apply strip_prefix_some in Es. subst path. rewrite slice_drop. reflexivity.
Qed.

Lemma ref_full_cons cs i p :
  ref_along (Full cs) (i :: p) = match nth_error cs (N.to_nat (b2n i)) with Some c => ref_along c p | None => None end.
Proof. cbn [ref_along]. apply (pick_eq (fun c => ref_along c p)). Qed.
Lemma leaf_full_cons cs i p :
  leaf_along (Full cs) (i :: p) = match nth_error cs (N.to_nat (b2n i)) with Some c => leaf_along c p | None => None end.
Proof. cbn [leaf_along]. apply (pick_eq (fun c => leaf_along c p)). Qed.

(* ---------- the repaired traversal computes exactly the specification ---------- *)
Definition tk_agrees (n : node) (path : bytes) : Prop :=
  match traverse_kind n path with
  | Ok (r, rest, false) => ref_along n path = Some (r, rest) /\ leaf_along n path = None
  | Ok (r, rest, true) => leaf_along n path = Some r /\ ref_along n path = None
  | Err _ => ref_along n path = None /\ leaf_along n path = None
  | Panic => ref_along n path = None /\ leaf_along n path = None
  end.

Lemma tk_spec n : forall path, tk_agrees n path.
Proof.
  induction n as [cs IH|key v IH|h|x|] using node_ind'; intros path; unfold tk_agrees.
  - destruct path as [|i p]; [rewrite tk_full_nil; now split|].
    rewrite tk_full_cons, ref_full_cons, leaf_full_cons.
    destruct (nth_error cs (N.to_nat (b2n i))) as [c|] eqn:Ec; [|now split].
    apply nth_error_In in Ec. rewrite Forall_forall in IH. exact (IH c Ec p).
  - destruct (exists_last_or_nil key) as [->|(pre & l & ->)].
    + rewrite tk_short_nil. cbn [ref_along leaf_along]. rewrite is_ext_key_nil.
      destruct v; split; try reflexivity.
      destruct (negb (Nat.eqb (length path) 0)); cbn [andb]; [|reflexivity].
      destruct path; reflexivity.
    + rewrite tk_short_snoc. cbn [ref_along leaf_along]. rewrite is_ext_key_snoc.
      destruct (byte_eqb l x16) eqn:El; cbn [negb].
      * apply byte_eqb_eq in El. subst l.
        destruct (Nat.eqb (length pre) 0) eqn:Ep.
        { apply Nat.eqb_eq in Ep. destruct pre; [|discriminate]. cbn [app].
          split; [reflexivity|]. destruct v; try reflexivity.
          destruct (negb (Nat.eqb (length path) 0)) eqn:En; cbn [andb]; [|reflexivity].
          destruct path as [|a path]; [discriminate|]. cbn [app bytes_eqb].
          destruct path; cbn [app bytes_eqb]; now rewrite andb_false_r. }
        destruct (bytes_eqb pre path) eqn:Epp; cbn [negb].
        { apply bytes_eqb_eq in Epp. subst path.
          destruct v; try (split; reflexivity).
          rewrite Ep. cbn [negb andb]. rewrite bytes_eqb_refl. now split. }
        { split; [reflexivity|]. destruct v; try reflexivity.
          replace (bytes_eqb (pre ++ [x16]) (path ++ [x16])) with false; [now rewrite andb_false_r|].
          symmetry. apply bytes_eqb_neq. intros E. apply app_inj_tail in E as [E _]. apply bytes_eqb_neq in Epp. contradiction. }
      * destruct (length path <? length (pre ++ [l]))%nat eqn:Elen.
        { rewrite strip_prefix_short by lia. now split. }
        destruct (strip_prefix (pre ++ [l]) path) as [r|]; [exact (IH r) | now split].
  - cbn. now split.
  - cbn. now split.
  - cbn. now split.
Qed.

Lemma step_fixed_iff n p h r : step_fixed n p = Ok (h, r) <-> ref_along n p = Some (h, r).
Proof.
  unfold step_fixed. pose proof (tk_spec n p) as H. unfold tk_agrees in H.
  destruct (traverse_kind n p) as [[[r0 rest0] [|]]|e|]; cbn [bind]; destruct H as [H1 H2].
  - rewrite H2. split; discriminate.
  - rewrite H1. split; intros E; inversion E; reflexivity.
  - rewrite H1. split; discriminate.
  - rewrite H1. split; discriminate.
Qed.

Lemma final_fixed_iff n p v : final_fixed n p = Ok v <-> leaf_along n p = Some v.
Proof.
  unfold final_fixed. pose proof (tk_spec n p) as H. unfold tk_agrees in H.
  destruct (traverse_kind n p) as [[[r0 rest0] [|]]|e|]; cbn [bind]; destruct H as [H1 H2].
  - rewrite H1. split; intros E; inversion E; reflexivity.
  - rewrite H2. split; discriminate.
  - rewrite H2. split; discriminate.
  - rewrite H2. split; discriminate.
Qed.

(* a reference / a leaf is found by consuming a prefix of the path *)
Lemma ref_along_suffix n : forall p h r, ref_along n p = Some (h, r) -> exists q, p = q ++ r.
Proof.
  induction n as [cs IH|key v IH|h0|x|] using node_ind'; intros p h r H.
  - destruct p as [|i p]; [discriminate|]. rewrite ref_full_cons in H.
    destruct (nth_error cs (N.to_nat (b2n i))) as [c|] eqn:Ec; [|discriminate].
    apply nth_error_In in Ec. rewrite Forall_forall in IH. destruct (IH c Ec p h r H) as [q ->].
    now exists (i :: q).
  - cbn [ref_along] in H. destruct (is_ext_key key); [|discriminate].
    destruct (strip_prefix key p) as [p1|] eqn:Es; [|discriminate].
    apply strip_prefix_some in Es. subst p. destruct (IH p1 h r H) as [q ->].
    exists (key ++ q). now rewrite app_assoc.
  - cbn in H. inversion H; subst. now exists [].
  - discriminate.
  - discriminate.
Qed.

(* ================================================================================================
   The property, as predicates over the proof (lists of encoded nodes), for arbitrary hash / decoder / account decoder /
   header source. *)
Section Spec.
  Variable node_hash : bytes -> bytes.
  Variable decode : bytes -> res node.
  Variable decode_account : bytes -> res (bytes * bytes).
  Variable header : bytes -> res bytes.

  (* cur, followed along path, references (by hash) the first node of rest, and so on; last is the final node and p'
     what is left of the path there *)
  Fixpoint linked (cur : bytes) (path : bytes) (rest : list bytes) (last : bytes) (p' : bytes) : Prop :=
    match rest with
    | [] => last = cur /\ p' = path
    | next :: rest' =>
        exists n h p1, decode cur = Ok n /\ ref_along n path = Some (h, p1) /\ node_hash next = h /\
                       linked next p1 rest' last p'
    end.

  (* the proof starts at root and is hash-linked along path *)
  Definition chain (root : bytes) (path : bytes) (proof : list bytes) (last p' : bytes) : Prop :=
    exists first tl, proof = first :: tl /\ node_hash first = root /\ linked first path tl last p'.

  (* a trie node item: chain from the root, path fully consumed, final node hashes to the key's hash *)
  Definition node_proof_ok (root key_hash path : bytes) (proof : list bytes) : Prop :=
    exists last, chain root path proof last [] /\ node_hash last = key_hash.

  (* an account: chain from the root along the address hash down to a leaf holding the account *)
  Definition account_ok (root addr_hash : bytes) (proof : list bytes) (acct : bytes * bytes) : Prop :=
    exists last p n v, chain root (unpack_nibbles addr_hash) proof last p /\ decode last = Ok n /\
                       leaf_along n p = Some v /\ decode_account v = Ok acct.

  Definition content_ok (r : request) : Prop :=
    match r with
    | RAccountNode path nh proof bh =>
        exists root, from_unpacked_nibbles path = Ok path /\ header bh = Ok root /\ node_proof_ok root nh path proof
    | RStorageNode addr path nh sproof aproof bh =>
        exists root sroot ch, from_unpacked_nibbles path = Ok path /\ header bh = Ok root /\
                              account_ok root addr aproof (sroot, ch) /\ node_proof_ok sroot nh path sproof
    | RBytecode addr ch code aproof bh =>
        exists root sroot, header bh = Ok root /\ account_ok root addr aproof (sroot, ch)
    end.

  Lemma check_node_hash_ok n h : check_node_hash node_hash n h = Ok tt <-> node_hash n = h.
  Proof. unfold check_node_hash. destruct (bytes_eqb (node_hash n) h) eqn:E; [apply bytes_eqb_eq in E|apply bytes_eqb_neq in E]; split; congruence. Qed.

  Lemma from_unpacked_ok path x : from_unpacked_nibbles path = Ok x -> x = path.
  Proof. unfold from_unpacked_nibbles. destruct (64 <? length path)%nat; [discriminate|]. destruct (forallb _ path); congruence. Qed.

  (* ---------- the repaired validator accepts exactly the chains ---------- *)
  Lemma vtp_loop_iff rest : forall cur path last p',
    vtp_loop node_hash decode step_fixed cur path rest = Ok (last, p') <-> linked cur path rest last p'.
  Proof.
    induction rest as [|next rest IH]; intros cur path last p'; cbn [vtp_loop linked].
    - split; [intros H; inversion H; auto | intros [-> ->]; reflexivity].
    - split.
      + intros H. destruct (decode cur) as [n|e|]; cbn [bind] in H; try discriminate.
        destruct (step_fixed n path) as [[h p1]|e|] eqn:Es; cbn [bind] in H; try discriminate.
        destruct (check_node_hash node_hash next h) as [[]|e|] eqn:Ec; cbn [bind] in H; try discriminate.
        exists n, h, p1. repeat split; [now apply step_fixed_iff | now apply check_node_hash_ok | now apply IH].
      + intros (n & h & p1 & Hd & Hr & Hh & Hl). rewrite Hd. cbn [bind].
        apply step_fixed_iff in Hr. rewrite Hr. cbn [bind].
        apply check_node_hash_ok in Hh. rewrite Hh. cbn [bind]. now apply IH.
  Qed.

  Lemma validate_trie_proof_iff root path proof last p' :
    validate_trie_proof node_hash decode root path proof = Ok (last, p') <-> chain root path proof last p'.
  Proof.
    unfold validate_trie_proof, validate_trie_proof_gen, chain. destruct proof as [|first tl].
    - split; [discriminate | intros (f & t & E & _); discriminate].
    - split.
      + intros H. destruct (check_node_hash node_hash first root) as [[]|e|] eqn:Ec; cbn [bind] in H; try discriminate.
        exists first, tl. repeat split; [now apply check_node_hash_ok | now apply vtp_loop_iff].
      + intros (f & t & E & Hh & Hl). inversion E; subst f t.
        apply check_node_hash_ok in Hh. rewrite Hh. cbn [bind]. now apply vtp_loop_iff.
  Qed.

  Lemma validate_node_iff root kh path proof :
    validate_node_trie_proof node_hash decode root kh path proof = Ok tt <-> node_proof_ok root kh path proof.
  Proof.
    unfold validate_node_trie_proof, validate_node_trie_proof_gen, node_proof_ok.
    fold (validate_trie_proof node_hash decode root path proof). split.
    - intros H. destruct (validate_trie_proof node_hash decode root path proof) as [[last p]|e|] eqn:Ev; cbn [bind] in H; try discriminate.
      destruct (Nat.eqb (length p) 0) eqn:El; cbn [negb] in H; [|discriminate].
      apply Nat.eqb_eq in El. destruct p; [|discriminate].
      exists last. split; [now apply validate_trie_proof_iff | now apply check_node_hash_ok].
    - intros (last & Hc & Hh). apply validate_trie_proof_iff in Hc. rewrite Hc. cbn [bind length Nat.eqb negb].
      now apply check_node_hash_ok.
  Qed.

  Lemma validate_account_iff root addr proof acct :
    validate_account_state node_hash decode decode_account root addr proof = Ok acct <-> account_ok root addr proof acct.
  Proof.
    unfold validate_account_state, validate_account_state_gen, account_ok.
    fold (validate_trie_proof node_hash decode root (unpack_nibbles addr) proof). split.
    - intros H. destruct (validate_trie_proof node_hash decode root (unpack_nibbles addr) proof) as [[last p]|e|] eqn:Ev; cbn [bind] in H; try discriminate.
      destruct (decode last) as [n|e|] eqn:Ed; cbn [bind] in H; try discriminate.
      destruct (final_fixed n p) as [v|e|] eqn:Ef; cbn [bind] in H; try discriminate.
      exists last, p, n, v. repeat split; [now apply validate_trie_proof_iff | assumption | now apply final_fixed_iff | assumption].
    - intros (last & p & n & v & Hc & Hd & Hl & Ha). apply validate_trie_proof_iff in Hc. rewrite Hc. cbn [bind].
      rewrite Hd. cbn [bind]. apply final_fixed_iff in Hl. rewrite Hl. cbn [bind]. assumption.
  Qed.

  Lemma validate_content_iff r :
    validate_content node_hash decode decode_account header r = Ok tt <-> content_ok r.
  Proof.
    unfold validate_content. destruct r as [path nh proof bh|addr path nh sproof aproof bh|addr ch code aproof bh];
      cbn [validate_content_gen content_ok].
    - fold (validate_node_trie_proof node_hash decode). split.
      + intros H. destruct (from_unpacked_nibbles path) as [x|e|] eqn:En; cbn [bind] in H; try discriminate.
        pose proof (from_unpacked_ok _ _ En); subst x.
        destruct (header bh) as [root|e|] eqn:Eh; cbn [bind] in H; try discriminate.
        exists root. repeat split; auto. now apply validate_node_iff.
      + intros (root & Hn & Hh & Hp). rewrite Hn, Hh. cbn [bind]. now apply validate_node_iff.
    - fold (validate_node_trie_proof node_hash decode). fold (validate_account_state node_hash decode decode_account). split.
      + intros H. destruct (from_unpacked_nibbles path) as [x|e|] eqn:En; cbn [bind] in H; try discriminate.
        pose proof (from_unpacked_ok _ _ En); subst x.
        destruct (header bh) as [root|e|] eqn:Eh; cbn [bind] in H; try discriminate.
        destruct (validate_account_state node_hash decode decode_account root addr aproof) as [[sroot c]|e|] eqn:Ea; cbn [bind] in H; try discriminate.
        exists root, sroot, c. repeat split; auto; [now apply validate_account_iff | now apply validate_node_iff].
      + intros (root & sroot & c & Hn & Hh & Ha & Hp). rewrite Hn, Hh. cbn [bind].
        apply validate_account_iff in Ha. rewrite Ha. cbn [bind]. now apply validate_node_iff.
    - fold (validate_account_state node_hash decode decode_account). split.
      + intros H. destruct (header bh) as [root|e|] eqn:Eh; cbn [bind] in H; try discriminate.
        destruct (validate_account_state node_hash decode decode_account root addr aproof) as [[sroot c]|e|] eqn:Ea; cbn [bind] in H; try discriminate.
        destruct (bytes_eqb c ch) eqn:Ec; cbn [negb] in H; [|discriminate].
        apply bytes_eqb_eq in Ec. subst c. exists root, sroot. split; auto. now apply validate_account_iff.
      + intros (root & sroot & Hh & Ha). rewrite Hh. cbn [bind].
        apply validate_account_iff in Ha. rewrite Ha. cbn [bind]. now rewrite bytes_eqb_refl.
  Qed.

  (* ---------- the monitors' verdict functions reflect the same predicates ---------- *)
  Lemma walk_iff rest : forall cur path last p',
    walk node_hash decode cur path rest = Some (last, p') <-> linked cur path rest last p'.
  Proof.
    induction rest as [|next rest IH]; intros cur path last p'; cbn [walk linked].
    - split; [intros H; inversion H; auto | intros [-> ->]; reflexivity].
    - split.
      + intros H. destruct (decode cur) as [n|e|]; try discriminate.
        destruct (ref_along n path) as [[h p1]|] eqn:Er; try discriminate.
        destruct (bytes_eqb (node_hash next) h) eqn:Eh; try discriminate.
        apply bytes_eqb_eq in Eh. exists n, h, p1. repeat split; auto. now apply IH.
      + intros (n & h & p1 & Hd & Hr & Hh & Hl). rewrite Hd, Hr. subst h. rewrite bytes_eqb_refl. now apply IH.
  Qed.

  Lemma chain_verdict_iff root path proof last p' :
    chain_verdict node_hash decode root path proof = (V_OK, Some (last, p')) <-> chain root path proof last p'.
  Proof.
    unfold chain_verdict, chain. destruct proof as [|first tl].
    - split; [discriminate | intros (f & t & E & _); discriminate].
    - destruct (bytes_eqb (node_hash first) root) eqn:Eh; cbn [negb].
      + apply bytes_eqb_eq in Eh. split.
        * intros H. destruct (walk node_hash decode first path tl) as [[l q]|] eqn:Ew; [|discriminate].
          inversion H; subst l q. exists first, tl. repeat split; auto. now apply walk_iff.
        * intros (f & t & E & _ & Hl). inversion E; subst f t. apply walk_iff in Hl. now rewrite Hl.
      + apply bytes_eqb_neq in Eh. split; [discriminate|].
        intros (f & t & E & Hh & _). inversion E; subst f t. contradiction.
  Qed.

  Lemma chain_verdict_some root path proof v lp :
    chain_verdict node_hash decode root path proof = (v, Some lp) -> v = V_OK.
  Proof.
    unfold chain_verdict. destruct proof as [|first tl]; [discriminate|].
    destruct (negb (bytes_eqb (node_hash first) root)); [discriminate|].
    destruct (walk node_hash decode first path tl); intros H; inversion H; reflexivity.
  Qed.

  Lemma node_verdict_iff root kh path proof :
    node_verdict node_hash decode root kh path proof = V_OK <-> node_proof_ok root kh path proof.
  Proof.
    unfold node_verdict, node_proof_ok.
    destruct (chain_verdict node_hash decode root path proof) as [v [[last p]|]] eqn:Ec.
    - pose proof (chain_verdict_some _ _ _ _ _ Ec); subst v. apply chain_verdict_iff in Ec. split.
      + intros H. destruct (Nat.eqb (length p) 0) eqn:El; cbn [negb] in H; [|discriminate].
        apply Nat.eqb_eq in El. destruct p; [|discriminate].
        destruct (bytes_eqb (node_hash last) kh) eqn:Eh; cbn [negb] in H; [|discriminate].
        apply bytes_eqb_eq in Eh. now exists last.
      + intros (l & Hc & Hh).
        assert (E : Some (l, @nil byte) = Some (last, p)).
        { apply chain_verdict_iff in Hc. apply chain_verdict_iff in Ec. rewrite Hc in Ec. now inversion Ec. }
        inversion E; subst l p. cbn [length Nat.eqb negb]. rewrite Hh, bytes_eqb_refl. reflexivity.
    - split.
      + intros ->. exfalso. unfold chain_verdict in Ec. destruct proof as [|f t]; [discriminate|].
        destruct (negb (bytes_eqb (node_hash f) root)); [discriminate|].
        destruct (walk node_hash decode f path t); discriminate.
      + intros (l & Hc & _). apply chain_verdict_iff in Hc. rewrite Hc in Ec. discriminate.
  Qed.

  Lemma account_verdict_iff root addr proof acct :
    account_verdict node_hash decode decode_account root addr proof = (V_OK, Some acct) <-> account_ok root addr proof acct.
  Proof.
    unfold account_verdict, account_ok.
    destruct (chain_verdict node_hash decode root (unpack_nibbles addr) proof) as [v [[last p]|]] eqn:Ec.
    - pose proof (chain_verdict_some _ _ _ _ _ Ec); subst v. apply chain_verdict_iff in Ec. split.
      + intros H. destruct (decode last) as [n|e|] eqn:Ed; try discriminate.
        destruct (leaf_along n p) as [x|] eqn:El; try discriminate.
        destruct (decode_account x) as [a|e|] eqn:Ea; try discriminate.
        inversion H; subst a. now exists last, p, n, x.
      + intros (l & q & n & x & Hc & Hd & Hl & Ha).
        assert (E : Some (l, q) = Some (last, p)).
        { apply chain_verdict_iff in Hc. apply chain_verdict_iff in Ec. rewrite Hc in Ec. now inversion Ec. }
        inversion E; subst l q. now rewrite Hd, Hl, Ha.
    - split; [discriminate|].
      intros (l & q & n & x & Hc & _). apply chain_verdict_iff in Hc. rewrite Hc in Ec. discriminate.
  Qed.

  Lemma account_verdict_some root addr proof v a :
    account_verdict node_hash decode decode_account root addr proof = (v, Some a) -> v = V_OK.
  Proof.
    unfold account_verdict. destruct (chain_verdict node_hash decode root (unpack_nibbles addr) proof) as [v0 [[last p]|]]; [|discriminate].
    destruct (decode last); try discriminate. destruct (leaf_along a0 p); try discriminate.
    destruct (decode_account b); intros H; inversion H; reflexivity.
  Qed.

  Lemma content_verdict_iff r :
    snd (content_verdict node_hash decode decode_account header r) = V_OK <-> content_ok r.
  Proof.
    destruct r as [path nh proof bh|addr path nh sproof aproof bh|addr ch code aproof bh]; cbn [content_verdict content_ok].
    - destruct (from_unpacked_nibbles path) as [x|e|] eqn:En.
      + pose proof (from_unpacked_ok _ _ En); subst x.
        destruct (header bh) as [root|e|] eqn:Eh; cbn [snd].
        * split; [intros H; exists root; repeat split; auto; now apply node_verdict_iff|].
          intros (root' & _ & Hh & Hp). inversion Hh; subst root'. now apply node_verdict_iff.
        * split; [discriminate | intros (root' & _ & Hh & _); discriminate].
        * split; [discriminate | intros (root' & _ & Hh & _); discriminate].
      + cbn [snd]. split; [discriminate | intros (root' & Hn & _); discriminate].
      + cbn [snd]. split; [discriminate | intros (root' & Hn & _); discriminate].
    - destruct (from_unpacked_nibbles path) as [x|e|] eqn:En.
      + pose proof (from_unpacked_ok _ _ En); subst x.
        destruct (header bh) as [root|e|] eqn:Eh; cbn [snd].
        * destruct (account_verdict node_hash decode decode_account root addr aproof) as [v [[sroot c]|]] eqn:Ea; cbn [snd].
          { pose proof (account_verdict_some _ _ _ _ _ Ea); subst v. split.
            - intros H. exists root, sroot, c. repeat split; auto; [now apply account_verdict_iff | now apply node_verdict_iff].
            - intros (root' & sroot' & c' & _ & Hh & Ha & Hp). inversion Hh; subst root'.
              apply account_verdict_iff in Ha. rewrite Ha in Ea. inversion Ea; subst sroot' c'. now apply node_verdict_iff. }
          { split.
            - intros ->. exfalso. revert Ea. unfold account_verdict.
              destruct (chain_verdict node_hash decode root (unpack_nibbles addr) aproof) as [v0 [[last p]|]] eqn:Ec.
              + destruct (decode last); try discriminate. destruct (leaf_along a p); try discriminate. destruct (decode_account b); discriminate.
              + intros H; inversion H; subst v0. unfold chain_verdict in Ec. destruct aproof as [|f t]; [discriminate|].
                destruct (negb (bytes_eqb (node_hash f) root)); [discriminate|].
                destruct (walk node_hash decode f (unpack_nibbles addr) t); discriminate.
            - intros (root' & sroot' & c' & _ & Hh & Ha & _). inversion Hh; subst root'.
              apply account_verdict_iff in Ha. rewrite Ha in Ea. discriminate. }
        * split; [discriminate | intros (root' & s' & c' & _ & Hh & _); discriminate].
        * split; [discriminate | intros (root' & s' & c' & _ & Hh & _); discriminate].
      + cbn [snd]. split; [discriminate | intros (root' & s' & c' & Hn & _); discriminate].
      + cbn [snd]. split; [discriminate | intros (root' & s' & c' & Hn & _); discriminate].
    - destruct (header bh) as [root|e|] eqn:Eh; cbn [snd].
      + destruct (account_verdict node_hash decode decode_account root addr aproof) as [v [[sroot c]|]] eqn:Ea; cbn [snd].
        { pose proof (account_verdict_some _ _ _ _ _ Ea); subst v. split.
          - intros H. destruct (bytes_eqb c ch) eqn:Ec; [|discriminate]. apply bytes_eqb_eq in Ec; subst c.
            exists root, sroot. split; auto. now apply account_verdict_iff.
          - intros (root' & sroot' & Hh & Ha). inversion Hh; subst root'.
            apply account_verdict_iff in Ha. rewrite Ha in Ea. inversion Ea; subst. now rewrite bytes_eqb_refl. }
        { split.
          - intros ->. exfalso. revert Ea. unfold account_verdict.
            destruct (chain_verdict node_hash decode root (unpack_nibbles addr) aproof) as [v0 [[last p]|]] eqn:Ec.
            + destruct (decode last); try discriminate. destruct (leaf_along a p); try discriminate. destruct (decode_account b); discriminate.
            + intros H; inversion H; subst v0. unfold chain_verdict in Ec. destruct aproof as [|f t]; [discriminate|].
              destruct (negb (bytes_eqb (node_hash f) root)); [discriminate|].
              destruct (walk node_hash decode f (unpack_nibbles addr) t); discriminate.
          - intros (root' & sroot' & Hh & Ha). inversion Hh; subst root'.
            apply account_verdict_iff in Ha. rewrite Ha in Ea. discriminate. }
      + split; [discriminate | intros (root' & s' & Hh & _); discriminate].
      + split; [discriminate | intros (root' & s' & Hh & _); discriminate].
  Qed.

  (* the monitor's test "implementation accepted but the verdict is not OK" is the negation of the theorem's predicate *)
  Corollary validate_content_verdict r :
    validate_content node_hash decode decode_account header r = Ok tt <->
    snd (content_verdict node_hash decode decode_account header r) = V_OK.
  Proof. rewrite validate_content_iff, content_verdict_iff. reflexivity. Qed.
End Spec.

(* ================================================================================================
   Totality: the repaired validator never panics (on nodes of the shape the decoder produces). *)
Definition nibs (p : bytes) : Prop := Forall (fun x => b2n x <= 15) p.

Lemma wf_all_forallb cs :
  (fix all (l : list node) : bool := match l with [] => true | c :: t => wf_node c && all t end) cs = forallb wf_node cs.
Proof. induction cs as [|c cs IH]; cbn; [reflexivity|]. now rewrite IH. Qed.

Lemma wf_full cs : wf_node (Full cs) = true -> length cs = 17%nat /\ forall c, In c cs -> wf_node c = true.
Proof.
  cbn [wf_node]. rewrite wf_all_forallb. intros H. apply andb_true_iff in H as [H1 H2].
  apply Nat.eqb_eq in H1. split; [assumption|]. now apply forallb_forall.
Qed.

Lemma tk_no_panic n : wf_node n = true -> forall p, nibs p -> traverse_kind n p <> Panic.
Proof.
  induction n as [cs IH|key v IH|h|x|] using node_ind'; intros Hwf p Hp.
  - destruct p as [|i p]; [rewrite tk_full_nil; discriminate|]. rewrite tk_full_cons.
    apply wf_full in Hwf as [Hlen Hall]. inversion Hp as [|? ? Hi Hp']; subst.
    destruct (nth_error cs (N.to_nat (b2n i))) as [c|] eqn:Ec.
    + pose proof (nth_error_In _ _ Ec) as Hin. rewrite Forall_forall in IH. apply (IH c Hin); auto.
    + apply nth_error_None in Ec. lia.
  - destruct (exists_last_or_nil key) as [->|(pre & l & ->)]; [rewrite tk_short_nil; discriminate|].
    rewrite tk_short_snoc. cbn [wf_node] in Hwf. apply andb_true_iff in Hwf as [Hv Hk].
    rewrite is_ext_key_snoc in Hk.
    destruct (byte_eqb l x16) eqn:El; cbn [negb] in Hk.
    + destruct (Nat.eqb (length pre) 0); [discriminate|].
      destruct (negb (bytes_eqb pre p)); [discriminate|].
      destruct (pre ++ [l]) eqn:Epl; [destruct pre; discriminate|].
      destruct v; try discriminate.
    + destruct (length p <? length (pre ++ [l]))%nat; [discriminate|].
      destruct (strip_prefix (pre ++ [l]) p) as [r|] eqn:Es; [|discriminate].
      apply strip_prefix_some in Es. subst p. apply Forall_app in Hp as [_ Hr]. now apply IH.
  - cbn. discriminate.
  - cbn. discriminate.
  - cbn. discriminate.
Qed.

Lemma unpack_pair_nibs b : b2n (fst (unpack_pair b)) <= 15 /\ b2n (snd (unpack_pair b)) <= 15.
Proof.
  unfold unpack_pair. cbn [fst snd]. pose proof (b2n_lt b).
  assert (b2n b / 16 < 16) by (apply N.div_lt_upper_bound; lia).
  assert (b2n b mod 16 < 16) by (apply N.mod_lt; lia).
  rewrite !b2n_n2b_small by lia. lia.
Qed.
Lemma unpack_nibbles_nibs l : nibs (unpack_nibbles l).
Proof.
  induction l as [|b l IH]; cbn [unpack_nibbles]; [constructor|].
  pose proof (unpack_pair_nibs b) as [H1 H2]. destruct (unpack_pair b) as [hi lo]. cbn [fst snd] in *.
  repeat constructor; assumption.
Qed.
Lemma from_unpacked_nibs path x : from_unpacked_nibbles path = Ok x -> nibs path.
Proof.
  unfold from_unpacked_nibbles. destruct (64 <? length path)%nat; [discriminate|].
  destruct (forallb (fun x => b2n x <=? 15) path) eqn:E; [|discriminate]. intros _.
  apply Forall_forall. intros y Hy. rewrite forallb_forall in E. specialize (E y Hy). lia.
Qed.

Section Total.
  Variable node_hash : bytes -> bytes.
  Variable decode : bytes -> res node.
  Variable decode_account : bytes -> res (bytes * bytes).
  Variable header : bytes -> res bytes.
  (* the library functions are outside the model: what is assumed of them is that they return (a value or an error) and
     that the node decoder returns nodes of its own shape; the driver checks wf_node on every node the real decoder produced *)
  Hypothesis decode_wf : forall b n, decode b = Ok n -> wf_node n = true.
  Hypothesis decode_returns : forall b, decode b <> Panic.
  Hypothesis decode_account_returns : forall b, decode_account b <> Panic.
  Hypothesis header_returns : forall b, header b <> Panic.

  Lemma check_node_hash_no_panic n h : check_node_hash node_hash n h <> Panic.
  Proof. unfold check_node_hash. destruct (bytes_eqb (node_hash n) h); discriminate. Qed.

  Lemma step_fixed_no_panic n p : wf_node n = true -> nibs p -> step_fixed n p <> Panic.
  Proof.
    intros Hw Hp. unfold step_fixed. pose proof (tk_no_panic n Hw p Hp).
    destruct (traverse_kind n p) as [[[r rest] [|]]|e|]; cbn [bind]; congruence.
  Qed.
  Lemma final_fixed_no_panic n p : wf_node n = true -> nibs p -> final_fixed n p <> Panic.
  Proof.
    intros Hw Hp. unfold final_fixed. pose proof (tk_no_panic n Hw p Hp).
    destruct (traverse_kind n p) as [[[r rest] [|]]|e|]; cbn [bind]; congruence.
  Qed.

  Lemma vtp_loop_total rest : forall cur path, nibs path ->
    match vtp_loop node_hash decode step_fixed cur path rest with
    | Ok (_, p') => nibs p'
    | Err _ => True
    | Panic => False
    end.
  Proof.
    induction rest as [|next rest IH]; intros cur path Hp; cbn [vtp_loop]; [assumption|].
    destruct (decode cur) as [n|e|] eqn:Ed; cbn [bind]; [|exact I|exact (decode_returns _ Ed)].
    pose proof (step_fixed_no_panic n path (decode_wf _ _ Ed) Hp) as Hs.
    destruct (step_fixed n path) as [[h p1]|e|] eqn:Es; cbn [bind]; [|exact I|congruence].
    apply step_fixed_iff in Es. apply ref_along_suffix in Es as [q ->]. apply Forall_app in Hp as [_ Hp1].
    pose proof (check_node_hash_no_panic next h).
    destruct (check_node_hash node_hash next h) as [[]|e|]; cbn [bind]; [|exact I|congruence].
    now apply IH.
  Qed.

  Lemma validate_trie_proof_total root path proof : nibs path ->
    match validate_trie_proof node_hash decode root path proof with
    | Ok (_, p') => nibs p'
    | Err _ => True
    | Panic => False
    end.
  Proof.
    intros Hp. unfold validate_trie_proof, validate_trie_proof_gen. destruct proof as [|first tl]; [exact I|].
    pose proof (check_node_hash_no_panic first root).
    destruct (check_node_hash node_hash first root) as [[]|e|]; cbn [bind]; [|exact I|congruence].
    now apply vtp_loop_total.
  Qed.

  Lemma validate_node_no_panic root kh path proof : nibs path ->
    validate_node_trie_proof node_hash decode root kh path proof <> Panic.
  Proof.
    intros Hp. unfold validate_node_trie_proof, validate_node_trie_proof_gen.
    fold (validate_trie_proof node_hash decode root path proof).
    pose proof (validate_trie_proof_total root path proof Hp) as H.
    destruct (validate_trie_proof node_hash decode root path proof) as [[last p]|e|]; cbn [bind]; [|discriminate|contradiction].
    destruct (negb (Nat.eqb (length p) 0)); [discriminate|]. apply check_node_hash_no_panic.
  Qed.

  Lemma validate_account_no_panic root addr proof :
    validate_account_state node_hash decode decode_account root addr proof <> Panic.
  Proof.
    unfold validate_account_state, validate_account_state_gen.
    fold (validate_trie_proof node_hash decode root (unpack_nibbles addr) proof).
    pose proof (validate_trie_proof_total root (unpack_nibbles addr) proof (unpack_nibbles_nibs addr)) as H.
    destruct (validate_trie_proof node_hash decode root (unpack_nibbles addr) proof) as [[last p]|e|]; cbn [bind]; [|discriminate|contradiction].
    destruct (decode last) as [n|e|] eqn:Ed; cbn [bind]; [|discriminate|destruct (decode_returns _ Ed)].
    pose proof (final_fixed_no_panic n p (decode_wf _ _ Ed) H).
    destruct (final_fixed n p) as [v|e|]; cbn [bind]; [|discriminate|congruence].
    apply decode_account_returns.
  Qed.

  Theorem validate_content_no_panic r : validate_content node_hash decode decode_account header r <> Panic.
  Proof.
    unfold validate_content.
    destruct r as [path nh proof bh|addr path nh sproof aproof bh|addr ch code aproof bh]; cbn [validate_content_gen].
    - fold (validate_node_trie_proof node_hash decode).
      destruct (from_unpacked_nibbles path) as [x|e|] eqn:En; cbn [bind]; [|discriminate|].
      + apply from_unpacked_nibs in En.
        destruct (header bh) as [root|e|] eqn:Eh; cbn [bind]; [|discriminate|destruct (header_returns _ Eh)].
        now apply validate_node_no_panic.
      + unfold from_unpacked_nibbles in En. destruct (64 <? length path)%nat; [discriminate|]. destruct (forallb _ path); discriminate.
    - fold (validate_node_trie_proof node_hash decode). fold (validate_account_state node_hash decode decode_account).
      destruct (from_unpacked_nibbles path) as [x|e|] eqn:En; cbn [bind]; [|discriminate|].
      + apply from_unpacked_nibs in En.
        destruct (header bh) as [root|e|] eqn:Eh; cbn [bind]; [|discriminate|destruct (header_returns _ Eh)].
        pose proof (validate_account_no_panic root addr aproof).
        destruct (validate_account_state node_hash decode decode_account root addr aproof) as [[sroot c]|e|]; cbn [bind]; [|discriminate|congruence].
        now apply validate_node_no_panic.
      + unfold from_unpacked_nibbles in En. destruct (64 <? length path)%nat; [discriminate|]. destruct (forallb _ path); discriminate.
    - fold (validate_account_state node_hash decode decode_account).
      destruct (header bh) as [root|e|] eqn:Eh; cbn [bind]; [|discriminate|destruct (header_returns _ Eh)].
      pose proof (validate_account_no_panic root addr aproof).
      destruct (validate_account_state node_hash decode decode_account root addr aproof) as [[sroot c]|e|]; cbn [bind]; [|discriminate|congruence].
      destruct (negb (bytes_eqb c ch)); discriminate.
  Qed.

  (* rejected = a returned error, never a crash *)
  Corollary rejected_is_error r : ~ content_ok node_hash decode decode_account header r ->
    exists e, validate_content node_hash decode decode_account header r = Err e.
  Proof.
    intros Hn. pose proof (validate_content_no_panic r) as Hp.
    destruct (validate_content node_hash decode decode_account header r) as [[]|e|] eqn:E; [|now exists e|congruence].
    apply validate_content_iff in E. contradiction.
  Qed.
End Total.

(* ================================================================================================
   Storage.Put: what is stored. *)
Section Put.
  Variable node_hash : bytes -> bytes.
  Variable decode : bytes -> res node.
  Variable decode_account : bytes -> res (bytes * bytes).
  Variable header : bytes -> res bytes.

  Lemma put_last_spec proof kh s :
    put_last node_hash proof kh = Ok s ->
    exists pre l, proof = pre ++ [l] /\ node_hash l = kh /\ s = ssz_single_bytelist l.
  Proof.
    unfold put_last. destruct (exists_last_or_nil proof) as [->|(pre & l & ->)]; [discriminate|].
    rewrite idxz_last. cbn [bind]. destruct (bytes_eqb (node_hash l) kh) eqn:E; cbn [negb]; [|discriminate].
    apply bytes_eqb_eq in E. intros H; inversion H. now exists pre, l.
  Qed.

  (* whatever Put stores is the final node of the (storage) proof, or the code, and nothing else from the proof *)
  Lemma put_stores_final r s : put node_hash r = Ok s -> expected_stored r = Some s.
  Proof.
    destruct r as [path nh proof bh|addr path nh sproof aproof bh|addr ch code aproof bh]; cbn [put expected_stored].
    - destruct (from_unpacked_nibbles path); cbn [bind]; try discriminate. intros H.
      apply put_last_spec in H as (pre & l & -> & _ & ->). now rewrite rev_app_distr.
    - destruct (from_unpacked_nibbles path); cbn [bind]; try discriminate. intros H.
      apply put_last_spec in H as (pre & l & -> & _ & ->). now rewrite rev_app_distr.
    - destruct (negb (bytes_eqb (node_hash code) ch)); [discriminate|]. intros H; now inversion H.
  Qed.

  Lemma put_hash_checked r s : put node_hash r = Ok s ->
    match r with
    | RAccountNode _ nh proof _ => exists pre l, proof = pre ++ [l] /\ node_hash l = nh
    | RStorageNode _ _ nh sproof _ _ => exists pre l, sproof = pre ++ [l] /\ node_hash l = nh
    | RBytecode _ ch code _ _ => node_hash code = ch
    end.
  Proof.
    destruct r as [path nh proof bh|addr path nh sproof aproof bh|addr ch code aproof bh]; cbn [put].
    - destruct (from_unpacked_nibbles path); cbn [bind]; try discriminate. intros H.
      apply put_last_spec in H as (pre & l & -> & Hh & _). now exists pre, l.
    - destruct (from_unpacked_nibbles path); cbn [bind]; try discriminate. intros H.
      apply put_last_spec in H as (pre & l & -> & Hh & _). now exists pre, l.
    - destruct (bytes_eqb (node_hash code) ch) eqn:E; cbn [negb]; [|discriminate]. intros _. now apply bytes_eqb_eq.
  Qed.

  Lemma linked_last rest : forall cur path last p',
    linked node_hash decode cur path rest last p' -> exists pre, cur :: rest = pre ++ [last].
  Proof.
    induction rest as [|next rest IH]; intros cur path last p' H; cbn [linked] in H.
    - destruct H as [-> _]. now exists [].
    - destruct H as (n & h & p1 & _ & _ & _ & Hl). destruct (IH _ _ _ _ Hl) as [pre E].
      exists (cur :: pre). cbn [app]. now rewrite E.
  Qed.

  Lemma node_proof_put root kh path proof :
    node_proof_ok node_hash decode root kh path proof ->
    exists pre l, proof = pre ++ [l] /\ put_last node_hash proof kh = Ok (ssz_single_bytelist l).
  Proof.
    intros (last & (first & tl & -> & _ & Hl) & Hh). apply linked_last in Hl as [pre E].
    exists pre, last. split; [assumption|]. rewrite E. unfold put_last. rewrite idxz_last. cbn [bind].
    rewrite Hh, bytes_eqb_refl. reflexivity.
  Qed.

  (* after the validator accepted: a trie node item is stored (its final node); a bytecode item is stored iff the code
     hashes to the key's code hash (this check is Put's, the validator only compared the account's code hash) *)
  Lemma put_after_accept r :
    validate_content node_hash decode decode_account header r = Ok tt ->
    match r with
    | RBytecode _ ch code _ _ =>
        if bytes_eqb (node_hash code) ch then put node_hash r = Ok (ssz_single_bytelist code)
        else put node_hash r = Err E_CODE_HASH
    | _ => exists s, put node_hash r = Ok s /\ expected_stored r = Some s
    end.
  Proof.
    intros H. apply validate_content_iff in H.
    destruct r as [path nh proof bh|addr path nh sproof aproof bh|addr ch code aproof bh]; cbn [content_ok] in H.
    - destruct H as (root & Hn & _ & Hp). apply node_proof_put in Hp as (pre & l & E & Hput).
      exists (ssz_single_bytelist l). cbn [put expected_stored]. rewrite Hn. cbn [bind]. split; [assumption|].
      rewrite E, rev_app_distr. reflexivity.
    - destruct H as (root & sroot & c & Hn & _ & _ & Hp). apply node_proof_put in Hp as (pre & l & E & Hput).
      exists (ssz_single_bytelist l). cbn [put expected_stored]. rewrite Hn. cbn [bind]. split; [assumption|].
      rewrite E, rev_app_distr. reflexivity.
    - cbn [put]. destruct (bytes_eqb (node_hash code) ch); reflexivity.
  Qed.
End Put.

(* ================================================================================================
   Uniqueness up to an explicit hash collision: for a given root and path the accepted proof is determined. *)
Section Unique.
  Variable node_hash : bytes -> bytes.
  Variable decode : bytes -> res node.
  Hypothesis decode_top : forall b n, decode b = Ok n -> is_top n = true.

  Definition collision : Prop := exists x y : bytes, x <> y /\ node_hash x = node_hash y.

  Lemma ref_along_top_nil n : is_top n = true -> ref_along n [] = None.
  Proof.
    destruct n as [cs|key v|h|x|]; cbn [is_top]; try discriminate; intros _; [reflexivity|].
    cbn [ref_along]. destruct (exists_last_or_nil key) as [->|(pre & l & ->)]; [reflexivity|].
    destruct (is_ext_key (pre ++ [l])); [|reflexivity].
    rewrite strip_prefix_short; [reflexivity|]. rewrite app_length. cbn [length]. lia.
  Qed.

  Lemma linked_unique rest1 : forall rest2 cur path l1 l2,
    linked node_hash decode cur path rest1 l1 [] -> linked node_hash decode cur path rest2 l2 [] ->
    rest1 = rest2 \/ collision.
  Proof.
    induction rest1 as [|n1 r1 IH]; intros [|n2 r2] cur path l1 l2 H1 H2; cbn [linked] in H1, H2.
    - now left.
    - destruct H1 as [_ E]. subst path. destruct H2 as (n & h & p1 & Hd & Hr & _).
      rewrite (ref_along_top_nil n (decode_top _ _ Hd)) in Hr. discriminate.
    - destruct H2 as [_ E]. subst path. destruct H1 as (n & h & p1 & Hd & Hr & _).
      rewrite (ref_along_top_nil n (decode_top _ _ Hd)) in Hr. discriminate.
    - destruct H1 as (n & h & p1 & Hd & Hr & Hh & Hl). destruct H2 as (n' & h' & p1' & Hd' & Hr' & Hh' & Hl').
      rewrite Hd in Hd'. inversion Hd'; subst n'. rewrite Hr in Hr'. inversion Hr'; subst h' p1'.
      destruct (bytes_dec n1 n2) as [->|Hne].
      + destruct (IH _ _ _ _ _ Hl Hl') as [->|C]; [now left | now right].
      + right. exists n1, n2. split; [assumption | congruence].
  Qed.

  Theorem node_proof_unique root path kh1 kh2 proof1 proof2 :
    node_proof_ok node_hash decode root kh1 path proof1 ->
    node_proof_ok node_hash decode root kh2 path proof2 ->
    (proof1 = proof2 /\ kh1 = kh2) \/ collision.
  Proof.
    intros (l1 & (f1 & t1 & -> & Hh1 & Hl1) & Hk1) (l2 & (f2 & t2 & -> & Hh2 & Hl2) & Hk2).
    destruct (bytes_dec f1 f2) as [->|Hne].
    - destruct (linked_unique _ _ _ _ _ _ Hl1 Hl2) as [->|C]; [|now right].
      left. split; [reflexivity|].
      destruct (linked_last _ _ _ _ _ _ _ Hl1) as [pre1 E1]. destruct (linked_last _ _ _ _ _ _ _ Hl2) as [pre2 E2].
      rewrite E1 in E2. apply app_inj_tail in E2 as [_ ->]. congruence.
    - right. exists f1, f2. split; [assumption | congruence].
  Qed.

  (* surplus nodes: a proof that extends an accepted one is not accepted (or exhibits a collision) *)
  Corollary surplus_rejected root path kh kh' proof extra more :
    node_proof_ok node_hash decode root kh path proof ->
    node_proof_ok node_hash decode root kh' path (proof ++ extra :: more) -> collision.
  Proof.
    intros H1 H2. destruct (node_proof_unique _ _ _ _ _ _ H1 H2) as [[E _]|C]; [|assumption].
    exfalso. apply (f_equal (@length bytes)) in E. rewrite app_length in E. cbn [length] in E. lia.
  Qed.

End Unique.

Section Links.
  Variable node_hash : bytes -> bytes.
  Variable decode : bytes -> res node.

  (* every adjacent pair of an accepted proof is a (node, referenced child) pair *)
  Lemma linked_adjacent rest : forall cur path last p' pre a b post,
    linked node_hash decode cur path rest last p' -> cur :: rest = pre ++ a :: b :: post ->
    exists n q h q', decode a = Ok n /\ ref_along n q = Some (h, q') /\ node_hash b = h.
  Proof.
    induction rest as [|next rest IH]; intros cur path last p' pre a b post H E.
    - exfalso. apply (f_equal (@length bytes)) in E. rewrite app_length in E. cbn [length] in E. lia.
    - cbn [linked] in H. destruct H as (n & h & p1 & Hd & Hr & Hh & Hl).
      destruct pre as [|x pre]; cbn [app] in E; inversion E; subst.
      + now exists n, path, (node_hash b), p1.
      + eapply IH; eauto.
  Qed.

  (* the path is consumed exactly: the same proof is not accepted for a longer (or shorter) path *)
  Lemma ref_along_app n : forall p h r e, ref_along n p = Some (h, r) -> ref_along n (p ++ e) = Some (h, r ++ e).
  Proof.
    induction n as [cs IH|key v IH|h0|x|] using node_ind'; intros p h r e H.
    - destruct p as [|i p]; [discriminate|]. cbn [app]. rewrite ref_full_cons in *.
      destruct (nth_error cs (N.to_nat (b2n i))) as [c|] eqn:Ec; [|discriminate].
      apply nth_error_In in Ec. rewrite Forall_forall in IH. now apply IH.
    - cbn [ref_along] in *. destruct (is_ext_key key); [|discriminate].
      destruct (strip_prefix key p) as [p1|] eqn:Es; [|discriminate].
      apply strip_prefix_some in Es. subst p. rewrite <- app_assoc, strip_prefix_app. now apply IH.
    - cbn in *. inversion H; subst. reflexivity.
    - discriminate.
    - discriminate.
  Qed.

  Lemma linked_app rest : forall cur path last p' e,
    linked node_hash decode cur path rest last p' -> linked node_hash decode cur (path ++ e) rest last (p' ++ e).
  Proof.
    induction rest as [|next rest IH]; intros cur path last p' e H; cbn [linked] in *.
    - destruct H as [-> ->]. now split.
    - destruct H as (n & h & p1 & Hd & Hr & Hh & Hl). exists n, h, (p1 ++ e). repeat split; auto.
      now apply ref_along_app.
  Qed.

  Lemma linked_fun rest : forall cur path l1 q1 l2 q2,
    linked node_hash decode cur path rest l1 q1 -> linked node_hash decode cur path rest l2 q2 -> l1 = l2 /\ q1 = q2.
  Proof.
    induction rest as [|next rest IH]; intros cur path l1 q1 l2 q2 H1 H2; cbn [linked] in *.
    - destruct H1 as [-> ->], H2 as [-> ->]. now split.
    - destruct H1 as (n & h & p1 & Hd & Hr & Hh & Hl). destruct H2 as (n' & h' & p1' & Hd' & Hr' & Hh' & Hl').
      rewrite Hd in Hd'. inversion Hd'; subst n'. rewrite Hr in Hr'. inversion Hr'; subst h' p1'. eapply IH; eauto.
  Qed.

  Theorem wrong_path_length_rejected root kh kh' path e proof :
    node_proof_ok node_hash decode root kh path proof ->
    node_proof_ok node_hash decode root kh' (path ++ e) proof -> e = [].
  Proof.
    intros (l1 & (f1 & t1 & -> & _ & Hl1) & _) (l2 & (f2 & t2 & E & _ & Hl2) & _). inversion E; subst f2 t2.
    apply (linked_app _ _ _ _ _ e) in Hl1. cbn [app] in Hl1.
    destruct (linked_fun _ _ _ _ _ _ _ Hl1 Hl2) as [_ ->]. reflexivity.
  Qed.
End Links.

(* ================================================================================================
   The code BEFORE the fixes (traverse_orig): what was wrong, as closed facts. *)
Example traverse_orig_panics_on_empty_short_key :
  traverse_orig (Short [] (Hash [x01])) [x01; x02] = Panic.
Proof. reflexivity. Qed.

Example traverse_orig_panics_on_key_longer_than_path :
  traverse_orig (Short [x01; x02; x03; x04] (Hash [x01])) [x01; x02] = Panic.
Proof. reflexivity. Qed.

(* a 3-node "proof" whose first node is a LEAF whose value is the hash of the second node: accepted by the model of the
   old code, although the first node does not reference the second one (toy hash = identity, toy decoder by cases) *)
Definition toy_decode (b : bytes) : res node :=
  match b with
  | [x01] => Ok (Short [x07; x10] (Value [x02]))
  | [x02] => Ok (Short [x07] (Hash [x03]))
  | [x03] => Ok (Short [x09; x10] (Value [xff]))
  | _ => Err 20
  end.

Lemma orig_accepts_proof_through_leaf :
  exists (node_hash : bytes -> bytes) (decode : bytes -> res node) root kh path proof,
    validate_node_trie_proof_orig node_hash decode root kh path proof = Ok tt /\
    ~ node_proof_ok node_hash decode root kh path proof.
Proof.
  exists (fun b => b), toy_decode, [x01], [x03], [x07], [[x01]; [x02]; [x03]]. split; [reflexivity|].
  intros H. apply node_verdict_iff in H. vm_compute in H. discriminate.
Qed.

Lemma orig_validator_panics :
  exists (node_hash : bytes -> bytes) (decode : bytes -> res node) root kh path proof,
    (forall b n, decode b = Ok n -> wf_node n = true) /\ nibs path /\
    validate_node_trie_proof_orig node_hash decode root kh path proof = Panic.
Proof.
  exists (fun b => b), toy_decode, [x02], [x03], [], [[x02]; [x03]]. repeat split; [|constructor].
  intros b n H. unfold toy_decode in H.
  repeat (match type of H with match ?x with _ => _ end = _ => destruct x; try discriminate end);
    inversion H; reflexivity.
Qed.

(* the same inputs on the repaired code *)
Example fixed_rejects_proof_through_leaf :
  validate_node_trie_proof (fun b => b) toy_decode [x01] [x03] [x07] [[x01]; [x02]; [x03]] = Err E_VALUE_IN_PROOF.
Proof. reflexivity. Qed.
Example fixed_no_panic_on_short_path :
  validate_node_trie_proof (fun b => b) toy_decode [x02] [x03] [] [[x02]; [x03]] = Err E_DIFF_EXT.
Proof. reflexivity. Qed.

(* ---------- Nibbles.Deserialize: at most 64 nibbles, each below 16 ---------- *)
Lemma nibbles_deserialize_range b p : nibbles_deserialize b = Ok p -> nibs p /\ (length p <= 64)%nat.
Proof.
  assert (F : forall l x, from_unpacked_nibbles l = Ok x -> nibs x /\ (length x <= 64)%nat).
  { intros l x H. pose proof (from_unpacked_nibs _ _ H) as Hn. unfold from_unpacked_nibbles in H.
    destruct (64 <? length l)%nat eqn:E; [discriminate|]. destruct (forallb _ l); [|discriminate].
    inversion H; subst x. split; [assumption|]. apply Nat.ltb_ge in E. exact E. }
  unfold nibbles_deserialize. destruct b as [|first packed]; [discriminate|].
  destruct (unpack_pair first) as [flag lo].
  destruct (b2n flag =? 0).
  - destruct (negb (b2n lo =? 0)); [discriminate|]. apply F.
  - destruct (b2n flag =? 1); [apply F | discriminate].
Qed.

(* ---------- what "references along the path" means, case by case ---------- *)
Lemma ref_along_semantics :
  (forall h p, ref_along (Hash h) p = Some (h, p)) /\
  (forall cs, ref_along (Full cs) [] = None) /\
  (forall cs i p, ref_along (Full cs) (i :: p) =
                  match nth_error cs (N.to_nat (b2n i)) with Some c => ref_along c p | None => None end) /\
  (forall pre l v r, l <> x16 -> ref_along (Short (pre ++ [l]) v) ((pre ++ [l]) ++ r) = ref_along v r) /\
  (forall pre l v p, l <> x16 -> (forall r, p <> (pre ++ [l]) ++ r) -> ref_along (Short (pre ++ [l]) v) p = None) /\
  (forall pre v p, ref_along (Short (pre ++ [x16]) v) p = None) /\     (* a leaf references nothing, whatever its value *)
  (forall v p, ref_along (Short [] v) p = None) /\
  (forall v p, ref_along (Value v) p = None) /\
  (forall p, ref_along Nil p = None).
Proof.
  repeat split; try reflexivity.
  - intros cs i p. apply ref_full_cons.
  - intros pre l v r Hl. cbn [ref_along]. rewrite is_ext_key_snoc.
    apply byte_eqb_neq in Hl. rewrite Hl. cbn [negb]. now rewrite strip_prefix_app.
  - intros pre l v p Hl Hp. cbn [ref_along]. rewrite is_ext_key_snoc.
    apply byte_eqb_neq in Hl. rewrite Hl. cbn [negb].
    destruct (strip_prefix (pre ++ [l]) p) as [r|] eqn:Es; [|reflexivity].
    apply strip_prefix_some in Es. exfalso. exact (Hp r Es).
  - intros pre v p. cbn [ref_along]. rewrite is_ext_key_snoc, byte_eqb_refl. reflexivity.
Qed.

(* ---------- the proven account is unique per (root, address hash), or a collision is exhibited ---------- *)
Lemma leaf_excludes_ref n p v : leaf_along n p = Some v -> ref_along n p = None.
Proof.
  intros H. pose proof (tk_spec n p) as T. unfold tk_agrees in T.
  destruct (traverse_kind n p) as [[[r rest] [|]]|e|]; destruct T as [T1 T2]; congruence.
Qed.

Section AccountUnique.
  Variable node_hash : bytes -> bytes.
  Variable decode : bytes -> res node.
  Variable decode_account : bytes -> res (bytes * bytes).

  Lemma linked_leaf_unique rest1 : forall rest2 cur path l1 q1 n1 v1 l2 q2 n2 v2,
    linked node_hash decode cur path rest1 l1 q1 -> decode l1 = Ok n1 -> leaf_along n1 q1 = Some v1 ->
    linked node_hash decode cur path rest2 l2 q2 -> decode l2 = Ok n2 -> leaf_along n2 q2 = Some v2 ->
    (rest1 = rest2 /\ v1 = v2) \/ collision node_hash.
  Proof.
    induction rest1 as [|a r1 IH]; intros [|b r2] cur path l1 q1 n1 v1 l2 q2 n2 v2 H1 D1 L1 H2 D2 L2; cbn [linked] in H1, H2.
    - destruct H1 as [-> ->], H2 as [-> ->]. rewrite D1 in D2. inversion D2; subst n2. rewrite L1 in L2. inversion L2. now left.
    - destruct H1 as [-> ->]. destruct H2 as (n & h & p1 & Hd & Hr & _). rewrite D1 in Hd. inversion Hd; subst n.
      rewrite (leaf_excludes_ref _ _ _ L1) in Hr. discriminate.
    - destruct H2 as [-> ->]. destruct H1 as (n & h & p1 & Hd & Hr & _). rewrite D2 in Hd. inversion Hd; subst n.
      rewrite (leaf_excludes_ref _ _ _ L2) in Hr. discriminate.
    - destruct H1 as (n & h & p1 & Hd & Hr & Hh & Hl). destruct H2 as (n' & h' & p1' & Hd' & Hr' & Hh' & Hl').
      rewrite Hd in Hd'. inversion Hd'; subst n'. rewrite Hr in Hr'. inversion Hr'; subst h' p1'.
      destruct (bytes_dec a b) as [->|Hne].
      + destruct (IH _ _ _ _ _ _ _ _ _ _ _ Hl D1 L1 Hl' D2 L2) as [[-> ->]|C]; [now left | now right].
      + right. exists a, b. split; [assumption | congruence].
  Qed.

  Theorem account_unique root addr proof1 proof2 acct1 acct2 :
    account_ok node_hash decode decode_account root addr proof1 acct1 ->
    account_ok node_hash decode decode_account root addr proof2 acct2 ->
    (proof1 = proof2 /\ acct1 = acct2) \/ collision node_hash.
  Proof.
    intros (l1 & q1 & n1 & v1 & (f1 & t1 & -> & Hh1 & Hl1) & D1 & L1 & A1)
           (l2 & q2 & n2 & v2 & (f2 & t2 & -> & Hh2 & Hl2) & D2 & L2 & A2).
    destruct (bytes_dec f1 f2) as [->|Hne].
    - destruct (linked_leaf_unique _ _ _ _ _ _ _ _ _ _ _ _ Hl1 D1 L1 Hl2 D2 L2) as [[-> ->]|C]; [|now right].
      left. split; [reflexivity|]. congruence.
    - right. exists f1, f2. split; [assumption | congruence].
  Qed.
End AccountUnique.

(* ================================================================================================
   Histories on one validator instance and one storage: every step's verdict is a function of that step's inputs only,
   so the accept-iff theorems hold at every step of every history, for every sequence of header-source answers
   (failures and wrong headers included). *)
Section HistoryProofs.
  Variable node_hash : bytes -> bytes.
  Variable decode : bytes -> res node.
  Variable decode_account : bytes -> res (bytes * bytes).

  Let verdict_of (ev : event) : res unit :=
    validate_content node_hash decode decode_account (ev_header ev) (ev_req ev).

  Lemma item_step_verdict st ev :
    fst (snd (item_step node_hash decode decode_account st ev)) = verdict_of ev.
  Proof.
    destruct st as [vs s]. unfold item_step, validate_step, verdict_of.
    destruct (validate_content node_hash decode decode_account (ev_header ev) (ev_req ev)) as [u|e|]; [|reflexivity|reflexivity].
    destruct (put node_hash (ev_req ev)); reflexivity.
  Qed.

  Lemma run_history_verdicts evs : forall st,
    map fst (snd (run_history node_hash decode decode_account st evs)) = map verdict_of evs.
  Proof.
    induction evs as [|ev rest IH]; intros st; cbn [run_history]; [reflexivity|].
    pose proof (item_step_verdict st ev) as Hv.
    destruct (item_step node_hash decode decode_account st ev) as [st' o]. cbn [snd] in Hv.
    specialize (IH st'). destruct (run_history node_hash decode decode_account st' rest) as [st'' os].
    cbn [snd map] in *. now rewrite Hv, IH.
  Qed.

  (* the verdict of the step after any prefix of earlier steps is the verdict of that item alone *)
  Theorem history_step_independent pre ev post st :
    nth_error (map fst (snd (run_history node_hash decode decode_account st (pre ++ ev :: post)))) (length pre)
    = Some (verdict_of ev).
  Proof.
    rewrite run_history_verdicts, map_app. rewrite nth_error_app2 by (rewrite map_length; lia).
    rewrite map_length, Nat.sub_diag. reflexivity.
  Qed.

  Theorem history_accept_iff evs : forall st,
    Forall2 (fun ev o => fst o = Ok tt <-> content_ok node_hash decode decode_account (ev_header ev) (ev_req ev))
            evs (snd (run_history node_hash decode decode_account st evs)).
  Proof.
    induction evs as [|ev rest IH]; intros st; cbn [run_history]; [constructor|].
    pose proof (item_step_verdict st ev) as Hv.
    destruct (item_step node_hash decode decode_account st ev) as [st' o]. cbn [snd] in Hv.
    specialize (IH st'). destruct (run_history node_hash decode decode_account st' rest) as [st'' os].
    cbn [snd] in *. constructor; [|assumption]. rewrite Hv. unfold verdict_of. apply validate_content_iff.
  Qed.

  (* the storage only ever gains the final node / the code of an item the validator accepted in that very step *)
  Theorem history_store evs : forall vs s st' os,
    run_history node_hash decode decode_account (vs, s) evs = (st', os) ->
    forall id v, store_get (snd st') id = Some v ->
      store_get s id = Some v \/
      exists ev, In ev evs /\ ev_id ev = id /\
                 content_ok node_hash decode decode_account (ev_header ev) (ev_req ev) /\
                 put node_hash (ev_req ev) = Ok v /\ expected_stored (ev_req ev) = Some v.
  Proof.
    induction evs as [|ev rest IH]; intros vs s st' os H id v Hg; cbn [run_history] in H.
    - inversion H; subst. now left.
    - destruct (item_step node_hash decode decode_account (vs, s) ev) as [[vs1 s1] o] eqn:Ei.
      destruct (run_history node_hash decode decode_account (vs1, s1) rest) as [st'' os'] eqn:Er.
      inversion H; subst st'' os. clear H.
      destruct (IH _ _ _ _ Er id v Hg) as [Hs1|(ev' & Hin & Hrest)].
      + unfold item_step, validate_step in Ei.
        destruct (validate_content node_hash decode decode_account (ev_header ev) (ev_req ev)) as [[]|e|] eqn:Ev.
        * destruct (put node_hash (ev_req ev)) as [b|e|] eqn:Ep; inversion Ei; subst vs1 s1 o; try (now left).
          destruct (ev_store_ok ev); [|now left].
          unfold store_put in Hs1. cbn [store_get] in Hs1.
          destruct (bytes_eqb (ev_id ev) id) eqn:Eid; [|now left].
          apply bytes_eqb_eq in Eid. inversion Hs1; subst b. right. exists ev.
          repeat split; [now left | assumption | now apply validate_content_iff | assumption | now apply put_stores_final with (node_hash := node_hash)].
        * inversion Ei; subst. now left.
        * inversion Ei; subst. now left.
      + right. exists ev'. split; [now right | assumption].
  Qed.
End HistoryProofs.
