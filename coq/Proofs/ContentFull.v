(* Proofs/ContentFull.v : the composed content path of Model/ContentFull.v never panics, and what it hands to Put is bound
   to its key (C01, second half).  From C15 (Proofs/Framing.v through Proofs/Dispatch.v), C02 (Proofs/History.v) with its
   hypothesis discharged by C03 (Proofs/HeaderProof.v never_panics), C13 (Proofs/StateTrie.v), C14 (key decoders). *)
From Shisui Require Import Base.Bytes Base.Ssz Gen.K_header.
From Shisui Require Import Model.Framing Model.Dispatch Model.Wire Model.WireState Model.History Model.HeaderProof Model.StateTrie
     Model.ContentFull.
From Shisui Require Import Proofs.Framing Proofs.Dispatch Proofs.Wire Proofs.WireState Proofs.History Proofs.HeaderProof
     Proofs.StateTrie.
From Coq Require Import ZifyBool ZifyN ZifyNat.

Local Arguments N.add : simpl never.
Local Arguments N.mul : simpl never.
Local Arguments N.div : simpl never.
Local Arguments N.modulo : simpl never.
Local Arguments N.ltb : simpl never.
Local Arguments N.leb : simpl never.
Local Arguments N.eqb : simpl never.
Local Arguments N.to_nat : simpl never.
Local Arguments N.of_nat : simpl never.

(* ================================================================ the shared pieces *)
(* the stream decoder hands over exactly one item per awaited key, or nothing *)
Lemma with_offered_contents_cases {R} keys payload (k : list bytes -> R) (fail : res unit -> R) :
  (exists contents, length contents = length keys /\ decode_contents payload = Ok contents /\
                    with_offered_contents keys payload k fail = k contents) \/
  (exists r, r <> Panic /\ with_offered_contents keys payload k fail = fail r).
Proof.
  unfold with_offered_contents. pose proof (handle_offered_contents_total (length keys) payload) as Hnp.
  destruct (Dispatch.handle_offered_contents (length keys) payload) as [[cs|]|e|] eqn:E.
  - left. exists cs. apply handle_offered_contents_count in E as [H1 H2]. auto.
  - right. exists (Err E_DROPPED). split; [discriminate|reflexivity].
  - right. exists (Err e). split; [discriminate|reflexivity].
  - congruence.
Qed.

Lemma tail1_cons (t : byte) (body : bytes) : tail1 (t :: body) = Ok body.
Proof.
  unfold tail1, slice. cbn [length skipn].
  replace (Nat.leb 1 (S (length body)) && Nat.leb (S (length body)) (S (length body)))%bool with true
    by (symmetry; apply andb_true_intro; split; apply Nat.leb_le; lia).
  replace (S (length body) - 1)%nat with (length body) by lia. now rewrite firstn_all.
Qed.

Lemma key_dispatch_t_total {A} (k : N -> bytes -> bytes -> res A) types :
  (forall t b c, k t b c <> Panic) -> forall key content, key_dispatch_t k true types key content <> Panic.
Proof.
  intros Hk key content. unfold key_dispatch_t. cbn [andb].
  destruct (Nat.eqb (length key) 0) eqn:E; [discriminate|].
  destruct (idx_ok key 0 ltac:(lia)) as [t Et]. rewrite Et. cbn [bind].
  destruct (existsb _ types); [|discriminate].
  destruct (tail1_ok key ltac:(lia)) as [b [Eb _]]. rewrite Eb. cbn [bind]. apply Hk.
Qed.

Lemma key_dispatch_t_inv {A} (k : N -> bytes -> bytes -> res A) g types key content a :
  key_dispatch_t k g types key content = Ok a ->
  exists t body, key = t :: body /\ In (b2n t) types /\ k (b2n t) body content = Ok a.
Proof.
  unfold key_dispatch_t. destruct (g && Nat.eqb (length key) 0); [discriminate|].
  destruct key as [|t body]; [discriminate|]. unfold idx. cbn [nth_error bind].
  destruct (existsb (N.eqb (b2n t)) types) eqn:Ex; [|discriminate].
  rewrite tail1_cons. cbn [bind].
  intros H. exists t, body. split; [reflexivity|]. split; [|exact H].
  apply existsb_exists in Ex as (x & Hin & Hx). apply N.eqb_eq in Hx. now subst.
Qed.

(* Dispatch.key_dispatch is key_dispatch_t at type unit *)
Lemma key_dispatch_is_t (k : N -> bytes -> bytes -> res unit) g types key content :
  Dispatch.key_dispatch k g types key content = key_dispatch_t k g types key content.
Proof. reflexivity. Qed.

Section LoopProofs.
  Variable St : Type.
  Variable validate : nat -> St -> bytes -> bytes -> res unit.
  Variable put : nat -> St -> bytes -> bytes -> res St.

  (* contentKeys[i] stays in range because the stream held one item per key; Put runs only after the validator accepted *)
  Lemma offer_loop_total keys :
    (forall i s k c, validate i s k c <> Panic) ->
    (forall i s k c, validate i s k c = Ok tt -> put i s k c <> Panic) ->
    forall contents i s, (i + length contents <= length keys)%nat ->
    fst (offer_loop St validate put keys i contents s) <> Panic.
  Proof.
    intros Hv Hp. induction contents as [|c rest IH]; intros i s Hl; cbn [offer_loop]; [discriminate|].
    cbn [length] in Hl. destruct (idx_ok keys i ltac:(lia)) as [k ->].
    pose proof (Hv i s k c) as Hv1. destruct (validate i s k c) as [[]|e|] eqn:Ev; [|discriminate|congruence].
    pose proof (Hp i s k c Ev) as Hp1. destruct (put i s k c) as [s'|e|]; [|discriminate|congruence].
    apply IH. lia.
  Qed.

  Lemma offer_loop_inv (Inv : St -> Prop) keys :
    (forall i s k c s', validate i s k c = Ok tt -> put i s k c = Ok s' -> Inv s -> Inv s') ->
    forall contents i s, Inv s -> Inv (snd (offer_loop St validate put keys i contents s)).
  Proof.
    intros Hstep. induction contents as [|c rest IH]; intros i s Hs; cbn [offer_loop]; [exact Hs|].
    destruct (idx keys i) as [k|e|]; try exact Hs.
    destruct (validate i s k c) as [[]|e|] eqn:Ev; try exact Hs.
    destruct (put i s k c) as [s'|e|] eqn:Ep; try exact Hs.
    apply IH. eapply Hstep; eauto.
  Qed.
End LoopProofs.

(* ================================================================ HISTORY: C02 with its hypothesis discharged by C03 *)
Definition lib_of (B : hlib) (A : hacc) : lib :=
  mkLib (hl_body B) (hl_receipts B) (hl_hdr_hash B) (hl_dec_hwp B) (hl_dec_header B) (c03_proof_check B A)
        (hl_dec_body B) (hl_uncle_hash B) (hl_tx_root B) (hl_wd_root B) (hl_dec_receipts B) (hl_receipt_root B)
        (hl_empty_receipt_hash B).

Lemma history_validate_is_vc B A : history_validate B A = vc (lib_of B A) repaired.
Proof. reflexivity. Qed.
Lemma history_validate_contents_is_vcs B A : history_validate_contents B A = vcs (lib_of B A) repaired.
Proof. reflexivity. Qed.

(* C03's only hypotheses: the embedded pre-merge accumulator covers the pre-merge epochs, the oracle call itself returns *)
Definition hacc_ok (A : hacc) : Prop :=
  K_PreMergeEpochs <= nlen (ha_epochs A) /\ forall h p, ha_oracle A h p <> Some Panic.

Lemma c03_proof_check_total B A : hacc_ok A -> forall h p, l_proof_check (lib_of B A) h p <> Panic.
Proof. intros [He Ho] h p. cbn [l_proof_check lib_of]. unfold c03_proof_check. apply never_panics; [exact He|apply Ho]. Qed.

Theorem history_validate_total B A src key content : hacc_ok A -> history_validate B A src key content <> Panic.
Proof. intros H. rewrite history_validate_is_vc. apply no_panic; [reflexivity|reflexivity|now apply c03_proof_check_total]. Qed.

Theorem history_offered_total B A src keys payload s :
  hacc_ok A -> fst (fst (history_offered_contents B A src keys payload s)) <> Panic.
Proof.
  intros H. unfold history_offered_contents.
  destruct (with_offered_contents_cases keys payload
              (fun contents => history_validate_contents B A src keys contents s) (fun r => (r, s, []))) as
    [(cs & Hl & _ & ->)|(r & Hr & ->)]; [|exact Hr].
  rewrite history_validate_contents_is_vcs. apply offer_no_panic; [now apply c03_proof_check_total|now symmetry].
Qed.

(* a key the validator accepts never routes to the ephemeral store *)
Lemma genuine_route L key content : genuine L key content -> history_storage_route key = Ok false.
Proof.
  destruct key as [|s kh]; [intros []|]. cbn [genuine]. unfold history_storage_route, history_is_ephemeral, idx.
  cbn [andb length Nat.eqb nth_error bind]. intros H. f_equal.
  destruct (Byte.eqb s x00) eqn:E0; [apply Byte.byte_dec_bl in E0; subst; reflexivity|].
  destruct (Byte.eqb s x03) eqn:E3; [apply Byte.byte_dec_bl in E3; subst; reflexivity|].
  destruct (Byte.eqb s x01) eqn:E1; [apply Byte.byte_dec_bl in E1; subst; reflexivity|].
  destruct (Byte.eqb s x02) eqn:E2; [apply Byte.byte_dec_bl in E2; subst; reflexivity|]. destruct H.
Qed.

(* C02_offer_gates_put through the composition: whatever the stream holds, whatever the header source answers, only content
   bound to its key (with a header proof that C03's validator accepts) is Put, and it goes to the eternal store *)
Theorem history_offered_gates_put B A src keys payload s r s' puts :
  history_offered_contents B A src keys payload s = (r, s', puts) -> store_ok (lib_of B A) s ->
  store_ok (lib_of B A) s' /\ Forall (gp (lib_of B A)) puts /\
  Forall (fun p => history_storage_route (fst p) = Ok false) puts.
Proof.
  intros H Hs. unfold history_offered_contents in H.
  destruct (with_offered_contents_cases keys payload
              (fun contents => history_validate_contents B A src keys contents s) (fun r => (r, s, []))) as
    [(cs & _ & _ & E)|(r0 & _ & E)]; rewrite E in H.
  - rewrite history_validate_contents_is_vcs in H.
    destruct (vcs_sound (lib_of B A) repaired src keys cs s r s' puts eq_refl eq_refl eq_refl H Hs) as [H1 H2].
    split; [exact H1|]. split; [exact H2|]. eapply Forall_impl; [|exact H2]. intros [k c] G. exact (genuine_route (lib_of B A) k c G).
  - inversion H; subst. auto.
Qed.

(* looked-up content: the three getters *)
Theorem history_getters_total B A src lookup s hash :
  hacc_ok A ->
  fst (fst (history_get_header B A src lookup s hash)) <> Panic /\
  fst (fst (history_get_body B A src lookup s hash)) <> Panic /\
  fst (fst (history_get_receipts B A src lookup s hash)) <> Panic.
Proof.
  intros H. pose proof (c03_proof_check_total B A H) as Hp.
  split; [|split].
  - apply (getter_no_panic (lib_of B A) repaired x00 (hdr_of (lib_of B A)) src lookup s hash eq_refl eq_refl Hp).
  - apply (getter_no_panic (lib_of B A) repaired x01 (l_dec_body (lib_of B A)) src lookup s hash eq_refl eq_refl Hp).
  - apply (getter_no_panic (lib_of B A) repaired x02 (l_dec_receipts (lib_of B A)) src lookup s hash eq_refl eq_refl Hp).
Qed.

(* C02_getter_returns_bound through the composition, for the header getter (the other two are the same statement) *)
Theorem history_get_header_bound B A src lookup s hash r s' p :
  history_get_header B A src lookup s hash = (r, s', p) -> store_ok (lib_of B A) s ->
  store_ok (lib_of B A) s' /\ Forall (gp (lib_of B A)) p /\
  (forall h, r = Ok h -> exists c, genuine (lib_of B A) (x00 :: hash) c /\ hdr_of (lib_of B A) c = Some h).
Proof. intros H Hs. exact (getter_sound (lib_of B A) repaired x00 (hdr_of (lib_of B A)) src lookup s hash r s' p eq_refl eq_refl eq_refl H Hs). Qed.
Theorem history_get_body_bound B A src lookup s hash r s' p :
  history_get_body B A src lookup s hash = (r, s', p) -> store_ok (lib_of B A) s ->
  store_ok (lib_of B A) s' /\ Forall (gp (lib_of B A)) p /\
  (forall b, r = Ok b -> exists c, genuine (lib_of B A) (x01 :: hash) c /\ hl_dec_body B c = Some b).
Proof. intros H Hs. exact (getter_sound (lib_of B A) repaired x01 (l_dec_body (lib_of B A)) src lookup s hash r s' p eq_refl eq_refl eq_refl H Hs). Qed.
Theorem history_get_receipts_bound B A src lookup s hash r s' p :
  history_get_receipts B A src lookup s hash = (r, s', p) -> store_ok (lib_of B A) s ->
  store_ok (lib_of B A) s' /\ Forall (gp (lib_of B A)) p /\
  (forall x, r = Ok x -> exists c, genuine (lib_of B A) (x02 :: hash) c /\ hl_dec_receipts B c = Some x).
Proof. intros H Hs. exact (getter_sound (lib_of B A) repaired x02 (l_dec_receipts (lib_of B A)) src lookup s hash r s' p eq_refl eq_refl eq_refl H Hs). Qed.

(* what "genuine" means for a header key once the proof check is C03's: the accepted header passed validate_header_and_proof *)
Theorem history_header_accept_is_c03 B A src kh content :
  history_validate B A src (x00 :: kh) content = Ok tt ->
  exists hb proof h, hl_dec_hwp B content = Some (hb, proof) /\ hl_dec_header B hb = Some h /\ hl_hdr_hash B h = kh /\
    validate_header_and_proof (ha_H A) true (ha_epochs A) (ha_roots A) (ha_sums A h proof) (ha_oracle A h proof)
      (h_number h mod History.two64) kh proof = Ok tt.
Proof.
  rewrite history_validate_is_vc. intros H. apply header_by_hash_sound in H as (hb & proof & h & H1 & H2 & H3 & H4).
  exists hb, proof, h. cbn [lib_of l_dec_hwp l_dec_header l_hdr_hash l_proof_check] in *. unfold c03_proof_check in H4.
  rewrite H3 in H4. auto.
Qed.

(* ================================================================ STATE: C13 behind the key dispatch *)
(* the hypotheses of C13_total (the library functions return; the node decoder returns nodes of its own shape) and the same
   for the two SSZ Deserialize calls *)
Definition slib_ok (L : slib) : Prop :=
  (forall b n, sl_decode L b = Ok n -> wf_node n = true) /\
  (forall b, sl_decode L b <> Panic) /\ (forall b, sl_decode_account L b <> Panic) /\
  (forall i b, sl_header L i b <> Panic) /\ (forall t b c, sl_dec_item L t b c <> Panic).

Theorem state_validate_total L i key content : slib_ok L -> state_validate L i key content <> Panic.
Proof.
  intros (H1 & H2 & H3 & H4 & H5). unfold state_validate. apply key_dispatch_t_total. intros t b c.
  apply bind_no_panic; [apply H5|]. intros r _. apply validate_content_no_panic; auto.
Qed.

(* Put re-decodes the same pair and indexes proof[len(proof)-1]: fine after the validator accepted (the proof is not empty) *)
Lemma state_put_after_validate L i key content :
  state_validate L i key content = Ok tt ->
  exists t body r, key = t :: body /\ sl_dec_item L (b2n t) body content = Ok r /\
    content_ok (sl_node_hash L) (sl_decode L) (sl_decode_account L) (sl_header L i) r /\
    state_put_value L key content = StateTrie.put (sl_node_hash L) r /\ StateTrie.put (sl_node_hash L) r <> Panic.
Proof.
  intros H. unfold state_validate in H. apply key_dispatch_t_inv in H as (t & body & -> & Hin & H).
  destruct (sl_dec_item L (b2n t) body content) as [r| |] eqn:Ed; cbn [bind] in H; try discriminate.
  exists t, body, r. split; [reflexivity|]. split; [exact Ed|]. split; [now apply validate_content_iff|]. split.
  - unfold state_put_value, key_dispatch_t. cbn [andb length Nat.eqb]. unfold idx. cbn [nth_error bind].
    replace (existsb (N.eqb (b2n t)) state_types) with true by (symmetry; apply existsb_exists; exists (b2n t); split; [exact Hin|apply N.eqb_refl]).
    rewrite tail1_cons. cbn [bind]. now rewrite Ed.
  - pose proof (put_after_accept _ _ _ _ r H) as Hp. destruct r; try (destruct Hp as (x & -> & _); discriminate).
    destruct (bytes_eqb _ _); rewrite Hp; discriminate.
Qed.

Theorem state_validate_contents_total L keys contents s :
  slib_ok L -> length contents = length keys -> fst (state_validate_contents L keys contents s) <> Panic.
Proof.
  intros Hok Hl. unfold state_validate_contents. apply offer_loop_total.
  - intros i s0 k c. now apply state_validate_total.
  - intros i s0 k c Hv. destruct (state_put_after_validate L i k c Hv) as (t & body & r & _ & _ & _ & Hp & Hnp).
    unfold state_put. rewrite Hp. destruct (StateTrie.put (sl_node_hash L) r); cbn [bind]; [discriminate|discriminate|congruence].
  - cbn. lia.
Qed.

Theorem state_offered_total L keys payload s : slib_ok L -> fst (state_offered_contents L keys payload s) <> Panic.
Proof.
  intros Hok. unfold state_offered_contents.
  destruct (with_offered_contents_cases keys payload (fun contents => state_validate_contents L keys contents s) (fun r => (r, s))) as
    [(cs & Hl & _ & ->)|(r & Hr & ->)]; [|exact Hr].
  now apply state_validate_contents_total.
Qed.

(* the two Deserialize calls with the decoders of Model/WireState.v never panic (C14: Proofs/WireState.v, Proofs/Ztyp.v) *)
Lemma state_dec_item_total t body content : state_dec_item t body content <> Panic.
Proof.
  unfold state_dec_item.
  destruct (t =? T_AccountTrieNode).
  { apply bind_no_panic; [apply AccountTrieNodeKey_codec_total|]. intros [path nh] _.
    apply bind_no_panic; [apply AccountTrieNodeWithProof_codec_total|]. intros [proof bh] _. discriminate. }
  destruct (t =? T_ContractStorageTrieNode).
  { apply bind_no_panic; [apply StorageTrieNodeKey_codec_total|]. intros [[addr path] nh] _.
    apply bind_no_panic; [apply StorageTrieNodeWithProof_codec_total|]. intros [[sp ap] bh] _. discriminate. }
  apply bind_no_panic; [apply dec_BytecodeKey_total|]. intros [addr ch] _.
  apply bind_no_panic; [apply BytecodeWithProof_codec_total|]. intros [[code ap] bh] _. discriminate.
Qed.

(* hence, with the concrete decoders, only the hypotheses of C13_total remain *)
Lemma slib_concrete_ok node_hash decode decode_account header cid :
  (forall b n, decode b = Ok n -> wf_node n = true) ->
  (forall b, decode b <> Panic) -> (forall b, decode_account b <> Panic) -> (forall i b, header i b <> Panic) ->
  slib_ok (slib_concrete node_hash decode decode_account header cid).
Proof. intros H1 H2 H3 H4. repeat split; cbn; auto. intros t b c. apply state_dec_item_total. Qed.

(* C13_history_store through the composition: whatever is under a content id afterwards was there before, or is the final
   node / the code of a pair whose decoded form satisfied the chain predicate of C13 against the header answer of its step *)
Definition state_bound (L : slib) (s0 s : StateTrie.store) : Prop :=
  forall id v, StateTrie.store_get s id = Some v ->
    StateTrie.store_get s0 id = Some v \/
    exists i t body content r, sl_cid L (t :: body) = id /\ In (b2n t) state_types /\
      sl_dec_item L (b2n t) body content = Ok r /\
      content_ok (sl_node_hash L) (sl_decode L) (sl_decode_account L) (sl_header L i) r /\
      StateTrie.put (sl_node_hash L) r = Ok v /\ expected_stored r = Some v.

Theorem state_validate_contents_bound L keys contents s :
  state_bound L s (snd (state_validate_contents L keys contents s)).
Proof.
  unfold state_validate_contents. apply (offer_loop_inv _ _ _ (state_bound L s)).
  - intros i s1 k c s' Hv Hp Hs id v Hg.
    pose proof Hv as Hv'. unfold state_validate in Hv'. apply key_dispatch_t_inv in Hv' as (t0 & body0 & Ek & Hin & _).
    destruct (state_put_after_validate L i k c Hv) as (t & body & r & -> & Hd & Hc & Hpv & _).
    inversion Ek; subst t0 body0.
    unfold state_put in Hp. rewrite Hpv in Hp. destruct (StateTrie.put (sl_node_hash L) r) as [b| |] eqn:Eb; cbn [bind] in Hp; try discriminate.
    inversion Hp; subst s'; clear Hp. cbn [StateTrie.store_get StateTrie.store_put] in Hg.
    destruct (bytes_eqb (sl_cid L (t :: body)) id) eqn:Eid.
    + inversion Hg; subst v. right. exists i, t, body, c, r. apply bytes_eqb_eq in Eid.
      repeat split; auto. now apply put_stores_final in Eb.
    + now apply Hs.
  - intros id v Hg. now left.
Qed.

Theorem state_offered_bound L keys payload s : state_bound L s (snd (state_offered_contents L keys payload s)).
Proof.
  unfold state_offered_contents.
  destruct (with_offered_contents_cases keys payload (fun contents => state_validate_contents L keys contents s) (fun r => (r, s))) as
    [(cs & _ & _ & ->)|(r & _ & ->)]; [apply state_validate_contents_bound|].
  intros id v Hg. now left.
Qed.

(* ================================================================ BEACON: key dispatch, key decoders, the summaries record *)
Theorem beacon_validate_total content_info key content :
  (forall t c, content_info t c <> Panic) -> beacon_validate content_info key content <> Panic.
Proof.
  intros Hci. unfold beacon_validate. apply key_dispatch_total. intros t body c. unfold beacon_validate_sub.
  destruct (t =? T_LcUpdate).
  { apply bind_no_panic; [apply Hci|]. intros n _. apply bind_no_panic; [apply dec_LcUpdateKey_total|].
    intros [st cnt] _. destruct (cnt =? n); discriminate. }
  destruct (t =? T_LcBootstrap).
  { apply bind_no_panic; [apply Hci|]. discriminate. }
  destruct (t =? T_LcFinalityUpdate).
  { apply bind_no_panic; [apply dec_LcSlotKey_total|]. intros slot _. apply bind_no_panic; [apply Hci|].
    intros f _. destruct (f <? slot); discriminate. }
  destruct (t =? T_LcOptimisticUpdate).
  { apply bind_no_panic; [apply dec_LcSlotKey_total|]. intros slot _. apply bind_no_panic; [apply Hci|].
    intros f _. destruct (slot =? f); discriminate. }
  apply bind_no_panic; [apply dec_HistSummariesKey_total|]. intros ep _. apply bind_no_panic; [apply Hci|].
  intros e _. destruct (e =? ep); discriminate.
Qed.

Theorem beacon_put_total db_put key content st :
  (forall t b c, db_put t b c <> Panic) -> beacon_put db_put key content st <> Panic.
Proof.
  intros Hdb. unfold beacon_put. destruct (Nat.eqb (length key) 0) eqn:E; [discriminate|].
  destruct (idx_ok key 0 ltac:(lia)) as [tb ->]. cbn [bind].
  destruct (tail1_ok key ltac:(lia)) as [body [Eb _]].
  destruct (b2n tb =? T_HistoricalSummaries); [apply beacon_put_summaries_total|].
  destruct (b2n tb =? T_LcUpdate).
  { rewrite Eb. cbn [bind]. apply bind_no_panic; [apply dec_LcUpdateKey_total|]. intros _ _.
    apply bind_no_panic; [apply Hdb|]. discriminate. }
  destruct (existsb (N.eqb (b2n tb)) beacon_types); [|discriminate].
  rewrite Eb. cbn [bind]. apply bind_no_panic; [apply Hdb|]. discriminate.
Qed.

Theorem beacon_get_total db_get key st :
  (forall t b, db_get t b <> Panic) -> beacon_get db_get key st <> Panic.
Proof.
  intros Hdb. unfold beacon_get. destruct (Nat.eqb (length key) 0) eqn:E; [discriminate|].
  destruct (idx_ok key 0 ltac:(lia)) as [tb ->]. cbn [bind].
  destruct (tail1_ok key ltac:(lia)) as [body [Eb _]].
  destruct (b2n tb =? T_HistoricalSummaries); [apply beacon_get_summaries_total|].
  destruct (b2n tb =? T_LcBootstrap); [rewrite Eb; cbn [bind]; apply Hdb|].
  destruct (b2n tb =? T_LcUpdate).
  { rewrite Eb. cbn [bind]. apply bind_no_panic; [apply dec_LcUpdateKey_total|]. intros _ _. apply Hdb. }
  destruct ((b2n tb =? T_LcFinalityUpdate) || (b2n tb =? T_LcOptimisticUpdate)); [|discriminate].
  rewrite Eb. cbn [bind]. apply bind_no_panic; [apply dec_LcSlotKey_total|]. intros _ _. apply Hdb.
Qed.

(* the record under historicalSummariesKey keeps its 8-byte epoch prefix through every Put *)
Lemma beacon_put_record db_put key content st st' :
  beacon_put db_put key content st = Ok st' -> record_ok st -> record_ok st'.
Proof.
  unfold beacon_put. destruct (Nat.eqb (length key) 0); [discriminate|].
  destruct (idx key 0) as [tb| |]; cbn [bind]; try discriminate.
  destruct (b2n tb =? T_HistoricalSummaries); [intros H Hs; exact (beacon_put_summaries_record key content st st' Hs H)|].
  destruct (b2n tb =? T_LcUpdate).
  { destruct (tail1 key) as [body| |]; cbn [bind]; try discriminate.
    destruct (dec_LcUpdateKey body); cbn [bind]; try discriminate.
    destruct (db_put _ body content); cbn [bind]; try discriminate. intros H; inversion H; subst; auto. }
  destruct (existsb _ beacon_types); [|intros H; inversion H; subst; auto].
  destruct (tail1 key) as [body| |]; cbn [bind]; try discriminate.
  destruct (db_put _ body content); cbn [bind]; try discriminate. intros H; inversion H; subst; auto.
Qed.

Theorem beacon_offered_total content_info db_put keys payload st :
  (forall i t c, content_info i t c <> Panic) -> (forall t b c, db_put t b c <> Panic) ->
  fst (beacon_offered_contents content_info db_put keys payload st) <> Panic /\
  (record_ok st -> record_ok (snd (beacon_offered_contents content_info db_put keys payload st))).
Proof.
  intros Hci Hdb. unfold beacon_offered_contents.
  destruct (with_offered_contents_cases keys payload
              (fun contents => beacon_validate_contents content_info db_put keys contents st) (fun r => (r, st))) as
    [(cs & Hl & _ & ->)|(r & Hr & ->)]; [|split; [exact Hr|auto]].
  unfold beacon_validate_contents. split.
  - apply offer_loop_total.
    + intros i s k c. apply beacon_validate_total. apply Hci.
    + intros i s k c _. now apply beacon_put_total.
    + cbn. lia.
  - apply (offer_loop_inv _ _ _ record_ok). intros i s k c s' _ Hp Hs. exact (beacon_put_record db_put k c s s' Hp Hs).
Qed.

(* ================================================================ concrete instances for the non-vacuity Example *)
(* history: body = receipts = bytes; a header "rlp" is 32 bytes (which are also its hash) followed by its number, little
   endian; header-with-proof content = 34 header bytes ++ proof; bodies / receipts as in Proofs/History.v's wl.
   The header proof check is the REAL one over SHA-256 (no toy): epoch accumulator roots of a tree built by path_tree. *)
Definition ex_hlib : hlib := {|
  hl_body := bytes; hl_receipts := bytes;
  hl_hdr_hash := fun h => h_rest h;
  hl_dec_hwp := fun c => if Nat.ltb (length c) 34 then None else Some (firstn 34 c, skipn 34 c);
  hl_dec_header := fun hb => Some (mkHeader (firstn 32 hb) (le_n (skipn 32 hb)) [] [] [] None);
  hl_dec_body := fun c => Some c;
  hl_uncle_hash := fun _ => [];
  hl_tx_root := fun b => firstn 1 b;
  hl_wd_root := fun b => match b with _ :: w :: _ => Some [w] | _ => None end;
  hl_dec_receipts := fun c => Some c; hl_receipt_root := fun r => r; hl_empty_receipt_hash := [x00] |}.

Definition ex_sibs : list bytes :=
  map (fun b => repeat b 32) [x01; x02; x03; x04; x05; x06; x07; x08; x09; x0a; x0b; x0c; x0d; x0e; x0f].
(* block 8197 = epoch 1, record 5: its hash w_hash sits at generalized index 4*8192 + 2*5 of the second epoch tree *)
Definition ex_epoch_tree : Merkle.tree := path_tree (Proofs.Merkle.path_of 15 (premerge_gindex 8197)) ex_sibs (Merkle.Leaf w_hash).
Definition ex_hacc : hacc := {|
  ha_H := Sha256.sha_pair;
  ha_epochs := map (Merkle.troot Sha256.sha_pair) [Merkle.Leaf zero32; ex_epoch_tree];
  ha_roots := []; ha_sums := fun _ _ => []; ha_oracle := fun _ _ => None |}.
Definition ex_header_key : bytes := x00 :: w_hash.
Definition ex_header_content : bytes := w_hash ++ [x05; x20] ++ concat (rev ex_sibs).
(* a header source that answers any hash with a post-Shanghai header of that hash: tx root 01, withdrawals root 09 *)
Definition ex_src (kh : bytes) : option History.header := Some (mkHeader kh 20000000 [] [x01] [x07] (Some [x09])).
Definition ex_body_key : bytes := [x01; xbb].
Definition ex_body_content : bytes := [x01; x09].

(* state: nodes are the one-byte strings 02 (extension over nibble 7 to the node with hash pad 03) and 03; the "hash" pads to
   32 bytes; key and content go through the REAL ztyp decoders of Model/WireState.v *)
Definition pad32 (b : bytes) : bytes := b ++ repeat x00 (32 - length b).
Definition ex_slib : slib := {|
  sl_node_hash := pad32;
  sl_decode := fun b => match b with
                        | [x02] => Ok (Short [x07] (Hash (pad32 [x03])))
                        | [x03] => Ok (Short [x09; x10] (Value [xff]))
                        | _ => Err 20
                        end;
  sl_decode_account := fun _ => Err 21;
  sl_header := fun _ _ => Ok (pad32 [x02]);
  sl_cid := fun k => firstn 3 k;
  sl_dec_item := state_dec_item |}.
Definition ex_state_key : bytes :=
  x20 :: match enc_AccountTrieNodeKey ([x07], pad32 [x03]) with Ok b => b | _ => [] end.
Definition ex_state_content (proof : list bytes) : bytes :=
  match enc_AccountTrieNodeWithProof (proof, repeat x11 32) with Ok b => b | _ => [] end.
