(* Proofs/HeaderProver.v : the prover side of C03 - the proof BuildProof emits for record i verifies against the
   epoch root Update/Finish produce, for every chain (any length, partial last epoch included). *)
From Shisui Require Import Base.Bytes Base.Merkle Base.Sha256 Gen.K_header Model.HeaderProof Model.HeaderProver
  Proofs.Merkle Proofs.HeaderProof.
From Coq Require Import ZifyBool ZifyN ZifyNat.
Ltac Zify.zify_post_hook ::= Z.div_mod_to_equations.
Local Arguments N.add : simpl never.
Local Arguments N.mul : simpl never.
Local Arguments N.div : simpl never.
Local Arguments N.modulo : simpl never.
Local Arguments N.pow : simpl never.
Local Arguments N.ltb : simpl never.
Local Arguments N.leb : simpl never.
Local Arguments N.eqb : simpl never.
Local Arguments N.testbit : simpl never.
Local Arguments N.to_nat : simpl never.
Local Arguments N.of_nat : simpl never.
Local Arguments half : simpl never.
Local Arguments nth : simpl never.
Local Arguments firstn : simpl never.
Local Arguments skipn : simpl never.

(* ------------------------------------------------------------------ constants *)
Lemma K_prover_agrees : K_proverEpochSize = K_EpochSize /\ K_proverEpochSize = K_epochSize /\
                        K_proverMergeBlockNumber = K_MergeBlockNumber /\ 2 ^ 14 = 2 * K_proverEpochSize.
Proof. repeat split; reflexivity. Qed.

(* ------------------------------------------------------------------ list helpers *)
Lemma nth_firstn_lt {A} (l : list A) j m d : (j < m)%nat -> nth j (firstn m l) d = nth j l d.
Proof.
  revert j m; induction l as [|x l IH]; intros j m L.
  - rewrite firstn_nil. reflexivity.
  - destruct m as [|m]; [lia|]. destruct j as [|j]; [reflexivity|]. cbn [firstn nth]. apply IH. lia.
Qed.
Lemma nth_skipn_add {A} (l : list A) j m d : nth j (skipn m l) d = nth (m + j) l d.
Proof.
  revert l; induction m as [|m IH]; intros l; [reflexivity|].
  destruct l as [|x l]; [rewrite skipn_nil; destruct j; reflexivity|].
  change (S m + j)%nat with (S (m + j)). cbn [skipn nth]. apply IH.
Qed.

(* ------------------------------------------------------------------ index bits *)
Lemma bits_from_snoc n : forall i idx, bits_from (S n) i idx = bits_from n i idx ++ [N.testbit idx (i + N.of_nat n)].
Proof.
  induction n as [|n IH]; intros i idx.
  - cbn [bits_from app]. replace (i + N.of_nat 0) with i by lia. reflexivity.
  - change (bits_from (S (S n)) i idx) with (N.testbit idx i :: bits_from (S n) (i + 1) idx).
    rewrite IH. cbn [bits_from app]. replace (i + 1 + N.of_nat n) with (i + N.of_nat (S n)) by lia. reflexivity.
Qed.
Lemma path_of_S k idx : path_of (S k) idx = N.testbit idx (N.of_nat k) :: path_of k idx.
Proof. unfold path_of. rewrite bits_from_snoc, rev_app_distr. cbn [rev app]. replace (0 + N.of_nat k) with (N.of_nat k) by lia. reflexivity. Qed.

Lemma mod_pow2_succ idx k : idx mod 2 ^ N.succ k = idx mod 2 ^ k + 2 ^ k * N.b2n (N.testbit idx k).
Proof.
  rewrite N.pow_succ_r by lia. rewrite (N.mul_comm 2). rewrite N.mod_mul_r by (try apply N.pow_nonzero; lia).
  rewrite N.testbit_spec'. reflexivity.
Qed.

(* the path depends on the low bits only *)
Lemma path_of_low d : forall a b, a mod 2 ^ N.of_nat d = b mod 2 ^ N.of_nat d -> path_of d a = path_of d b.
Proof.
  induction d as [|d IH]; intros a b E; [reflexivity|].
  rewrite !path_of_S. replace (N.of_nat (S d)) with (N.succ (N.of_nat d)) in E by lia.
  assert (Eb : N.testbit a (N.of_nat d) = N.testbit b (N.of_nat d)).
  { rewrite <- (N.mod_pow2_bits_low a (N.succ (N.of_nat d))) by lia.
    rewrite <- (N.mod_pow2_bits_low b (N.succ (N.of_nat d))) by lia. now rewrite E. }
  f_equal; [exact Eb|]. apply IH.
  rewrite !mod_pow2_succ in E. rewrite Eb in E. lia.
Qed.

Section ProverProofs.
  Variable H : bytes -> bytes -> bytes.
  Notation troot := (troot H).
  Notation siblings := (siblings H).
  Notation tree := Merkle.tree.

  (* ------------------------------------------------------------------ the table variants compute the same *)
  Lemma zero_table_hd d : hd zero_chunk (zero_table H d) = zero_hash H d.
  Proof. induction d as [|d IH]; [reflexivity|]. cbn [zero_table zero_hash hd]. now rewrite IH. Qed.
  Lemma zero_table_tl d : tl (zero_table H (S d)) = zero_table H d.
  Proof. reflexivity. Qed.
  Lemma sroot_t_eq d : forall l, sroot_t H (zero_table H d) d l = sroot H d l.
  Proof.
    induction d as [|d IH]; intros l; [reflexivity|].
    cbn [sroot_t sroot]. destruct l as [|c l]; [apply zero_table_hd|].
    rewrite zero_table_tl, !IH. reflexivity.
  Qed.
  Lemma ssibs_t_eq d : forall l idx, ssibs_t H (zero_table H d) d l idx = ssibs H d l idx.
  Proof.
    induction d as [|d IH]; intros l idx; [reflexivity|].
    cbn [ssibs_t ssibs]. rewrite zero_table_tl, !IH, !sroot_t_eq. reflexivity.
  Qed.

  (* ------------------------------------------------------------------ the complete tree behind sroot *)
  Fixpoint ltree (d : nat) (l : list bytes) : tree :=
    match d with
    | O => Leaf (nth 0 l zero_chunk)
    | S k => Node (ltree k (firstn (half k) l)) (ltree k (skipn (half k) l))
    end.

  Lemma ltree_nil d : troot (ltree d []) = zero_hash H d.
  Proof.
    induction d as [|d IH]; [reflexivity|]. cbn [ltree Merkle.troot zero_hash]. rewrite firstn_nil, skipn_nil, IH. reflexivity.
  Qed.
  Lemma sroot_troot d : forall l, sroot H d l = troot (ltree d l).
  Proof.
    induction d as [|d IH]; intros l; [reflexivity|].
    cbn [sroot]. destruct l as [|c l].
    - now rewrite ltree_nil.
    - cbn [ltree Merkle.troot]. now rewrite !IH.
  Qed.

  Lemma half_pos k : N.of_nat (half k) = 2 ^ N.of_nat k.
  Proof. unfold half. lia. Qed.

  Lemma ltree_leaf d : forall l idx,
    subtree (ltree d l) (path_of d idx) = Some (Leaf (nth (N.to_nat (idx mod 2 ^ N.of_nat d)) l zero_chunk)).
  Proof.
    induction d as [|d IH]; intros l idx.
    - cbn [ltree path_of]. unfold path_of. cbn [bits_from rev subtree]. change (2 ^ N.of_nat 0) with 1. rewrite N.mod_1_r. reflexivity.
    - rewrite path_of_S. cbn [ltree subtree].
      replace (N.of_nat (S d)) with (N.succ (N.of_nat d)) by lia. rewrite mod_pow2_succ.
      pose proof (half_pos d) as Hh. assert (Lm : idx mod 2 ^ N.of_nat d < 2 ^ N.of_nat d) by (apply N.mod_lt, N.pow_nonzero; lia).
      destruct (N.testbit idx (N.of_nat d)); cbn [N.b2n]; rewrite IH; do 2 f_equal.
      + rewrite nth_skipn_add. f_equal. lia.
      + rewrite nth_firstn_lt by lia. f_equal. lia.
  Qed.

  Lemma ltree_siblings d : forall l idx, siblings (ltree d l) (path_of d idx) = Some (ssibs H d l idx).
  Proof.
    induction d as [|d IH]; intros l idx; [reflexivity|].
    rewrite path_of_S. cbn [ltree Merkle.siblings ssibs].
    destruct (N.testbit idx (N.of_nat d)); rewrite IH, sroot_troot; reflexivity.
  Qed.

  (* ------------------------------------------------------------------ one epoch: root and proof *)
  Definition size_chunk : bytes := le_bytes 32 K_proverEpochSize.
  Definition etree (chunks : list bytes) : tree := Node (ltree 14 chunks) (Leaf size_chunk).

  Lemma epoch_root_troot chunks : epoch_root H chunks = troot (etree chunks).
  Proof. unfold epoch_root, mix_in_length. rewrite sroot_t_eq, sroot_troot. reflexivity. Qed.

  Lemma premerge_path n :
    path_of 15 (premerge_gindex n) = false :: path_of 14 (K_proverEpochSize * 2 + (n mod K_proverEpochSize) * 2).
  Proof.
    rewrite path_of_S. unfold premerge_gindex, K_epochSize, K_EpochSize, K_proverEpochSize.
    assert (R : n mod 8192 < 8192) by (apply N.mod_lt; lia).
    f_equal.
    - pose proof (N.testbit_spec' (8192 * 2 * 2 + n mod 8192 * 2) (N.of_nat 14)) as T.
      change (2 ^ N.of_nat 14) with 16384 in T.
      replace ((8192 * 2 * 2 + n mod 8192 * 2) / 16384) with 2 in T by lia. change (2 mod 2) with 0 in T.
      destruct (N.testbit (8192 * 2 * 2 + n mod 8192 * 2) (N.of_nat 14)); [discriminate T|reflexivity].
    - apply path_of_low. change (2 ^ N.of_nat 14) with 16384. lia.
  Qed.

  Hypothesis H32 : forall a b, len32 (H a b).

  Lemma Forall_firstn' {A} (P : A -> Prop) m : forall l, Forall P l -> Forall P (firstn m l).
  Proof.
    induction m as [|m IH]; intros l F; [constructor|]. destruct l as [|x l]; [constructor|].
    inversion F; subst. cbn [firstn]. constructor; [assumption|apply IH; assumption].
  Qed.
  Lemma Forall_skipn' {A} (P : A -> Prop) m : forall l, Forall P l -> Forall P (skipn m l).
  Proof.
    induction m as [|m IH]; intros l F; [exact F|]. destruct l as [|x l]; [constructor|].
    inversion F; subst. cbn [skipn]. apply IH; assumption.
  Qed.

  Lemma sroot_len32 d l : Forall len32 l -> len32 (sroot H d l).
  Proof.
    intros F. destruct d as [|d]; cbn [sroot].
    - destruct l as [|c l]; [reflexivity|]. inversion F; assumption.
    - destruct l; [cbn [zero_hash]|]; apply H32.
  Qed.
  Lemma ssibs_len32 d : forall l idx, Forall len32 l -> Forall len32 (ssibs H d l idx).
  Proof.
    induction d as [|d IH]; intros l idx F; [constructor|]. cbn [ssibs].
    destruct (N.testbit idx (N.of_nat d)); constructor;
      try (apply sroot_len32); try (apply IH); try (apply Forall_firstn'); try (apply Forall_skipn'); assumption.
  Qed.

  Lemma size_chunk_len32 : len32 size_chunk.
  Proof. reflexivity. Qed.

  (* the proof BuildProof emits for block number n from the records (chunks) of its epoch verifies against the root the builder
     computes for those records, for ANY number of records in the epoch *)
  Theorem built_proof_verifies_epoch g epochs roots sums oracle n chunks hash :
    n < K_MergeBlockNumber ->
    nth_error epochs (N.to_nat (n / K_EpochSize)) = Some (epoch_root H chunks) ->
    Forall len32 chunks ->
    nth (N.to_nat (2 * (n mod K_proverEpochSize))) chunks zero_chunk = hash ->
    validate_header_and_proof H g epochs roots sums oracle n hash (concat (build_proof H chunks n)) = Ok tt.
  Proof.
    intros L0 Et F Hh.
    set (idx := K_proverEpochSize * 2 + (n mod K_proverEpochSize) * 2).
    assert (E : build_proof H chunks n = rev (size_chunk :: ssibs H 14 chunks idx)).
    { unfold build_proof. rewrite ssibs_t_eq. cbn [rev]. reflexivity. }
    rewrite E, epoch_root_troot in *.
    replace hash with (troot (Leaf hash)) by reflexivity.
    eapply honest_pre_merge_entry; [exact L0|exact Et| | |].
    - rewrite premerge_path. fold idx. cbn [etree subtree]. rewrite ltree_leaf. do 2 f_equal. rewrite <- Hh. f_equal.
      unfold idx, K_proverEpochSize. change (2 ^ N.of_nat 14) with 16384.
      assert (R : n mod 8192 < 8192) by (apply N.mod_lt; lia). lia.
    - rewrite premerge_path. fold idx. cbn [etree Merkle.siblings]. rewrite ltree_siblings. reflexivity.
    - constructor; [exact size_chunk_len32|apply ssibs_len32; exact F].
  Qed.


  (* ------------------------------------------------------------------ the builder: Update / Finish over a whole chain *)
  Notation K := K_proverEpochSize.
  Definition hdr : Type := (N * bytes * N)%type.
  Definition hdr_ok (h : hdr) : Prop := len32 (snd (fst h)).
  Definition Inv (a : acc_st) : Prop :=
    a_count a <= K /\ nlen (a_chunks a) = 2 * a_count a /\ Forall len32 (a_chunks a).
  Definition pos (a : acc_st) : N := K * nlen (a_hist a) + a_count a.

  Lemma le_bytes_length k n : length (le_bytes k n) = k.
  Proof. revert n; induction k as [|k IH]; intros n; cbn [le_bytes length]; [reflexivity|]. now rewrite IH. Qed.

  Lemma nlen_app {A} (l1 l2 : list A) : nlen (l1 ++ l2) = nlen l1 + nlen l2.
  Proof. unfold nlen. rewrite app_length. lia. Qed.

  Opaque le_bytes.
  Lemma update_spec a h a' : Inv a -> hdr_ok h -> acc_update H a h = Ok a' ->
    Inv a' /\ 1 <= a_count a' /\ pos a' = pos a + 1 /\ fst (fst h) < K_proverMergeBlockNumber /\
    exists X td, a_chunks a' = X ++ [snd (fst h); td] /\
      ((a_count a = K /\ a_hist a' = a_hist a ++ [epoch_root H (a_chunks a)] /\ X = []) \/
       (a_count a <> K /\ a_hist a' = a_hist a /\ X = a_chunks a)).
  Proof.
    intros (I1 & I2 & I3) Hh. destruct h as [[number hash] diff]. unfold hdr_ok in Hh. cbn [fst snd] in *.
    unfold acc_update. destruct (N.leb_spec K_proverMergeBlockNumber number) as [G|L]; [discriminate|].
    destruct (N.eqb_spec (a_count a) K) as [E|NE]; intros X; inversion X; subst a'; clear X;
      cbn [a_hist a_chunks a_count a_diff]; unfold Inv, pos; cbn [a_hist a_chunks a_count a_diff].
    - split; [|split; [lia|split; [|split; [exact L|]]]].
      + split; [unfold K_proverEpochSize; lia|]. split; [reflexivity|].
        constructor; [exact Hh|]. constructor; [apply le_bytes_length|constructor].
      + rewrite nlen_app. unfold nlen at 2. cbn [length]. lia.
      + eexists [], _. split; [reflexivity|]. left. repeat split; assumption.
    - split; [|split; [lia|split; [lia|split; [exact L|]]]].
      + split; [lia|]. split; [rewrite nlen_app; unfold nlen at 2; cbn [length]; lia|].
        apply Forall_app. split; [exact I3|]. constructor; [exact Hh|]. constructor; [apply le_bytes_length|constructor].
      + eexists (a_chunks a), _. split; [reflexivity|]. right. repeat split; assumption.
  Qed.

  Lemma run_app l1 : forall a l2, acc_run H a (l1 ++ l2) = bind (acc_run H a l1) (fun a' => acc_run H a' l2).
  Proof.
    induction l1 as [|h l1 IH]; intros a l2; [reflexivity|]. cbn [app acc_run].
    destruct (acc_update H a h) as [a1| |]; cbn [bind]; [apply IH|reflexivity|reflexivity].
  Qed.

  Lemma run_inv l : forall a a', Inv a -> Forall hdr_ok l -> acc_run H a l = Ok a' -> Inv a' /\ pos a' = pos a + nlen l.
  Proof.
    induction l as [|h l IH]; intros a a' I F; cbn [acc_run].
    - intros X; inversion X; subst. split; [exact I|]. unfold nlen; cbn [length]. lia.
    - inversion F as [|? ? Fh Fl]; subst.
      destruct (acc_update H a h) as [a1| |] eqn:U; cbn [bind]; try discriminate.
      destruct (update_spec _ _ _ I Fh U) as (I1 & _ & P1 & _).
      intros R. destruct (IH _ _ I1 Fl R) as [I' P']. split; [exact I'|].
      unfold nlen in *. cbn [length]. lia.
  Qed.

  (* closed epoch roots are never touched again *)
  Lemma run_hist_grows l : forall a a', acc_run H a l = Ok a' -> exists ext, a_hist a' = a_hist a ++ ext.
  Proof.
    induction l as [|h l IH]; intros a a'; cbn [acc_run].
    - intros X; inversion X; subst. exists []. now rewrite app_nil_r.
    - destruct (acc_update H a h) as [a1| |] eqn:U; cbn [bind]; try discriminate.
      intros R. destruct (IH _ _ R) as [ext E].
      assert (E1 : exists e1, a_hist a1 = a_hist a ++ e1).
      { destruct h as [[number hash] diff]. unfold acc_update in U.
        destruct (K_proverMergeBlockNumber <=? number); [discriminate|].
        destruct (a_count a =? K); inversion U; subst a1; cbn [a_hist]; [eexists; reflexivity|exists []; now rewrite app_nil_r]. }
      destruct E1 as [e1 E1]. exists (e1 ++ ext). rewrite E, E1. now rewrite app_assoc.
  Qed.

  (* the epoch that is open in state a1 ends up, with the records the builder holds when it closes it (state a_e, reached after
     k more headers), as entry number |a_hist a1| of the finished accumulator *)
  Lemma run_locate rest : forall a1 a', Inv a1 -> Forall hdr_ok rest -> acc_run H a1 rest = Ok a' ->
    exists a_e k, acc_run H a1 (firstn k rest) = Ok a_e /\
      (exists tl, a_chunks a_e = a_chunks a1 ++ tl) /\ Forall len32 (a_chunks a_e) /\
      nth_error (acc_finish H a') (length (a_hist a1)) = Some (epoch_root H (a_chunks a_e)).
  Proof.
    induction rest as [|h r IH]; intros a1 a' I F; cbn [acc_run].
    - intros X; inversion X; subst a'. exists a1, 0%nat. split; [reflexivity|]. split; [exists []; now rewrite app_nil_r|].
      split; [apply I|]. unfold acc_finish. rewrite nth_error_app2 by lia. rewrite Nat.sub_diag. reflexivity.
    - inversion F as [|? ? Fh Fr]; subst.
      destruct (acc_update H a1 h) as [a2| |] eqn:U; cbn [bind]; try discriminate.
      intros R. destruct (update_spec _ _ _ I Fh U) as (I2 & _ & _ & _ & X & td & Ec & [(Ecount & Eh & EX)|(Ecount & Eh & EX)]).
      + (* the update closed the epoch: its records are those of a1 *)
        exists a1, 0%nat. split; [reflexivity|]. split; [exists []; now rewrite app_nil_r|]. split; [apply I|].
        destruct (run_hist_grows _ _ _ R) as [ext E]. unfold acc_finish. rewrite E, Eh.
        rewrite <- !app_assoc. rewrite nth_error_app2 by lia. rewrite Nat.sub_diag. reflexivity.
      + destruct (IH _ _ I2 Fr R) as (a_e & k & Rk & [tl Etl] & Fe & Hn).
        exists a_e, (S k). split; [change (firstn (S k) (h :: r)) with (h :: firstn k r); cbn [acc_run]; rewrite U; exact Rk|].
        split; [exists ([snd (fst h); td] ++ tl); rewrite Etl, Ec, EX; now rewrite <- app_assoc|].
        split; [exact Fe|]. rewrite <- Eh. exact Hn.
  Qed.

  (* ============================== the prover clause ==============================
     For every chain hs (any length, partial last epoch included) accepted by Update, every position i whose header carries
     number i: the builder held, when it closed (or finished) the epoch of i, a record list `a_chunks a_e` (a_e is a state the
     builder really went through: after the first k headers) such that the proof BuildProof emits from those records verifies
     against the accumulator Finish returned. *)
  Theorem built_proof_verifies hs a i hash diff :
    Forall hdr_ok hs ->
    acc_run H acc_new hs = Ok a ->
    nth_error hs (N.to_nat i) = Some (i, hash, diff) ->
    exists a_e k, acc_run H acc_new (firstn k hs) = Ok a_e /\
      forall g roots sums oracle,
        validate_header_and_proof H g (acc_finish H a) roots sums oracle i hash (concat (build_proof H (a_chunks a_e) i)) = Ok tt.
  Proof.
    intros F R Hn.
    destruct (nth_error_split _ _ Hn) as (pre & rest & -> & Lp).
    rewrite run_app in R. destruct (acc_run H acc_new pre) as [a0| |] eqn:R0; cbn [bind] in R; try discriminate.
    cbn [acc_run] in R. destruct (acc_update H a0 (i, hash, diff)) as [a1| |] eqn:U; cbn [bind] in R; try discriminate.
    apply Forall_app in F as [Fpre Fr]. inversion Fr as [|? ? Fh Frest]; subst.
    assert (I0 : Inv acc_new) by (repeat split; [unfold K_proverEpochSize; cbn; lia|constructor]).
    destruct (run_inv _ _ _ I0 Fpre R0) as [Ia0 P0].
    destruct (update_spec _ _ _ Ia0 Fh U) as (I1 & C1 & P1 & Lm & X & td & Ec & _). cbn [fst snd] in Lm, Ec.
    destruct (run_locate _ _ _ I1 Frest R) as (a_e & k & Rk & [tl Etl] & Fe & Hroot).
    assert (Ppos : pos a1 = i + 1).
    { rewrite P1, P0. unfold pos, acc_new, nlen. cbn [a_hist a_count length]. lia. }
    destruct I1 as (C2 & Lc & _). unfold pos in Ppos.
    assert (Hq : nlen (a_hist a1) = i / K /\ a_count a1 - 1 = i mod K).
    { unfold K_proverEpochSize in *. split; nia. }
    destruct Hq as [Hq Hr].
    exists a_e, (length pre + S k)%nat. split.
    - rewrite firstn_app_2. change (firstn (S k) ((i, hash, diff) :: rest)) with ((i, hash, diff) :: firstn k rest). rewrite run_app, R0. cbn [bind acc_run]. rewrite U. exact Rk.
    - intros g roots sums oracle. apply built_proof_verifies_epoch.
      + destruct K_prover_agrees as (_ & _ & Em & _). rewrite <- Em. exact Lm.
      + destruct K_prover_agrees as (Ek & _). rewrite <- Ek, <- Hq. unfold nlen. rewrite Nnat.Nat2N.id. exact Hroot.
      + exact Fe.
      + rewrite Etl, Ec. rewrite <- app_assoc.
        assert (LX : nlen X = 2 * (i mod K)).
        { rewrite Ec, nlen_app in Lc. unfold nlen in Lc at 2. cbn [length] in Lc. lia. }
        replace (N.to_nat (2 * (i mod K))) with (length X + 0)%nat by (unfold nlen in LX; lia).
        rewrite app_nth2_plus. reflexivity.
  Qed.

End ProverProofs.

(* ------------------------------------------------------------------ SHA-256 returns 32 bytes: the instance that runs *)
Lemma compress_len hs blk : length hs = 8%nat -> length (compress hs blk) = 8%nat.
Proof.
  destruct hs as [|a [|b [|c [|d [|e [|f [|g [|h [|x t]]]]]]]]]; try discriminate. intros _.
  unfold compress. destruct (fold_left round _ _) as [[[[[[[a' b'] c'] d'] e'] f'] g'] h']. reflexivity.
Qed.
Lemma blocks_len fuel : forall ws hs, length hs = 8%nat -> length (blocks fuel ws hs) = 8%nat.
Proof.
  induction fuel as [|f IH]; intros ws hs L; cbn [blocks]; [exact L|].
  destruct ws; [exact L|]. apply IH. apply compress_len. exact L.
Qed.
Lemma flat_word_bytes_len l : length (flat_map word_bytes l) = (4 * length l)%nat.
Proof. induction l as [|w l IH]; [reflexivity|]. cbn [flat_map]. rewrite app_length, IH. cbn [word_bytes length]. lia. Qed.

Lemma sha_pair_len32 a b : len32 (sha_pair a b).
Proof.
  unfold len32, sha_pair, sha256. rewrite map_length, flat_word_bytes_len, blocks_len; reflexivity.
Qed.

Theorem built_proof_verifies_sha hs a i hash diff :
  Forall hdr_ok hs ->
  acc_run sha_pair acc_new hs = Ok a ->
  nth_error hs (N.to_nat i) = Some (i, hash, diff) ->
  exists a_e k, acc_run sha_pair acc_new (firstn k hs) = Ok a_e /\
    forall g roots sums oracle,
      validate_header_and_proof sha_pair g (acc_finish sha_pair a) roots sums oracle i hash
        (concat (build_proof sha_pair (a_chunks a_e) i)) = Ok tt.
Proof. exact (built_proof_verifies sha_pair sha_pair_len32 hs a i hash diff). Qed.

(* a concrete chain with a partial epoch (3 headers) *)
Definition ex_chain : list (N * bytes * N) :=
  [(0, repeat x11 32, 5); (1, repeat x22 32, 70000); (2, repeat x33 32, 2 ^ 200)].
