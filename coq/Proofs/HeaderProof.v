(* Proofs/HeaderProof.v : header proofs in all four eras (C03) - lemmas and proofs over Model/HeaderProof.v. *)
From Shisui Require Import Base.Bytes Base.Merkle Base.Sha256 Gen.K_header Model.HeaderProof Proofs.Merkle.
From Coq Require Import ZifyBool ZifyN ZifyNat.
Ltac Zify.zify_post_hook ::= Z.div_mod_to_equations.
Local Arguments N.add : simpl never.
Local Arguments N.mul : simpl never.
Local Arguments N.div : simpl never.
Local Arguments N.modulo : simpl never.
Local Arguments N.ltb : simpl never.
Local Arguments N.leb : simpl never.
Local Arguments N.log2 : simpl never.
Local Arguments N.sub : simpl never.
Local Arguments N.to_nat : simpl never.
Local Arguments N.of_nat : simpl never.
Local Arguments Nat.div : simpl never.
Local Arguments Nat.modulo : simpl never.
Local Arguments Nat.mul : simpl never.
Local Arguments Nat.add : simpl never.

(* ------------------------------------------------------------------ index arithmetic, against the compiled constants *)

Definition capella_start : N := K_capellaForkEpoch * K_slotsPerEpoch.

(* the two packages agree on the epoch size (validation.epochSize is used for the gindex, history.EpochSize for the record index) *)
Lemma K_epoch_sizes_agree : K_epochSize = K_EpochSize.
Proof. reflexivity. Qed.

Lemma K_premerge_epochs : K_PreMergeEpochs = (K_MergeBlockNumber + K_EpochSize - 1) / K_EpochSize.
Proof. reflexivity. Qed.

Lemma K_eras_ordered : K_MergeBlockNumber < K_ShanghaiBlockNumber /\ K_ShanghaiBlockNumber < K_CancunNumber /\ K_CancunNumber < two64.
Proof. repeat split; reflexivity. Qed.

(* a pre-merge block number always addresses an epoch below PreMergeEpochs *)
Lemma premerge_epoch_in_range n : n < K_MergeBlockNumber -> n / K_EpochSize < K_PreMergeEpochs.
Proof. unfold K_MergeBlockNumber, K_EpochSize, K_PreMergeEpochs. lia. Qed.

Definition premerge_gindex (n : N) : N := K_epochSize * 2 * 2 + (n mod K_EpochSize) * 2.

(* 4*8192 + 2*i is a depth-15 generalized index: exactly 15 siblings *)
Lemma premerge_gindex_depth n : N.log2 (premerge_gindex n) = 15.
Proof.
  unfold premerge_gindex, K_epochSize, K_EpochSize.
  apply N.log2_unique; [lia|]. change (2 ^ 15) with 32768. change (2 ^ N.succ 15) with 65536. lia.
Qed.

(* the execution-payload block_hash gindices have 11 resp. 12 levels below the root *)
Lemma exec_gindex_depths : N.log2 3228 = 11 /\ N.log2 6444 = 12.
Proof. split; reflexivity. Qed.

(* uint64 subtraction: no wrap from the Capella start on, a huge index below it *)
Lemma summary_index_no_wrap slot :
  capella_start <= slot -> slot < two64 -> summary_index slot = (slot - capella_start) / K_epochSize.
Proof.
  unfold summary_index, capella_start, K_capellaForkEpoch, K_slotsPerEpoch, K_epochSize, two64. intros. f_equal. lia.
Qed.
Lemma summary_index_wrap slot :
  slot < capella_start -> summary_index slot = (slot + two64 - capella_start) / K_epochSize /\ 2251799813684489 < summary_index slot.
Proof.
  unfold summary_index, capella_start, K_capellaForkEpoch, K_slotsPerEpoch, K_epochSize, two64. intros. split; [f_equal|]; lia.
Qed.

(* ------------------------------------------------------------------ checked indexing *)

Lemma idxN_ok {A} (l : list A) i : i < nlen l -> exists a, idxN l i = Ok a /\ nth_error l (N.to_nat i) = Some a.
Proof.
  intros Hi. unfold idxN. replace (i <? nlen l) with true by lia. unfold idx.
  destruct (nth_error l (N.to_nat i)) as [a|] eqn:E; [exists a; split; reflexivity|].
  apply nth_error_None in E. unfold nlen in Hi. lia.
Qed.
Lemma idxN_inv {A} (l : list A) i a : idxN l i = Ok a -> i < nlen l /\ nth_error l (N.to_nat i) = Some a.
Proof.
  unfold idxN. destruct (N.ltb_spec i (nlen l)); [|discriminate]. unfold idx.
  destruct (nth_error l (N.to_nat i)); intros E; inversion E; subst. split; [assumption|reflexivity].
Qed.
Lemma idxN_not_err {A} (l : list A) i e : idxN l i <> Err e.
Proof. unfold idxN, idx. destruct (i <? nlen l); [destruct (nth_error l (N.to_nat i))|]; discriminate. Qed.
Lemma idxN_panic_iff {A} (l : list A) i : idxN l i = Panic <-> nlen l <= i.
Proof.
  split.
  - intros E. destruct (N.lt_ge_cases i (nlen l)) as [L|G]; [|exact G].
    destruct (idxN_ok l i L) as [a [E' _]]. congruence.
  - intros G. unfold idxN. replace (i <? nlen l) with false by lia. reflexivity.
Qed.

(* ------------------------------------------------------------------ the decoders *)

Definition len32 (c : bytes) : Prop := length c = 32%nat.

Lemma slice_ok {A} (l : list A) lo hi :
  (lo <= hi)%nat -> (hi <= length l)%nat -> slice l lo hi = Ok (firstn (hi - lo) (skipn lo l)).
Proof. intros. unfold slice. replace (Nat.leb lo hi && Nat.leb hi (length l))%bool with true by lia. reflexivity. Qed.
Lemma slice_inv {A} (l : list A) lo hi r :
  slice l lo hi = Ok r -> (lo <= hi)%nat /\ (hi <= length l)%nat /\ r = firstn (hi - lo) (skipn lo l) /\ length r = (hi - lo)%nat.
Proof.
  unfold slice. destruct (Nat.leb lo hi && Nat.leb hi (length l))%bool eqn:E; [|discriminate].
  intros X; inversion X; subst. repeat split; try lia. rewrite firstn_length, skipn_length. lia.
Qed.
Lemma slice_not_err {A} (l : list A) lo hi e : slice l lo hi <> Err e.
Proof. unfold slice. destruct (Nat.leb lo hi && Nat.leb hi (length l))%bool; discriminate. Qed.

Lemma chunks_at_ok n : forall ii region, ((ii + n) * 32 <= length region)%nat ->
  exists l, chunks_at n ii region = Ok l /\ length l = n /\ Forall len32 l.
Proof.
  induction n as [|n IH]; intros ii region Hl; simpl.
  - exists []. repeat split. constructor.
  - rewrite slice_ok by lia. simpl.
    destruct (IH (S ii) region) as [l [E [L F]]]; [lia|]. rewrite E. simpl.
    eexists; split; [reflexivity|]. split; [simpl; lia|].
    constructor; [|exact F]. unfold len32. rewrite firstn_length, skipn_length. lia.
Qed.
Lemma chunks_at_inv n : forall ii region l, chunks_at n ii region = Ok l -> length l = n /\ Forall len32 l.
Proof.
  induction n as [|n IH]; intros ii region l; simpl.
  - intros E; inversion E. split; [reflexivity|constructor].
  - destruct (slice region (ii * 32) ((ii + 1) * 32)) as [c| |] eqn:Es; simpl; try discriminate.
    destruct (chunks_at n (S ii) region) as [r| |] eqn:Ec; simpl; try discriminate.
    intros E; inversion E; subst. destruct (IH _ _ _ Ec) as [L F]. apply slice_inv in Es as (_ & _ & _ & Lc).
    split; [simpl; lia|]. constructor; [unfold len32; lia|exact F].
Qed.
Lemma chunks_at_not_err n : forall ii region e, chunks_at n ii region <> Err e.
Proof.
  induction n as [|n IH]; intros ii region e; simpl; [discriminate|].
  destruct (slice region (ii * 32) ((ii + 1) * 32)) as [c|e'|] eqn:Es; simpl; try discriminate.
  - destruct (chunks_at n (S ii) region) as [r|e'|] eqn:Ec; simpl; try discriminate. exfalso; eapply IH; eassumption.
  - exfalso; eapply slice_not_err; eassumption.
Qed.

Lemma vec32_ok n buf lo : (lo + n * 32 <= length buf)%nat ->
  exists l, vec32 n buf lo (lo + n * 32) = Ok l /\ length l = n /\ Forall len32 l.
Proof.
  intros Hl. unfold vec32. rewrite slice_ok by lia. simpl.
  apply chunks_at_ok. rewrite firstn_length, skipn_length. lia.
Qed.
Lemma vec32_inv n buf lo hi l : vec32 n buf lo hi = Ok l -> length l = n /\ Forall len32 l.
Proof.
  unfold vec32. destruct (slice buf lo hi) as [region| |]; simpl; try discriminate. apply chunks_at_inv.
Qed.

Lemma le2n_lt l : le2n l < 256 ^ (nlen l).
Proof.
  induction l as [|b r IH]; [reflexivity|]. cbn [le2n].
  replace (nlen (b :: r)) with (N.succ (nlen r)) by (unfold nlen; cbn [length]; lia).
  rewrite N.pow_succ_r by lia. pose proof (b2n_lt b). lia.
Qed.
Lemma le2n_8 l : length l = 8%nat -> le2n l < two64.
Proof. intros L. pose proof (le2n_lt l) as B. unfold nlen in B. rewrite L in B. exact B. Qed.

(* the decoder of the three post-merge containers: the size check decides; an accepted buffer yields nb resp. ne 32-byte nodes *)
Lemma decode_post_cases nb ne buf :
  (length buf <> post_size nb ne /\ decode_post nb ne buf = Err E_SIZE) \/
  (length buf = post_size nb ne /\ exists p, decode_post nb ne buf = Ok p /\
     length (pp_beacon p) = nb /\ length (pp_exec p) = ne /\ length (pp_root p) = 32%nat /\
     Forall len32 (pp_beacon p) /\ Forall len32 (pp_exec p) /\ pp_slot p < two64).
Proof.
  unfold decode_post, post_size.
  destruct (Nat.eqb_spec (length buf) (nb * 32 + 32 + ne * 32 + 8)) as [E|NE]; simpl.
  2: { left; split; [assumption|reflexivity]. }
  right. split; [assumption|].
  destruct (vec32_ok nb buf 0) as [beacon [E1 [L1 F1]]]; [lia|]. rewrite Nat.add_0_l in E1. rewrite E1. simpl.
  rewrite slice_ok by lia. simpl.
  destruct (vec32_ok ne buf (nb * 32 + 32)) as [exec [E2 [L2 F2]]]; [lia|]. rewrite E2. simpl.
  rewrite slice_ok by lia. simpl.
  eexists; split; [reflexivity|]. simpl. repeat split; try assumption.
  - rewrite firstn_length, skipn_length. lia.
  - apply le2n_8. rewrite firstn_length, skipn_length. lia.
Qed.

Lemma turn_to_premerge_cases proof :
  turn_to_premerge_proof proof = Err E_MULT32 \/
  exists l, turn_to_premerge_proof proof = Ok l /\ (length l * 32 = length proof)%nat /\ Forall len32 l.
Proof.
  unfold turn_to_premerge_proof. destruct (Nat.eqb_spec (Nat.modulo (length proof) 32) 0) as [E|NE]; simpl; [|left; reflexivity].
  right. destruct (chunks_at_ok (Nat.div (length proof) 32) 0 proof) as [l [E1 [L F]]]; [lia|].
  exists l. repeat split; try assumption. lia.
Qed.

(* ------------------------------------------------------------------ the summaries provider *)

Lemma get_summary_not_panic cache oracle slot :
  oracle <> Some Panic -> get_historical_summary cache oracle slot <> Panic.
Proof.
  intros Ho. unfold get_historical_summary.
  destruct (N.ltb_spec (summary_index slot) (nlen cache)) as [L|G].
  - destruct (idxN_ok cache _ L) as [a [E _]]. rewrite E. discriminate.
  - destruct oracle as [[l|e|]|]; try discriminate; [|congruence].
    destruct (N.ltb_spec (summary_index slot) (nlen l)) as [L'|G']; [|discriminate].
    destruct (idxN_ok l _ L') as [a [E _]]. rewrite E. discriminate.
Qed.

(* beyond the cache and beyond whatever the oracle has (or no oracle): an error, never a value *)
Lemma get_summary_out_of_range cache oracle slot :
  nlen cache <= summary_index slot ->
  match oracle with Some (Ok l) => nlen l <= summary_index slot | Some Panic => False | _ => True end ->
  exists e, get_historical_summary cache oracle slot = Err e.
Proof.
  intros G Ho. unfold get_historical_summary. replace (summary_index slot <? nlen cache) with false by lia.
  destruct oracle as [[l|e|]|]; try (eexists; reflexivity); [|contradiction].
  replace (summary_index slot <? nlen l) with false by lia. eexists; reflexivity.
Qed.

Section HeaderProofs.
  Variable H : bytes -> bytes -> bytes.
  Notation troot := (troot H).
  Notation Collision := (Collision H).
  Notation tree := Merkle.tree.

  Lemma lift_verdict_ok r e : lift_verdict r e = Ok tt <-> r = Ok true.
  Proof. destruct r as [[|]| |]; simpl; split; intros X; try discriminate; reflexivity. Qed.
  Lemma lift_verdict_panic r e : lift_verdict r e = Panic <-> r = Panic.
  Proof. destruct r as [[|]| |]; simpl; split; intros X; try discriminate; reflexivity. Qed.

  Lemma verify_gindex_not_panic root index leaf hashes : verify_gindex H root index leaf hashes <> Panic.
  Proof. unfold verify_gindex. destruct (nlen hashes =? N.log2 index); discriminate. Qed.

  (* depth = len(elProof): the branch is always long enough *)
  Lemma verify_exec_not_panic g hash exec root : verify_exec H g hash exec root <> Panic.
  Proof.
    unfold verify_exec. intros E. apply verify_branch_panic_iff in E. unfold nlen in E. lia.
  Qed.

  Lemma verify_branch_not_panic leaf branch depth index root :
    (N.to_nat depth <= length branch)%nat -> verify_branch H leaf branch depth index root <> Panic.
  Proof. intros L E. apply verify_branch_panic_iff in E. lia. Qed.

  Lemma nth_error_map_inv {A B} (f : A -> B) l i b : nth_error (map f l) i = Some b -> exists a, nth_error l i = Some a /\ b = f a.
  Proof.
    revert i; induction l as [|x l IH]; intros [|i]; simpl; intros E; try discriminate.
    - inversion E. eexists; split; reflexivity.
    - apply IH, E.
  Qed.

  (* ============================== (e) the repaired validator never panics ============================== *)

  Lemma validate_summaries_not_panic ge sums oracle hash p :
    oracle <> Some Panic -> (13 <= length (pp_beacon p))%nat -> validate_summaries H ge sums oracle hash p <> Panic.
  Proof.
    intros Ho Lb. unfold validate_summaries.
    destruct (verify_exec H ge hash (pp_exec p) (pp_root p)) as [[|]|e|] eqn:Ev; simpl; try discriminate.
    2: { exfalso; eapply verify_exec_not_panic; eassumption. }
    destruct (get_historical_summary sums oracle (pp_slot p)) as [r|e|] eqn:Es; simpl; try discriminate.
    2: { exfalso; eapply get_summary_not_panic; eassumption. }
    intros X. apply lift_verdict_panic in X. revert X. apply verify_branch_not_panic. exact Lb.
  Qed.

  Lemma validate_merge_to_capella_not_panic roots hash p :
    (14 <= length (pp_beacon p))%nat -> validate_merge_to_capella H true roots hash p <> Panic.
  Proof.
    intros Lb. unfold validate_merge_to_capella.
    destruct (verify_exec H 3228 hash (pp_exec p) (pp_root p)) as [[|]|e|] eqn:Ev; simpl; try discriminate.
    2: { exfalso; eapply verify_exec_not_panic; eassumption. }
    destruct (N.leb_spec (nlen roots) (pp_slot p / K_epochSize)) as [G|L]; [discriminate|].
    destruct (idxN_ok roots _ L) as [r [E _]]. rewrite E. simpl.
    intros X. apply lift_verdict_panic in X. revert X. apply verify_branch_not_panic. exact Lb.
  Qed.

  Lemma validate_pre_merge_not_panic epochs n hash proof :
    n / K_EpochSize < nlen epochs -> validate_pre_merge H epochs n hash proof <> Panic.
  Proof.
    intros L. unfold validate_pre_merge. destruct (idxN_ok epochs _ L) as [r [E _]]. rewrite E. simpl.
    destruct (turn_to_premerge_cases proof) as [E1|[l [E1 _]]]; rewrite E1; simpl; [discriminate|].
    intros X. apply lift_verdict_panic in X. revert X. apply verify_gindex_not_panic.
  Qed.

  Theorem never_panics epochs roots sums oracle n hash proof :
    K_PreMergeEpochs <= nlen epochs -> oracle <> Some Panic ->
    validate_header_and_proof H true epochs roots sums oracle n hash proof <> Panic.
  Proof.
    intros He Ho. unfold validate_header_and_proof.
    destruct (N.ltb_spec n K_MergeBlockNumber) as [L0|G0].
    { apply validate_pre_merge_not_panic. pose proof (premerge_epoch_in_range n L0). lia. }
    destruct (N.ltb_spec n K_ShanghaiBlockNumber) as [L1|G1].
    { destruct (decode_post_cases 14 11 proof) as [[_ E]|[_ [p [E [Lb _]]]]]; rewrite E; simpl; [discriminate|].
      apply validate_merge_to_capella_not_panic. lia. }
    destruct (N.ltb_spec n K_CancunNumber) as [L2|G2].
    { destruct (decode_post_cases 13 11 proof) as [[_ E]|[_ [p [E [Lb _]]]]]; rewrite E; simpl; [discriminate|].
      apply validate_summaries_not_panic; [assumption|lia]. }
    destruct (decode_post_cases 13 12 proof) as [[_ E]|[_ [p [E [Lb _]]]]]; rewrite E; simpl; [discriminate|].
    apply validate_summaries_not_panic; [assumption|lia].
  Qed.

  (* the hypothesis on the pre-merge accumulator is needed: a caller-supplied accumulator that does not cover the
     addressed epoch makes HistoricalEpochs[epochIndex] panic (both variants; not reachable with the embedded accumulator) *)
  Theorem short_epochs_panic g epochs roots sums oracle n hash proof :
    n < K_MergeBlockNumber -> nlen epochs <= n / K_EpochSize ->
    validate_header_and_proof H g epochs roots sums oracle n hash proof = Panic.
  Proof.
    intros L0 G. unfold validate_header_and_proof. replace (n <? K_MergeBlockNumber) with true by lia.
    unfold validate_pre_merge. replace (idxN epochs (n / K_EpochSize)) with (@Panic bytes); [reflexivity|].
    symmetry. apply idxN_panic_iff. exact G.
  Qed.

  (* ============================== (a) acceptance fixes the position ============================== *)

  (* pre-merge: the position is fixed by the block number *)
  Theorem accept_pre_merge g etrees roots sums oracle n hash proof :
    n < K_MergeBlockNumber ->
    validate_header_and_proof H g (map troot etrees) roots sums oracle n hash proof = Ok tt ->
    exists t, nth_error etrees (N.to_nat (n / K_EpochSize)) = Some t /\
      forall s, subtree t (path_of 15 (premerge_gindex n)) = Some s -> troot s = hash \/ Collision.
  Proof.
    intros L0. unfold validate_header_and_proof. replace (n <? K_MergeBlockNumber) with true by lia.
    unfold validate_pre_merge.
    destruct (idxN (map troot etrees) (n / K_EpochSize)) as [root| |] eqn:Ei; simpl; try discriminate.
    apply idxN_inv in Ei as [_ Ei]. apply nth_error_map_inv in Ei as [t [Et ->]].
    destruct (turn_to_premerge_proof proof) as [branches| |] eqn:Et'; simpl; try discriminate.
    intros X. apply lift_verdict_ok in X. fold (premerge_gindex n) in X.
    exists t. split; [exact Et|]. intros s Hs.
    assert (Ln : length branches = 15%nat).
    { unfold verify_gindex in X. destruct (N.eqb_spec (nlen branches) (N.log2 (premerge_gindex n))) as [E|NE]; [|discriminate].
      rewrite premerge_gindex_depth in E. unfold nlen in E. lia. }
    eapply verify_gindex_sound; [exact X|]. rewrite Ln. exact Hs.
  Qed.

  (* the two-stage check of the post-merge eras, for any accumulator entry that is the root of a tree *)
  Lemma two_stage_sound ge hash p depth gen acc_t bt es :
    verify_exec H ge hash (pp_exec p) (pp_root p) = Ok true ->
    verify_branch H (pp_root p) (pp_beacon p) depth gen (troot acc_t) = Ok true ->
    subtree acc_t (path_of (N.to_nat depth) gen) = Some bt ->
    subtree bt (path_of (length (pp_exec p)) ge) = Some es ->
    troot es = hash \/ Collision.
  Proof.
    intros Ex Eb Hb He.
    destruct (verify_branch_sound H _ _ _ _ _ _ Eb Hb) as [Er|C]; [|right; exact C].
    unfold verify_exec in Ex. rewrite <- Er in Ex.
    eapply verify_branch_sound; [exact Ex|]. unfold nlen. rewrite Nnat.Nat2N.id. exact He.
  Qed.

  (* Merge .. Shanghai: the position is fixed by the proof's slot, inside historical root slot/8192 *)
  Theorem accept_merge_to_capella g epochs rtrees sums oracle n hash proof :
    K_MergeBlockNumber <= n -> n < K_ShanghaiBlockNumber ->
    validate_header_and_proof H g epochs (map troot rtrees) sums oracle n hash proof = Ok tt ->
    exists p rt, decode_post 14 11 proof = Ok p /\
      nth_error rtrees (N.to_nat (pp_slot p / K_epochSize)) = Some rt /\
      forall bt es,
        subtree rt (path_of 14 (2 * K_epochSize + pp_slot p mod K_epochSize)) = Some bt ->
        subtree bt (path_of 11 3228) = Some es ->
        troot es = hash \/ Collision.
  Proof.
    intros G0 L1. unfold validate_header_and_proof.
    replace (n <? K_MergeBlockNumber) with false by lia. replace (n <? K_ShanghaiBlockNumber) with true by lia.
    destruct (decode_post_cases 14 11 proof) as [[_ E]|[_ [p [E [Lb [Le _]]]]]]; rewrite E; simpl; [discriminate|].
    unfold validate_merge_to_capella.
    destruct (lift_verdict (verify_exec H 3228 hash (pp_exec p) (pp_root p)) E_EXEC) as [[]| |] eqn:Ex; simpl; try discriminate.
    apply lift_verdict_ok in Ex.
    destruct (g && (nlen (map troot rtrees) <=? pp_slot p / K_epochSize))%bool; [discriminate|].
    destruct (idxN (map troot rtrees) (pp_slot p / K_epochSize)) as [root| |] eqn:Ei; simpl; try discriminate.
    apply idxN_inv in Ei as [_ Ei]. apply nth_error_map_inv in Ei as [rt [Et ->]].
    intros X. apply lift_verdict_ok in X.
    exists p, rt. split; [reflexivity|]. split; [exact Et|]. intros bt es Hb He.
    eapply two_stage_sound; [exact Ex|exact X|exact Hb|]. rewrite Le. exact He.
  Qed.

  (* summaries of trees; the oracle's answer as trees *)
  Definition oracle_roots (o : option (res (list tree))) : option (res (list bytes)) :=
    match o with
    | None => None
    | Some (Ok l) => Some (Ok (map troot l))
    | Some (Err e) => Some (Err e)
    | Some Panic => Some Panic
    end.
  Definition summary_tree (strees : list tree) (otrees : option (res (list tree))) (slot : N) : option tree :=
    let i := summary_index slot in
    if i <? nlen strees then nth_error strees (N.to_nat i)
    else match otrees with Some (Ok l) => nth_error l (N.to_nat i) | _ => None end.

  Lemma nlen_map {A B} (f : A -> B) l : nlen (map f l) = nlen l.
  Proof. unfold nlen. now rewrite map_length. Qed.

  Lemma get_summary_tree strees otrees slot r :
    get_historical_summary (map troot strees) (oracle_roots otrees) slot = Ok r ->
    exists st, summary_tree strees otrees slot = Some st /\ r = troot st.
  Proof.
    unfold get_historical_summary, summary_tree. rewrite nlen_map.
    destruct (summary_index slot <? nlen strees).
    - intros E. apply idxN_inv in E as [_ E]. apply nth_error_map_inv in E as [st [E ->]]. exists st; split; [exact E|reflexivity].
    - destruct otrees as [[l|e|]|]; simpl; try discriminate. rewrite nlen_map.
      destruct (summary_index slot <? nlen l); [|discriminate].
      intros E. apply idxN_inv in E as [_ E]. apply nth_error_map_inv in E as [st [E ->]]. exists st; split; [exact E|reflexivity].
  Qed.

  Lemma accept_summaries ge strees otrees hash p :
    validate_summaries H ge (map troot strees) (oracle_roots otrees) hash p = Ok tt ->
    exists st, summary_tree strees otrees (pp_slot p) = Some st /\
      forall bt es,
        subtree st (path_of 13 (K_epochSize + pp_slot p mod K_epochSize)) = Some bt ->
        subtree bt (path_of (length (pp_exec p)) ge) = Some es ->
        troot es = hash \/ Collision.
  Proof.
    unfold validate_summaries.
    destruct (lift_verdict (verify_exec H ge hash (pp_exec p) (pp_root p)) E_EXEC) as [[]| |] eqn:Ex; simpl; try discriminate.
    apply lift_verdict_ok in Ex.
    destruct (get_historical_summary (map troot strees) (oracle_roots otrees) (pp_slot p)) as [r| |] eqn:Es; simpl; try discriminate.
    apply get_summary_tree in Es as [st [Est ->]].
    intros X. apply lift_verdict_ok in X.
    exists st. split; [exact Est|]. intros bt es Hb He.
    eapply two_stage_sound; [exact Ex|exact X|exact Hb|exact He].
  Qed.

  (* Shanghai .. Cancun *)
  Theorem accept_capella_to_deneb g epochs roots strees otrees n hash proof :
    K_ShanghaiBlockNumber <= n -> n < K_CancunNumber ->
    validate_header_and_proof H g epochs roots (map troot strees) (oracle_roots otrees) n hash proof = Ok tt ->
    exists p st, decode_post 13 11 proof = Ok p /\
      summary_tree strees otrees (pp_slot p) = Some st /\
      forall bt es,
        subtree st (path_of 13 (K_epochSize + pp_slot p mod K_epochSize)) = Some bt ->
        subtree bt (path_of 11 3228) = Some es ->
        troot es = hash \/ Collision.
  Proof.
    intros G1 L2. unfold validate_header_and_proof. pose proof K_eras_ordered as (O1 & O2 & _).
    replace (n <? K_MergeBlockNumber) with false by lia. replace (n <? K_ShanghaiBlockNumber) with false by lia.
    replace (n <? K_CancunNumber) with true by lia.
    destruct (decode_post_cases 13 11 proof) as [[_ E]|[_ [p [E [Lb [Le _]]]]]]; rewrite E; simpl; [discriminate|].
    intros X. apply accept_summaries in X as [st [Est Hst]]. rewrite Le in Hst.
    exists p, st. split; [reflexivity|]. split; assumption.
  Qed.

  (* Cancun onwards *)
  Theorem accept_post_deneb g epochs roots strees otrees n hash proof :
    K_CancunNumber <= n ->
    validate_header_and_proof H g epochs roots (map troot strees) (oracle_roots otrees) n hash proof = Ok tt ->
    exists p st, decode_post 13 12 proof = Ok p /\
      summary_tree strees otrees (pp_slot p) = Some st /\
      forall bt es,
        subtree st (path_of 13 (K_epochSize + pp_slot p mod K_epochSize)) = Some bt ->
        subtree bt (path_of 12 6444) = Some es ->
        troot es = hash \/ Collision.
  Proof.
    intros G2. unfold validate_header_and_proof. pose proof K_eras_ordered as (O1 & O2 & _).
    replace (n <? K_MergeBlockNumber) with false by lia. replace (n <? K_ShanghaiBlockNumber) with false by lia.
    replace (n <? K_CancunNumber) with false by lia.
    destruct (decode_post_cases 13 12 proof) as [[_ E]|[_ [p [E [Lb [Le _]]]]]]; rewrite E; simpl; [discriminate|].
    intros X. apply accept_summaries in X as [st [Est Hst]]. rewrite Le in Hst.
    exists p, st. split; [reflexivity|]. split; assumption.
  Qed.


  (* ============================== (d) out-of-range positions ============================== *)

  Lemma lift_verdict_exec_cases ge hash p :
    lift_verdict (verify_exec H ge hash (pp_exec p) (pp_root p)) E_EXEC = Ok tt \/
    exists e, lift_verdict (verify_exec H ge hash (pp_exec p) (pp_root p)) E_EXEC = Err e.
  Proof.
    destruct (verify_exec H ge hash (pp_exec p) (pp_root p)) as [[|]|e|] eqn:E; simpl; [left; reflexivity|right; eexists; reflexivity..|].
    exfalso; eapply verify_exec_not_panic; eassumption.
  Qed.

  (* repaired code: a slot beyond the historical-roots accumulator is an error *)
  Theorem roots_out_of_range_err epochs roots sums oracle n hash proof p :
    K_MergeBlockNumber <= n -> n < K_ShanghaiBlockNumber ->
    decode_post 14 11 proof = Ok p -> nlen roots <= pp_slot p / K_epochSize ->
    exists e, validate_header_and_proof H true epochs roots sums oracle n hash proof = Err e.
  Proof.
    intros G0 L1 Ed G. unfold validate_header_and_proof.
    replace (n <? K_MergeBlockNumber) with false by lia. replace (n <? K_ShanghaiBlockNumber) with true by lia.
    rewrite Ed. simpl. unfold validate_merge_to_capella.
    destruct (lift_verdict_exec_cases 3228 hash p) as [E|[e E]]; rewrite E; simpl; [|eexists; reflexivity].
    replace (nlen roots <=? pp_slot p / K_epochSize) with true by lia. eexists; reflexivity.
  Qed.

  (* the code as found: the same situation is a runtime panic as soon as the execution stage passes
     (and its "root" is part of the proof, so the sender can always make it pass) *)
  Theorem roots_out_of_range_as_found epochs roots sums oracle n hash proof p :
    K_MergeBlockNumber <= n -> n < K_ShanghaiBlockNumber ->
    decode_post 14 11 proof = Ok p -> nlen roots <= pp_slot p / K_epochSize ->
    verify_exec H 3228 hash (pp_exec p) (pp_root p) = Ok true ->
    validate_header_and_proof H false epochs roots sums oracle n hash proof = Panic.
  Proof.
    intros G0 L1 Ed G Ex. unfold validate_header_and_proof.
    replace (n <? K_MergeBlockNumber) with false by lia. replace (n <? K_ShanghaiBlockNumber) with true by lia.
    rewrite Ed. simpl. unfold validate_merge_to_capella. rewrite Ex. simpl.
    replace (idxN roots (pp_slot p / K_epochSize)) with (@Panic bytes); [reflexivity|].
    symmetry. apply idxN_panic_iff. exact G.
  Qed.

  Lemma validate_summaries_out_of_range ge sums oracle hash p :
    nlen sums <= summary_index (pp_slot p) ->
    match oracle with Some (Ok l) => nlen l <= summary_index (pp_slot p) | Some Panic => False | _ => True end ->
    exists e, validate_summaries H ge sums oracle hash p = Err e.
  Proof.
    intros G Ho. unfold validate_summaries.
    destruct (lift_verdict_exec_cases ge hash p) as [E|[e E]]; rewrite E; simpl; [|eexists; reflexivity].
    destruct (get_summary_out_of_range sums oracle (pp_slot p) G Ho) as [e E']. rewrite E'. simpl. eexists; reflexivity.
  Qed.

  (* both later eras: a slot whose summary is neither cached nor known to the oracle is an error (either variant) *)
  Theorem summaries_out_of_range_err g epochs roots sums oracle n hash proof p :
    (K_ShanghaiBlockNumber <= n /\ n < K_CancunNumber /\ decode_post 13 11 proof = Ok p) \/
    (K_CancunNumber <= n /\ decode_post 13 12 proof = Ok p) ->
    nlen sums <= summary_index (pp_slot p) ->
    match oracle with Some (Ok l) => nlen l <= summary_index (pp_slot p) | Some Panic => False | _ => True end ->
    exists e, validate_header_and_proof H g epochs roots sums oracle n hash proof = Err e.
  Proof.
    intros Hera G Ho. unfold validate_header_and_proof. pose proof K_eras_ordered as (O1 & O2 & _).
    destruct Hera as [(G1 & L2 & Ed)|(G2 & Ed)].
    - replace (n <? K_MergeBlockNumber) with false by lia. replace (n <? K_ShanghaiBlockNumber) with false by lia.
      replace (n <? K_CancunNumber) with true by lia. rewrite Ed. simpl. apply validate_summaries_out_of_range; assumption.
    - replace (n <? K_MergeBlockNumber) with false by lia. replace (n <? K_ShanghaiBlockNumber) with false by lia.
      replace (n <? K_CancunNumber) with false by lia. rewrite Ed. simpl. apply validate_summaries_out_of_range; assumption.
  Qed.

  (* a slot before the Capella start wraps to an index above 2^51 - 758: an error for every accumulator shorter than that *)
  Corollary summaries_underflow_err g epochs roots sums n hash proof p :
    (K_ShanghaiBlockNumber <= n /\ n < K_CancunNumber /\ decode_post 13 11 proof = Ok p) \/
    (K_CancunNumber <= n /\ decode_post 13 12 proof = Ok p) ->
    pp_slot p < capella_start -> nlen sums <= 2251799813684489 ->
    exists e, validate_header_and_proof H g epochs roots sums None n hash proof = Err e.
  Proof.
    intros Hera Lw Ls. eapply summaries_out_of_range_err; [exact Hera| |exact I].
    pose proof (summary_index_wrap _ Lw) as [_ B]. lia.
  Qed.

End HeaderProofs.

(* ------------------------------------------------------------------ encoders (what an honest prover sends) *)

Fixpoint n2le (k : nat) (n : N) : bytes :=
  match k with O => [] | S k' => n2b (n mod 256) :: n2le k' (n / 256) end.

(* MarshalSSZ of the three post-merge containers *)
Definition encode_post (beacon : list bytes) (root : bytes) (exec : list bytes) (slot : N) : bytes :=
  concat beacon ++ root ++ concat exec ++ n2le 8 slot.

Lemma n2le_length k n : length (n2le k n) = k.
Proof. revert n; induction k as [|k IH]; intros n; cbn [n2le length]; [reflexivity|]. now rewrite IH. Qed.

Lemma le2n_n2le k : forall n, n < 256 ^ N.of_nat k -> le2n (n2le k n) = n.
Proof.
  induction k as [|k IH]; intros n Hn; cbn [n2le le2n].
  - change (256 ^ N.of_nat 0) with 1 in Hn. lia.
  - rewrite b2n_n2b_small by (apply N.mod_lt; lia).
    rewrite IH.
    + pose proof (N.div_mod n 256). lia.
    + replace (N.of_nat (S k)) with (N.succ (N.of_nat k)) in Hn by lia. rewrite N.pow_succ_r in Hn by lia.
      apply N.div_lt_upper_bound; lia.
Qed.

Lemma concat_len32 l : Forall len32 l -> length (concat l) = (length l * 32)%nat.
Proof.
  induction 1 as [|c l Hc _ IH]; cbn [concat length]; [reflexivity|].
  rewrite app_length, IH. unfold len32 in Hc. lia.
Qed.

Lemma chunks_at_concat l : forall ii pre post, Forall len32 l -> length pre = (ii * 32)%nat ->
  chunks_at (length l) ii (pre ++ concat l ++ post) = Ok l.
Proof.
  induction l as [|c l IH]; intros ii pre post F Hp; cbn [length chunks_at concat]; [reflexivity|].
  inversion F as [|? ? Hc F']; subst. unfold len32 in Hc.
  rewrite slice_ok.
  2: lia.
  2: { rewrite !app_length. lia. }
  replace ((ii + 1) * 32 - ii * 32)%nat with 32%nat by lia.
  rewrite skipn_app, skipn_all2 by lia. rewrite Hp, Nat.sub_diag. cbn [skipn app].
  rewrite <- app_assoc. rewrite firstn_app, firstn_all2 by lia. rewrite Hc, Nat.sub_diag. cbn [firstn]. rewrite app_nil_r.
  cbn [bind].
  replace (pre ++ c ++ concat l ++ post) with ((pre ++ c) ++ concat l ++ post) by now rewrite <- app_assoc.
  rewrite IH; [reflexivity|exact F'|]. rewrite app_length. lia.
Qed.

Lemma vec32_concat pre l post : Forall len32 l ->
  vec32 (length l) (pre ++ concat l ++ post) (length pre) (length pre + length l * 32) = Ok l.
Proof.
  intros F. unfold vec32. pose proof (concat_len32 l F) as Lc.
  rewrite slice_ok.
  2: lia.
  2: { rewrite !app_length. lia. }
  replace (length pre + length l * 32 - length pre)%nat with (length l * 32)%nat by lia.
  rewrite skipn_app, skipn_all2 by lia. rewrite Nat.sub_diag. cbn [skipn app].
  rewrite firstn_app, firstn_all2 by lia. rewrite Lc, Nat.sub_diag. cbn [firstn]. rewrite app_nil_r. cbn [bind].
  pose proof (chunks_at_concat l 0 [] [] F eq_refl) as E. cbn [app] in E. rewrite app_nil_r in E. exact E.
Qed.

Lemma decode_post_encode beacon root exec slot :
  Forall len32 beacon -> len32 root -> Forall len32 exec -> slot < two64 ->
  decode_post (length beacon) (length exec) (encode_post beacon root exec slot) = Ok (mk_post beacon root exec slot).
Proof.
  intros Fb Hr Fe Hs. unfold decode_post, encode_post. unfold len32 in Hr.
  pose proof (concat_len32 _ Fb) as Lb. pose proof (concat_len32 _ Fe) as Le. pose proof (n2le_length 8 slot) as Ls.
  assert (Ltot : length (concat beacon ++ root ++ concat exec ++ n2le 8 slot) = (length beacon * 32 + 32 + length exec * 32 + 8)%nat).
  { rewrite !app_length. lia. }
  rewrite Ltot, Nat.eqb_refl. cbn [negb].
  (* beacon vector *)
  pose proof (vec32_concat [] beacon (root ++ concat exec ++ n2le 8 slot) Fb) as E1. cbn [app length] in E1.
  rewrite Nat.add_0_l in E1. rewrite E1. cbn [bind].
  (* root *)
  rewrite slice_ok by lia.
  replace (length beacon * 32 + 32 - length beacon * 32)%nat with 32%nat by lia.
  rewrite skipn_app, skipn_all2 by lia. rewrite Lb, Nat.sub_diag. cbn [skipn app].
  rewrite firstn_app, firstn_all2 by lia. rewrite Hr, Nat.sub_diag. cbn [firstn]. rewrite app_nil_r. cbn [bind].
  (* exec vector *)
  pose proof (vec32_concat (concat beacon ++ root) exec (n2le 8 slot) Fe) as E2.
  rewrite <- app_assoc in E2. rewrite app_length, Lb, Hr in E2. rewrite E2. cbn [bind].
  (* slot *)
  rewrite slice_ok by lia.
  replace (concat beacon ++ root ++ concat exec ++ n2le 8 slot) with ((concat beacon ++ root ++ concat exec) ++ n2le 8 slot)
    by now rewrite <- !app_assoc.
  rewrite skipn_app, skipn_all2 by (rewrite !app_length; lia).
  replace (length beacon * 32 + 32 + length exec * 32 - length (concat beacon ++ root ++ concat exec))%nat with 0%nat
    by (rewrite !app_length; lia).
  cbn [skipn app]. rewrite firstn_all2 by lia. cbn [bind].
  rewrite le2n_n2le by exact Hs. reflexivity.
Qed.

Section Completeness.
  Variable H : bytes -> bytes -> bytes.
  Notation troot := (troot H).
  Notation siblings := (siblings H).
  Notation tree := Merkle.tree.

  Lemma idxN_of_nth {A} (l : list A) i a : nth_error l (N.to_nat i) = Some a -> idxN l i = Ok a.
  Proof.
    intros E. assert (L : i < nlen l).
    { assert (N.to_nat i < length l)%nat by (apply nth_error_Some; congruence). unfold nlen. lia. }
    destruct (idxN_ok l i L) as [a' [E1 E2]]. congruence.
  Qed.

  Lemma path_of_length d index : length (path_of d index) = d.
  Proof. unfold path_of. now rewrite rev_length, bits_from_length. Qed.

  Lemma Forall_rev {A} (P : A -> Prop) l : Forall P l -> Forall P (rev l).
  Proof. intros F. apply Forall_forall. intros x Hx. apply in_rev in Hx. revert x Hx. now apply Forall_forall. Qed.

  (* ============================== (b) honest proofs are accepted ============================== *)

  Theorem honest_pre_merge g etrees roots sums oracle n t s ss :
    n < K_MergeBlockNumber ->
    nth_error etrees (N.to_nat (n / K_EpochSize)) = Some t ->
    subtree t (path_of 15 (premerge_gindex n)) = Some s ->
    siblings t (path_of 15 (premerge_gindex n)) = Some ss ->
    Forall len32 ss ->
    validate_header_and_proof H g (map troot etrees) roots sums oracle n (troot s) (concat (rev ss)) = Ok tt.
  Proof.
    intros L0 Et Hs Hsib F. unfold validate_header_and_proof. replace (n <? K_MergeBlockNumber) with true by lia.
    unfold validate_pre_merge.
    rewrite (idxN_of_nth _ _ (troot t)) by (rewrite nth_error_map, Et; reflexivity). cbn [bind].
    pose proof (siblings_length H _ _ _ Hsib) as Ls. rewrite path_of_length in Ls.
    assert (Fr : Forall len32 (rev ss)) by now apply Forall_rev.
    assert (Lr : length (rev ss) = 15%nat) by now rewrite rev_length.
    unfold turn_to_premerge_proof. rewrite (concat_len32 _ Fr), Lr.
    change (Nat.eqb (Nat.modulo (15 * 32) 32) 0) with true. cbn [negb]. change (Nat.div (15 * 32) 32) with 15%nat.
    pose proof (chunks_at_concat (rev ss) 0 [] [] Fr eq_refl) as E. cbn [app] in E. rewrite app_nil_r, Lr in E.
    rewrite E. cbn [bind]. fold (premerge_gindex n).
    rewrite verify_gindex_complete; [reflexivity| |rewrite Ls; exact Hs|rewrite Ls; exact Hsib].
    rewrite Ls, premerge_gindex_depth. reflexivity.
  Qed.

  (* the same for an accumulator of which only the addressed entry is known to be the root of a tree (used for the prover) *)
  Theorem honest_pre_merge_entry g epochs roots sums oracle n t s ss :
    n < K_MergeBlockNumber ->
    nth_error epochs (N.to_nat (n / K_EpochSize)) = Some (troot t) ->
    subtree t (path_of 15 (premerge_gindex n)) = Some s ->
    siblings t (path_of 15 (premerge_gindex n)) = Some ss ->
    Forall len32 ss ->
    validate_header_and_proof H g epochs roots sums oracle n (troot s) (concat (rev ss)) = Ok tt.
  Proof.
    intros L0 Et Hs Hsib F. unfold validate_header_and_proof. replace (n <? K_MergeBlockNumber) with true by lia.
    unfold validate_pre_merge.
    rewrite (idxN_of_nth _ _ (troot t)) by exact Et. cbn [bind].
    pose proof (siblings_length H _ _ _ Hsib) as Ls. rewrite path_of_length in Ls.
    assert (Fr : Forall len32 (rev ss)) by now apply Forall_rev.
    assert (Lr : length (rev ss) = 15%nat) by now rewrite rev_length.
    unfold turn_to_premerge_proof. rewrite (concat_len32 _ Fr), Lr.
    change (Nat.eqb (Nat.modulo (15 * 32) 32) 0) with true. cbn [negb]. change (Nat.div (15 * 32) 32) with 15%nat.
    pose proof (chunks_at_concat (rev ss) 0 [] [] Fr eq_refl) as E. cbn [app] in E. rewrite app_nil_r, Lr in E.
    rewrite E. cbn [bind]. fold (premerge_gindex n).
    rewrite verify_gindex_complete; [reflexivity| |rewrite Ls; exact Hs|rewrite Ls; exact Hsib].
    rewrite Ls, premerge_gindex_depth. reflexivity.
  Qed.

  Lemma two_stage_complete ge ne depth gen acc_t bt es bsibs esibs :
    subtree acc_t (path_of depth gen) = Some bt -> siblings acc_t (path_of depth gen) = Some bsibs ->
    subtree bt (path_of ne ge) = Some es -> siblings bt (path_of ne ge) = Some esibs ->
    verify_exec H ge (troot es) (rev esibs) (troot bt) = Ok true /\
    verify_branch H (troot bt) (rev bsibs) (N.of_nat depth) gen (troot acc_t) = Ok true.
  Proof.
    intros Hb Hbs He Hes. split.
    - unfold verify_exec. pose proof (siblings_length H _ _ _ Hes) as L. rewrite path_of_length in L.
      unfold nlen. rewrite rev_length, L. eapply verify_branch_complete; eassumption.
    - eapply verify_branch_complete; eassumption.
  Qed.

  Theorem honest_merge_to_capella g epochs rtrees sums oracle n slot rt bt es bsibs esibs :
    K_MergeBlockNumber <= n -> n < K_ShanghaiBlockNumber -> slot < two64 ->
    nth_error rtrees (N.to_nat (slot / K_epochSize)) = Some rt ->
    subtree rt (path_of 14 (2 * K_epochSize + slot mod K_epochSize)) = Some bt ->
    siblings rt (path_of 14 (2 * K_epochSize + slot mod K_epochSize)) = Some bsibs ->
    subtree bt (path_of 11 3228) = Some es ->
    siblings bt (path_of 11 3228) = Some esibs ->
    Forall len32 bsibs -> Forall len32 esibs -> len32 (troot bt) ->
    validate_header_and_proof H g epochs (map troot rtrees) sums oracle n (troot es)
      (encode_post (rev bsibs) (troot bt) (rev esibs) slot) = Ok tt.
  Proof.
    intros G0 L1 Hslot Et Hb Hbs He Hes Fb Fe Hr. unfold validate_header_and_proof.
    replace (n <? K_MergeBlockNumber) with false by lia. replace (n <? K_ShanghaiBlockNumber) with true by lia.
    pose proof (siblings_length H _ _ _ Hbs) as Lb. rewrite path_of_length in Lb.
    pose proof (siblings_length H _ _ _ Hes) as Le. rewrite path_of_length in Le.
    pose proof (decode_post_encode (rev bsibs) (troot bt) (rev esibs) slot (Forall_rev _ _ Fb) Hr (Forall_rev _ _ Fe) Hslot) as Ed.
    rewrite !rev_length, Lb, Le in Ed. rewrite Ed. cbn [bind].
    unfold validate_merge_to_capella. cbn [pp_exec pp_root pp_beacon pp_slot].
    destruct (two_stage_complete 3228 11 14 _ _ _ _ _ _ Hb Hbs He Hes) as [Ex Ebr].
    rewrite Ex. cbn [lift_verdict bind].
    assert (Lr : slot / K_epochSize < nlen (map troot rtrees)).
    { assert (N.to_nat (slot / K_epochSize) < length rtrees)%nat by (apply nth_error_Some; congruence).
      unfold nlen. rewrite map_length. lia. }
    replace (nlen (map troot rtrees) <=? slot / K_epochSize) with false by lia. rewrite andb_false_r.
    rewrite (idxN_of_nth _ _ (troot rt)) by (rewrite nth_error_map, Et; reflexivity). cbn [bind].
    change 14 with (N.of_nat 14). rewrite Ebr. reflexivity.
  Qed.

  Lemma honest_summaries ge ne strees otrees slot st bt es bsibs esibs :
    summary_tree strees otrees slot = Some st ->
    subtree st (path_of 13 (K_epochSize + slot mod K_epochSize)) = Some bt ->
    siblings st (path_of 13 (K_epochSize + slot mod K_epochSize)) = Some bsibs ->
    subtree bt (path_of ne ge) = Some es ->
    siblings bt (path_of ne ge) = Some esibs ->
    validate_summaries H ge (map troot strees) (oracle_roots H otrees) (troot es)
      (mk_post (rev bsibs) (troot bt) (rev esibs) slot) = Ok tt.
  Proof.
    intros Est Hb Hbs He Hes. unfold validate_summaries. cbn [pp_exec pp_root pp_beacon pp_slot].
    destruct (two_stage_complete ge ne 13 _ _ _ _ _ _ Hb Hbs He Hes) as [Ex Ebr].
    rewrite Ex. cbn [lift_verdict bind].
    assert (Es : get_historical_summary (map troot strees) (oracle_roots H otrees) slot = Ok (troot st)).
    { unfold summary_tree in Est. unfold get_historical_summary. rewrite nlen_map.
      destruct (summary_index slot <? nlen strees).
      - apply idxN_of_nth. rewrite nth_error_map, Est. reflexivity.
      - destruct otrees as [[l|e|]|]; try discriminate. cbn [oracle_roots]. rewrite nlen_map.
        assert (Ll : summary_index slot < nlen l).
        { assert (N.to_nat (summary_index slot) < length l)%nat by (apply nth_error_Some; congruence). unfold nlen. lia. }
        replace (summary_index slot <? nlen l) with true by lia.
        apply idxN_of_nth. rewrite nth_error_map, Est. reflexivity. }
    rewrite Es. cbn [bind]. change 13 with (N.of_nat 13). rewrite Ebr. reflexivity.
  Qed.

  Theorem honest_capella_to_deneb g epochs roots strees otrees n slot st bt es bsibs esibs :
    K_ShanghaiBlockNumber <= n -> n < K_CancunNumber -> slot < two64 ->
    summary_tree strees otrees slot = Some st ->
    subtree st (path_of 13 (K_epochSize + slot mod K_epochSize)) = Some bt ->
    siblings st (path_of 13 (K_epochSize + slot mod K_epochSize)) = Some bsibs ->
    subtree bt (path_of 11 3228) = Some es ->
    siblings bt (path_of 11 3228) = Some esibs ->
    Forall len32 bsibs -> Forall len32 esibs -> len32 (troot bt) ->
    validate_header_and_proof H g epochs roots (map troot strees) (oracle_roots H otrees) n (troot es)
      (encode_post (rev bsibs) (troot bt) (rev esibs) slot) = Ok tt.
  Proof.
    intros G1 L2 Hslot Est Hb Hbs He Hes Fb Fe Hr. unfold validate_header_and_proof. pose proof K_eras_ordered as (O1 & O2 & _).
    replace (n <? K_MergeBlockNumber) with false by lia. replace (n <? K_ShanghaiBlockNumber) with false by lia.
    replace (n <? K_CancunNumber) with true by lia.
    pose proof (siblings_length H _ _ _ Hbs) as Lb. rewrite path_of_length in Lb.
    pose proof (siblings_length H _ _ _ Hes) as Le. rewrite path_of_length in Le.
    pose proof (decode_post_encode (rev bsibs) (troot bt) (rev esibs) slot (Forall_rev _ _ Fb) Hr (Forall_rev _ _ Fe) Hslot) as Ed.
    rewrite !rev_length, Lb, Le in Ed. rewrite Ed. cbn [bind].
    eapply honest_summaries; eassumption.
  Qed.

  Theorem honest_post_deneb g epochs roots strees otrees n slot st bt es bsibs esibs :
    K_CancunNumber <= n -> slot < two64 ->
    summary_tree strees otrees slot = Some st ->
    subtree st (path_of 13 (K_epochSize + slot mod K_epochSize)) = Some bt ->
    siblings st (path_of 13 (K_epochSize + slot mod K_epochSize)) = Some bsibs ->
    subtree bt (path_of 12 6444) = Some es ->
    siblings bt (path_of 12 6444) = Some esibs ->
    Forall len32 bsibs -> Forall len32 esibs -> len32 (troot bt) ->
    validate_header_and_proof H g epochs roots (map troot strees) (oracle_roots H otrees) n (troot es)
      (encode_post (rev bsibs) (troot bt) (rev esibs) slot) = Ok tt.
  Proof.
    intros G2 Hslot Est Hb Hbs He Hes Fb Fe Hr. unfold validate_header_and_proof. pose proof K_eras_ordered as (O1 & O2 & _).
    replace (n <? K_MergeBlockNumber) with false by lia. replace (n <? K_ShanghaiBlockNumber) with false by lia.
    replace (n <? K_CancunNumber) with false by lia.
    pose proof (siblings_length H _ _ _ Hbs) as Lb. rewrite path_of_length in Lb.
    pose proof (siblings_length H _ _ _ Hes) as Le. rewrite path_of_length in Le.
    pose proof (decode_post_encode (rev bsibs) (troot bt) (rev esibs) slot (Forall_rev _ _ Fb) Hr (Forall_rev _ _ Fe) Hslot) as Ed.
    rewrite !rev_length, Lb, Le in Ed. rewrite Ed. cbn [bind].
    eapply honest_summaries; eassumption.
  Qed.
End Completeness.

(* ------------------------------------------------------------------ decoding is injective: the bytes ARE the nodes *)

Lemma firstn_plus {A} a : forall b (l : list A), firstn (a + b) l = firstn a l ++ firstn b (skipn a l).
Proof.
  induction a as [|a IH]; intros b l; [reflexivity|].
  destruct l as [|x l]; [now rewrite !firstn_nil|].
  change (S a + b)%nat with (S (a + b)). cbn [firstn skipn app]. f_equal. apply IH.
Qed.

Lemma skipn_skipn {A} x : forall y (l : list A), skipn x (skipn y l) = skipn (x + y) l.
Proof.
  intros y; induction y as [|y IH]; intros l.
  - now rewrite Nat.add_0_r.
  - destruct l as [|a l]; [now rewrite !skipn_nil|].
    replace (x + S y)%nat with (S (x + y)) by lia. cbn [skipn]. apply IH.
Qed.

Lemma chunks_at_flat n : forall ii region l, chunks_at n ii region = Ok l ->
  concat l = firstn (n * 32) (skipn (ii * 32) region).
Proof.
  induction n as [|n IH]; intros ii region l; cbn [chunks_at].
  - intros E; inversion E. reflexivity.
  - destruct (slice region (ii * 32) ((ii + 1) * 32)) as [c| |] eqn:Es; cbn [bind]; try discriminate.
    destruct (chunks_at n (S ii) region) as [r| |] eqn:Ec; cbn [bind]; try discriminate.
    intros E; inversion E; subst. cbn [concat]. apply slice_inv in Es as (_ & _ & -> & _).
    rewrite (IH _ _ _ Ec).
    replace (S n * 32)%nat with (32 + n * 32)%nat by lia. rewrite firstn_plus. rewrite skipn_skipn.
    replace ((ii + 1) * 32 - ii * 32)%nat with 32%nat by lia.
    replace (32 + ii * 32)%nat with (S ii * 32)%nat by lia. reflexivity.
Qed.

Lemma n2le_le2n l : n2le (length l) (le2n l) = l.
Proof.
  induction l as [|b r IH]; [reflexivity|]. cbn [length n2le le2n]. pose proof (b2n_lt b) as Hb.
  replace ((b2n b + 256 * le2n r) mod 256) with (b2n b) by lia.
  replace ((b2n b + 256 * le2n r) / 256) with (le2n r) by lia.
  now rewrite n2b_b2n, IH.
Qed.

Lemma decode_post_flat nb ne buf p : decode_post nb ne buf = Ok p ->
  buf = encode_post (pp_beacon p) (pp_root p) (pp_exec p) (pp_slot p).
Proof.
  unfold decode_post, encode_post, vec32.
  destruct (Nat.eqb_spec (length buf) (nb * 32 + 32 + ne * 32 + 8)) as [L|NE]; cbn [negb]; [|discriminate].
  rewrite !slice_ok by lia. cbn [bind].
  destruct (chunks_at nb 0 _) as [beacon| |] eqn:E1; cbn [bind]; try discriminate.
  destruct (chunks_at ne 0 _) as [exec| |] eqn:E2; cbn [bind]; try discriminate.
  intros E; inversion E; subst p. cbn [pp_beacon pp_root pp_exec pp_slot].
  apply chunks_at_flat in E1. apply chunks_at_flat in E2. rewrite E1, E2. change (0 * 32)%nat with 0%nat. cbn [skipn].
  set (sl := firstn (nb * 32 + 32 + ne * 32 + 8 - (nb * 32 + 32 + ne * 32)) (skipn (nb * 32 + 32 + ne * 32) buf)).
  assert (Lsl : length sl = 8%nat) by (unfold sl; rewrite firstn_length, skipn_length; lia).
  pose proof (n2le_le2n sl) as Esl. rewrite Lsl in Esl. rewrite Esl. unfold sl.
  replace (nb * 32 - 0)%nat with (nb * 32)%nat by lia.
  replace (nb * 32 + 32 - nb * 32)%nat with 32%nat by lia.
  replace (nb * 32 + 32 + ne * 32 - (nb * 32 + 32))%nat with (ne * 32)%nat by lia.
  replace (nb * 32 + 32 + ne * 32 + 8 - (nb * 32 + 32 + ne * 32))%nat with 8%nat by lia.
  rewrite (firstn_all2 (n := nb * 32) (firstn (nb * 32) _)) by (rewrite firstn_length; lia).
  rewrite (firstn_all2 (n := ne * 32) (firstn (ne * 32) _)) by (rewrite firstn_length; lia).
  (* buf = f a ++ f 32 (s a) ++ f e (s (a+32)) ++ f 8 (s (a+32+e)) *)
  rewrite <- (firstn_skipn (nb * 32) buf) at 1. f_equal.
  rewrite <- (firstn_skipn 32 (skipn (nb * 32) buf)) at 1. f_equal.
  rewrite skipn_skipn. replace (32 + nb * 32)%nat with (nb * 32 + 32)%nat by lia.
  rewrite <- (firstn_skipn (ne * 32) (skipn (nb * 32 + 32) buf)) at 1. f_equal.
  rewrite skipn_skipn. replace (ne * 32 + (nb * 32 + 32))%nat with (nb * 32 + 32 + ne * 32)%nat by lia.
  symmetry. apply firstn_all2. rewrite skipn_length. lia.
Qed.

Lemma turn_to_premerge_flat proof l : turn_to_premerge_proof proof = Ok l -> proof = concat l.
Proof.
  unfold turn_to_premerge_proof. destruct (Nat.eqb_spec (Nat.modulo (length proof) 32) 0) as [E|NE]; cbn [negb]; [|discriminate].
  intros Ec. apply chunks_at_flat in Ec. rewrite Ec. change (0 * 32)%nat with 0%nat. cbn [skipn]. symmetry. apply firstn_all2. lia.
Qed.

Section Rejections.
  Variable H : bytes -> bytes -> bytes.
  Notation troot := (troot H).
  Notation siblings := (siblings H).
  Notation Collision := (Collision H).
  Notation tree := Merkle.tree.

  Lemma verify_gindex_siblings root_t index leaf hashes ss :
    verify_gindex H (troot root_t) index leaf hashes = Ok true ->
    siblings root_t (path_of (length hashes) index) = Some ss ->
    hashes = rev ss \/ Collision.
  Proof.
    rewrite verify_gindex_spec. destruct (nlen hashes =? N.log2 index); [|discriminate].
    intros E Hs. inversion E as [E']. apply bytes_eqb_eq in E'.
    assert (Hs' : siblings root_t (map fst (levels_of (length hashes) index hashes)) = Some ss)
      by (rewrite (levels_path H) by lia; exact Hs).
    destruct (fold_siblings_unique H _ _ _ _ E' Hs') as [Eq|C]; [left|right; exact C].
    rewrite (levels_sibs H) in Eq by lia. rewrite firstn_all in Eq. rewrite <- Eq. now rewrite rev_involutive.
  Qed.

  (* ============================== (c) other hash / altered node / wrong size ============================== *)

  (* two different header hashes accepted at the same pre-merge block number: a collision *)
  Theorem two_hashes_pre_merge g etrees roots sums oracle n h1 h2 proof1 proof2 t s :
    n < K_MergeBlockNumber ->
    validate_header_and_proof H g (map troot etrees) roots sums oracle n h1 proof1 = Ok tt ->
    validate_header_and_proof H g (map troot etrees) roots sums oracle n h2 proof2 = Ok tt ->
    nth_error etrees (N.to_nat (n / K_EpochSize)) = Some t ->
    subtree t (path_of 15 (premerge_gindex n)) = Some s ->
    h1 = h2 \/ Collision.
  Proof.
    intros L0 A1 A2 Et Hs.
    destruct (accept_pre_merge H _ _ _ _ _ _ _ _ L0 A1) as [t1 [Et1 S1]].
    destruct (accept_pre_merge H _ _ _ _ _ _ _ _ L0 A2) as [t2 [Et2 S2]].
    assert (t1 = t) by congruence. assert (t2 = t) by congruence. subst t1 t2.
    destruct (S1 _ Hs) as [E1|C]; [|right; exact C]. destruct (S2 _ Hs) as [E2|C]; [|right; exact C].
    left; congruence.
  Qed.

  (* the accepted pre-merge proof is the honest one, byte for byte: any altered sibling is rejected, or a collision *)
  Theorem accepted_is_honest_pre_merge g etrees roots sums oracle n hash proof t ss :
    n < K_MergeBlockNumber ->
    validate_header_and_proof H g (map troot etrees) roots sums oracle n hash proof = Ok tt ->
    nth_error etrees (N.to_nat (n / K_EpochSize)) = Some t ->
    siblings t (path_of 15 (premerge_gindex n)) = Some ss ->
    proof = concat (rev ss) \/ Collision.
  Proof.
    intros L0. unfold validate_header_and_proof. replace (n <? K_MergeBlockNumber) with true by lia.
    unfold validate_pre_merge.
    destruct (idxN (map troot etrees) (n / K_EpochSize)) as [root| |] eqn:Ei; cbn [bind]; try discriminate.
    apply idxN_inv in Ei as [_ Ei]. apply nth_error_map_inv in Ei as [t' [Et' ->]].
    destruct (turn_to_premerge_proof proof) as [branches| |] eqn:Et; cbn [bind]; try discriminate.
    intros X Et0 Hs. apply lift_verdict_ok in X. fold (premerge_gindex n) in X.
    assert (t' = t) by congruence. subst t'.
    assert (Ln : length branches = 15%nat).
    { unfold verify_gindex in X. destruct (N.eqb_spec (nlen branches) (N.log2 (premerge_gindex n))) as [E|NE]; [|discriminate].
      rewrite premerge_gindex_depth in E. unfold nlen in E. lia. }
    destruct (verify_gindex_siblings _ _ _ _ ss X) as [E|C]; [rewrite Ln; exact Hs| |right; exact C].
    left. apply turn_to_premerge_flat in Et. congruence.
  Qed.

  Lemma two_stage_unique ge hash p depth gen acc_t bt bsibs esibs :
    verify_exec H ge hash (pp_exec p) (pp_root p) = Ok true ->
    verify_branch H (pp_root p) (pp_beacon p) depth gen (troot acc_t) = Ok true ->
    length (pp_beacon p) = N.to_nat depth ->
    subtree acc_t (path_of (N.to_nat depth) gen) = Some bt ->
    siblings acc_t (path_of (N.to_nat depth) gen) = Some bsibs ->
    siblings bt (path_of (length (pp_exec p)) ge) = Some esibs ->
    (pp_beacon p = rev bsibs /\ pp_root p = troot bt /\ pp_exec p = rev esibs) \/ Collision.
  Proof.
    intros Ex Eb Lb Hb Hbs Hes.
    destruct (verify_branch_siblings H _ _ _ _ _ _ Eb Hbs) as [E1|C]; [|right; exact C].
    destruct (verify_branch_sound H _ _ _ _ _ _ Eb Hb) as [E2|C]; [|right; exact C].
    unfold verify_exec in Ex. rewrite <- E2 in Ex.
    destruct (verify_branch_siblings H _ _ _ _ _ esibs Ex) as [E3|C]; [|left|right; exact C].
    - unfold nlen. rewrite Nnat.Nat2N.id. exact Hes.
    - rewrite firstn_all2 in E1 by lia. unfold nlen in E3. rewrite Nnat.Nat2N.id, firstn_all in E3.
      repeat split.
      + rewrite <- E1. now rewrite rev_involutive.
      + now rewrite E2.
      + rewrite <- E3. now rewrite rev_involutive.
  Qed.

  Lemma post_proof_eta p : p = mk_post (pp_beacon p) (pp_root p) (pp_exec p) (pp_slot p).
  Proof. destruct p; reflexivity. Qed.

  Theorem accepted_is_honest_merge_to_capella g epochs rtrees sums oracle n hash proof p rt bt bsibs esibs :
    K_MergeBlockNumber <= n -> n < K_ShanghaiBlockNumber ->
    validate_header_and_proof H g epochs (map troot rtrees) sums oracle n hash proof = Ok tt ->
    decode_post 14 11 proof = Ok p ->
    nth_error rtrees (N.to_nat (pp_slot p / K_epochSize)) = Some rt ->
    subtree rt (path_of 14 (2 * K_epochSize + pp_slot p mod K_epochSize)) = Some bt ->
    siblings rt (path_of 14 (2 * K_epochSize + pp_slot p mod K_epochSize)) = Some bsibs ->
    siblings bt (path_of 11 3228) = Some esibs ->
    proof = encode_post (rev bsibs) (troot bt) (rev esibs) (pp_slot p) \/ Collision.
  Proof.
    intros G0 L1. unfold validate_header_and_proof.
    replace (n <? K_MergeBlockNumber) with false by lia. replace (n <? K_ShanghaiBlockNumber) with true by lia.
    intros A Ed. rewrite Ed in A. cbn [bind] in A. revert A.
    destruct (decode_post_cases 14 11 proof) as [[_ E]|[_ [p' [E [Lb [Le _]]]]]]; [congruence|].
    assert (p' = p) by congruence. subst p'.
    unfold validate_merge_to_capella.
    destruct (lift_verdict (verify_exec H 3228 hash (pp_exec p) (pp_root p)) E_EXEC) as [[]| |] eqn:Ex; cbn [bind]; try discriminate.
    apply lift_verdict_ok in Ex.
    destruct (g && (nlen (map troot rtrees) <=? pp_slot p / K_epochSize))%bool; [discriminate|].
    destruct (idxN (map troot rtrees) (pp_slot p / K_epochSize)) as [root| |] eqn:Ei; cbn [bind]; try discriminate.
    apply idxN_inv in Ei as [_ Ei]. apply nth_error_map_inv in Ei as [rt' [Et ->]].
    intros X Et0 Hb Hbs Hes. apply lift_verdict_ok in X. assert (rt' = rt) by congruence. subst rt'.
    destruct (two_stage_unique 3228 hash p 14 _ rt bt bsibs esibs Ex X) as [(E1 & E2 & E3)|C];
      [exact Lb|exact Hb|exact Hbs|rewrite Le; exact Hes| |right; exact C].
    left. rewrite (decode_post_flat _ _ _ _ Ed). congruence.
  Qed.

  Lemma accepted_is_honest_summaries ge strees otrees hash p st bt bsibs esibs :
    validate_summaries H ge (map troot strees) (oracle_roots H otrees) hash p = Ok tt ->
    length (pp_beacon p) = 13%nat ->
    summary_tree strees otrees (pp_slot p) = Some st ->
    subtree st (path_of 13 (K_epochSize + pp_slot p mod K_epochSize)) = Some bt ->
    siblings st (path_of 13 (K_epochSize + pp_slot p mod K_epochSize)) = Some bsibs ->
    siblings bt (path_of (length (pp_exec p)) ge) = Some esibs ->
    (pp_beacon p = rev bsibs /\ pp_root p = troot bt /\ pp_exec p = rev esibs) \/ Collision.
  Proof.
    unfold validate_summaries.
    destruct (lift_verdict (verify_exec H ge hash (pp_exec p) (pp_root p)) E_EXEC) as [[]| |] eqn:Ex; cbn [bind]; try discriminate.
    apply lift_verdict_ok in Ex.
    destruct (get_historical_summary (map troot strees) (oracle_roots H otrees) (pp_slot p)) as [r| |] eqn:Es; cbn [bind]; try discriminate.
    apply get_summary_tree in Es as [st' [Est ->]].
    intros X Lb Est0 Hb Hbs Hes. apply lift_verdict_ok in X. assert (st' = st) by congruence. subst st'.
    eapply two_stage_unique; [exact Ex|exact X|exact Lb|exact Hb|exact Hbs|exact Hes].
  Qed.

  (* Shanghai onwards (both summary eras): ne = 11, gindex 3228 below Cancun; ne = 12, gindex 6444 from Cancun on *)
  Theorem accepted_is_honest_summary_eras g epochs roots strees otrees n hash proof ne ge p st bt bsibs esibs :
    (K_ShanghaiBlockNumber <= n /\ n < K_CancunNumber /\ ne = 11%nat /\ ge = 3228) \/ (K_CancunNumber <= n /\ ne = 12%nat /\ ge = 6444) ->
    validate_header_and_proof H g epochs roots (map troot strees) (oracle_roots H otrees) n hash proof = Ok tt ->
    decode_post 13 ne proof = Ok p ->
    summary_tree strees otrees (pp_slot p) = Some st ->
    subtree st (path_of 13 (K_epochSize + pp_slot p mod K_epochSize)) = Some bt ->
    siblings st (path_of 13 (K_epochSize + pp_slot p mod K_epochSize)) = Some bsibs ->
    siblings bt (path_of ne ge) = Some esibs ->
    proof = encode_post (rev bsibs) (troot bt) (rev esibs) (pp_slot p) \/ Collision.
  Proof.
    intros Hera A Ed Est Hb Hbs Hes. pose proof K_eras_ordered as (O1 & O2 & _).
    destruct (decode_post_cases 13 ne proof) as [[_ E]|[_ [p' [E [Lb [Le _]]]]]]; [congruence|].
    assert (p' = p) by congruence. subst p'.
    assert (A' : validate_summaries H ge (map troot strees) (oracle_roots H otrees) hash p = Ok tt).
    { unfold validate_header_and_proof in A. destruct Hera as [(G1 & L2 & -> & ->)|(G2 & -> & ->)].
      - replace (n <? K_MergeBlockNumber) with false in A by lia. replace (n <? K_ShanghaiBlockNumber) with false in A by lia.
        replace (n <? K_CancunNumber) with true in A by lia. rewrite Ed in A. exact A.
      - replace (n <? K_MergeBlockNumber) with false in A by lia. replace (n <? K_ShanghaiBlockNumber) with false in A by lia.
        replace (n <? K_CancunNumber) with false in A by lia. rewrite Ed in A. exact A. }
    destruct (accepted_is_honest_summaries ge strees otrees hash p st bt bsibs esibs A' Lb Est Hb Hbs) as [(E1 & E2 & E3)|C];
      [rewrite Le; exact Hes| |right; exact C].
    left. rewrite (decode_post_flat _ _ _ _ Ed). congruence.
  Qed.

  (* two different header hashes accepted for the same slot: a collision (Merge .. Shanghai) *)
  Theorem two_hashes_merge_to_capella g epochs rtrees sums oracle n1 n2 h1 h2 proof1 proof2 p1 p2 rt bt es :
    K_MergeBlockNumber <= n1 -> n1 < K_ShanghaiBlockNumber -> K_MergeBlockNumber <= n2 -> n2 < K_ShanghaiBlockNumber ->
    validate_header_and_proof H g epochs (map troot rtrees) sums oracle n1 h1 proof1 = Ok tt ->
    validate_header_and_proof H g epochs (map troot rtrees) sums oracle n2 h2 proof2 = Ok tt ->
    decode_post 14 11 proof1 = Ok p1 -> decode_post 14 11 proof2 = Ok p2 -> pp_slot p1 = pp_slot p2 ->
    nth_error rtrees (N.to_nat (pp_slot p1 / K_epochSize)) = Some rt ->
    subtree rt (path_of 14 (2 * K_epochSize + pp_slot p1 mod K_epochSize)) = Some bt ->
    subtree bt (path_of 11 3228) = Some es ->
    h1 = h2 \/ Collision.
  Proof.
    intros G1 L1 G2 L2 A1 A2 D1 D2 Es Et Hb He.
    destruct (accept_merge_to_capella H _ _ _ _ _ _ _ _ G1 L1 A1) as (q1 & rt1 & D1' & Et1 & S1).
    destruct (accept_merge_to_capella H _ _ _ _ _ _ _ _ G2 L2 A2) as (q2 & rt2 & D2' & Et2 & S2).
    assert (q1 = p1) by congruence. assert (q2 = p2) by congruence. subst q1 q2. rewrite <- Es in Et2, S2.
    assert (rt1 = rt) by congruence. assert (rt2 = rt) by congruence. subst rt1 rt2.
    destruct (S1 _ _ Hb He) as [E1|C]; [|right; exact C]. destruct (S2 _ _ Hb He) as [E2|C]; [|right; exact C].
    left; congruence.
  Qed.

  (* ... and in the two summary eras (the block numbers may even lie in different summary eras if the shapes agree) *)
  Theorem two_hashes_capella_to_deneb g epochs roots strees otrees n1 n2 h1 h2 proof1 proof2 p1 p2 st bt es :
    K_ShanghaiBlockNumber <= n1 -> n1 < K_CancunNumber -> K_ShanghaiBlockNumber <= n2 -> n2 < K_CancunNumber ->
    validate_header_and_proof H g epochs roots (map troot strees) (oracle_roots H otrees) n1 h1 proof1 = Ok tt ->
    validate_header_and_proof H g epochs roots (map troot strees) (oracle_roots H otrees) n2 h2 proof2 = Ok tt ->
    decode_post 13 11 proof1 = Ok p1 -> decode_post 13 11 proof2 = Ok p2 -> pp_slot p1 = pp_slot p2 ->
    summary_tree strees otrees (pp_slot p1) = Some st ->
    subtree st (path_of 13 (K_epochSize + pp_slot p1 mod K_epochSize)) = Some bt ->
    subtree bt (path_of 11 3228) = Some es ->
    h1 = h2 \/ Collision.
  Proof.
    intros G1 L1 G2 L2 A1 A2 D1 D2 Es Et Hb He.
    destruct (accept_capella_to_deneb H _ _ _ _ _ _ _ _ G1 L1 A1) as (q1 & st1 & D1' & Et1 & S1).
    destruct (accept_capella_to_deneb H _ _ _ _ _ _ _ _ G2 L2 A2) as (q2 & st2 & D2' & Et2 & S2).
    assert (q1 = p1) by congruence. assert (q2 = p2) by congruence. subst q1 q2. rewrite <- Es in Et2, S2.
    assert (st1 = st) by congruence. assert (st2 = st) by congruence. subst st1 st2.
    destruct (S1 _ _ Hb He) as [E1|C]; [|right; exact C]. destruct (S2 _ _ Hb He) as [E2|C]; [|right; exact C].
    left; congruence.
  Qed.

  Theorem two_hashes_post_deneb g epochs roots strees otrees n1 n2 h1 h2 proof1 proof2 p1 p2 st bt es :
    K_CancunNumber <= n1 -> K_CancunNumber <= n2 ->
    validate_header_and_proof H g epochs roots (map troot strees) (oracle_roots H otrees) n1 h1 proof1 = Ok tt ->
    validate_header_and_proof H g epochs roots (map troot strees) (oracle_roots H otrees) n2 h2 proof2 = Ok tt ->
    decode_post 13 12 proof1 = Ok p1 -> decode_post 13 12 proof2 = Ok p2 -> pp_slot p1 = pp_slot p2 ->
    summary_tree strees otrees (pp_slot p1) = Some st ->
    subtree st (path_of 13 (K_epochSize + pp_slot p1 mod K_epochSize)) = Some bt ->
    subtree bt (path_of 12 6444) = Some es ->
    h1 = h2 \/ Collision.
  Proof.
    intros G1 G2 A1 A2 D1 D2 Es Et Hb He.
    destruct (accept_post_deneb H _ _ _ _ _ _ _ _ G1 A1) as (q1 & st1 & D1' & Et1 & S1).
    destruct (accept_post_deneb H _ _ _ _ _ _ _ _ G2 A2) as (q2 & st2 & D2' & Et2 & S2).
    assert (q1 = p1) by congruence. assert (q2 = p2) by congruence. subst q1 q2. rewrite <- Es in Et2, S2.
    assert (st1 = st) by congruence. assert (st2 = st) by congruence. subst st1 st2.
    destruct (S1 _ _ Hb He) as [E1|C]; [|right; exact C]. destruct (S2 _ _ Hb He) as [E2|C]; [|right; exact C].
    left; congruence.
  Qed.

  (* wrong size for the era of the block number (a Capella proof for a Deneb header, a pre-merge proof for a post-merge header, ...) *)
  Definition era_proof_size (n : N) : nat :=
    if n <? K_ShanghaiBlockNumber then post_size 14 11 else if n <? K_CancunNumber then post_size 13 11 else post_size 13 12.

  Lemma era_proof_sizes : post_size 14 11 = 840%nat /\ post_size 13 11 = 808%nat /\ post_size 13 12 = 840%nat.
  Proof. repeat split; reflexivity. Qed.

  Theorem wrong_size_rejected g epochs roots sums oracle n hash proof :
    K_MergeBlockNumber <= n -> length proof <> era_proof_size n ->
    validate_header_and_proof H g epochs roots sums oracle n hash proof = Err E_SIZE.
  Proof.
    intros G0. unfold era_proof_size, validate_header_and_proof. replace (n <? K_MergeBlockNumber) with false by lia.
    destruct (n <? K_ShanghaiBlockNumber); [|destruct (n <? K_CancunNumber)]; intros NE.
    - destruct (decode_post_cases 14 11 proof) as [[_ E]|[L _]]; [rewrite E; reflexivity|contradiction].
    - destruct (decode_post_cases 13 11 proof) as [[_ E]|[L _]]; [rewrite E; reflexivity|contradiction].
    - destruct (decode_post_cases 13 12 proof) as [[_ E]|[L _]]; [rewrite E; reflexivity|contradiction].
  Qed.

  Theorem wrong_size_rejected_pre_merge g epochs roots sums oracle n hash proof :
    n < K_MergeBlockNumber -> n / K_EpochSize < nlen epochs -> length proof <> 480%nat ->
    validate_header_and_proof H g epochs roots sums oracle n hash proof = Err E_MULT32 \/
    validate_header_and_proof H g epochs roots sums oracle n hash proof = Err E_PROOF_LEN.
  Proof.
    intros L0 Li NE. unfold validate_header_and_proof. replace (n <? K_MergeBlockNumber) with true by lia.
    unfold validate_pre_merge. destruct (idxN_ok epochs _ Li) as [r [E _]]. rewrite E. cbn [bind].
    destruct (turn_to_premerge_cases proof) as [E1|[l [E1 [Ll _]]]]; rewrite E1; cbn [bind]; [left; reflexivity|right].
    fold (premerge_gindex n). unfold verify_gindex. rewrite premerge_gindex_depth.
    replace (nlen l =? 15) with false by (unfold nlen; lia). reflexivity.
  Qed.
End Rejections.

(* ------------------------------------------------------------------ the two variants differ only where the new guard fires *)
Theorem as_found_agrees_unless_guard_fires H epochs roots sums oracle n hash proof :
  validate_header_and_proof H true epochs roots sums oracle n hash proof <> Err E_ROOTS_RANGE ->
  validate_header_and_proof H false epochs roots sums oracle n hash proof =
  validate_header_and_proof H true epochs roots sums oracle n hash proof.
Proof.
  unfold validate_header_and_proof.
  destruct (n <? K_MergeBlockNumber); [reflexivity|].
  destruct (n <? K_ShanghaiBlockNumber); [|reflexivity].
  destruct (decode_post 14 11 proof) as [p| |]; cbn [bind]; try reflexivity.
  unfold validate_merge_to_capella.
  destruct (lift_verdict (verify_exec H 3228 hash (pp_exec p) (pp_root p)) E_EXEC) as [[]| |]; cbn [bind]; try reflexivity.
  cbn [andb]. destruct (nlen roots <=? pp_slot p / K_epochSize); [|reflexivity].
  intros X. exfalso. apply X. reflexivity.
Qed.

(* ------------------------------------------------------------------ the as-found code: witness of the remote panic
   Header number 16,000,000 (Merge .. Shanghai), hash w_hash (the synthetic header of the harness's `witness` case), execution
   branch of 11 zero siblings, beacon block root folded from the header's own hash over them (w_root), 14 zero beacon
   siblings, slot 2^40; accumulators of the embedded lengths (1897 epochs, 758 historical roots).  The same bytes are replayed
   on the real code by harness/c03.go (truth = witness-oor-roots). *)
Definition zero32 : bytes := repeat x00 32.
Definition w_hash : bytes := [xdb; x7d; xb4; xa5; xbe; x15; x79; x31; x46; x18; x72; x00; x5d; xdc; x4f; xbf; xae; xb2; x39; x24; xdf; xd9; xc5; xb2; x7d; x0d; x89; x27; xd8; x68; x79; xb8].
Definition w_root : bytes := [x38; xfb; x76; x54; x72; xe7; xd1; x5e; xd3; x0b; x78; xed; x4b; x93; x7f; x32; x21; x43; x67; x31; x63; x51; xb4; xbb; x00; xfb; x39; x17; xe7; xc4; xba; x4f].
Definition w_slot : N := 1099511627776.
Definition w_proof : bytes := concat (repeat zero32 14) ++ w_root ++ concat (repeat zero32 11) ++ [x00; x00; x00; x00; x00; x01; x00; x00].
Definition w_post : post_proof := mk_post (repeat zero32 14) w_root (repeat zero32 11) w_slot.
Definition w_epochs : list bytes := repeat zero32 1897.
Definition w_roots : list bytes := repeat zero32 758.

Lemma w_root_is_folded : verify_exec sha_pair 3228 w_hash (repeat zero32 11) w_root = Ok true.
Proof. vm_compute. reflexivity. Qed.

(* clause (e) fails for the code as found: all hypotheses of never_panics hold, the result is a panic *)
Theorem as_found_never_panics_refuted :
  exists epochs roots sums oracle n hash proof,
    K_PreMergeEpochs <= nlen epochs /\ oracle <> Some Panic /\
    validate_header_and_proof sha_pair false epochs roots sums oracle n hash proof = Panic.
Proof.
  exists w_epochs, w_roots, [], None, 16000000, w_hash, w_proof.
  split; [apply N.leb_le; vm_compute; reflexivity|]. split; [discriminate|]. vm_compute. reflexivity.
Qed.

(* clause (d) fails for the code as found: an out-of-range slot does not give an error *)
Theorem as_found_out_of_range_err_refuted :
  exists epochs roots sums oracle n hash proof p,
    K_MergeBlockNumber <= n /\ n < K_ShanghaiBlockNumber /\ decode_post 14 11 proof = Ok p /\
    nlen roots <= pp_slot p / K_epochSize /\
    ~ (exists e, validate_header_and_proof sha_pair false epochs roots sums oracle n hash proof = Err e).
Proof.
  exists w_epochs, w_roots, [], None, 16000000, w_hash, w_proof, w_post.
  split; [apply N.leb_le; vm_compute; reflexivity|]. split; [apply N.ltb_lt; vm_compute; reflexivity|].
  split; [vm_compute; reflexivity|]. split; [apply N.leb_le; vm_compute; reflexivity|].
  intros [e E]. vm_compute in E. discriminate E.
Qed.

(* the same inputs on the repaired model: an error *)
Lemma witness_repaired : validate_header_and_proof sha_pair true w_epochs w_roots [] None 16000000 w_hash w_proof = Err E_ROOTS_RANGE.
Proof. vm_compute. reflexivity. Qed.

(* ------------------------------------------------------------------ a concrete sparse tree (non-vacuity of the premises) *)
Fixpoint path_tree (path : list bool) (sibs : list bytes) (bottom : Merkle.tree) : Merkle.tree :=
  match path, sibs with
  | b :: p, s :: ss => if b then Node (Leaf s) (path_tree p ss bottom) else Node (path_tree p ss bottom) (Leaf s)
  | _, _ => bottom
  end.

(* ------------------------------------------------------------------ histories on one validator: the summaries cache is state *)

Definition is_prefix {A} (p l : list A) : Prop := exists tl, l = p ++ tl.

(* every answer of the oracle is a prefix of one (eventual) true list of summaries; errors and a missing oracle are allowed *)
Definition oracle_consistent (truth : list bytes) (o : option (res (list bytes))) : Prop :=
  match o with Some (Ok l) => is_prefix l truth | _ => True end.

Definition ev_oracle {X Y Z} (ev : option (res (list bytes)) * X * Y * Z) : option (res (list bytes)) := fst (fst (fst ev)).

Lemma get_st_fst cache oracle slot :
  fst (get_historical_summary_st cache oracle slot) = get_historical_summary cache oracle slot.
Proof.
  unfold get_historical_summary_st, get_historical_summary.
  destruct (summary_index slot <? nlen cache); [reflexivity|].
  destruct oracle as [[l|e|]|]; try reflexivity. destruct (summary_index slot <? nlen l); reflexivity.
Qed.

Lemma get_st_cache_prefix truth cache oracle slot :
  is_prefix cache truth -> oracle_consistent truth oracle ->
  is_prefix (snd (get_historical_summary_st cache oracle slot)) truth.
Proof.
  intros Pc Po. unfold get_historical_summary_st.
  destruct (summary_index slot <? nlen cache); [exact Pc|].
  destruct oracle as [[l|e|]|]; try exact Pc. destruct (summary_index slot <? nlen l); [exact Po|exact Pc].
Qed.

(* whatever the provider returns is the TRUE summary of the requested index *)
Lemma summary_is_true truth cache oracle slot r :
  is_prefix cache truth -> oracle_consistent truth oracle ->
  get_historical_summary cache oracle slot = Ok r ->
  nth_error truth (N.to_nat (summary_index slot)) = Some r.
Proof.
  intros [tc Pc] Po. unfold get_historical_summary.
  destruct (summary_index slot <? nlen cache).
  - intros E. apply idxN_inv in E as [L E]. rewrite Pc. rewrite nth_error_app1; [exact E|]. unfold nlen in L. lia.
  - destruct oracle as [[l|e|]|]; try discriminate. destruct Po as [tl Pl].
    destruct (summary_index slot <? nlen l); [|discriminate].
    intros E. apply idxN_inv in E as [L E]. rewrite Pl. rewrite nth_error_app1; [exact E|]. unfold nlen in L. lia.
Qed.

(* ... and every summary the cache or the oracle's answer covers is returned *)
Lemma summary_is_known truth cache oracle slot r :
  is_prefix cache truth -> oracle_consistent truth oracle ->
  nth_error truth (N.to_nat (summary_index slot)) = Some r ->
  (summary_index slot < nlen cache \/ exists l, oracle = Some (Ok l) /\ summary_index slot < nlen l) ->
  get_historical_summary cache oracle slot = Ok r.
Proof.
  intros [tc Pc] Po Hn Hk. unfold get_historical_summary.
  destruct (N.ltb_spec (summary_index slot) (nlen cache)) as [L|G].
  - destruct (idxN_ok cache _ L) as [a [E En]]. rewrite E. f_equal.
    rewrite Pc, nth_error_app1 in Hn by (unfold nlen in L; lia). congruence.
  - destruct Hk as [L|[l [-> L]]]; [lia|]. cbn in Po. destruct Po as [tl Pl].
    replace (summary_index slot <? nlen l) with true by lia.
    destruct (idxN_ok l _ L) as [a [E En]]. rewrite E. f_equal.
    rewrite Pl, nth_error_app1 in Hn by (unfold nlen in L; lia). congruence.
Qed.

Section History.
  Variable H : bytes -> bytes -> bytes.
  Notation troot := (troot H).
  Notation siblings := (siblings H).
  Notation Collision := (Collision H).
  Notation tree := Merkle.tree.

  Lemma validate_summaries_st_fst ge cache oracle hash p :
    fst (validate_summaries_st H ge cache oracle hash p) = validate_summaries H ge cache oracle hash p.
  Proof.
    unfold validate_summaries_st, validate_summaries.
    destruct (lift_verdict (verify_exec H ge hash (pp_exec p) (pp_root p)) E_EXEC) as [[]| |]; cbn [bind fst]; try reflexivity.
    rewrite <- get_st_fst. destruct (get_historical_summary_st cache oracle (pp_slot p)) as [r c']. reflexivity.
  Qed.

  (* the verdict of a step is ValidateHeaderAndProof over the cache the provider holds at that moment *)
  Theorem validate_step_verdict g epochs roots cache oracle n hash proof :
    fst (validate_step H g epochs roots cache (oracle, n, hash, proof)) =
    validate_header_and_proof H g epochs roots cache oracle n hash proof.
  Proof.
    unfold validate_step, validate_header_and_proof.
    destruct (n <? K_MergeBlockNumber); [reflexivity|]. destruct (n <? K_ShanghaiBlockNumber); [reflexivity|].
    destruct (n <? K_CancunNumber).
    - destruct (decode_post 13 11 proof) as [p| |]; cbn [bind]; try reflexivity. apply validate_summaries_st_fst.
    - destruct (decode_post 13 12 proof) as [p| |]; cbn [bind]; try reflexivity. apply validate_summaries_st_fst.
  Qed.

  Lemma validate_summaries_st_prefix truth ge cache oracle hash p :
    is_prefix cache truth -> oracle_consistent truth oracle ->
    is_prefix (snd (validate_summaries_st H ge cache oracle hash p)) truth.
  Proof.
    intros Pc Po. unfold validate_summaries_st.
    destruct (lift_verdict (verify_exec H ge hash (pp_exec p) (pp_root p)) E_EXEC) as [[]| |]; cbn [snd]; try exact Pc.
    pose proof (get_st_cache_prefix truth cache oracle (pp_slot p) Pc Po) as P.
    destruct (get_historical_summary_st cache oracle (pp_slot p)) as [r c']. exact P.
  Qed.

  Lemma validate_step_prefix truth g epochs roots cache ev :
    is_prefix cache truth -> oracle_consistent truth (ev_oracle ev) ->
    is_prefix (snd (validate_step H g epochs roots cache ev)) truth.
  Proof.
    destruct ev as [[[oracle n] hash] proof]. unfold ev_oracle. cbn [fst]. intros Pc Po. unfold validate_step.
    destruct (n <? K_MergeBlockNumber); [exact Pc|]. destruct (n <? K_ShanghaiBlockNumber); [exact Pc|].
    destruct (n <? K_CancunNumber).
    - destruct (decode_post 13 11 proof) as [p| |]; try exact Pc. apply validate_summaries_st_prefix; assumption.
    - destruct (decode_post 13 12 proof) as [p| |]; try exact Pc. apply validate_summaries_st_prefix; assumption.
  Qed.

  (* INVARIANT of every history: after every call the cache is a prefix of the true list *)
  Theorem history_cache_is_true_prefix truth g epochs roots : forall evs cache,
    is_prefix cache truth -> Forall (fun ev => oracle_consistent truth (ev_oracle ev)) evs ->
    Forall (fun vc => is_prefix (snd vc) truth) (run_history H g epochs roots cache evs).
  Proof.
    induction evs as [|ev rest IH]; intros cache Pc F; cbn [run_history]; [constructor|].
    inversion F as [|? ? Fe Fr]; subst.
    pose proof (validate_step_prefix truth g epochs roots cache ev Pc Fe) as P.
    destruct (validate_step H g epochs roots cache ev) as [v c']. cbn [snd] in P.
    constructor; [exact P|]. apply IH; assumption.
  Qed.

  (* era shapes of the two summary eras *)
  Definition summary_era (n : N) (ne : nat) (ge : N) : Prop :=
    (K_ShanghaiBlockNumber <= n /\ n < K_CancunNumber /\ ne = 11%nat /\ ge = 3228) \/ (K_CancunNumber <= n /\ ne = 12%nat /\ ge = 6444).

  Lemma summary_era_dispatch g epochs roots cache oracle n hash proof ne ge :
    summary_era n ne ge ->
    validate_header_and_proof H g epochs roots cache oracle n hash proof =
    bind (decode_post 13 ne proof) (validate_summaries H ge cache oracle hash).
  Proof.
    intros Hera. unfold validate_header_and_proof. pose proof K_eras_ordered as (O1 & O2 & _).
    destruct Hera as [(G1 & L2 & -> & ->)|(G2 & -> & ->)].
    - replace (n <? K_MergeBlockNumber) with false by lia. replace (n <? K_ShanghaiBlockNumber) with false by lia.
      replace (n <? K_CancunNumber) with true by lia. reflexivity.
    - replace (n <? K_MergeBlockNumber) with false by lia. replace (n <? K_ShanghaiBlockNumber) with false by lia.
      replace (n <? K_CancunNumber) with false by lia. reflexivity.
  Qed.

  (* one step, any cache that is a prefix of the true list (= roots of ttrees), any consistent oracle answer: acceptance fixes
     the position inside the TRUE summary of index (slot - capella_start)/8192 *)
  Theorem step_accept_summary_eras g epochs roots ttrees cache oracle n hash proof ne ge :
    summary_era n ne ge ->
    is_prefix cache (map troot ttrees) -> oracle_consistent (map troot ttrees) oracle ->
    fst (validate_step H g epochs roots cache (oracle, n, hash, proof)) = Ok tt ->
    exists p st, decode_post 13 ne proof = Ok p /\
      nth_error ttrees (N.to_nat (summary_index (pp_slot p))) = Some st /\
      forall bt es,
        subtree st (path_of 13 (K_epochSize + pp_slot p mod K_epochSize)) = Some bt ->
        subtree bt (path_of ne ge) = Some es ->
        troot es = hash \/ Collision.
  Proof.
    intros Hera Pc Po. rewrite validate_step_verdict, (summary_era_dispatch _ _ _ _ _ _ _ _ _ _ Hera).
    destruct (decode_post_cases 13 ne proof) as [[_ E]|[_ [p [E [Lb [Le _]]]]]]; rewrite E; cbn [bind]; [discriminate|].
    unfold validate_summaries.
    destruct (lift_verdict (verify_exec H ge hash (pp_exec p) (pp_root p)) E_EXEC) as [[]| |] eqn:Ex; cbn [bind]; try discriminate.
    apply lift_verdict_ok in Ex.
    destruct (get_historical_summary cache oracle (pp_slot p)) as [r| |] eqn:Es; cbn [bind]; try discriminate.
    apply (summary_is_true _ _ _ _ _ Pc Po) in Es. apply nth_error_map_inv in Es as [st [Est ->]].
    intros X. apply lift_verdict_ok in X.
    exists p, st. split; [reflexivity|]. split; [exact Est|]. intros bt es Hb He.
    eapply two_stage_sound; [exact Ex|exact X|exact Hb|rewrite Le; exact He].
  Qed.

  (* one step: the honest proof for a slot whose summary the cache or the oracle's answer covers is accepted *)
  Theorem step_honest_summary_eras g epochs roots ttrees cache oracle n ne ge slot st bt es bsibs esibs :
    summary_era n ne ge -> slot < two64 ->
    is_prefix cache (map troot ttrees) -> oracle_consistent (map troot ttrees) oracle ->
    nth_error ttrees (N.to_nat (summary_index slot)) = Some st ->
    (summary_index slot < nlen cache \/ exists l, oracle = Some (Ok l) /\ summary_index slot < nlen l) ->
    subtree st (path_of 13 (K_epochSize + slot mod K_epochSize)) = Some bt ->
    siblings st (path_of 13 (K_epochSize + slot mod K_epochSize)) = Some bsibs ->
    subtree bt (path_of ne ge) = Some es ->
    siblings bt (path_of ne ge) = Some esibs ->
    Forall len32 bsibs -> Forall len32 esibs -> len32 (troot bt) ->
    fst (validate_step H g epochs roots cache (oracle, n, troot es, encode_post (rev bsibs) (troot bt) (rev esibs) slot)) = Ok tt.
  Proof.
    intros Hera Hslot Pc Po Est Hk Hb Hbs He Hes Fb Fe Hr.
    rewrite validate_step_verdict, (summary_era_dispatch _ _ _ _ _ _ _ _ _ _ Hera).
    pose proof (siblings_length H _ _ _ Hbs) as Lb. rewrite path_of_length in Lb.
    pose proof (siblings_length H _ _ _ Hes) as Le. rewrite path_of_length in Le.
    pose proof (decode_post_encode (rev bsibs) (troot bt) (rev esibs) slot (Forall_rev _ _ Fb) Hr (Forall_rev _ _ Fe) Hslot) as Ed.
    rewrite !rev_length, Lb, Le in Ed. rewrite Ed. cbn [bind].
    unfold validate_summaries. cbn [pp_exec pp_root pp_beacon pp_slot].
    destruct (two_stage_complete H ge ne 13 _ _ _ _ _ _ Hb Hbs He Hes) as [Ex Ebr].
    rewrite Ex. cbn [lift_verdict bind].
    rewrite (summary_is_known _ _ _ _ (troot st) Pc Po); [|rewrite nth_error_map, Est; reflexivity|exact Hk].
    cbn [bind]. change 13 with (N.of_nat 13). rewrite Ebr. reflexivity.
  Qed.

  (* EVERY step of EVERY history with consistent oracle answers: call number k (0-based) accepted => position in the true summary *)
  Theorem history_accept_summary_eras g epochs roots ttrees : forall evs cache k oracle n hash proof ne ge,
    is_prefix cache (map troot ttrees) ->
    Forall (fun ev => oracle_consistent (map troot ttrees) (ev_oracle ev)) evs ->
    nth_error evs k = Some (oracle, n, hash, proof) ->
    summary_era n ne ge ->
    option_map fst (nth_error (run_history H g epochs roots cache evs) k) = Some (Ok tt) ->
    exists p st, decode_post 13 ne proof = Ok p /\
      nth_error ttrees (N.to_nat (summary_index (pp_slot p))) = Some st /\
      forall bt es,
        subtree st (path_of 13 (K_epochSize + pp_slot p mod K_epochSize)) = Some bt ->
        subtree bt (path_of ne ge) = Some es ->
        troot es = hash \/ Collision.
  Proof.
    induction evs as [|ev rest IH]; intros cache k oracle n hash proof ne ge Pc F Hk Hera; [destruct k; discriminate|].
    inversion F as [|? ? Fe Fr]; subst. cbn [run_history].
    pose proof (validate_step_prefix _ g epochs roots cache ev Pc Fe) as P.
    destruct (validate_step H g epochs roots cache ev) as [v c'] eqn:Ev. cbn [snd] in P.
    destruct k as [|k]; cbn [nth_error option_map fst].
    - cbn [nth_error] in Hk. inversion Hk; subst ev. intros X. inversion X; subst v.
      apply (step_accept_summary_eras g epochs roots ttrees cache oracle n hash proof ne ge Hera Pc Fe). rewrite Ev. reflexivity.
    - cbn [nth_error] in Hk. eapply IH; eassumption.
  Qed.

  (* ... and the honest proof is accepted at every step at which its summary is covered by the cache of that moment or by the
     oracle's answer of that step (cache_at = the cache before call k) *)
  Fixpoint cache_before g epochs roots (cache : list bytes) (evs : list (event)) (k : nat) : list bytes :=
    match k, evs with
    | S k', ev :: rest => cache_before g epochs roots (snd (validate_step H g epochs roots cache ev)) rest k'
    | _, _ => cache
    end.

  Theorem history_honest_summary_eras g epochs roots ttrees : forall evs cache k oracle n ne ge slot st bt es bsibs esibs,
    is_prefix cache (map troot ttrees) ->
    Forall (fun ev => oracle_consistent (map troot ttrees) (ev_oracle ev)) evs ->
    nth_error evs k = Some (oracle, n, troot es, encode_post (rev bsibs) (troot bt) (rev esibs) slot) ->
    summary_era n ne ge -> slot < two64 ->
    nth_error ttrees (N.to_nat (summary_index slot)) = Some st ->
    (summary_index slot < nlen (cache_before g epochs roots cache evs k) \/ exists l, oracle = Some (Ok l) /\ summary_index slot < nlen l) ->
    subtree st (path_of 13 (K_epochSize + slot mod K_epochSize)) = Some bt ->
    siblings st (path_of 13 (K_epochSize + slot mod K_epochSize)) = Some bsibs ->
    subtree bt (path_of ne ge) = Some es ->
    siblings bt (path_of ne ge) = Some esibs ->
    Forall len32 bsibs -> Forall len32 esibs -> len32 (troot bt) ->
    option_map fst (nth_error (run_history H g epochs roots cache evs) k) = Some (Ok tt).
  Proof.
    induction evs as [|ev rest IH]; intros cache k oracle n ne ge slot st bt es bsibs esibs Pc F Hk; [destruct k; discriminate|].
    inversion F as [|? ? Fe Fr]; subst. cbn [run_history].
    pose proof (validate_step_prefix _ g epochs roots cache ev Pc Fe) as P.
    destruct k as [|k].
    - cbn [nth_error] in Hk. inversion Hk; subst ev. cbn [cache_before]. intros Hera Hslot Est Hkn Hb Hbs He Hes Fb Fe' Hr.
      pose proof (step_honest_summary_eras g epochs roots ttrees cache oracle n ne ge slot st bt es bsibs esibs
                    Hera Hslot Pc Fe Est Hkn Hb Hbs He Hes Fb Fe' Hr) as S.
      destruct (validate_step H g epochs roots cache _) as [v c']. cbn [nth_error option_map fst] in *. now rewrite S.
    - cbn [nth_error] in Hk. cbn [cache_before]. intros Hera Hslot Est Hkn Hb Hbs He Hes Fb Fe' Hr.
      destruct (validate_step H g epochs roots cache ev) as [v c'] eqn:Ev. cbn [snd] in *. cbn [nth_error].
      eapply IH; eassumption.
  Qed.
End History.

(* ------------------------------------------------------------------ no other state: every step is judged on its own inputs *)
Section HistorySteps.
  Variable H : bytes -> bytes -> bytes.

  Lemma run_history_length g epochs roots : forall evs cache, length (run_history H g epochs roots cache evs) = length evs.
  Proof.
    induction evs as [|ev rest IH]; intros cache; cbn [run_history length]; [reflexivity|].
    destruct (validate_step H g epochs roots cache ev) as [v c']. cbn [length]. now rewrite IH.
  Qed.

  (* the verdict of call k of any history is ValidateHeaderAndProof of that call's own inputs over the cache of that moment:
     nothing else a validator went through before (which headers it has already accepted, with which proofs) has any influence *)
  Theorem history_step_verdict g epochs roots : forall evs cache k oracle n hash proof,
    nth_error evs k = Some (oracle, n, hash, proof) ->
    option_map fst (nth_error (run_history H g epochs roots cache evs) k) =
    Some (validate_header_and_proof H g epochs roots (cache_before H g epochs roots cache evs k) oracle n hash proof).
  Proof.
    induction evs as [|ev rest IH]; intros cache k oracle n hash proof Hk; [destruct k; discriminate|].
    cbn [run_history]. destruct k as [|k].
    - cbn [nth_error] in Hk. inversion Hk; subst ev. cbn [cache_before].
      rewrite <- validate_step_verdict. destruct (validate_step H g epochs roots cache _) as [v c']. reflexivity.
    - cbn [nth_error] in Hk. cbn [cache_before].
      destruct (validate_step H g epochs roots cache ev) as [v c']. cbn [snd nth_error]. apply IH. exact Hk.
  Qed.

  (* before Shanghai there is no state at all: the summaries cache (and the oracle) are never looked at *)
  Theorem verdict_ignores_cache_before_shanghai g epochs roots cache1 oracle1 cache2 oracle2 n hash proof :
    n < K_ShanghaiBlockNumber ->
    validate_header_and_proof H g epochs roots cache1 oracle1 n hash proof =
    validate_header_and_proof H g epochs roots cache2 oracle2 n hash proof.
  Proof.
    intros L. unfold validate_header_and_proof.
    destruct (n <? K_MergeBlockNumber); [reflexivity|]. replace (n <? K_ShanghaiBlockNumber) with true by lia. reflexivity.
  Qed.

  (* ... and such a call leaves the cache alone *)
  Theorem step_keeps_cache_before_shanghai g epochs roots cache oracle n hash proof :
    n < K_ShanghaiBlockNumber -> snd (validate_step H g epochs roots cache (oracle, n, hash, proof)) = cache.
  Proof.
    intros L. unfold validate_step.
    destruct (n <? K_MergeBlockNumber); [reflexivity|]. replace (n <? K_ShanghaiBlockNumber) with true by lia. reflexivity.
  Qed.
End HistorySteps.

(* ------------------------------------------------------------------ overlapping calls: the order does not matter *)
Lemma get_summary_cache_ext cache l slot :
  is_prefix cache l ->
  get_historical_summary cache (Some (Ok l)) slot = get_historical_summary l (Some (Ok l)) slot.
Proof.
  intros [tl ->]. unfold get_historical_summary.
  assert (La : nlen (cache ++ tl) = nlen cache + nlen tl) by (unfold nlen; rewrite app_length; lia). rewrite La.
  destruct (N.ltb_spec (summary_index slot) (nlen cache)) as [L|G].
  - replace (summary_index slot <? nlen cache + nlen tl) with true by lia.
    destruct (idxN_ok cache _ L) as [a [E En]]. rewrite E. symmetry. apply idxN_of_nth.
    rewrite nth_error_app1; [exact En|]. unfold nlen in L. lia.
  - destruct (summary_index slot <? nlen cache + nlen tl); reflexivity.
Qed.

Section Overlap.
  Variable H : bytes -> bytes -> bytes.

  Definition oracle_extends (cache : list bytes) (o : option (res (list bytes))) : Prop :=
    match o with Some (Ok l) => is_prefix cache l | _ => True end.

  Lemma validate_cache_ext g epochs roots cache l n hash proof :
    is_prefix cache l ->
    validate_header_and_proof H g epochs roots cache (Some (Ok l)) n hash proof =
    validate_header_and_proof H g epochs roots l (Some (Ok l)) n hash proof.
  Proof.
    intros P. unfold validate_header_and_proof.
    destruct (n <? K_MergeBlockNumber); [reflexivity|]. destruct (n <? K_ShanghaiBlockNumber); [reflexivity|].
    destruct (n <? K_CancunNumber).
    - destruct (decode_post 13 11 proof) as [p| |]; cbn [bind]; try reflexivity.
      unfold validate_capella_to_deneb, validate_summaries. now rewrite (get_summary_cache_ext _ _ _ P).
    - destruct (decode_post 13 12 proof) as [p| |]; cbn [bind]; try reflexivity.
      unfold validate_post_deneb, validate_summaries. now rewrite (get_summary_cache_ext _ _ _ P).
  Qed.

  (* the cache after a call is the cache before it or the oracle's list *)
  Lemma step_cache_cases g epochs roots cache o n hash proof :
    snd (validate_step H g epochs roots cache (o, n, hash, proof)) = cache \/
    exists l, o = Some (Ok l) /\ snd (validate_step H g epochs roots cache (o, n, hash, proof)) = l.
  Proof.
    assert (S : forall ge p, snd (validate_summaries_st H ge cache o hash p) = cache \/
                             exists l, o = Some (Ok l) /\ snd (validate_summaries_st H ge cache o hash p) = l).
    { intros ge p. unfold validate_summaries_st.
      destruct (lift_verdict (verify_exec H ge hash (pp_exec p) (pp_root p)) E_EXEC) as [[]| |]; cbn [snd]; try (left; reflexivity).
      unfold get_historical_summary_st.
      destruct (summary_index (pp_slot p) <? nlen cache); [left; reflexivity|].
      destruct o as [[l|e|]|]; try (left; reflexivity).
      destruct (summary_index (pp_slot p) <? nlen l); [right; exists l; split; reflexivity|left; reflexivity]. }
    unfold validate_step.
    destruct (n <? K_MergeBlockNumber); [left; reflexivity|]. destruct (n <? K_ShanghaiBlockNumber); [left; reflexivity|].
    destruct (n <? K_CancunNumber).
    - destruct (decode_post 13 11 proof) as [p| |]; try (left; reflexivity). apply S.
    - destruct (decode_post 13 12 proof) as [p| |]; try (left; reflexivity). apply S.
  Qed.

  (* two calls that overlap see the same oracle answer o (an extension of the cache, an error, or no oracle): the verdict of the
     second is the same whether it runs on the cache as it was or after the first has been through the provider - so for EVERY
     interleaving of atomic provider accesses each verdict is validate_header_and_proof of the call's own inputs *)
  Theorem overlapping_calls_order_independent g epochs roots cache o n1 hash1 proof1 n2 hash2 proof2 :
    oracle_extends cache o ->
    fst (validate_step H g epochs roots (snd (validate_step H g epochs roots cache (o, n1, hash1, proof1))) (o, n2, hash2, proof2)) =
    fst (validate_step H g epochs roots cache (o, n2, hash2, proof2)).
  Proof.
    intros Ho. rewrite !validate_step_verdict.
    destruct (step_cache_cases g epochs roots cache o n1 hash1 proof1) as [E|[l [-> E]]]; rewrite E; [reflexivity|].
    symmetry. apply validate_cache_ext. exact Ho.
  Qed.
End Overlap.
