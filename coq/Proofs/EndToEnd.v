(* Proofs/EndToEnd.v : the OFFER path across both nodes (Model/EndToEnd.v): what the receiver Puts is a sub-list, in order,
   of the offered (key, content) pairs at the ACCEPTED indices, each bound to its key (C02 over C03 / C13); nothing is Put
   when the stream is not the intact one or nothing was accepted.  From C09 (Proofs/Offer.v offer_end_to_end), C15
   (Proofs/Framing.v decode_encode_contents), C19 (Proofs/Versions.v) and Proofs/ContentFull.v. *)
From Shisui Require Import Base.Bytes Gen.K_wire.
From Shisui Require Import Model.Framing Model.Dispatch Model.Versions Model.Offer Model.History Model.HeaderProof Model.StateTrie
     Model.ContentFull Model.EndToEnd.
From Shisui Require Import Proofs.Framing Proofs.Dispatch Proofs.Versions Proofs.Offer Proofs.History Proofs.StateTrie
     Proofs.ContentFull.
From Coq Require Import ZifyBool ZifyN ZifyNat.

Local Arguments N.add : simpl never.
Local Arguments N.mul : simpl never.
Local Arguments N.eqb : simpl never.
Local Arguments N.ltb : simpl never.

(* ================================================================ lists *)
Lemma subseq_in {A} (a l : list A) : subseq a l -> forall x, In x a -> In x l.
Proof. induction 1; intros y Hy; [destruct Hy | destruct Hy as [<-|Hy]; [now left | right; auto] | right; auto]. Qed.

Lemma subseq_nil_r {A} (a : list A) : subseq a [] -> a = [].
Proof. inversion 1; reflexivity. Qed.

(* position j of the selected items is a position i of the original lists whose flag is set: the same i for both lists *)
Lemma select_nth2 {A B} (flags : list bool) : forall (a : list A) (b : list B) j x y,
  nth_error (select flags a) j = Some x -> nth_error (select flags b) j = Some y ->
  exists i, nth_error flags i = Some true /\ nth_error a i = Some x /\ nth_error b i = Some y.
Proof.
  induction flags as [|f fr IH]; intros a b j x y Ha Hb; [destruct j; discriminate|].
  destruct a as [|x0 a']; [destruct j; discriminate|]. destruct b as [|y0 b']; [destruct j; discriminate|].
  cbn [select] in Ha, Hb. destruct f.
  - destruct j as [|j']; cbn [nth_error] in Ha, Hb.
    + exists 0%nat. inversion Ha; inversion Hb; subst. auto.
    + destruct (IH a' b' j' x y Ha Hb) as (i & H1 & H2 & H3). exists (S i). auto.
  - destruct (IH a' b' j x y Ha Hb) as (i & H1 & H2 & H3). exists (S i). auto.
Qed.

Lemma combine_nth_error_inv {A B} (a : list A) : forall (b : list B) j x y,
  nth_error (combine a b) j = Some (x, y) -> nth_error a j = Some x /\ nth_error b j = Some y.
Proof.
  induction a as [|x0 a IH]; intros [|y0 b] j x y H; try (destruct j; discriminate).
  destruct j as [|j]; cbn [combine nth_error] in *; [inversion H; auto | now apply IH].
Qed.

(* a pair among the selected pairs is the pair at an accepted index of the offer *)
Lemma selected_pair_index {A B} flags (a : list A) (b : list B) x y :
  length a = length b -> In (x, y) (select flags (combine a b)) ->
  exists i, nth_error flags i = Some true /\ nth_error a i = Some x /\ nth_error b i = Some y.
Proof.
  intros Hl Hin. rewrite select_combine in Hin by exact Hl. apply In_nth_error in Hin as [j Hj].
  apply combine_nth_error_inv in Hj as [H1 H2]. exact (select_nth2 flags a b j x y H1 H2).
Qed.

Lemma skipn_nth_cons {A} (l : list A) : forall i x, nth_error l i = Some x -> skipn i l = x :: skipn (S i) l.
Proof. induction l as [|y l IH]; intros [|i] x H; try discriminate; [inversion H; reflexivity | cbn [skipn]; now apply IH]. Qed.

(* ================================================================ what validateContents Puts, in order *)
Lemma vcs_loop_puts_subseq L v src keys : forall contents i s puts0 r s' puts',
  vcs_loop L v src keys i contents s puts0 = (r, s', puts') ->
  exists added, puts' = puts0 ++ added /\ subseq added (combine (skipn i keys) contents).
Proof.
  unfold vcs_loop. induction contents as [|c rest IH]; intros i s puts0 r s' puts' H; cbn [validate_contents_loop] in H.
  - inversion H; subst. exists []. split; [now rewrite app_nil_r|constructor].
  - unfold idx in H. destruct (nth_error keys i) as [k|] eqn:En.
    2:{ inversion H; subst. exists []. split; [now rewrite app_nil_r|constructor]. }
    rewrite (skipn_nth_cons keys i k En). cbn [combine].
    destruct (History.store_get s k).
    + destruct (IH _ _ _ _ _ _ H) as (added & -> & Hs). exists added. split; [reflexivity|now constructor].
    + match type of H with context [match ?V with Ok _ => _ | Err _ => _ | Panic => _ end] => destruct V as [[]|e|] end.
      * destruct (IH _ _ _ _ _ _ H) as (added & -> & Hs). exists ((k, c) :: added). split; [now rewrite <- app_assoc|now constructor].
      * inversion H; subst. exists []. split; [now rewrite app_nil_r|constructor].
      * inversion H; subst. exists []. split; [now rewrite app_nil_r|constructor].
Qed.

(* handleOfferedContents: exactly one of "one item per awaited key, handed on" / "nothing handed on" *)
Lemma with_offered_contents_exact {R} keys payload (k : list bytes -> R) (fail : res unit -> R) :
  (exists contents, decode_contents payload = Ok contents /\ length contents = length keys /\
                    with_offered_contents keys payload k fail = k contents) \/
  (exists r, r <> Panic /\ with_offered_contents keys payload k fail = fail r /\
             forall contents, decode_contents payload = Ok contents -> length contents <> length keys).
Proof.
  unfold with_offered_contents, Dispatch.handle_offered_contents.
  pose proof (decode_contents_no_panic payload) as Hnp.
  destruct (decode_contents payload) as [cs|e|]; [|right|congruence].
  - destruct (Nat.eqb (length keys) (length cs)) eqn:E.
    + left. exists cs. apply Nat.eqb_eq in E. auto.
    + right. exists (Err E_COUNT). split; [discriminate|]. split; [reflexivity|].
      intros contents Hc Hl. inversion Hc; subst. rewrite Hl, Nat.eqb_refl in E. discriminate.
  - exists (Err e). split; [discriminate|]. split; [reflexivity|]. intros contents Hc. discriminate.
Qed.

(* the receiver side alone, for ANY stream: either the stream held exactly one item per awaited key and the Puts are taken,
   in order, from (awaited key, item) pairs - or nothing happened *)
Lemma history_offered_shape B A src awaited stream s r s' puts :
  history_offered_contents B A src awaited stream s = (r, s', puts) ->
  (exists contents, decode_contents stream = Ok contents /\ length contents = length awaited /\
                    subseq puts (combine awaited contents)) \/
  (puts = [] /\ s' = s /\ forall contents, decode_contents stream = Ok contents -> length contents <> length awaited).
Proof.
  intros H. unfold history_offered_contents in H.
  destruct (with_offered_contents_exact awaited stream
              (fun contents => history_validate_contents B A src awaited contents s) (fun r => (r, s, []))) as
    [(cs & Hd & Hl & E)|(r0 & Hr & E & Hbad)]; rewrite E in H.
  - left. exists cs. split; [exact Hd|]. split; [exact Hl|].
    rewrite history_validate_contents_is_vcs in H. unfold vcs, validate_contents in H.
    destruct (vcs_loop_puts_subseq (lib_of B A) repaired src awaited cs 0 s [] r s' puts H) as (added & -> & Hs). exact Hs.
  - right. inversion H; subst. auto.
Qed.

(* ================================================================ the exchange *)
(* what C09_end_to_end says about offer_exchange: with something accepted the consumer runs on the accepted keys and on what
   the transport makes of encode_contents (accepted contents); with nothing accepted nothing runs *)
Lemma offer_exchange_cases {R} v nv pf cid lookup keys cs deliver (consume : list bytes -> bytes -> R) (idle out : R) :
  v = 0 \/ v = 1 -> (length keys <= 64)%nat -> cid < 65536 -> length cs = length keys -> Forall short cs ->
  offer_exchange (Ok v) (Ok v) nv pf cid lookup keys cs deliver consume idle = Ok out ->
  let flags := final_flags v nv pf keys in
  (anyb flags = true /\ out = consume (select flags keys) (deliver (encode_contents (select flags cs)))) \/
  (anyb flags = false /\ out = idle).
Proof.
  intros Hv H64 Hc HL HS H. cbv zeta. unfold offer_exchange in H.
  destruct (handle_offer (Ok v) nv pf cid keys) as [r0| |] eqn:E; cbn [bind] in H; try discriminate.
  destruct (offer_end_to_end v nv pf cid keys cs r0 lookup true Hv H64 Hc HL HS E) as [Hnone Hsome].
  destruct (anyb (final_flags v nv pf keys)) eqn:Ea.
  - left. split; [reflexivity|]. destruct (Hsome eq_refl) as (EL & (body & EP) & _).
    rewrite EP in H. cbn [bind] in H. rewrite EL, N.eqb_refl in H. now inversion H.
  - right. split; [reflexivity|]. destruct (Hnone eq_refl) as (EL & body & EP).
    rewrite EP in H. cbn [bind] in H. now inversion H.
Qed.

(* ---------------------------------------------------------------- history *)
Definition history_e2e_ok (v : N) (nv : nodeview) (pf : bool) (keys cs : list bytes) (deliver : bytes -> bytes)
           (L : lib) (s s' : History.store) (puts : list (bytes * bytes)) : Prop :=
  let flags := final_flags v nv pf keys in
  let sent := encode_contents (select flags cs) in
  (* whatever the transport delivers: the store stays bound; every Put is bound to its key, and the key was accepted *)
  store_ok L s' /\
  Forall (fun p => genuine L (fst p) (snd p) /\ In (fst p) (select flags keys)) puts /\
  (* the stream arrives intact: the Puts are, in order, offered pairs (k_i, c_i) at accepted indices i *)
  (deliver sent = sent ->
     subseq puts (select flags (combine keys cs)) /\
     forall k c, In (k, c) puts ->
       exists i, nth_error flags i = Some true /\ nth_error keys i = Some k /\ nth_error cs i = Some c) /\
  (* a stream that does not decode to one item per accepted key: nothing is Put *)
  ((forall contents, decode_contents (deliver sent) = Ok contents -> length contents <> length (select flags keys)) ->
     puts = [] /\ s' = s) /\
  (* nothing accepted: nothing is dialled, nobody listens, nothing is Put *)
  (anyb flags = false -> puts = [] /\ s' = s).

Theorem history_end_to_end v nv pf cid lookup keys cs deliver B A src s r s' puts :
  v = 0 \/ v = 1 -> (length keys <= 64)%nat -> cid < 65536 -> length cs = length keys -> Forall short cs ->
  store_ok (lib_of B A) s ->
  history_exchange (Ok v) (Ok v) nv pf cid lookup keys cs deliver B A src s = Ok (r, s', puts) ->
  history_e2e_ok v nv pf keys cs deliver (lib_of B A) s s' puts.
Proof.
  intros Hv H64 Hc HL HS Hs H. unfold history_exchange in H.
  destruct (offer_exchange_cases v nv pf cid lookup keys cs deliver _ _ _ Hv H64 Hc HL HS H) as [[Ea Eo]|[Ea Eo]];
    unfold history_e2e_ok; cbv zeta.
  - symmetry in Eo. set (flags := final_flags v nv pf keys) in *.
    destruct (history_offered_gates_put B A src _ _ s r s' puts Eo Hs) as (S1 & S2 & _).
    pose proof (history_offered_shape B A src _ _ s r s' puts Eo) as Sh.
    split; [exact S1|]. split.
    { apply Forall_forall. intros [k c] Hin. split; [exact (proj1 (Forall_forall _ _) S2 (k, c) Hin)|].
      destruct Sh as [(contents & _ & _ & Hsub)|(-> & _)]; [|destruct Hin].
      apply (subseq_in _ _ Hsub) in Hin. now apply in_combine_l in Hin. }
    split.
    { intros Hint. rewrite Hint in Sh.
      assert (Hsel : Forall short (select flags cs)) by now apply Forall_select.
      rewrite (decode_encode_contents _ Hsel) in Sh.
      assert (Hsub : subseq puts (select flags (combine keys cs))).
      { destruct Sh as [(contents & Hd & _ & Hsub)|(-> & _)]; [|constructor].
        inversion Hd; subst contents. rewrite select_combine by (symmetry; exact HL). exact Hsub. }
      split; [exact Hsub|]. intros k c Hin. apply (subseq_in _ _ Hsub) in Hin.
      apply (selected_pair_index flags keys cs k c (eq_sym HL) Hin). }
    split.
    { intros Hbad. destruct Sh as [(contents & Hd & Hl & _)|(-> & -> & _)]; [exfalso; exact (Hbad contents Hd Hl)|auto]. }
    intros Hf. fold flags in Hf. rewrite Hf in Ea. discriminate.
  - inversion Eo; subst. split; [exact Hs|]. split; [constructor|]. split; [intros _; split; [constructor|intros k c []]|]. auto.
Qed.

(* with the versions the two nodes derive from each other's record on first contact (C19): they agree, and an offerer that
   implements versions 0 and 1 only gets one of them *)
Lemma negotiated_version va vb cx cy nx ny v :
  cx ny = None -> cy nx = None -> (forall x, In x va -> x = 0 \/ x = 1) ->
  version_at_receiver va vb cy nx = Ok v ->
  version_at_offerer va vb cx ny = Ok v /\ (v = 0 \/ v = 1).
Proof.
  intros Hx Hy Hva Hr. unfold version_at_receiver, version_at_offerer in *.
  destruct (two_nodes_compose va vb cx cy nx ny Hx Hy) as (Heq & _). rewrite Heq. split; [exact Hr|].
  rewrite <- Heq in Hr. apply (gos_list_ok va cx ny vb v Hx) in Hr as [[Hin _] _]. now apply Hva.
Qed.

Theorem history_end_to_end_negotiated va vb cx cy nx ny nv pf cid lookup keys cs deliver B A src s r s' puts :
  cx ny = None -> cy nx = None -> (forall x, In x va -> x = 0 \/ x = 1) ->
  (length keys <= 64)%nat -> cid < 65536 -> length cs = length keys -> Forall short cs -> store_ok (lib_of B A) s ->
  history_exchange (version_at_offerer va vb cx ny) (version_at_receiver va vb cy nx) nv pf cid lookup keys cs deliver B A src s
    = Ok (r, s', puts) ->
  exists v, (v = 0 \/ v = 1) /\ version_at_offerer va vb cx ny = Ok v /\ version_at_receiver va vb cy nx = Ok v /\
            history_e2e_ok v nv pf keys cs deliver (lib_of B A) s s' puts.
Proof.
  intros Hx Hy Hva H64 Hc HL HS Hs H.
  destruct (version_at_receiver va vb cy nx) as [v|e|] eqn:Er.
  - destruct (negotiated_version va vb cx cy nx ny v Hx Hy Hva Er) as [Eo Hv]. rewrite Eo in H.
    exists v. split; [exact Hv|]. split; [exact Eo|]. split; [reflexivity|]. eapply history_end_to_end; eauto.
  - unfold history_exchange, offer_exchange, handle_offer, handle_offer_gen in H. discriminate H.
  - unfold history_exchange, offer_exchange, handle_offer, handle_offer_gen in H. discriminate H.
Qed.

(* ---------------------------------------------------------------- state *)
(* the validateContents loop with the positions kept: the pair handled at step j is (keys[j], contents[j]) *)
Section LoopIx.
  Variable St : Type.
  Variable validate : nat -> St -> bytes -> bytes -> res unit.
  Variable put : nat -> St -> bytes -> bytes -> res St.
  Lemma offer_loop_inv_ix (Inv : St -> Prop) keys contents0 :
    (forall j s k c s', nth_error keys j = Some k -> nth_error contents0 j = Some c ->
                        validate j s k c = Ok tt -> put j s k c = Ok s' -> Inv s -> Inv s') ->
    forall contents i s, (forall j c, nth_error contents j = Some c -> nth_error contents0 (i + j) = Some c) ->
    Inv s -> Inv (snd (offer_loop St validate put keys i contents s)).
  Proof.
    intros Hstep. induction contents as [|c rest IH]; intros i s Hc Hs; cbn [offer_loop]; [exact Hs|].
    unfold idx. destruct (nth_error keys i) as [k|] eqn:Ek; [|exact Hs].
    destruct (validate i s k c) as [[]|e|] eqn:Ev; try exact Hs.
    destruct (put i s k c) as [s1|e|] eqn:Ep; try exact Hs.
    apply IH.
    - intros j c' Hj. replace (S i + j)%nat with (i + S j)%nat by lia. now apply Hc.
    - apply (Hstep i s k c s1 Ek); auto. specialize (Hc 0%nat c eq_refl). now rewrite Nat.add_0_r in Hc.
  Qed.
End LoopIx.

(* a value under a content id is justified by position j of (awaited keys, decoded stream items) *)
Definition state_item_at (L : slib) (awaited contents : list bytes) (id v : bytes) (j : nat) (k c : bytes) : Prop :=
  nth_error awaited j = Some k /\ nth_error contents j = Some c /\
  exists t body r, k = t :: body /\ sl_cid L k = id /\ In (b2n t) state_types /\
    sl_dec_item L (b2n t) body c = Ok r /\
    content_ok (sl_node_hash L) (sl_decode L) (sl_decode_account L) (sl_header L j) r /\
    StateTrie.put (sl_node_hash L) r = Ok v /\ expected_stored r = Some v.

Lemma state_validate_contents_at L awaited contents s id v :
  StateTrie.store_get (snd (state_validate_contents L awaited contents s)) id = Some v ->
  StateTrie.store_get s id = Some v \/ exists j k c, state_item_at L awaited contents id v j k c.
Proof.
  unfold state_validate_contents. revert id v.
  apply (offer_loop_inv_ix _ _ _
           (fun s1 => forall id v, StateTrie.store_get s1 id = Some v ->
                        StateTrie.store_get s id = Some v \/ exists j k c, state_item_at L awaited contents id v j k c)
           awaited contents).
  - intros j s1 k c s2 Hk Hc Hv Hp Hs id v Hg.
    pose proof Hv as Hv'. unfold state_validate in Hv'. apply key_dispatch_t_inv in Hv' as (t0 & body0 & Ek & Hin & _).
    destruct (state_put_after_validate L j k c Hv) as (t & body & r & -> & Hd & Hcok & Hpv & _).
    inversion Ek; subst t0 body0.
    unfold state_put in Hp. rewrite Hpv in Hp. destruct (StateTrie.put (sl_node_hash L) r) as [b| |] eqn:Eb; cbn [bind] in Hp; try discriminate.
    inversion Hp; subst s2; clear Hp. cbn [StateTrie.store_get StateTrie.store_put] in Hg.
    destruct (bytes_eqb (sl_cid L (t :: body)) id) eqn:Eid.
    + inversion Hg; subst v. right. exists j, (t :: body), c. apply bytes_eqb_eq in Eid.
      split; [exact Hk|]. split; [exact Hc|]. exists t, body, r. repeat split; auto. now apply put_stores_final in Eb.
    + now apply Hs.
  - intros j c Hj. exact Hj.
  - intros id v Hg. now left.
Qed.

Lemma state_offered_shape L awaited stream s :
  (exists contents, decode_contents stream = Ok contents /\ length contents = length awaited /\
                    state_offered_contents L awaited stream s = state_validate_contents L awaited contents s) \/
  (snd (state_offered_contents L awaited stream s) = s /\
   forall contents, decode_contents stream = Ok contents -> length contents <> length awaited).
Proof.
  unfold state_offered_contents.
  destruct (with_offered_contents_exact awaited stream (fun contents => state_validate_contents L awaited contents s) (fun r => (r, s))) as
    [(cs & Hd & Hl & E)|(r0 & Hr & E & Hbad)]; rewrite E.
  - left. exists cs. auto.
  - right. split; [reflexivity|exact Hbad].
Qed.

Definition state_e2e_ok (v : N) (nv : nodeview) (pf : bool) (keys cs : list bytes) (deliver : bytes -> bytes)
           (L : slib) (s s' : StateTrie.store) : Prop :=
  let flags := final_flags v nv pf keys in
  let sent := encode_contents (select flags cs) in
  (* whatever the transport delivers: a new value under a content id is the final node / the code of a (key, item) pair whose
     key is an ACCEPTED key of the offer and whose decoded form satisfies C13's chain predicate *)
  (forall id val, StateTrie.store_get s' id = Some val ->
     StateTrie.store_get s id = Some val \/
     exists contents j k c, decode_contents (deliver sent) = Ok contents /\ In k (select flags keys) /\
                            state_item_at L (select flags keys) contents id val j k c) /\
  (* the stream arrives intact: that pair is (k_i, c_i) of the offer for an accepted index i *)
  (deliver sent = sent ->
     forall id val, StateTrie.store_get s' id = Some val ->
       StateTrie.store_get s id = Some val \/
       exists i j k c, nth_error flags i = Some true /\ nth_error keys i = Some k /\ nth_error cs i = Some c /\
                       state_item_at L (select flags keys) (select flags cs) id val j k c) /\
  ((forall contents, decode_contents (deliver sent) = Ok contents -> length contents <> length (select flags keys)) -> s' = s) /\
  (anyb flags = false -> s' = s).

Theorem state_end_to_end v nv pf cid lookup keys cs deliver L s r s' :
  v = 0 \/ v = 1 -> (length keys <= 64)%nat -> cid < 65536 -> length cs = length keys -> Forall short cs ->
  state_exchange (Ok v) (Ok v) nv pf cid lookup keys cs deliver L s = Ok (r, s') ->
  state_e2e_ok v nv pf keys cs deliver L s s'.
Proof.
  intros Hv H64 Hc HL HS H. unfold state_exchange in H.
  destruct (offer_exchange_cases v nv pf cid lookup keys cs deliver _ _ _ Hv H64 Hc HL HS H) as [[Ea Eo]|[Ea Eo]];
    unfold state_e2e_ok; cbv zeta.
  - set (flags := final_flags v nv pf keys) in *. set (stream := deliver (encode_contents (select flags cs))) in *.
    assert (Es : s' = snd (state_offered_contents L (select flags keys) stream s)) by (rewrite <- Eo; reflexivity).
    pose proof (state_offered_shape L (select flags keys) stream s) as Sh.
    assert (Any : forall id val, StateTrie.store_get s' id = Some val ->
              StateTrie.store_get s id = Some val \/
              exists contents j k c, decode_contents stream = Ok contents /\ In k (select flags keys) /\
                                     state_item_at L (select flags keys) contents id val j k c).
    { intros id val Hg. rewrite Es in Hg. destruct Sh as [(contents & Hd & _ & E)|(E & _)]; [|rewrite E in Hg; now left].
      rewrite E in Hg. destruct (state_validate_contents_at L _ contents s id val Hg) as [Hold|(j & k & c & Hat)]; [now left|].
      right. exists contents, j, k, c. split; [exact Hd|]. split; [|exact Hat]. destruct Hat as (Hk & _). now apply nth_error_In in Hk. }
    split; [exact Any|]. split.
    { intros Hint id val Hg. destruct (Any id val Hg) as [Hold|(contents & j & k & c & Hd & _ & Hat)]; [now left|]. right.
      rewrite Hint in Hd.
      rewrite (decode_encode_contents _ (Forall_select _ flags cs HS)) in Hd. inversion Hd; subst contents.
      destruct Hat as (Hk & Hcj & Hrest).
      destruct (select_nth2 flags keys cs j k c Hk Hcj) as (i & H1 & H2 & H3).
      exists i, j, k, c. repeat split; auto. }
    split.
    { intros Hbad. rewrite Es. destruct Sh as [(contents & Hd & Hl & _)|(E & _)]; [exfalso; exact (Hbad contents Hd Hl)|exact E]. }
    intros Hf. fold flags in Hf. rewrite Hf in Ea. discriminate.
  - inversion Eo; subst. split; [intros id val Hg; now left|]. split; [intros _ id val Hg; now left|]. auto.
Qed.

Theorem state_end_to_end_negotiated va vb cx cy nx ny nv pf cid lookup keys cs deliver L s r s' :
  cx ny = None -> cy nx = None -> (forall x, In x va -> x = 0 \/ x = 1) ->
  (length keys <= 64)%nat -> cid < 65536 -> length cs = length keys -> Forall short cs ->
  state_exchange (version_at_offerer va vb cx ny) (version_at_receiver va vb cy nx) nv pf cid lookup keys cs deliver L s = Ok (r, s') ->
  exists v, (v = 0 \/ v = 1) /\ version_at_offerer va vb cx ny = Ok v /\ version_at_receiver va vb cy nx = Ok v /\
            state_e2e_ok v nv pf keys cs deliver L s s'.
Proof.
  intros Hx Hy Hva H64 Hc HL HS H.
  destruct (version_at_receiver va vb cy nx) as [v|e|] eqn:Er.
  - destruct (negotiated_version va vb cx cy nx ny v Hx Hy Hva Er) as [Eo Hv]. rewrite Eo in H.
    exists v. split; [exact Hv|]. split; [exact Eo|]. split; [reflexivity|]. eapply state_end_to_end; eauto.
  - unfold state_exchange, offer_exchange, handle_offer, handle_offer_gen in H. discriminate H.
  - unfold state_exchange, offer_exchange, handle_offer, handle_offer_gen in H. discriminate H.
Qed.

(* an index whose flag is set is one of the positions the ACCEPT announces *)
Lemma positions_of_true fl : forall off i, nth_error fl i = Some true -> In (off + i)%nat (positions off fl).
Proof.
  induction fl as [|f fr IH]; intros off [|i] H; try discriminate; cbn [positions nth_error] in *.
  - inversion H; subst. rewrite Nat.add_0_r. now left.
  - replace (off + S i)%nat with (S off + i)%nat by lia. destruct f; [right|]; now apply IH.
Qed.

Lemma accepted_index_means v nv pf keys i :
  v = 0 \/ v = 1 -> nth_error (final_flags v nv pf keys) i = Some true ->
  exists k, nth_error keys i = Some k /\ nv_inrange nv k = true /\ nv_stored nv k = false /\
            (v = 1 -> nv_inflight nv k = false) /\ (v = 0 -> nv_queue_room nv = true) /\ pf = true.
Proof. intros Hv H. apply (flags_sound v nv pf keys i Hv). exact (positions_of_true _ 0 i H). Qed.

(* ======================================================================================================================
   FINDCONTENT across both nodes and the content lookup (Model/EndToEnd.v, second part) *)
From Shisui Require Import Gen.K_handlers Gen.K_table Model.Handlers Model.Lookup Proofs.Handlers Proofs.Gossip Proofs.FindContent
     Proofs.Lookup.

Lemma content_code_byte : b2n (n2b K_msg_CONTENT) = K_msg_CONTENT. Proof. reflexivity. Qed.
Lemma sel_raw_byte : b2n (n2b K_sel_Raw) = K_sel_Raw. Proof. reflexivity. Qed.
Lemma sel_connid_byte : b2n (n2b K_sel_ConnId) = K_sel_ConnId. Proof. reflexivity. Qed.
Lemma sel_enrs_byte : b2n (n2b K_sel_Enrs) = K_sel_Enrs. Proof. reflexivity. Qed.

(* (a) held content, honest transport: the requester obtains exactly the stored bytes - inline when they fit one packet,
   over uTP otherwise - for ANY version value both sides use (0: unframed, 1: varint-framed, C15) *)
Theorem findcontent_end_to_end nodelist srt server requester content v connid enrs_ssz deliver :
  nlen connid = 2 -> short content ->
  deliver (encode_utp_content v content) = encode_utp_content v content ->
  find_content_exchange nodelist srt server requester (St_Found content) (Ok v) (Ok v) connid enrs_ssz deliver =
    Ok (FR_Content content (negb (nlen content <=? findcontent_max_payload))).
Proof.
  intros Hc Hs Hd. unfold find_content_exchange, serve_find_content. rewrite handle_find_content_found.
  destruct (N.leb_spec (nlen content) findcontent_max_payload) as [Hle|Hgt]; cbn [bind negb content_reply_bytes reply_records].
  - unfold request_find_content.
    rewrite (process_content_raw _ _ content _ server content_code_byte sel_raw_byte) by (destruct max_payload_value; lia).
    reflexivity.
  - unfold request_find_content.
    rewrite (process_content_connid _ _ connid _ server content_code_byte sel_connid_byte Hc). cbn [bind].
    rewrite Hd, (utp_roundtrip v content Hs). reflexivity.
Qed.

(* the inline branch does not touch the transport at all *)
Theorem findcontent_inline_any_transport nodelist srt server requester content vs vr connid enrs_ssz deliver :
  nlen content <= findcontent_max_payload ->
  find_content_exchange nodelist srt server requester (St_Found content) vs vr connid enrs_ssz deliver = Ok (FR_Content content false).
Proof.
  intros Hle. unfold find_content_exchange, serve_find_content. rewrite handle_find_content_found.
  replace (nlen content <=? findcontent_max_payload) with true by lia. cbn [bind content_reply_bytes reply_records].
  unfold request_find_content.
  rewrite (process_content_raw _ _ content _ server content_code_byte sel_raw_byte) by (destruct max_payload_value; lia).
  reflexivity.
Qed.

(* with the versions the two nodes derive from each other's record on first contact (C19) *)
Theorem findcontent_end_to_end_negotiated va vb cx cy nx ny nodelist srt server requester content connid enrs_ssz deliver v :
  cx ny = None -> cy nx = None -> version_at_receiver va vb cy nx = Ok v ->
  nlen connid = 2 -> short content -> (forall w, deliver w = w) ->
  find_content_exchange nodelist srt server requester (St_Found content)
      (version_at_offerer va vb cx ny) (version_at_receiver va vb cy nx) connid enrs_ssz deliver =
    Ok (FR_Content content (negb (nlen content <=? findcontent_max_payload))).
Proof.
  intros Hx Hy Hr Hc Hs Hd. unfold version_at_receiver, version_at_offerer in *.
  destruct (two_nodes_compose va vb cx cy nx ny Hx Hy) as (Heq & _). rewrite Heq, Hr.
  apply findcontent_end_to_end; auto.
Qed.

(* (c) not held: the server's list (C08) through the requester's filter (C11) *)
Lemma filter_nodes_aux_subseq sender dists enrs : forall seen, subseq (filter_nodes_aux sender enrs dists seen) enrs.
Proof.
  induction enrs as [|r rest IH]; intros seen; cbn [filter_nodes_aux]; [constructor|].
  destruct (verify_response_node sender r dists seen) as [n|e|] eqn:E.
  - apply verify_response_node_ok in E. subst n. constructor. apply IH.
  - constructor. apply IH.
  - constructor. apply IH.
Qed.

Lemma subseq_sorted cid a l : subseq a l -> sorted_by_b cid l = true -> sorted_by_b cid a = true.
Proof.
  induction 1 as [l|x a l Hs IH|x a l Hs IH]; intros Hl; [reflexivity| |].
  - apply sorted_by_b_cons.
    + intros y Hy. apply (sorted_by_b_hd cid x l Hl). exact (subseq_in _ _ Hs y Hy).
    + apply IH. exact (sorted_by_b_tl cid x l Hl).
  - apply IH. exact (sorted_by_b_tl cid x l Hl).
Qed.

Theorem findcontent_enrs_end_to_end cid srt : is_sort cid srt ->
  forall nodelist server requester vs vr connid enrs_ssz deliver, NoDup (map rid nodelist) ->
  exists enrs accepted,
    handle_find_content nodelist srt (rid requester) St_NotFound = Ok (FC_Enrs enrs) /\
    find_content_exchange nodelist srt server requester St_NotFound vs vr connid enrs_ssz deliver = Ok (FR_Nodes accepted) /\
    accepted = filter_nodes server enrs None /\
    (* a sub-list, in the server's order, of the server's reply, which is taken from the 32 table entries nearest the content *)
    subseq accepted enrs /\ nlen enrs <= 32 /\
    sorted_by_b cid accepted = true /\
    NoDup (map rid accepted) /\
    forall r, In r accepted ->
      In r nodelist /\ In r (firstn 32 (srt nodelist)) /\ rid r <> rid requester /\
      rvalid r = true /\ relay_ok (rflags server) (rflags r) = true /\ 1024 < rport r.
Proof.
  intros Hsort nodelist server requester vs vr connid enrs_ssz deliver Hnd.
  destruct (handle_find_content_not_found cid srt Hsort nodelist (rid requester) Hnd) as (enrs & He & Hn & Hsorted & Hall).
  exists enrs, (filter_nodes server enrs None). split; [exact He|]. split.
  { unfold find_content_exchange, serve_find_content. rewrite He. cbn [bind content_reply_bytes reply_records].
    unfold request_find_content. rewrite (process_content_enrs _ _ enrs_ssz enrs server content_code_byte sel_enrs_byte). reflexivity. }
  split; [reflexivity|].
  assert (Hsub : subseq (filter_nodes server enrs None) enrs) by apply filter_nodes_aux_subseq.
  split; [exact Hsub|]. split; [exact Hn|]. split; [exact (subseq_sorted cid _ _ Hsub Hsorted)|].
  split; [apply asker_no_repeats|].
  intros r Hr. destruct (asker_accepts_sound server enrs None r Hr) as (Hin & Hv & Hrel & Hport & _).
  destruct (Hall r Hin) as (H1 & H2 & H3 & _). repeat split; assumption.
Qed.

(* (b) arbitrary peers.  ContentLookup's result is the processed answer of one of the queried peers - nothing more (C10) *)
Theorem lookup_result_is_a_peer_answer target self tbl U ver resp dec_enrs sender stream s c :
  let cans := fun p => peer_answer ver (resp p) (dec_enrs p) (sender p) (stream p) in
  incl tbl U -> (forall p x, In (Some x) (cnodes cans p) -> In x U) ->
  creachable (xkey target) cans tbl self s -> finished (xkey target) tbl (base s) ->
  content_result s = Some c ->
  exists p utp, In p (qlog (base s)) /\
    request_find_content ver (resp p) (dec_enrs p) (sender p) (stream p) = Ok (FR_Content c utp).
Proof.
  intros cans H1 H2 Hr Hf Hc.
  destruct (content_first_wins (xkey target) (xkey_inj target) self tbl cans U H1 H2 s Hr Hf) as [Hs _].
  destruct (Hs c Hc) as (p & Hq & Hp). exists p. unfold cans, peer_answer in Hp.
  destruct (request_find_content ver (resp p) (dec_enrs p) (sender p) (stream p)) as [[c' utp|ns]| |]; try discriminate.
  inversion Hp; subst. now exists utp.
Qed.

(* the history network's getters validate what the lookup returned BEFORE they decode, store or return it: over ANY lookup
   state (any peers, any transport, any schedule) they return and store only content bound to the requested hash *)
Theorem getters_over_lookup_bound B A src s0 hash (s : cl) : store_ok (lib_of B A) s0 ->
  (forall r s' p, history_get_header B A src (lookup_of s) s0 hash = (r, s', p) ->
     store_ok (lib_of B A) s' /\ Forall (gp (lib_of B A)) p /\
     forall h, r = Ok h -> exists c, genuine (lib_of B A) (x00 :: hash) c /\ hdr_of (lib_of B A) c = Some h) /\
  (forall r s' p, history_get_body B A src (lookup_of s) s0 hash = (r, s', p) ->
     store_ok (lib_of B A) s' /\ Forall (gp (lib_of B A)) p /\
     forall b, r = Ok b -> exists c, genuine (lib_of B A) (x01 :: hash) c /\ hl_dec_body B c = Some b) /\
  (forall r s' p, history_get_receipts B A src (lookup_of s) s0 hash = (r, s', p) ->
     store_ok (lib_of B A) s' /\ Forall (gp (lib_of B A)) p /\
     forall x, r = Ok x -> exists c, genuine (lib_of B A) (x02 :: hash) c /\ hl_dec_receipts B c = Some x).
Proof.
  intros Hs. split; [|split]; intros r s' p H.
  - exact (history_get_header_bound B A src (lookup_of s) s0 hash r s' p H Hs).
  - exact (history_get_body_bound B A src (lookup_of s) s0 hash r s' p H Hs).
  - exact (history_get_receipts_bound B A src (lookup_of s) s0 hash r s' p H Hs).
Qed.

(* first answer wins, validated or not: when the lookup's result fails validation the getter fails, whatever other peers hold *)
Theorem getter_fails_on_bad_first_answer B A src s0 hash (s : cl) c :
  History.store_get s0 (x00 :: hash) = None -> content_result s = Some c ->
  history_validate B A src (x00 :: hash) c <> Ok tt ->
  hacc_ok A ->
  history_get_header B A src (lookup_of s) s0 hash = (Err E_LOOKUP, s0, []).
Proof.
  intros Hg Hc Hv Hok. unfold history_get_header, get_block_header, getter, lookup_of. rewrite Hg, Hc.
  fold (history_validate B A src (x00 :: hash) c).
  pose proof (history_validate_total B A src (x00 :: hash) c Hok) as Hnp.
  destruct (history_validate B A src (x00 :: hash) c) as [[]|e|]; [congruence|reflexivity|congruence].
Qed.

(* the JSON-RPC path returns the lookup's result as it is *)
Theorem api_get_content_is_lookup_result s : api_get_content None s = content_result s.
Proof. reflexivity. Qed.

(* a concrete drained content lookup: target 0, local node 100, table [5]; peer 5 answers with content c, whatever c is.
   The states are those of ContentLookup: table seeded, peer 5 asked, its worker publishes and cancels, its reply is received,
   startQueries returns false. *)
Definition w_cans (c : bytes) : N -> canswer := fun p => if N.eqb p 5 then AContent c else AError.
Definition w_b1 : lk := mkLk [100] [] [] [] (Some [5]) 1 true [].
Definition w_b2 : lk := mkLk [100] [5] [5] [] None 0 true [].
Definition w_b3 : lk := mkLk [5; 100] [5] [5] [5] None 1 true [5].
Definition w_b4 : lk := mkLk [5; 100] [5] [5] [] None 0 true [5].
Definition w_final (c : bytes) : cl := mkCl w_b4 [5] (Some c) true.

Lemma w_lookup_run c :
  creachable (xkey 0) (w_cans c) [5] 100 (w_final c) /\ finished (xkey 0) [5] (base (w_final c)) /\
  content_result (w_final c) = Some c.
Proof.
  split; [|split; [exists w_b4; vm_compute; reflexivity | reflexivity]].
  unfold creachable.
  assert (E1 : cstep (xkey 0) (w_cans c) [5] (cinit 100) (mkCl w_b1 [] None false)).
  { apply (CStart (xkey 0) (w_cans c) [5] (cinit 100) w_b1 true); [vm_compute; reflexivity | discriminate]. }
  assert (E2 : cstep (xkey 0) (w_cans c) [5] (mkCl w_b1 [] None false) (mkCl w_b2 [] None false)).
  { apply (CTbl (xkey 0) (w_cans c) [5] (mkCl w_b1 [] None false) w_b2). vm_compute; reflexivity. }
  assert (E3 : cstep (xkey 0) (w_cans c) [5] (mkCl w_b2 [] None false) (mkCl w_b3 [] None false)).
  { apply (CStart (xkey 0) (w_cans c) [5] (mkCl w_b2 [] None false) w_b3 true); [vm_compute; reflexivity | discriminate]. }
  assert (E4 : cstep (xkey 0) (w_cans c) [5] (mkCl w_b3 [] None false) (mkCl w_b3 [5] (Some c) true)).
  { apply (CWork (xkey 0) (w_cans c) [5] (mkCl w_b3 [] None false) 5); [left; reflexivity | intros []]. }
  assert (E5 : cstep (xkey 0) (w_cans c) [5] (mkCl w_b3 [5] (Some c) true) (w_final c)).
  { apply (CRep (xkey 0) (w_cans c) [5] (mkCl w_b3 [5] (Some c) true) 5 w_b4); [left; reflexivity | left; reflexivity | vm_compute; reflexivity]. }
  exact (csteps_S _ _ _ _ _ _ (csteps_S _ _ _ _ _ _ (csteps_S _ _ _ _ _ _ (csteps_S _ _ _ _ _ _ (csteps_S _ _ _ _ _ _ (csteps_O _ _ _ _) E1) E2) E3) E4) E5).
Qed.

(* hence: the JSON-RPC GetContent path (and the beacon network's getContent) hands its caller whatever ONE queried peer
   answered - for every byte string c there is a lookup (one lying peer suffices) that makes it return c.  In particular
   non-genuine content: with the library instance of the Examples, a header key and 3 bytes of content. *)
Theorem api_get_content_unvalidated c :
  exists cans tbl self s, creachable (xkey 0) cans tbl self s /\ finished (xkey 0) tbl (base s) /\
                          api_get_content None s = Some c.
Proof. exists (w_cans c), [5], 100, (w_final c). destruct (w_lookup_run c) as (H1 & H2 & H3). auto. Qed.

Theorem api_get_content_not_genuine_refuted :
  exists cans tbl self s c, creachable (xkey 0) cans tbl self s /\ finished (xkey 0) tbl (base s) /\
    api_get_content None s = Some c /\ ~ genuine (lib_of ex_hlib ex_hacc) ex_header_key c /\
    (* while the network getter refuses the same lookup result *)
    fst (fst (history_get_header ex_hlib ex_hacc ex_src (lookup_of s) [] (tl ex_header_key))) = Err E_LOOKUP.
Proof.
  exists (w_cans [x01; x02; x03]), [5], 100, (w_final [x01; x02; x03]), [x01; x02; x03].
  destruct (w_lookup_run [x01; x02; x03]) as (H1 & H2 & H3). split; [exact H1|]. split; [exact H2|]. split; [exact H3|].
  split; [|vm_compute; reflexivity].
  unfold ex_header_key. cbn [genuine]. change (Byte.eqb x00 x00) with true. cbv iota.
  intros (hb & proof & h & Hd & _). cbn in Hd. discriminate Hd.
Qed.
