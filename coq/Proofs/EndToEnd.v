(* Proofs/EndToEnd.v : the OFFER path across both nodes (Model/EndToEnd.v): what the receiver Puts is a sub-list, in order,
   of the offered (key, content) pairs at the ACCEPTED indices, each bound to its key (C02 over C03 / C13); nothing is Put
   when the stream is not the intact one or nothing was accepted.  From C09 (Proofs/Offer.v offer_end_to_end), C15
   (Proofs/Framing.v decode_encode_contents), C19 (Proofs/Versions.v) and Proofs/ContentFull.v. *)
From Shisui Require Import Base.Bytes Gen.K_wire.
From Shisui Require Import Model.Framing Model.Dispatch Model.Versions Model.Offer Model.History Model.HeaderProof Model.StateTrie
     Model.ContentFull Model.EndToEnd.
From Shisui Require Import Proofs.Framing Proofs.Dispatch Proofs.Versions Proofs.Offer Proofs.History Proofs.StateTrie
     Proofs.ContentFull.
From Coq Require Import ZifyBool ZifyN ZifyNat.

Local Arguments N.add : simpl never.
Local Arguments N.mul : simpl never.
Local Arguments N.eqb : simpl never.
Local Arguments N.ltb : simpl never.

(* ================================================================ lists *)
Lemma subseq_in {A} (a l : list A) : subseq a l -> forall x, In x a -> In x l.
Proof. induction 1; intros y Hy; [destruct Hy | destruct Hy as [<-|Hy]; [now left | right; auto] | right; auto]. Qed.

Lemma subseq_nil_r {A} (a : list A) : subseq a [] -> a = [].
Proof. inversion 1; reflexivity. Qed.

(* position j of the selected items is a position i of the original lists whose flag is set: the same i for both lists *)
Lemma select_nth2 {A B} (flags : list bool) : forall (a : list A) (b : list B) j x y,
  nth_error (select flags a) j = Some x -> nth_error (select flags b) j = Some y ->
  exists i, nth_error flags i = Some true /\ nth_error a i = Some x /\ nth_error b i = Some y.
Proof.
  induction flags as [|f fr IH]; intros a b j x y Ha Hb; [destruct j; discriminate|].
  destruct a as [|x0 a']; [destruct j; discriminate|]. destruct b as [|y0 b']; [destruct j; discriminate|].
  cbn [select] in Ha, Hb. destruct f.
  - destruct j as [|j']; cbn [nth_error] in Ha, Hb.
    + exists 0%nat. inversion Ha; inversion Hb; subst. auto.
    + destruct (IH a' b' j' x y Ha Hb) as (i & H1 & H2 & H3). exists (S i). auto.
  - destruct (IH a' b' j x y Ha Hb) as (i & H1 & H2 & H3). exists (S i). auto.
Qed.

Lemma combine_nth_error_inv {A B} (a : list A) : forall (b : list B) j x y,
  nth_error (combine a b) j = Some (x, y) -> nth_error a j = Some x /\ nth_error b j = Some y.
Proof.
  induction a as [|x0 a IH]; intros [|y0 b] j x y H; try (destruct j; discriminate).
  destruct j as [|j]; cbn [combine nth_error] in *; [inversion H; auto | now apply IH].
Qed.

(* a pair among the selected pairs is the pair at an accepted index of the offer *)
Lemma selected_pair_index {A B} flags (a : list A) (b : list B) x y :
  length a = length b -> In (x, y) (select flags (combine a b)) ->
  exists i, nth_error flags i = Some true /\ nth_error a i = Some x /\ nth_error b i = Some y.
Proof.
  intros Hl Hin. rewrite select_combine in Hin by exact Hl. apply In_nth_error in Hin as [j Hj].
  apply combine_nth_error_inv in Hj as [H1 H2]. exact (select_nth2 flags a b j x y H1 H2).
Qed.

Lemma skipn_nth_cons {A} (l : list A) : forall i x, nth_error l i = Some x -> skipn i l = x :: skipn (S i) l.
Proof. induction l as [|y l IH]; intros [|i] x H; try discriminate; [inversion H; reflexivity | cbn [skipn]; now apply IH]. Qed.

(* ================================================================ what validateContents Puts, in order *)
Lemma vcs_loop_puts_subseq L v src keys : forall contents i s puts0 r s' puts',
  vcs_loop L v src keys i contents s puts0 = (r, s', puts') ->
  exists added, puts' = puts0 ++ added /\ subseq added (combine (skipn i keys) contents).
Proof.
  unfold vcs_loop. induction contents as [|c rest IH]; intros i s puts0 r s' puts' H; cbn [validate_contents_loop] in H.
  - inversion H; subst. exists []. split; [now rewrite app_nil_r|constructor].
  - unfold idx in H. destruct (nth_error keys i) as [k|] eqn:En.
    2:{ inversion H; subst. exists []. split; [now rewrite app_nil_r|constructor]. }
    rewrite (skipn_nth_cons keys i k En). cbn [combine].
    destruct (History.store_get s k).
    + destruct (IH _ _ _ _ _ _ H) as (added & -> & Hs). exists added. split; [reflexivity|now constructor].
    + match type of H with context [match ?V with Ok _ => _ | Err _ => _ | Panic => _ end] => destruct V as [[]|e|] end.
      * destruct (IH _ _ _ _ _ _ H) as (added & -> & Hs). exists ((k, c) :: added). split; [now rewrite <- app_assoc|now constructor].
      * inversion H; subst. exists []. split; [now rewrite app_nil_r|constructor].
      * inversion H; subst. exists []. split; [now rewrite app_nil_r|constructor].
Qed.

(* handleOfferedContents: exactly one of "one item per awaited key, handed on" / "nothing handed on" *)
Lemma with_offered_contents_exact {R} keys payload (k : list bytes -> R) (fail : res unit -> R) :
  (exists contents, decode_contents payload = Ok contents /\ length contents = length keys /\
                    with_offered_contents keys payload k fail = k contents) \/
  (exists r, r <> Panic /\ with_offered_contents keys payload k fail = fail r /\
             forall contents, decode_contents payload = Ok contents -> length contents <> length keys).
Proof.
  unfold with_offered_contents, Dispatch.handle_offered_contents.
  pose proof (decode_contents_no_panic payload) as Hnp.
  destruct (decode_contents payload) as [cs|e|]; [|right|congruence].
  - destruct (Nat.eqb (length keys) (length cs)) eqn:E.
    + left. exists cs. apply Nat.eqb_eq in E. auto.
    + right. exists (Err E_COUNT). split; [discriminate|]. split; [reflexivity|].
      intros contents Hc Hl. inversion Hc; subst. rewrite Hl, Nat.eqb_refl in E. discriminate.
  - exists (Err e). split; [discriminate|]. split; [reflexivity|]. intros contents Hc. discriminate.
Qed.

(* the receiver side alone, for ANY stream: either the stream held exactly one item per awaited key and the Puts are taken,
   in order, from (awaited key, item) pairs - or nothing happened *)
Lemma history_offered_shape B A src awaited stream s r s' puts :
  history_offered_contents B A src awaited stream s = (r, s', puts) ->
  (exists contents, decode_contents stream = Ok contents /\ length contents = length awaited /\
                    subseq puts (combine awaited contents)) \/
  (puts = [] /\ s' = s /\ forall contents, decode_contents stream = Ok contents -> length contents <> length awaited).
Proof.
  intros H. unfold history_offered_contents in H.
  destruct (with_offered_contents_exact awaited stream
              (fun contents => history_validate_contents B A src awaited contents s) (fun r => (r, s, []))) as
    [(cs & Hd & Hl & E)|(r0 & Hr & E & Hbad)]; rewrite E in H.
  - left. exists cs. split; [exact Hd|]. split; [exact Hl|].
    rewrite history_validate_contents_is_vcs in H. unfold vcs, validate_contents in H.
    destruct (vcs_loop_puts_subseq (lib_of B A) repaired src awaited cs 0 s [] r s' puts H) as (added & -> & Hs). exact Hs.
  - right. inversion H; subst. auto.
Qed.

(* ================================================================ the exchange *)
(* what C09_end_to_end says about offer_exchange: with something accepted the consumer runs on the accepted keys and on what
   the transport makes of encode_contents (accepted contents); with nothing accepted nothing runs *)
Lemma offer_exchange_cases {R} v nv pf cid lookup keys cs deliver (consume : list bytes -> bytes -> R) (idle out : R) :
  v = 0 \/ v = 1 -> (length keys <= 64)%nat -> cid < 65536 -> length cs = length keys -> Forall short cs ->
  offer_exchange (Ok v) (Ok v) nv pf cid lookup keys cs deliver consume idle = Ok out ->
  let flags := final_flags v nv pf keys in
  (anyb flags = true /\ out = consume (select flags keys) (deliver (encode_contents (select flags cs)))) \/
  (anyb flags = false /\ out = idle).
Proof.
  intros Hv H64 Hc HL HS H. cbv zeta. unfold offer_exchange in H.
  destruct (handle_offer (Ok v) nv pf cid keys) as [r0| |] eqn:E; cbn [bind] in H; try discriminate.
  destruct (offer_end_to_end v nv pf cid keys cs r0 lookup true Hv H64 Hc HL HS E) as [Hnone Hsome].
  destruct (anyb (final_flags v nv pf keys)) eqn:Ea.
  - left. split; [reflexivity|]. destruct (Hsome eq_refl) as (EL & (body & EP) & _).
    rewrite EP in H. cbn [bind] in H. rewrite EL, N.eqb_refl in H. now inversion H.
  - right. split; [reflexivity|]. destruct (Hnone eq_refl) as (EL & body & EP).
    rewrite EP in H. cbn [bind] in H. now inversion H.
Qed.

(* ---------------------------------------------------------------- history *)
Definition history_e2e_ok (v : N) (nv : nodeview) (pf : bool) (keys cs : list bytes) (deliver : bytes -> bytes)
           (L : lib) (s s' : History.store) (puts : list (bytes * bytes)) : Prop :=
  let flags := final_flags v nv pf keys in
  let sent := encode_contents (select flags cs) in
  (* whatever the transport delivers: the store stays bound; every Put is bound to its key, and the key was accepted *)
  store_ok L s' /\
  Forall (fun p => genuine L (fst p) (snd p) /\ In (fst p) (select flags keys)) puts /\
  (* the stream arrives intact: the Puts are, in order, offered pairs (k_i, c_i) at accepted indices i *)
  (deliver sent = sent ->
     subseq puts (select flags (combine keys cs)) /\
     forall k c, In (k, c) puts ->
       exists i, nth_error flags i = Some true /\ nth_error keys i = Some k /\ nth_error cs i = Some c) /\
  (* a stream that does not decode to one item per accepted key: nothing is Put *)
  ((forall contents, decode_contents (deliver sent) = Ok contents -> length contents <> length (select flags keys)) ->
     puts = [] /\ s' = s) /\
  (* nothing accepted: nothing is dialled, nobody listens, nothing is Put *)
  (anyb flags = false -> puts = [] /\ s' = s).

Theorem history_end_to_end v nv pf cid lookup keys cs deliver B A src s r s' puts :
  v = 0 \/ v = 1 -> (length keys <= 64)%nat -> cid < 65536 -> length cs = length keys -> Forall short cs ->
  store_ok (lib_of B A) s ->
  history_exchange (Ok v) (Ok v) nv pf cid lookup keys cs deliver B A src s = Ok (r, s', puts) ->
  history_e2e_ok v nv pf keys cs deliver (lib_of B A) s s' puts.
Proof.
  intros Hv H64 Hc HL HS Hs H. unfold history_exchange in H.
  destruct (offer_exchange_cases v nv pf cid lookup keys cs deliver _ _ _ Hv H64 Hc HL HS H) as [[Ea Eo]|[Ea Eo]];
    unfold history_e2e_ok; cbv zeta.
  - symmetry in Eo. set (flags := final_flags v nv pf keys) in *.
    destruct (history_offered_gates_put B A src _ _ s r s' puts Eo Hs) as (S1 & S2 & _).
    pose proof (history_offered_shape B A src _ _ s r s' puts Eo) as Sh.
    split; [exact S1|]. split.
    { apply Forall_forall. intros [k c] Hin. split; [exact (proj1 (Forall_forall _ _) S2 (k, c) Hin)|].
      destruct Sh as [(contents & _ & _ & Hsub)|(-> & _)]; [|destruct Hin].
      apply (subseq_in _ _ Hsub) in Hin. now apply in_combine_l in Hin. }
    split.
    { intros Hint. rewrite Hint in Sh.
      assert (Hsel : Forall short (select flags cs)) by now apply Forall_select.
      rewrite (decode_encode_contents _ Hsel) in Sh.
      assert (Hsub : subseq puts (select flags (combine keys cs))).
      { destruct Sh as [(contents & Hd & _ & Hsub)|(-> & _)]; [|constructor].
        inversion Hd; subst contents. rewrite select_combine by (symmetry; exact HL). exact Hsub. }
      split; [exact Hsub|]. intros k c Hin. apply (subseq_in _ _ Hsub) in Hin.
      apply (selected_pair_index flags keys cs k c (eq_sym HL) Hin). }
    split.
    { intros Hbad. destruct Sh as [(contents & Hd & Hl & _)|(-> & -> & _)]; [exfalso; exact (Hbad contents Hd Hl)|auto]. }
    intros Hf. fold flags in Hf. rewrite Hf in Ea. discriminate.
  - inversion Eo; subst. split; [exact Hs|]. split; [constructor|]. split; [intros _; split; [constructor|intros k c []]|]. auto.
Qed.

(* with the versions the two nodes derive from each other's record on first contact (C19): they agree, and an offerer that
   implements versions 0 and 1 only gets one of them *)
Lemma negotiated_version va vb cx cy nx ny v :
  cx ny = None -> cy nx = None -> (forall x, In x va -> x = 0 \/ x = 1) ->
  version_at_receiver va vb cy nx = Ok v ->
  version_at_offerer va vb cx ny = Ok v /\ (v = 0 \/ v = 1).
Proof.
  intros Hx Hy Hva Hr. unfold version_at_receiver, version_at_offerer in *.
  destruct (two_nodes_compose va vb cx cy nx ny Hx Hy) as (Heq & _). rewrite Heq. split; [exact Hr|].
  rewrite <- Heq in Hr. apply (gos_list_ok va cx ny vb v Hx) in Hr as [[Hin _] _]. now apply Hva.
Qed.

Theorem history_end_to_end_negotiated va vb cx cy nx ny nv pf cid lookup keys cs deliver B A src s r s' puts :
  cx ny = None -> cy nx = None -> (forall x, In x va -> x = 0 \/ x = 1) ->
  (length keys <= 64)%nat -> cid < 65536 -> length cs = length keys -> Forall short cs -> store_ok (lib_of B A) s ->
  history_exchange (version_at_offerer va vb cx ny) (version_at_receiver va vb cy nx) nv pf cid lookup keys cs deliver B A src s
    = Ok (r, s', puts) ->
  exists v, (v = 0 \/ v = 1) /\ version_at_offerer va vb cx ny = Ok v /\ version_at_receiver va vb cy nx = Ok v /\
            history_e2e_ok v nv pf keys cs deliver (lib_of B A) s s' puts.
Proof.
  intros Hx Hy Hva H64 Hc HL HS Hs H.
  destruct (version_at_receiver va vb cy nx) as [v|e|] eqn:Er.
  - destruct (negotiated_version va vb cx cy nx ny v Hx Hy Hva Er) as [Eo Hv]. rewrite Eo in H.
    exists v. split; [exact Hv|]. split; [exact Eo|]. split; [reflexivity|]. eapply history_end_to_end; eauto.
  - unfold history_exchange, offer_exchange, handle_offer, handle_offer_gen in H. discriminate H.
  - unfold history_exchange, offer_exchange, handle_offer, handle_offer_gen in H. discriminate H.
Qed.

(* ---------------------------------------------------------------- state *)
(* the validateContents loop with the positions kept: the pair handled at step j is (keys[j], contents[j]) *)
Section LoopIx.
  Variable St : Type.
  Variable validate : nat -> St -> bytes -> bytes -> res unit.
  Variable put : nat -> St -> bytes -> bytes -> res St.
  Lemma offer_loop_inv_ix (Inv : St -> Prop) keys contents0 :
    (forall j s k c s', nth_error keys j = Some k -> nth_error contents0 j = Some c ->
                        validate j s k c = Ok tt -> put j s k c = Ok s' -> Inv s -> Inv s') ->
    forall contents i s, (forall j c, nth_error contents j = Some c -> nth_error contents0 (i + j) = Some c) ->
    Inv s -> Inv (snd (offer_loop St validate put keys i contents s)).
  Proof.
    intros Hstep. induction contents as [|c rest IH]; intros i s Hc Hs; cbn [offer_loop]; [exact Hs|].
    unfold idx. destruct (nth_error keys i) as [k|] eqn:Ek; [|exact Hs].
    destruct (validate i s k c) as [[]|e|] eqn:Ev; try exact Hs.
    destruct (put i s k c) as [s1|e|] eqn:Ep; try exact Hs.
    apply IH.
    - intros j c' Hj. replace (S i + j)%nat with (i + S j)%nat by lia. now apply Hc.
    - apply (Hstep i s k c s1 Ek); auto. specialize (Hc 0%nat c eq_refl). now rewrite Nat.add_0_r in Hc.
  Qed.
End LoopIx.

(* a value under a content id is justified by position j of (awaited keys, decoded stream items) *)
Definition state_item_at (L : slib) (awaited contents : list bytes) (id v : bytes) (j : nat) (k c : bytes) : Prop :=
  nth_error awaited j = Some k /\ nth_error contents j = Some c /\
  exists t body r, k = t :: body /\ sl_cid L k = id /\ In (b2n t) state_types /\
    sl_dec_item L (b2n t) body c = Ok r /\
    content_ok (sl_node_hash L) (sl_decode L) (sl_decode_account L) (sl_header L j) r /\
    StateTrie.put (sl_node_hash L) r = Ok v /\ expected_stored r = Some v.

Lemma state_validate_contents_at L awaited contents s id v :
  StateTrie.store_get (snd (state_validate_contents L awaited contents s)) id = Some v ->
  StateTrie.store_get s id = Some v \/ exists j k c, state_item_at L awaited contents id v j k c.
Proof.
  unfold state_validate_contents. revert id v.
  apply (offer_loop_inv_ix _ _ _
           (fun s1 => forall id v, StateTrie.store_get s1 id = Some v ->
                        StateTrie.store_get s id = Some v \/ exists j k c, state_item_at L awaited contents id v j k c)
           awaited contents).
  - intros j s1 k c s2 Hk Hc Hv Hp Hs id v Hg.
    pose proof Hv as Hv'. unfold state_validate in Hv'. apply key_dispatch_t_inv in Hv' as (t0 & body0 & Ek & Hin & _).
    destruct (state_put_after_validate L j k c Hv) as (t & body & r & -> & Hd & Hcok & Hpv & _).
    inversion Ek; subst t0 body0.
    unfold state_put in Hp. rewrite Hpv in Hp. destruct (StateTrie.put (sl_node_hash L) r) as [b| |] eqn:Eb; cbn [bind] in Hp; try discriminate.
    inversion Hp; subst s2; clear Hp. cbn [StateTrie.store_get StateTrie.store_put] in Hg.
    destruct (bytes_eqb (sl_cid L (t :: body)) id) eqn:Eid.
    + inversion Hg; subst v. right. exists j, (t :: body), c. apply bytes_eqb_eq in Eid.
      split; [exact Hk|]. split; [exact Hc|]. exists t, body, r. repeat split; auto. now apply put_stores_final in Eb.
    + now apply Hs.
  - intros j c Hj. exact Hj.
  - intros id v Hg. now left.
Qed.

Lemma state_offered_shape L awaited stream s :
  (exists contents, decode_contents stream = Ok contents /\ length contents = length awaited /\
                    state_offered_contents L awaited stream s = state_validate_contents L awaited contents s) \/
  (snd (state_offered_contents L awaited stream s) = s /\
   forall contents, decode_contents stream = Ok contents -> length contents <> length awaited).
Proof.
  unfold state_offered_contents.
  destruct (with_offered_contents_exact awaited stream (fun contents => state_validate_contents L awaited contents s) (fun r => (r, s))) as
    [(cs & Hd & Hl & E)|(r0 & Hr & E & Hbad)]; rewrite E.
  - left. exists cs. auto.
  - right. split; [reflexivity|exact Hbad].
Qed.

Definition state_e2e_ok (v : N) (nv : nodeview) (pf : bool) (keys cs : list bytes) (deliver : bytes -> bytes)
           (L : slib) (s s' : StateTrie.store) : Prop :=
  let flags := final_flags v nv pf keys in
  let sent := encode_contents (select flags cs) in
  (* whatever the transport delivers: a new value under a content id is the final node / the code of a (key, item) pair whose
     key is an ACCEPTED key of the offer and whose decoded form satisfies C13's chain predicate *)
  (forall id val, StateTrie.store_get s' id = Some val ->
     StateTrie.store_get s id = Some val \/
     exists contents j k c, decode_contents (deliver sent) = Ok contents /\ In k (select flags keys) /\
                            state_item_at L (select flags keys) contents id val j k c) /\
  (* the stream arrives intact: that pair is (k_i, c_i) of the offer for an accepted index i *)
  (deliver sent = sent ->
     forall id val, StateTrie.store_get s' id = Some val ->
       StateTrie.store_get s id = Some val \/
       exists i j k c, nth_error flags i = Some true /\ nth_error keys i = Some k /\ nth_error cs i = Some c /\
                       state_item_at L (select flags keys) (select flags cs) id val j k c) /\
  ((forall contents, decode_contents (deliver sent) = Ok contents -> length contents <> length (select flags keys)) -> s' = s) /\
  (anyb flags = false -> s' = s).

Theorem state_end_to_end v nv pf cid lookup keys cs deliver L s r s' :
  v = 0 \/ v = 1 -> (length keys <= 64)%nat -> cid < 65536 -> length cs = length keys -> Forall short cs ->
  state_exchange (Ok v) (Ok v) nv pf cid lookup keys cs deliver L s = Ok (r, s') ->
  state_e2e_ok v nv pf keys cs deliver L s s'.
Proof.
  intros Hv H64 Hc HL HS H. unfold state_exchange in H.
  destruct (offer_exchange_cases v nv pf cid lookup keys cs deliver _ _ _ Hv H64 Hc HL HS H) as [[Ea Eo]|[Ea Eo]];
    unfold state_e2e_ok; cbv zeta.
  - set (flags := final_flags v nv pf keys) in *. set (stream := deliver (encode_contents (select flags cs))) in *.
    assert (Es : s' = snd (state_offered_contents L (select flags keys) stream s)) by (rewrite <- Eo; reflexivity).
    pose proof (state_offered_shape L (select flags keys) stream s) as Sh.
    assert (Any : forall id val, StateTrie.store_get s' id = Some val ->
              StateTrie.store_get s id = Some val \/
              exists contents j k c, decode_contents stream = Ok contents /\ In k (select flags keys) /\
                                     state_item_at L (select flags keys) contents id val j k c).
    { intros id val Hg. rewrite Es in Hg. destruct Sh as [(contents & Hd & _ & E)|(E & _)]; [|rewrite E in Hg; now left].
      rewrite E in Hg. destruct (state_validate_contents_at L _ contents s id val Hg) as [Hold|(j & k & c & Hat)]; [now left|].
      right. exists contents, j, k, c. split; [exact Hd|]. split; [|exact Hat]. destruct Hat as (Hk & _). now apply nth_error_In in Hk. }
    split; [exact Any|]. split.
    { intros Hint id val Hg. destruct (Any id val Hg) as [Hold|(contents & j & k & c & Hd & _ & Hat)]; [now left|]. right.
      rewrite Hint in Hd.
      rewrite (decode_encode_contents _ (Forall_select _ flags cs HS)) in Hd. inversion Hd; subst contents.
      destruct Hat as (Hk & Hcj & Hrest).
      destruct (select_nth2 flags keys cs j k c Hk Hcj) as (i & H1 & H2 & H3).
      exists i, j, k, c. repeat split; auto. }
    split.
    { intros Hbad. rewrite Es. destruct Sh as [(contents & Hd & Hl & _)|(E & _)]; [exfalso; exact (Hbad contents Hd Hl)|exact E]. }
    intros Hf. fold flags in Hf. rewrite Hf in Ea. discriminate.
  - inversion Eo; subst. split; [intros id val Hg; now left|]. split; [intros _ id val Hg; now left|]. auto.
Qed.

Theorem state_end_to_end_negotiated va vb cx cy nx ny nv pf cid lookup keys cs deliver L s r s' :
  cx ny = None -> cy nx = None -> (forall x, In x va -> x = 0 \/ x = 1) ->
  (length keys <= 64)%nat -> cid < 65536 -> length cs = length keys -> Forall short cs ->
  state_exchange (version_at_offerer va vb cx ny) (version_at_receiver va vb cy nx) nv pf cid lookup keys cs deliver L s = Ok (r, s') ->
  exists v, (v = 0 \/ v = 1) /\ version_at_offerer va vb cx ny = Ok v /\ version_at_receiver va vb cy nx = Ok v /\
            state_e2e_ok v nv pf keys cs deliver L s s'.
Proof.
  intros Hx Hy Hva H64 Hc HL HS H.
  destruct (version_at_receiver va vb cy nx) as [v|e|] eqn:Er.
  - destruct (negotiated_version va vb cx cy nx ny v Hx Hy Hva Er) as [Eo Hv]. rewrite Eo in H.
    exists v. split; [exact Hv|]. split; [exact Eo|]. split; [reflexivity|]. eapply state_end_to_end; eauto.
  - unfold state_exchange, offer_exchange, handle_offer, handle_offer_gen in H. discriminate H.
  - unfold state_exchange, offer_exchange, handle_offer, handle_offer_gen in H. discriminate H.
Qed.

(* an index whose flag is set is one of the positions the ACCEPT announces *)
Lemma positions_of_true fl : forall off i, nth_error fl i = Some true -> In (off + i)%nat (positions off fl).
Proof.
  induction fl as [|f fr IH]; intros off [|i] H; try discriminate; cbn [positions nth_error] in *.
  - inversion H; subst. rewrite Nat.add_0_r. now left.
  - replace (off + S i)%nat with (S off + i)%nat by lia. destruct f; [right|]; now apply IH.
Qed.

Lemma accepted_index_means v nv pf keys i :
  v = 0 \/ v = 1 -> nth_error (final_flags v nv pf keys) i = Some true ->
  exists k, nth_error keys i = Some k /\ nv_inrange nv k = true /\ nv_stored nv k = false /\
            (v = 1 -> nv_inflight nv k = false) /\ (v = 0 -> nv_queue_room nv = true) /\ pf = true.
Proof. intros Hv H. apply (flags_sound v nv pf keys i Hv). exact (positions_of_true _ 0 i H). Qed.
