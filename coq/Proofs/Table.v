(* Proofs/Table.v : invariant of the routing table (C07) and the displacement policy (C18). *)
From Coq Require Import NArith List Bool PeanoNat Lia.
From Coq Require Import ZifyBool ZifyN ZifyNat.
From Shisui Require Import Gen.K_table Model.Table.
Import ListNotations.
Open Scope N_scope.

Local Arguments N.add : simpl never.
Local Arguments N.sub : simpl never.
Local Arguments N.mul : simpl never.
Local Arguments N.div : simpl never.
Local Arguments N.pow : simpl never.
Local Arguments N.leb : simpl never.
Local Arguments N.ltb : simpl never.
Local Arguments N.eqb : simpl never.
Local Arguments N.shiftr : simpl never.
Local Arguments N.to_nat : simpl never.
Local Arguments N.of_nat : simpl never.
Local Arguments Nat.modulo : simpl never.

(* ================================================================ 1. lists *)

Lemma find_ent_some {A} (p : A -> bool) l i x :
  find_ent p l = Some (i, x) ->
  nth_error l i = Some x /\ p x = true /\ (forall k y, (k < i)%nat -> nth_error l k = Some y -> p y = false).
Proof.
  revert i. induction l as [|a l IH]; intros i H; simpl in H; [discriminate|].
  destruct (p a) eqn:Pa.
  - inversion H; subst. repeat split; auto. intros k y Hk; lia.
  - destruct (find_ent p l) as [[i' y']|] eqn:F; [|discriminate]. inversion H; subst.
    destruct (IH i' eq_refl) as (H1 & H2 & H3). repeat split; auto.
    intros k y Hk Hn. destruct k; simpl in Hn; [congruence|]. apply (H3 k); [lia|auto].
Qed.

Lemma find_ent_none {A} (p : A -> bool) l : find_ent p l = None -> forall x, In x l -> p x = false.
Proof.
  induction l as [|a l IH]; intros H x Hx; simpl in *; [contradiction|].
  destruct (p a) eqn:Pa; [discriminate|].
  destruct (find_ent p l) as [[i' y']|] eqn:F; [discriminate|].
  destruct Hx; subst; auto.
Qed.

Lemma find_ent_ex {A} (p : A -> bool) l x : In x l -> p x = true -> exists i y, find_ent p l = Some (i, y).
Proof.
  intros Hx Px. destruct (find_ent p l) as [[i y]|] eqn:F; eauto.
  rewrite (find_ent_none p l F x Hx) in Px. discriminate.
Qed.

Lemma nth_error_in {A} (l : list A) i x : nth_error l i = Some x -> In x l.
Proof. apply nth_error_In. Qed.

Lemma in_remove_at {A} (l : list A) i x : In x (remove_at i l) -> In x l.
Proof.
  revert i; induction l as [|a l IH]; intros i H; simpl in *; [destruct i; auto|].
  destruct i; simpl in H; auto. destruct H; auto. right; eapply IH; eauto.
Qed.

Lemma remove_at_split {A} (l : list A) i x :
  nth_error l i = Some x -> exists l1 l2, l = l1 ++ x :: l2 /\ remove_at i l = l1 ++ l2 /\ length l1 = i.
Proof.
  revert i; induction l as [|a l IH]; intros i H; [destruct i; discriminate|].
  destruct i; simpl in H.
  - inversion H; subst. exists [], l. auto.
  - destruct (IH i H) as (l1 & l2 & E1 & E2 & E3). exists (a :: l1), l2. simpl. rewrite E2. repeat split; [f_equal; exact E1 | f_equal; exact E3].
Qed.

Lemma set_at_split {A} (l : list A) i x v :
  nth_error l i = Some x -> exists l1 l2, l = l1 ++ x :: l2 /\ set_at i v l = l1 ++ v :: l2 /\ length l1 = i.
Proof.
  revert i; induction l as [|a l IH]; intros i H; [destruct i; discriminate|].
  destruct i; simpl in H.
  - inversion H; subst. exists [], l. auto.
  - destruct (IH i H) as (l1 & l2 & E1 & E2 & E3). exists (a :: l1), l2. simpl. rewrite E2. repeat split; [f_equal; exact E1 | f_equal; exact E3].
Qed.

Lemma length_remove_at {A} (l : list A) i x : nth_error l i = Some x -> S (length (remove_at i l)) = length l.
Proof.
  intros H. destruct (remove_at_split l i x H) as (l1 & l2 & E1 & E2 & _). rewrite E2, E1, !app_length. simpl. lia.
Qed.

Lemma length_set_at {A} (l : list A) i v : length (set_at i v l) = length l.
Proof. revert i; induction l; intros [|i]; simpl; auto. Qed.

Lemma nth_error_set_at_same {A} (l : list A) i x v : nth_error l i = Some x -> nth_error (set_at i v l) i = Some v.
Proof. revert i; induction l; intros [|i] H; simpl in *; try discriminate; auto. Qed.

Lemma nth_error_upd_same {A} (l : list A) i v : (i < length l)%nat -> nth_error (upd_nth i v l) i = Some v.
Proof. revert i; induction l; intros [|i] H; simpl in *; try lia; auto. apply IHl. lia. Qed.

Lemma nth_error_upd_other {A} (l : list A) i k v : i <> k -> nth_error (upd_nth i v l) k = nth_error l k.
Proof. revert i k; induction l; intros [|i] [|k] H; simpl in *; try congruence; auto. Qed.

Lemma length_upd {A} (l : list A) i v : length (upd_nth i v l) = length l.
Proof. revert i; induction l; intros [|i]; simpl; auto. Qed.

Lemma last_opt_split {A} (l : list A) r : last_opt l = Some r -> l = removelast l ++ [r].
Proof.
  induction l as [|a l IH]; intros H; [discriminate|].
  destruct l as [|b l]; [inversion H; reflexivity|].
  change (last_opt (a :: b :: l)) with (last_opt (b :: l)) in H.
  change (removelast (a :: b :: l)) with (a :: removelast (b :: l)). simpl. f_equal. apply IH, H.
Qed.

Lemma last_opt_none {A} (l : list A) : last_opt l = None -> l = [].
Proof.
  induction l as [|a l IH]; auto. intros H. destruct l as [|b l]; [discriminate|].
  change (last_opt (a :: b :: l)) with (last_opt (b :: l)) in H. specialize (IH H). discriminate.
Qed.

Lemma mem_N_in x l : mem_N x l = true <-> In x l.
Proof.
  induction l as [|a l IH]; simpl; [split; [discriminate|contradiction]|].
  rewrite orb_true_iff, IH, N.eqb_eq. split; intros [H|H]; auto.
Qed.

Lemma nodup_b_iff l : nodup_b l = true <-> NoDup l.
Proof.
  induction l as [|a l IH]; simpl; [split; [constructor|auto]|].
  rewrite andb_true_iff, negb_true_iff, IH. split.
  - intros [H1 H2]. constructor; auto. intro Hin. apply mem_N_in in Hin. congruence.
  - intros H. inversion H; subst. split; auto. destruct (mem_N a l) eqn:M; auto. apply mem_N_in in M. contradiction.
Qed.

Lemma NoDup_app_remove_mid {A} (l1 l2 : list A) x : NoDup (l1 ++ x :: l2) -> NoDup (l1 ++ l2) /\ ~ In x (l1 ++ l2).
Proof. intros H. split; [eapply NoDup_remove_1; eauto | eapply NoDup_remove_2; eauto]. Qed.

Lemma NoDup_snoc {A} (l : list A) x : NoDup l -> ~ In x l -> NoDup (l ++ [x]).
Proof.
  intros H Hx. induction l as [|a l IH]; simpl; [constructor; auto; constructor|].
  inversion H; subst. constructor.
  - rewrite in_app_iff. intros [H1|[H1|[]]]; [contradiction|]. subst. apply Hx. left; auto.
  - apply IH; auto. intro. apply Hx. right; auto.
Qed.

(* ================================================================ 2. DistinctNetSet *)

Lemma ips_get_del_same s k : ips_get (ips_del s k) k = None.
Proof.
  induction s as [|[k' n] s IH]; simpl; auto.
  destruct (k' =? k) eqn:E; auto. simpl. rewrite E. auto.
Qed.
Lemma ips_get_del_other s k k' : k <> k' -> ips_get (ips_del s k) k' = ips_get s k'.
Proof.
  intros H. induction s as [|[k0 n] s IH]; simpl; auto.
  destruct (k0 =? k) eqn:E.
  - apply N.eqb_eq in E; subst. destruct (k =? k') eqn:E2; [apply N.eqb_eq in E2; contradiction|]. auto.
  - simpl. rewrite IH. reflexivity.
Qed.

Lemma count_set_same s k n : ips_count (ips_set s k n) k = n.
Proof. unfold ips_count, ips_set. simpl. rewrite N.eqb_refl. reflexivity. Qed.
Lemma count_set_other s k k' n : k <> k' -> ips_count (ips_set s k n) k' = ips_count s k'.
Proof.
  intros H. unfold ips_count, ips_set. simpl.
  destruct (k =? k') eqn:E; [apply N.eqb_eq in E; contradiction|]. rewrite ips_get_del_other; auto.
Qed.
Lemma count_del_same s k : ips_count (ips_del s k) k = 0.
Proof. unfold ips_count. rewrite ips_get_del_same. reflexivity. Qed.
Lemma count_del_other s k k' : k <> k' -> ips_count (ips_del s k) k' = ips_count s k'.
Proof. intros H. unfold ips_count. rewrite ips_get_del_other; auto. Qed.

(* AddAddr: the count of k goes up by one when it succeeds, nothing else changes *)
Lemma ips_add_spec s k lim s' ok : ips_add s k lim = (s', ok) ->
  (ok = true /\ ips_count s k < lim /\ ips_count s' k = ips_count s k + 1 /\ forall k', k <> k' -> ips_count s' k' = ips_count s k')
  \/ (ok = false /\ lim <= ips_count s k /\ s' = s).
Proof.
  unfold ips_add. destruct (ips_count s k <? lim) eqn:E; intros H; inversion H; subst.
  - left. repeat split; [lia | apply count_set_same | intros; apply count_set_other; auto].
  - right. repeat split; lia.
Qed.

(* RemoveAddr: truncated decrement of k *)
Lemma ips_remove_same s k : ips_count (ips_remove s k) k = ips_count s k - 1.
Proof.
  unfold ips_remove. destruct (ips_get s k) as [n|] eqn:G.
  - destruct (n =? 1) eqn:E.
    + rewrite count_del_same. unfold ips_count. rewrite G. lia.
    + rewrite count_set_same. unfold ips_count. rewrite G. reflexivity.
  - unfold ips_count. rewrite G. reflexivity.
Qed.
Lemma ips_remove_other s k k' : k <> k' -> ips_count (ips_remove s k) k' = ips_count s k'.
Proof.
  intros H. unfold ips_remove. destruct (ips_get s k) as [n|] eqn:G; auto.
  destruct (n =? 1); [apply count_del_other | apply count_set_other]; auto.
Qed.

(* ================================================================ 3. the invariant *)

Definition ind (ip k : N) : N := if counted ip k then 1 else 0.

(* bucket-local clauses (bucket number j of a table with local id s) *)
Definition BSize (b : bucket) : Prop := nlen (ents b) <= K_bucketSize /\ nlen (reps b) <= K_maxReplacements.
Definition BUniq (b : bucket) : Prop := NoDup (map eid (bnodes b)).
Definition BPlace (s : N) (j : nat) (b : bucket) : Prop :=
  forall e, In e (bnodes b) -> bucket_of s (eid e) = j /\ eid e <> s.
Definition BFlags (b : bucket) : Prop :=
  (forall e, In e (ents b) -> rl e <> None) /\ (forall e, In e (reps b) -> rl e = None).
Definition BIps (b : bucket) : Prop :=
  forall k, true_count (bnodes b) k <= ips_count (bips b) k /\ ips_count (bips b) k <= K_bucketIPLimit.
Definition addr_ok (ip : N) : Prop := ip_valid ip = true /\ ip_unspec ip = false.
Definition BAddr (b : bucket) : Prop := forall e, In e (bnodes b) -> addr_ok (nip (nd e)).
Definition BLocal (s : N) (j : nat) (b : bucket) : Prop :=
  BSize b /\ BUniq b /\ BPlace s j b /\ BFlags b /\ BAddr b /\ BIps b.

(* clauses tying the buckets to the table-wide structures *)
Definition GIps (bs : list bucket) (g : glob) : Prop :=
  forall k, sum_cnt bs k <= ips_count (tips g) k /\ ips_count (tips g) k <= K_tableIPLimit.
Definition inl (es : list entry) (l : rlist) (id : N) : Prop :=
  exists e, In e es /\ eid e = id /\ rl e = Some l.
Definition listed (bs : list bucket) (l : rlist) (id : N) : Prop :=
  exists j b, nth_error bs j = Some b /\ inl (ents b) l id.
Definition GLists (bs : list bucket) (g : glob) : Prop :=
  (forall l id, In id (rlist_get g l) <-> listed bs l id) /\ (forall l, NoDup (rlist_get g l)).
Definition is_entry (bs : list bucket) (id : N) : Prop :=
  exists j b e, nth_error bs j = Some b /\ In e (ents b) /\ eid e = id.
Definition GActive (bs : list bucket) (g : glob) : Prop :=
  forall id, In (id, true) (active g) -> is_entry bs id.

Definition Inv (t : table) : Prop :=
  length (bks t) = N.to_nat K_nBuckets /\ self t < two_hash /\
  (forall j b, nth_error (bks t) j = Some b -> BLocal (self t) j b) /\
  GIps (bks t) (gl t) /\ GLists (bks t) (gl t) /\ GActive (bks t) (gl t).

(* ids given to an operation are 32-byte values *)
Definition node_wf (n : node) : Prop := nid n < two_hash.
Definition op_wf (o : op) : Prop :=
  match o with
  | SetInit => True
  | AddFound n _ | AddInbound n => node_wf n
  | BulkAdd ns => Forall node_wf ns
  | Delete id _ => id < two_hash
  | RevalRun _ _ _ => True
  | RevalResp _ _ _ _ => True
  | Track n _ f _ => node_wf n /\ Forall node_wf f
  end.

(* ================================================================ 4. constants the proofs depend on *)

Lemma K_index_range : K_hashBits - K_bucketMinDistance - 1 < K_nBuckets.
Proof. vm_compute. reflexivity. Qed.
Lemma K_reps_pos : 1 <= K_maxReplacements.
Proof. vm_compute. discriminate. Qed.

(* ================================================================ 5. distance *)

Lemma logdist_le a b : a < two_hash -> b < two_hash -> logdist a b <= K_hashBits.
Proof.
  unfold logdist, two_hash. intros Ha Hb.
  destruct (N.eq_dec (N.lxor a b) 0) as [E|E]; [rewrite E; simpl; lia|].
  rewrite N.size_log2 by assumption.
  assert (N.log2 (N.lxor a b) < K_hashBits); [|lia].
  eapply N.le_lt_trans; [apply N.log2_lxor|].
  apply N.max_lub_lt.
  - destruct (N.eq_dec a 0); [subst; simpl; vm_compute; reflexivity|]. apply N.log2_lt_pow2; lia.
  - destruct (N.eq_dec b 0); [subst; simpl; vm_compute; reflexivity|]. apply N.log2_lt_pow2; lia.
Qed.

Lemma bucket_of_range s id : s < two_hash -> id < two_hash -> (bucket_of s id < N.to_nat K_nBuckets)%nat.
Proof.
  intros Hs Hi. pose proof (logdist_le s id Hs Hi) as L. pose proof K_index_range as R.
  unfold bucket_of, bucket_index. destruct (logdist s id <=? K_bucketMinDistance) eqn:E; lia.
Qed.

(* ================================================================ 6. IP counters *)

Lemma ind_other ip k : key24 ip <> k -> ind ip k = 0.
Proof. unfold ind, counted. intros H. destruct (key24 ip =? k) eqn:E; [apply N.eqb_eq in E; contradiction|]. rewrite andb_false_r. reflexivity. Qed.
Lemma ind_lan ip k : is_lan ip = true -> ind ip k = 0.
Proof. unfold ind, counted. intros ->. reflexivity. Qed.
Lemma ind_same ip : is_lan ip = false -> ind ip (key24 ip) = 1.
Proof. unfold ind, counted. intros ->. rewrite N.eqb_refl. reflexivity. Qed.
Lemma ind_le ip k : ind ip k <= 1.
Proof. unfold ind. destruct (counted ip k); lia. Qed.


(* true_count algebra *)
Lemma tc_nil k : true_count [] k = 0.
Proof. reflexivity. Qed.
Lemma tc_cons e l k : true_count (e :: l) k = ind (nip (nd e)) k + true_count l k.
Proof. unfold true_count, ind, nlen. simpl. destruct (counted (nip (nd e)) k); simpl; lia. Qed.
Lemma tc_app l1 l2 k : true_count (l1 ++ l2) k = true_count l1 k + true_count l2 k.
Proof. induction l1 as [|a l1 IH]; [rewrite tc_nil; simpl; lia|]. simpl app. rewrite !tc_cons, IH. lia. Qed.
Lemma tc_filter_le p l k : true_count (filter p l) k <= true_count l k.
Proof.
  induction l as [|a l IH]; simpl; [lia|]. destruct (p a); rewrite ?tc_cons; lia.
Qed.
Lemma tc_in e l k : In e l -> ind (nip (nd e)) k <= true_count l k.
Proof.
  induction l as [|a l IH]; [contradiction|]. intros [->|H]; rewrite tc_cons; [lia|]. specialize (IH H). lia.
Qed.


(* pointwise effect of addIP / removeIP on the two counters *)
Lemma add_ip_s_cases ts bs ip ts' bs' ok : add_ip_s ts bs ip = (ts', bs', ok) ->
  (ok = true /\ addr_ok ip /\
   (forall k, ips_count ts' k = ips_count ts k + ind ip k /\ ips_count bs' k = ips_count bs k + ind ip k) /\
   (is_lan ip = false -> ips_count ts (key24 ip) < K_tableIPLimit /\ ips_count bs (key24 ip) < K_bucketIPLimit))
  \/
  (ok = false /\ (forall k, ips_count ts' k = ips_count ts k /\ ips_count bs' k = ips_count bs k) /\
   (~ addr_ok ip \/ (is_lan ip = false /\ (K_tableIPLimit <= ips_count ts (key24 ip) \/ K_bucketIPLimit <= ips_count bs (key24 ip))))).
Proof.
  unfold add_ip_s, addr_ok.
  destruct (ip_valid ip) eqn:V; simpl; [|intros E; inversion E; subst; right; repeat split; auto; left; intros [? ?]; discriminate].
  destruct (ip_unspec ip) eqn:U; simpl; [intros E; inversion E; subst; right; repeat split; auto; left; intros [? ?]; discriminate|].
  destruct (is_lan ip) eqn:L.
  - intros E; inversion E; subst. left. repeat split; auto; try discriminate; rewrite ind_lan by auto; lia.
  - destruct (ips_add ts (key24 ip) K_tableIPLimit) as [ts1 ok1] eqn:A1.
    destruct (ips_add_spec _ _ _ _ _ A1) as [(-> & T1 & T2 & T3)|(-> & T1 & ->)]; simpl.
    + destruct (ips_add bs (key24 ip) K_bucketIPLimit) as [bs1 ok2] eqn:A2.
      destruct (ips_add_spec _ _ _ _ _ A2) as [(-> & B1 & B2 & B3)|(-> & B1 & ->)]; simpl; intros E; inversion E; subst.
      * left. repeat split; auto; destruct (N.eq_dec (key24 ip) k) as [<-|Ne];
          rewrite ?ind_same, ?ind_other by auto; rewrite ?T2, ?B2, ?T3, ?B3 by auto; lia.
      * right. split; auto. split; [|right; auto].
        intros k. split; auto. destruct (N.eq_dec (key24 ip) k) as [<-|Ne];
          [rewrite ips_remove_same, T2; lia | rewrite ips_remove_other, T3 by auto; lia].
    + intros E; inversion E; subst. right. repeat split; auto.
Qed.

Lemma remove_ip_s_cases ts bs ip ts' bs' : remove_ip_s ts bs ip = (ts', bs') ->
  forall k, ips_count ts' k = ips_count ts k - ind ip k /\ ips_count bs' k = ips_count bs k - ind ip k.
Proof.
  unfold remove_ip_s. destruct (is_lan ip) eqn:L; intros E; inversion E; subst; intros k.
  - rewrite ind_lan by auto. lia.
  - destruct (N.eq_dec (key24 ip) k) as [<-|Ne];
      [rewrite ind_same, !ips_remove_same by auto; lia | rewrite ind_other, !ips_remove_other by auto; lia].
Qed.

Section FocusIP.
  Variable R : N -> N.                  (* addresses counted by the other buckets *)

  (* c = true number of counted addresses per /24 among the nodes of the bucket *)
  Definition IPok (c : N -> N) (ts bs : ipset) : Prop :=
    (forall k, c k <= ips_count bs k /\ ips_count bs k <= K_bucketIPLimit) /\
    (forall k, ips_count bs k + R k <= ips_count ts k /\ ips_count ts k <= K_tableIPLimit).

  Lemma IPok_weaken c c' ts bs : IPok c ts bs -> (forall k, c' k <= c k) -> IPok c' ts bs.
  Proof. intros [H1 H2] H. split; auto. intros k. specialize (H1 k). specialize (H k). lia. Qed.

  Lemma add_ip_s_ok c ts bs ip ts' bs' :
    IPok c ts bs -> add_ip_s ts bs ip = (ts', bs', true) -> IPok (fun k => c k + ind ip k) ts' bs'.
  Proof.
    intros [H1 H2]. unfold add_ip_s.
    destruct (negb (ip_valid ip) || ip_unspec ip); [discriminate|].
    destruct (is_lan ip) eqn:L.
    - intros E; inversion E; subst. split; auto. intros k. rewrite ind_lan by auto. specialize (H1 k). lia.
    - destruct (ips_add ts (key24 ip) K_tableIPLimit) as [ts1 ok] eqn:A1.
      destruct ok; simpl; [|discriminate].
      destruct (ips_add bs (key24 ip) K_bucketIPLimit) as [bs1 ok2] eqn:A2.
      destruct ok2; simpl; [|discriminate]. intros E; inversion E; subst.
      destruct (ips_add_spec _ _ _ _ _ A1) as [(_ & T1 & T2 & T3)|(F & _)]; [|discriminate].
      destruct (ips_add_spec _ _ _ _ _ A2) as [(_ & B1 & B2 & B3)|(F & _)]; [|discriminate].
      split; intros k; specialize (H1 k); specialize (H2 k); destruct (N.eq_dec (key24 ip) k) as [<-|Ne].
      + rewrite ind_same by auto. rewrite B2. lia.
      + rewrite ind_other by auto. rewrite B3 by auto. lia.
      + rewrite B2, T2. lia.
      + rewrite B3, T3 by auto. lia.
  Qed.

  Lemma add_ip_s_fail c ts bs ip ts' bs' :
    IPok c ts bs -> add_ip_s ts bs ip = (ts', bs', false) -> IPok c ts' bs'.
  Proof.
    intros [H1 H2]. unfold add_ip_s.
    destruct (negb (ip_valid ip) || ip_unspec ip); [intros E; inversion E; subst; split; auto|].
    destruct (is_lan ip) eqn:L; [discriminate|].
    destruct (ips_add ts (key24 ip) K_tableIPLimit) as [ts1 ok] eqn:A1.
    destruct ok; simpl; [|intros E; inversion E; subst; split; auto].
    destruct (ips_add bs (key24 ip) K_bucketIPLimit) as [bs1 ok2] eqn:A2.
    destruct ok2; simpl; [discriminate|]. intros E; inversion E; subst.
    destruct (ips_add_spec _ _ _ _ _ A1) as [(_ & T1 & T2 & T3)|(F & _)]; [|discriminate].
    split; auto. intros k. specialize (H2 k). destruct (N.eq_dec (key24 ip) k) as [<-|Ne].
    - rewrite ips_remove_same, T2. lia.
    - rewrite ips_remove_other, T3 by auto. lia.
  Qed.

  Lemma add_ip_s_valid ts bs ip ts' bs' : add_ip_s ts bs ip = (ts', bs', true) -> ip_valid ip = true.
  Proof.
    unfold add_ip_s. destruct (ip_valid ip); auto. simpl. discriminate.
  Qed.

  Lemma remove_ip_s_ok c ts bs ip ts' bs' :
    IPok c ts bs -> (is_lan ip = false -> 1 <= c (key24 ip)) -> remove_ip_s ts bs ip = (ts', bs') ->
    IPok (fun k => c k - ind ip k) ts' bs'.
  Proof.
    intros [H1 H2] Hc. unfold remove_ip_s. destruct (is_lan ip) eqn:L; intros E; inversion E; subst.
    - split; auto. intros k. rewrite ind_lan by auto. specialize (H1 k). lia.
    - specialize (Hc eq_refl).
      split; intros k; specialize (H1 k); specialize (H2 k); destruct (N.eq_dec (key24 ip) k) as [<-|Ne].
      + rewrite ind_same by auto. rewrite ips_remove_same. lia.
      + rewrite ind_other by auto. rewrite ips_remove_other by auto. lia.
      + rewrite !ips_remove_same. lia.
      + rewrite !ips_remove_other by auto. lia.
  Qed.

End FocusIP.

(* ================================================================ 7. revalidation lists, active requests *)

Lemma rlist_get_set g l v l' : rlist_get (rlist_set g l v) l' = if rlist_eqb l l' then v else rlist_get g l'.
Proof. destruct l, l'; reflexivity. Qed.
Lemma rlist_eqb_eq a b : rlist_eqb a b = true <-> a = b.
Proof. destruct a, b; simpl; split; intros; congruence. Qed.
Lemma rlist_eqb_refl a : rlist_eqb a a = true.
Proof. destruct a; reflexivity. Qed.
Lemma tips_rlist_set g l v : tips (rlist_set g l v) = tips g.
Proof. destruct l; reflexivity. Qed.
Lemma active_rlist_set g l v : active (rlist_set g l v) = active g.
Proof. destruct l; reflexivity. Qed.

Definition has (es : list entry) (id : N) : Prop := exists e, In e es /\ eid e = id.

Lemma inl_has es l id : inl es l id -> has es id.
Proof. intros (e & H1 & H2 & _). exists e; auto. Qed.

Lemma has_in_ids es id : has es id <-> In id (map eid es).
Proof.
  split; [intros (e & H1 & <-); apply in_map; auto | intros H; apply in_map_iff in H; destruct H as (e & H1 & H2); exists e; auto].
Qed.

Lemma inl_app_one es e l id : inl (es ++ [e]) l id <-> inl es l id \/ (rl e = Some l /\ eid e = id).
Proof.
  split.
  - intros (x & H1 & H2 & H3). apply in_app_iff in H1. destruct H1 as [H1|[<-|[]]]; [left; exists x; auto | right; auto].
  - intros [(x & H1 & H2 & H3)|[H1 H2]]; [exists x | exists e]; rewrite in_app_iff; simpl; auto.
Qed.

Lemma has_app_one es e id : has (es ++ [e]) id <-> has es id \/ eid e = id.
Proof.
  split.
  - intros (x & H1 & H2). apply in_app_iff in H1. destruct H1 as [H1|[<-|[]]]; [left; exists x; auto | right; auto].
  - intros [(x & H1 & H2)|H1]; [exists x | exists e]; rewrite in_app_iff; simpl; auto.
Qed.

Lemma nodup_ids_mid l1 (e : entry) l2 x :
  NoDup (map eid (l1 ++ e :: l2)) -> In x (l1 ++ l2) -> eid x <> eid e.
Proof.
  rewrite map_app. simpl. intros H Hx E. apply NoDup_remove_2 in H. apply H.
  rewrite <- map_app. rewrite <- E. apply in_map. auto.
Qed.

Lemma in_mid_cases {A} (l1 l2 : list A) e x : In x (l1 ++ e :: l2) <-> x = e \/ In x (l1 ++ l2).
Proof. rewrite !in_app_iff. simpl. split; intros [H|H]; auto; destruct H; auto. Qed.

Lemma inl_remove_at es i e l id :
  NoDup (map eid es) -> nth_error es i = Some e ->
  (inl (remove_at i es) l id <-> inl es l id /\ id <> eid e).
Proof.
  intros ND Hn. destruct (remove_at_split es i e Hn) as (l1 & l2 & E1 & E2 & _). rewrite E2. rewrite E1 in ND |- *.
  split.
  - intros (x & H1 & H2 & H3). split; [exists x; split; [apply in_mid_cases; auto|auto]|].
    subst id. eapply nodup_ids_mid; eauto.
  - intros [(x & H1 & H2 & H3) Hne]. apply in_mid_cases in H1. destruct H1 as [->|H1]; [congruence|]. exists x; auto.
Qed.

Lemma has_remove_at es i e id :
  NoDup (map eid es) -> nth_error es i = Some e ->
  (has (remove_at i es) id <-> has es id /\ id <> eid e).
Proof.
  intros ND Hn. destruct (remove_at_split es i e Hn) as (l1 & l2 & E1 & E2 & _). rewrite E2. rewrite E1 in ND |- *.
  split.
  - intros (x & H1 & H2). split; [exists x; split; [apply in_mid_cases; auto|auto]|].
    subst id. eapply nodup_ids_mid; eauto.
  - intros [(x & H1 & H2) Hne]. apply in_mid_cases in H1. destruct H1 as [->|H1]; [congruence|]. exists x; auto.
Qed.

Lemma inl_set_at es i e e' l id :
  NoDup (map eid es) -> nth_error es i = Some e -> eid e' = eid e ->
  (inl (set_at i e' es) l id <-> (inl es l id /\ id <> eid e) \/ (id = eid e /\ rl e' = Some l)).
Proof.
  intros ND Hn He. destruct (set_at_split es i e e' Hn) as (l1 & l2 & E1 & E2 & _). rewrite E2. rewrite E1 in ND |- *.
  split.
  - intros (x & H1 & H2 & H3). apply in_mid_cases in H1. destruct H1 as [->|H1].
    + right. split; congruence.
    + left. split; [exists x; split; [apply in_mid_cases; auto|auto]|]. subst id. eapply nodup_ids_mid; eauto.
  - intros [[(x & H1 & H2 & H3) Hne]|[H1 H2]].
    + apply in_mid_cases in H1. destruct H1 as [->|H1]; [congruence|]. exists x. split; [apply in_mid_cases; auto|auto].
    + exists e'. split; [apply in_mid_cases; auto|split; congruence].
Qed.

Lemma map_eid_set_at es i e e' : nth_error es i = Some e -> eid e' = eid e -> map eid (set_at i e' es) = map eid es.
Proof.
  intros Hn He. destruct (set_at_split es i e e' Hn) as (l1 & l2 & E1 & E2 & _). rewrite E2, E1, !map_app. simpl. congruence.
Qed.

Lemma has_set_at es i e e' id : nth_error es i = Some e -> eid e' = eid e -> (has (set_at i e' es) id <-> has es id).
Proof. intros. rewrite !has_in_ids. erewrite map_eid_set_at; eauto. reflexivity. Qed.

Lemma in_remove_at_nodup (l : list N) i x y :
  NoDup l -> nth_error l i = Some x -> (In y (remove_at i l) <-> In y l /\ y <> x).
Proof.
  intros ND Hn. destruct (remove_at_split l i x Hn) as (l1 & l2 & E1 & E2 & _). rewrite E2. rewrite E1 in ND |- *.
  pose proof (NoDup_remove_2 _ _ _ ND) as Nx.
  split.
  - intros H. split; [apply in_mid_cases; auto|]. intros ->. contradiction.
  - intros [H Hne]. apply in_mid_cases in H. destruct H; [congruence|auto].
Qed.

Lemma nodup_remove_at (l : list N) i : NoDup l -> NoDup (remove_at i l).
Proof.
  intros ND. destruct (nth_error l i) as [x|] eqn:Hn.
  - destruct (remove_at_split l i x Hn) as (l1 & l2 & E1 & E2 & _). rewrite E2. rewrite E1 in ND. eapply NoDup_remove_1; eauto.
  - assert (remove_at i l = l) as ->; auto. clear ND. revert i Hn. induction l; intros [|i] Hn; simpl in *; try discriminate; auto. f_equal; auto.
Qed.

Lemma mark_detached_in a x id : In (id, true) (mark_detached a x) <-> In (id, true) a /\ id <> x.
Proof.
  unfold mark_detached. rewrite in_map_iff. split.
  - intros ([i b] & H1 & H2). simpl in H1. destruct (i =? x) eqn:E; [inversion H1|].
    inversion H1; subst. split; auto. apply N.eqb_neq in E. auto.
  - intros [H1 H2]. exists (id, true). simpl. apply N.eqb_neq in H2. rewrite H2. auto.
Qed.

Lemma find_in_list (L : list N) x : In x L -> exists i, find_ent (N.eqb x) L = Some (i, x).
Proof.
  intros H. destruct (find_ent_ex (N.eqb x) L x H (N.eqb_refl x)) as (i & y & F). exists i.
  destruct (find_ent_some _ _ _ _ F) as (_ & E & _). apply N.eqb_eq in E. subst. auto.
Qed.


(* ================================================================ 8. entries moving between lists *)

Lemma nodup_ids_inj es (x y : entry) : NoDup (map eid es) -> In x es -> In y es -> eid x = eid y -> x = y.
Proof.
  induction es as [|a es IH]; simpl; intros ND Hx Hy E; [contradiction|].
  inversion ND; subst. destruct Hx as [->|Hx], Hy as [->|Hy]; auto.
  - exfalso. apply H1. rewrite E. apply in_map; auto.
  - exfalso. apply H1. rewrite <- E. apply in_map; auto.
Qed.

Lemma set_at_set_at {A} (l : list A) i u v : set_at i v (set_at i u l) = set_at i v l.
Proof. revert i; induction l; intros [|i]; simpl; auto. f_equal; auto. Qed.

Lemma set_rl_same e l : rl e = Some l -> set_rl e (Some l) = e.
Proof. destruct e; simpl; intros ->; reflexivity. Qed.

Lemma tc_remove_at l i e k : nth_error l i = Some e -> true_count l k = true_count (remove_at i l) k + ind (nip (nd e)) k.
Proof.
  intros Hn. destruct (remove_at_split l i e Hn) as (l1 & l2 & E1 & E2 & _). rewrite E2. rewrite E1 at 1.
  rewrite !tc_app, tc_cons. lia.
Qed.
Lemma tc_set_at l i e e' k :
  nth_error l i = Some e -> true_count (set_at i e' l) k + ind (nip (nd e)) k = true_count l k + ind (nip (nd e')) k.
Proof.
  intros Hn. destruct (set_at_split l i e e' Hn) as (l1 & l2 & E1 & E2 & _). rewrite E2. subst l.
  rewrite !tc_app, !tc_cons. lia.
Qed.

Section Focus2.
  Variable s : N.
  Variable j : nat.
  Variable O : rlist -> N -> Prop.
  Variable OA : N -> Prop.
  Hypothesis O_far : forall l id, O l id -> bucket_of s id <> j.

  Definition LOK (es : list entry) (g : glob) : Prop :=
    (forall l id, In id (rlist_get g l) <-> inl es l id \/ O l id) /\ (forall l, NoDup (rlist_get g l)).
  Definition AOK (es : list entry) (g : glob) : Prop :=
    forall id, In (id, true) (active g) -> has es id \/ OA id.

  (* pushing id x (of this bucket) onto list l *)
  Lemma push_LOK es es' g l x :
    LOK es g -> ~ In x (rlist_get g l) ->
    (forall l' id, inl es' l' id <-> inl es l' id \/ (l' = l /\ id = x)) ->
    LOK es' (rlist_set g l (rlist_get g l ++ [x])).
  Proof.
    intros [H1 H2] Hx Hc. split.
    - intros l' id. rewrite rlist_get_set, Hc. destruct (rlist_eqb l l') eqn:E.
      + apply rlist_eqb_eq in E; subst l'. rewrite in_app_iff, H1. simpl. intuition.
      + rewrite H1. assert (l' <> l) by (intros ->; rewrite rlist_eqb_refl in E; discriminate). intuition.
    - intros l'. rewrite rlist_get_set. destruct (rlist_eqb l l') eqn:E; auto. apply NoDup_snoc; auto.
  Qed.

  (* removing id x (of this bucket) from list l *)
  Lemma remove_LOK es es' g l i x :
    LOK es g -> nth_error (rlist_get g l) i = Some x -> bucket_of s x = j ->
    (forall l' id, inl es' l' id <-> inl es l' id /\ ~ (l' = l /\ id = x)) ->
    LOK es' (rlist_set g l (remove_at i (rlist_get g l))).
  Proof.
    intros [H1 H2] Hn Hb Hc. split.
    - intros l' id. rewrite rlist_get_set, Hc. destruct (rlist_eqb l l') eqn:E.
      + apply rlist_eqb_eq in E; subst l'. rewrite (in_remove_at_nodup _ _ x) by auto. rewrite H1.
        split; [intros [[H|H] Hne]; [left; split; auto; intros [_ ?]; auto | right; auto] |].
        intros [[H Hne]|H]; [split; auto; intros ->; apply Hne; auto|].
        split; auto. intros ->. apply O_far in H. contradiction.
      + rewrite H1. assert (l' <> l) by (intros ->; rewrite rlist_eqb_refl in E; discriminate). intuition.
    - intros l'. rewrite rlist_get_set. destruct (rlist_eqb l l') eqn:E; auto. apply nodup_remove_at; auto.
  Qed.

  (* an id of this bucket that is on list l belongs to an entry flagged l *)
  Lemma LOK_in es g l x : LOK es g -> bucket_of s x = j -> In x (rlist_get g l) -> inl es l x.
  Proof. intros [H1 _] Hb Hi. apply H1 in Hi. destruct Hi as [H|H]; auto. apply O_far in H. contradiction. Qed.


  Lemma LOK_set_tips es g ts : LOK es (set_tips g ts) <-> LOK es g.
  Proof. unfold LOK. split; intros [H1 H2]; split; intros l; specialize (H1 l); specialize (H2 l); destruct l; auto. Qed.
  Lemma AOK_set_tips es g ts : AOK es (set_tips g ts) <-> AOK es g.
  Proof. unfold AOK. simpl. reflexivity. Qed.
  Lemma AOK_rlist_set es g l v : AOK es (rlist_set g l v) <-> AOK es g.
  Proof. unfold AOK. rewrite active_rlist_set. reflexivity. Qed.
  Lemma AOK_mono es es' g : AOK es g -> (forall id, has es id -> has es' id) -> AOK es' g.
  Proof. intros H M id Hi. destruct (H id Hi); auto. Qed.

  (* moveToList for the entry at position i (its other fields may have been updated already) *)
  Lemma move_entry es g i e0 e dest :
    LOK es g -> NoDup (map eid es) -> nth_error es i = Some e0 -> eid e = eid e0 -> rl e = rl e0 ->
    bucket_of s (eid e0) = j ->
    exists g', move_to_list g dest e = Some (g', set_rl e (Some dest)) /\ tips g' = tips g /\ active g' = active g /\
               LOK (set_at i (set_rl e (Some dest)) es) g'.
  Proof using s j O OA O_far.
    intros HL ND Hn He Hr Hb.
    assert (In0 : In e0 es) by (eapply nth_error_In; eauto).
    (* an entry of es with the id of e0 is e0 *)
    assert (U : forall l', inl es l' (eid e0) -> rl e0 = Some l').
    { intros l' (x & X1 & X2 & X3). rewrite (nodup_ids_inj es x e0 ND X1 In0 X2) in X3. auto. }
    unfold move_to_list. destruct (rl e) as [l|] eqn:Rl.
    - destruct (rlist_eqb l dest) eqn:E.
      + apply rlist_eqb_eq in E; subst l. exists g. rewrite set_rl_same by auto. split; [reflexivity|split; [reflexivity|split; [reflexivity|split]]].
        * intros l' id. destruct HL as [H1 _]. rewrite H1.
          rewrite (inl_set_at es i e0 e l' id ND Hn He).
          split.
          -- intros [H|H]; auto. destruct (N.eq_dec id (eid e0)) as [->|Ne]; [|left; left; auto].
             left; right. split; auto. apply U in H. congruence.
          -- intros [[[H Hne]|[-> H]]|H]; auto. left. exists e0. repeat split; auto. congruence.
        * apply HL.
      + assert (Hd : l <> dest) by (intros ->; rewrite rlist_eqb_refl in E; discriminate).
        assert (Hin : In (eid e) (rlist_get g l)).
        { destruct HL as [H1 _]. apply H1. left. exists e0. repeat split; auto; congruence. }
        destruct (find_in_list _ _ Hin) as (i' & F). unfold rl_remove. rewrite F.
        destruct (find_ent_some _ _ _ _ F) as (Hn' & _ & _).
        unfold rl_push. change (eid (set_rl e None)) with (eid e). change (set_rl (set_rl e None) (Some dest)) with (set_rl e (Some dest)).
        eexists. split; [reflexivity|]. rewrite tips_rlist_set, tips_rlist_set, !active_rlist_set. split; [reflexivity|split; [reflexivity|]].
        set (es1 := set_at i (set_rl e None) es).
        assert (L1 : LOK es1 (rlist_set g l (remove_at i' (rlist_get g l)))).
        { eapply remove_LOK; eauto; [rewrite He; auto|].
          intros l' id. unfold es1. rewrite (inl_set_at es i e0 (set_rl e None) l' id ND Hn) by (exact He).
          simpl rl. rewrite He. split.
          - intros [[H Hne]|[_ H]]; [|discriminate]. split; auto. intros [_ ?]; auto.
          - intros [H Hne]. left. split; auto. intros ->. apply Hne. split; auto. apply U in H. congruence. }
        replace (set_at i (set_rl e (Some dest)) es) with (set_at i (set_rl e (Some dest)) es1)
          by (unfold es1; apply set_at_set_at).
        assert (Hn1 : nth_error es1 i = Some (set_rl e None)) by (unfold es1; eapply nth_error_set_at_same; eauto).
        assert (ND1 : NoDup (map eid es1)) by (unfold es1; erewrite map_eid_set_at; eauto).
        eapply push_LOK; eauto.
        * rewrite rlist_get_set, E. intros Hi. eapply LOK_in in Hi; eauto; [|rewrite He; auto].
          rewrite He in Hi. apply U in Hi. congruence.
        * intros l' id. rewrite (inl_set_at es1 i (set_rl e None) (set_rl e (Some dest)) l' id ND1 Hn1) by reflexivity.
          simpl rl. change (eid (set_rl e None)) with (eid e).
          split.
          -- intros [[H Hne]|[-> H]]; [left; auto|right; split; congruence].
          -- intros [H|[-> ->]]; [|right; auto].
             destruct (N.eq_dec id (eid e)) as [->|Ne]; [|left; auto].
             exfalso. destruct H as (x & X1 & X2 & X3).
             assert (x = set_rl e None).
             { eapply (nodup_ids_inj es1); eauto. eapply nth_error_In; eauto. }
             subst x. discriminate.
    - unfold rl_push. eexists. split; [reflexivity|]. rewrite tips_rlist_set, active_rlist_set. split; [reflexivity|split; [reflexivity|]].
      eapply push_LOK; eauto.
      + intros Hi. eapply LOK_in in Hi; eauto; [|rewrite He; auto]. rewrite He in Hi. apply U in Hi. congruence.
      + intros l' id. rewrite (inl_set_at es i e0 (set_rl e (Some dest)) l' id ND Hn) by (exact He).
        simpl rl. rewrite He. split.
        * intros [[H Hne]|[-> H]]; [left; auto|right; split; congruence].
        * intros [H|[-> ->]]; [|right; auto].
          destruct (N.eq_dec id (eid e0)) as [->|Ne]; [|left; auto]. apply U in H. congruence.
  Qed.

  (* nodeAdded for a node that is not an entry yet *)
  Lemma push_new es g e l :
    LOK es g -> ~ has es (eid e) -> bucket_of s (eid e) = j ->
    LOK (es ++ [set_rl e (Some l)]) (rlist_set g l (rlist_get g l ++ [eid e])).
  Proof using s j O OA O_far.
    intros HL Hh Hb. eapply push_LOK; eauto.
    - intros Hi. eapply LOK_in in Hi; eauto. apply Hh. eapply inl_has; eauto.
    - intros l' id. rewrite inl_app_one. change (eid (set_rl e (Some l))) with (eid e). change (rl (set_rl e (Some l))) with (Some l).
      split; intros [H|[H1 H2]]; auto; right; split; congruence.
  Qed.

  (* nodeRemoved for the entry at position i *)
  Lemma remove_entry es g i e0 :
    LOK es g -> AOK es g -> NoDup (map eid es) -> nth_error es i = Some e0 -> rl e0 <> None ->
    bucket_of s (eid e0) = j ->
    exists g', node_removed g e0 = Some g' /\ tips g' = tips g /\
               LOK (remove_at i es) g' /\ AOK (remove_at i es) g'.
  Proof using s j O OA O_far.
    intros HL HA ND Hn Hr Hb. unfold node_removed. destruct (rl e0) as [l|] eqn:Rl; [|congruence].
    assert (In0 : In e0 es) by (eapply nth_error_In; eauto).
    assert (Hin : In (eid e0) (rlist_get g l)).
    { destruct HL as [H1 _]. apply H1. left. exists e0. auto. }
    destruct (find_in_list _ _ Hin) as (i' & F). unfold rl_remove. rewrite F.
    destruct (find_ent_some _ _ _ _ F) as (Hn' & _ & _).
    eexists. split; [reflexivity|]. simpl. rewrite tips_rlist_set. split; [reflexivity|split].
    - assert (L1 : LOK (remove_at i es) (rlist_set g l (remove_at i' (rlist_get g l)))).
      { eapply remove_LOK; eauto. intros l' id. rewrite (inl_remove_at es i e0 l' id ND Hn). split.
        - intros [H Hne]. split; auto. intros [_ ?]; auto.
        - intros [H Hne]. split; auto. intros ->. apply Hne. split; auto.
          destruct H as (x & X1 & X2 & X3). rewrite (nodup_ids_inj es x e0 ND X1 In0 X2) in X3. congruence. }
      destruct L1 as [A B]. split; intros l'; [specialize (A l')|specialize (B l')]; destruct l, l'; auto.
    - intros id Hi. simpl in Hi. rewrite active_rlist_set in Hi. apply mark_detached_in in Hi. destruct Hi as [Hi Hne].
      destruct (HA id Hi) as [H|H]; auto. left. apply (has_remove_at es i e0 id ND Hn). auto.
  Qed.
End Focus2.

(* ================================================================ 9. bucket operations preserve the focused invariant *)

From Coq Require Import Permutation.

Lemma NoDup_app_l {A} (l1 l2 : list A) : NoDup (l1 ++ l2) -> NoDup l1.
Proof.
  induction l1 as [|a l1 IH]; simpl; intros H; [constructor|]. inversion H; subst.
  constructor; auto. intro. apply H2. rewrite in_app_iff. auto.
Qed.
Lemma filter_len_le {A} (p : A -> bool) l : (length (filter p l) <= length l)%nat.
Proof. induction l as [|a l IH]; simpl; auto. destruct (p a); simpl; lia. Qed.
Lemma nlen_app {A} (l1 l2 : list A) : nlen (l1 ++ l2) = nlen l1 + nlen l2.
Proof. unfold nlen. rewrite app_length. lia. Qed.
Lemma nlen_remove_at {A} (l : list A) i x : nth_error l i = Some x -> nlen (remove_at i l) + 1 = nlen l.
Proof. intros H. unfold nlen. pose proof (length_remove_at l i x H). lia. Qed.
Lemma nlen_set_at {A} (l : list A) i v : nlen (set_at i v l) = nlen l.
Proof. unfold nlen. rewrite length_set_at. reflexivity. Qed.

Ltac sb := cbn [ents reps bips tips fast slow active set_bips set_ents set_reps set_tips set_active].
Ltac sb_in H := cbn [ents reps bips tips fast slow active set_bips set_ents set_reps set_tips set_active] in H.

Section Focus3.
  Variable s : N.
  Variable j : nat.
  Variable R : N -> N.
  Variable O : rlist -> N -> Prop.
  Variable OA : N -> Prop.
  Hypothesis O_far : forall l id, O l id -> bucket_of s id <> j.

  Definition BCore (b : bucket) : Prop := BSize b /\ BUniq b /\ BPlace s j b /\ BFlags b /\ BAddr b.
  Definition FInv (g : glob) (b : bucket) : Prop :=
    BCore b /\ IPok R (true_count (bnodes b)) (tips g) (bips b) /\ LOK O (ents b) g /\ AOK OA (ents b) g.

  Lemma BUniq_ents b : BUniq b -> NoDup (map eid (ents b)).
  Proof. unfold BUniq, bnodes. rewrite map_app. apply NoDup_app_l. Qed.
  Lemma BUniq_rep_not_ent b r : BUniq b -> In r (reps b) -> ~ has (ents b) (eid r).
  Proof.
    unfold BUniq, bnodes. rewrite map_app. intros ND Hr Hh. apply has_in_ids in Hh.
    apply in_split in Hr. destruct Hr as (r1 & r2 & Er). rewrite Er, map_app in ND. simpl in ND.
    rewrite app_assoc in ND. apply NoDup_remove_2 in ND. apply ND. rewrite in_app_iff. left. rewrite in_app_iff. auto.
  Qed.

  Lemma delete_in_bucket_inv id pick g b :
    FInv g b -> exists g' b', delete_in_bucket id pick g b = Some (g', b') /\ FInv g' b'.
  Proof.
    intros (HC & HI & HL & HA). pose proof HC as (HS & HU & HP & HF & HAd).
    unfold delete_in_bucket. destruct (find_ent (fun e => eid e =? id) (ents b)) as [[i n]|] eqn:F.
    2: { exists g, b. split; auto. split; auto. }
    destruct (find_ent_some _ _ _ _ F) as (Hn & Hid & _).
    pose proof (BUniq_ents b HU) as NDe.
    assert (Inn : In n (ents b)) by (eapply nth_error_In; eauto).
    assert (Inb : In n (bnodes b)) by (unfold bnodes; rewrite in_app_iff; auto).
    destruct (HP n Inb) as [Pj Ps].
    unfold remove_ip. cbn [tips bips set_ents].
    destruct (remove_ip_s (tips g) (bips b) (nip (nd n))) as [ts bs] eqn:RI.
    assert (IP2 : IPok R (fun k => true_count (bnodes b) k - ind (nip (nd n)) k) ts bs).
    { eapply remove_ip_s_ok; eauto. intros L. pose proof (tc_in n (bnodes b) (key24 (nip (nd n))) Inb) as T.
      rewrite ind_same in T by auto. exact T. }
    assert (TC : forall k, true_count (remove_at i (ents b) ++ reps b) k = true_count (bnodes b) k - ind (nip (nd n)) k).
    { intros k. unfold bnodes. rewrite !tc_app. rewrite (tc_remove_at (ents b) i n k Hn). lia. }
    assert (L0 : LOK O (ents b) (set_tips g ts)) by (apply LOK_set_tips; auto).
    assert (A0 : AOK OA (ents b) (set_tips g ts)) by (apply AOK_set_tips; auto).
    assert (Rn : rl n <> None) by (apply (proj1 HF); auto).
    destruct (remove_entry s j O OA O_far (ents b) (set_tips g ts) i n L0 A0 NDe Hn Rn Pj) as (g2 & NR & T2 & L2 & A2).
    rewrite NR. cbn [reps set_bips set_ents ents bips].
    assert (HU' : NoDup (map eid (remove_at i (ents b) ++ reps b))).
    { destruct (remove_at_split (ents b) i n Hn) as (l1 & l2 & E1 & E2 & _). rewrite E2.
      unfold BUniq, bnodes in HU. rewrite E1 in HU. rewrite <- app_assoc in *. simpl in HU.
      rewrite map_app in *. simpl in HU. eapply NoDup_remove_1; eauto. }
    assert (RC : reps b = [] \/ exists r0 rs, reps b = r0 :: rs) by (destruct (reps b); eauto).
    destruct RC as [Rp|(r0 & rs & Rp)].
    - rewrite Rp. eexists _, _. split; [reflexivity|].
      split; [|split; [|split]]; sb; auto.
      + split; [|split; [|split; [|split]]].
        * destruct HS as [S1 S2]. split; sb; [|auto]. pose proof (nlen_remove_at _ _ _ Hn). lia.
        * unfold BUniq, bnodes. sb. exact HU'.
        * intros e He. apply HP. unfold bnodes in *. sb_in He.
          rewrite in_app_iff in *. destruct He as [He|He]; auto. left. eapply in_remove_at; eauto.
        * destruct HF as [F1 F2]. split; sb; [|exact F2]. intros e He. apply F1. eapply in_remove_at; eauto.
        * intros e He. apply HAd. unfold bnodes in *. sb_in He.
          rewrite in_app_iff in *. destruct He as [He|He]; auto. left. eapply in_remove_at; eauto.
      + rewrite T2. cbn [tips]. eapply IPok_weaken; [exact IP2|]. intros k. cbv beta. rewrite <- TC. unfold bnodes. sb. lia.
    - assert (Hlen : (pick mod length (reps b) < length (reps b))%nat) by (apply Nat.mod_upper_bound; rewrite Rp; discriminate).
      destruct (nth_error (reps b) (pick mod length (reps b))) as [rep|] eqn:Hr; [|apply nth_error_None in Hr; lia].
      assert (MM : forall (X : Type) (a c : X), match reps b with [] => a | _ :: _ => c end = c) by (intros; rewrite Rp; reflexivity).
      rewrite MM. unfold rl_push.
      eexists _, _. split; [reflexivity|].
      assert (Inr : In rep (reps b)) by (eapply nth_error_In; eauto).
      assert (Inrb : In rep (bnodes b)) by (unfold bnodes; rewrite in_app_iff; auto).
      destruct (remove_at_split (reps b) _ rep Hr) as (r1 & r2 & E1 & E2 & _).
      set (rep' := set_rl rep (Some Fast)).
      assert (PM : Permutation ((remove_at i (ents b) ++ [rep']) ++ r1 ++ r2) (rep' :: remove_at i (ents b) ++ r1 ++ r2)).
      { rewrite <- app_assoc. simpl. symmetry. apply Permutation_middle. }
      assert (PM2 : Permutation (remove_at i (ents b) ++ reps b) (rep :: remove_at i (ents b) ++ r1 ++ r2)).
      { rewrite E1. symmetry. rewrite app_assoc. rewrite app_assoc. apply Permutation_middle. }
      split; [|split; [|split]]; sb.
      + split; [|split; [|split; [|split]]].
        * destruct HS as [S1 S2]. split; sb.
          -- rewrite nlen_app. pose proof (nlen_remove_at _ _ _ Hn). change (nlen [rep']) with 1. lia.
          -- pose proof (nlen_remove_at _ _ _ Hr). lia.
        * unfold BUniq, bnodes. sb. rewrite E2.
          eapply Permutation_NoDup; [symmetry; apply Permutation_map; exact PM|].
          simpl. change (eid rep') with (eid rep).
          eapply Permutation_NoDup in HU'; [|apply Permutation_map; exact PM2]. exact HU'.
        * intros e He. unfold bnodes in He. sb_in He. rewrite !in_app_iff in He.
          destruct He as [[He|[<-|[]]]|He].
          -- apply HP. unfold bnodes. rewrite in_app_iff. left. eapply in_remove_at; eauto.
          -- change (eid rep') with (eid rep). apply HP; auto.
          -- apply HP. unfold bnodes. rewrite in_app_iff. right. eapply in_remove_at; eauto.
        * destruct HF as [F1 F2]. split; sb.
          -- intros e He. rewrite in_app_iff in He. destruct He as [He|[<-|[]]]; [|discriminate]. apply F1. eapply in_remove_at; eauto.
          -- intros e He. apply F2. eapply in_remove_at; eauto.
        * intros e He. unfold bnodes in He. sb_in He. rewrite !in_app_iff in He.
          destruct He as [[He|[<-|[]]]|He].
          -- apply HAd. unfold bnodes. rewrite in_app_iff. left. eapply in_remove_at; eauto.
          -- change (nd rep') with (nd rep). apply HAd; auto.
          -- apply HAd. unfold bnodes. rewrite in_app_iff. right. eapply in_remove_at; eauto.
      + rewrite tips_rlist_set, T2. cbn [tips]. eapply IPok_weaken; [exact IP2|]. intros k. cbv beta. rewrite <- TC.
        unfold bnodes. sb. rewrite E2. rewrite E1.
        repeat (rewrite tc_app || rewrite tc_cons || rewrite tc_nil). change (nd rep') with (nd rep). lia.
      + apply (push_new s j O OA O_far); auto.
        * intros Hh. apply (BUniq_rep_not_ent b rep HU Inr). apply (has_remove_at _ _ _ _ NDe Hn) in Hh. tauto.
        * apply HP; auto.
      + apply AOK_rlist_set. eapply AOK_mono; [exact A2|]. intros x Hx. apply has_app_one. auto.
  Qed.

  Lemma in_set_at {A} (l : list A) i v x : In x (set_at i v l) -> x = v \/ In x l.
  Proof. revert i; induction l as [|a l IH]; intros [|i] H; simpl in *; auto; destruct H as [H|H]; auto. destruct (IH _ H); auto. Qed.

  (* replacing the entry at position i by one with the same id *)
  Lemma BCore_set_entry b i e0 e' :
    BCore b -> nth_error (ents b) i = Some e0 -> eid e' = eid e0 -> rl e' <> None -> addr_ok (nip (nd e')) ->
    BCore (set_ents b (set_at i e' (ents b))).
  Proof.
    intros (HS & HU & HP & HF & HAd) Hn He Hr Ha.
    assert (In0 : In e0 (bnodes b)) by (unfold bnodes; rewrite in_app_iff; left; eapply nth_error_In; eauto).
    assert (CASES : forall e, In e (bnodes (set_ents b (set_at i e' (ents b)))) -> e = e' \/ In e (bnodes b)).
    { intros e H. unfold bnodes in *. sb_in H. rewrite in_app_iff in *. destruct H as [H|H]; auto.
      apply in_set_at in H. tauto. }
    split; [|split; [|split; [|split]]].
    - destruct HS. split; sb; auto. rewrite nlen_set_at. auto.
    - unfold BUniq, bnodes in *. sb. rewrite map_app in *. erewrite map_eid_set_at; eauto.
    - intros e H. destruct (CASES e H) as [->|H']; [rewrite He|]; apply HP; auto.
    - destruct HF as [F1 F2]. split; sb; auto. intros e H. apply in_set_at in H. destruct H as [->|H]; auto.
    - intros e H. destruct (CASES e H) as [->|H']; auto.
  Qed.

  Lemma LOK_set_same es g i e0 e' :
    LOK O es g -> NoDup (map eid es) -> nth_error es i = Some e0 -> eid e' = eid e0 -> rl e' = rl e0 ->
    LOK O (set_at i e' es) g.
  Proof.
    intros [H1 H2] ND Hn He Hr. split; auto. intros l id. rewrite H1.
    rewrite (inl_set_at es i e0 e' l id ND Hn He).
    assert (In0 : In e0 es) by (eapply nth_error_In; eauto).
    split.
    - intros [H|H]; auto. destruct (N.eq_dec id (eid e0)) as [->|Ne]; [|left; left; auto].
      left; right. split; auto. destruct H as (x & X1 & X2 & X3).
      rewrite (nodup_ids_inj es x e0 ND X1 In0 X2) in X3. congruence.
    - intros [[[H Hne]|[-> H]]|H]; auto. left. exists e0. repeat split; auto. congruence.
  Qed.

  Lemma AOK_set_same es g i e0 e' :
    AOK OA es g -> nth_error es i = Some e0 -> eid e' = eid e0 -> AOK OA (set_at i e' es) g.
  Proof. intros H Hn He. eapply AOK_mono; eauto. intros id Hh. eapply has_set_at; eauto. Qed.

  Lemma swap_ip_spec c g b old new g1 b1 fits :
    IPok R c (tips g) (bips b) -> addr_ok old -> (is_lan old = false -> 1 <= c (key24 old)) ->
    swap_ip g b old new = (g1, b1, fits) ->
    exists ts1 bs1, g1 = set_tips g ts1 /\ b1 = set_bips b bs1 /\
      (fits = true -> addr_ok new /\ IPok R (fun k => c k - ind old k + ind new k) ts1 bs1) /\
      (fits = false -> IPok R c ts1 bs1).
  Proof.
    intros [I1 I2] Ho Hc. unfold swap_ip, remove_ip, add_ip. sb.
    destruct (remove_ip_s (tips g) (bips b) old) as [ts0 bs0] eqn:E0. sb.
    pose proof (remove_ip_s_cases _ _ _ _ _ E0) as C0.
    destruct (add_ip_s ts0 bs0 new) as [[ts1 bs1] ok] eqn:E1. sb.
    assert (Hold : forall k, ind old k <= c k).
    { intros k. destruct (is_lan old) eqn:L; [rewrite ind_lan by auto; lia|].
      destruct (N.eq_dec (key24 old) k) as [<-|Ne]; [rewrite ind_same by auto; auto|rewrite ind_other by auto; lia]. }
    destruct (add_ip_s_cases _ _ _ _ _ _ E1) as [(-> & A1 & A2 & A3)|(-> & A2 & A3)].
    - intros E; inversion E; subst. exists ts1, bs1. split; [reflexivity|]. split; [reflexivity|]. split; [|discriminate].
      intros _. split; [exact A1|].
      assert (Hnew : forall k, ind new k = 0 \/ (ind new k = 1 /\ ips_count ts0 k < K_tableIPLimit /\ ips_count bs0 k < K_bucketIPLimit)).
      { intros k. destruct (is_lan new) eqn:L; [left; apply ind_lan; auto|].
        destruct (N.eq_dec (key24 new) k) as [<-|Ne]; [right; rewrite ind_same by auto; auto | left; apply ind_other; auto]. }
      split; intros k; specialize (I1 k); specialize (I2 k); specialize (C0 k); specialize (A2 k); specialize (Hold k);
        specialize (Hnew k); pose proof (ind_le old k); lia.
    - destruct (add_ip_s ts1 bs1 old) as [[ts2 bs2] ok2] eqn:E2. sb.
      intros E; inversion E; subst. exists ts2, bs2. split; [reflexivity|]. split; [reflexivity|]. split; [discriminate|]. intros _.
      destruct (add_ip_s_cases _ _ _ _ _ _ E2) as [(-> & B1 & B2 & B3)|(-> & B2 & [B3|[B3 B4]])].
      + split; intros k; specialize (I1 k); specialize (I2 k); specialize (C0 k); specialize (A2 k); specialize (B2 k);
          specialize (Hold k); lia.
      + contradiction.
      + exfalso. specialize (Hc B3). pose proof (I1 (key24 old)). pose proof (I2 (key24 old)).
        pose proof (C0 (key24 old)) as C. pose proof (A2 (key24 old)) as A. rewrite ind_same in C by auto. lia.
  Qed.

  Lemma FInv_parts g b : FInv g b ->
    NoDup (map eid (ents b)) /\ (forall e, In e (ents b) -> bucket_of s (eid e) = j /\ rl e <> None /\ addr_ok (nip (nd e)) /\
                                 (forall k, ind (nip (nd e)) k <= true_count (bnodes b) k)).
  Proof.
    intros ((HS & HU & HP & HF & HAd) & _). split; [apply BUniq_ents; auto|].
    intros e He. assert (Inb : In e (bnodes b)) by (unfold bnodes; rewrite in_app_iff; auto).
    split; [apply HP; auto|]. split; [apply (proj1 HF); auto|]. split; [apply HAd; auto|].
    intros k. apply tc_in; auto.
  Qed.

  Lemma bump_in_bucket_inv g b nr inbound :
    FInv g b ->
    exists g' b' found ec, bump_in_bucket g b nr inbound = Some (g', b', found, ec) /\ FInv g' b' /\
      map eid (ents b') = map eid (ents b) /\ reps b' = reps b /\
      (found = false -> g' = g /\ b' = b /\ ~ has (ents b) (nid nr)) /\ (found = true -> has (ents b) (nid nr)).
  Proof.
    intros HFI. pose proof HFI as (HC & HI & HL & HA). pose proof (FInv_parts g b HFI) as (NDe & PE).
    unfold bump_in_bucket. destruct (find_ent (fun e => eid e =? nid nr) (ents b)) as [[i n]|] eqn:F.
    2: { exists g, b, false, false. split; auto. split; auto. split; auto. split; auto. split; [|discriminate].
         intros _. split; auto. split; auto. intros (e & He & Hid). pose proof (find_ent_none _ _ F e He) as X.
         simpl in X. apply N.eqb_neq in X. contradiction. }
    destruct (find_ent_some _ _ _ _ F) as (Hn & Hid & _). apply N.eqb_eq in Hid.
    assert (Inn : In n (ents b)) by (eapply nth_error_In; eauto).
    assert (Hhas : has (ents b) (nid nr)) by (exists n; auto).
    destruct (PE n Inn) as (Pj & Prl & Pad & Ptc).
    destruct ((nseq nr <=? nseq (nd n)) && negb inbound).
    { exists g, b, true, false. split; auto. split; auto. split; auto. split; auto. split; [discriminate|auto]. }
    set (c := true_count (bnodes b)) in *.
    (* IP phase *)
    assert (PH : exists ts1 bs1 fits,
      (if negb (nip nr =? nip (nd n)) then swap_ip g b (nip (nd n)) (nip nr) else (g, b, true))
        = (set_tips g ts1, set_bips b bs1, fits) /\
      (fits = true -> addr_ok (nip nr) /\ IPok R (fun k => c k - ind (nip (nd n)) k + ind (nip nr) k) ts1 bs1) /\
      (fits = false -> IPok R c ts1 bs1)).
    { destruct (nip nr =? nip (nd n)) eqn:IPE; simpl.
      - apply N.eqb_eq in IPE. exists (tips g), (bips b), true. split; [destruct g, b; reflexivity|]. split; [|discriminate].
        intros _. rewrite IPE. split; auto. eapply IPok_weaken; [exact HI|]. intros k. cbv beta. specialize (Ptc k). lia.
      - destruct (swap_ip g b (nip (nd n)) (nip nr)) as [[g1 b1] fits] eqn:SW.
        assert (Hc1 : is_lan (nip (nd n)) = false -> 1 <= c (key24 (nip (nd n)))).
        { intros L. specialize (Ptc (key24 (nip (nd n)))). rewrite ind_same in Ptc by auto. exact Ptc. }
        destruct (swap_ip_spec c g b _ _ _ _ _ HI Pad Hc1 SW) as (ts1 & bs1 & -> & -> & S1 & S2).
        exists ts1, bs1, fits. auto. }
    destruct PH as (ts1 & bs1 & fits & -> & PH1 & PH2).
    assert (L1 : LOK O (ents b) (set_tips g ts1)) by (apply LOK_set_tips; auto).
    assert (A1 : AOK OA (ents b) (set_tips g ts1)) by (apply AOK_set_tips; auto).
    destruct fits; simpl negb; cbv iota.
    2: { exists (set_tips g ts1), (set_bips b bs1), true, false. split; auto. split; [|split; [|split; [|split]]]; auto; try discriminate.
         split; [exact HC|]. split; [sb; apply PH2; auto|]. split; auto. }
    destruct (PH1 eq_refl) as (Anew & IP1). clear PH1 PH2.
    assert (CB : forall e', eid e' = eid n -> rl e' <> None -> nd e' = nr ->
               BCore (set_ents (set_bips b bs1) (set_at i e' (ents (set_bips b bs1)))) /\
               IPok R (true_count (bnodes (set_ents (set_bips b bs1) (set_at i e' (ents (set_bips b bs1)))))) ts1 bs1).
    { intros e' E1 E2 E3. split.
      - apply (BCore_set_entry (set_bips b bs1) i n e'); auto. rewrite E3. auto.
      - eapply IPok_weaken; [exact IP1|]. intros k. cbv beta. unfold bnodes. sb. rewrite tc_app.
        pose proof (tc_set_at (ents b) i n e' k Hn) as T. rewrite E3 in T. unfold c, bnodes. rewrite tc_app. specialize (Ptc k). lia. }
    destruct (negb (nip nr =? nip (nd n)) || negb (nport nr =? nport (nd n))).
    - destruct (move_entry s j O OA O_far (ents b) (set_tips g ts1) i n (set_live (set_nd n nr) false) Fast L1 NDe Hn)
        as (g2 & MV & T2 & AC2 & L2); auto.
      sb. rewrite MV. eexists _, _, true, true. split; [reflexivity|].
      destruct (CB (set_rl (set_live (set_nd n nr) false) (Some Fast))) as [CB1 CB2]; auto; [discriminate|].
      split; [|split; [|split; [|split]]]; sb; auto; try discriminate.
      + split; [exact CB1|]. split; [rewrite T2; sb; exact CB2|]. split; [sb; exact L2|].
        sb. eapply AOK_set_same; eauto. intros id Hi. rewrite AC2 in Hi. apply A1; auto.
      + erewrite map_eid_set_at; eauto.
    - eexists _, _, true, false. split; [reflexivity|].
      destruct (CB (set_nd n nr)) as [CB1 CB2]; auto.
      split; [|split; [|split; [|split]]]; sb; auto; try discriminate.
      + split; [exact CB1|]. split; [sb; exact CB2|]. split; [sb; eapply LOK_set_same; eauto|].
        sb. eapply AOK_set_same; eauto.
      + erewrite map_eid_set_at; eauto.
  Qed.

  Lemma NoDup_insert {A} (l1 l2 : list A) a : NoDup (l1 ++ l2) -> ~ In a (l1 ++ l2) -> NoDup (l1 ++ a :: l2).
  Proof.
    intros H1 H2. eapply Permutation_NoDup; [apply Permutation_middle|]. constructor; auto.
  Qed.

  Lemma NoDup_filter_ids (p : N -> bool) l1 (l2 : list entry) :
    NoDup (map eid (l1 ++ l2)) -> NoDup (map eid (l1 ++ filter (fun r => p (eid r)) l2)).
  Proof.
    rewrite !map_app. induction l2 as [|a l2 IH]; simpl; auto. intros H.
    pose proof (NoDup_remove_1 _ _ _ H) as H1. destruct (p (eid a)); simpl; auto.
    apply NoDup_insert; auto. apply NoDup_remove_2 in H. intros X. apply H.
    rewrite in_app_iff in *. destruct X as [X|X]; auto. right.
    apply in_map_iff in X. destruct X as (x & X1 & X2). apply filter_In in X2. rewrite <- X1. apply in_map. tauto.
  Qed.

  Lemma add_ip_spec c g b ip g1 b1 ok :
    IPok R c (tips g) (bips b) -> add_ip g b ip = (g1, b1, ok) ->
    exists ts1 bs1, g1 = set_tips g ts1 /\ b1 = set_bips b bs1 /\
      (ok = true -> addr_ok ip /\ IPok R (fun k => c k + ind ip k) ts1 bs1) /\ (ok = false -> IPok R c ts1 bs1).
  Proof.
    intros HI. unfold add_ip. destruct (add_ip_s (tips g) (bips b) ip) as [[ts1 bs1] ok'] eqn:E.
    intros X; inversion X; subst. exists ts1, bs1. split; auto. split; auto. split; intros ->.
    - split; [|eapply add_ip_s_ok; eauto]. destruct (add_ip_s_cases _ _ _ _ _ _ E) as [(_ & A & _)|(X1 & _)]; [auto|discriminate].
    - eapply add_ip_s_fail; eauto.
  Qed.

  Lemma add_replacement_inv g b n :
    FInv g b -> ~ has (ents b) (nid n) -> bucket_of s (nid n) = j -> nid n <> s ->
    exists g' b', add_replacement g b n = Some (g', b') /\ FInv g' b' /\ ents b' = ents b.
  Proof.
    intros HFI Hnh Hbj Hns. pose proof HFI as (HC & HI & HL & HA). pose proof HC as (HS & HU & HP & HF & HAd).
    unfold add_replacement. destruct (existsb (fun r => eid r =? nid n) (reps b)) eqn:EX.
    { exists g, b. auto. }
    assert (Hnr : forall r, In r (reps b) -> eid r <> nid n).
    { intros r Hr E. assert (existsb (fun r => eid r =? nid n) (reps b) = true); [|congruence].
      apply existsb_exists. exists r. split; auto. apply N.eqb_eq; auto. }
    destruct (add_ip g b (nip n)) as [[g1 b1] ok] eqn:AI.
    destruct (add_ip_spec _ g b _ _ _ _ HI AI) as (ts1 & bs1 & -> & -> & OK1 & OK2).
    assert (L1 : LOK O (ents b) (set_tips g ts1)) by (apply LOK_set_tips; auto).
    assert (A1 : AOK OA (ents b) (set_tips g ts1)) by (apply AOK_set_tips; auto).
    destruct ok; simpl negb; cbv iota.
    2: { eexists _, _. split; [reflexivity|]. split; auto. split; [exact HC|]. split; [sb; apply OK2; auto|]. split; auto. }
    destruct (OK1 eq_refl) as (Anew & IP1). clear OK1 OK2.
    set (wn := mkEntry n 0 false None).
    assert (Hfresh : ~ In (eid wn) (map eid (ents b ++ reps b))).
    { intros X. apply in_map_iff in X. destruct X as (x & X1 & X2). apply in_app_iff in X2. destruct X2 as [X2|X2].
      - apply Hnh. exists x. auto.
      - apply (Hnr x X2). auto. }
    unfold push_node. sb. destruct (length (reps b) <? N.to_nat K_maxReplacements)%nat eqn:LT.
    - apply Nat.ltb_lt in LT. eexists _, _. split; [reflexivity|]. split; [|reflexivity].
      split; [|split; [|split]]; sb; auto.
      + split; [|split; [|split; [|split]]].
        * destruct HS as [S1 S2]. split; sb; auto. unfold nlen in *. simpl length. lia.
        * unfold BUniq, bnodes in *. sb. rewrite map_app in *. simpl. apply NoDup_insert; auto; rewrite <- map_app; exact Hfresh.
        * intros e He. unfold bnodes in He. sb_in He. rewrite in_app_iff in He. simpl in He.
          destruct He as [He|[<-|He]]; [apply HP; unfold bnodes; rewrite in_app_iff; auto | split; auto | apply HP; unfold bnodes; rewrite in_app_iff; auto].
        * destruct HF as [F1 F2]. split; sb; auto. intros e [<-|He]; auto.
        * intros e He. unfold bnodes in He. sb_in He. rewrite in_app_iff in He. simpl in He.
          destruct He as [He|[<-|He]]; [apply HAd; unfold bnodes; rewrite in_app_iff; auto | exact Anew | apply HAd; unfold bnodes; rewrite in_app_iff; auto].
      + eapply IPok_weaken; [exact IP1|]. intros k. cbv beta. unfold bnodes. sb. rewrite !tc_app, tc_cons. simpl. lia.
    - apply Nat.ltb_ge in LT. destruct (last_opt (reps b)) as [r|] eqn:LO.
      2: { apply last_opt_none in LO. rewrite LO in LT. simpl in LT. pose proof K_reps_pos. lia. }
      pose proof (last_opt_split _ _ LO) as ES.
      assert (Inr : In r (reps b)) by (rewrite ES; rewrite in_app_iff; simpl; auto).
      unfold remove_ip. sb. destruct (remove_ip_s ts1 bs1 (nip (nd r))) as [ts2 bs2] eqn:RI.
      eexists _, _. split; [reflexivity|]. split; [|reflexivity].
      assert (TCE : forall k, true_count (ents b ++ wn :: removelast (reps b)) k + ind (nip (nd r)) k = true_count (bnodes b) k + ind (nip n) k).
      { intros k. unfold bnodes. rewrite ES at 2. repeat (rewrite tc_app || rewrite tc_cons || rewrite tc_nil). simpl. lia. }
      assert (SUB : forall e, In e (removelast (reps b)) -> In e (reps b)).
      { intros e He. rewrite ES. rewrite in_app_iff. auto. }
      split; [|split; [|split]]; sb.
      + split; [|split; [|split; [|split]]].
        * destruct HS as [S1 S2]. split; sb; auto. unfold nlen in *. simpl length.
          assert (length (reps b) = S (length (removelast (reps b)))) by (rewrite ES at 1; rewrite app_length; simpl; lia). lia.
        * unfold BUniq, bnodes in *. sb. rewrite map_app in *. simpl. apply NoDup_insert.
          -- rewrite ES in HU. rewrite map_app in HU. simpl in HU. rewrite app_assoc in HU. apply NoDup_remove_1 in HU. rewrite app_nil_r in HU. auto.
          -- intros X. apply Hfresh. rewrite in_app_iff in *. destruct X as [X|X]; auto. right.
             apply in_map_iff in X. destruct X as (x & X1 & X2). rewrite <- X1. apply in_map. auto.
        * intros e He. unfold bnodes in He. sb_in He. rewrite in_app_iff in He. simpl in He.
          destruct He as [He|[<-|He]]; [apply HP; unfold bnodes; rewrite in_app_iff; auto | split; auto | apply HP; unfold bnodes; rewrite in_app_iff; auto].
        * destruct HF as [F1 F2]. split; sb; auto. intros e [<-|He]; auto.
        * intros e He. unfold bnodes in He. sb_in He. rewrite in_app_iff in He. simpl in He.
          destruct He as [He|[<-|He]]; [apply HAd; unfold bnodes; rewrite in_app_iff; auto | exact Anew | apply HAd; unfold bnodes; rewrite in_app_iff; auto].
      + assert (IP2 : IPok R (fun k => (true_count (bnodes b) k + ind (nip n) k) - ind (nip (nd r)) k) ts2 bs2).
        { eapply (remove_ip_s_ok R (fun k => true_count (bnodes b) k + ind (nip n) k)); eauto.
          intros L. assert (In r (bnodes b)) as Hb by (unfold bnodes; rewrite in_app_iff; auto).
          pose proof (tc_in r (bnodes b) (key24 (nip (nd r))) Hb) as T. rewrite ind_same in T by auto. lia. }
        eapply IPok_weaken; [exact IP2|]. intros k. cbv beta. unfold bnodes at 1. sb. specialize (TCE k). lia.
      + apply LOK_set_tips; auto.
      + apply AOK_set_tips; auto.
  Qed.

  Lemma add_node_b_inv n inbound force g b :
    FInv g b -> bucket_of s (nid n) = j -> nid n <> s ->
    exists g' b', add_node_b n inbound force g b = Some (g', b') /\ FInv g' b'.
  Proof.
    intros HFI Hbj Hns. unfold add_node_b.
    destruct (bump_in_bucket_inv g b n inbound HFI) as (g1 & b1 & found & ec & -> & HF1 & _ & _ & NF & _).
    destruct found; [eauto|]. destruct (NF eq_refl) as (-> & -> & Hnh). clear NF HF1.
    destruct (K_bucketSize <=? nlen (ents b)) eqn:FULL.
    { destruct (add_replacement_inv g b n HFI Hnh Hbj Hns) as (g' & b' & E & H & _). eauto. }
    pose proof HFI as (HC & HI & HL & HA). pose proof HC as (HS & HU & HP & HF & HAd).
    destruct (add_ip g b (nip n)) as [[g2 b2] ok] eqn:AI.
    destruct (add_ip_spec _ g b _ _ _ _ HI AI) as (ts1 & bs1 & -> & -> & OK1 & OK2).
    assert (L1 : LOK O (ents b) (set_tips g ts1)) by (apply LOK_set_tips; auto).
    assert (A1 : AOK OA (ents b) (set_tips g ts1)) by (apply AOK_set_tips; auto).
    destruct ok; simpl negb; cbv iota.
    2: { eexists _, _. split; [reflexivity|]. split; [exact HC|]. split; [sb; apply OK2; auto|]. split; auto. }
    destruct (OK1 eq_refl) as (Anew & IP1). clear OK1 OK2.
    set (wn := mkEntry n (if force then 1 else 0) force None).
    unfold rl_push. sb. change (eid wn) with (nid n).
    set (wn' := set_rl wn (Some Fast)).
    set (rs := filter (fun r => negb (eid r =? nid n)) (reps b)).
    eexists _, _. split; [reflexivity|].
    assert (SUB : forall e, In e rs -> In e (reps b) /\ eid e <> nid n).
    { intros e He. apply filter_In in He. destruct He as [H1 H2]. split; auto. apply negb_true_iff, N.eqb_neq in H2. auto. }
    split; [|split; [|split]]; sb.
    - split; [|split; [|split; [|split]]].
      + destruct HS as [S1 S2]. split; sb.
        * rewrite nlen_app. change (nlen [wn']) with 1. lia.
        * eapply N.le_trans; [|exact S2]. unfold nlen, rs. pose proof (filter_len_le (fun r => negb (eid r =? nid n)) (reps b)). lia.
      + unfold BUniq, bnodes in *. sb. rewrite <- app_assoc. simpl. rewrite map_app. simpl.
        apply NoDup_insert.
        * rewrite <- map_app. apply (NoDup_filter_ids (fun x => negb (x =? nid n))). exact HU.
        * rewrite <- map_app. intros X. apply in_map_iff in X. destruct X as (x & X1 & X2). change (eid wn') with (nid n) in X1.
          apply in_app_iff in X2. destruct X2 as [X2|X2]; [apply Hnh; exists x; auto | apply SUB in X2; tauto].
      + intros e He. unfold bnodes in He. sb_in He. rewrite !in_app_iff in He.
        destruct He as [[He|[<-|[]]]|He].
        * apply HP. unfold bnodes. rewrite in_app_iff. auto.
        * change (eid wn') with (nid n). auto.
        * apply HP. unfold bnodes. rewrite in_app_iff. right. apply SUB; auto.
      + destruct HF as [F1 F2]. split; sb.
        * intros e He. rewrite in_app_iff in He. destruct He as [He|[<-|[]]]; [auto|discriminate].
        * intros e He. apply F2. apply SUB; auto.
      + intros e He. unfold bnodes in He. sb_in He. rewrite !in_app_iff in He.
        destruct He as [[He|[<-|[]]]|He].
        * apply HAd. unfold bnodes. rewrite in_app_iff. auto.
        * exact Anew.
        * apply HAd. unfold bnodes. rewrite in_app_iff. right. apply SUB; auto.
    - rewrite tips_rlist_set. sb. eapply IPok_weaken; [exact IP1|]. intros k. cbv beta. unfold bnodes. sb.
      repeat (rewrite tc_app || rewrite tc_cons || rewrite tc_nil). change (nd wn') with n.
      pose proof (tc_filter_le (fun r => negb (eid r =? nid n)) (reps b) k). fold rs in H. lia.
    - change (nid n) with (eid wn). apply (push_new s j O OA O_far); auto.
    - apply AOK_rlist_set. eapply AOK_mono; [exact A1|]. intros x Hx. apply has_app_one. auto.
  Qed.

  Lemma tc_set_same_nd b i e0 e' :
    nth_error (ents b) i = Some e0 -> nd e' = nd e0 ->
    forall k, true_count (bnodes (set_ents b (set_at i e' (ents b)))) k = true_count (bnodes b) k.
  Proof.
    intros Hn Hd k. unfold bnodes. sb. rewrite !tc_app. pose proof (tc_set_at (ents b) i e0 e' k Hn) as T. rewrite Hd in T. lia.
  Qed.

  Lemma IPok_ext c c' ts bs : IPok R c ts bs -> (forall k, c' k = c k) -> IPok R c' ts bs.
  Proof. intros H E. eapply IPok_weaken; eauto. intros k. rewrite E. lia. Qed.

  Lemma FInv_set_same g b i e0 e' :
    FInv g b -> nth_error (ents b) i = Some e0 -> eid e' = eid e0 -> rl e' = rl e0 -> nd e' = nd e0 ->
    FInv g (set_ents b (set_at i e' (ents b))).
  Proof.
    intros HFI Hn He Hr Hd. pose proof (FInv_parts g b HFI) as (NDe & PE). destruct HFI as (HC & HI & HL & HA).
    assert (In0 : In e0 (ents b)) by (eapply nth_error_In; eauto). destruct (PE e0 In0) as (Pj & Prl & Pad & _).
    split; [|split; [|split]]; sb.
    - eapply BCore_set_entry; eauto; congruence.
    - eapply IPok_ext; [exact HI|]. apply (tc_set_same_nd b i e0); auto.
    - eapply LOK_set_same; eauto.
    - eapply AOK_set_same; eauto.
  Qed.

  Lemma FInv_moved g b i e0 e dest :
    FInv g b -> nth_error (ents b) i = Some e0 -> eid e = eid e0 -> rl e = rl e0 -> nd e = nd e0 ->
    exists g', move_to_list g dest e = Some (g', set_rl e (Some dest)) /\
               FInv g' (set_ents b (set_at i (set_rl e (Some dest)) (ents b))).
  Proof.
    intros HFI Hn He Hr Hd. pose proof (FInv_parts g b HFI) as (NDe & PE). destruct HFI as (HC & HI & HL & HA).
    assert (In0 : In e0 (ents b)) by (eapply nth_error_In; eauto). destruct (PE e0 In0) as (Pj & Prl & Pad & _).
    destruct (move_entry s j O OA O_far (ents b) g i e0 e dest HL NDe Hn He Hr Pj) as (g' & MV & T' & A' & L').
    exists g'. split; auto. split; [|split; [|split]]; sb.
    - eapply BCore_set_entry; eauto; [discriminate|]. change (nd (set_rl e (Some dest))) with (nd e). congruence.
    - rewrite T'. eapply IPok_ext; [exact HI|]. apply (tc_set_same_nd b i e0); auto.
    - exact L'.
    - eapply AOK_set_same; eauto. intros id Hi. rewrite A' in Hi. auto.
  Qed.

  Lemma has_find es id : has es id -> exists i n, find_ent (fun e => eid e =? id) es = Some (i, n) /\ nth_error es i = Some n /\ eid n = id.
  Proof.
    intros (e & He & Hid). destruct (find_ent_ex (fun e => eid e =? id) es e He) as (i & n & F); [apply N.eqb_eq; auto|].
    destruct (find_ent_some _ _ _ _ F) as (H1 & H2 & _). apply N.eqb_eq in H2. eauto.
  Qed.

  Lemma handle_response_b_inv id responded newrec pick g b :
    FInv g b -> has (ents b) id ->
    exists g' b', handle_response_b id responded newrec pick g b = Some (g', b') /\ FInv g' b'.
  Proof.
    intros HFI Hh. unfold handle_response_b.
    destruct (has_find _ _ Hh) as (i & n & -> & Hn & Hid).
    pose proof (FInv_parts g b HFI) as (NDe & PE).
    assert (Inn : In n (ents b)) by (eapply nth_error_In; eauto). destruct (PE n Inn) as (Pj & Prl & Pad & _).
    destruct (rl n) as [l0|] eqn:Rl; [|congruence].
    destruct responded; simpl negb; cbv iota.
    - (* the node answered *)
      set (n1 := set_live (set_checks n (checks n + 1)) true).
      assert (F1 : FInv g (set_ents b (set_at i n1 (ents b)))) by (apply (FInv_set_same g b i n n1); auto).
      set (b1 := set_ents b (set_at i n1 (ents b))) in *.
      assert (Hn1 : nth_error (ents b1) i = Some n1) by (unfold b1; sb; eapply nth_error_set_at_same; eauto).
      assert (BP : exists g2 b2 ec,
        match newrec with
        | None => Some (g, b1, false)
        | Some nr => match bump_in_bucket g b1 nr false with None => None | Some (g', b', _, ec) => Some (g', b', ec) end
        end = Some (g2, b2, ec) /\ FInv g2 b2 /\ map eid (ents b2) = map eid (ents b1)).
      { destruct newrec as [nr|]; [|exists g, b1, false; auto].
        destruct (bump_in_bucket_inv g b1 nr false F1) as (g2 & b2 & fd & ec & -> & H1 & H2 & _). exists g2, b2, ec. auto. }
      destruct BP as (g2 & b2 & ec & -> & F2 & ME). destruct ec; [eauto|].
      assert (exists n2, nth_error (ents b2) i = Some n2 /\ eid n2 = eid n1) as (n2 & Hn2 & He2).
      { assert (X : nth_error (map eid (ents b2)) i = Some (eid n1)) by (rewrite ME; apply map_nth_error; auto).
        rewrite nth_error_map in X. destruct (nth_error (ents b2) i) as [n2|]; [|discriminate]. simpl in X. inversion X. eauto. }
      rewrite Hn2.
      destruct (FInv_moved g2 b2 i n2 n2 Slow F2 Hn2) as (g3 & MV & F3); auto. rewrite MV. eauto.
    - (* no answer *)
      set (n1 := set_checks n (checks n / 3)).
      assert (F1 : FInv g (set_ents b (set_at i n1 (ents b)))) by (apply (FInv_set_same g b i n n1); auto).
      destruct (checks n1 =? 0).
      + apply delete_in_bucket_inv; auto.
      + destruct (FInv_moved g b i n n1 Fast HFI Hn) as (g3 & MV & F3); auto. rewrite MV. eauto.
  Qed.
End Focus3.

(* ================================================================ 10. from the focused invariant to Inv *)

Definition frameR (bs : list bucket) (i : nat) (k : N) : N := sum_cnt (upd_nth i empty_bucket bs) k.
Definition frameO (bs : list bucket) (i : nat) (l : rlist) (id : N) : Prop :=
  exists j' b', j' <> i /\ nth_error bs j' = Some b' /\ inl (ents b') l id.
Definition frameOA (bs : list bucket) (i : nat) (id : N) : Prop :=
  exists j' b', j' <> i /\ nth_error bs j' = Some b' /\ has (ents b') id.

Lemma sum_cnt_upd bs i b' k : (i < length bs)%nat ->
  sum_cnt (upd_nth i b' bs) k = ips_count (bips b') k + frameR bs i k.
Proof.
  unfold frameR. revert i. induction bs as [|a bs IH]; intros [|i] H; simpl in *; try lia.
  - change (ips_count [] k) with 0. lia.
  - rewrite (IH i) by lia. lia.
Qed.

Lemma upd_nth_same {A} (l : list A) i x : nth_error l i = Some x -> upd_nth i x l = l.
Proof. revert i; induction l; intros [|i] H; simpl in *; try discriminate; [inversion H; auto|f_equal; auto]. Qed.

Lemma nth_upd_cases {A} (l : list A) i v k x : (i < length l)%nat ->
  nth_error (upd_nth i v l) k = Some x <-> (k = i /\ x = v) \/ (k <> i /\ nth_error l k = Some x).
Proof.
  intros H. destruct (Nat.eq_dec k i) as [->|Ne].
  - rewrite nth_error_upd_same by auto. split; [intros E; inversion E; auto|intros [[_ ->]|[X _]]; [auto|contradiction]].
  - rewrite nth_error_upd_other by auto. split; [auto|intros [[X _]|[_ X]]; [contradiction|auto]].
Qed.

Lemma frameO_far t i : Inv t -> forall l id, frameO (bks t) i l id -> bucket_of (self t) id <> i.
Proof.
  intros (_ & _ & HB & _) l id (j' & b' & Ne & Hn & (e & He & Hid & _)).
  destruct (HB j' b' Hn) as (_ & _ & HP & _). destruct (HP e) as [P _]; [unfold bnodes; rewrite in_app_iff; auto|].
  rewrite <- Hid. rewrite P. auto.
Qed.

Lemma Inv_focus t i b : Inv t -> nth_error (bks t) i = Some b ->
  FInv (self t) i (frameR (bks t) i) (frameO (bks t) i) (frameOA (bks t) i) (gl t) b.
Proof.
  intros (HL & HS & HB & HGI & (HG1 & HG2) & HGA) Hn.
  assert (Hi : (i < length (bks t))%nat) by (apply nth_error_Some; congruence).
  destruct (HB i b Hn) as (B1 & B2 & B3 & B4 & B5 & B6).
  split; [exact (conj B1 (conj B2 (conj B3 (conj B4 B5))))|]. split; [|split].
  - split; [exact B6|]. intros k. specialize (HGI k). rewrite <- (upd_nth_same (bks t) i b Hn) in HGI at 1.
    rewrite sum_cnt_upd in HGI by auto. exact HGI.
  - split; [|exact HG2]. intros l id. rewrite HG1. unfold listed, frameO. split.
    + intros (j' & b' & Hn' & H). destruct (Nat.eq_dec j' i) as [->|Ne]; [left; congruence|right; eauto].
    + intros [H|(j' & b' & _ & Hn' & H)]; eauto.
  - intros id Hi'. destruct (HGA id Hi') as (j' & b' & e & Hn' & He & Hid).
    destruct (Nat.eq_dec j' i) as [->|Ne]; [left; exists e; split; congruence|right; exists j', b'; split; auto; split; auto; exists e; auto].
Qed.

Lemma focus_Inv t i b g' b' : Inv t -> nth_error (bks t) i = Some b ->
  FInv (self t) i (frameR (bks t) i) (frameO (bks t) i) (frameOA (bks t) i) g' b' ->
  Inv (mkTable (self t) (upd_nth i b' (bks t)) g' (fails t) (initd t)).
Proof.
  intros (HL & HS & HB & HGI & (HG1 & HG2) & HGA) Hn ((C1 & C2 & C3 & C4 & C5) & (I1 & I2) & (L1 & L2) & A1).
  assert (Hi : (i < length (bks t))%nat) by (apply nth_error_Some; congruence).
  unfold Inv. simpl. rewrite length_upd. split; auto. split; auto. split; [|split; [|split]].
  - intros j b0 H0. apply nth_upd_cases in H0; auto. destruct H0 as [[-> ->]|[Ne H0]]; [|auto].
    exact (conj C1 (conj C2 (conj C3 (conj C4 (conj C5 I1))))).
  - intros k. rewrite sum_cnt_upd by auto. apply I2.
  - split; [|exact L2]. intros l id. rewrite L1. unfold listed, frameO. split.
    + intros [H|(j' & b0 & Ne & Hn' & H)].
      * exists i, b'. split; auto. apply nth_error_upd_same; auto.
      * exists j', b0. split; auto. rewrite nth_error_upd_other; auto.
    + intros (j' & b0 & H0 & H). apply nth_upd_cases in H0; auto. destruct H0 as [[-> ->]|[Ne H0]]; [auto|right; eauto].
  - intros id Hi'. destruct (A1 id Hi') as [(e & He & Hid)|(j' & b0 & Ne & Hn' & (e & He & Hid))].
    + exists i, b', e. split; auto. apply nth_error_upd_same; auto.
    + exists j', b0, e. split; auto. rewrite nth_error_upd_other; auto.
Qed.

Lemma with_bucket_inv t i f :
  Inv t -> (i < length (bks t))%nat ->
  (forall (R : N -> N) (O : rlist -> N -> Prop) (OA : N -> Prop), (forall l id, O l id -> bucket_of (self t) id <> i) ->
     forall b, nth_error (bks t) i = Some b -> FInv (self t) i R O OA (gl t) b ->
     exists g' b', f (gl t) b = Some (g', b') /\ FInv (self t) i R O OA g' b') ->
  exists t', with_bucket t i f = Some t' /\ Inv t' /\ self t' = self t /\ fails t' = fails t /\ initd t' = initd t.
Proof.
  intros HI Hi Hf. unfold with_bucket. destruct (nth_error (bks t) i) as [b|] eqn:Hn; [|apply nth_error_None in Hn; lia].
  destruct (Hf _ _ _ (frameO_far t i HI) b eq_refl (Inv_focus t i b HI Hn)) as (g' & b' & -> & F').
  eexists. split; [reflexivity|]. split; [eapply focus_Inv; eauto|auto].
Qed.

(* ================================================================ 11. every operation preserves Inv and does not panic *)

Definition same_frame (t t' : table) : Prop := self t' = self t /\ fails t' = fails t /\ initd t' = initd t.

Lemma Inv_len t : Inv t -> length (bks t) = N.to_nat K_nBuckets.
Proof. intros (H & _). exact H. Qed.

Lemma handle_add_node_inv t n inbound force :
  Inv t -> node_wf n -> exists t', handle_add_node t n inbound force = Some t' /\ Inv t' /\ same_frame t t'.
Proof.
  intros HI Hw. unfold handle_add_node. destruct (nid n =? self t) eqn:E; [exists t; unfold same_frame; auto|].
  destruct (inbound && negb (initd t)); [exists t; unfold same_frame; auto|].
  apply N.eqb_neq in E. pose proof HI as (HL & HS & _).
  apply with_bucket_inv; auto.
  - rewrite HL. apply bucket_of_range; auto.
  - intros R O OA Ofar b _ F. apply add_node_b_inv; auto.
Qed.

Lemma add_all_inv ns : forall t, Inv t -> Forall node_wf ns -> exists t', add_all t ns = Some t' /\ Inv t' /\ same_frame t t'.
Proof.
  induction ns as [|n ns IH]; intros t HI Hw; simpl; [exists t; unfold same_frame; auto|].
  inversion Hw; subst. destruct (handle_add_node_inv t n false false HI H1) as (t1 & -> & I1 & (S1 & S2 & S3)).
  destruct (IH t1 I1 H2) as (t2 & -> & I2 & (T1 & T2 & T3)). exists t2. split; [reflexivity|]. split; [exact I2|]. unfold same_frame. repeat split; congruence.
Qed.

Lemma delete_node_inv t id pick :
  Inv t -> id < two_hash -> exists t', delete_node t id pick = Some t' /\ Inv t' /\ same_frame t t'.
Proof.
  intros HI Hw. unfold delete_node. pose proof HI as (HL & HS & _). apply with_bucket_inv; auto.
  - rewrite HL. apply bucket_of_range; auto.
  - intros R O OA Ofar b _ F. apply delete_in_bucket_inv; auto.
Qed.

Lemma Inv_set_fails t f : Inv t -> Inv (mkTable (self t) (bks t) (gl t) f (initd t)).
Proof. intros H. exact H. Qed.

Lemma track_inv t n success found pick :
  Inv t -> node_wf n -> Forall node_wf found -> exists t', track t n success found pick = Some t' /\ Inv t'.
Proof.
  intros HI Hw Hf. unfold track.
  set (fl := if success then 0 else fails_read (fails t) (nid n) (nip n) + 1).
  set (t1 := mkTable (self t) (bks t) (gl t) (fails_set (fails t) (nid n) (nip n) fl) (initd t)).
  assert (I1 : Inv t1) by exact HI. pose proof I1 as (HL & HS & _).
  assert (Hr : (bucket_of (self t1) (nid n) < length (bks t1))%nat) by (rewrite HL; apply bucket_of_range; auto).
  destruct (nth_error (bks t1) (bucket_of (self t1) (nid n))) as [b|] eqn:Hn; [|apply nth_error_None in Hn; lia].
  destruct ((K_maxFindnodeFailures <=? fl) && (K_bucketSize / 4 <=? nlen (ents b))).
  - destruct (with_bucket_inv t1 (bucket_of (self t1) (nid n)) (delete_in_bucket (nid n) pick) I1 Hr) as (t2 & -> & I2 & _).
    { intros R O OA Ofar b0 _ F. apply delete_in_bucket_inv; auto. }
    destruct (add_all_inv found t2 I2 Hf) as (t3 & E & I3 & _). eauto.
  - destruct (add_all_inv found t1 I1 Hf) as (t3 & E & I3 & _). eauto.
Qed.

(* revalidation scheduler *)
Lemma rl_get_spec fuel nodes excl picks r rest :
  rl_get fuel nodes excl picks = Some (r, rest) -> match r with Some id => In id nodes /\ is_active excl id = false | None => True end.
Proof.
  revert picks. induction fuel as [|f IH]; intros picks; simpl; [intros E; inversion E; auto|].
  destruct (draw picks) as [p rs]. destruct (nth_error nodes (p mod length nodes)) as [id|] eqn:Hn; [|discriminate].
  destruct (is_active excl id) eqn:A; [apply IH|]. intros E; inversion E; subst. split; auto. eapply nth_error_In; eauto.
Qed.
Lemma rl_get_total fuel nodes excl picks : nodes <> [] -> exists r rest, rl_get fuel nodes excl picks = Some (r, rest).
Proof.
  intros Hne. revert picks. induction fuel as [|f IH]; intros picks; simpl; [eauto|].
  destruct (draw picks) as [p rs].
  assert ((p mod length nodes < length nodes)%nat) by (apply Nat.mod_upper_bound; destruct nodes; [congruence|discriminate]).
  destruct (nth_error nodes (p mod length nodes)) as [id|] eqn:Hn; [|apply nth_error_None in Hn; lia].
  destruct (is_active excl id); eauto.
Qed.

Definition GInv (bs : list bucket) (g : glob) : Prop := GIps bs g /\ GLists bs g /\ GActive bs g.

Lemma reval_list_inv bs g l due picks :
  GInv bs g -> exists g' r, reval_list g l due picks = Some (g', r) /\ GInv bs g'.
Proof.
  intros (G1 & G2 & G3). pose proof (conj G1 (conj G2 G3)) as GG. unfold reval_list. destruct due; [|exists g, picks; split; [reflexivity|exact GG]].
  unfold get. destruct (rlist_get g l) as [|x xs] eqn:EL; [exists g, picks; split; [reflexivity|exact GG]|].
  destruct (rl_get_total (length (x :: xs) * 3) (x :: xs) (active g) picks) as (r & rest & E); [discriminate|].
  rewrite E. pose proof (rl_get_spec _ _ _ _ _ _ E) as SP. destruct r as [id|]; [|exists g, rest; split; [reflexivity|exact GG]].
  destruct SP as [Hin Hact]. unfold start_request. rewrite Hact. eexists _, _. split; [reflexivity|].
  split; [exact G1|]. split; [destruct G2 as [A B]; split; intros l'; [specialize (A l')|specialize (B l')]; destruct l'; auto|].
  intros id' [E'|H']; [|apply G3; auto]. inversion E'; subst id'.
  rewrite <- EL in Hin. apply (proj1 G2) in Hin. destruct Hin as (j & b & Hn & (e & He & Hid & _)). exists j, b, e. auto.
Qed.

Lemma reval_run_inv t df ds picks : Inv t -> exists t', reval_run t df ds picks = Some t' /\ Inv t'.
Proof.
  intros (HL & HS & HB & G). unfold reval_run.
  destruct (reval_list_inv (bks t) (gl t) Fast df picks G) as (g1 & r1 & -> & G1).
  destruct (reval_list_inv (bks t) g1 Slow ds r1 G1) as (g2 & r2 & -> & G2).
  eexists. split; [reflexivity|]. unfold Inv. simpl. auto.
Qed.

Lemma handle_response_inv t id responded newrec pick :
  Inv t -> exists t', handle_response t id responded newrec pick = Some t' /\ Inv t'.
Proof.
  intros HI. unfold handle_response. destruct (find (fun a => fst a =? id) (active (gl t))) as [[id' att]|] eqn:Fd; [|eauto].
  apply find_some in Fd. destruct Fd as [Fin Fid]. simpl in Fid. apply N.eqb_eq in Fid. subst id'.
  set (t1 := set_gl t (set_active (gl t) (filter (fun a => negb (fst a =? id)) (active (gl t))))).
  assert (I1 : Inv t1).
  { destruct HI as (HL & HS & HB & G1 & G2 & G3). unfold Inv, t1. simpl.
    split; [exact HL|]. split; [exact HS|]. split; [exact HB|]. split; [exact G1|]. split.
    - destruct G2 as [A B]. split; intros l'; [specialize (A l')|specialize (B l')]; destruct l'; auto.
    - intros x Hx. simpl in Hx. apply filter_In in Hx. apply G3. tauto. }
  destruct att; simpl negb; cbv iota; [|eauto].
  destruct HI as (HL & HS & HB & G1 & G2 & G3). destruct (G3 id Fin) as (j & b & e & Hn & He & Hid).
  destruct (HB j b Hn) as (_ & _ & HP & _). destruct (HP e) as [Pj _]; [unfold bnodes; rewrite in_app_iff; auto|].
  rewrite Hid in Pj. change (self t1) with (self t). rewrite Pj.
  destruct (with_bucket_inv t1 j (handle_response_b id responded newrec pick) I1) as (t2 & E & I2 & _); eauto.
  - change (bks t1) with (bks t). apply nth_error_Some. congruence.
  - intros R O OA Ofar b0 Hn0 F0. apply handle_response_b_inv; auto.
    change (bks t1) with (bks t) in Hn0. rewrite Hn in Hn0. inversion Hn0; subst b0. exists e; auto.
Qed.

(* ================================================================ 12. the theorems of C07 *)

Lemma BLocal_empty s j : BLocal s j empty_bucket.
Proof.
  unfold BLocal, BSize, BUniq, BPlace, BFlags, BAddr, BIps, empty_bucket, bnodes. simpl.
  repeat split; try (intros; contradiction); try constructor; try (vm_compute; discriminate).
Qed.

Lemma sum_cnt_repeat_empty n k : sum_cnt (repeat empty_bucket n) k = 0.
Proof. induction n; simpl; auto; rewrite IHn; reflexivity. Qed.

Lemma Inv_init s : s < two_hash -> Inv (init s).
Proof.
  intros Hs. unfold Inv, init. cbn [bks gl self tips fast slow active rlist_get]. rewrite repeat_length. split; auto. split; auto.
  assert (E : forall j b, nth_error (repeat empty_bucket (N.to_nat K_nBuckets)) j = Some b -> b = empty_bucket).
  { intros j b H. apply nth_error_In in H. eapply repeat_spec; eauto. }
  split; [|split; [|split]].
  - intros j b H. rewrite (E j b H). apply BLocal_empty.
  - intros k. rewrite sum_cnt_repeat_empty. cbn [tips]. change (ips_count [] k) with 0. split; [lia|vm_compute; discriminate].
  - split; [|intros [|]; cbn [rlist_get fast slow]; constructor]. intros l id. split; [destruct l; cbn [rlist_get fast slow]; contradiction|].
    intros (j & b & H & (e & He & _)). rewrite (E j b H) in He. contradiction.
  - intros id [].
Qed.

Theorem step_inv t o : Inv t -> op_wf o -> exists t', step t o = Some t' /\ Inv t'.
Proof.
  intros HI Hw. destruct o; simpl in *.
  - eexists. split; [reflexivity|]. exact HI.
  - destruct (handle_add_node_inv t n false force_live HI Hw) as (t' & E & I' & _). eauto.
  - destruct (handle_add_node_inv t n true false HI Hw) as (t' & E & I' & _). eauto.
  - destruct (add_all_inv ns t HI Hw) as (t' & E & I' & _). eauto.
  - destruct (delete_node_inv t id pick HI Hw) as (t' & E & I' & _). eauto.
  - apply reval_run_inv; auto.
  - apply handle_response_inv; auto.
  - destruct Hw. apply track_inv; auto.
Qed.

Theorem steps_inv os : forall t, Inv t -> Forall op_wf os -> exists t', steps t os = Some t' /\ Inv t'.
Proof.
  induction os as [|o os IH]; intros t HI Hw; simpl; [eauto|].
  inversion Hw; subst. destruct (step_inv t o HI H1) as (t1 & -> & I1). apply IH; auto.
Qed.

Corollary reachable_inv s os : s < two_hash -> Forall op_wf os -> exists t, steps (init s) os = Some t /\ Inv t.
Proof. intros. apply steps_inv; auto. apply Inv_init; auto. Qed.

(* ---- what Inv says, in the words of the property *)

Lemma Inv_bucket_count t : Inv t -> length (bks t) = 17%nat.
Proof. intros (H & _). rewrite H. reflexivity. Qed.

Lemma Inv_sizes t b : Inv t -> In b (bks t) -> (length (ents b) <= 16)%nat /\ (length (reps b) <= 10)%nat.
Proof.
  intros (_ & _ & HB & _) Hb. apply In_nth_error in Hb. destruct Hb as (j & Hj).
  destruct (HB j b Hj) as ((S1 & S2) & _). unfold nlen in *.
  change K_bucketSize with 16 in S1. change K_maxReplacements with 10 in S2. lia.
Qed.

Lemma Inv_place t j b e : Inv t -> nth_error (bks t) j = Some b -> In e (ents b ++ reps b) ->
  bucket_of (self t) (eid e) = j /\ eid e <> self t.
Proof. intros (_ & _ & HB & _) Hj He. destruct (HB j b Hj) as (_ & _ & HP & _). apply HP; auto. Qed.

(* bucketAtDistance: log distance d > 239 lives in bucket d - 240, everything closer in bucket 0 *)
Lemma bucket_index_spec d : bucket_index d = if d <=? 239 then 0%nat else N.to_nat (d - 240).
Proof. unfold bucket_index. change K_bucketMinDistance with 239. destruct (d <=? 239); auto. f_equal. lia. Qed.

Lemma Inv_self_absent t : Inv t -> ~ In (self t) (all_ids t).
Proof.
  intros HI Hin. unfold all_ids, all_nodes in Hin. apply in_map_iff in Hin. destruct Hin as (e & He & Hin).
  apply in_flat_map in Hin. destruct Hin as (b & Hb & Hin). apply In_nth_error in Hb. destruct Hb as (j & Hj).
  destruct (Inv_place t j b e HI Hj Hin) as [_ Hne]. contradiction.
Qed.

(* a node id occurs at most once in the whole table *)
Lemma NoDup_flat_map_ids (s : N) (bs : list bucket) (off : nat) :
  (forall j b, nth_error bs j = Some b -> BUniq b /\ forall e, In e (bnodes b) -> bucket_of s (eid e) = (off + j)%nat) ->
  NoDup (map eid (flat_map bnodes bs)).
Proof.
  revert off. induction bs as [|b bs IH]; intros off H; simpl; [constructor|].
  rewrite map_app. destruct (H 0%nat b eq_refl) as [U P].
  assert (IHs : NoDup (map eid (flat_map bnodes bs))).
  { apply (IH (S off)). intros j b' Hj. destruct (H (S j) b' Hj) as [U' P']. split; auto. intros e He. rewrite (P' e He). lia. }
  clear IH. revert U P. unfold BUniq. generalize (bnodes b) as l. induction l as [|a l IHl]; simpl; intros U P; auto.
  inversion U; subst. constructor; [|apply IHl; auto].
  rewrite in_app_iff. intros [X|X]; [contradiction|].
  apply in_map_iff in X. destruct X as (e & E1 & E2). apply in_flat_map in E2. destruct E2 as (b' & Hb' & He).
  apply In_nth_error in Hb'. destruct Hb' as (j & Hj). destruct (H (S j) b' Hj) as [_ P'].
  pose proof (P' e He) as Q1. pose proof (P a (or_introl eq_refl)) as Q2. rewrite E1 in Q1. lia.
Qed.

Lemma Inv_unique t : Inv t -> NoDup (all_ids t).
Proof.
  intros (_ & _ & HB & _). unfold all_ids, all_nodes. apply (NoDup_flat_map_ids (self t) (bks t) 0).
  intros j b Hj. destruct (HB j b Hj) as (_ & U & P & _). split; auto. intros e He. apply P; auto.
Qed.

(* the IP limits, for the true number of non-LAN nodes per /24 *)
Lemma Inv_iplimit_bucket t b k : Inv t -> In b (bks t) -> true_count (ents b ++ reps b) k <= 2.
Proof.
  intros (_ & _ & HB & _) Hb. apply In_nth_error in Hb. destruct Hb as (j & Hj).
  destruct (HB j b Hj) as (_ & _ & _ & _ & _ & HI). specialize (HI k). unfold bnodes in HI.
  change K_bucketIPLimit with 2 in HI. lia.
Qed.

Lemma tc_flat_map_le bs k : true_count (flat_map bnodes bs) k <= sum_cnt bs k \/ exists b, In b bs /\ ips_count (bips b) k < true_count (bnodes b) k.
Proof.
  induction bs as [|b bs IH]; simpl; [left; rewrite tc_nil; lia|].
  rewrite tc_app. destruct IH as [IH|(b' & H1 & H2)]; [|right; eauto].
  destruct (N.le_gt_cases (true_count (bnodes b) k) (ips_count (bips b) k)); [left; lia|right; exists b; split; auto; lia].
Qed.

Lemma Inv_iplimit_table t k : Inv t -> true_count (all_nodes t) k <= 10.
Proof.
  intros (_ & _ & HB & HG & _). unfold all_nodes. destruct (tc_flat_map_le (bks t) k) as [H|(b & Hb & H)].
  - specialize (HG k). change K_tableIPLimit with 10 in HG. lia.
  - exfalso. apply In_nth_error in Hb. destruct Hb as (j & Hj). destruct (HB j b Hj) as (_ & _ & _ & _ & _ & HI). specialize (HI k). lia.
Qed.

(* ================================================================ 13. shape of the bucket operations (C18) *)

Definition ep_same (e e' : entry) : Prop := nip (nd e') = nip (nd e) /\ nport (nd e') = nport (nd e).

(* what bumpInBucket may do to the entry it finds *)
Definition bumped (nr : node) (inb ec : bool) (n n' : entry) : Prop :=
  eid n' = eid n /\ eid n = nid nr /\ nd n' = nr /\ (nseq (nd n) < nseq nr \/ inb = true) /\ checks n' = checks n /\
  ((ec = false /\ ep_same n n' /\ live n' = live n /\ rl n' = rl n) \/
   (ec = true /\ ~ ep_same n n' /\ live n' = false /\ rl n' = Some Fast)).

Lemma move_to_list_shape g dest e g' e' : move_to_list g dest e = Some (g', e') -> e' = set_rl e (Some dest).
Proof.
  unfold move_to_list. destruct (rl e) as [l|] eqn:Rl.
  - destruct (rlist_eqb l dest) eqn:E.
    + apply rlist_eqb_eq in E; subst. intros X; inversion X; subst. symmetry. apply set_rl_same; auto.
    + unfold rl_remove. destruct (find_ent _ _) as [[i x]|]; [|discriminate]. unfold rl_push. intros X; inversion X; reflexivity.
  - unfold rl_push. intros X; inversion X; reflexivity.
Qed.

Lemma swap_ip_ents g b old new g1 b1 fits : swap_ip g b old new = (g1, b1, fits) -> ents b1 = ents b /\ reps b1 = reps b.
Proof.
  unfold swap_ip, remove_ip, add_ip. destruct (remove_ip_s _ _ _) as [ts0 bs0]. sb.
  destruct (add_ip_s ts0 bs0 new) as [[ts1 bs1] ok]. destruct ok.
  - intros X; inversion X; subst. auto.
  - sb. destruct (add_ip_s ts1 bs1 old) as [[ts2 bs2] ok2]. intros X; inversion X; subst. auto.
Qed.

Lemma add_ip_ents g b ip g1 b1 ok : add_ip g b ip = (g1, b1, ok) -> ents b1 = ents b /\ reps b1 = reps b.
Proof. unfold add_ip. destruct (add_ip_s _ _ _) as [[ts bs] o]. intros X; inversion X; subst. auto. Qed.

Lemma bump_shape g b nr inb g' b' fd ec :
  bump_in_bucket g b nr inb = Some (g', b', fd, ec) ->
  reps b' = reps b /\
  ((ents b' = ents b /\ ec = false) \/
   (exists i n n', nth_error (ents b) i = Some n /\ ents b' = set_at i n' (ents b) /\ bumped nr inb ec n n')).
Proof.
  unfold bump_in_bucket. destruct (find_ent (fun e => eid e =? nid nr) (ents b)) as [[i n]|] eqn:F.
  2: { intros X; inversion X; subst. auto. }
  destruct (find_ent_some _ _ _ _ F) as (Hn & Hid & _). apply N.eqb_eq in Hid.
  destruct ((nseq nr <=? nseq (nd n)) && negb inb) eqn:SQ; [intros X; inversion X; subst; auto|].
  assert (SQ' : nseq (nd n) < nseq nr \/ inb = true).
  { apply andb_false_iff in SQ. destruct SQ as [S|S]; [left; apply N.leb_gt in S; auto|right; destruct inb; auto; discriminate]. }
  destruct (if negb (nip nr =? nip (nd n)) then swap_ip g b (nip (nd n)) (nip nr) else (g, b, true)) as [[g1 b1] fits] eqn:PH.
  assert (EB : ents b1 = ents b /\ reps b1 = reps b).
  { destruct (negb (nip nr =? nip (nd n))); [eapply swap_ip_ents; eauto|inversion PH; subst; auto]. }
  destruct EB as [EB1 EB2]. destruct fits; simpl negb; cbv iota.
  2: { intros X; inversion X; subst. split; auto. }
  destruct (negb (nip nr =? nip (nd n)) || negb (nport nr =? nport (nd n))) eqn:CH.
  - destruct (move_to_list g1 Fast (set_live (set_nd n nr) false)) as [[g2 n2]|] eqn:MV; [|discriminate].
    apply move_to_list_shape in MV. subst n2. intros X; inversion X; subst. sb. split; auto. right.
    exists i, n, (set_rl (set_live (set_nd n nr) false) (Some Fast)). rewrite EB1. split; auto. split; auto.
    unfold bumped, ep_same. simpl. repeat split; auto. right. repeat split; auto.
    intros [E1 E2]. apply orb_true_iff in CH. destruct CH as [C|C]; apply negb_true_iff, N.eqb_neq in C; congruence.
  - intros X; inversion X; subst. sb. split; auto. right. exists i, n, (set_nd n nr). rewrite EB1. split; auto. split; auto.
    apply orb_false_iff in CH. destruct CH as [C1 C2]. apply negb_false_iff, N.eqb_eq in C1. apply negb_false_iff, N.eqb_eq in C2.
    unfold bumped, ep_same. simpl. repeat split; auto.
Qed.

Definition new_rep (n : node) : entry := mkEntry n 0 false None.

Lemma add_replacement_shape g b n g' b' : add_replacement g b n = Some (g', b') ->
  ents b' = ents b /\
  (reps b' = reps b \/
   ((length (reps b) < N.to_nat K_maxReplacements)%nat /\ reps b' = new_rep n :: reps b) \/
   ((N.to_nat K_maxReplacements <= length (reps b))%nat /\ reps b' = new_rep n :: removelast (reps b))).
Proof.
  unfold add_replacement. destruct (existsb _ (reps b)); [intros X; inversion X; subst; auto|].
  destruct (add_ip g b (nip n)) as [[g1 b1] ok] eqn:AI. destruct (add_ip_ents _ _ _ _ _ _ AI) as [E1 E2].
  destruct ok; simpl negb; cbv iota; [|intros X; inversion X; subst; auto].
  unfold push_node. rewrite E2. destruct (length (reps b) <? N.to_nat K_maxReplacements)%nat eqn:LT.
  - intros X; inversion X; subst. sb. apply Nat.ltb_lt in LT. auto.
  - apply Nat.ltb_ge in LT. destruct (last_opt (reps b)); [|discriminate]. unfold remove_ip.
    destruct (remove_ip_s _ _ _) as [ts bs]. intros X; inversion X; subst. sb. auto.
Qed.

Definition new_entry (n : node) (force : bool) : entry := mkEntry n (if force then 1 else 0) force (Some Fast).

Lemma add_node_b_shape n inb force g b g' b' : add_node_b n inb force g b = Some (g', b') ->
  (exists fd ec, (fd = true \/ ents b' = ents b) /\ reps b' = reps b /\
     ((ents b' = ents b /\ ec = false) \/ exists i x x', nth_error (ents b) i = Some x /\ ents b' = set_at i x' (ents b) /\ bumped n inb ec x x')) \/
  (K_bucketSize <= nlen (ents b) /\ ents b' = ents b /\
     (reps b' = reps b \/ reps b' = firstn (N.to_nat K_maxReplacements) (new_rep n :: reps b) \/ (N.to_nat K_maxReplacements < length (reps b))%nat)) \/
  (nlen (ents b) < K_bucketSize /\ ents b' = ents b /\ reps b' = reps b) \/
  (nlen (ents b) < K_bucketSize /\ (forall e, In e (ents b) -> eid e <> nid n) /\ ents b' = ents b ++ [new_entry n force]).
Proof.
  unfold add_node_b. destruct (bump_in_bucket g b n inb) as [[[[g1 b1] fd] ec]|] eqn:BP; [|discriminate].
  pose proof (bump_shape _ _ _ _ _ _ _ _ BP) as (BR & BS).
  destruct fd.
  { intros X; inversion X; subst. left. exists true, ec. auto. }
  (* not found: bump returned its arguments *)
  assert (NF : g1 = g /\ b1 = b /\ forall e, In e (ents b) -> eid e <> nid n).
  { unfold bump_in_bucket in BP. destruct (find_ent (fun e => eid e =? nid n) (ents b)) as [[i x]|] eqn:F.
    - destruct ((nseq n <=? nseq (nd x)) && negb inb); [inversion BP|].
      destruct (if negb (nip n =? nip (nd x)) then _ else _) as [[g2 b2] fits]. destruct fits; simpl negb in BP; cbv iota in BP; [|inversion BP].
      destruct (negb (nip n =? nip (nd x)) || negb (nport n =? nport (nd x))); [destruct (move_to_list _ _ _) as [[? ?]|]|]; inversion BP.
    - inversion BP; subst. split; auto. split; auto. intros e He. pose proof (find_ent_none _ _ F e He) as X. simpl in X. apply N.eqb_neq in X; auto. }
  destruct NF as (-> & -> & NF).
  destruct (K_bucketSize <=? nlen (ents b)) eqn:FULL.
  - intros AR. apply add_replacement_shape in AR. destruct AR as (E1 & E2). right. left. apply N.leb_le in FULL.
    split; auto. split; auto. destruct E2 as [E2|[[L E2]|[L E2]]]; auto.
    + right. left. rewrite E2. unfold new_rep. symmetry. apply firstn_all2. simpl. lia.
    + destruct (Nat.eq_dec (length (reps b)) (N.to_nat K_maxReplacements)) as [EQ|NE]; [|right; right; lia].
      right. left. rewrite E2. pose proof K_reps_pos as KP.
      destruct (N.to_nat K_maxReplacements) as [|m] eqn:KM; [lia|]. simpl. f_equal.
      rewrite removelast_firstn_len. rewrite EQ. reflexivity.
  - apply N.leb_gt in FULL. destruct (add_ip g b (nip n)) as [[g2 b2] ok] eqn:AI. destruct (add_ip_ents _ _ _ _ _ _ AI) as [E1 E2].
    destruct ok; simpl negb; cbv iota.
    + unfold rl_push. intros X; inversion X; subst. sb. right. right. right. rewrite E1. auto.
    + intros X; inversion X; subst. right. right. left. auto.
Qed.

Lemma delete_in_bucket_shape id pick g b g' b' : delete_in_bucket id pick g b = Some (g', b') ->
  ((forall e, In e (ents b) -> eid e <> id) /\ g' = g /\ b' = b) \/
  exists i n, nth_error (ents b) i = Some n /\ eid n = id /\
    ((reps b = [] /\ ents b' = remove_at i (ents b) /\ reps b' = []) \/
     (exists ri rep, nth_error (reps b) ri = Some rep /\
        ents b' = remove_at i (ents b) ++ [set_rl rep (Some Fast)] /\ reps b' = remove_at ri (reps b))).
Proof.
  unfold delete_in_bucket. destruct (find_ent (fun e => eid e =? id) (ents b)) as [[i n]|] eqn:F.
  2: { intros X; inversion X; subst. left. split; auto. intros e He. pose proof (find_ent_none _ _ F e He) as Y. simpl in Y. apply N.eqb_neq in Y; auto. }
  destruct (find_ent_some _ _ _ _ F) as (Hn & Hid & _). apply N.eqb_eq in Hid.
  unfold remove_ip. sb. destruct (remove_ip_s _ _ _) as [ts bs]. destruct (node_removed _ n) as [g2|]; [|discriminate]. sb.
  right. exists i, n. split; auto. split; auto.
  destruct (reps b) as [|r0 rs] eqn:Rp.
  - inversion H; subst. sb. auto.
  - destruct (nth_error (r0 :: rs) (pick mod length (r0 :: rs))) as [rep|] eqn:Hr; [|discriminate].
    unfold rl_push in H. inversion H; subst. sb. right. eauto.
Qed.

(* ================================================================ 14. C18: the displacement policy, per step *)

Lemma with_bucket_shape t i f t' : with_bucket t i f = Some t' ->
  exists b g' b', nth_error (bks t) i = Some b /\ f (gl t) b = Some (g', b') /\
                  t' = mkTable (self t) (upd_nth i b' (bks t)) g' (fails t) (initd t).
Proof.
  unfold with_bucket. destruct (nth_error (bks t) i) as [b|]; [|discriminate].
  destruct (f (gl t) b) as [[g' b']|] eqn:E; [|discriminate]. intros X; inversion X; subst. eauto 6.
Qed.

Lemma map_ents_upd bs i b b' : nth_error bs i = Some b -> ents b' = ents b -> map ents (upd_nth i b' bs) = map ents bs.
Proof. revert i; induction bs as [|a bs IH]; intros [|i] H E; simpl in *; try discriminate; [inversion H; subst; congruence|f_equal; eauto]. Qed.

Definition is_add (o : op) (n : node) : Prop := (exists f, o = AddFound n f) \/ o = AddInbound n.

(* (1) a newly seen node never displaces an entry of a full bucket: it goes to the front of the replacement
       list, which keeps the 10 most recent, or the table does not change at all (already a replacement,
       address limit, table not initialised for inbound contacts) *)
Theorem full_bucket_only_replacement t o n t' b :
  Inv t -> is_add o n -> step t o = Some t' ->
  nbucket t (nid n) = Some b -> K_bucketSize <= nlen (ents b) -> (forall e, In e (ents b) -> eid e <> nid n) ->
  map ents (bks t') = map ents (bks t) /\
  (forall k, k <> bucket_of (self t) (nid n) -> nth_error (bks t') k = nth_error (bks t) k) /\
  exists b', nbucket t' (nid n) = Some b' /\
             (reps b' = reps b \/ reps b' = firstn 10 (new_rep n :: reps b)).
Proof.
  intros HI Ho Hs Hb Hfull Hnew.
  assert (HA : exists inb f, handle_add_node t n inb f = Some t').
  { destruct Ho as [[f ->]| ->]; simpl in Hs; eauto. }
  destruct HA as (inb & f & HA). clear Hs Ho. unfold handle_add_node in HA.
  assert (TRIV : t' = t -> map ents (bks t') = map ents (bks t) /\
    (forall k, k <> bucket_of (self t) (nid n) -> nth_error (bks t') k = nth_error (bks t) k) /\
    exists b', nbucket t' (nid n) = Some b' /\ (reps b' = reps b \/ reps b' = firstn 10 (new_rep n :: reps b))).
  { intros ->. split; auto. split; auto. exists b. auto. }
  destruct (nid n =? self t); [inversion HA; subst; apply TRIV; reflexivity|]. destruct (inb && negb (initd t)); [inversion HA; subst; apply TRIV; reflexivity|].
  apply with_bucket_shape in HA. destruct HA as (b0 & g' & b' & Hn & AN & ->).
  unfold nbucket in Hb. rewrite Hn in Hb. inversion Hb; subst b0. clear Hb TRIV.
  assert (Hlen : (bucket_of (self t) (nid n) < length (bks t))%nat) by (apply nth_error_Some; congruence).
  destruct HI as (_ & _ & HB & _). destruct (HB _ _ Hn) as ((_ & S2) & _).
  assert (CONC : ents b' = ents b -> (reps b' = reps b \/ reps b' = firstn 10 (new_rep n :: reps b)) ->
    map ents (upd_nth (bucket_of (self t) (nid n)) b' (bks t)) = map ents (bks t) /\
    (forall k, k <> bucket_of (self t) (nid n) -> nth_error (upd_nth (bucket_of (self t) (nid n)) b' (bks t)) k = nth_error (bks t) k) /\
    exists b'0, nth_error (upd_nth (bucket_of (self t) (nid n)) b' (bks t)) (bucket_of (self t) (nid n)) = Some b'0 /\
      (reps b'0 = reps b \/ reps b'0 = firstn 10 (new_rep n :: reps b))).
  { intros E1 E2. split; [eapply map_ents_upd; eauto|]. split; [intros k Hk; apply nth_error_upd_other; auto|].
    exists b'. split; auto. apply nth_error_upd_same; auto. }
  unfold nbucket. simpl.
  apply add_node_b_shape in AN. destruct AN as [(fd & ec & _ & R1 & [[E1 _]|(i & x & x' & Hx & _ & BU)])|[(_ & E1 & R1)|[(LT & _)|(LT & _)]]].
  - apply CONC; auto.
  - exfalso. destruct BU as (_ & BU & _). apply (Hnew x); auto. eapply nth_error_In; eauto.
  - apply CONC; auto. destruct R1 as [R1|[R1|R1]]; auto. unfold nlen in S2. lia.
  - lia.
  - lia.
Qed.

(* (3) the entry that leaves is succeeded by a replacement iff one existed: the shape of deleteInBucket,
       the only place where an entry is removed *)
Theorem leaver_is_succeeded id pick g b g' b' :
  delete_in_bucket id pick g b = Some (g', b') -> (exists e, In e (ents b) /\ eid e = id) ->
  exists i n, nth_error (ents b) i = Some n /\ eid n = id /\
    ((reps b = [] /\ ents b' = remove_at i (ents b) /\ reps b' = []) \/
     (exists ri rep, nth_error (reps b) ri = Some rep /\
        ents b' = remove_at i (ents b) ++ [set_rl rep (Some Fast)] /\ reps b' = remove_at ri (reps b))).
Proof.
  intros H (e & He & Hid). apply delete_in_bucket_shape in H. destruct H as [(H & _)|H]; auto.
  exfalso. apply (H e); auto.
Qed.

Theorem delete_op_succession t id pick t' b :
  step t (Delete id pick) = Some t' -> nbucket t id = Some b -> (exists e, In e (ents b) /\ eid e = id) ->
  exists b' i n, nbucket t' id = Some b' /\ nth_error (ents b) i = Some n /\ eid n = id /\
    ((reps b = [] /\ ents b' = remove_at i (ents b) /\ reps b' = []) \/
     (exists ri rep, nth_error (reps b) ri = Some rep /\
        ents b' = remove_at i (ents b) ++ [set_rl rep (Some Fast)] /\ reps b' = remove_at ri (reps b))).
Proof.
  simpl. unfold delete_node. intros H Hb He. apply with_bucket_shape in H. destruct H as (b0 & g' & b' & Hn & D & ->).
  unfold nbucket in *. rewrite Hn in Hb. inversion Hb; subst b0. simpl.
  destruct (leaver_is_succeeded _ _ _ _ _ _ D He) as (i & n & H1 & H2 & H3).
  exists b', i, n. split; auto. apply nth_error_upd_same. apply nth_error_Some. congruence.
Qed.

(* ---- (2) an entry leaves only for one of three causes *)

Lemma entry_ids_iff t x : In x (entry_ids t) <-> is_entry (bks t) x.
Proof.
  unfold entry_ids, all_ents, is_entry. rewrite in_map_iff. split.
  - intros (e & He & Hin). apply in_flat_map in Hin. destruct Hin as (b & Hb & Hin). apply In_nth_error in Hb. destruct Hb as (j & Hj). eauto 6.
  - intros (j & b & e & Hj & He & Hid). exists e. split; auto. apply in_flat_map. exists b. split; auto. eapply nth_error_In; eauto.
Qed.

Lemma in_remove_at_other {A} (l : list A) i x y : nth_error l i = Some x -> In y l -> y <> x -> In y (remove_at i l).
Proof.
  intros Hn Hy Hne. destruct (remove_at_split l i x Hn) as (l1 & l2 & E1 & E2 & _). rewrite E2. rewrite E1 in Hy.
  apply in_mid_cases in Hy. destruct Hy; [congruence|auto].
Qed.

Lemma bumped_keeps es i x x' nr inb ec id : nth_error es i = Some x -> bumped nr inb ec x x' -> (has (set_at i x' es) id <-> has es id).
Proof. intros Hn (E & _). eapply has_set_at; eauto. Qed.

Lemma bump_keeps g b nr inb g' b' fd ec x : bump_in_bucket g b nr inb = Some (g', b', fd, ec) -> (has (ents b') x <-> has (ents b) x).
Proof.
  intros H. apply bump_shape in H. destruct H as (_ & [[-> _]|(i & n & n' & Hn & -> & BU)]); [reflexivity|]. eapply bumped_keeps; eauto.
Qed.

Lemma add_node_b_keeps n inb force g b g' b' x : add_node_b n inb force g b = Some (g', b') -> has (ents b) x -> has (ents b') x.
Proof.
  intros H Hh. apply add_node_b_shape in H.
  destruct H as [(fd & ec & _ & _ & [[-> _]|(i & y & y' & Hy & -> & BU)])|[(_ & -> & _)|[(_ & -> & _)|(_ & _ & ->)]]]; auto.
  - eapply bumped_keeps; eauto.
  - apply has_app_one; auto.
Qed.

Lemma delete_keeps id pick g b g' b' x : delete_in_bucket id pick g b = Some (g', b') -> has (ents b) x -> x <> id -> has (ents b') x.
Proof.
  intros H (e & He & Hid) Hne. apply delete_in_bucket_shape in H. destruct H as [(_ & _ & ->)|(i & n & Hn & Hnid & H)]; [exists e; auto|].
  assert (In e (remove_at i (ents b))) by (eapply in_remove_at_other; eauto; congruence).
  destruct H as [(_ & -> & _)|(ri & rep & _ & -> & _)]; exists e; split; auto. rewrite in_app_iff. auto.
Qed.

Lemma resp_keeps id resp nr pick g b g' b' x :
  handle_response_b id resp nr pick g b = Some (g', b') -> has (ents b) x ->
  has (ents b') x \/ (x = id /\ resp = false /\ exists n, In n (ents b) /\ eid n = id /\ checks n / 3 = 0).
Proof.
  unfold handle_response_b. destruct (find_ent (fun e => eid e =? id) (ents b)) as [[i n]|] eqn:F; [|discriminate].
  destruct (find_ent_some _ _ _ _ F) as (Hn & Hid & _). apply N.eqb_eq in Hid.
  assert (SA : forall v, eid v = eid n -> (has (set_at i v (ents b)) x <-> has (ents b) x)) by (intros; eapply has_set_at; eauto).
  destruct (rl n); [|intros X; inversion X; subst; auto].
  destruct resp; simpl negb; cbv iota.
  - set (n1 := set_live (set_checks n (checks n + 1)) true).
    destruct (match nr with None => _ | Some r => _ end) as [[[g2 b2] ec]|] eqn:BP; [|discriminate].
    assert (K2 : has (ents b2) x <-> has (ents b) x).
    { destruct nr as [r0|].
      - destruct (bump_in_bucket g (set_ents b (set_at i n1 (ents b))) r0 false) as [[[[g3 b3] fd] ec3]|] eqn:B3; [|discriminate].
        inversion BP; subst. rewrite (bump_keeps _ _ _ _ _ _ _ _ x B3). sb. apply SA. reflexivity.
      - inversion BP; subst. sb. apply SA. reflexivity. }
    destruct ec; [intros X; inversion X; subst; intros Hh; left; apply K2; auto|].
    destruct (nth_error (ents b2) i) as [n2|] eqn:Hn2; [|discriminate].
    destruct (move_to_list g2 Slow n2) as [[g3 n3]|] eqn:MV; [|discriminate]. apply move_to_list_shape in MV. subst n3.
    intros X; inversion X; subst. sb. intros Hh. left. eapply has_set_at; eauto. apply K2; auto.
  - set (n1 := set_checks n (checks n / 3)).
    destruct (checks n1 =? 0) eqn:CZ.
    + intros D Hh. destruct (N.eq_dec x id) as [->|Ne].
      * right. split; auto. split; auto. exists n. split; [eapply nth_error_In; eauto|]. split; auto. apply N.eqb_eq in CZ. exact CZ.
      * left. eapply delete_keeps; eauto. sb. apply SA; auto.
    + destruct (move_to_list g Fast n1) as [[g3 n3]|] eqn:MV; [|discriminate]. apply move_to_list_shape in MV. subst n3.
      intros X; inversion X; subst. sb. intros Hh. left. apply SA; auto.
Qed.

Lemma is_entry_upd bs i b b' x :
  nth_error bs i = Some b -> (has (ents b) x -> has (ents b') x) -> is_entry bs x -> is_entry (upd_nth i b' bs) x.
Proof.
  intros Hn Hk (j & b0 & e & Hj & He & Hid).
  assert (Hi : (i < length bs)%nat) by (apply nth_error_Some; congruence).
  destruct (Nat.eq_dec j i) as [->|Ne].
  - rewrite Hn in Hj. inversion Hj; subst b0. destruct (Hk (ex_intro _ e (conj He Hid))) as (e' & He' & Hid').
    exists i, b', e'. split; auto. apply nth_error_upd_same; auto.
  - exists j, b0, e. split; auto. rewrite nth_error_upd_other; auto.
Qed.

Lemma handle_add_node_keeps t n inb f t' x : handle_add_node t n inb f = Some t' -> is_entry (bks t) x -> is_entry (bks t') x.
Proof.
  unfold handle_add_node. destruct (nid n =? self t); [intros X; inversion X; auto|].
  destruct (inb && negb (initd t)); [intros X; inversion X; auto|].
  intros H. apply with_bucket_shape in H. destruct H as (b & g' & b' & Hn & AN & ->). simpl.
  eapply is_entry_upd; eauto. eapply add_node_b_keeps; eauto.
Qed.

Lemma add_all_keeps ns : forall t t' x, add_all t ns = Some t' -> is_entry (bks t) x -> is_entry (bks t') x.
Proof.
  induction ns as [|n ns IH]; simpl; intros t t' x H Hx; [inversion H; subst; auto|].
  destruct (handle_add_node t n false false) as [t1|] eqn:E; [|discriminate].
  eapply IH; eauto. eapply handle_add_node_keeps; eauto.
Qed.

Lemma reval_run_bks t df ds ps t' : reval_run t df ds ps = Some t' -> bks t' = bks t /\ self t' = self t /\ fails t' = fails t.
Proof.
  unfold reval_run. destruct (reval_list (gl t) Fast df ps) as [[g1 r]|]; [|discriminate].
  destruct (reval_list g1 Slow ds r) as [[g2 r2]|]; [|discriminate]. intros X; inversion X; subst. auto.
Qed.

Lemma all_ents_sub t e : In e (all_ents t) -> In e (all_nodes t).
Proof.
  unfold all_ents, all_nodes. rewrite !in_flat_map. intros (b & Hb & He). exists b. split; auto. unfold bnodes. rewrite in_app_iff. auto.
Qed.

Lemma find_entry_unique t j b n : Inv t -> nth_error (bks t) j = Some b -> In n (ents b) -> find_entry t (eid n) = Some n.
Proof.
  intros HI Hj Hn. pose proof (Inv_unique t HI) as ND. unfold all_ids in ND.
  assert (Hin : In n (all_ents t)) by (unfold all_ents; apply in_flat_map; exists b; split; auto; eapply nth_error_In; eauto).
  unfold find_entry. destruct (find (fun e => eid e =? eid n) (all_ents t)) as [e|] eqn:F.
  - apply find_some in F. destruct F as [F1 F2]. apply N.eqb_eq in F2. f_equal.
    eapply (nodup_ids_inj (all_nodes t)); eauto; apply all_ents_sub; auto.
  - pose proof (find_none _ _ F n Hin) as X. simpl in X. rewrite N.eqb_refl in X. discriminate.
Qed.

Lemma K_fails_pos : 0 < K_maxFindnodeFailures.
Proof. vm_compute. reflexivity. Qed.

Theorem entry_leaves_only_if t o t' x :
  Inv t -> step t o = Some t' -> In x (entry_ids t) -> In x (entry_ids t') \/ cause_b t o x = true.
Proof.
  intros HI Hs Hx. rewrite !entry_ids_iff in *. destruct o; simpl in Hs.
  - inversion Hs; subst. auto.
  - left. eapply handle_add_node_keeps; eauto.
  - left. eapply handle_add_node_keeps; eauto.
  - left. eapply add_all_keeps; eauto.
  - unfold delete_node in Hs. apply with_bucket_shape in Hs. destruct Hs as (b & g' & b' & Hn & D & ->). simpl.
    destruct (N.eq_dec x id) as [->|Ne]; [right; apply N.eqb_refl|]. left.
    eapply is_entry_upd; eauto. intros Hh. eapply delete_keeps; eauto.
  - apply reval_run_bks in Hs. destruct Hs as (-> & _). auto.
  - unfold handle_response in Hs. destruct (find (fun a => fst a =? id) (active (gl t))) as [[id' att]|]; [|inversion Hs; subst; auto].
    destruct att; simpl negb in Hs; cbv iota in Hs; [|inversion Hs; subst; auto].
    apply with_bucket_shape in Hs. destruct Hs as (b & g' & b' & Hn & RS & ->). simpl in *.
    destruct Hx as (j & b0 & e & Hj & He & Hid).
    destruct (Nat.eq_dec j (bucket_of (self t) id)) as [->|Ne].
    + rewrite Hn in Hj. inversion Hj; subst b0.
      destruct (resp_keeps _ _ _ _ _ _ _ _ x RS (ex_intro _ e (conj He Hid))) as [(e' & He' & Hid')|(-> & -> & (n & Hn1 & Hn2 & Hn3))].
      * left. exists (bucket_of (self t) id), b', e'. split; auto. apply nth_error_upd_same. apply nth_error_Some. congruence.
      * right. simpl. rewrite N.eqb_refl. simpl. rewrite <- Hn2. rewrite (find_entry_unique t _ b n HI Hn Hn1). apply N.eqb_eq; auto.
    + left. exists j, b0, e. split; auto. rewrite nth_error_upd_other; auto.
  - unfold track in Hs.
    set (fl := if success then 0 else fails_read (fails t) (nid n) (nip n) + 1) in *.
    set (t1 := mkTable (self t) (bks t) (gl t) (fails_set (fails t) (nid n) (nip n) fl) (initd t)) in *.
    destruct (nth_error (bks t1) (bucket_of (self t1) (nid n))) as [b|] eqn:Hn; [|discriminate].
    destruct ((K_maxFindnodeFailures <=? fl) && (K_bucketSize / 4 <=? nlen (ents b))) eqn:CD.
    + destruct (with_bucket t1 (bucket_of (self t1) (nid n)) (delete_in_bucket (nid n) pick)) as [t2|] eqn:WB; [|discriminate].
      apply with_bucket_shape in WB. destruct WB as (b0 & g' & b' & Hn0 & D & ->). rewrite Hn in Hn0. inversion Hn0; subst b0.
      destruct (N.eq_dec x (nid n)) as [->|Ne].
      * right. simpl. rewrite N.eqb_refl. simpl. apply andb_true_iff in CD. destruct CD as [C1 C2].
        destruct success.
        -- unfold fl in C1. pose proof K_fails_pos. apply N.leb_le in C1. lia.
        -- unfold fl in C1. rewrite C1. simpl. unfold nbucket. change (bks t) with (bks t1). change (self t) with (self t1). rewrite Hn. exact C2.
      * left. eapply add_all_keeps; eauto. simpl. eapply is_entry_upd; eauto. intros Hh. eapply delete_keeps; eauto.
    + left. eapply add_all_keeps; eauto.
Qed.

Corollary pol_leave_holds t o t' : Inv t -> step t o = Some t' -> pol_leave_b t o t' = true.
Proof.
  intros HI Hs. unfold pol_leave_b. apply forallb_forall. intros x Hx.
  destruct (entry_leaves_only_if t o t' x HI Hs Hx) as [H|H]; [apply mem_N_in in H; rewrite H; reflexivity|rewrite H; apply orb_true_r].
Qed.

(* ---- (4), (5) how a stored entry may change *)

(* al = the (record, inbound) pairs the operation offers.  strong form: valid for the add paths, transitive *)
Definition nd_rel (al : list (node * bool)) (e e' : entry) : Prop :=
  nd e' = nd e \/ exists r inb, In (r, inb) al /\ nd e' = r /\ (nseq (nd e) < nseq r \/ inb = true).
Definition erel (al : list (node * bool)) (e e' : entry) : Prop :=
  eid e' = eid e /\ nd_rel al e e' /\
  ((ep_same e e' /\ live e' = live e /\ rl e' = rl e) \/ (live e' = false /\ rl e' = Some Fast)).
Definition wrel (al : list (node * bool)) (e e' : entry) : Prop :=
  eid e' = eid e /\ nd_rel al e e' /\ (ep_same e e' \/ (live e' = false /\ rl e' = Some Fast)).

Lemma ep_same_refl e : ep_same e e.
Proof. split; reflexivity. Qed.
Lemma erel_refl al e : erel al e e.
Proof. split; auto. split; [left; auto|]. left. split; [apply ep_same_refl|auto]. Qed.
Lemma erel_wrel al e e' : erel al e e' -> wrel al e e'.
Proof. intros (A & B & [(C & _)|C]); split; auto. Qed.
Lemma erel_mono al al' e e' : (forall p, In p al -> In p al') -> erel al e e' -> erel al' e e'.
Proof. intros M (A & [B|(r & inb & B1 & B2)] & C); split; auto; split; auto; [left; auto|right; exists r, inb; auto]. Qed.
Lemma erel_trans al e e1 e2 : (forall r inb, In (r, inb) al -> inb = false) -> erel al e e1 -> erel al e1 e2 -> erel al e e2.
Proof.
  intros NF (A1 & B1 & C1) (A2 & B2 & C2). split; [congruence|]. split.
  - destruct B2 as [B2|(r2 & i2 & X1 & X2 & X3)]; [destruct B1 as [B1|(r1 & i1 & Y1 & Y2 & Y3)]; [left; congruence|right; exists r1, i1; repeat split; auto; congruence]|].
    right. exists r2, i2. split; auto. split; auto. pose proof (NF _ _ X1). destruct X3 as [X3|X3]; [|congruence]. left.
    destruct B1 as [B1|(r1 & i1 & Y1 & Y2 & Y3)]; [congruence|]. pose proof (NF _ _ Y1). destruct Y3 as [Y3|Y3]; [|congruence]. rewrite Y2 in X3. lia.
  - destruct C2 as [((P1 & P2) & L2 & R2)|C2]; [|right; auto].
    destruct C1 as [((Q1 & Q2) & L1 & R1)|[L1 R1]]; [left; unfold ep_same; repeat split; congruence|right; split; congruence].
Qed.

Lemma bumped_erel nr inb ec x x' : bumped nr inb ec x x' -> erel [(nr, inb)] x x' /\ (ec = false -> ep_same x x').
Proof.
  intros (A & B & C & D & E & F). split.
  - split; auto. split; [right; exists nr, inb; simpl; auto|]. destruct F as [(_ & F1 & F2 & F3)|(_ & _ & F2 & F3)]; auto.
  - intros ->. destruct F as [(_ & F1 & _)|(F0 & _)]; [auto|discriminate].
Qed.

Definition brel (P : entry -> entry -> Prop) (es es' : list entry) : Prop :=
  forall e e', In e es -> In e' es' -> eid e = eid e' -> P e e'.

Lemma brel_same (P : entry -> entry -> Prop) es : NoDup (map eid es) -> (forall e, P e e) -> brel P es es.
Proof. intros ND Rf e e' H1 H2 E. rewrite (nodup_ids_inj es e e' ND H1 H2 E). auto. Qed.

Lemma brel_set_at (P : entry -> entry -> Prop) es i x x' :
  NoDup (map eid es) -> (forall e, P e e) -> nth_error es i = Some x -> eid x' = eid x -> P x x' -> brel P es (set_at i x' es).
Proof.
  intros ND Rf Hn He Hp e e' H1 H2 E. apply in_set_at in H2. destruct H2 as [->|H2].
  - assert (e = x) as -> by (eapply (nodup_ids_inj es); eauto; [eapply nth_error_In; eauto|congruence]). auto.
  - rewrite (nodup_ids_inj es e e' ND H1 H2 E). auto.
Qed.

Lemma brel_app_new (P : entry -> entry -> Prop) es w : NoDup (map eid es) -> (forall e, P e e) -> (forall e, In e es -> eid e <> eid w) -> brel P es (es ++ [w]).
Proof.
  intros ND Rf Hw e e' H1 H2 E. apply in_app_iff in H2. destruct H2 as [H2|[<-|[]]].
  - rewrite (nodup_ids_inj es e e' ND H1 H2 E). auto.
  - exfalso. apply (Hw e); auto.
Qed.

Lemma brel_trans (P Q S : entry -> entry -> Prop) es es1 es2 :
  brel P es es1 -> brel Q es1 es2 -> (forall id, has es id -> has es1 id) ->
  (forall a b c, P a b -> Q b c -> S a c) -> brel S es es2.
Proof.
  intros H1 H2 K T e e2 I1 I2 E. destruct (K (eid e) (ex_intro _ e (conj I1 eq_refl))) as (e1 & J1 & J2).
  eapply T; [apply H1; eauto|apply H2; eauto; congruence].
Qed.

Lemma add_node_b_brel n inb force g b g' b' :
  NoDup (map eid (ents b)) -> add_node_b n inb force g b = Some (g', b') -> brel (erel [(n, inb)]) (ents b) (ents b').
Proof.
  intros ND H. apply add_node_b_shape in H.
  destruct H as [(fd & ec & _ & _ & [[-> _]|(i & y & y' & Hy & -> & BU)])|[(_ & -> & _)|[(_ & -> & _)|(_ & NW & ->)]]];
    try (apply brel_same; auto; apply erel_refl).
  - apply (brel_set_at _ _ i y y'); auto; [apply erel_refl|apply BU|apply bumped_erel in BU; tauto].
  - apply brel_app_new; auto; apply erel_refl.
Qed.

Lemma delete_brel id pick g b g' b' :
  BUniq b -> delete_in_bucket id pick g b = Some (g', b') -> brel (erel []) (ents b) (ents b').
Proof.
  intros HU H. pose proof (BUniq_ents b HU) as ND. apply delete_in_bucket_shape in H.
  destruct H as [(_ & _ & ->)|(i & n & Hn & Hnid & H)]; [apply brel_same; auto; apply erel_refl|].
  assert (B0 : brel (erel []) (ents b) (remove_at i (ents b))).
  { intros e e' H1 H2 E. apply in_remove_at in H2. rewrite (nodup_ids_inj _ e e' ND H1 H2 E). apply erel_refl. }
  destruct H as [(_ & -> & _)|(ri & rep & Hr & -> & _)]; auto.
  intros e e' H1 H2 E. apply in_app_iff in H2. destruct H2 as [H2|[<-|[]]]; [apply B0; auto|].
  exfalso. apply (BUniq_rep_not_ent b rep HU); [eapply nth_error_In; eauto|]. exists e. split; auto.
Qed.

Lemma bump_brel g b nr inb g' b' fd ec :
  NoDup (map eid (ents b)) -> bump_in_bucket g b nr inb = Some (g', b', fd, ec) ->
  brel (erel [(nr, inb)]) (ents b) (ents b') /\ (ec = false -> brel ep_same (ents b) (ents b')).
Proof.
  intros ND H. apply bump_shape in H. destruct H as (_ & [[-> _]|(i & n & n' & Hn & -> & BU)]).
  - split; [|intros _]; apply brel_same; auto; [apply erel_refl|apply ep_same_refl].
  - pose proof (bumped_erel _ _ _ _ _ BU) as [B1 B2]. split; [|intros E]; apply (brel_set_at _ _ i n n'); auto; try apply BU; [apply erel_refl|apply ep_same_refl].
Qed.

Definition resp_al (nr : option node) : list (node * bool) := match nr with Some r => [(r, false)] | None => [] end.

Lemma nd_rel_transfer al e e1 e2 : nd e1 = nd e -> nd_rel al e1 e2 -> nd_rel al e e2.
Proof. intros E [H|(r & ib & X1 & X2 & X3)]; [left; congruence|right; exists r, ib; rewrite <- E; auto]. Qed.
Lemma ep_transfer e e1 e2 : nd e1 = nd e -> ep_same e1 e2 -> ep_same e e2.
Proof. unfold ep_same. intros ->. auto. Qed.
Lemma wrel_refl al e : wrel al e e.
Proof. apply erel_wrel, erel_refl. Qed.

Lemma resp_brel id resp nr pick g b g' b' :
  BUniq b -> handle_response_b id resp nr pick g b = Some (g', b') -> brel (wrel (resp_al nr)) (ents b) (ents b').
Proof.
  intros HU. pose proof (BUniq_ents b HU) as ND. unfold handle_response_b.
  destruct (find_ent (fun e => eid e =? id) (ents b)) as [[i n]|] eqn:F; [|discriminate].
  destruct (find_ent_some _ _ _ _ F) as (Hn & Hid & _). apply N.eqb_eq in Hid.
  destruct (rl n) eqn:Rl; [|intros X; inversion X; subst; apply brel_same; auto; apply wrel_refl].
  (* entry i with fields other than the record changed *)
  assert (S1 : forall v, eid v = eid n -> nd v = nd n -> forall e, In e (ents b) ->
                exists e1, In e1 (set_at i v (ents b)) /\ eid e1 = eid e /\ nd e1 = nd e).
  { intros v V1 V2 e He. destruct (set_at_split (ents b) i n v Hn) as (l1 & l2 & E1 & E2 & _). rewrite E2. rewrite E1 in He.
    apply in_mid_cases in He. destruct He as [->|He]; [exists v|exists e]; rewrite in_mid_cases; auto. }
  assert (ND1 : forall v, eid v = eid n -> NoDup (map eid (set_at i v (ents b)))) by (intros; erewrite map_eid_set_at; eauto).
  destruct resp; simpl negb; cbv iota.
  - set (n1 := set_live (set_checks n (checks n + 1)) true).
    destruct (match nr with None => _ | Some r => _ end) as [[[g2 b2] ec]|] eqn:BP; [|discriminate].
    assert (B2 : brel (erel (resp_al nr)) (set_at i n1 (ents b)) (ents b2) /\ (ec = false -> brel ep_same (set_at i n1 (ents b)) (ents b2))).
    { destruct nr as [r0|]; simpl resp_al.
      - destruct (bump_in_bucket g (set_ents b (set_at i n1 (ents b))) r0 false) as [[[[g3 b3] fd] ec3]|] eqn:B3; [|discriminate].
        inversion BP; subst. apply (bump_brel g (set_ents b (set_at i n1 (ents b))) r0 false g2 b2 fd ec (ND1 n1 eq_refl) B3).
      - inversion BP; subst. sb. split; [apply brel_same; auto; apply erel_refl|intros _; apply brel_same; auto; apply ep_same_refl]. }
    destruct B2 as (B2a & B2b).
    destruct ec.
    + intros X; inversion X; subst. intros e e' He He' E.
      destruct (S1 n1 eq_refl eq_refl e He) as (e1 & H1 & H2 & H3).
      destruct (B2a e1 e' H1 He') as (A & B & C); [congruence|].
      split; [congruence|]. split; [eapply nd_rel_transfer; eauto|]. destruct C as [(C & _)|C]; [left; eapply ep_transfer; eauto|right; auto].
    + destruct (nth_error (ents b2) i) as [n2|] eqn:Hn2; [|discriminate].
      destruct (move_to_list g2 Slow n2) as [[g3 n3]|] eqn:MV; [|discriminate]. apply move_to_list_shape in MV. subst n3.
      intros X; inversion X; subst. sb. intros e e' He He' E.
      destruct (S1 n1 eq_refl eq_refl e He) as (e1 & H1 & H2 & H3).
      assert (exists e2, In e2 (ents b2) /\ eid e2 = eid e' /\ nd e' = nd e2) as (e2 & J1 & J2 & J3).
      { apply in_set_at in He'. destruct He' as [->|He']; [exists n2; split; [eapply nth_error_In; eauto|auto]|exists e'; auto]. }
      destruct (B2a e1 e2 H1 J1) as (A & B & C); [congruence|]. pose proof (B2b eq_refl e1 e2 H1 J1) as EP.
      split; [congruence|]. split.
      * eapply nd_rel_transfer; eauto. destruct B as [B|(rr & ib & X1 & X2 & X3)]; [left; congruence|right; exists rr, ib; repeat split; auto; congruence].
      * left. eapply ep_transfer; eauto. assert (ep_same e1 e2) as [P1 P2] by (apply EP; congruence). unfold ep_same. rewrite J3. auto.
  - set (n1 := set_checks n (checks n / 3)).
    destruct (checks n1 =? 0).
    + intros D. assert (HU1 : BUniq (set_ents b (set_at i n1 (ents b)))).
      { unfold BUniq, bnodes in *. sb. rewrite map_app in *. erewrite map_eid_set_at; eauto. }
      pose proof (delete_brel _ _ _ _ _ _ HU1 D) as DB. sb_in DB.
      intros e e' He He' E. destruct (S1 n1 eq_refl eq_refl e He) as (e1 & H1 & H2 & H3).
      destruct (DB e1 e' H1 He') as (A & B & C); [congruence|].
      split; [congruence|]. split.
      * destruct B as [B|(rr & ib & [] & _)]. left. congruence.
      * destruct C as [(C & _)|C]; [left; eapply ep_transfer; eauto|right; auto].
    + destruct (move_to_list g Fast n1) as [[g3 n3]|] eqn:MV; [|discriminate]. apply move_to_list_shape in MV. subst n3.
      intros X; inversion X; subst. sb. apply (brel_set_at (wrel (resp_al nr)) (ents b) i n (set_rl n1 (Some Fast))); auto; [apply wrel_refl|].
      split; [reflexivity|]. split; [left; reflexivity|left; split; reflexivity].
Qed.

(* ---- lifting to tables *)
Definition trel (P : entry -> entry -> Prop) (t t' : table) : Prop :=
  forall e e', In e (all_ents t) -> In e' (all_ents t') -> eid e = eid e' -> P e e'.

Lemma all_ents_in t e : In e (all_ents t) <-> exists j b, nth_error (bks t) j = Some b /\ In e (ents b).
Proof.
  unfold all_ents. rewrite in_flat_map. split.
  - intros (b & Hb & He). apply In_nth_error in Hb. destruct Hb as (j & Hj). eauto.
  - intros (j & b & Hj & He). exists b. split; auto. eapply nth_error_In; eauto.
Qed.

Lemma trel_same_bks (P : entry -> entry -> Prop) t t' : Inv t -> bks t' = bks t -> (forall e, P e e) -> trel P t t'.
Proof.
  intros HI E Rf e e' He He' Hid. unfold all_ents in He'. rewrite E in He'. fold (all_ents t) in He'.
  pose proof (Inv_unique t HI) as ND. unfold all_ids in ND.
  rewrite (nodup_ids_inj (all_nodes t) e e' ND (all_ents_sub t e He) (all_ents_sub t e' He') Hid). auto.
Qed.

Lemma trel_bucket (P : entry -> entry -> Prop) t i b g' b' :
  Inv t -> Inv (mkTable (self t) (upd_nth i b' (bks t)) g' (fails t) (initd t)) ->
  nth_error (bks t) i = Some b -> brel P (ents b) (ents b') -> (forall e, P e e) ->
  trel P t (mkTable (self t) (upd_nth i b' (bks t)) g' (fails t) (initd t)).
Proof.
  intros HI HI' Hn HB Rf e e' He He' Hid. apply all_ents_in in He. apply all_ents_in in He'. simpl in He'.
  destruct He as (j & bj & Hj & Hej). destruct He' as (j' & bj' & Hj' & Hej').
  assert (Hi : (i < length (bks t))%nat) by (apply nth_error_Some; congruence).
  destruct (Inv_place t j bj e HI Hj) as [P1 _]; [rewrite in_app_iff; auto|].
  destruct (Inv_place _ j' bj' e' HI' Hj') as [P2 _]; [rewrite in_app_iff; auto|]. simpl in P2.
  assert (EJ : j' = j) by congruence. rewrite EJ in *. clear EJ P1 P2.
  apply nth_upd_cases in Hj'; auto. destruct Hj' as [[EJ ->]|[Ne Hj']]; [rewrite EJ in *|].
  - rewrite Hn in Hj. inversion Hj; subst bj. apply HB; auto.
  - rewrite Hj in Hj'. inversion Hj'; subst bj'. destruct HI as (_ & _ & HBL & _). destruct (HBL j bj Hj) as (_ & HU & _).
    rewrite (nodup_ids_inj (ents bj) e e' (BUniq_ents bj HU) Hej Hej' Hid). auto.
Qed.

Lemma trel_trans (P : entry -> entry -> Prop) t t1 t2 :
  trel P t t1 -> trel P t1 t2 -> (forall x, is_entry (bks t) x -> is_entry (bks t1) x) ->
  (forall a b c, P a b -> P b c -> P a c) -> (forall a b, P a b -> eid b = eid a) -> trel P t t2.
Proof.
  intros H1 H2 K T Pid e e2 He He2 Hid.
  assert (In (eid e) (entry_ids t)) as X by (unfold entry_ids; apply in_map; auto).
  apply entry_ids_iff in X. apply K in X. apply entry_ids_iff in X. unfold entry_ids in X. apply in_map_iff in X. destruct X as (e1 & E1 & I1).
  eapply T; [apply H1; eauto|apply H2; eauto; congruence].
Qed.

Lemma trel_mono (P Q : entry -> entry -> Prop) t t' : (forall a b, P a b -> Q a b) -> trel P t t' -> trel Q t t'.
Proof. intros M H e e' A B C. apply M. apply H; auto. Qed.

Lemma handle_add_node_rel t n inb f t' :
  Inv t -> node_wf n -> handle_add_node t n inb f = Some t' -> trel (erel [(n, inb)]) t t'.
Proof.
  intros HI Hw H. destruct (handle_add_node_inv t n inb f HI Hw) as (t'' & E & HI' & _). rewrite H in E. inversion E; subst t''. clear E.
  unfold handle_add_node in H. destruct (nid n =? self t); [inversion H; subst; apply trel_same_bks; auto; apply erel_refl|].
  destruct (inb && negb (initd t)); [inversion H; subst; apply trel_same_bks; auto; apply erel_refl|].
  apply with_bucket_shape in H. destruct H as (b & g' & b' & Hn & AN & ->).
  eapply trel_bucket; eauto; [|apply erel_refl]. eapply add_node_b_brel; eauto.
  destruct HI as (_ & _ & HB & _). destruct (HB _ _ Hn) as (_ & HU & _). apply BUniq_ents; auto.
Qed.

Definition found_al (ns : list node) : list (node * bool) := map (fun n => (n, false)) ns.

Lemma found_al_false ns r inb : In (r, inb) (found_al ns) -> inb = false.
Proof. unfold found_al. rewrite in_map_iff. intros (x & E & _). inversion E; auto. Qed.

Lemma add_all_rel ns : forall t t', Inv t -> Forall node_wf ns -> add_all t ns = Some t' -> trel (erel (found_al ns)) t t'.
Proof.
  induction ns as [|n ns IH]; simpl; intros t t' HI Hw H.
  - inversion H; subst. apply trel_same_bks; auto. apply erel_refl.
  - inversion Hw; subst. destruct (handle_add_node t n false false) as [t1|] eqn:E; [|discriminate].
    destruct (handle_add_node_inv t n false false HI H2) as (t1' & E' & HI1 & _). rewrite E in E'. inversion E'; subst t1'.
    eapply trel_trans.
    + eapply trel_mono; [|eapply handle_add_node_rel; eauto]. intros a b. apply erel_mono. simpl. intros p [<-|[]]. auto.
    + eapply trel_mono; [|eapply IH; eauto]. intros a b. apply erel_mono. simpl. auto.
    + intros x. eapply handle_add_node_keeps; eauto.
    + intros a b c. apply erel_trans. intros r inb [X|X]; [inversion X; auto|eapply found_al_false; eauto].
    + intros a b (X & _). auto.
Qed.

(* ---- entries created by an add are fresh: not validated, on the fast list, record = one of the offered nodes *)
Lemma add_node_b_new n inb force g b g' b' e' :
  add_node_b n inb force g b = Some (g', b') -> In e' (ents b') -> has (ents b) (eid e') \/ e' = new_entry n force.
Proof.
  intros H He. apply add_node_b_shape in H.
  destruct H as [(fd & ec & _ & _ & [[E _]|(i & y & y' & Hy & E & BU)])|[(_ & E & _)|[(_ & E & _)|(_ & _ & E)]]]; rewrite E in He;
    try (left; exists e'; auto; fail).
  - left. apply in_set_at in He. destruct He as [->|He]; [exists y; split; [eapply nth_error_In; eauto|symmetry; apply BU]|exists e'; auto].
  - apply in_app_iff in He. destruct He as [He|[<-|[]]]; [left; exists e'; auto|right; auto].
Qed.

Lemma handle_add_node_new t n inb f t' e' :
  handle_add_node t n inb f = Some t' -> In e' (all_ents t') -> is_entry (bks t) (eid e') \/ e' = new_entry n f.
Proof.
  unfold handle_add_node. intros H He.
  assert (TRIV : t' = t -> is_entry (bks t) (eid e') \/ e' = new_entry n f).
  { intros ->. left. apply entry_ids_iff. unfold entry_ids. apply in_map; auto. }
  destruct (nid n =? self t); [inversion H; subst; apply TRIV; reflexivity|]. destruct (inb && negb (initd t)); [inversion H; subst; apply TRIV; reflexivity|].
  apply with_bucket_shape in H. destruct H as (b & g' & b' & Hn & AN & ->). clear TRIV.
  apply all_ents_in in He. simpl in He. destruct He as (j & bj & Hj & Hej).
  assert (Hi : (bucket_of (self t) (nid n) < length (bks t))%nat) by (apply nth_error_Some; congruence).
  apply nth_upd_cases in Hj; auto. destruct Hj as [[-> ->]|[Ne Hj]].
  - destruct (add_node_b_new _ _ _ _ _ _ _ e' AN Hej) as [(e & He & Hid)|E]; auto. left. exists (bucket_of (self t) (nid n)), b, e. auto.
  - left. exists j, bj, e'. auto.
Qed.

Definition fresh_from (ns : list node) (e' : entry) : Prop := In (nd e') ns /\ live e' = false /\ rl e' = Some Fast.

Lemma add_all_new ns : forall t t' e', Inv t -> Forall node_wf ns -> add_all t ns = Some t' -> In e' (all_ents t') ->
  is_entry (bks t) (eid e') \/ fresh_from ns e'.
Proof.
  induction ns as [|n ns IH]; simpl; intros t t' e' HI Hw H He.
  - inversion H; subst. left. apply entry_ids_iff. unfold entry_ids. apply in_map; auto.
  - inversion Hw; subst. destruct (handle_add_node t n false false) as [t1|] eqn:E; [|discriminate].
    destruct (handle_add_node_inv t n false false HI H2) as (t1' & E' & HI1 & _). rewrite E in E'. inversion E'; subst t1'.
    destruct (IH t1 t' e' HI1 H3 H He) as [X|(F1 & F2 & F3)]; [|right; split; [right; auto|auto]].
    apply entry_ids_iff in X. unfold entry_ids in X. apply in_map_iff in X. destruct X as (e1 & E1 & I1).
    destruct (handle_add_node_new _ _ _ _ _ e1 E I1) as [Y| ->]; [left; rewrite <- E1; auto|].
    right. destruct (add_all_rel ns t1 t' HI1 H3 H (new_entry n false) e' I1 He E1) as (_ & B & C).
    split; [|destruct C as [(_ & C1 & C2)|C]; auto].
    destruct B as [B|(r & ib & B1 & B2 & _)]; [left; rewrite B; reflexivity|right].
    unfold found_al in B1. apply in_map_iff in B1. destruct B1 as (x & X1 & X2). inversion X1; subst. auto.
Qed.

Lemma delete_removes id pick g b g' b' :
  BUniq b -> has (ents b) id -> delete_in_bucket id pick g b = Some (g', b') -> ~ has (ents b') id.
Proof.
  intros HU Hh H. pose proof (BUniq_ents b HU) as ND. apply delete_in_bucket_shape in H.
  destruct H as [(NO & _)|(i & n & Hn & Hnid & H)]; [destruct Hh as (e & He & Hid); exfalso; apply (NO e); auto|].
  assert (R0 : ~ has (remove_at i (ents b)) id) by (intros X; apply (has_remove_at _ _ _ _ ND Hn) in X; destruct X; congruence).
  destruct H as [(_ & -> & _)|(ri & rep & Hr & -> & _)]; auto.
  intros X. apply has_app_one in X. destruct X as [X|X]; auto.
  apply (BUniq_rep_not_ent b rep HU); [eapply nth_error_In; eauto|]. change (eid (set_rl rep (Some Fast))) with (eid rep) in X. rewrite X. auto.
Qed.

(* the (record, inbound) pairs an operation offers *)
Definition op_al (o : op) : list (node * bool) :=
  match o with
  | AddFound n _ => [(n, false)]
  | AddInbound n => [(n, true)]
  | BulkAdd ns => found_al ns
  | RevalResp _ _ nr _ => resp_al nr
  | Track _ _ f _ => found_al f
  | _ => []
  end.

(* per step: an entry that is still there after the step is related to what it was before; the only exception
   is the track request that drops the node by the 5-failures rule (cause_b) - the id may come back among the
   found nodes of that very request, as a NEW entry *)
Theorem step_rel t o t' :
  Inv t -> op_wf o -> step t o = Some t' ->
  forall e e', In e (all_ents t) -> In e' (all_ents t') -> eid e = eid e' ->
  wrel (op_al o) e e' \/ (exists n f p, o = Track n false f p /\ eid e = nid n /\ cause_b t o (eid e) = true /\ fresh_from f e').
Proof.
  intros HI Hw Hs. destruct (step_inv t o HI Hw) as (t'' & E & HI'). rewrite Hs in E. inversion E; subst t''. clear E.
  assert (W : forall al, trel (erel al) t t' -> forall e e', In e (all_ents t) -> In e' (all_ents t') -> eid e = eid e' -> wrel al e e')
    by (intros al H e e' A B C; apply erel_wrel; apply H; auto).
  destruct o; simpl in Hs, Hw; intros e e' He He' Hid.
  - left. inversion Hs; subst. apply (W []); auto. apply trel_same_bks; auto. apply erel_refl.
  - left. apply (W _ (handle_add_node_rel t n false force_live t' HI Hw Hs)); auto.
  - left. apply (W _ (handle_add_node_rel t n true false t' HI Hw Hs)); auto.
  - left. apply (W _ (add_all_rel ns t t' HI Hw Hs)); auto.
  - left. unfold delete_node in Hs. apply with_bucket_shape in Hs. destruct Hs as (b & g' & b' & Hn & D & ->).
    apply (W []); auto. eapply trel_bucket; eauto; [|apply erel_refl]. eapply delete_brel; eauto.
    destruct HI as (_ & _ & HB & _). destruct (HB _ _ Hn) as (_ & HU & _). auto.
  - left. apply reval_run_bks in Hs. destruct Hs as (Hb & _). apply (W []); auto. apply trel_same_bks; auto. apply erel_refl.
  - left. unfold handle_response in Hs.
    assert (TRIV : bks t' = bks t -> wrel (op_al (RevalResp id responded newrec pick)) e e').
    { intros Hb. apply erel_wrel. apply (trel_same_bks _ t t' HI Hb (erel_refl _)); auto. }
    destruct (find (fun a => fst a =? id) (active (gl t))) as [[id' att]|]; [|inversion Hs; subst; auto].
    destruct att; simpl negb in Hs; cbv iota in Hs; [|inversion Hs; subst; auto].
    apply with_bucket_shape in Hs. destruct Hs as (b & g' & b' & Hn & RS & ->). simpl in *.
    set (t1 := set_gl t (set_active (gl t) (filter (fun a => negb (fst a =? id)) (active (gl t))))) in *.
    assert (I1 : Inv t1).
    { destruct HI as (HL & HS & HB & G1 & G2 & G3). unfold Inv, t1. simpl.
      split; [exact HL|]. split; [exact HS|]. split; [exact HB|]. split; [exact G1|]. split.
      - destruct G2 as [A B]. split; intros l'; [specialize (A l')|specialize (B l')]; destruct l'; auto.
      - intros x Hx. simpl in Hx. apply filter_In in Hx. apply G3. tauto. }
    assert (TR : trel (wrel (resp_al newrec)) t1 (mkTable (self t1) (upd_nth (bucket_of (self t) id) b' (bks t1)) g' (fails t1) (initd t1))).
    { eapply trel_bucket; eauto; [|apply wrel_refl]. eapply resp_brel; eauto.
      destruct HI as (_ & _ & HB & _). destruct (HB _ _ Hn) as (_ & HU & _). auto. }
    apply TR; auto.
  - destruct Hw as [Hw1 Hw2]. unfold track in Hs.
    set (fl := if success then 0 else fails_read (fails t) (nid n) (nip n) + 1) in *.
    set (t1 := mkTable (self t) (bks t) (gl t) (fails_set (fails t) (nid n) (nip n) fl) (initd t)) in *.
    assert (I1 : Inv t1) by exact HI.
    destruct (nth_error (bks t1) (bucket_of (self t1) (nid n))) as [b|] eqn:Hn; [|discriminate].
    destruct ((K_maxFindnodeFailures <=? fl) && (K_bucketSize / 4 <=? nlen (ents b))) eqn:CD.
    + destruct (with_bucket t1 (bucket_of (self t1) (nid n)) (delete_in_bucket (nid n) pick)) as [t2|] eqn:WB; [|discriminate].
      assert (Hr : (bucket_of (self t1) (nid n) < length (bks t1))%nat) by (apply nth_error_Some; congruence).
      destruct (with_bucket_inv t1 _ (delete_in_bucket (nid n) pick) I1 Hr) as (t2' & E2 & I2 & _).
      { intros R O OA Ofar b0 _ F. apply delete_in_bucket_inv; auto. }
      rewrite WB in E2. inversion E2; subst t2'. clear E2.
      pose proof WB as WB'. apply with_bucket_shape in WB'. destruct WB' as (b0 & g' & b' & Hn0 & D & Et2). rewrite Hn in Hn0. inversion Hn0; subst b0.
      destruct (N.eq_dec (eid e) (nid n)) as [Eq|Ne].
      * right. destruct success.
        -- exfalso. apply andb_true_iff in CD. destruct CD as [C1 _]. unfold fl in C1. pose proof K_fails_pos. apply N.leb_le in C1. lia.
        -- exists n, found, pick. split; auto. split; auto. split.
           ++ simpl. rewrite Eq, N.eqb_refl. simpl. apply andb_true_iff in CD. destruct CD as [C1 C2]. unfold fl in C1. rewrite C1. simpl.
              unfold nbucket. change (bks t) with (bks t1). change (self t) with (self t1). rewrite Hn. exact C2.
           ++ destruct (add_all_new found t2 t' e' I2 Hw2 Hs He') as [X|X]; auto. exfalso.
              assert (HUb : BUniq b) by (destruct I1 as (_ & _ & HB & _); destruct (HB _ _ Hn) as (_ & HU & _); auto).
              assert (Hhb : has (ents b) (nid n)).
              { apply all_ents_in in He. destruct He as (j & bj & Hj & Hej).
                destruct (Inv_place t j bj e HI Hj) as [P1 _]; [rewrite in_app_iff; auto|]. rewrite Eq in P1.
                change (bks t1) with (bks t) in Hn. change (self t1) with (self t) in Hn. rewrite P1 in Hn. rewrite Hj in Hn. inversion Hn; subst bj. exists e; auto. }
              pose proof (delete_removes _ _ _ _ _ _ HUb Hhb D) as NR.
              destruct X as (j & bj & x & Hj & Hx & Hxid). rewrite Et2 in Hj. simpl in Hj.
              destruct (Inv_place t2 j bj x I2) as [P2 _]; [rewrite Et2; simpl; exact Hj|rewrite in_app_iff; auto|].
              rewrite Et2 in P2. simpl in P2. rewrite Hxid, <- Hid, Eq in P2.
              apply nth_upd_cases in Hj; auto. destruct Hj as [[_ ->]|[Ne _]]; [|apply Ne; auto].
              apply NR. exists x. split; auto. congruence.
      * left. apply erel_wrel.
        assert (HUb : BUniq b) by (destruct I1 as (_ & _ & HB & _); destruct (HB _ _ Hn) as (_ & HU & _); auto).
        assert (T12 : trel (erel (found_al found)) t1 t2).
        { rewrite Et2. eapply trel_bucket; eauto; [rewrite <- Et2; auto| |apply erel_refl].
          intros a c A1 A2 A3. eapply erel_mono; [|eapply (delete_brel _ _ _ _ _ _ HUb D); eauto]. intros q []. }
        assert (X2 : is_entry (bks t2) (eid e)).
        { rewrite Et2. simpl. eapply is_entry_upd; eauto.
          - intros Hh. eapply delete_keeps; eauto.
          - apply entry_ids_iff. unfold entry_ids. apply in_map. exact He. }
        apply entry_ids_iff in X2. unfold entry_ids in X2. apply in_map_iff in X2. destruct X2 as (e2 & E2 & I2e).
        eapply erel_trans; [intros r ib; apply found_al_false| |].
        -- apply T12; eauto.
        -- apply (add_all_rel found t2 t' I2 Hw2 Hs); auto. congruence.
    + left. apply (W _ (add_all_rel found t1 t' I1 Hw2 Hs)); auto.
Qed.

(* (4) a stored record changes only to a higher sequence number, or arbitrarily when the node itself contacted us *)
Theorem record_changes_only_up t o t' e e' :
  Inv t -> op_wf o -> step t o = Some t' -> In e (all_ents t) -> In e' (all_ents t') -> eid e = eid e' -> nd e' <> nd e ->
  nseq (nd e) < nseq (nd e') \/ o = AddInbound (nd e') \/
  (exists n f p, o = Track n false f p /\ eid e = nid n /\ cause_b t o (eid e) = true /\ fresh_from f e').
Proof.
  intros HI Hw Hs He He' Hid Hne. destruct (step_rel t o t' HI Hw Hs e e' He He' Hid) as [(_ & [B|(r & ib & B1 & B2 & B3)] & _)|X]; auto; [contradiction|].
  destruct B3 as [B3| ->]; [left; congruence|]. right. left.
  destruct o; simpl in B1; try contradiction.
  - destruct B1 as [B1|[]]. inversion B1.
  - destruct B1 as [B1|[]]. inversion B1; subst. reflexivity.
  - apply found_al_false in B1. discriminate.
  - destruct newrec; simpl in B1; [destruct B1 as [B1|[]]; inversion B1|contradiction].
  - apply found_al_false in B1. discriminate.
Qed.

(* (5) an endpoint change clears the verified status and puts the node on the fast revalidation list *)
Theorem endpoint_change_clears_live t o t' e e' :
  Inv t -> op_wf o -> step t o = Some t' -> In e (all_ents t) -> In e' (all_ents t') -> eid e = eid e' -> ~ ep_same e e' ->
  live e' = false /\ rl e' = Some Fast.
Proof.
  intros HI Hw Hs He He' Hid Hne. destruct (step_rel t o t' HI Hw Hs e e' He He' Hid) as [(_ & _ & [C|C])|(n & f & p & _ & _ & _ & (_ & F2 & F3))]; auto. contradiction.
Qed.

(* ================================================================ 15. inv_b reflects Inv *)

Lemma forallb_i_spec {A} (f : nat -> A -> bool) l : forall off,
  forallb_i f off l = true <-> forall j x, nth_error l j = Some x -> f (off + j)%nat x = true.
Proof.
  induction l as [|a l IH]; intros off; simpl.
  - split; auto. intros _ [|j] x H; discriminate.
  - rewrite andb_true_iff, IH. split.
    + intros [H1 H2] [|j] x H; simpl in H; [inversion H; subst; rewrite Nat.add_0_r; auto|].
      replace (off + S j)%nat with (S off + j)%nat by lia. auto.
    + intros H. split; [specialize (H 0%nat a eq_refl); rewrite Nat.add_0_r in H; auto|].
      intros j x Hj. replace (S off + j)%nat with (off + S j)%nat by lia. apply H. auto.
Qed.

Lemma ips_count_notin s k : ~ In k (map fst s) -> ips_count s k = 0.
Proof.
  unfold ips_count. induction s as [|[k' n] s IH]; simpl; auto. intros H.
  destruct (k' =? k) eqn:E; [apply N.eqb_eq in E; subst; exfalso; apply H; auto|]. apply IH. intro. apply H. auto.
Qed.
Lemma tc_notin l k : ~ In k (ipkeys l) -> true_count l k = 0.
Proof.
  induction l as [|a l IH]; simpl; intros H; [reflexivity|]. rewrite tc_cons, IH by (intro; apply H; auto).
  unfold ind, counted. destruct (key24 (nip (nd a)) =? k) eqn:E; [apply N.eqb_eq in E; exfalso; apply H; auto|]. rewrite andb_false_r. reflexivity.
Qed.

Lemma forall_keys (P : N -> bool) (keys : list N) :
  (forall k, ~ In k keys -> P k = true) -> (forallb P keys = true <-> forall k, P k = true).
Proof.
  intros Hout. rewrite forallb_forall. split; [|auto]. intros H k.
  destruct (in_dec N.eq_dec k keys); auto.
Qed.

Lemma bips_b_iff b : bips_b b = true <-> BIps b.
Proof.
  unfold bips_b, BIps.
  rewrite (forall_keys (fun k => (true_count (bnodes b) k <=? ips_count (bips b) k) && (ips_count (bips b) k <=? K_bucketIPLimit))).
  - split; intros H k; specialize (H k); [apply andb_true_iff in H; destruct H; split; apply N.leb_le; auto|].
    apply andb_true_iff. split; apply N.leb_le; apply H.
  - intros k Hk. rewrite in_app_iff in Hk. rewrite ips_count_notin, tc_notin by tauto. reflexivity.
Qed.

Lemma sum_cnt_notin bs k : ~ In k (flat_map (fun b => map fst (bips b)) bs) -> sum_cnt bs k = 0.
Proof.
  induction bs as [|b bs IH]; simpl; auto. rewrite in_app_iff. intros H. rewrite ips_count_notin, IH by tauto. reflexivity.
Qed.

Lemma gips_b_iff bs g : gips_b bs g = true <-> GIps bs g.
Proof.
  unfold gips_b, GIps.
  rewrite (forall_keys (fun k => (sum_cnt bs k <=? ips_count (tips g) k) && (ips_count (tips g) k <=? K_tableIPLimit))).
  - split; intros H k; specialize (H k); [apply andb_true_iff in H; destruct H; split; apply N.leb_le; auto|].
    apply andb_true_iff. split; apply N.leb_le; apply H.
  - intros k Hk. rewrite in_app_iff in Hk. rewrite ips_count_notin, sum_cnt_notin by tauto. reflexivity.
Qed.

Lemma rl_is_iff e l : rl_is e l = true <-> rl e = Some l.
Proof. unfold rl_is. destruct (rl e) as [l'|]; [rewrite rlist_eqb_eq; split; congruence|split; discriminate]. Qed.

Lemma in_nth_iff {A} (l : list A) x : In x l <-> exists j, nth_error l j = Some x.
Proof. split; [apply In_nth_error|intros (j & H); eapply nth_error_In; eauto]. Qed.

Lemma listed_b_iff bs l id : listed_b bs l id = true <-> listed bs l id.
Proof.
  unfold listed_b, listed, inl. rewrite existsb_exists. split.
  - intros (b & Hb & H). apply existsb_exists in H. destruct H as (e & He & H). apply andb_true_iff in H. destruct H as [H1 H2].
    apply N.eqb_eq in H1. apply rl_is_iff in H2. apply in_nth_iff in Hb. destruct Hb as (j & Hj). exists j, b. split; auto. exists e. auto.
  - intros (j & b & Hj & e & He & H1 & H2). exists b. split; [eapply nth_error_In; eauto|]. apply existsb_exists. exists e. split; auto.
    apply andb_true_iff. split; [apply N.eqb_eq; auto|apply rl_is_iff; auto].
Qed.

Lemma glists_l_b_iff bs g l : glists_l_b bs g l = true <-> forall id, In id (rlist_get g l) <-> listed bs l id.
Proof.
  unfold glists_l_b. rewrite andb_true_iff, !forallb_forall. split.
  - intros [H1 H2] id. split; [intros H; apply listed_b_iff; auto|].
    intros (j & b & Hj & e & He & E1 & E2). apply nth_error_In in Hj. specialize (H2 b Hj). rewrite forallb_forall in H2. specialize (H2 e He).
    apply rl_is_iff in E2. rewrite E2 in H2. apply mem_N_in in H2. congruence.
  - intros H. split; [intros id Hi; apply listed_b_iff, H; auto|].
    intros b Hb. apply forallb_forall. intros e He. destruct (rl_is e l) eqn:E; auto. apply mem_N_in. apply H.
    apply in_nth_iff in Hb. destruct Hb as (j & Hj). exists j, b. split; auto. exists e. split; auto. split; auto. apply rl_is_iff; auto.
Qed.

Lemma glists_b_iff bs g : glists_b bs g = true <-> GLists bs g.
Proof.
  unfold glists_b, GLists. rewrite !andb_true_iff, !glists_l_b_iff, !nodup_b_iff. split.
  - intros [[[H1 H2] H3] H4]. split; intros [|]; auto.
  - intros [H1 H2]. repeat split; try apply H1; [apply (H2 Fast)|apply (H2 Slow)].
Qed.

Lemma is_entry_b_iff bs id : is_entry_b bs id = true <-> is_entry bs id.
Proof.
  unfold is_entry_b, is_entry. rewrite existsb_exists. split.
  - intros (b & Hb & H). apply existsb_exists in H. destruct H as (e & He & H). apply N.eqb_eq in H.
    apply in_nth_iff in Hb. destruct Hb as (j & Hj). eauto 6.
  - intros (j & b & e & Hj & He & H). exists b. split; [eapply nth_error_In; eauto|]. apply existsb_exists. exists e. split; auto. apply N.eqb_eq; auto.
Qed.

Lemma gactive_b_iff bs g : gactive_b bs g = true <-> GActive bs g.
Proof.
  unfold gactive_b, GActive. rewrite forallb_forall. split.
  - intros H id Hi. specialize (H _ Hi). simpl in H. apply is_entry_b_iff; auto.
  - intros H [id att] Hi. simpl. destruct att; auto. apply is_entry_b_iff. auto.
Qed.

Lemma blocal_b_iff s j b : blocal_b s j b = true <-> BLocal s j b.
Proof.
  unfold blocal_b, BLocal. rewrite !andb_true_iff, bips_b_iff.
  assert (A1 : bsize_b b = true <-> BSize b).
  { unfold bsize_b, BSize. rewrite andb_true_iff, !N.leb_le. reflexivity. }
  assert (A2 : buniq_b b = true <-> BUniq b) by apply nodup_b_iff.
  assert (A3 : bplace_b s j b = true <-> BPlace s j b).
  { unfold bplace_b, BPlace. rewrite forallb_forall. split; intros H e He; specialize (H e He).
    - apply andb_true_iff in H. destruct H as [H1 H2]. apply Nat.eqb_eq in H1. apply negb_true_iff, N.eqb_neq in H2. auto.
    - destruct H as [H1 H2]. apply andb_true_iff. split; [apply Nat.eqb_eq; auto|apply negb_true_iff, N.eqb_neq; auto]. }
  assert (A4 : bflags_b b = true <-> BFlags b).
  { unfold bflags_b, BFlags. rewrite andb_true_iff, !forallb_forall. split; intros [H1 H2]; split; intros e He;
      [specialize (H1 e He)|specialize (H2 e He)|specialize (H1 e He)|specialize (H2 e He)]; destruct (rl e); auto; try discriminate; congruence. }
  assert (A5 : baddr_b b = true <-> BAddr b).
  { unfold baddr_b, BAddr, addr_ok. rewrite forallb_forall. split; intros H e He; specialize (H e He).
    - apply andb_true_iff in H. destruct H as [H1 H2]. apply negb_true_iff in H2. auto.
    - destruct H as [H1 H2]. rewrite H1, H2. reflexivity. }
  rewrite A1, A2, A3, A4, A5. tauto.
Qed.

Theorem inv_b_reflects t : inv_b t = true <-> Inv t.
Proof.
  unfold inv_b, Inv. rewrite !andb_true_iff, Nat.eqb_eq, N.ltb_lt, gips_b_iff, glists_b_iff, gactive_b_iff.
  rewrite (forallb_i_spec (blocal_b (self t)) (bks t) 0).
  assert (E : (forall j x, nth_error (bks t) j = Some x -> blocal_b (self t) (0 + j) x = true) <->
              (forall j b, nth_error (bks t) j = Some b -> BLocal (self t) j b)).
  { split; intros H j b Hj; specialize (H j b Hj); simpl in *; apply blocal_b_iff; auto. }
  rewrite E. tauto.
Qed.

(* the property-level checks follow from the invariant (so a failing chk_* on an implementation snapshot means
   the snapshot violates a clause of the property, not merely the proof's invariant) *)
Lemma chk_unique_holds t : Inv t -> chk_unique t = true.
Proof. intros H. apply nodup_b_iff. apply Inv_unique; auto. Qed.
Lemma chk_self_holds t : Inv t -> chk_self t = true.
Proof. intros H. unfold chk_self. apply negb_true_iff. destruct (mem_N (self t) (all_ids t)) eqn:E; auto. apply mem_N_in in E. exfalso. eapply Inv_self_absent; eauto. Qed.
Lemma chk_sizes_holds t : Inv t -> chk_sizes_ents t = true /\ chk_sizes_reps t = true.
Proof.
  intros (_ & _ & HB & _). unfold chk_sizes_ents, chk_sizes_reps. rewrite !forallb_forall.
  split; intros b Hb; apply in_nth_iff in Hb; destruct Hb as (j & Hj); destruct (HB j b Hj) as ((S1 & S2) & _); apply N.leb_le;
    [change K_bucketSize with 16 in S1|change K_maxReplacements with 10 in S2]; auto.
Qed.
Lemma chk_place_holds t : Inv t -> chk_place t = true.
Proof.
  intros (_ & _ & HB & _). unfold chk_place. apply (forallb_i_spec _ (bks t) 0). intros j b Hj. simpl.
  apply forallb_forall. intros e He. apply Nat.eqb_eq. destruct (HB j b Hj) as (_ & _ & HP & _). apply HP; auto.
Qed.
Lemma chk_iplimit_holds t : Inv t -> chk_iplimit_bucket t = true /\ chk_iplimit_table t = true.
Proof.
  intros HI. unfold chk_iplimit_bucket, chk_iplimit_table. rewrite !forallb_forall. split.
  - intros b Hb. apply forallb_forall. intros k _. apply N.leb_le. exact (Inv_iplimit_bucket t b k HI Hb).
  - intros k _. apply N.leb_le. exact (Inv_iplimit_table t k HI).
Qed.

(* ================================================================ 16. the boolean policy monitors follow from the theorems *)

Lemma node_eqb_eq a b : node_eqb a b = true <-> a = b.
Proof.
  unfold node_eqb. rewrite !andb_true_iff, !N.eqb_eq. destruct a, b; simpl. split; [intros [[[-> ->] ->] ->]; auto|intros X; inversion X; auto].
Qed.
Lemma entry_eqb_refl e : entry_eqb e e = true.
Proof.
  unfold entry_eqb. rewrite (proj2 (node_eqb_eq _ _) eq_refl), N.eqb_refl, Bool.eqb_reflx. simpl.
  destruct (rl e) as [[|]|]; reflexivity.
Qed.
Lemma list_eqb_refl {A} (eq : A -> A -> bool) l : (forall x, eq x x = true) -> list_eqb eq l l = true.
Proof. intros R. induction l; simpl; auto. rewrite R, IHl. reflexivity. Qed.

Theorem pol_full_holds t o t' : Inv t -> step t o = Some t' -> pol_full_b t o t' = true.
Proof.
  intros HI Hs. unfold pol_full_b.
  assert (G : forall n, is_add o n ->
    match nbucket t (nid n) with
    | Some b => match nbucket t' (nid n) with
        | Some b' =>
            if (16 <=? nlen (ents b)) && negb (existsb (fun e => eid e =? nid n) (ents b)) && negb (nid n =? self t)
            then list_eqb (list_eqb entry_eqb) (map ents (bks t')) (map ents (bks t)) &&
                 (list_eqb entry_eqb (reps b') (reps b) || list_eqb entry_eqb (reps b') (firstn 10 (mkEntry n 0 false None :: reps b)))
            else true
        | None => true end
    | None => true end = true).
  { intros n Ha. destruct (nbucket t (nid n)) as [b|] eqn:Hb; auto.
    destruct ((16 <=? nlen (ents b)) && negb (existsb (fun e => eid e =? nid n) (ents b)) && negb (nid n =? self t)) eqn:C;
      [|destruct (nbucket t' (nid n)); auto].
    apply andb_true_iff in C. destruct C as [C C3]. apply andb_true_iff in C. destruct C as [C1 C2].
    apply N.leb_le in C1. apply negb_true_iff in C2.
    assert (NE : forall e, In e (ents b) -> eid e <> nid n).
    { intros e He E. assert (existsb (fun e => eid e =? nid n) (ents b) = true); [|congruence]. apply existsb_exists. exists e. split; auto. apply N.eqb_eq; auto. }
    destruct (full_bucket_only_replacement t o n t' b HI Ha Hs Hb C1 NE) as (E1 & _ & b' & Hb' & E2).
    rewrite Hb'. rewrite E1. rewrite (list_eqb_refl (list_eqb entry_eqb)) by (intros; apply list_eqb_refl; apply entry_eqb_refl). simpl.
    destruct E2 as [-> | ->]; rewrite (list_eqb_refl entry_eqb) by apply entry_eqb_refl; auto using orb_true_r. }
  destruct o; auto; apply G; unfold is_add; eauto.
Qed.

Theorem pol_record_holds t o t' : Inv t -> op_wf o -> step t o = Some t' -> pol_record_b t o t' = true.
Proof.
  intros HI Hw Hs. unfold pol_record_b. apply forallb_forall. intros e He.
  destruct (find_entry t' (eid e)) as [e'|] eqn:F; auto. unfold find_entry in F. apply find_some in F. destruct F as [He' Hid]. apply N.eqb_eq in Hid.
  destruct (node_eqb (nd e) (nd e')) eqn:NE; auto. simpl.
  assert (Hne : nd e' <> nd e) by (intros X; rewrite X in NE; rewrite (proj2 (node_eqb_eq _ _) eq_refl) in NE; discriminate).
  destruct (record_changes_only_up t o t' e e' HI Hw Hs He He' (eq_sym Hid) Hne) as [H|[H|(n & f & p & -> & H1 & H2 & (H3 & _))]].
  - apply N.ltb_lt in H. rewrite H. reflexivity.
  - subst o. rewrite (proj2 (node_eqb_eq _ _) eq_refl). apply orb_true_iff. left. apply orb_true_r.
  - apply orb_true_iff. right. unfold readd_b. rewrite H2. simpl. apply existsb_exists. exists (nd e'). split; auto. apply node_eqb_eq; auto.
Qed.

Theorem pol_endpoint_holds t o t' : Inv t -> op_wf o -> step t o = Some t' -> pol_endpoint_b t o t' = true.
Proof.
  intros HI Hw Hs. unfold pol_endpoint_b. apply forallb_forall. intros e He.
  destruct (find_entry t' (eid e)) as [e'|] eqn:F; auto. unfold find_entry in F. apply find_some in F. destruct F as [He' Hid]. apply N.eqb_eq in Hid.
  destruct ((nip (nd e) =? nip (nd e')) && (nport (nd e) =? nport (nd e'))) eqn:EP; auto.
  assert (Hne : ~ ep_same e e').
  { intros [X1 X2]. rewrite X1, X2, !N.eqb_refl in EP. discriminate. }
  destruct (endpoint_change_clears_live t o t' e e' HI Hw Hs He He' (eq_sym Hid) Hne) as [L1 L2].
  rewrite L1. unfold rl_is. rewrite L2. reflexivity.
Qed.

Lemma filter_all {A} (p : A -> bool) l : (forall x, In x l -> p x = true) -> filter p l = l.
Proof. induction l as [|a l IH]; simpl; intros H; auto. rewrite (H a (or_introl eq_refl)). f_equal. apply IH. intros; apply H; auto. Qed.

Lemma filter_remove_at es i n :
  NoDup (map eid es) -> nth_error es i = Some n -> filter (fun e => negb (eid e =? eid n)) es = remove_at i es.
Proof.
  intros ND Hn. destruct (remove_at_split es i n Hn) as (l1 & l2 & E1 & E2 & _). rewrite E2, E1. rewrite E1 in ND.
  rewrite filter_app. simpl. rewrite N.eqb_refl. simpl.
  assert (K : forall x, In x (l1 ++ l2) -> negb (eid x =? eid n) = true).
  { intros x Hx. apply negb_true_iff, N.eqb_neq. eapply nodup_ids_mid; eauto. }
  rewrite !filter_all; auto; intros x Hx; apply K; rewrite in_app_iff; auto.
Qed.

Lemma NoDup_app_r {A} (l1 l2 : list A) : NoDup (l1 ++ l2) -> NoDup l2.
Proof. induction l1; simpl; auto. intros H. inversion H; auto. Qed.

Lemma list_eqb_N_refl l : list_eqb N.eqb l l = true.
Proof. apply list_eqb_refl. apply N.eqb_refl. Qed.

Lemma delete_succession_b id pick g b g' b' :
  BUniq b -> delete_in_bucket id pick g b = Some (g', b') -> has (ents b) id -> succession_b b b' id = true.
Proof.
  intros HU H Hh. pose proof (BUniq_ents b HU) as ND.
  assert (NDr : NoDup (map eid (reps b))) by (unfold BUniq, bnodes in HU; rewrite map_app in HU; eapply NoDup_app_r; eauto).
  destruct (leaver_is_succeeded _ _ _ _ _ _ H Hh) as (i & n & Hn & Hid & S). unfold succession_b. subst id.
  rewrite (filter_remove_at _ _ _ ND Hn).
  destruct S as [(R0 & -> & ->)|(ri & rep & Hr & -> & ->)].
  - rewrite R0. simpl. rewrite list_eqb_N_refl. reflexivity.
  - destruct (reps b) as [|r0 rs] eqn:Rp; [destruct ri; discriminate|]. rewrite <- Rp in *.
    apply existsb_exists. exists rep. split; [eapply nth_error_In; eauto|].
    rewrite map_app. simpl. change (eid (set_rl rep (Some Fast))) with (eid rep). rewrite list_eqb_N_refl. simpl.
    rewrite (filter_remove_at _ _ _ NDr Hr). apply list_eqb_N_refl.
Qed.

Lemma succession_b_ids b b1 b' id : map eid (ents b1) = map eid (ents b) -> reps b1 = reps b -> succession_b b1 b' id = succession_b b b' id.
Proof.
  intros E1 E2. unfold succession_b. rewrite E2.
  assert (X : map eid (filter (fun e => negb (eid e =? id)) (ents b1)) = map eid (filter (fun e => negb (eid e =? id)) (ents b))).
  { assert (G : forall l, map eid (filter (fun e => negb (eid e =? id)) l) = filter (fun x => negb (x =? id)) (map eid l)).
    { induction l as [|a l IH]; simpl; auto. destruct (negb (eid a =? id)); simpl; rewrite IH; auto. }
    rewrite !G, E1. reflexivity. }
  rewrite X. reflexivity.
Qed.

Lemma existsb_has es id : existsb (fun e => eid e =? id) es = true <-> has es id.
Proof.
  rewrite existsb_exists. split; intros (e & H1 & H2); exists e; split; auto; apply N.eqb_eq; auto.
Qed.

Theorem pol_succ_holds t o t' : Inv t -> step t o = Some t' -> pol_succ_b t o t' = true.
Proof.
  intros HI Hs. unfold pol_succ_b.
  assert (SAME : forall id b, nbucket t id = Some b -> nbucket t' id = Some b ->
     (if existsb (fun e => eid e =? id) (ents b) && negb (existsb (fun e => eid e =? id) (ents b)) then succession_b b b id else true) = true).
  { intros id b _ _. destruct (existsb (fun e => eid e =? id) (ents b)); reflexivity. }
  destruct o; auto; simpl in Hs.
  - (* Delete *)
    unfold delete_node in Hs. apply with_bucket_shape in Hs. destruct Hs as (b & g' & b' & Hn & D & ->).
    unfold nbucket. simpl. rewrite Hn. rewrite nth_error_upd_same by (apply nth_error_Some; congruence).
    destruct (existsb (fun e => eid e =? id) (ents b)) eqn:EX; auto. destruct (negb (existsb (fun e => eid e =? id) (ents b'))); auto.
    destruct HI as (_ & _ & HB & _). destruct (HB _ _ Hn) as (_ & HU & _).
    eapply delete_succession_b; eauto. apply existsb_has; auto.
  - (* RevalResp *)
    destruct responded; auto. unfold handle_response in Hs.
    assert (TRIV : bks t' = bks t -> self t' = self t ->
      match nbucket t id with Some b => match nbucket t' id with Some b' =>
        if existsb (fun e => eid e =? id) (ents b) && negb (existsb (fun e => eid e =? id) (ents b')) then succession_b b b' id else true
        | None => true end | None => true end = true).
    { intros E1 E2. unfold nbucket. rewrite E1, E2. destruct (nth_error (bks t) (bucket_of (self t) id)) as [b|]; auto.
      destruct (existsb (fun e => eid e =? id) (ents b)); reflexivity. }
    destruct (find (fun a => fst a =? id) (active (gl t))) as [[id' att]|]; [|inversion Hs; subst; apply TRIV; auto].
    destruct att; simpl negb in Hs; cbv iota in Hs; [|inversion Hs; subst; apply TRIV; auto].
    apply with_bucket_shape in Hs. destruct Hs as (b & g' & b' & Hn & RS & ->). simpl in Hn, RS.
    unfold nbucket. simpl. rewrite Hn. rewrite nth_error_upd_same by (apply nth_error_Some; congruence).
    destruct (existsb (fun e => eid e =? id) (ents b)) eqn:EX; auto. destruct (negb (existsb (fun e => eid e =? id) (ents b'))) eqn:EX'; auto. simpl.
    apply negb_true_iff in EX'.
    destruct HI as (_ & _ & HB & _). destruct (HB _ _ Hn) as (_ & HU & _).
    unfold handle_response_b in RS. destruct (find_ent (fun e => eid e =? id) (ents b)) as [[i n]|] eqn:F; [|discriminate].
    destruct (find_ent_some _ _ _ _ F) as (Hni & Hid & _). apply N.eqb_eq in Hid.
    destruct (rl n); [|inversion RS; subst; congruence]. simpl negb in RS. cbv iota in RS.
    set (n1 := set_checks n (checks n / 3)) in *.
    assert (ME : map eid (set_at i n1 (ents b)) = map eid (ents b)) by (eapply map_eid_set_at; eauto).
    destruct (checks n1 =? 0).
    + rewrite <- (succession_b_ids b (set_ents b (set_at i n1 (ents b))) b' id); auto.
      eapply delete_succession_b; eauto.
      * unfold BUniq, bnodes in *. sb. rewrite map_app in *. rewrite ME. auto.
      * sb. apply has_in_ids. rewrite ME. apply has_in_ids. apply existsb_has; auto.
    + exfalso. destruct (move_to_list _ Fast n1) as [[g3 n3]|] eqn:MV; [|discriminate]. apply move_to_list_shape in MV. subst n3.
      inversion RS as [[RS1 RS2]]. rewrite <- RS2 in EX'. sb_in EX'.
      assert (HH : has (set_at i (set_rl n1 (Some Fast)) (ents b)) id) by (eapply has_set_at; eauto; apply existsb_has; auto).
      apply existsb_has in HH. congruence.
Qed.

(* ================================================================ 17. the failure counter is the number of consecutive failures *)

Lemma handle_add_node_keeps_frame t n inb f t' : handle_add_node t n inb f = Some t' -> same_frame t t'.
Proof.
  unfold handle_add_node, same_frame. destruct (nid n =? self t); [intros X; inversion X; auto|].
  destruct (inb && negb (initd t)); [intros X; inversion X; auto|].
  intros H. apply with_bucket_shape in H. destruct H as (b & g' & b' & _ & _ & ->). auto.
Qed.
Lemma add_all_keeps_frame ns : forall t t', add_all t ns = Some t' -> same_frame t t'.
Proof.
  induction ns as [|n ns IH]; simpl; intros t t' H; [inversion H; unfold same_frame; auto|].
  destruct (handle_add_node t n false false) as [t1|] eqn:E; [|discriminate].
  destruct (handle_add_node_keeps_frame _ _ _ _ _ E) as (A1 & A2 & A3). destruct (IH _ _ H) as (B1 & B2 & B3).
  unfold same_frame. repeat split; congruence.
Qed.

Lemma step_fails t o t' : step t o = Some t' -> fails t' = fails_step (fails t) o.
Proof.
  destruct o; simpl; intros H.
  - inversion H; reflexivity.
  - destruct (handle_add_node_keeps_frame t n false force_live t' H) as (_ & E & _); auto.
  - destruct (handle_add_node_keeps_frame t n true false t' H) as (_ & E & _); auto.
  - destruct (add_all_keeps_frame ns t t' H) as (_ & E & _); auto.
  - unfold delete_node in H. apply with_bucket_shape in H. destruct H as (b & g' & b' & _ & _ & ->). reflexivity.
  - apply reval_run_bks in H. apply H.
  - unfold handle_response in H. destruct (find _ _) as [[id' att]|]; [|inversion H; reflexivity].
    destruct att; simpl negb in H; cbv iota in H; [|inversion H; reflexivity].
    apply with_bucket_shape in H. destruct H as (b & g' & b' & _ & _ & ->). reflexivity.
  - unfold track in H.
    set (fl := if success then 0 else fails_read (fails t) (nid n) (nip n) + 1) in *.
    destruct (nth_error _ _) as [b|]; [|discriminate].
    destruct (_ && _).
    + destruct (with_bucket _ _ _) as [t2|] eqn:WB; [|discriminate].
      apply with_bucket_shape in WB. destruct WB as (b0 & g' & b' & _ & _ & ->).
      destruct (add_all_keeps_frame found _ t' H) as (_ & E & _). rewrite E. reflexivity.
    + destruct (add_all_keeps_frame found _ t' H) as (_ & E & _). rewrite E. reflexivity.
Qed.

Lemma steps_fails os : forall t t', steps t os = Some t' -> fails t' = fold_left fails_step os (fails t).
Proof.
  induction os as [|o os IH]; simpl; intros t t' H; [inversion H; reflexivity|].
  destruct (step t o) as [t1|] eqn:E; [|discriminate]. rewrite (IH t1 t' H). rewrite (step_fails t o t1 E). reflexivity.
Qed.

Lemma fails_get_filter_other f id ip id' ip' :
  (id' =? id) && (ip' =? ip) = false ->
  fails_get (filter (fun x => negb ((fst (fst x) =? id') && (snd (fst x) =? ip'))) f) id ip = fails_get f id ip.
Proof.
  intros Hne. induction f as [|[[i a] v] f IH]; simpl; auto.
  destruct ((i =? id') && (a =? ip')) eqn:E; simpl.
  - rewrite IH. apply andb_true_iff in E. destruct E as [E1 E2]. apply N.eqb_eq in E1, E2. subst.
    rewrite Hne. reflexivity.
  - rewrite IH. reflexivity.
Qed.

Lemma fails_read_set f id ip id' ip' v :
  fails_read (fails_set f id' ip' v) id ip =
  if (id' =? id) && (ip' =? ip) && ip_valid ip then v else fails_read f id ip.
Proof.
  unfold fails_read, fails_set. destruct (ip_valid ip) eqn:V.
  - destruct (ip_valid ip') eqn:V'.
    + simpl. destruct ((id' =? id) && (ip' =? ip)) eqn:E; simpl; auto. apply fails_get_filter_other; auto.
    + destruct ((id' =? id) && (ip' =? ip)) eqn:E; simpl; auto.
      apply andb_true_iff in E. destruct E as [_ E]. apply N.eqb_eq in E. congruence.
  - rewrite andb_false_r. reflexivity.
Qed.

(* replaying handleTrackRequest's counter updates over a history = counting consecutive failures *)
Lemma hist_fails_consec os : forall f id ip, ip_valid ip = true ->
  fails_read (fold_left fails_step os f) id ip = consec os id ip (fails_read f id ip).
Proof.
  induction os as [|o os IH]; simpl; intros f id ip V; auto.
  rewrite IH by auto. f_equal. destruct o; simpl; auto.
  rewrite fails_read_set, V, andb_true_r.
  destruct ((nid n =? id) && (nip n =? ip)) eqn:E; auto.
  apply andb_true_iff in E. destruct E as [E1 E2]. apply N.eqb_eq in E1, E2. subst. reflexivity.
Qed.

Theorem fail_counter_is_consecutive s os t id ip :
  steps (init s) os = Some t -> fails t = hist_fails os /\ (ip_valid ip = true -> fails_read (fails t) id ip = consec os id ip 0).
Proof.
  intros H. pose proof (steps_fails os (init s) t H) as E. simpl in E. split; auto.
  intros V. rewrite E. rewrite (hist_fails_consec os [] id ip V). unfold fails_read. rewrite V. reflexivity.
Qed.

Lemma with_fails_same t : with_fails t (fails t) = t.
Proof. destruct t; reflexivity. Qed.

(* the leave-cause monitor with the counter taken from the history *)
Theorem leave_monitor_hist s os t o t' :
  s < two_hash -> Forall op_wf os -> steps (init s) os = Some t -> step t o = Some t' ->
  pol_leave_b (with_fails t (hist_fails os)) o t' = true.
Proof.
  intros Hs Hw H1 H2. destruct (fail_counter_is_consecutive s os t 0 0 H1) as [E _]. rewrite <- E, with_fails_same.
  destruct (reachable_inv s os Hs Hw) as (t0 & E0 & HI). rewrite H1 in E0. inversion E0; subst t0.
  apply pol_leave_holds; auto.
Qed.

(* ================================================================ 18. converse of (2): the 5-failures rule fires *)

Theorem entry_leaves_if t n found pick t' b :
  Inv t -> node_wf n -> Forall node_wf found ->
  step t (Track n false found pick) = Some t' -> nbucket t (nid n) = Some b ->
  K_maxFindnodeFailures <= fails_read (fails t) (nid n) (nip n) + 1 -> K_bucketSize / 4 <= nlen (ents b) ->
  has (ents b) (nid n) ->
  forall e', In e' (all_ents t') -> eid e' = nid n -> fresh_from found e'.
Proof.
  intros HI Hw1 Hw2 Hs Hb HF HL Hh e' He' Hid. simpl in Hs. unfold track in Hs.
  set (fl := fails_read (fails t) (nid n) (nip n) + 1) in *.
  set (t1 := mkTable (self t) (bks t) (gl t) (fails_set (fails t) (nid n) (nip n) fl) (initd t)) in *.
  assert (I1 : Inv t1) by exact HI.
  unfold nbucket in Hb. change (bks t) with (bks t1) in Hb. change (self t) with (self t1) in Hb. rewrite Hb in Hs.
  apply N.leb_le in HF. apply N.leb_le in HL. rewrite HF, HL in Hs. simpl in Hs. change (self t) with (self t1) in Hs.
  destruct (with_bucket t1 (bucket_of (self t1) (nid n)) (delete_in_bucket (nid n) pick)) as [t2|] eqn:WB; [|discriminate].
  assert (Hr : (bucket_of (self t1) (nid n) < length (bks t1))%nat) by (apply nth_error_Some; congruence).
  destruct (with_bucket_inv t1 _ (delete_in_bucket (nid n) pick) I1 Hr) as (t2' & E2 & I2 & _).
  { intros R O OA Ofar b0 _ F. apply delete_in_bucket_inv; auto. }
  rewrite WB in E2. inversion E2; subst t2'. clear E2.
  apply with_bucket_shape in WB. destruct WB as (b0 & g' & b' & Hn0 & D & Et2). rewrite Hb in Hn0. inversion Hn0; subst b0.
  destruct (add_all_new found t2 t' e' I2 Hw2 Hs He') as [X|X]; auto. exfalso.
  assert (HUb : BUniq b) by (destruct I1 as (_ & _ & HB & _); destruct (HB _ _ Hb) as (_ & HU & _); auto).
  pose proof (delete_removes _ _ _ _ _ _ HUb Hh D) as NR.
  destruct X as (j & bj & x & Hj & Hx & Hxid).
  destruct (Inv_place t2 j bj x I2 Hj) as [P2 _]; [rewrite in_app_iff; auto|].
  rewrite Et2 in Hj, P2. simpl in Hj, P2. rewrite Hxid, Hid in P2.
  apply nth_upd_cases in Hj; auto. destruct Hj as [[_ ->]|[Ne _]]; [|apply Ne; auto].
  apply NR. exists x. split; auto. congruence.
Qed.

Corollary entry_leaves_if_gone t n found pick t' b :
  Inv t -> node_wf n -> Forall node_wf found ->
  step t (Track n false found pick) = Some t' -> nbucket t (nid n) = Some b ->
  K_maxFindnodeFailures <= fails_read (fails t) (nid n) (nip n) + 1 -> K_bucketSize / 4 <= nlen (ents b) ->
  has (ents b) (nid n) -> Forall (fun x => nid x <> nid n) found -> ~ In (nid n) (entry_ids t').
Proof.
  intros HI Hw1 Hw2 Hs Hb HF HL Hh Hnf Hin. unfold entry_ids in Hin. apply in_map_iff in Hin. destruct Hin as (e' & Hid & He').
  destruct (entry_leaves_if t n found pick t' b HI Hw1 Hw2 Hs Hb HF HL Hh e' He' Hid) as (F1 & _).
  rewrite Forall_forall in Hnf. apply (Hnf (nd e') F1). exact Hid.
Qed.

Theorem pol_kept_holds t o t' : Inv t -> op_wf o -> step t o = Some t' -> pol_kept_b t o t' = true.
Proof.
  intros HI Hw Hs. unfold pol_kept_b, must_leave_b. destruct o; auto. destruct success; auto.
  destruct (nbucket t (nid n)) as [b|] eqn:Hb; auto.
  destruct ((5 <=? fails_read (fails t) (nid n) (nip n) + 1) && (4 <=? nlen (ents b)) && existsb (fun e => eid e =? nid n) (ents b)) eqn:C; auto.
  apply andb_true_iff in C. destruct C as [C C3]. apply andb_true_iff in C. destruct C as [C1 C2].
  apply N.leb_le in C1, C2. apply existsb_has in C3.
  destruct (find_entry t' (nid n)) as [e'|] eqn:F; auto. unfold find_entry in F. apply find_some in F. destruct F as [He' Hid]. apply N.eqb_eq in Hid.
  destruct Hw as [Hw1 Hw2].
  destruct (entry_leaves_if t n found pick t' b HI Hw1 Hw2 Hs Hb C1 C2 C3 e' He' Hid) as (F1 & F2 & F3).
  apply andb_true_iff. split.
  - apply existsb_exists. exists (nd e'). split; auto. apply N.eqb_eq. exact Hid.
  - unfold fresh_b. rewrite F2. unfold rl_is. rewrite F3. simpl. rewrite !andb_true_r. apply existsb_exists. exists (nd e'). split; auto. apply node_eqb_eq; auto.
Qed.

(* ================================================================ 19. doRevalidate: credit is lost only when the PING failed *)

Definition xop_wf (o : xop) : Prop := match o with Plain o => op_wf o | RevalPing _ _ _ _ _ => True end.

Lemma xresolve_wf x o : xop_wf o -> op_wf (xresolve x o).
Proof.
  destruct o; simpl; auto. intros _. destruct (start_seq (started x) id); simpl; auto.
Qed.

Theorem xstep_inv x o : Inv (core x) -> xop_wf o -> exists x', xstep x o = Some x' /\ Inv (core x').
Proof.
  intros HI Hw. unfold xstep. destruct (step_inv (core x) (xresolve x o) HI (xresolve_wf x o Hw)) as (t' & -> & HI').
  eexists. split; [reflexivity|]. exact HI'.
Qed.

Theorem xsteps_inv os : forall x, Inv (core x) -> Forall xop_wf os -> exists x', xsteps x os = Some x' /\ Inv (core x').
Proof.
  induction os as [|o os IH]; intros x HI Hw; simpl; [eauto|].
  inversion Hw; subst. destruct (xstep_inv x o HI H1) as (x1 & -> & I1). apply IH; auto.
Qed.

(* what doRevalidate reports *)
Lemma reval_outcome_spec s0 ok sq enr :
  fst (reval_outcome s0 ok sq enr) = ok /\
  (forall r, snd (reval_outcome s0 ok sq enr) = Some r -> s0 < sq /\ enr = Some r).
Proof.
  unfold reval_outcome. simpl. split; auto. intros r. destruct (s0 <? sq) eqn:E; [|discriminate].
  apply N.ltb_lt in E. auto.
Qed.

Lemma xresolve_ping x id ok sq enr p : exists nr, xresolve x (RevalPing id ok sq enr p) = RevalResp id ok nr p.
Proof.
  simpl. destruct (start_seq (started x) id); [|eauto]. unfold reval_outcome. eauto.
Qed.

Lemma bump_checks g b nr inb g' b' fd ec :
  NoDup (map eid (ents b)) -> bump_in_bucket g b nr inb = Some (g', b', fd, ec) ->
  brel (fun a c => checks c = checks a) (ents b) (ents b').
Proof.
  intros ND H. apply bump_shape in H. destruct H as (_ & [[-> _]|(i & n & n' & Hn & -> & BU)]).
  - apply brel_same; auto.
  - apply (brel_set_at _ _ i n n'); auto; apply BU.
Qed.

(* an answered liveness check never lowers the credit of any entry of the bucket *)
Lemma resp_checks id nr pick g b g' b' :
  BUniq b -> handle_response_b id true nr pick g b = Some (g', b') ->
  brel (fun e e' => checks e <= checks e') (ents b) (ents b').
Proof.
  intros HU. pose proof (BUniq_ents b HU) as ND. unfold handle_response_b.
  destruct (find_ent (fun e => eid e =? id) (ents b)) as [[i n]|] eqn:F; [|discriminate].
  destruct (find_ent_some _ _ _ _ F) as (Hn & Hid & _).
  destruct (rl n) eqn:Rl; [|intros X; inversion X; subst; apply brel_same; auto; intros; lia].
  simpl negb. cbv iota.
  set (n1 := set_live (set_checks n (checks n + 1)) true).
  assert (S1 : forall e, In e (ents b) -> exists e1, In e1 (set_at i n1 (ents b)) /\ eid e1 = eid e /\ checks e <= checks e1).
  { intros e He. destruct (set_at_split (ents b) i n n1 Hn) as (l1 & l2 & E1 & E2 & _). rewrite E2. rewrite E1 in He.
    apply in_mid_cases in He. destruct He as [->|He]; [exists n1|exists e]; rewrite in_mid_cases; simpl; repeat split; auto; lia. }
  assert (ND1 : NoDup (map eid (set_at i n1 (ents b)))) by (erewrite map_eid_set_at; eauto).
  destruct (match nr with None => _ | Some r => _ end) as [[[g2 b2] ec]|] eqn:BP; [|discriminate].
  assert (B2 : brel (fun a c => checks c = checks a) (set_at i n1 (ents b)) (ents b2)).
  { destruct nr as [r0|].
    - destruct (bump_in_bucket g (set_ents b (set_at i n1 (ents b))) r0 false) as [[[[g3 b3] fd] ec3]|] eqn:B3; [|discriminate].
      inversion BP; subst. apply (bump_checks g (set_ents b (set_at i n1 (ents b))) r0 false g2 b2 fd ec ND1 B3).
    - inversion BP; subst. sb. apply brel_same; auto. }
  destruct ec.
  - intros X; inversion X; subst. intros e e' He He' E. destruct (S1 e He) as (e1 & H1 & H2 & H3).
    rewrite (B2 e1 e' H1 He') by congruence. auto.
  - destruct (nth_error (ents b2) i) as [n2|] eqn:Hn2; [|discriminate].
    destruct (move_to_list g2 Slow n2) as [[g3 n3]|] eqn:MV; [|discriminate]. apply move_to_list_shape in MV. subst n3.
    intros X; inversion X; subst. sb. intros e e' He He' E. destruct (S1 e He) as (e1 & H1 & H2 & H3).
    assert (exists e2, In e2 (ents b2) /\ eid e2 = eid e' /\ checks e' = checks e2) as (e2 & J1 & J2 & J3).
    { apply in_set_at in He'. destruct He' as [->|He']; [exists n2; split; [eapply nth_error_In; eauto|auto]|exists e'; auto]. }
    rewrite J3. rewrite (B2 e1 e2 H1 J1) by congruence. auto.
Qed.

(* composed with handleResponse: after the real doRevalidate ran against a node that ANSWERED the ping (whatever
   happened to the ENR request), no entry left the table and no entry lost credit *)
Theorem answered_keeps_credit t id nr pick t' e :
  Inv t -> step t (RevalResp id true nr pick) = Some t' -> In e (all_ents t) ->
  exists e', In e' (all_ents t') /\ eid e' = eid e /\ checks e <= checks e'.
Proof.
  intros HI ST He.
  assert (HI' : Inv t') by (destruct (step_inv t (RevalResp id true nr pick) HI I) as (t'' & E & H); rewrite ST in E; inversion E; subst; auto).
  (* the entry stays *)
  assert (Hin : In (eid e) (entry_ids t)) by (unfold entry_ids; apply in_map; auto).
  destruct (entry_leaves_only_if t _ t' (eid e) HI ST Hin) as [K|K]; [|simpl in K; discriminate].
  unfold entry_ids in K. apply in_map_iff in K. destruct K as (e' & Hid' & He'). exists e'. split; auto. split; auto.
  (* its credit does not go down *)
  assert (TR : trel (fun a c => checks a <= checks c) t t').
  { simpl in ST. unfold handle_response in ST.
    assert (TRIV : bks t' = bks t -> trel (fun a c => checks a <= checks c) t t') by (intros Hb; apply trel_same_bks; auto; intros; lia).
    destruct (find (fun a => fst a =? id) (active (gl t))) as [[id' att]|]; [|inversion ST; subst; auto].
    destruct att; simpl negb in ST; cbv iota in ST; [|inversion ST; subst; auto].
    pose proof ST as ST2. apply with_bucket_shape in ST2. destruct ST2 as (b & g' & b' & Hn & RS & Et'). simpl in Hn, RS.
    set (t1 := set_gl t (set_active (gl t) (filter (fun a => negb (fst a =? id)) (active (gl t))))) in *.
    assert (I1 : Inv t1).
    { destruct HI as (HL & HS & HB & G1 & G2 & G3). unfold Inv, t1. simpl.
      split; [exact HL|]. split; [exact HS|]. split; [exact HB|]. split; [exact G1|]. split.
      - destruct G2 as [A B]. split; intros l'; [specialize (A l')|specialize (B l')]; destruct l'; auto.
      - intros y Hy. simpl in Hy. apply filter_In in Hy. apply G3. tauto. }
    assert (TR1 : trel (fun a c => checks a <= checks c) t1 t').
    { rewrite Et'. eapply trel_bucket; eauto; [rewrite <- Et'; auto| |intros; lia].
      eapply resp_checks; eauto. destruct HI as (_ & _ & HB & _). destruct (HB _ _ Hn) as (_ & HU & _). auto. }
    exact TR1. }
  apply TR; auto.
Qed.

Theorem answered_ping_keeps_credit x id sq enr pick x' e :
  Inv (core x) -> xstep x (RevalPing id true sq enr pick) = Some x' -> In e (all_ents (core x)) ->
  exists e', In e' (all_ents (core x')) /\ eid e' = eid e /\ checks e <= checks e'.
Proof.
  intros HI Hs He. unfold xstep in Hs. destruct (xresolve_ping x id true sq enr pick) as (nr & ER). rewrite ER in Hs. clear ER.
  destruct (step (core x) (RevalResp id true nr pick)) as [t'|] eqn:ST; [|discriminate]. inversion Hs; subst x'. simpl.
  eapply answered_keeps_credit; eauto.
Qed.

Theorem pol_credit_holds t o t' : Inv t -> step t o = Some t' -> pol_credit_b t o t' = true.
Proof.
  intros HI Hs. unfold pol_credit_b. destruct o; auto. destruct responded; auto.
  apply forallb_forall. intros e He. destruct (answered_keeps_credit t id newrec pick t' e HI Hs He) as (e' & He' & Hid & Hc).
  destruct (step_inv t (RevalResp id true newrec pick) HI I) as (t'' & E & HI'). rewrite Hs in E. inversion E; subst t''.
  apply all_ents_in in He'. destruct He' as (j & b & Hj & Hb).
  rewrite <- Hid. rewrite (find_entry_unique t' j b e' HI' Hj Hb). apply N.leb_le. exact Hc.
Qed.

Corollary credit_lost_only_if_ping_failed x id ok sq enr pick x' e :
  Inv (core x) -> xstep x (RevalPing id ok sq enr pick) = Some x' -> In e (all_ents (core x)) ->
  (~ In (eid e) (entry_ids (core x')) \/ exists e', In e' (all_ents (core x')) /\ eid e' = eid e /\ checks e' < checks e) ->
  ok = false.
Proof.
  intros HI Hs He Hbad. destruct ok; auto. exfalso.
  assert (HI' : Inv (core x')) by (destruct (xstep_inv x (RevalPing id true sq enr pick) HI I) as (x'' & E & H); rewrite Hs in E; inversion E; subst; auto).
  destruct (answered_ping_keeps_credit x id sq enr pick x' e HI Hs He) as (e' & He' & Hid & Hc).
  destruct Hbad as [H|(e2 & He2 & Hid2 & Hc2)].
  - apply H. unfold entry_ids. rewrite <- Hid. apply in_map; auto.
  - pose proof (Inv_unique _ HI') as ND. unfold all_ids in ND.
    assert (e2 = e') by (eapply (nodup_ids_inj (all_nodes (core x'))); eauto using all_ents_sub; congruence). subst. lia.
Qed.

(* ================================================================ 20. a failed liveness check divides the credit by three *)

Theorem failed_check_divides_credit t id nr pick t' e aid :
  Inv t -> step t (RevalResp id false nr pick) = Some t' ->
  find (fun a : N * bool => fst a =? id) (active (gl t)) = Some (aid, true) ->
  In e (all_ents t) -> eid e = id ->
  (checks e / 3 = 0 -> ~ In id (entry_ids t')) /\
  (checks e / 3 <> 0 -> exists e', In e' (all_ents t') /\ eid e' = id /\ checks e' = checks e / 3 /\ nd e' = nd e /\ rl e' = Some Fast).
Proof.
  intros HI Hs Hf He Hid.
  destruct (step_inv t (RevalResp id false nr pick) HI I) as (t'' & E & HI'). rewrite Hs in E. inversion E; subst t''. clear E.
  simpl in Hs. unfold handle_response in Hs. rewrite Hf in Hs. simpl negb in Hs. cbv iota in Hs.
  apply with_bucket_shape in Hs. destruct Hs as (b & g' & b' & Hn & RS & Et'). simpl in Hn, RS.
  apply all_ents_in in He. destruct He as (j & bj & Hj & Hej).
  destruct (Inv_place t j bj e HI Hj) as [P1 _]; [rewrite in_app_iff; auto|]. rewrite Hid in P1. rewrite <- P1 in Hj.
  rewrite Hn in Hj. inversion Hj; subst bj. clear Hj.
  assert (HBL : BLocal (self t) (bucket_of (self t) id) b) by (destruct HI as (_ & _ & HB & _); apply HB; auto).
  destruct HBL as (_ & HU & _ & (HF1 & _) & _). pose proof (BUniq_ents b HU) as ND.
  assert (Hlen : (bucket_of (self t) id < length (bks t))%nat) by (apply nth_error_Some; congruence).
  unfold handle_response_b in RS.
  destruct (has_find (ents b) id (ex_intro _ e (conj Hej Hid))) as (i & n & F & Hni & Hnid). rewrite F in RS.
  assert (n = e) by (eapply (nodup_ids_inj (ents b)); eauto; [eapply nth_error_In; eauto|congruence]). subst n.
  destruct (rl e) eqn:Rl; [|exfalso; apply (HF1 e Hej); auto]. simpl negb in RS. cbv iota in RS.
  set (n1 := set_checks e (checks e / 3)) in *. change (checks n1) with (checks e / 3) in RS.
  assert (ME : map eid (set_at i n1 (ents b)) = map eid (ents b)) by (eapply map_eid_set_at; eauto).
  destruct (checks e / 3 =? 0) eqn:CZ.
  - apply N.eqb_eq in CZ. split; [intros _|intros X; contradiction].
    assert (HU1 : BUniq (set_ents b (set_at i n1 (ents b)))).
    { unfold BUniq, bnodes in *. sb. rewrite map_app in *. rewrite ME. auto. }
    assert (Hh1 : has (ents (set_ents b (set_at i n1 (ents b)))) id).
    { sb. apply has_in_ids. rewrite ME. apply has_in_ids. exists e; auto. }
    pose proof (delete_removes _ _ _ _ _ _ HU1 Hh1 RS) as NR.
    intros Hin. apply entry_ids_iff in Hin. destruct Hin as (j2 & bj2 & x & Hj2 & Hx & Hxid).
    destruct (Inv_place t' j2 bj2 x HI' Hj2) as [P2 _]; [rewrite in_app_iff; auto|].
    rewrite Et' in Hj2, P2. simpl in Hj2, P2. rewrite Hxid in P2.
    apply nth_upd_cases in Hj2; auto. destruct Hj2 as [[_ ->]|[Ne _]]; [|apply Ne; auto].
    apply NR. exists x. auto.
  - apply N.eqb_neq in CZ. split; [intros X; contradiction|intros _].
    destruct (move_to_list _ Fast n1) as [[g3 n3]|] eqn:MV; [|discriminate]. apply move_to_list_shape in MV. subst n3.
    inversion RS as [[RS1 RS2]].
    exists (set_rl n1 (Some Fast)). split; [|simpl; auto].
    apply all_ents_in. rewrite Et'. simpl. exists (bucket_of (self t) id), b'. split; [apply nth_error_upd_same; auto|].
    rewrite <- RS2. sb. eapply nth_error_In. eapply nth_error_set_at_same; eauto.
Qed.

Theorem pol_failed_holds t o t' : Inv t -> step t o = Some t' -> pol_failed_credit_b t o t' = true /\ pol_failed_gone_b t o t' = true.
Proof.
  intros HI Hs. unfold pol_failed_credit_b, pol_failed_gone_b, failed_target.
  destruct o; auto. destruct responded; auto.
  destruct (find (fun a : N * bool => fst a =? id) (active (gl t))) as [[aid att]|] eqn:Hf; auto. destruct att; auto.
  destruct (find_entry t id) as [e|] eqn:FE; auto. unfold find_entry in FE. apply find_some in FE. destruct FE as [He Hid]. apply N.eqb_eq in Hid.
  destruct (failed_check_divides_credit t id newrec pick t' e aid HI Hs Hf He Hid) as [Z NZ].
  destruct (step_inv t (RevalResp id false newrec pick) HI I) as (t'' & E & HI'). rewrite Hs in E. inversion E; subst t''. clear E.
  destruct (checks e / 3 =? 0) eqn:CZ.
  - apply N.eqb_eq in CZ. split; auto. apply negb_true_iff. destruct (mem_N (eid e) (entry_ids t')) eqn:M; auto.
    apply mem_N_in in M. rewrite Hid in M. exfalso. apply (Z CZ); auto.
  - apply N.eqb_neq in CZ. split; auto. destruct (NZ CZ) as (e' & He' & Hid' & Hc & _).
    apply all_ents_in in He'. destruct He' as (j & b & Hj & Hb).
    rewrite Hid, <- Hid'. rewrite (find_entry_unique t' j b e' HI' Hj Hb). apply N.eqb_eq. exact Hc.
Qed.

(* ================================================================ 21. activeReq = requests started and not yet answered *)

Lemma aids_set_tips g ts : aids (set_tips g ts) = aids g.
Proof. reflexivity. Qed.
Lemma aids_rlist_set g l v : aids (rlist_set g l v) = aids g.
Proof. destruct l; reflexivity. Qed.
Lemma aids_mark a id : map fst (mark_detached a id) = map fst a.
Proof. unfold mark_detached. rewrite map_map. apply map_ext. intros [i b]. simpl. destruct (i =? id); reflexivity. Qed.

Lemma aids_move g dest e g' e' : move_to_list g dest e = Some (g', e') -> aids g' = aids g.
Proof.
  unfold move_to_list, rl_remove, rl_push. destruct (rl e) as [l|].
  - destruct (rlist_eqb l dest); [intros X; inversion X; auto|].
    destruct (find_ent _ _) as [[i x]|]; [|discriminate]. intros X; inversion X. rewrite !aids_rlist_set. reflexivity.
  - intros X; inversion X. apply aids_rlist_set.
Qed.
Lemma aids_node_removed g e g' : node_removed g e = Some g' -> aids g' = aids g.
Proof.
  unfold node_removed, rl_remove. destruct (rl e) as [l|]; [|discriminate].
  destruct (find_ent _ _) as [[i x]|]; [|discriminate]. intros X; inversion X. unfold aids. simpl.
  rewrite aids_mark. destruct l; reflexivity.
Qed.
Lemma aids_add_ip g b ip g' b' ok : add_ip g b ip = (g', b', ok) -> aids g' = aids g.
Proof. unfold add_ip. destruct (add_ip_s _ _ _) as [[ts bs] o]. intros X; inversion X. reflexivity. Qed.
Lemma aids_remove_ip g b ip g' b' : remove_ip g b ip = (g', b') -> aids g' = aids g.
Proof. unfold remove_ip. destruct (remove_ip_s _ _ _) as [ts bs]. intros X; inversion X. reflexivity. Qed.
Lemma aids_swap_ip g b old new g' b' f : swap_ip g b old new = (g', b', f) -> aids g' = aids g.
Proof.
  unfold swap_ip. destruct (remove_ip g b old) as [g0 b0] eqn:E0. destruct (add_ip g0 b0 new) as [[g1 b1] ok] eqn:E1.
  pose proof (aids_remove_ip _ _ _ _ _ E0). pose proof (aids_add_ip _ _ _ _ _ _ E1).
  destruct ok; [intros X; inversion X; subst; congruence|].
  destruct (add_ip g1 b1 old) as [[g2 b2] ok2] eqn:E2. pose proof (aids_add_ip _ _ _ _ _ _ E2). intros X; inversion X; subst; congruence.
Qed.

Lemma aids_bump g b nr inb g' b' fd ec : bump_in_bucket g b nr inb = Some (g', b', fd, ec) -> aids g' = aids g.
Proof.
  unfold bump_in_bucket. destruct (find_ent _ (ents b)) as [[i n]|]; [|intros X; inversion X; auto].
  destruct (_ && negb inb); [intros X; inversion X; auto|].
  destruct (if negb (nip nr =? nip (nd n)) then _ else _) as [[g1 b1] fits] eqn:PH.
  assert (A1 : aids g1 = aids g).
  { destruct (negb (nip nr =? nip (nd n))); [eapply aids_swap_ip; eauto|inversion PH; auto]. }
  destruct fits; simpl negb; cbv iota; [|intros X; inversion X; subst; auto].
  destruct (_ || _).
  - destruct (move_to_list g1 Fast _) as [[g2 n2]|] eqn:MV; [|discriminate]. apply aids_move in MV. intros X; inversion X; subst. congruence.
  - intros X; inversion X; subst; auto.
Qed.

Lemma aids_add_replacement g b n g' b' : add_replacement g b n = Some (g', b') -> aids g' = aids g.
Proof.
  unfold add_replacement. destruct (existsb _ _); [intros X; inversion X; auto|].
  destruct (add_ip g b (nip n)) as [[g1 b1] ok] eqn:AI. pose proof (aids_add_ip _ _ _ _ _ _ AI).
  destruct ok; simpl negb; cbv iota; [|intros X; inversion X; subst; auto].
  destruct (push_node _ _ _) as [[l removed]|]; [|discriminate]. destruct removed as [r|]; [|intros X; inversion X; subst; auto].
  destruct (remove_ip g1 (set_reps b1 l) (nip (nd r))) as [g3 b3] eqn:RI. pose proof (aids_remove_ip _ _ _ _ _ RI).
  intros X; inversion X; subst. congruence.
Qed.

Lemma aids_add_node_b n inb force g b g' b' : add_node_b n inb force g b = Some (g', b') -> aids g' = aids g.
Proof.
  unfold add_node_b. destruct (bump_in_bucket g b n inb) as [[[[g1 b1] fd] ec]|] eqn:BP; [|discriminate].
  pose proof (aids_bump _ _ _ _ _ _ _ _ BP). destruct fd; [intros X; inversion X; subst; auto|].
  destruct (K_bucketSize <=? nlen (ents b1)); [intros AR; apply aids_add_replacement in AR; congruence|].
  destruct (add_ip g1 b1 (nip n)) as [[g2 b2] ok] eqn:AI. pose proof (aids_add_ip _ _ _ _ _ _ AI).
  destruct ok; simpl negb; cbv iota; [|intros X; inversion X; subst; congruence].
  unfold rl_push. intros X; inversion X. change (aids g2 = aids g). congruence.
Qed.

Lemma aids_delete id pick g b g' b' : delete_in_bucket id pick g b = Some (g', b') -> aids g' = aids g.
Proof.
  unfold delete_in_bucket. destruct (find_ent _ (ents b)) as [[i n]|]; [|intros X; inversion X; auto].
  destruct (remove_ip g _ (nip (nd n))) as [g1 b2] eqn:RI. pose proof (aids_remove_ip _ _ _ _ _ RI).
  destruct (node_removed g1 n) as [g2|] eqn:NR; [|discriminate]. pose proof (aids_node_removed _ _ _ NR).
  destruct (reps b2); [intros X; inversion X; subst; congruence|].
  destruct (nth_error _ _); [|discriminate]. unfold rl_push. intros X; inversion X. change (aids g2 = aids g). congruence.
Qed.

Lemma aids_resp id resp nr pick g b g' b' : handle_response_b id resp nr pick g b = Some (g', b') -> aids g' = aids g.
Proof.
  unfold handle_response_b. destruct (find_ent _ (ents b)) as [[i n]|]; [|discriminate].
  destruct (rl n); [|intros X; inversion X; auto]. destruct resp; simpl negb; cbv iota.
  - destruct (match nr with None => _ | Some r => _ end) as [[[g2 b2] ec]|] eqn:BP; [|discriminate].
    assert (A2 : aids g2 = aids g).
    { destruct nr as [r0|]; [|inversion BP; auto].
      destruct (bump_in_bucket g _ r0 false) as [[[[g3 b3] fd] ec3]|] eqn:B3; [|discriminate]. inversion BP; subst. eapply aids_bump; eauto. }
    destruct ec; [intros X; inversion X; subst; auto|].
    destruct (nth_error (ents b2) i); [|discriminate].
    destruct (move_to_list g2 Slow _) as [[g3 n3]|] eqn:MV; [|discriminate]. apply aids_move in MV. intros X; inversion X; subst. congruence.
  - destruct (_ =? 0); [apply aids_delete|].
    destruct (move_to_list g Fast _) as [[g3 n3]|] eqn:MV; [|discriminate]. apply aids_move in MV. intros X; inversion X; subst. auto.
Qed.

Lemma aids_with_bucket t i f t' :
  (forall g b g' b', f g b = Some (g', b') -> aids g' = aids g) -> with_bucket t i f = Some t' -> aids (gl t') = aids (gl t).
Proof. intros Hf H. apply with_bucket_shape in H. destruct H as (b & g' & b' & _ & E & ->). simpl. eapply Hf; eauto. Qed.

Lemma aids_handle_add t n inb f t' : handle_add_node t n inb f = Some t' -> aids (gl t') = aids (gl t).
Proof.
  unfold handle_add_node. destruct (nid n =? self t); [intros X; inversion X; auto|].
  destruct (inb && negb (initd t)); [intros X; inversion X; auto|].
  apply aids_with_bucket. intros. eapply aids_add_node_b; eauto.
Qed.
Lemma aids_add_all ns : forall t t', add_all t ns = Some t' -> aids (gl t') = aids (gl t).
Proof.
  induction ns as [|n ns IH]; simpl; intros t t' H; [inversion H; auto|].
  destruct (handle_add_node t n false false) as [t1|] eqn:E; [|discriminate]. rewrite (IH _ _ H). eapply aids_handle_add; eauto.
Qed.

Lemma list_eqb_N_eq l l' : l = l' -> list_eqb N.eqb l l' = true.
Proof. intros ->. apply list_eqb_N_refl. Qed.

(* an answer removes its id - also when the node is no longer in the table; a run only adds ids of the two lists
   that were not active; nothing else changes the set *)
Theorem active_is_in_flight t o t' : step t o = Some t' ->
  match o with
  | RevalResp id _ _ _ => aids (gl t') = filter (fun x => negb (x =? id)) (aids (gl t))
  | RevalRun _ _ _ =>
      (forall x, In x (aids (gl t)) -> In x (aids (gl t'))) /\
      (forall x, In x (aids (gl t')) -> In x (aids (gl t)) \/ In x (fast (gl t) ++ slow (gl t)))
  | _ => aids (gl t') = aids (gl t)
  end.
Proof.
  destruct o; simpl; intros H.
  - inversion H; auto.
  - eapply aids_handle_add; eauto.
  - eapply aids_handle_add; eauto.
  - eapply aids_add_all; eauto.
  - unfold delete_node in H. eapply aids_with_bucket; eauto. intros. eapply aids_delete; eauto.
  - unfold reval_run in H.
    assert (RL : forall g l due ps g' r, reval_list g l due ps = Some (g', r) ->
              fast g' = fast g /\ slow g' = slow g /\
              (aids g' = aids g \/ exists x, aids g' = x :: aids g /\ In x (rlist_get g l))).
    { intros g l due ps g' r. unfold reval_list. destruct due; [|intros X; inversion X; auto].
      destruct (get g l ps) as [[[x|] r0]|] eqn:G; [| intros X; inversion X; auto | discriminate].
      unfold start_request. destruct (is_active (active g) x); [discriminate|]. intros X; inversion X. simpl.
      split; auto. split; auto. right. exists x. split; auto.
      unfold get in G. destruct (rlist_get g l) as [|y ys] eqn:EL; [inversion G|]. apply rl_get_spec in G. apply G. }
    destruct (reval_list (gl t) Fast due_fast picks) as [[g1 r1]|] eqn:E1; [|discriminate].
    destruct (reval_list g1 Slow due_slow r1) as [[g2 r2]|] eqn:E2; [|discriminate]. inversion H; subst t'. simpl.
    destruct (RL _ _ _ _ _ _ E1) as (F1 & S1 & A1). destruct (RL _ _ _ _ _ _ E2) as (F2 & S2 & A2). simpl in A1, A2.
    split.
    + intros x Hx. destruct A2 as [->|(y & -> & _)]; [|right]; destruct A1 as [->|(z & -> & _)]; simpl; auto.
    + intros x Hx. rewrite in_app_iff.
      assert (X1 : In x (aids g1) \/ In x (slow (gl t))).
      { destruct A2 as [E|(y & E & Hy)]; rewrite E in Hx; auto. destruct Hx as [<-|Hx]; auto. right. rewrite <- S1. exact Hy. }
      destruct X1 as [X1|X1]; auto. destruct A1 as [E|(z & E & Hz)]; rewrite E in X1; auto. destruct X1 as [<-|X1]; auto.
  - unfold handle_response in H. destruct (find (fun a => fst a =? id) (active (gl t))) as [[id' att]|] eqn:Fd.
    + assert (FA : aids (set_active (gl t) (filter (fun a : N * bool => negb (fst a =? id)) (active (gl t)))) = filter (fun x => negb (x =? id)) (aids (gl t))).
      { unfold aids. simpl. generalize (active (gl t)). induction l as [|[i b] l IH]; simpl; auto. destruct (negb (i =? id)); simpl; rewrite IH; auto. }
      destruct att; simpl negb in H; cbv iota in H; [|inversion H; subst; simpl; exact FA].
      rewrite <- FA. eapply (aids_with_bucket (set_gl t _)); eauto. intros. eapply aids_resp; eauto.
    + inversion H; subst. symmetry. apply filter_all. intros x Hx. apply negb_true_iff, N.eqb_neq. intros ->.
      unfold aids in Hx. apply in_map_iff in Hx. destruct Hx as ([i b] & E & Hin). simpl in E. subst i.
      pose proof (find_none _ _ Fd _ Hin) as X. simpl in X. rewrite N.eqb_refl in X. discriminate.
  - unfold track in H. destruct (nth_error _ _) as [b|]; [|discriminate].
    destruct (_ && _).
    + destruct (with_bucket _ _ _) as [t2|] eqn:WB; [|discriminate]. rewrite (aids_add_all _ _ _ H).
      eapply (aids_with_bucket _ _ _ t2) in WB; [exact WB|]. intros. eapply aids_delete; eauto.
    + rewrite (aids_add_all _ _ _ H). reflexivity.
Qed.

Theorem pol_active_holds t o t' : step t o = Some t' -> pol_active_b t o t' = true.
Proof.
  intros Hs. pose proof (active_is_in_flight t o t' Hs) as A. unfold pol_active_b.
  destruct o; try (apply list_eqb_N_eq; exact A).
  destruct A as [A1 A2]. apply andb_true_iff. split; apply forallb_forall; intros x Hx.
  - apply mem_N_in. auto.
  - destruct (A2 x Hx) as [H|H]; apply orb_true_iff; [left|right]; apply mem_N_in; auto.
Qed.
