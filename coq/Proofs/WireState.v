(* Proofs/WireState.v : theorems about Model/WireState.v (C14, state-network types and the ztyp beacon key). *)
From Shisui Require Import Base.Bytes Base.Arith Base.Ssz Model.Wire Model.WireState Proofs.Ssz Proofs.Ztyp Proofs.Wire.
From Coq Require Import ZifyBool ZifyN ZifyNat.
Ltac Zify.zify_post_hook ::= Z.div_mod_to_equations.
Local Arguments N.add : simpl never.
Local Arguments N.sub : simpl never.
Local Arguments N.mul : simpl never.
Local Arguments N.ltb : simpl never.
Local Arguments N.leb : simpl never.
Local Arguments N.eqb : simpl never.
Local Arguments N.of_nat : simpl never.
Local Arguments N.to_nat : simpl never.
Local Arguments N.modulo : simpl never.
Local Arguments N.div : simpl never.
Local Arguments N.lor : simpl never.
Local Arguments N.land : simpl never.
Local Arguments N.shiftr : simpl never.
Local Arguments N.shiftl : simpl never.

(* ================================================================== fixed-size ztyp content keys *)
Lemma dec_HistSummariesKey_spec s data :
  dec_HistSummariesKey s data =
  if s && negb (nlen data =? 8) then Err E_STRICT
  else if nlen data <? 8 then Err E_SCOPE else Ok (le_dec (firstn 8 data)).
Proof.
  unfold dec_HistSummariesKey. destruct (s && negb (nlen data =? 8)); [reflexivity|].
  rewrite rd_read_spec by lia. unfold rd_new. cbn [rd_max rd_i rd_inp].
  replace (nlen data <? 0 + 8) with (nlen data <? 8) by (f_equal; lia).
  destruct (nlen data <? 8) eqn:E; [reflexivity|]. reflexivity.
Qed.

Lemma HistSummariesKey_roundtrip s v : v < two64 -> dec_HistSummariesKey s (u64_enc v) = Ok v.
Proof.
  intros H. rewrite dec_HistSummariesKey_spec. unfold u64_enc. rewrite nlen_le_enc.
  change (N.of_nat 8 =? 8) with true. cbn [negb]. rewrite andb_false_r. change (N.of_nat 8 <? 8) with false. cbv iota.
  rewrite firstn_all2 by (rewrite le_enc_length; lia). now rewrite le_dec_enc.
Qed.
Lemma HistSummariesKey_inv s b v : dec_HistSummariesKey s b = Ok v -> v < two64 /\ firstn 8 b = u64_enc v /\ (s = true -> nlen b = 8).
Proof.
  rewrite dec_HistSummariesKey_spec. destruct (s && negb (nlen b =? 8)) eqn:Es; [discriminate|].
  destruct (nlen b <? 8) eqn:E; [discriminate|]. intros H; apply Ok_inj in H. subst v.
  assert (L : length (firstn 8 b) = 8%nat) by (rewrite firstn_length; unfold nlen in E; lia).
  split; [|split].
  - pose proof (le_dec_lt (firstn 8 b)) as B. rewrite L in B. exact B.
  - unfold u64_enc. symmetry. now apply le_enc_of_dec.
  - intros ->. cbn [andb] in Es. lia.
Qed.
Lemma HistSummariesKey_codec_lax : codec_lax_ok enc_HistSummariesKey (dec_HistSummariesKey false) LcSlotKey_wf (fun _ => True).
Proof.
  split; [|split].
  - intros v Hw _. exists (u64_enc v). split; [reflexivity|now apply HistSummariesKey_roundtrip].
  - intros v _ H. exfalso. now apply H.
  - intros b v H. apply HistSummariesKey_inv in H. split; [apply H|exact I].
Qed.
Lemma HistSummariesKey_codec_strict : codec_ok enc_HistSummariesKey (dec_HistSummariesKey true) LcSlotKey_wf (fun _ => True).
Proof.
  split; [|split; [|split]].
  - intros v Hw _. exists (u64_enc v). split; [reflexivity|now apply HistSummariesKey_roundtrip].
  - intros v _ H. exfalso. now apply H.
  - intros b v H. apply HistSummariesKey_inv in H. split; [apply H|exact I].
  - intros b v H. apply HistSummariesKey_inv in H as (_ & Hf & Hn). specialize (Hn eq_refl).
    rewrite firstn_all2 in Hf by (unfold nlen in Hn; lia). unfold enc_HistSummariesKey. now rewrite Hf.
Qed.
Lemma HistSummariesKey_canonicity_refuted : ~ canonical (dec_HistSummariesKey false) enc_HistSummariesKey.
Proof. intros H. specialize (H (repeat x00 9) 0 eq_refl). vm_compute in H. discriminate. Qed.

Lemma dec_BytecodeKey_spec s data :
  dec_BytecodeKey s data =
  if s && negb (nlen data =? 64) then Err E_STRICT
  else if nlen data <? 32 then Err E_SCOPE
  else if nlen data <? 64 then Err E_SCOPE
  else Ok (firstn 32 data, firstn 32 (skipn 32 data)).
Proof.
  unfold dec_BytecodeKey. destruct (s && negb (nlen data =? 64)); [reflexivity|].
  unfold z_unmarshal, z_fixed_container, z_bytesN, z_de.
  rewrite rd_read_spec by lia. unfold rd_new. cbn [rd_max rd_i rd_inp].
  replace (nlen data <? 0 + 32) with (nlen data <? 32) by (f_equal; lia).
  destruct (nlen data <? 32) eqn:E1; [reflexivity|]. cbn [bind].
  rewrite rd_read_spec by lia. cbn [rd_max rd_i rd_inp].
  replace (nlen data <? 0 + 32 + 32) with (nlen data <? 64) by (f_equal; lia).
  destruct (nlen data <? 64) eqn:E2; [reflexivity|].
  rewrite nlen_skipn. replace (nlen data - 32 <? 32) with false by lia. cbn [bind andb].
  change (N.to_nat 32) with 32%nat. reflexivity.
Qed.

Definition BytecodeKey_wf (v : bytes * bytes) : Prop := nlen (fst v) = 32 /\ nlen (snd v) = 32.
Lemma enc_BytecodeKey_layout v : enc_BytecodeKey v = Ok (fst v ++ snd v).
Proof. destruct v as [a c]. unfold enc_BytecodeKey, zs_fixed_container. cbn [map concat s_bytes fst snd]. now rewrite app_nil_r. Qed.
Lemma BytecodeKey_roundtrip s v : BytecodeKey_wf v -> dec_BytecodeKey s (fst v ++ snd v) = Ok v.
Proof.
  destruct v as [a c]. intros [H1 H2]. cbn [fst snd] in *. rewrite dec_BytecodeKey_spec, nlen_app.
  replace (nlen a + nlen c =? 64) with true by lia. cbn [negb]. rewrite andb_false_r.
  replace (nlen a + nlen c <? 32) with false by lia. replace (nlen a + nlen c <? 64) with false by lia.
  rewrite (firstn_app_exact a c 32), (skipn_app_exact a c 32) by (unfold nlen in H1; lia).
  rewrite firstn_all2 by (unfold nlen in H2; lia). reflexivity.
Qed.
Lemma BytecodeKey_inv s b v : dec_BytecodeKey s b = Ok v -> BytecodeKey_wf v /\ firstn 64 b = fst v ++ snd v /\ (s = true -> nlen b = 64).
Proof.
  rewrite dec_BytecodeKey_spec. destruct (s && negb (nlen b =? 64)) eqn:Es; [discriminate|].
  destruct (nlen b <? 32) eqn:E1; [discriminate|]. destruct (nlen b <? 64) eqn:E2; [discriminate|].
  intros H; apply Ok_inj in H. subst v. unfold BytecodeKey_wf. cbn [fst snd].
  split; [split|split].
  - unfold nlen in *. rewrite firstn_length. lia.
  - unfold nlen in *. rewrite firstn_length, skipn_length. lia.
  - rewrite <- (firstn_skipn 32 b) at 1. rewrite firstn_app, firstn_firstn, firstn_length.
    replace (Nat.min 64 32) with 32%nat by reflexivity.
    replace (64 - Nat.min 32 (length b))%nat with 32%nat by (unfold nlen in E1; lia). reflexivity.
  - intros ->. cbn [andb] in Es. lia.
Qed.
Lemma BytecodeKey_codec_lax : codec_lax_ok enc_BytecodeKey (dec_BytecodeKey false) BytecodeKey_wf (fun _ => True).
Proof.
  split; [|split].
  - intros v Hw _. exists (fst v ++ snd v). split; [apply enc_BytecodeKey_layout|now apply BytecodeKey_roundtrip].
  - intros v _ H. exfalso. now apply H.
  - intros b v H. apply BytecodeKey_inv in H. split; [apply H|exact I].
Qed.
Lemma BytecodeKey_codec_strict : codec_ok enc_BytecodeKey (dec_BytecodeKey true) BytecodeKey_wf (fun _ => True).
Proof.
  split; [|split; [|split]].
  - intros v Hw _. exists (fst v ++ snd v). split; [apply enc_BytecodeKey_layout|now apply BytecodeKey_roundtrip].
  - intros v _ H. exfalso. now apply H.
  - intros b v H. apply BytecodeKey_inv in H. split; [apply H|exact I].
  - intros b v H. apply BytecodeKey_inv in H as (_ & Hf & Hn). specialize (Hn eq_refl).
    rewrite firstn_all2 in Hf by (unfold nlen in Hn; lia). rewrite Hf. apply enc_BytecodeKey_layout.
Qed.
Lemma BytecodeKey_canonicity_refuted : ~ canonical (dec_BytecodeKey false) enc_BytecodeKey.
Proof. intros H. specialize (H (repeat x07 65) (repeat x07 32, repeat x07 32) eq_refl). vm_compute in H. discriminate. Qed.

Lemma dec_HistSummariesKey_total s b : dec_HistSummariesKey s b <> Panic.
Proof. rewrite dec_HistSummariesKey_spec. np. Qed.
Lemma dec_BytecodeKey_total s b : dec_BytecodeKey s b <> Panic.
Proof. rewrite dec_BytecodeKey_spec. np. Qed.

(* ================================================================== Nibbles *)
Definition nib (x : byte) : Prop := b2n x < 16.

Lemma shiftr4 v : N.shiftr v 4 = v / 16.
Proof. now rewrite N.shiftr_div_pow2. Qed.
Lemma land15 v : N.land v 15 = v mod 16.
Proof. change 15 with (N.ones 4). now rewrite N.land_ones. Qed.

Lemma pack_val a b : nib a -> nib b -> b2n (pack_pair a b) = b2n a * 16 + b2n b.
Proof.
  unfold nib, pack_pair. intros Ha Hb. rewrite (N.mod_small (b2n a * 16)) by lia.
  rewrite N.lor_comm. replace (b2n a * 16) with (N.shiftl (b2n a) 4) by (rewrite N.shiftl_mul_pow2; reflexivity).
  rewrite lor_add_shiftl by (simpl; lia). rewrite N.shiftl_mul_pow2. change (2 ^ 4) with 16. rewrite b2n_n2b_small by lia. lia.
Qed.
Lemma unpack_pack a b : nib a -> nib b -> unpack_pairs [pack_pair a b] = [a; b].
Proof.
  intros Ha Hb. cbn [unpack_pairs flat_map app]. rewrite shiftr4, land15, (pack_val a b Ha Hb). unfold nib in *.
  replace ((b2n a * 16 + b2n b) / 16) with (b2n a) by lia. replace ((b2n a * 16 + b2n b) mod 16) with (b2n b) by lia.
  now rewrite !n2b_b2n.
Qed.
Lemma unpack_nib x : nib (n2b (N.shiftr (b2n x) 4)) /\ nib (n2b (N.land (b2n x) 15)).
Proof.
  unfold nib. pose proof (b2n_lt x). rewrite shiftr4, land15. rewrite !b2n_n2b_small by lia. lia.
Qed.
Lemma pack_unpack x : pack_pair (n2b (N.shiftr (b2n x) 4)) (n2b (N.land (b2n x) 15)) = x.
Proof.
  destruct (unpack_nib x) as [H1 H2]. apply b2n_inj. rewrite (pack_val _ _ H1 H2). pose proof (b2n_lt x).
  rewrite shiftr4, land15, !b2n_n2b_small by lia. lia.
Qed.

Lemma unpack_pairs_cons x l : unpack_pairs (x :: l) = n2b (N.shiftr (b2n x) 4) :: n2b (N.land (b2n x) 15) :: unpack_pairs l.
Proof. reflexivity. Qed.
Lemma unpack_pairs_nib l : Forall nib (unpack_pairs l).
Proof. induction l as [|x l IH]; [constructor|]. rewrite unpack_pairs_cons. destruct (unpack_nib x). repeat constructor; assumption. Qed.
Lemma unpack_pairs_len l : length (unpack_pairs l) = (2 * length l)%nat.
Proof. induction l as [|x l IH]; [reflexivity|]. rewrite unpack_pairs_cons. simpl length. lia. Qed.
Lemma pack_unpack_pairs l : pack_pairs (unpack_pairs l) = Ok l.
Proof. induction l as [|x l IH]; [reflexivity|]. rewrite unpack_pairs_cons. cbn [pack_pairs]. rewrite IH. cbn [bind]. now rewrite pack_unpack. Qed.

Lemma pack_pairs_inv : forall k l p, (length l <= k)%nat -> Forall nib l -> pack_pairs l = Ok p -> unpack_pairs p = l /\ length l = (2 * length p)%nat.
Proof.
  induction k as [|k IH]; intros l p Hk Hn H.
  - destruct l; [|simpl in Hk; lia]. cbn in H. apply Ok_inj in H. subst. split; reflexivity.
  - destruct l as [|a [|b l]]; cbn [pack_pairs] in H.
    + apply Ok_inj in H. subst. split; reflexivity.
    + discriminate.
    + destruct (pack_pairs l) as [t| |] eqn:Et; cbn [bind] in H; try discriminate. apply Ok_inj in H. subst p.
      pose proof (Forall_inv Hn) as Ha. pose proof (Forall_inv (Forall_inv_tail Hn)) as Hb.
      destruct (IH l t ltac:(simpl in Hk; lia) (Forall_inv_tail (Forall_inv_tail Hn)) Et) as [I1 I2].
      split; [|simpl; lia]. change (pack_pair a b :: t) with ([pack_pair a b] ++ t).
      unfold unpack_pairs. rewrite flat_map_app. fold (unpack_pairs [pack_pair a b]). fold (unpack_pairs t).
      rewrite (unpack_pack a b Ha Hb), I1. reflexivity.
Qed.
Lemma pack_pairs_even : forall k l, (length l <= k)%nat -> Nat.even (length l) = true -> exists p, pack_pairs l = Ok p.
Proof.
  induction k as [|k IH]; intros l Hk He.
  - destruct l; [eexists; reflexivity|simpl in Hk; lia].
  - destruct l as [|a [|b l]]; [eexists; reflexivity|discriminate He|].
    cbn [pack_pairs]. destruct (IH l ltac:(simpl in Hk; lia) He) as [p Hp]. rewrite Hp. eexists; reflexivity.
Qed.

Lemma lor16 F : F < 16 -> N.lor 16 F = 16 + F.
Proof.
  intros H. rewrite N.lor_comm. replace 16 with (N.shiftl 1 4) at 1 by reflexivity.
  rewrite lor_add_shiftl by (change (2 ^ 4) with 16; lia). change (2 ^ 4) with 16. lia.
Qed.

Definition nib_head (fb : byte) : res bytes :=
  let flag := N.shiftr (b2n fb) 4 in let first := N.land (b2n fb) 15 in
  if flag =? 0 then (if first =? 0 then Ok [] else Err E_SELECTOR)
  else if flag =? 1 then Ok [n2b first] else Err E_SELECTOR.

Lemma cd_nibbles s : cd_of z_nibbles s =
  match s with
  | [] => Err E_SCOPE
  | fb :: packed => bind (nib_head fb) (fun h =>
      if L_Nibbles <? nlen (h ++ unpack_pairs packed) then Err E_LISTBIG else Ok (FB (h ++ unpack_pairs packed)))
  end.
Proof.
  unfold cd_of. cbn [z_de z_nibbles]. destruct s as [|fb packed].
  - reflexivity.
  - rewrite rd_read_fwd by (cbn [rd_i rd_max rd_inp]; rewrite ?nlen_cons; lia). cbn [bind rd_inp rd_i rd_max].
    change (N.to_nat 1) with 1%nat. cbn [firstn skipn]. unfold rd_scope. cbn [rd_max rd_i].
    rewrite rd_read_fwd by (cbn [rd_i rd_max rd_inp]; rewrite ?nlen_cons; lia). cbn [bind rd_inp].
    replace (N.to_nat (nlen (fb :: packed) - (0 + 1))) with (length packed) by (rewrite nlen_cons; unfold nlen; lia).
    rewrite firstn_all. unfold nib_head.
    destruct (N.shiftr (b2n fb) 4 =? 0); [destruct (N.land (b2n fb) 15 =? 0); cbn [bind]; [|reflexivity]|
      destruct (N.shiftr (b2n fb) 4 =? 1); cbn [bind]; [|reflexivity]];
    destruct (L_Nibbles <? _); reflexivity.
Qed.

Lemma exact_nibbles : exact z_nibbles.
Proof.
  intros s c v sub' Hl _ H. cbn [z_de z_nibbles] in H.
  destruct (rd_read _ 1) as [[fb r1]| |] eqn:E1; cbn [bind] in H; try discriminate.
  destruct (rd_read r1 (rd_scope r1)) as [[packed r2]| |] eqn:E2; cbn [bind] in H; try discriminate.
  apply rd_read_inv in E1 as (A1 & A2 & A3 & A4 & A5 & _). apply rd_read_inv in E2 as (B1 & B2 & B3 & B4 & B5 & _).
  cbn [rd_inp rd_i rd_max] in *. unfold rd_scope in *. rewrite A4, A5 in *.
  assert (Hr2 : rd_inp r2 = [] /\ nlen s = c).
  { rewrite A3, nlen_skipn in B1. split; [|lia]. rewrite B3, A3. apply skipn_all2. rewrite skipn_length. unfold nlen in *. lia. }
  destruct Hr2 as [Hr2 Hn].
  destruct fb as [|x [|? ?]]; try discriminate.
  destruct (N.shiftr (b2n x) 4 =? 0); [destruct (N.land (b2n x) 15 =? 0); cbn [bind] in H; [|discriminate]|
    destruct (N.shiftr (b2n x) 4 =? 1); cbn [bind] in H; [|discriminate]];
  (destruct (L_Nibbles <? _); [discriminate|]; apply Ok_inj in H; injection H as _ <-; split; assumption).
Qed.

Lemma total_nibbles : total z_nibbles.
Proof.
  intros r. cbn [z_de z_nibbles].
  destruct (rd_read r 1) as [[fb r1]| |] eqn:E1; cbn [bind]; try discriminate; [|now apply rd_read_total in E1].
  destruct (rd_read r1 (rd_scope r1)) as [[packed r2]| |] eqn:E2; cbn [bind]; try discriminate; [|now apply rd_read_total in E2].
  apply rd_read_inv in E1 as (A1 & A2 & _). change (N.to_nat 1) with 1%nat in A2.
  destruct (rd_inp r) as [|x inp]; [unfold nlen in A1; simpl in A1; lia|]. cbn [firstn] in A2. subst fb.
  destruct (N.shiftr (b2n x) 4 =? 0); [destruct (N.land (b2n x) 15 =? 0); cbn [bind]; [|discriminate]|
    destruct (N.shiftr (b2n x) 4 =? 1); cbn [bind]; [|discriminate]]; destruct (L_Nibbles <? _); discriminate.
Qed.

Definition Nibbles_ok (n : bytes) : Prop := Forall nib n /\ nlen n <= L_Nibbles.

Lemma byte_split x : b2n x = N.shiftr (b2n x) 4 * 16 + N.land (b2n x) 15.
Proof. rewrite shiftr4, land15. pose proof (N.div_mod (b2n x) 16). lia. Qed.

Lemma ser_Nibbles_dec n s : Forall nib n -> ser_Nibbles n = Ok s ->
  exists fb packed, s = fb :: packed /\ exists h, nib_head fb = Ok h /\ h ++ unpack_pairs packed = n.
Proof.
  intros Hn. unfold ser_Nibbles. destruct (Nat.even (length n)) eqn:Ev.
  - destruct (pack_pairs n) as [p| |] eqn:Ep; cbn [bind]; try discriminate. intros H; apply Ok_inj in H. subst s.
    exists x00, p. split; [reflexivity|]. exists []. split; [reflexivity|]. cbn [app].
    exact (proj1 (pack_pairs_inv _ _ _ (le_n _) Hn Ep)).
  - destruct n as [|f rest]; [discriminate|].
    destruct (pack_pairs rest) as [p| |] eqn:Ep; cbn [bind]; try discriminate. intros H; apply Ok_inj in H. subst s.
    pose proof (Forall_inv Hn) as Hf. unfold nib in Hf.
    exists (n2b (N.lor 16 (b2n f))), p. split; [reflexivity|]. exists [f]. split.
    + unfold nib_head. assert (Hv : b2n (n2b (N.lor 16 (b2n f))) = 16 + b2n f).
      { rewrite lor16 by exact Hf. rewrite b2n_n2b_small; lia. }
      rewrite Hv, shiftr4, land15. replace ((16 + b2n f) / 16) with 1 by lia. replace ((16 + b2n f) mod 16) with (b2n f) by lia.
      change (1 =? 0) with false. change (1 =? 1) with true. cbv iota. now rewrite n2b_b2n.
    + cbn [app]. f_equal. exact (proj1 (pack_pairs_inv _ _ _ (le_n _) (Forall_inv_tail Hn) Ep)).
Qed.

Lemma nib_head_ser fb packed h : nib_head fb = Ok h -> ser_Nibbles (h ++ unpack_pairs packed) = Ok (fb :: packed) /\ Forall nib (h ++ unpack_pairs packed).
Proof.
  unfold nib_head. pose proof (byte_split fb) as Hb. pose proof (unpack_pairs_nib packed) as Hu.
  destruct (N.shiftr (b2n fb) 4 =? 0) eqn:E0.
  - destruct (N.land (b2n fb) 15 =? 0) eqn:E1; [|discriminate]. intros H; apply Ok_inj in H. subst h. cbn [app].
    split; [|exact Hu]. unfold ser_Nibbles. rewrite unpack_pairs_len.
    replace (Nat.even (2 * length packed)) with true by (symmetry; apply Nat.even_spec; exists (length packed); lia).
    rewrite pack_unpack_pairs. cbn [bind]. f_equal. f_equal. apply b2n_inj. change (b2n x00) with 0. lia.
  - destruct (N.shiftr (b2n fb) 4 =? 1) eqn:E1; [|discriminate]. intros H; apply Ok_inj in H. subst h.
    assert (Hf : N.land (b2n fb) 15 < 16) by (rewrite land15; lia).
    split; [|constructor; [unfold nib; rewrite b2n_n2b_small by lia; exact Hf|exact Hu]].
    unfold ser_Nibbles. cbn [app length]. rewrite unpack_pairs_len.
    replace (Nat.even (S (2 * length packed))) with false.
    2:{ symmetry. rewrite <- Nat.negb_odd. apply negb_false_iff. apply Nat.odd_spec. exists (length packed). lia. }
    rewrite pack_unpack_pairs. cbn [bind]. f_equal. f_equal. apply b2n_inj.
    rewrite (b2n_n2b_small (N.land (b2n fb) 15)) by lia. rewrite lor16 by exact Hf. rewrite b2n_n2b_small by lia. lia.
Qed.

Lemma cd_nibbles_fwd n : Nibbles_ok n -> exists s, ser_Nibbles n = Ok s /\ cd_of z_nibbles s = Ok (FB n).
Proof.
  intros [Hn Hl]. assert (exists s, ser_Nibbles n = Ok s) as [s Hs].
  { unfold ser_Nibbles. destruct (Nat.even (length n)) eqn:Ev.
    - destruct (pack_pairs_even _ n (le_n _) Ev) as [p Hp]. rewrite Hp. eexists; reflexivity.
    - destruct n as [|f rest]; [discriminate|]. assert (Er : Nat.even (length rest) = true).
      { simpl length in Ev. rewrite Nat.even_succ in Ev. rewrite <- Nat.negb_odd. now rewrite Ev. }
      destruct (pack_pairs_even _ rest (le_n _) Er) as [p Hp]. rewrite Hp. eexists; reflexivity. }
  exists s. split; [exact Hs|]. destruct (ser_Nibbles_dec n s Hn Hs) as (fb & packed & -> & h & Hh & Hcat).
  rewrite cd_nibbles, Hh. cbn [bind]. rewrite Hcat. replace (L_Nibbles <? nlen n) with false by lia. reflexivity.
Qed.

Lemma cd_nibbles_inv s v : cd_of z_nibbles s = Ok v -> exists n, v = FB n /\ ser_Nibbles n = Ok s /\ Nibbles_ok n.
Proof.
  rewrite cd_nibbles. destruct s as [|fb packed]; [discriminate|].
  destruct (nib_head fb) as [h| |] eqn:Eh; cbn [bind]; try discriminate.
  destruct (L_Nibbles <? nlen (h ++ unpack_pairs packed)) eqn:El; [discriminate|]. intros H; apply Ok_inj in H. subst v.
  destruct (nib_head_ser fb packed h Eh) as [Hs Hn]. exists (h ++ unpack_pairs packed). repeat split; [exact Hs|exact Hn|lia].
Qed.

Lemma ser_Nibbles_inj n n' s : Forall nib n -> Forall nib n' -> ser_Nibbles n = Ok s -> ser_Nibbles n' = Ok s -> n = n'.
Proof.
  intros Hn Hn' H H'. destruct (ser_Nibbles_dec n s Hn H) as (fb & packed & E & h & Hh & Hc).
  destruct (ser_Nibbles_dec n' s Hn' H') as (fb' & packed' & E' & h' & Hh' & Hc'). rewrite E in E'. injection E' as <- <-.
  rewrite Hh in Hh'. apply Ok_inj in Hh'. subst h'. congruence.
Qed.

(* ================================================================== state-network containers through the generic Container theorems *)
Lemma z_unmarshal_false de data : z_unmarshal false de data = bind (de (rd_new data)) (fun '(vs, _) => Ok vs).
Proof. unfold z_unmarshal. destruct (de (rd_new data)) as [[vs r]| |]; reflexivity. Qed.

Lemma fo3_inv1 f c v : fo3 [f] [c] [v] -> cd_of f c = Ok v.
Proof. intros H. inversion H; subst. assumption. Qed.

(* ---- one ByteList[L] field: TrieNode (1024), ContractBytecodeContainer (32768) *)
Section OneByteList.
  Variable L : N.
  Let fs := [z_bytelist L].
  Let enc (v : bytes) : res bytes := zs_container [mkzser 0 v].
  Let dec (data : bytes) : res bytes :=
    bind (z_unmarshal false (z_container fs) data) (fun vs => match vs with [FB n] => Ok n | _ => Panic end).
  Let lim (v : bytes) : Prop := nlen v <= L.

  Lemma obl_exact : Forall exact fs. Proof. constructor; [apply exact_bytelist|constructor]. Qed.
  Lemma obl_dyn : has_dyn fs. Proof. unfold has_dyn, fs. cbn. discriminate. Qed.
  Lemma obl_enc v : enc v = Ok (u32_enc 4 ++ v).
  Proof.
    unfold enc, zs_container, zs_fixedlen, zs_dyn. cbn [fold_left s_fix zs_pass1 filter map concat s_bytes].
    change (0 =? 0) with true. cbn [negb]. unfold z_write_offset.
    change ((two32 <=? 0 + 4) || (two32 <=? 0) || (two32 <=? 0 + 4 + 0)) with false. cbv iota. cbn [bind map concat s_bytes].
    now rewrite !app_nil_r.
  Qed.

  Lemma obl_dec_inv b v : dec b = Ok v -> lim v /\ enc v = Ok b.
  Proof.
    unfold dec. rewrite z_unmarshal_false.
    destruct (z_container fs (rd_new b)) as [[vs r']| |] eqn:E; cbn [bind]; try discriminate.
    destruct (container_inv _ _ _ _ obl_exact obl_dyn E) as (cs & Hfo & Hz).
    destruct vs as [|[?|n|?|?] [|? ?]]; try discriminate. intros H; apply Ok_inj in H. subst n.
    inversion Hfo as [|f0 fs0 c cs0 v0 vs0 Hcd _ Hrest]; subst. inversion Hrest; subst.
    rewrite cd_bytelist in Hcd. destruct (L <? nlen c) eqn:El; [discriminate|]. apply Ok_inj in Hcd. injection Hcd as ->.
    split; [unfold lim; lia|exact Hz].
  Qed.

  Lemma obl_dec_fwd v : lim v -> dec (u32_enc 4 ++ v) = Ok v.
  Proof.
    intros Hl. unfold lim in Hl. assert (Hfo : fo3 fs [v] [FB v]).
    { constructor; [|intros H; exfalso; apply H; reflexivity|constructor]. rewrite cd_bytelist. now replace (L <? nlen v) with false by lia. }
    pose proof (obl_enc v) as He. unfold enc in He.
    destruct (container_fwd fs [v] [FB v] _ obl_exact Hfo He) as (r' & Hc & _).
    unfold dec. rewrite z_unmarshal_false, Hc. reflexivity.
  Qed.

  Lemma obl_codec : codec_ok enc dec (fun _ => True) lim.
  Proof.
    split; [|split; [|split]].
    - intros v _ Hl. exists (u32_enc 4 ++ v). split; [apply obl_enc|now apply obl_dec_fwd].
    - intros v _ Hl. split; [rewrite obl_enc; discriminate|]. intros b Hb v' Hd.
      apply obl_dec_inv in Hd as [Hl' He']. rewrite obl_enc in Hb, He'. apply Ok_inj in Hb, He'. subst b.
      apply app_inv_head in He'. subst v'. contradiction.
    - intros b v H. apply obl_dec_inv in H. split; [exact I|apply H].
    - intros b v H. apply obl_dec_inv in H. apply H.
  Qed.

  Lemma obl_total b : dec b <> Panic.
  Proof.
    unfold dec. rewrite z_unmarshal_false.
    destruct (z_container fs (rd_new b)) as [[vs r']| |] eqn:E; cbn [bind]; try discriminate.
    - destruct (container_inv _ _ _ _ obl_exact obl_dyn E) as (cs & Hfo & _).
      inversion Hfo as [|f0 fs0 c cs0 v0 vs0 Hcd _ Hrest]; subst. inversion Hrest; subst.
      rewrite cd_bytelist in Hcd. destruct (L <? nlen c); [discriminate|]. apply Ok_inj in Hcd. subst v0. discriminate.
    - apply container_total in E; [destruct E|]. constructor; [apply total_bytelist|constructor].
  Qed.
End OneByteList.

Definition TrieNode_lim (v : bytes) : Prop := nlen v <= L_TrieNode.
Lemma TrieNode_codec : codec_ok enc_TrieNode dec_TrieNode (fun _ => True) TrieNode_lim.
Proof. exact (obl_codec L_TrieNode). Qed.
Lemma dec_TrieNode_total b : dec_TrieNode b <> Panic.
Proof. exact (obl_total L_TrieNode b). Qed.
Definition BytecodeContainer_lim (v : bytes) : Prop := nlen v <= L_Bytecode.
Lemma BytecodeContainer_codec : codec_ok enc_BytecodeContainer dec_BytecodeContainer (fun _ => True) BytecodeContainer_lim.
Proof. exact (obl_codec L_Bytecode). Qed.
Lemma dec_BytecodeContainer_total b : dec_BytecodeContainer b <> Panic.
Proof. exact (obl_total L_Bytecode b). Qed.

(* ---- a typed view of a ztyp container: the per-type obligations from which the four clauses and totality follow *)
Section TypedContainer.
  Context (fs : list zdes) {A : Type} (to_chunks : A -> res (list bytes)) (vals : A -> list field)
          (of_vals : list field -> res A) (enc : A -> res bytes) (dec : bytes -> res A) (wf lim : A -> Prop).
  Hypothesis Hex : Forall exact fs.
  Hypothesis Htot : Forall total fs.
  Hypothesis Hdyn : has_dyn fs.
  Hypothesis H_enc : forall v, enc v = bind (to_chunks v) (fun cs => zs_container (sers fs cs)).
  Hypothesis H_dec : forall b, dec b = bind (z_unmarshal false (z_container fs) b) of_vals.
  (* in-limit values serialise field by field into chunks that decode back, and fit 32-bit offsets *)
  Hypothesis H_fwd : forall v, wf v -> lim v ->
    exists cs, to_chunks v = Ok cs /\ fo3 fs cs (vals v) /\ of_vals (vals v) = Ok v /\ exists data, zs_container (sers fs cs) = Ok data.
  (* chunks that decode field by field are the serialisation of an in-limit value *)
  Hypothesis H_inv : forall cs vs b, fo3 fs cs vs -> zs_container (sers fs cs) = Ok b ->
    exists v, of_vals vs = Ok v /\ wf v /\ lim v /\ to_chunks v = Ok cs.
  Hypothesis H_np : forall v, wf v -> enc v <> Panic.
  Hypothesis H_sized : forall v cs, wf v -> to_chunks v = Ok cs -> sized fs cs.
  Hypothesis H_inj : forall v v' cs, wf v -> wf v' -> to_chunks v = Ok cs -> to_chunks v' = Ok cs -> v = v'.

  Lemma tc_dec_inv b v : dec b = Ok v -> wf v /\ lim v /\ exists cs, to_chunks v = Ok cs /\ zs_container (sers fs cs) = Ok b.
  Proof.
    rewrite H_dec, z_unmarshal_false.
    destruct (z_container fs (rd_new b)) as [[vs r']| |] eqn:E; cbn [bind]; try discriminate.
    destruct (container_inv _ _ _ _ Hex Hdyn E) as (cs & Hfo & Hz).
    destruct (H_inv cs vs b Hfo Hz) as (v0 & Hov & Hw & Hl & Hc). rewrite Hov. intros H; apply Ok_inj in H. subst v0.
    split; [exact Hw|]. split; [exact Hl|]. exists cs. split; assumption.
  Qed.

  Lemma tc_codec : codec_ok enc dec wf lim.
  Proof.
    split; [|split; [|split]].
    - intros v Hw Hl. destruct (H_fwd v Hw Hl) as (cs & Hc & Hfo & Hov & data & Hz).
      exists data. split; [rewrite H_enc, Hc; exact Hz|].
      destruct (container_fwd fs cs _ data Hex Hfo Hz) as (r' & Hd & _).
      rewrite H_dec, z_unmarshal_false, Hd. exact Hov.
    - intros v Hw Hl. split; [now apply H_np|]. intros b Hb v' Hd.
      apply tc_dec_inv in Hd as (Hw' & Hl' & cs' & Hc' & Hz').
      rewrite H_enc in Hb. destruct (to_chunks v) as [cs| |] eqn:Hc; cbn [bind] in Hb; try discriminate.
      assert (cs = cs') by (apply (zs_container_inj fs cs cs' b); [now apply (H_sized v)|now apply (H_sized v')|exact Hb|exact Hz']).
      subst cs'. apply Hl. now rewrite (H_inj v v' cs Hw Hw' Hc Hc').
    - intros b v H. apply tc_dec_inv in H. tauto.
    - intros b v H. apply tc_dec_inv in H as (_ & _ & cs & Hc & Hz). now rewrite H_enc, Hc.
  Qed.

  Lemma tc_total b : dec b <> Panic.
  Proof.
    rewrite H_dec, z_unmarshal_false.
    destruct (z_container fs (rd_new b)) as [[vs r']| |] eqn:E; cbn [bind]; try discriminate.
    - destruct (container_inv _ _ _ _ Hex Hdyn E) as (cs & Hfo & Hz).
      destruct (H_inv cs vs b Hfo Hz) as (v0 & Hov & _). rewrite Hov. discriminate.
    - now apply container_total in E.
  Qed.
End TypedContainer.

Lemma ser_Nibbles_ok n : exists s, ser_Nibbles n = Ok s.
Proof.
  unfold ser_Nibbles. destruct (Nat.even (length n)) eqn:Ev.
  - destruct (pack_pairs_even _ n (le_n _) Ev) as [p Hp]. rewrite Hp. eexists; reflexivity.
  - destruct n as [|f rest]; [discriminate|]. assert (Er : Nat.even (length rest) = true).
    { simpl length in Ev. rewrite Nat.even_succ in Ev. rewrite <- Nat.negb_odd. now rewrite Ev. }
    destruct (pack_pairs_even _ rest (le_n _) Er) as [p Hp]. rewrite Hp. eexists; reflexivity.
Qed.

Ltac inv_fo3 H :=
  repeat match type of H with
  | fo3 (_ :: _) _ _ => let c := fresh "c" in let v := fresh "x" in let Hcd := fresh "Hcd" in let Hsz := fresh "Hsz" in let Hr := fresh "Hr" in
      inversion H as [|? ? c ? v ? Hcd Hsz Hr]; subst; clear H; rename Hr into H
  | fo3 [] _ _ => inversion H; subst; clear H
  end.

(* ---- AccountTrieNodeKey : Path Nibbles (dynamic), NodeHash Bytes32 *)
Definition ATK_fs : list zdes := [z_nibbles; z_bytesN 32].
Definition AccountTrieNodeKey_wf (v : bytes * bytes) : Prop := Forall nib (fst v) /\ nlen (snd v) = 32.
Definition AccountTrieNodeKey_lim (v : bytes * bytes) : Prop := nlen (fst v) <= L_Nibbles.

Lemma ATK_exact : Forall exact ATK_fs.
Proof. constructor; [apply exact_nibbles|constructor; [apply exact_bytesN; lia|constructor]]. Qed.
Lemma ATK_total : Forall total ATK_fs.
Proof. constructor; [apply total_nibbles|constructor; [apply total_bytesN|constructor]]. Qed.

Lemma AccountTrieNodeKey_codec_total :
  codec_ok enc_AccountTrieNodeKey dec_AccountTrieNodeKey AccountTrieNodeKey_wf AccountTrieNodeKey_lim /\
  forall b, dec_AccountTrieNodeKey b <> Panic.
Proof.
  assert (Hdyn : has_dyn ATK_fs) by (unfold has_dyn; cbn; discriminate).
  set (to_chunks := fun v : bytes * bytes => bind (ser_Nibbles (fst v)) (fun s => Ok [s; snd v])).
  set (vals := fun v : bytes * bytes => [FB (fst v); FB (snd v)]).
  set (of_vals := fun vs : list field => match vs with [FB p; FB h] => Ok (p, h) | _ => Panic end).
  assert (H_enc : forall v, enc_AccountTrieNodeKey v = bind (to_chunks v) (fun cs => zs_container (sers ATK_fs cs))).
  { intros [p h]. unfold enc_AccountTrieNodeKey, zser_dyn, to_chunks. cbn [fst snd]. destruct (ser_Nibbles p); reflexivity. }
  assert (H_dec : forall b, dec_AccountTrieNodeKey b = bind (z_unmarshal false (z_container ATK_fs) b) of_vals) by reflexivity.
  assert (H_np : forall v, AccountTrieNodeKey_wf v -> enc_AccountTrieNodeKey v <> Panic).
  { intros [p h] _. rewrite H_enc. unfold to_chunks. cbn [fst snd]. destruct (ser_Nibbles_ok p) as [s ->]. cbn [bind].
    destruct (zs_container_ok' ATK_fs [s; h] eq_refl) as [d ->]; [vm_compute; reflexivity|discriminate]. }
  split.
  - apply (tc_codec ATK_fs to_chunks vals of_vals _ _ _ _ ATK_exact Hdyn H_enc H_dec); [| |exact H_np| |].
    + intros [p h] [Hn Hh] Hl. cbn [fst snd] in *. unfold AccountTrieNodeKey_lim in Hl. cbn [fst] in Hl.
      destruct (cd_nibbles_fwd p (conj Hn Hl)) as (s & Hs & Hcd). exists [s; h]. unfold to_chunks. cbn [fst snd]. rewrite Hs.
      split; [reflexivity|]. split; [|split; [reflexivity|apply (zs_container_ok' ATK_fs [s; h] eq_refl); vm_compute; reflexivity]].
      constructor; [exact Hcd|intros H; exfalso; apply H; reflexivity|].
      constructor; [apply cd_bytesN; [lia|exact Hh]|intros _; exact Hh|constructor].
    + intros cs vs b0 Hfo _. unfold ATK_fs in Hfo. inv_fo3 Hfo.
      apply cd_nibbles_inv in Hcd as (n & -> & Hs & Hok). specialize (Hsz0 ltac:(cbn; lia)). cbn [z_fix z_bytesN] in Hsz0.
      rewrite cd_bytesN in Hcd0 by (try lia; exact Hsz0). apply Ok_inj in Hcd0. subst x0.
      exists (n, c0). unfold of_vals, to_chunks, AccountTrieNodeKey_wf, AccountTrieNodeKey_lim. cbn [fst snd]. rewrite Hs.
      destruct Hok as [Hn Hl]. repeat split; assumption.
    + intros [p h] cs [_ Hh]. unfold to_chunks. cbn [fst snd] in *. destruct (ser_Nibbles p) as [s| |]; cbn [bind]; try discriminate.
      intros H; apply Ok_inj in H. subst cs. constructor; [intros H; exfalso; apply H; reflexivity|].
      constructor; [intros _; exact Hh|constructor].
    + intros [p h] [p' h'] cs [Hn _] [Hn' _]. unfold to_chunks. cbn [fst snd] in *.
      destruct (ser_Nibbles p) as [s| |] eqn:E; cbn [bind]; try discriminate.
      destruct (ser_Nibbles p') as [s'| |] eqn:E'; cbn [bind]; try discriminate.
      intros H H'. apply Ok_inj in H, H'. subst cs. injection H' as -> ->. f_equal. exact (ser_Nibbles_inj p p' s Hn Hn' E E').
  - apply (tc_total ATK_fs to_chunks of_vals dec_AccountTrieNodeKey AccountTrieNodeKey_wf AccountTrieNodeKey_lim ATK_exact ATK_total Hdyn H_dec).
    intros cs vs b0 Hfo _. unfold ATK_fs in Hfo. inv_fo3 Hfo.
    apply cd_nibbles_inv in Hcd as (n & -> & Hs & Hok). specialize (Hsz0 ltac:(cbn; lia)). cbn [z_fix z_bytesN] in Hsz0.
    rewrite cd_bytesN in Hcd0 by (try lia; exact Hsz0). apply Ok_inj in Hcd0. subst x0.
    exists (n, c0). unfold of_vals, to_chunks, AccountTrieNodeKey_wf, AccountTrieNodeKey_lim. cbn [fst snd]. rewrite Hs.
    destruct Hok as [Hn Hl]. repeat split; assumption.
Qed.

(* ---- ContractStorageTrieNodeKey : AddressHash Bytes32, Path Nibbles (dynamic), NodeHash Bytes32 *)
Definition STK_fs : list zdes := [z_bytesN 32; z_nibbles; z_bytesN 32].
Definition StorageTrieNodeKey_wf (v : bytes * bytes * bytes) : Prop :=
  let '(a, p, h) := v in nlen a = 32 /\ Forall nib p /\ nlen h = 32.
Definition StorageTrieNodeKey_lim (v : bytes * bytes * bytes) : Prop := let '(a, p, h) := v in nlen p <= L_Nibbles.

Lemma StorageTrieNodeKey_codec_total :
  codec_ok enc_StorageTrieNodeKey dec_StorageTrieNodeKey StorageTrieNodeKey_wf StorageTrieNodeKey_lim /\
  forall b, dec_StorageTrieNodeKey b <> Panic.
Proof.
  assert (Hex : Forall exact STK_fs).
  { constructor; [apply exact_bytesN; lia|constructor; [apply exact_nibbles|constructor; [apply exact_bytesN; lia|constructor]]]. }
  assert (Htot : Forall total STK_fs).
  { constructor; [apply total_bytesN|constructor; [apply total_nibbles|constructor; [apply total_bytesN|constructor]]]. }
  assert (Hdyn : has_dyn STK_fs) by (unfold has_dyn; cbn; discriminate).
  set (to_chunks := fun v : bytes * bytes * bytes => let '(a, p, h) := v in bind (ser_Nibbles p) (fun s => Ok [a; s; h])).
  set (vals := fun v : bytes * bytes * bytes => let '(a, p, h) := v in [FB a; FB p; FB h]).
  set (of_vals := fun vs : list field => match vs with [FB a; FB p; FB h] => Ok (a, p, h) | _ => Panic end).
  assert (H_enc : forall v, enc_StorageTrieNodeKey v = bind (to_chunks v) (fun cs => zs_container (sers STK_fs cs))).
  { intros [[a p] h]. unfold enc_StorageTrieNodeKey, zser_dyn, to_chunks. destruct (ser_Nibbles p); reflexivity. }
  assert (H_dec : forall b, dec_StorageTrieNodeKey b = bind (z_unmarshal false (z_container STK_fs) b) of_vals) by reflexivity.
  assert (H_np : forall v, StorageTrieNodeKey_wf v -> enc_StorageTrieNodeKey v <> Panic).
  { intros [[a p] h] _. rewrite H_enc. unfold to_chunks. destruct (ser_Nibbles_ok p) as [s ->]. cbn [bind].
    destruct (zs_container_ok' STK_fs [a; s; h] eq_refl) as [d ->]; [vm_compute; reflexivity|discriminate]. }
  assert (H_inv : forall cs vs (b0 : bytes), fo3 STK_fs cs vs -> zs_container (sers STK_fs cs) = Ok b0 ->
    exists v, of_vals vs = Ok v /\ StorageTrieNodeKey_wf v /\ StorageTrieNodeKey_lim v /\ to_chunks v = Ok cs).
  { intros cs vs b0 Hfo _. unfold STK_fs in Hfo. inv_fo3 Hfo.
    specialize (Hsz ltac:(cbn; lia)). specialize (Hsz1 ltac:(cbn; lia)). cbn [z_fix z_bytesN] in Hsz, Hsz1.
    rewrite cd_bytesN in Hcd by (try lia; exact Hsz). apply Ok_inj in Hcd. subst x.
    apply cd_nibbles_inv in Hcd0 as (n & -> & Hs & [Hn Hl]).
    rewrite cd_bytesN in Hcd1 by (try lia; exact Hsz1). apply Ok_inj in Hcd1. subst x1.
    exists (c, n, c1). unfold of_vals, to_chunks, StorageTrieNodeKey_wf, StorageTrieNodeKey_lim. rewrite Hs. repeat split; assumption. }
  split.
  - apply (tc_codec STK_fs to_chunks vals of_vals _ _ _ _ Hex Hdyn H_enc H_dec); [|exact H_inv|exact H_np| |].
    + intros [[a p] h] (Ha & Hn & Hh) Hl. unfold StorageTrieNodeKey_lim in Hl.
      destruct (cd_nibbles_fwd p (conj Hn Hl)) as (s & Hs & Hcd). exists [a; s; h]. unfold to_chunks. rewrite Hs.
      split; [reflexivity|]. split; [|split; [reflexivity|apply (zs_container_ok' STK_fs [a; s; h] eq_refl); vm_compute; reflexivity]].
      constructor; [apply cd_bytesN; [lia|exact Ha]|intros _; exact Ha|].
      constructor; [exact Hcd|intros H; exfalso; apply H; reflexivity|].
      constructor; [apply cd_bytesN; [lia|exact Hh]|intros _; exact Hh|constructor].
    + intros [[a p] h] cs (Ha & _ & Hh). unfold to_chunks. destruct (ser_Nibbles p) as [s| |]; cbn [bind]; try discriminate.
      intros H; apply Ok_inj in H. subst cs. constructor; [intros _; exact Ha|].
      constructor; [intros H; exfalso; apply H; reflexivity|]. constructor; [intros _; exact Hh|constructor].
    + intros [[a p] h] [[a' p'] h'] cs (_ & Hn & _) (_ & Hn' & _). unfold to_chunks.
      destruct (ser_Nibbles p) as [s| |] eqn:E; cbn [bind]; try discriminate.
      destruct (ser_Nibbles p') as [s'| |] eqn:E'; cbn [bind]; try discriminate.
      intros H H'. apply Ok_inj in H, H'. subst cs. injection H' as -> -> ->. f_equal. f_equal. exact (ser_Nibbles_inj p p' s Hn Hn' E E').
  - exact (tc_total STK_fs to_chunks of_vals dec_StorageTrieNodeKey StorageTrieNodeKey_wf StorageTrieNodeKey_lim Hex Htot Hdyn H_dec H_inv).
Qed.

(* ================================================================== TrieProof and the *WithProof containers *)
Definition BLP : zdes := z_bytelists L_TrieNode L_TrieProof.
Definition proof_lim (l : list bytes) : Prop := nlen l <= L_TrieProof /\ items_ok L_TrieNode l.

Lemma total_len_items IL l : items_ok IL l -> total_len l <= nlen l * IL.
Proof.
  induction 1 as [|x l Hx _ IH]; [unfold nlen; simpl; lia|]. cbn [total_len]. rewrite nlen_cons. lia.
Qed.
Lemma proof_lim_fits l : proof_lim l -> bl_fits l.
Proof.
  intros [H1 H2]. apply bl_fits_small. pose proof (total_len_items _ _ H2). unfold L_TrieProof, L_TrieNode, two32 in *. nia.
Qed.
Lemma proof_lim_len l s : proof_lim l -> zs_bytelists l = Ok s -> nlen s <= 70000.
Proof.
  intros [H1 H2] Hs. rewrite (zs_bytelists_len _ _ Hs). pose proof (total_len_items _ _ H2). unfold L_TrieProof, L_TrieNode in *. nia.
Qed.

Lemma proof_fwd l : proof_lim l -> exists s, zs_bytelists l = Ok s /\ cd_of BLP s = Ok (FL l).
Proof.
  intros Hl. pose proof (proof_lim_fits l Hl) as Hf. exists (bl_layout l).
  assert (Hs : zs_bytelists l = Ok (bl_layout l)) by (apply zs_bytelists_iff; split; [reflexivity|exact Hf]).
  split; [exact Hs|]. destruct Hl. now apply cd_bytelists_fwd.
Qed.
Lemma proof_inv s v : cd_of BLP s = Ok v -> exists l, v = FL l /\ zs_bytelists l = Ok s /\ proof_lim l.
Proof. intros H. apply cd_bytelists_inv in H as (l & -> & Hs & Hn & Hok). exists l. repeat split; assumption. Qed.
Lemma bl_fits_enc l : bl_fits l -> exists s, zs_bytelists l = Ok s.
Proof. intros H. exists (bl_layout l). apply zs_bytelists_iff. split; [reflexivity|exact H]. Qed.
Lemma enc_fits l s : zs_bytelists l = Ok s -> bl_fits l.
Proof. intros H. apply zs_bytelists_iff in H. apply H. Qed.

(* ---- TrieProof on its own *)
Lemma dec_TrieProof_cd data : dec_TrieProof data = bind (cd_of BLP data) (fun v => match v with FL l => Ok l | _ => Panic end).
Proof.
  unfold dec_TrieProof, cd_of. rewrite z_unmarshal_false. unfold rd_new. fold BLP.
  destruct (z_de BLP _) as [[v r']| |]; reflexivity.
Qed.

Lemma TrieProof_codec : codec_ok enc_TrieProof dec_TrieProof bl_fits proof_lim.
Proof.
  unfold enc_TrieProof. split; [|split; [|split]].
  - intros v _ Hl. destruct (proof_fwd v Hl) as (s & Hs & Hcd). exists s. split; [exact Hs|]. now rewrite dec_TrieProof_cd, Hcd.
  - intros v Hw Hl. destruct (bl_fits_enc v Hw) as [s Hs]. rewrite Hs. split; [discriminate|]. intros b Hb v' Hd.
    apply Ok_inj in Hb. subst b. rewrite dec_TrieProof_cd in Hd.
    destruct (cd_of BLP s) as [x| |] eqn:E; cbn [bind] in Hd; try discriminate.
    apply proof_inv in E as (l & -> & Hs' & Hl'). apply Ok_inj in Hd. subst l.
    rewrite (zs_bytelists_inj v v' s Hs Hs') in Hl. contradiction.
  - intros b v Hd. rewrite dec_TrieProof_cd in Hd. destruct (cd_of BLP b) as [x| |] eqn:E; cbn [bind] in Hd; try discriminate.
    apply proof_inv in E as (l & -> & Hs' & Hl'). apply Ok_inj in Hd. subst l. split; [now apply (enc_fits v b)|exact Hl'].
  - intros b v Hd. rewrite dec_TrieProof_cd in Hd. destruct (cd_of BLP b) as [x| |] eqn:E; cbn [bind] in Hd; try discriminate.
    apply proof_inv in E as (l & -> & Hs' & Hl'). apply Ok_inj in Hd. now subst l.
Qed.
Lemma dec_TrieProof_total b : dec_TrieProof b <> Panic.
Proof.
  rewrite dec_TrieProof_cd. destruct (cd_of BLP b) as [x| |] eqn:E; cbn [bind]; try discriminate.
  - apply proof_inv in E as (l & -> & _). discriminate.
  - unfold cd_of in E. destruct (z_de BLP _) as [[v r']| |] eqn:E2; cbn [bind] in E; try discriminate.
    now apply (total_bytelists L_TrieNode L_TrieProof) in E2.
Qed.

Lemma BLP_exact : exact BLP. Proof. apply exact_bytelists. Qed.
Lemma BLP_total : total BLP. Proof. apply total_bytelists. Qed.

(* ---- AccountTrieNodeWithProof : Proof TrieProof (dynamic), BlockHash Bytes32 *)
Definition ATP_fs : list zdes := [BLP; z_bytesN 32].
Definition AccountTrieNodeWithProof_wf (v : list bytes * bytes) : Prop := bl_fits (fst v) /\ nlen (snd v) = 32.
Definition AccountTrieNodeWithProof_lim (v : list bytes * bytes) : Prop := proof_lim (fst v).

Lemma AccountTrieNodeWithProof_codec_total :
  codec_ok enc_AccountTrieNodeWithProof dec_AccountTrieNodeWithProof AccountTrieNodeWithProof_wf AccountTrieNodeWithProof_lim /\
  forall b, dec_AccountTrieNodeWithProof b <> Panic.
Proof.
  assert (Hex : Forall exact ATP_fs) by (constructor; [apply BLP_exact|constructor; [apply exact_bytesN; lia|constructor]]).
  assert (Htot : Forall total ATP_fs) by (constructor; [apply BLP_total|constructor; [apply total_bytesN|constructor]]).
  assert (Hdyn : has_dyn ATP_fs) by (unfold has_dyn; cbn; discriminate).
  set (to_chunks := fun v : list bytes * bytes => bind (zs_bytelists (fst v)) (fun s => Ok [s; snd v])).
  set (vals := fun v : list bytes * bytes => [FL (fst v); FB (snd v)]).
  set (of_vals := fun vs : list field => match vs with [FL p; FB h] => Ok (p, h) | _ => Panic end).
  assert (H_enc : forall v, enc_AccountTrieNodeWithProof v = bind (to_chunks v) (fun cs => zs_container (sers ATP_fs cs))).
  { intros [p h]. unfold enc_AccountTrieNodeWithProof, zser_dyn, to_chunks. cbn [fst snd]. destruct (zs_bytelists p); reflexivity. }
  assert (H_dec : forall b, dec_AccountTrieNodeWithProof b = bind (z_unmarshal false (z_container ATP_fs) b) of_vals) by reflexivity.
  assert (H_np : forall v, AccountTrieNodeWithProof_wf v -> enc_AccountTrieNodeWithProof v <> Panic).
  { intros [p h] [Hf _]. rewrite H_enc. unfold to_chunks. cbn [fst snd] in *. destruct (bl_fits_enc p Hf) as [s ->]. cbn [bind].
    destruct (zs_container_ok' ATP_fs [s; h] eq_refl) as [d ->]; [vm_compute; reflexivity|discriminate]. }
  assert (H_inv : forall cs vs (b0 : bytes), fo3 ATP_fs cs vs -> zs_container (sers ATP_fs cs) = Ok b0 ->
    exists v, of_vals vs = Ok v /\ AccountTrieNodeWithProof_wf v /\ AccountTrieNodeWithProof_lim v /\ to_chunks v = Ok cs).
  { intros cs vs b0 Hfo _. unfold ATP_fs in Hfo. inv_fo3 Hfo.
    apply proof_inv in Hcd as (l & -> & Hs & Hl). specialize (Hsz0 ltac:(cbn; lia)). cbn [z_fix z_bytesN] in Hsz0.
    rewrite cd_bytesN in Hcd0 by (try lia; exact Hsz0). apply Ok_inj in Hcd0. subst x0.
    exists (l, c0). unfold of_vals, to_chunks, AccountTrieNodeWithProof_wf, AccountTrieNodeWithProof_lim. cbn [fst snd]. rewrite Hs.
    split; [reflexivity|]. split; [split; [now apply (enc_fits l c)|exact Hsz0]|]. split; [exact Hl|reflexivity]. }
  split.
  - apply (tc_codec ATP_fs to_chunks vals of_vals _ _ _ _ Hex Hdyn H_enc H_dec); [|exact H_inv|exact H_np| |].
    + intros [p h] [Hf Hh] Hl. cbn [fst snd] in *. unfold AccountTrieNodeWithProof_lim in Hl. cbn [fst] in Hl.
      destruct (proof_fwd p Hl) as (s & Hs & Hcd). exists [s; h]. unfold to_chunks. cbn [fst snd]. rewrite Hs.
      split; [reflexivity|]. split; [|split; [reflexivity|apply (zs_container_ok' ATP_fs [s; h] eq_refl); vm_compute; reflexivity]].
      constructor; [exact Hcd|intros H; exfalso; apply H; reflexivity|].
      constructor; [apply cd_bytesN; [lia|exact Hh]|intros _; exact Hh|constructor].
    + intros [p h] cs [_ Hh]. unfold to_chunks. cbn [fst snd] in *. destruct (zs_bytelists p) as [s| |]; cbn [bind]; try discriminate.
      intros H; apply Ok_inj in H. subst cs. constructor; [intros H; exfalso; apply H; reflexivity|].
      constructor; [intros _; exact Hh|constructor].
    + intros [p h] [p' h'] cs _ _. unfold to_chunks. cbn [fst snd].
      destruct (zs_bytelists p) as [s| |] eqn:E; cbn [bind]; try discriminate.
      destruct (zs_bytelists p') as [s'| |] eqn:E'; cbn [bind]; try discriminate.
      intros H H'. apply Ok_inj in H, H'. subst cs. injection H' as -> ->. f_equal. exact (zs_bytelists_inj p p' s E E').
  - exact (tc_total ATP_fs to_chunks of_vals dec_AccountTrieNodeWithProof AccountTrieNodeWithProof_wf AccountTrieNodeWithProof_lim Hex Htot Hdyn H_dec H_inv).
Qed.

(* two dynamic fields followed by a Bytes32: the second offset (40 + size of the first chunk) must fit uint32 *)
Lemma two_dyn_bound f1 f2 c1 c2 c3 b : z_fix f1 = 0 -> z_fix f2 = 0 ->
  zs_container (sers [f1; f2; z_bytesN 32] [c1; c2; c3]) = Ok b -> 40 + nlen c1 < two32.
Proof.
  intros H1 H2. unfold zs_container, zs_fixedlen. cbn [sers fold_left s_fix zs_pass1 s_bytes z_fix z_bytesN]. rewrite H1, H2.
  change (0 =? 0) with true. change (32 =? 0) with false. cbn [negb]. unfold z_write_offset.
  replace (0 + 4 + 4 + 32) with 40 by reflexivity.
  change ((two32 <=? 40) || (two32 <=? 0) || (two32 <=? 40 + 0)) with false. cbv iota. cbn [bind].
  replace (40 + 0) with 40 by reflexivity.
  destruct ((two32 <=? 40) || (two32 <=? nlen c1) || (two32 <=? 40 + nlen c1)) eqn:E; [discriminate|]. intros _. lia.
Qed.

Lemma two_dyn_ok f1 f2 c1 c2 c3 : z_fix f1 = 0 -> z_fix f2 = 0 -> 40 + nlen c1 < two32 ->
  exists d, zs_container (sers [f1; f2; z_bytesN 32] [c1; c2; c3]) = Ok d.
Proof.
  intros H1 H2 Hb. apply (zs_container_ok' [f1; f2; z_bytesN 32] [c1; c2; c3] eq_refl).
  cbn [fixedlen dyn_sel z_fix z_bytesN]. rewrite H1, H2. change (0 =? 0) with true. change (32 =? 0) with false. cbv iota.
  cbn [removelast total_len]. lia.
Qed.

(* ---- ContractStorageTrieNodeWithProof : StorageProof, AccountProof (both dynamic), BlockHash Bytes32 *)
Definition STP_fs : list zdes := [BLP; BLP; z_bytesN 32].
Definition ser_len (l : list bytes) : N := 4 * nlen l + total_len l.
Definition StorageTrieNodeWithProof_wf (v : list bytes * list bytes * bytes) : Prop :=
  let '(sp, ap, h) := v in bl_fits sp /\ bl_fits ap /\ 40 + ser_len sp < two32 /\ nlen h = 32.
Definition StorageTrieNodeWithProof_lim (v : list bytes * list bytes * bytes) : Prop :=
  let '(sp, ap, h) := v in proof_lim sp /\ proof_lim ap.

Lemma StorageTrieNodeWithProof_codec_total :
  codec_ok enc_StorageTrieNodeWithProof dec_StorageTrieNodeWithProof StorageTrieNodeWithProof_wf StorageTrieNodeWithProof_lim /\
  forall b, dec_StorageTrieNodeWithProof b <> Panic.
Proof.
  assert (Hex : Forall exact STP_fs) by (repeat (constructor; [first [apply BLP_exact|apply exact_bytesN; lia]|]); constructor).
  assert (Htot : Forall total STP_fs) by (repeat (constructor; [first [apply BLP_total|apply total_bytesN]|]); constructor).
  assert (Hdyn : has_dyn STP_fs) by (unfold has_dyn; cbn; discriminate).
  set (to_chunks := fun v : list bytes * list bytes * bytes => let '(sp, ap, h) := v in
         bind (zs_bytelists sp) (fun s => bind (zs_bytelists ap) (fun a => Ok [s; a; h]))).
  set (vals := fun v : list bytes * list bytes * bytes => let '(sp, ap, h) := v in [FL sp; FL ap; FB h]).
  set (of_vals := fun vs : list field => match vs with [FL s; FL a; FB h] => Ok (s, a, h) | _ => Panic end).
  assert (H_enc : forall v, enc_StorageTrieNodeWithProof v = bind (to_chunks v) (fun cs => zs_container (sers STP_fs cs))).
  { intros [[sp ap] h]. unfold enc_StorageTrieNodeWithProof, zser_dyn, to_chunks.
    destruct (zs_bytelists sp); cbn [bind]; try reflexivity. destruct (zs_bytelists ap); reflexivity. }
  assert (H_dec : forall b, dec_StorageTrieNodeWithProof b = bind (z_unmarshal false (z_container STP_fs) b) of_vals) by reflexivity.
  assert (H_ok : forall s a h, 40 + nlen s < two32 -> exists d, zs_container (sers STP_fs [s; a; h]) = Ok d).
  { intros s a h Hb. now apply two_dyn_ok. }
  assert (H_np : forall v, StorageTrieNodeWithProof_wf v -> enc_StorageTrieNodeWithProof v <> Panic).
  { intros [[sp ap] h] (Hs & Ha & Hb & _). rewrite H_enc. unfold to_chunks.
    destruct (bl_fits_enc sp Hs) as [s Es]. destruct (bl_fits_enc ap Ha) as [a Ea]. rewrite Es, Ea. cbn [bind].
    assert (Hb' : 40 + nlen s < two32) by (rewrite (zs_bytelists_len _ _ Es); exact Hb).
    destruct (H_ok s a h Hb') as [d Hd]. intros Hp. unfold bytes in *. rewrite Hd in Hp. discriminate. }
  assert (H_inv : forall cs vs (b0 : bytes), fo3 STP_fs cs vs -> zs_container (sers STP_fs cs) = Ok b0 ->
    exists v, of_vals vs = Ok v /\ StorageTrieNodeWithProof_wf v /\ StorageTrieNodeWithProof_lim v /\ to_chunks v = Ok cs).
  { intros cs vs b0 Hfo Hz. unfold STP_fs in Hfo. inv_fo3 Hfo.
    apply two_dyn_bound in Hz; [|reflexivity|reflexivity].
    apply proof_inv in Hcd as (sp & -> & Hs & Hl). apply proof_inv in Hcd0 as (ap & -> & Ha & Hl0).
    specialize (Hsz1 ltac:(cbn; lia)). cbn [z_fix z_bytesN] in Hsz1.
    rewrite cd_bytesN in Hcd1 by (try lia; exact Hsz1). apply Ok_inj in Hcd1. subst x1.
    exists (sp, ap, c1). unfold of_vals, to_chunks, StorageTrieNodeWithProof_wf, StorageTrieNodeWithProof_lim. rewrite Hs, Ha.
    split; [reflexivity|]. split; [|split; [split; assumption|reflexivity]].
    split; [now apply (enc_fits sp c)|]. split; [now apply (enc_fits ap c0)|]. split; [|exact Hsz1].
    unfold ser_len. rewrite <- (zs_bytelists_len _ _ Hs). exact Hz. }
  split.
  - apply (tc_codec STP_fs to_chunks vals of_vals _ _ _ _ Hex Hdyn H_enc H_dec); [|exact H_inv|exact H_np| |].
    + intros [[sp ap] h] (Hfs & Hfa & Hb & Hh) [Hls Hla].
      destruct (proof_fwd sp Hls) as (s & Es & Cs). destruct (proof_fwd ap Hla) as (a & Ea & Ca).
      exists [s; a; h]. unfold to_chunks. rewrite Es, Ea. split; [reflexivity|].
      split; [|split; [reflexivity|apply H_ok; rewrite (zs_bytelists_len _ _ Es); exact Hb]].
      constructor; [exact Cs|intros H; exfalso; apply H; reflexivity|].
      constructor; [exact Ca|intros H; exfalso; apply H; reflexivity|].
      constructor; [apply cd_bytesN; [lia|exact Hh]|intros _; exact Hh|constructor].
    + intros [[sp ap] h] cs (_ & _ & _ & Hh). unfold to_chunks.
      destruct (zs_bytelists sp) as [s| |]; cbn [bind]; try discriminate. destruct (zs_bytelists ap) as [a| |]; cbn [bind]; try discriminate.
      intros H; apply Ok_inj in H. subst cs. constructor; [intros H; exfalso; apply H; reflexivity|].
      constructor; [intros H; exfalso; apply H; reflexivity|]. constructor; [intros _; exact Hh|constructor].
    + intros [[sp ap] h] [[sp' ap'] h'] cs _ _. unfold to_chunks.
      destruct (zs_bytelists sp) as [s| |] eqn:E1; cbn [bind]; try discriminate.
      destruct (zs_bytelists ap) as [a| |] eqn:E2; cbn [bind]; try discriminate.
      destruct (zs_bytelists sp') as [s'| |] eqn:E1'; cbn [bind]; try discriminate.
      destruct (zs_bytelists ap') as [a'| |] eqn:E2'; cbn [bind]; try discriminate.
      intros H H'. apply Ok_inj in H, H'. subst cs. injection H' as -> -> ->.
      rewrite (zs_bytelists_inj sp sp' s E1 E1'), (zs_bytelists_inj ap ap' a E2 E2'). reflexivity.
  - exact (tc_total STP_fs to_chunks of_vals dec_StorageTrieNodeWithProof StorageTrieNodeWithProof_wf StorageTrieNodeWithProof_lim Hex Htot Hdyn H_dec H_inv).
Qed.

(* ---- ContractBytecodeWithProof : Code ByteList[32768], AccountProof TrieProof (both dynamic), BlockHash Bytes32 *)
Definition BCP_fs : list zdes := [z_bytelist L_Bytecode; BLP; z_bytesN 32].
Definition BytecodeWithProof_wf (v : bytes * list bytes * bytes) : Prop :=
  let '(c, ap, h) := v in 40 + nlen c < two32 /\ bl_fits ap /\ nlen h = 32.
Definition BytecodeWithProof_lim (v : bytes * list bytes * bytes) : Prop :=
  let '(c, ap, h) := v in nlen c <= L_Bytecode /\ proof_lim ap.

Lemma BytecodeWithProof_codec_total :
  codec_ok enc_BytecodeWithProof dec_BytecodeWithProof BytecodeWithProof_wf BytecodeWithProof_lim /\
  forall b, dec_BytecodeWithProof b <> Panic.
Proof.
  assert (Hex : Forall exact BCP_fs) by (constructor; [apply exact_bytelist|constructor; [apply BLP_exact|constructor; [apply exact_bytesN; lia|constructor]]]).
  assert (Htot : Forall total BCP_fs) by (constructor; [apply total_bytelist|constructor; [apply BLP_total|constructor; [apply total_bytesN|constructor]]]).
  assert (Hdyn : has_dyn BCP_fs) by (unfold has_dyn; cbn; discriminate).
  set (to_chunks := fun v : bytes * list bytes * bytes => let '(c, ap, h) := v in bind (zs_bytelists ap) (fun a => Ok [c; a; h])).
  set (vals := fun v : bytes * list bytes * bytes => let '(c, ap, h) := v in [FB c; FL ap; FB h]).
  set (of_vals := fun vs : list field => match vs with [FB c; FL a; FB h] => Ok (c, a, h) | _ => Panic end).
  assert (H_enc : forall v, enc_BytecodeWithProof v = bind (to_chunks v) (fun cs => zs_container (sers BCP_fs cs))).
  { intros [[c ap] h]. unfold enc_BytecodeWithProof, zser_dyn, to_chunks. destruct (zs_bytelists ap); reflexivity. }
  assert (H_dec : forall b, dec_BytecodeWithProof b = bind (z_unmarshal false (z_container BCP_fs) b) of_vals) by reflexivity.
  assert (H_ok : forall c a h, 40 + nlen c < two32 -> exists d, zs_container (sers BCP_fs [c; a; h]) = Ok d).
  { intros c a h Hb. now apply two_dyn_ok. }
  assert (H_np : forall v, BytecodeWithProof_wf v -> enc_BytecodeWithProof v <> Panic).
  { intros [[c ap] h] (Hb & Ha & _). rewrite H_enc. unfold to_chunks.
    destruct (bl_fits_enc ap Ha) as [a Ea]. rewrite Ea. cbn [bind]. destruct (H_ok c a h Hb) as [d Hd]. intros Hp. unfold bytes in *. rewrite Hd in Hp. discriminate. }
  assert (H_inv : forall cs vs (b0 : bytes), fo3 BCP_fs cs vs -> zs_container (sers BCP_fs cs) = Ok b0 ->
    exists v, of_vals vs = Ok v /\ BytecodeWithProof_wf v /\ BytecodeWithProof_lim v /\ to_chunks v = Ok cs).
  { intros cs vs b0 Hfo Hz. unfold BCP_fs in Hfo. inv_fo3 Hfo.
    apply two_dyn_bound in Hz; [|reflexivity|reflexivity].
    rewrite cd_bytelist in Hcd. destruct (L_Bytecode <? nlen c) eqn:El; [discriminate|]. apply Ok_inj in Hcd. subst x.
    apply proof_inv in Hcd0 as (ap & -> & Ha & Hl0).
    specialize (Hsz1 ltac:(cbn; lia)). cbn [z_fix z_bytesN] in Hsz1.
    rewrite cd_bytesN in Hcd1 by (try lia; exact Hsz1). apply Ok_inj in Hcd1. subst x1.
    exists (c, ap, c1). unfold of_vals, to_chunks, BytecodeWithProof_wf, BytecodeWithProof_lim. rewrite Ha.
    split; [reflexivity|]. split; [|split; [split; [lia|exact Hl0]|reflexivity]].
    split; [exact Hz|]. split; [now apply (enc_fits ap c0)|exact Hsz1]. }
  split.
  - apply (tc_codec BCP_fs to_chunks vals of_vals _ _ _ _ Hex Hdyn H_enc H_dec); [|exact H_inv|exact H_np| |].
    + intros [[c ap] h] (Hb & Hfa & Hh) [Hlc Hla].
      destruct (proof_fwd ap Hla) as (a & Ea & Ca).
      exists [c; a; h]. unfold to_chunks. rewrite Ea. split; [reflexivity|].
      split; [|split; [reflexivity|now apply H_ok]].
      constructor; [rewrite cd_bytelist; now replace (L_Bytecode <? nlen c) with false by lia|intros H; exfalso; apply H; reflexivity|].
      constructor; [exact Ca|intros H; exfalso; apply H; reflexivity|].
      constructor; [apply cd_bytesN; [lia|exact Hh]|intros _; exact Hh|constructor].
    + intros [[c ap] h] cs (_ & _ & Hh). unfold to_chunks.
      destruct (zs_bytelists ap) as [a| |]; cbn [bind]; try discriminate.
      intros H; apply Ok_inj in H. subst cs. constructor; [intros H; exfalso; apply H; reflexivity|].
      constructor; [intros H; exfalso; apply H; reflexivity|]. constructor; [intros _; exact Hh|constructor].
    + intros [[c ap] h] [[c' ap'] h'] cs _ _. unfold to_chunks.
      destruct (zs_bytelists ap) as [a| |] eqn:E2; cbn [bind]; try discriminate.
      destruct (zs_bytelists ap') as [a'| |] eqn:E2'; cbn [bind]; try discriminate.
      intros H H'. apply Ok_inj in H, H'. subst cs. injection H' as -> -> ->.
      rewrite (zs_bytelists_inj ap ap' a E2 E2'). reflexivity.
  - exact (tc_total BCP_fs to_chunks of_vals dec_BytecodeWithProof BytecodeWithProof_wf BytecodeWithProof_lim Hex Htot Hdyn H_dec H_inv).
Qed.

(* ================================================================== ping_ext CustomPayloadExtensionsFormatPayload *)
Lemma dec_CustomPayload_spec data :
  dec_CustomPayload data = if L_CustomPayload <? nlen data then Err E_BYTESLEN else Ok data.
Proof.
  unfold dec_CustomPayload. rewrite z_unmarshal_false. unfold rd_new.
  pose proof (cd_bytelist L_CustomPayload data) as H. unfold cd_of in H.
  destruct (z_de (z_bytelist L_CustomPayload) _) as [[v r']| |] eqn:E; cbn [bind] in *.
  - destruct (L_CustomPayload <? nlen data); [discriminate|]. apply Ok_inj in H. now subst v.
  - destruct (L_CustomPayload <? nlen data); [now apply Ok_inj in H || (injection H as ->; reflexivity)|discriminate].
  - destruct (L_CustomPayload <? nlen data); discriminate.
Qed.
Definition CustomPayload_lim (v : bytes) : Prop := nlen v <= L_CustomPayload.
Lemma CustomPayload_codec : codec_ok enc_CustomPayload dec_CustomPayload (fun _ => True) CustomPayload_lim.
Proof.
  unfold CustomPayload_lim. split; [|split; [|split]].
  - intros v _ Hl. exists v. split; [reflexivity|]. rewrite dec_CustomPayload_spec. now replace (L_CustomPayload <? nlen v) with false by lia.
  - intros v _ Hl. split; [discriminate|]. intros b Hb v' Hd. apply Ok_inj in Hb. subst b.
    rewrite dec_CustomPayload_spec in Hd. destruct (L_CustomPayload <? nlen v) eqn:E; [discriminate|]. lia.
  - intros b v Hd. rewrite dec_CustomPayload_spec in Hd. destruct (L_CustomPayload <? nlen b) eqn:E; [discriminate|].
    apply Ok_inj in Hd. subst. split; [exact I|lia].
  - intros b v Hd. rewrite dec_CustomPayload_spec in Hd. destruct (L_CustomPayload <? nlen b); [discriminate|]. apply Ok_inj in Hd. now subst.
Qed.
Lemma dec_CustomPayload_total b : dec_CustomPayload b <> Panic.
Proof. rewrite dec_CustomPayload_spec. destruct (L_CustomPayload <? nlen b); discriminate. Qed.

(* ================================================================== every decoder of the second table is total *)
Lemma dec_any2_total fs t b : dec_any2 fs t b <> Panic.
Proof.
  destruct t; cbn [dec_any2]; apply rmap_total.
  - apply AccountTrieNodeKey_codec_total.
  - apply StorageTrieNodeKey_codec_total.
  - apply dec_BytecodeKey_total.
  - apply dec_TrieNode_total.
  - apply dec_TrieProof_total.
  - apply dec_BytecodeContainer_total.
  - apply AccountTrieNodeWithProof_codec_total.
  - apply StorageTrieNodeWithProof_codec_total.
  - apply BytecodeWithProof_codec_total.
  - apply dec_HistSummariesKey_total.
  - apply dec_CustomPayload_total.
Qed.

(* ================================================================== beacon Forked* wrappers *)
Definition known_digest (d : bytes) : Prop := d = D_Bellatrix \/ d = D_Capella \/ d = D_Deneb \/ d = D_Electra.

(* the switch: known digests select the payload type of their fork, anything else is "unknown fork digest";
   ForkedLightClientOptimisticUpdate maps Electra to the Deneb type; ForkedHistoricalSummariesWithProof has no switch *)
Lemma fork_select_known w :
  fork_select w D_Bellatrix = Some 0 /\ fork_select w D_Capella = Some (match w with WHistSummaries => 0 | _ => 1 end) /\
  fork_select w D_Deneb = Some (match w with WHistSummaries => 0 | _ => 2 end) /\
  fork_select w D_Electra = Some (match w with WHistSummaries => 0 | WOptimistic => 2 | _ => 3 end).
Proof. destruct w; repeat split; vm_compute; reflexivity. Qed.

Lemma fork_select_unknown w d : w <> WHistSummaries -> ~ known_digest d -> fork_select w d = None.
Proof.
  intros Hw Hk. unfold known_digest in Hk.
  assert (E1 : bytes_eqb d D_Bellatrix = false) by (destruct (bytes_eqb d D_Bellatrix) eqn:E; [apply bytes_eqb_eq in E; tauto|reflexivity]).
  assert (E2 : bytes_eqb d D_Capella = false) by (destruct (bytes_eqb d D_Capella) eqn:E; [apply bytes_eqb_eq in E; tauto|reflexivity]).
  assert (E3 : bytes_eqb d D_Deneb = false) by (destruct (bytes_eqb d D_Deneb) eqn:E; [apply bytes_eqb_eq in E; tauto|reflexivity]).
  assert (E4 : bytes_eqb d D_Electra = false) by (destruct (bytes_eqb d D_Electra) eqn:E; [apply bytes_eqb_eq in E; tauto|reflexivity]).
  destruct w; try congruence; unfold fork_select; now rewrite E1, E2, E3, E4.
Qed.
Lemma fork_select_some w d k : fork_select w d = Some k -> w = WHistSummaries \/ known_digest d.
Proof.
  intros H. destruct w; [right|right|right|right|now left]; unfold fork_select in H;
    (destruct (bytes_eqb d D_Bellatrix) eqn:E1; [apply bytes_eqb_eq in E1; unfold known_digest; tauto|]);
    (destruct (bytes_eqb d D_Capella) eqn:E2; [apply bytes_eqb_eq in E2; unfold known_digest; tauto|]);
    (destruct (bytes_eqb d D_Deneb) eqn:E3; [apply bytes_eqb_eq in E3; unfold known_digest; tauto|]);
    (destruct (bytes_eqb d D_Electra) eqn:E4; [apply bytes_eqb_eq in E4; unfold known_digest; tauto|]); discriminate.
Qed.

Section ForkedProofs.
  Variable P : Type.
  Variable pdec : N -> bytes -> res P.
  Variable penc : N -> P -> bytes.

  Lemma dec_Forked_digest s w d rest : nlen d = 4 ->
    dec_Forked P pdec penc s w (d ++ rest) =
    match fork_select w d with
    | None => Err E_SELECTOR
    | Some k => bind (pdec k rest) (fun p =>
        if (match w with WHistSummaries => false | _ => s end) && negb (nlen (d ++ rest) =? 4 + nlen (penc k p)) then Err E_STRICT
        else Ok (d, k, p))
    end.
  Proof.
    intros Hd. unfold dec_Forked. assert (L : length d = 4%nat) by (unfold nlen in Hd; lia).
    rewrite rd_read_fwd by (unfold rd_new; cbn [rd_i rd_max rd_inp]; rewrite nlen_app; lia).
    cbn [bind rd_new rd_inp]. change (N.to_nat 4) with 4%nat.
    now rewrite (firstn_app_exact d rest 4 L), (skipn_app_exact d rest 4 L).
  Qed.

  Lemma dec_Forked_split s w data v : dec_Forked P pdec penc s w data = Ok v -> exists d rest, data = d ++ rest /\ nlen d = 4.
  Proof.
    unfold dec_Forked. destruct (rd_read (rd_new data) 4) as [[d r1]| |] eqn:E; cbn [bind]; try discriminate. intros _.
    apply rd_read_inv in E as (H1 & H2 & _). cbn [rd_new rd_inp] in *.
    exists (firstn 4 data), (skipn 4 data). split; [now rewrite firstn_skipn|]. change 4%nat with (N.to_nat 4). now apply nlen_firstn.
  Qed.

  (* unknown digests are rejected by the four light-client wrappers, in every variant *)
  Lemma Forked_unknown_rejected s w d rest : w <> WHistSummaries -> nlen d = 4 -> ~ known_digest d ->
    dec_Forked P pdec penc s w (d ++ rest) = Err E_SELECTOR.
  Proof. intros Hw Hd Hk. rewrite dec_Forked_digest by exact Hd. now rewrite (fork_select_unknown w d Hw Hk). Qed.

  (* what is accepted carries a digest the wrapper knows and the payload type it selects *)
  Lemma Forked_accepts_known s w data d k p : dec_Forked P pdec penc s w data = Ok (d, k, p) ->
    nlen d = 4 /\ fork_select w d = Some k /\ (w = WHistSummaries \/ known_digest d).
  Proof.
    intros H. destruct (dec_Forked_split _ _ _ _ H) as (d0 & rest & -> & Hd). rewrite dec_Forked_digest in H by exact Hd.
    destruct (fork_select w d0) as [k0|] eqn:Ef; [|discriminate].
    destruct (pdec k0 rest) as [p0| |]; cbn [bind] in H; try discriminate.
    destruct (_ && _); [discriminate|]. apply Ok_inj in H. injection H as <- <- <-.
    split; [exact Hd|]. split; [exact Ef|]. now apply (fork_select_some w d0 k0).
  Qed.

  (* the library's payload codecs: decoding what was encoded gives the value back; a decoded value re-encodes to a
     prefix of what was read (zrnt decoders read left to right and may stop early for fixed-size containers) *)
  Hypothesis lib_roundtrip : forall k p, pdec k (penc k p) = Ok p.
  Hypothesis lib_prefix : forall k r p, pdec k r = Ok p -> exists t, r = penc k p ++ t.

  Lemma Forked_roundtrip s w d k p : nlen d = 4 -> fork_select w d = Some k ->
    dec_Forked P pdec penc s w (d ++ penc k p) = Ok (d, k, p).
  Proof using lib_roundtrip.
    clear lib_prefix. intros Hd Hf. rewrite dec_Forked_digest by exact Hd. rewrite Hf, lib_roundtrip. cbn [bind].
    rewrite nlen_app, Hd. replace (4 + nlen (penc k p) =? 4 + nlen (penc k p)) with true by lia. cbn [negb]. now rewrite andb_false_r.
  Qed.

  (* with the scope check the four light-client wrappers are canonical *)
  Lemma Forked_canonical w : w <> WHistSummaries -> canonical (dec_Forked P pdec penc true w) (enc_Forked P penc).
  Proof using lib_prefix.
    clear lib_roundtrip. intros Hw b [[d k] p] H. destruct (dec_Forked_split _ _ _ _ H) as (d0 & rest & -> & Hd). rewrite dec_Forked_digest in H by exact Hd.
    destruct (fork_select w d0) as [k0|]; [|discriminate].
    destruct (pdec k0 rest) as [p0| |] eqn:Ep; cbn [bind] in H; try discriminate.
    assert (Hc : (match w with WHistSummaries => false | _ => true end) = true) by (destruct w; congruence). rewrite Hc in H. cbn [andb] in H.
    destruct (nlen (d0 ++ rest) =? 4 + nlen (penc k0 p0)) eqn:El; cbn [negb] in H; [|discriminate].
    apply Ok_inj in H. injection H as <- <- <-. unfold enc_Forked. f_equal. f_equal.
    destruct (lib_prefix _ _ _ Ep) as [t Ht]. rewrite Ht in El. rewrite !nlen_app, Hd in El.
    assert (nlen t = 0) by lia. destruct t; [now rewrite Ht, app_nil_r|rewrite nlen_cons in H; lia].
  Qed.

  Lemma Forked_total s w data : (forall k r, pdec k r <> Panic) -> dec_Forked P pdec penc s w data <> Panic.
  Proof using.
    clear lib_roundtrip lib_prefix. intros Ht. unfold dec_Forked. destruct (rd_read (rd_new data) 4) as [[d r1]| |] eqn:E; cbn [bind]; try discriminate; [|now apply rd_read_total in E].
    destruct (fork_select w d); [|discriminate]. destruct (pdec n (rd_inp r1)) eqn:Ep; cbn [bind]; try discriminate; [|now apply Ht in Ep].
    destruct (_ && _); discriminate.
  Qed.
End ForkedProofs.

(* as found (no scope check) canonicity fails as soon as a payload decoder stops before the end of its input *)
Lemma Forked_as_found_canonicity_refuted :
  exists (pdec : N -> bytes -> res bytes) (penc : N -> bytes -> bytes),
    (forall k p, nlen p = 1 -> pdec k (penc k p) = Ok p) /\ (forall k r p, pdec k r = Ok p -> exists t, r = penc k p ++ t) /\
    ~ canonical (dec_Forked bytes pdec penc false WBootstrap) (enc_Forked bytes penc).
Proof.
  exists (fun _ r => match r with [] => Err E_EOF | x :: _ => Ok [x] end), (fun _ p => p). split; [|split].
  - intros k [|x [|? ?]] H; try (unfold nlen in H; simpl length in H; lia). reflexivity.
  - intros k [|x r] p H; [discriminate|]. apply Ok_inj in H. subst p. exists r. reflexivity.
  - intros H. specialize (H (D_Bellatrix ++ [x01; x02]) (D_Bellatrix, 0, [x01]) eq_refl). vm_compute in H. discriminate.
Qed.
