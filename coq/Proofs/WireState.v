(* Proofs/WireState.v : theorems about Model/WireState.v (C14, state-network types and the ztyp beacon key). *)
From Shisui Require Import Base.Bytes Base.Ssz Model.Wire Model.WireState Proofs.Ssz Proofs.Wire.
From Coq Require Import ZifyBool ZifyN ZifyNat.
Ltac Zify.zify_post_hook ::= Z.div_mod_to_equations.
Local Arguments N.add : simpl never.
Local Arguments N.sub : simpl never.
Local Arguments N.mul : simpl never.
Local Arguments N.ltb : simpl never.
Local Arguments N.leb : simpl never.
Local Arguments N.eqb : simpl never.
Local Arguments N.of_nat : simpl never.
Local Arguments N.to_nat : simpl never.

(* ================================================================== fixed-size ztyp content keys *)
Lemma dec_HistSummariesKey_spec s data :
  dec_HistSummariesKey s data =
  if s && negb (nlen data =? 8) then Err E_STRICT
  else if nlen data <? 8 then Err E_SCOPE else Ok (le_dec (firstn 8 data)).
Proof.
  unfold dec_HistSummariesKey. destruct (s && negb (nlen data =? 8)); [reflexivity|].
  rewrite rd_read_spec by lia. unfold rd_new. cbn [rd_max rd_i rd_inp].
  replace (nlen data <? 0 + 8) with (nlen data <? 8) by (f_equal; lia).
  destruct (nlen data <? 8) eqn:E; [reflexivity|]. reflexivity.
Qed.

Lemma HistSummariesKey_roundtrip s v : v < two64 -> dec_HistSummariesKey s (u64_enc v) = Ok v.
Proof.
  intros H. rewrite dec_HistSummariesKey_spec. unfold u64_enc. rewrite nlen_le_enc.
  change (N.of_nat 8 =? 8) with true. cbn [negb]. rewrite andb_false_r. change (N.of_nat 8 <? 8) with false. cbv iota.
  rewrite firstn_all2 by (rewrite le_enc_length; lia). now rewrite le_dec_enc.
Qed.
Lemma HistSummariesKey_inv s b v : dec_HistSummariesKey s b = Ok v -> v < two64 /\ firstn 8 b = u64_enc v /\ (s = true -> nlen b = 8).
Proof.
  rewrite dec_HistSummariesKey_spec. destruct (s && negb (nlen b =? 8)) eqn:Es; [discriminate|].
  destruct (nlen b <? 8) eqn:E; [discriminate|]. intros H; apply Ok_inj in H. subst v.
  assert (L : length (firstn 8 b) = 8%nat) by (rewrite firstn_length; unfold nlen in E; lia).
  split; [|split].
  - pose proof (le_dec_lt (firstn 8 b)) as B. rewrite L in B. exact B.
  - unfold u64_enc. symmetry. now apply le_enc_of_dec.
  - intros ->. cbn [andb] in Es. lia.
Qed.
Lemma HistSummariesKey_codec_lax : codec_lax_ok enc_HistSummariesKey (dec_HistSummariesKey false) LcSlotKey_wf (fun _ => True).
Proof.
  split; [|split].
  - intros v Hw _. exists (u64_enc v). split; [reflexivity|now apply HistSummariesKey_roundtrip].
  - intros v _ H. exfalso. now apply H.
  - intros b v H. apply HistSummariesKey_inv in H. split; [apply H|exact I].
Qed.
Lemma HistSummariesKey_codec_strict : codec_ok enc_HistSummariesKey (dec_HistSummariesKey true) LcSlotKey_wf (fun _ => True).
Proof.
  split; [|split; [|split]].
  - intros v Hw _. exists (u64_enc v). split; [reflexivity|now apply HistSummariesKey_roundtrip].
  - intros v _ H. exfalso. now apply H.
  - intros b v H. apply HistSummariesKey_inv in H. split; [apply H|exact I].
  - intros b v H. apply HistSummariesKey_inv in H as (_ & Hf & Hn). specialize (Hn eq_refl).
    rewrite firstn_all2 in Hf by (unfold nlen in Hn; lia). unfold enc_HistSummariesKey. now rewrite Hf.
Qed.
Lemma HistSummariesKey_canonicity_refuted : ~ canonical (dec_HistSummariesKey false) enc_HistSummariesKey.
Proof. intros H. specialize (H (repeat x00 9) 0 eq_refl). vm_compute in H. discriminate. Qed.

Lemma dec_BytecodeKey_spec s data :
  dec_BytecodeKey s data =
  if s && negb (nlen data =? 64) then Err E_STRICT
  else if nlen data <? 32 then Err E_SCOPE
  else if nlen data <? 64 then Err E_SCOPE
  else Ok (firstn 32 data, firstn 32 (skipn 32 data)).
Proof.
  unfold dec_BytecodeKey. destruct (s && negb (nlen data =? 64)); [reflexivity|].
  unfold z_unmarshal, z_fixed_container, z_bytesN, z_de.
  rewrite rd_read_spec by lia. unfold rd_new. cbn [rd_max rd_i rd_inp].
  replace (nlen data <? 0 + 32) with (nlen data <? 32) by (f_equal; lia).
  destruct (nlen data <? 32) eqn:E1; [reflexivity|]. cbn [bind].
  rewrite rd_read_spec by lia. cbn [rd_max rd_i rd_inp].
  replace (nlen data <? 0 + 32 + 32) with (nlen data <? 64) by (f_equal; lia).
  destruct (nlen data <? 64) eqn:E2; [reflexivity|].
  rewrite nlen_skipn. replace (nlen data - 32 <? 32) with false by lia. cbn [bind andb].
  change (N.to_nat 32) with 32%nat. reflexivity.
Qed.

Definition BytecodeKey_wf (v : bytes * bytes) : Prop := nlen (fst v) = 32 /\ nlen (snd v) = 32.
Lemma enc_BytecodeKey_layout v : enc_BytecodeKey v = Ok (fst v ++ snd v).
Proof. destruct v as [a c]. unfold enc_BytecodeKey, zs_fixed_container. cbn [map concat s_bytes fst snd]. now rewrite app_nil_r. Qed.
Lemma BytecodeKey_roundtrip s v : BytecodeKey_wf v -> dec_BytecodeKey s (fst v ++ snd v) = Ok v.
Proof.
  destruct v as [a c]. intros [H1 H2]. cbn [fst snd] in *. rewrite dec_BytecodeKey_spec, nlen_app.
  replace (nlen a + nlen c =? 64) with true by lia. cbn [negb]. rewrite andb_false_r.
  replace (nlen a + nlen c <? 32) with false by lia. replace (nlen a + nlen c <? 64) with false by lia.
  rewrite (firstn_app_exact a c 32), (skipn_app_exact a c 32) by (unfold nlen in H1; lia).
  rewrite firstn_all2 by (unfold nlen in H2; lia). reflexivity.
Qed.
Lemma BytecodeKey_inv s b v : dec_BytecodeKey s b = Ok v -> BytecodeKey_wf v /\ firstn 64 b = fst v ++ snd v /\ (s = true -> nlen b = 64).
Proof.
  rewrite dec_BytecodeKey_spec. destruct (s && negb (nlen b =? 64)) eqn:Es; [discriminate|].
  destruct (nlen b <? 32) eqn:E1; [discriminate|]. destruct (nlen b <? 64) eqn:E2; [discriminate|].
  intros H; apply Ok_inj in H. subst v. unfold BytecodeKey_wf. cbn [fst snd].
  split; [split|split].
  - unfold nlen in *. rewrite firstn_length. lia.
  - unfold nlen in *. rewrite firstn_length, skipn_length. lia.
  - rewrite <- (firstn_skipn 32 b) at 1. rewrite firstn_app, firstn_firstn, firstn_length.
    replace (Nat.min 64 32) with 32%nat by reflexivity.
    replace (64 - Nat.min 32 (length b))%nat with 32%nat by (unfold nlen in E1; lia). reflexivity.
  - intros ->. cbn [andb] in Es. lia.
Qed.
Lemma BytecodeKey_codec_lax : codec_lax_ok enc_BytecodeKey (dec_BytecodeKey false) BytecodeKey_wf (fun _ => True).
Proof.
  split; [|split].
  - intros v Hw _. exists (fst v ++ snd v). split; [apply enc_BytecodeKey_layout|now apply BytecodeKey_roundtrip].
  - intros v _ H. exfalso. now apply H.
  - intros b v H. apply BytecodeKey_inv in H. split; [apply H|exact I].
Qed.
Lemma BytecodeKey_codec_strict : codec_ok enc_BytecodeKey (dec_BytecodeKey true) BytecodeKey_wf (fun _ => True).
Proof.
  split; [|split; [|split]].
  - intros v Hw _. exists (fst v ++ snd v). split; [apply enc_BytecodeKey_layout|now apply BytecodeKey_roundtrip].
  - intros v _ H. exfalso. now apply H.
  - intros b v H. apply BytecodeKey_inv in H. split; [apply H|exact I].
  - intros b v H. apply BytecodeKey_inv in H as (_ & Hf & Hn). specialize (Hn eq_refl).
    rewrite firstn_all2 in Hf by (unfold nlen in Hn; lia). rewrite Hf. apply enc_BytecodeKey_layout.
Qed.
Lemma BytecodeKey_canonicity_refuted : ~ canonical (dec_BytecodeKey false) enc_BytecodeKey.
Proof. intros H. specialize (H (repeat x07 65) (repeat x07 32, repeat x07 32) eq_refl). vm_compute in H. discriminate. Qed.

Lemma dec_HistSummariesKey_total s b : dec_HistSummariesKey s b <> Panic.
Proof. rewrite dec_HistSummariesKey_spec. np. Qed.
Lemma dec_BytecodeKey_total s b : dec_BytecodeKey s b <> Panic.
Proof. rewrite dec_BytecodeKey_spec. np. Qed.
