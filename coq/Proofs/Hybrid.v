(* Proofs/Hybrid.v : the C04 statements carry over unchanged through the routing layers. *)
From Shisui Require Import Base.Bytes Gen.K_storage Model.Storage Model.Hybrid Proofs.Storage.

Section HybridFacts.
  Context {V E : Type}.
  Variable vlen : V -> N.
  Variable vhead8 : V -> res N.
  Variable dec : bytes -> N.
  Variable eph_get : E -> bytes -> bytes -> res (option V).
  Variable eph_put : E -> bytes -> bytes -> V -> res E.
  Notation hget := (hget eph_get).
  Notation hput := (hput vlen dec eph_put).

  (* routing depends on the content key only (never on the content id), and Get and Put agree on it *)
  Lemma hget_eternal (h : hstore (V:=V) (E:=E)) key id : is_ephemeral key = false ->
    hget h key id = bind (get (eternal h) id) (fun r => Ok (FromEternal r)).
  Proof. intros H. unfold Hybrid.hget. now rewrite H. Qed.

  Lemma hput_eternal (h : hstore (V:=V) (E:=E)) key id v : is_ephemeral key = false ->
    hput h key id v = bind (put vlen dec (eternal h) id v) (fun r =>
        let '(s', pr, bs) := r in Ok ({| eternal := s'; eph := eph h |}, pr, bs)).
  Proof. intros H. unfold Hybrid.hput. now rewrite H. Qed.

  (* a put under an ephemeral key never touches the eternal store, so every get of a non-ephemeral key is unchanged *)
  Lemma hput_ephemeral_frame (h h' : hstore (V:=V) (E:=E)) key id v r bs : is_ephemeral key = true ->
    hput h key id v = Ok (h', r, bs) ->
    eternal h' = eternal h /\ bs = [] /\
    forall key' id', is_ephemeral key' = false -> hget h' key' id' = hget h key' id'.
  Proof.
    intros H P. unfold Hybrid.hput in P. rewrite H in P.
    destruct (eph_put (eph h) key id v); cbn [bind] in P; inversion P; subst. cbn [eternal].
    split; [reflexivity|]. split; [reflexivity|]. intros key' id' H'. now rewrite !hget_eternal.
  Qed.

  (* the put/get statement of C04 through the hybrid store, for any non-ephemeral keys (the key used for reading
     may differ from the one used for writing: only the content id addresses the item) *)
  Theorem hybrid_put_get Q (h h' : hstore (V:=V) (E:=E)) key id v r bs :
    Inv vlen Q (eternal h) -> valid_id (node (eternal h)) id -> is_ephemeral key = false ->
    hput h key id v = Ok (h', r, bs) ->
    eph h' = eph h /\
    ((r = Refused /\ h' = h /\ bs = []) \/
     (r = Stored /\ forall key' id', is_ephemeral key' = false -> valid_id (node (eternal h)) id' ->
        hget h' key' id' = (if bytes_eqb id' id then Ok (FromEternal (Some (Item v))) else hget h key' id') \/
        (hget h' key' id' = Ok (FromEternal None) /\ cap (eternal h) < cnt (eternal h) + 32 + vlen v))).
  Proof.
    intros I VI HK P. rewrite hput_eternal in P by exact HK.
    destruct (put vlen dec (eternal h) id v) as [[[s' pr] bs']| |] eqn:PE; cbn [bind] in P; try discriminate.
    inversion P; subst. cbn [eph]. split; [reflexivity|].
    destruct (put_get vlen vhead8 dec Q (eternal h) id v s' r bs I VI PE) as [(R1 & R2 & R3)|(R1 & R2)].
    - left. subst. split; [reflexivity|]. split; [now destruct h | reflexivity].
    - right. split; [exact R1|]. intros key' id' HK' VI'. rewrite !hget_eternal by exact HK'. cbn [eternal].
      destruct (R2 id' VI') as [G|(G & C)].
      + left. rewrite G. destruct (bytes_eqb id' id); reflexivity.
      + right. rewrite G. split; [reflexivity | exact C].
  Qed.

  (* the invariant of the eternal store is kept by every hybrid put (so the history theorems compose) *)
  Theorem hybrid_put_inv Q (h h' : hstore (V:=V) (E:=E)) key id v r bs :
    Inv vlen Q (eternal h) -> valid_id (node (eternal h)) id -> hput h key id v = Ok (h', r, bs) ->
    exists Q' : bytes -> V -> Prop, (forall k x, Q k x -> Q' k x) /\ Inv vlen Q' (eternal h').
  Proof.
    intros I (Hid & Hne) P. destruct (is_ephemeral key) eqn:HK.
    - destruct (hput_ephemeral_frame h h' key id v r bs HK P) as (EQ & _). exists Q. split; [tauto | now rewrite EQ].
    - rewrite hput_eternal in P by exact HK.
      destruct (put_inv vlen vhead8 dec Q (eternal h) id v I Hid Hne) as (k & XK & Lk & Nk & [(NR & P')|(HR & I1 & AB & [(LE & P')|(GT & s2 & b2 & P' & I2 & _)])]);
        cbn zeta in *; rewrite P' in P; cbn [bind] in P; inversion P; subst; cbn [eternal].
      + exists Q. split; [tauto | exact I].
      + eexists. split; [|exact I1]. cbn; tauto.
      + eexists. split; [|exact I2]. cbn; tauto.
  Qed.
End HybridFacts.

(* every history key type other than OfferEphemeralType is served by the eternal store, whatever follows the type byte *)
Lemma history_key_types_route : forall rest,
  is_ephemeral (x00 :: rest) = false /\ is_ephemeral (x01 :: rest) = false /\ is_ephemeral (x02 :: rest) = false /\
  is_ephemeral (x03 :: rest) = false /\ is_ephemeral (x04 :: rest) = false /\ is_ephemeral (x05 :: rest) = true /\
  is_ephemeral [] = false.
Proof. intros rest. repeat split; reflexivity. Qed.

(* the state wrapper's Get is the wrapped store's Get *)
Lemma state_get_passthrough {V : Type} (s : st (V:=V)) key id : state_get s key id = get s id.
Proof. reflexivity. Qed.
