(* Proofs/DispatchFull.v : the composed entry points of Model/DispatchFull.v never panic (C01), from the totality of the
   decoders (C14, Proofs/Wire.v) and of the handlers (C11 Proofs/Handlers.v, C08 Proofs/FindContent.v, C09 here, C19
   Proofs/Versions.v, C15 Proofs/Framing.v, C20: pure functions) and the dispatch theorems of Proofs/Dispatch.v. *)
From Shisui Require Import Base.Bytes Base.Ssz Gen.K_wire Gen.K_table Gen.K_handlers.
From Shisui Require Import Model.Framing Model.Dispatch Model.Wire Model.Handlers Model.Gossip Model.Versions Model.Offer
     Model.DispatchFull.
From Shisui Require Import Proofs.Framing Proofs.Dispatch Proofs.Wire Proofs.Handlers Proofs.FindContent Proofs.Gossip
     Proofs.Versions Proofs.Offer.
From Coq Require Import ZifyBool ZifyN ZifyNat Permutation.

Local Arguments N.modulo : simpl never.
Local Arguments N.div : simpl never.
Local Arguments N.pow : simpl never.
Local Arguments N.mul : simpl never.
Local Arguments N.add : simpl never.
Local Arguments N.sub : simpl never.
Local Arguments N.ltb : simpl never.
Local Arguments N.leb : simpl never.
Local Arguments N.eqb : simpl never.
Local Arguments N.of_nat : simpl never.
Local Arguments N.to_nat : simpl never.
Local Arguments Nat.div : simpl never.
Local Arguments Nat.ltb : simpl never.

(* ================================================================ glue *)
Lemma to_reply_total {A} (r : res A) : r <> Panic -> to_reply r <> Panic.
Proof. destruct r; cbn; [discriminate|discriminate|congruence]. Qed.
Lemma nil_on_err_total {A} (r : res A) : r <> Panic -> nil_on_err r <> Panic.
Proof. destruct r; cbn; [discriminate|discriminate|congruence]. Qed.
Lemma erase_total {A} (k : bytes -> res A) : (forall b, k b <> Panic) -> forall b, erase k b <> Panic.
Proof. intros H b. unfold erase. specialize (H b). destruct (k b); cbn [bind]; [discriminate|discriminate|congruence]. Qed.
Lemma bind_ok_total {A B} (r : res A) (f : A -> B) : r <> Panic -> bind r (fun a => Ok (f a)) <> Panic.
Proof. destruct r; cbn [bind]; [discriminate|discriminate|congruence]. Qed.

(* ================================================================ PING *)
Lemma dec_payload_radius_total pt payload : dec_payload_radius pt payload <> Panic.
Proof.
  unfold dec_payload_radius.
  destruct (pt =? K_ext_ClientInfo).
  { pose proof (dec_ClientInfo_total payload). destruct (dec_ClientInfo payload) as [[[ci r] caps]| |]; cbn [bind]; congruence. }
  destruct (pt =? K_ext_BasicRadius).
  { pose proof (dec_BasicRadius_total code_strict_fixed_scope payload).
    destruct (dec_BasicRadius code_strict_fixed_scope payload); cbn [bind]; congruence. }
  destruct (pt =? K_ext_HistoryRadius); [|discriminate].
  pose proof (dec_HistoryRadius_total code_strict_fixed_scope payload).
  destruct (dec_HistoryRadius code_strict_fixed_scope payload) as [[r c]| |]; cbn [bind]; congruence.
Qed.

(* ztyp's WriteOffset panics when an offset does not fit uint32: the only way the local ClientInfo payload can fail to encode.
   (Proofs/Wire.v enc_ClientInfo_layout, with the one hypothesis the computation needs.) *)
Lemma enc_ClientInfo_ok ci radius caps :
  nlen ci + 40 < Ssz.two32 -> exists b, enc_ClientInfo (ci, radius, caps) = Ok b.
Proof.
  intros Hs. unfold enc_ClientInfo, zs_container.
  unfold zs_fixedlen. cbn [fold_left s_fix]. change (32 =? 0) with false. change (0 =? 0) with true. cbn [negb].
  cbn [zs_pass1 s_fix s_bytes]. change (32 =? 0) with false. change (0 =? 0) with true. cbn [negb].
  replace (0 + 4 + 32 + 4) with 40 by reflexivity. unfold z_write_offset.
  change ((Ssz.two32 <=? 40) || (Ssz.two32 <=? 0) || (Ssz.two32 <=? 40 + 0)) with false. cbv iota. cbn [bind].
  replace (40 + 0) with 40 by reflexivity.
  replace ((Ssz.two32 <=? 40) || (Ssz.two32 <=? nlen ci) || (Ssz.two32 <=? 40 + nlen ci)) with false by lia. cbn [bind].
  eexists. reflexivity.
Qed.

Lemma enc_Pong_total v : enc_Pong v <> Panic.
Proof. unfold enc_Pong. rewrite enc_Ping_spec. destruct v as [[s p] b]. destruct (nlen b <=? L_PingPayload); discriminate. Qed.

Lemma answer_decoded_total {A} st (dec : res A) own : dec <> Panic -> own <> Panic -> answer_decoded st dec own <> Panic.
Proof. intros H1 H2. unfold answer_decoded. destruct dec; [exact H2|discriminate|congruence]. Qed.

Lemma handle_ping_total st ping :
  nlen (ns_client_info st) + 40 < Ssz.two32 -> handle_ping st ping <> Panic.
Proof.
  intros Hci. destruct ping as [[seq pt] payload]. unfold handle_ping.
  destruct (negb (existsb (N.eqb pt) (ns_supported st))); [discriminate|].
  destruct (pt =? K_ext_ClientInfo).
  { apply answer_decoded_total; [apply dec_ClientInfo_total|].
    apply bind_no_panic; [|discriminate].
    destruct (enc_ClientInfo_ok (ns_client_info st) (radius_bytes st) (ns_supported st) Hci) as [b Hb]. intros Hp.
    assert (X : @Panic bytes = Ok b) by (exact (eq_trans (eq_sym Hp) Hb)). discriminate X. }
  destruct (pt =? K_ext_BasicRadius).
  { apply answer_decoded_total; [apply dec_BasicRadius_total|discriminate]. }
  destruct (pt =? K_ext_HistoryRadius).
  { apply answer_decoded_total; [apply dec_HistoryRadius_total|]. rewrite enc_HistoryRadius_layout. discriminate. }
  destruct (pt =? K_ext_Error); discriminate.
Qed.

Lemma full_ping_total st p body :
  nlen (ns_client_info st) + 40 < Ssz.two32 -> full_ping st p body <> Panic.
Proof.
  intros Hci. unfold full_ping.
  apply bind_no_panic; [apply dec_Ping_total|]. intros ping _.
  apply bind_no_panic; [now apply handle_ping_total|]. intros pong _.
  apply bind_no_panic; [apply enc_Pong_total|]. discriminate.
Qed.

(* ================================================================ FINDNODES *)
(* Proofs/Handlers.v proves these inside a Section that also assumes the shuffle to be a permutation; indexing the
   bucket array does not depend on it, so they are redone here for an arbitrary function *)
Lemma append_bucket_nodes_np tab self f d : length tab = N.to_nat K_nBuckets ->
  append_bucket_nodes tab self f d true <> Panic.
Proof.
  intros Hlen. unfold append_bucket_nodes. destruct (256 <? d) eqn:E1; [discriminate|].
  destruct (d =? 0); [discriminate|]. unfold idx.
  destruct (nth_error tab (bucket_index d)) eqn:Eb; cbn [bind]; [discriminate|].
  apply nth_error_None in Eb. exfalso. revert Eb. rewrite Hlen. unfold bucket_index, K_bucketMinDistance, K_nBuckets.
  destruct (d <=? 239) eqn:E3; lia.
Qed.

Lemma collect_aux_np tab self rip shuf dists : length tab = N.to_nat K_nBuckets ->
  forall processed nodes limit, collect_aux tab self rip shuf dists processed nodes limit <> Panic.
Proof.
  intros Hlen. induction dists as [|d rest IH]; intros; cbn [collect_aux]; [discriminate|].
  destruct (existsb (N.eqb d) processed || (256 <? d)); [apply IH|].
  pose proof (append_bucket_nodes_np tab self (shuf d) d Hlen) as Hnp.
  destruct (append_bucket_nodes tab self (shuf d) d true); [|discriminate|congruence].
  destruct (add_limited rip a nodes limit) as [n' [|]]; [discriminate|apply IH].
Qed.

Lemma handle_find_nodes_np tab self rip shuf dists : length tab = N.to_nat K_nBuckets ->
  handle_find_nodes tab self rip shuf dists <> Panic.
Proof.
  intros Hlen. unfold handle_find_nodes, collect_table_nodes.
  pose proof (collect_aux_np tab self rip shuf dists Hlen [] [] K_portalFindnodesResultLimit).
  destruct (collect_aux tab self rip shuf dists [] [] K_portalFindnodesResultLimit); cbn [bind]; try congruence.
  destruct (marshal_enrs_ok _); discriminate.
Qed.

Lemma full_findnodes_total st p shuf body :
  length (ns_tab st) = N.to_nat K_nBuckets -> full_findnodes st p shuf body <> Panic.
Proof.
  intros Hlen. unfold full_findnodes. apply bind_no_panic; [apply dec_FindNodes_total|].
  intros ds _. now apply handle_find_nodes_np.
Qed.

(* with rand.Shuffle a permutation (C11_handler_total): a FINDNODES that decodes is always answered *)
Lemma full_findnodes_answers st p shuf body ds :
  is_shuffle shuf -> length (ns_tab st) = N.to_nat K_nBuckets -> dec_FindNodes body = Ok ds ->
  exists enrs, full_findnodes st p shuf body = Ok enrs.
Proof.
  intros Hs Hlen Hd. unfold full_findnodes. rewrite Hd. cbn [bind].
  apply (findnodes_total shuf Hs (ns_tab st) (ns_self st) (pr_addr p) (map le_dec ds) Hlen).
Qed.

(* ================================================================ FINDCONTENT *)
Lemma full_findcontent_total st p srt body : full_findcontent st p srt body <> Panic.
Proof.
  unfold full_findcontent. apply bind_no_panic; [apply dec_FindContent_total|].
  intros key _. destruct (ns_content st key); [apply handle_find_content_total|discriminate].
Qed.

(* ================================================================ OFFER (the handler model of C09 had no totality theorem) *)
(* getOrStoreHighestVersion indexes p.currentVersions[0] when the peer's record has no "pv" entry *)
Lemma get_or_store_no_panic own c node e : own <> [] -> fst (get_or_store own c node e) <> Panic.
Proof.
  intros Hown. unfold get_or_store. destruct (c node); [discriminate|].
  destruct e as [| |l].
  - destruct own as [|v rest]; [congruence|]. cbn. discriminate.
  - discriminate.
  - destruct (find_biggest_same own l) as [v [er|]]; cbn [fst]; discriminate.
Qed.

Lemma peer_version_total st p : ns_versions st <> [] -> peer_version st p <> Panic.
Proof. intros H. unfold peer_version. now apply get_or_store_no_panic. Qed.

Lemma accept_kind_of_total v : accept_kind_of v <> Panic.
Proof. unfold accept_kind_of. destruct (v =? 0); [discriminate|]. destruct (v =? 1); discriminate. Qed.

Lemma filter_v0_loop_total nv keys : forall i bits acc, filter_v0_loop nv keys i bits acc <> Panic.
Proof.
  induction keys as [|k r IH]; intros; cbn [filter_v0_loop]; [discriminate|].
  destruct (nv_nilid nv k); [discriminate|]. destruct (negb (nv_inrange nv k)); [apply IH|].
  destruct (nv_stored nv k); apply IH.
Qed.
Lemma filter_v1_loop_total nv keys : forall codes acc, filter_v1_loop nv keys codes acc <> Panic.
Proof.
  induction keys as [|k r IH]; intros; cbn [filter_v1_loop]; [discriminate|].
  destruct (nv_nilid nv k); [discriminate|]. destruct (negb (nv_inrange nv k)); [apply IH|].
  destruct (nv_stored nv k); [apply IH|]. destruct (nv_inflight nv k); apply IH.
Qed.
Lemma marshal_accept_total connid body : marshal_accept connid body <> Panic.
Proof.
  unfold marshal_accept. destruct (negb (Nat.eqb (length connid) 2)); [discriminate|].
  destruct (Nat.ltb accept_keys_limit (length body)); discriminate.
Qed.

Lemma handle_offer_gen_total cv ver nv pf cid keys : ver <> Panic -> handle_offer_gen cv ver nv pf cid keys <> Panic.
Proof.
  intros Hv. unfold handle_offer_gen. destruct ver as [v|e|]; [|discriminate|congruence].
  pose proof (accept_kind_of_total v) as Hk. destruct (accept_kind_of v) as [[|]|e|]; [| |discriminate|congruence].
  - apply bind_no_panic.
    + unfold filter_v0. destruct (nv_queue_room nv); [apply filter_v0_loop_total|discriminate].
    + intros [bits akeys] _. apply bind_no_panic; [apply marshal_accept_total|]. discriminate.
  - apply bind_no_panic.
    + apply filter_v1_loop_total.
    + intros [codes akeys] _. apply bind_no_panic; [apply marshal_accept_total|]. discriminate.
Qed.

Lemma full_offer_total st p body : ns_versions st <> [] -> full_offer st p body <> Panic.
Proof.
  intros Hv. unfold full_offer. apply bind_no_panic; [apply dec_Offer_total|].
  intros keys _. apply handle_offer_gen_total. now apply peer_version_total.
Qed.

(* ================================================================ handleTalkRequest, composed *)
(* the structural side conditions on the local node: the bucket array has its compiled size, the node implements at
   least one protocol version, the local client string is shorter than 4 GiB *)
Definition node_ok (st : node_state) : Prop :=
  length (ns_tab st) = N.to_nat K_nBuckets /\ ns_versions st <> [] /\ nlen (ns_client_info st) + 40 < Ssz.two32.

Theorem full_talk_request_total st p shuf srt :
  node_ok st -> forall msg, full_talk_request st p shuf srt true msg <> Panic.
Proof.
  intros (Ht & Hv & Hc). unfold full_talk_request. apply handle_talk_request_total.
  - intros b. apply to_reply_total. now apply full_ping_total.
  - intros b. apply to_reply_total. now apply full_findnodes_total.
  - intros b. apply to_reply_total. apply full_findcontent_total.
  - intros b. apply to_reply_total. now apply full_offer_total.
Qed.

(* the code as found (no length guard) panics on the empty TALKREQ whatever the handlers are *)
Theorem full_talk_request_empty_refuted st p shuf srt : full_talk_request st p shuf srt false [] = Panic.
Proof. reflexivity. Qed.

(* full_talk_request is full_talk_request_t with the reply forgotten *)
Lemma to_reply_nil_on_err {A B} (r : res A) (f : A -> B) :
  to_reply r = bind (nil_on_err (bind r (fun a => Ok (f a)))) (fun o => Ok (match o with Some _ => Reply | None => Empty end)).
Proof. destruct r; reflexivity. Qed.

Theorem full_talk_request_erases st p shuf srt g msg :
  full_talk_request st p shuf srt g msg =
  bind (full_talk_request_t st p shuf srt g msg) (fun o => Ok (match o with Some _ => Reply | None => Empty end)).
Proof.
  unfold full_talk_request, full_talk_request_t, handle_talk_request.
  destruct (g && Nat.eqb (length msg) 0); [reflexivity|].
  destruct (idx msg 0) as [c| |]; cbn [bind]; try reflexivity.
  destruct (b2n c =? K_msg_PING).
  { destruct (tail1 msg) as [b| |]; cbn [bind]; try reflexivity.
    rewrite (to_reply_nil_on_err (full_ping st p b) (fun x => let '(r, ch) := x in T_Pong r ch)).
    destruct (full_ping st p b) as [[r ch]| |]; reflexivity. }
  destruct (b2n c =? K_msg_FINDNODES).
  { destruct (tail1 msg) as [b| |]; cbn [bind]; try reflexivity. apply to_reply_nil_on_err. }
  destruct (b2n c =? K_msg_FINDCONTENT).
  { destruct (tail1 msg) as [b| |]; cbn [bind]; try reflexivity. apply to_reply_nil_on_err. }
  destruct (b2n c =? K_msg_OFFER); [|reflexivity].
  destruct (tail1 msg) as [b| |]; cbn [bind]; try reflexivity. apply to_reply_nil_on_err.
Qed.

(* ================================================================ TALKRESP processors *)
(* the instances of Dispatch.process_resp / Dispatch.process_content are the typed processors with the value forgotten *)
Lemma process_resp_erases {A} code (k : bytes -> res A) resp :
  Dispatch.process_resp code (erase k) resp = bind (process_resp_t code k resp) (fun _ => Ok tt).
Proof.
  unfold Dispatch.process_resp, process_resp_t. destruct (Nat.eqb (length resp) 0); [reflexivity|].
  destruct (idx resp 0) as [c| |]; cbn [bind]; try reflexivity.
  destruct (negb (b2n c =? code)); [reflexivity|].
  destruct (tail1 resp) as [b| |]; cbn [bind]; reflexivity.
Qed.

Lemma process_content_erases {A} (k1 k2 k3 : bytes -> res A) g resp :
  Dispatch.process_content K_msg_CONTENT K_sel_ConnId K_sel_Raw K_sel_Enrs (erase k1) (erase k2) (erase k3) g resp =
  bind (process_content_t k1 k2 k3 g resp) (fun _ => Ok tt).
Proof.
  unfold Dispatch.process_content, process_content_t. destruct (Nat.eqb (length resp) 0); [reflexivity|].
  destruct (idx resp 0) as [c| |]; cbn [bind]; try reflexivity.
  destruct (negb (b2n c =? K_msg_CONTENT)); [reflexivity|].
  destruct (g && Nat.ltb (length resp) 2); [reflexivity|].
  destruct (idx resp 1) as [s| |]; cbn [bind]; try reflexivity.
  destruct (slice resp 2 (length resp)) as [b| |]; cbn [bind];
    destruct (b2n s =? K_sel_Raw); try reflexivity; destruct (b2n s =? K_sel_ConnId); try reflexivity;
    destruct (b2n s =? K_sel_Enrs); reflexivity.
Qed.

(* ---------------------------------------------------------------- PONG *)
Lemma pong_body_total st p body : pong_body st p body <> Panic.
Proof.
  unfold pong_body. apply bind_no_panic; [apply dec_Ping_total|]. intros [[seq pt] payload] _.
  destruct (pr_present p); [|discriminate].
  destruct (negb (existsb (N.eqb pt) (ns_supported st))); [discriminate|].
  destruct (carries_radius pt); [|discriminate].
  apply bind_no_panic; [apply dec_payload_radius_total|]. discriminate.
Qed.

(* the radius cache after a PONG is the one Model/Gossip.v (C20) computes from the same event *)
Lemma pong_body_cache st p body pong c' :
  pong_body st p body = Ok (pong, c') ->
  c' = Gossip.process_pong (ns_supported st) (ns_cache st) (payload_event true p pong).
Proof.
  unfold pong_body. destruct (dec_Pong body) as [[[seq pt] payload]| |]; cbn [bind]; try discriminate.
  destruct (pr_present p) eqn:E1.
  2:{ intros H; inversion H; subst. unfold Gossip.process_pong, payload_event. cbn [ev_present]. now rewrite E1. }
  destruct (negb (existsb (N.eqb pt) (ns_supported st))) eqn:E2; [discriminate|].
  destruct (carries_radius pt) eqn:E3; [|discriminate].
  destruct (dec_payload_radius pt payload) as [r| |] eqn:E4; cbn [bind]; try discriminate.
  intros H; inversion H; subst. unfold Gossip.process_pong, payload_event. cbn [ev_present ev_ptype ev_radius ev_id].
  now rewrite E1, E2, E3, E4.
Qed.
(* ... and a PONG that is refused leaves the cache of C20 unchanged *)
Lemma pong_body_refused st p body pong e :
  dec_Pong body = Ok pong -> pong_body st p body = Err e ->
  Gossip.process_pong (ns_supported st) (ns_cache st) (payload_event true p pong) = ns_cache st.
Proof.
  intros Hd. unfold pong_body. rewrite Hd. cbn [bind]. destruct pong as [[seq pt] payload].
  unfold Gossip.process_pong, payload_event. cbn [ev_present ev_ptype ev_radius ev_id].
  destruct (pr_present p); [|discriminate].
  destruct (negb (existsb (N.eqb pt) (ns_supported st))); [reflexivity|].
  destruct (carries_radius pt); [|reflexivity].
  destruct (dec_payload_radius pt payload) as [r| |]; cbn [bind]; try discriminate; reflexivity.
Qed.

Theorem full_process_pong_total st p resp : full_process_pong st p resp <> Panic.
Proof. apply process_resp_total. apply erase_total. apply pong_body_total. Qed.

(* ---------------------------------------------------------------- NODES *)
Lemma nodes_body_total enr_view sender dists body : nodes_body enr_view sender dists body <> Panic.
Proof.
  unfold nodes_body. apply bind_no_panic; [apply dec_Nodes_total|]. intros [total enrs] _. discriminate.
Qed.
Theorem full_process_nodes_total enr_view sender dists resp : full_process_nodes enr_view sender dists resp <> Panic.
Proof. apply process_resp_total. apply erase_total. apply nodes_body_total. Qed.

(* ---------------------------------------------------------------- CONTENT *)
Lemma content_raw_body_total body : content_raw_body body <> Panic.
Proof. unfold content_raw_body. apply bind_ok_total. apply dec_Content_total. Qed.
Lemma content_connid_body_total body : content_connid_body body <> Panic.
Proof. unfold content_connid_body. apply bind_ok_total. apply dec_ConnectionId_total. Qed.
Lemma content_enrs_body_total enr_view sender body : content_enrs_body enr_view sender body <> Panic.
Proof. unfold content_enrs_body. apply bind_ok_total. apply dec_Enrs_total. Qed.

Theorem full_process_content_total enr_view sender resp : full_process_content enr_view sender true resp <> Panic.
Proof.
  apply process_content_total; apply erase_total;
    [apply content_raw_body_total | apply content_connid_body_total | apply content_enrs_body_total].
Qed.
(* the code as found: the one-byte CONTENT response *)
Theorem full_process_content_one_byte_refuted enr_view sender : full_process_content enr_view sender false [x05] = Panic.
Proof. reflexivity. Qed.

(* the stream that follows a connection-id reply *)
Lemma decode_utp_content_total v data : decode_utp_content v data <> Panic.
Proof.
  unfold decode_utp_content. destruct (v =? 1); [|discriminate].
  pose proof (decode_single_no_panic data). destruct (decode_single data) as [[c rem]| |]; [|discriminate|congruence].
  destruct rem; discriminate.
Qed.
Theorem full_content_stream_total st p data : ns_versions st <> [] -> full_content_stream st p data <> Panic.
Proof.
  intros Hv. unfold full_content_stream. pose proof (peer_version_total st p Hv).
  destruct (peer_version st p); [apply decode_utp_content_total|discriminate|congruence].
Qed.

(* ---------------------------------------------------------------- ACCEPT (the offering side of C09 had no totality theorem) *)
Lemma gather_total {A} (l : list A) ixs : (forall i, In i ixs -> (i < length l)%nat) -> gather l ixs <> Panic.
Proof.
  induction ixs as [|i r IH]; intros H; cbn [gather]; [discriminate|].
  destruct (idx_ok l i (H i (or_introl eq_refl))) as [a ->]. cbn [bind].
  apply bind_ok_total. apply IH. intros j Hj. apply H. now right.
Qed.

Lemma be16_dec_total b : length b = 2%nat -> be16_dec b <> Panic.
Proof.
  intros H. destruct b as [|hi [|lo [|? ?]]]; discriminate.
Qed.

(* processOffer indexes the offered contents / keys with the accepted indices: fine as long as every index is below the
   key count the ACCEPT announces (which the code compares with the number of offered keys first) *)
Lemma accept_tail_total lookup req connid keys klen ixs :
  length connid = 2%nat -> (forall i, In i ixs -> (i < klen)%nat) -> accept_tail lookup req connid keys klen ixs <> Panic.
Proof.
  intros Hc Hix. unfold accept_tail. destruct (Nat.eqb klen (req_key_count req)) eqn:Ek; cbn [negb]; [|discriminate].
  apply Nat.eqb_eq in Ek. destruct ixs as [|i0 r]; [discriminate|]. remember (i0 :: r) as ixs.
  apply bind_no_panic; [now apply be16_dec_total|]. intros cid _.
  apply bind_no_panic; [|discriminate].
  destruct req as [items|k content|ks]; cbn [req_key_count] in Ek.
  - apply gather_total. intros i Hi. rewrite map_length. specialize (Hix i Hi). lia.
  - discriminate.
  - apply bind_ok_total. apply gather_total. intros i Hi. specialize (Hix i Hi). lia.
Qed.

(* go-bitfield: BitIndices() of a bitlist whose last byte is not zero stay below Len() *)
Lemma byte_bits_length x : length (byte_bits x) = 8%nat.
Proof.
  unfold byte_bits. destruct (Byte.to_bits x) as (b0 & b1 & b2 & b3 & b4 & b5 & b6 & b7). reflexivity.
Qed.

Lemma positions_map l : forall off, positions off l = map (Nat.add off) (positions 0 l).
Proof.
  induction l as [|x r IH]; intros off; cbn [positions]; [reflexivity|].
  rewrite (IH (S off)), (IH 1%nat). destruct x; cbn [map]; rewrite map_map.
  - f_equal; [lia|]. apply map_ext. intros; lia.
  - apply map_ext. intros; lia.
Qed.

Lemma last_byte_indices x :
  forallb (fun i => Nat.ltb i (pred (len8 x))) (positions 0 (clear_msb (byte_bits x))) = true.
Proof. destruct x; reflexivity. Qed.

Lemma len8_zero x : len8 x = 0%nat -> b2n x = 0.
Proof. destruct x; cbn; intros H; try discriminate H; reflexivity. Qed.

Lemma bit_indices_from_lt b : forall off n, bl_len_opt b = Some n ->
  forall i, In i (bit_indices_from off b) -> (i < off + n)%nat.
Proof.
  induction b as [|x r IH]; intros off n Hn i Hi; [discriminate|].
  destruct r as [|y r'].
  - cbn [bl_len_opt] in Hn. cbn [bit_indices_from] in Hi.
    destruct (len8 x) as [|m] eqn:El; [discriminate|]. inversion Hn; subst n; clear Hn.
    rewrite positions_map in Hi. apply in_map_iff in Hi as [j [<- Hj]].
    pose proof (last_byte_indices x) as Hb. rewrite forallb_forall in Hb. specialize (Hb j Hj).
    rewrite El in Hb. cbn [pred] in Hb. apply Nat.ltb_lt in Hb. lia.
  - remember (y :: r') as t. cbn [bl_len_opt] in Hn. cbn [bit_indices_from] in Hi. subst t.
    change (match bl_len_opt (y :: r') with Some n0 => Some (8 + n0)%nat | None => None end = Some n) in Hn.
    change (In i (positions off (byte_bits x) ++ bit_indices_from (8 + off) (y :: r'))) in Hi.
    destruct (bl_len_opt (y :: r')) as [n'|] eqn:En; [|discriminate]. inversion Hn; subst n; clear Hn.
    apply in_app_or in Hi as [Hi|Hi].
    + apply positions_lt in Hi. rewrite byte_bits_length in Hi. lia.
    + specialize (IH (8 + off)%nat n' eq_refl i Hi). lia.
Qed.

(* fastssz ValidateBitlist (the version of Base/Ssz.v used by dec_Accept) refuses a zero last byte *)
Lemma bl_len_opt_snoc l x :
  bl_len_opt (l ++ [x]) = match len8 x with O => None | S m => Some (8 * length l + m)%nat end.
Proof.
  induction l as [|a l IH]; [cbn; destruct (len8 x); reflexivity|].
  cbn [app]. destruct (l ++ [x]) as [|y t] eqn:E; [destruct l; discriminate|].
  change (bl_len_opt (a :: y :: t)) with (match bl_len_opt (y :: t) with Some n => Some (8 + n)%nat | None => None end).
  rewrite IH. destruct (len8 x); [reflexivity|]. f_equal. cbn [length]. lia.
Qed.

Lemma ssz_validate_bitlist_len buf lim : Ssz.validate_bitlist buf lim = Ok tt -> exists n, bl_len_opt buf = Some n.
Proof.
  unfold Ssz.validate_bitlist. destruct (nlen buf =? 0) eqn:E0; [discriminate|].
  destruct (N.shiftr lim 3 + 1 <? nlen buf); [discriminate|].
  destruct buf as [|b0 t] using rev_ind; [discriminate|]. clear IHt.
  unfold idx. rewrite app_length. cbn [length]. replace (length t + 1 - 1)%nat with (length t) by lia.
  rewrite nth_error_app2 by lia. rewrite Nat.sub_diag. cbn [nth_error bind].
  destruct (b2n b0 =? 0) eqn:Ez; [discriminate|]. intros _.
  rewrite bl_len_opt_snoc. destruct (len8 b0) eqn:El; [|eexists; reflexivity].
  apply len8_zero in El. lia.
Qed.

Lemma code_indices_lt codes : forall off i, In i (code_indices off codes) -> (i < off + length codes)%nat.
Proof.
  induction codes as [|c r IH]; intros off i Hi; cbn [code_indices] in Hi; [destruct Hi|].
  cbn [length]. destruct (b2n c =? K_acc_Accepted).
  - destruct Hi as [<-|Hi]; [lia|]. specialize (IH _ _ Hi). lia.
  - specialize (IH _ _ Hi). lia.
Qed.

Lemma accept_body_total ver lookup req body : ver <> Panic -> accept_body ver lookup req body <> Panic.
Proof.
  intros Hv. unfold accept_body. destruct ver as [v|e|]; [|discriminate|congruence].
  pose proof (accept_kind_of_total v) as Hk. destruct (accept_kind_of v) as [[|]|e|]; [| |discriminate|congruence].
  - apply bind_no_panic; [apply dec_Accept_total|]. intros [connid keys] Hd.
    destruct (within_of _ _ _ _ Accept_codec body (connid, keys) Hd) as [_ [Hc Hb]]. cbn [fst snd] in Hc, Hb.
    destruct (ssz_validate_bitlist_len _ _ Hb) as [n Hn].
    apply accept_tail_total; [unfold nlen in Hc; lia|].
    intros i Hi. unfold bl_len. rewrite Hn. apply (bit_indices_from_lt keys 0 n Hn i Hi).
  - apply bind_no_panic; [apply dec_AcceptV1_total|]. intros [connid keys] Hd.
    destruct (within_of _ _ _ _ AcceptV1_codec body (connid, keys) Hd) as [_ [Hc _]]. cbn [fst] in Hc.
    apply accept_tail_total; [unfold nlen in Hc; lia|].
    intros i Hi. apply (code_indices_lt keys 0 i Hi).
Qed.

Theorem full_process_offer_total st p req resp : ns_versions st <> [] -> full_process_offer st p req resp <> Panic.
Proof.
  intros Hv. apply process_resp_total. apply erase_total. intros b. apply accept_body_total. now apply peer_version_total.
Qed.

(* ================================================================ agreement with the processor models of C11 / C08 / C09
   Model/Handlers.v process_nodes / process_content and Model/Offer.v process_offer contain their own copy of the dispatch
   (and, for C08 / C09, of the small decoders).  Fed with what the decoders of Model/Wire.v return, they give the same
   result as the composed processors above, up to the error class. *)
Lemma same_class_refl {A} (a : res A) : same_class a a.
Proof. destruct a; cbn; auto. Qed.
Lemma same_class_bind {A B} (r1 r2 : res A) (f g : A -> res B) :
  same_class r1 r2 -> (forall x, same_class (f x) (g x)) -> same_class (bind r1 f) (bind r2 g).
Proof. destruct r1, r2; cbn; intros H Hf; try contradiction; auto. subst. apply Hf. Qed.
Lemma same_class_no_panic {A} (a b : res A) : same_class a b -> a <> Panic -> b <> Panic.
Proof. destruct a, b; cbn; intros H Ha; try contradiction; try discriminate; congruence. Qed.
Lemma same_class_sym {A} (a b : res A) : same_class a b -> same_class b a.
Proof. destruct a, b; cbn; auto. Qed.

Lemma slice_tail {A} (c : A) rest : slice (c :: rest) 1 (length (c :: rest)) = Ok rest.
Proof. rewrite (slice_from (c :: rest) 1) by (cbn [length]; lia). reflexivity. Qed.
Lemma slice_tail2 {A} (c s : A) rest : slice (c :: s :: rest) 2 (length (c :: s :: rest)) = Ok rest.
Proof. rewrite (slice_from (c :: s :: rest) 2) by (cbn [length]; lia). reflexivity. Qed.

(* C11: processNodes *)
Theorem full_process_nodes_agrees enr_view sender dists resp :
  same_class (full_process_nodes_t enr_view sender dists resp)
             (Handlers.process_nodes resp (decoded_nodes enr_view resp) sender dists).
Proof.
  unfold full_process_nodes_t, process_resp_t, Handlers.process_nodes, decoded_nodes, tail1.
  destruct resp as [|c rest]; [exact I|].
  cbn [length Nat.eqb]. unfold idx at 1 2. cbn [nth_error bind].
  destruct (negb (b2n c =? K_msg_NODES)); [exact I|].
  change (S (length rest)) with (length (c :: rest)). rewrite slice_tail. cbn [bind].
  unfold nodes_body. destruct (dec_Nodes code_strict_zero_offset rest) as [[t enrs]| |]; cbn [bind]; [reflexivity|exact I|exact I].
Qed.

(* C08: processContent.  The model of C08 takes its length guard from the probed constant K_processContent_short_panics *)
Lemma slice_whole2 (b : bytes) : nlen b = 2 -> slice b 0 2 = Ok b.
Proof. intros H. destruct b as [|x [|y [|z t]]]; unfold nlen in H; cbn [length] in H; try lia. reflexivity. Qed.

Theorem full_process_content_agrees enr_view sender resp :
  same_class (full_process_content_t enr_view sender (K_processContent_short_panics =? 0) resp)
             (Handlers.process_content resp (decoded_enrs enr_view resp) sender).
Proof.
  unfold full_process_content_t, process_content_t, Handlers.process_content, decoded_enrs.
  destruct resp as [|c rest]; [exact I|].
  cbn [length Nat.eqb]. unfold idx at 1 3. cbn [nth_error bind].
  destruct (negb (b2n c =? K_msg_CONTENT)); [exact I|].
  destruct rest as [|s body].
  - replace (nlen [c] <? 2) with true by (unfold nlen; cbn [length]; lia).
    change (Nat.ltb 1 2) with true. destruct (K_processContent_short_panics =? 0); cbn [andb]; exact I.
  - replace (nlen (c :: s :: body) <? 2) with false by (rewrite !nlen_cons; lia).
    change (S (length (s :: body))) with (length (c :: s :: body)).
    replace (Nat.ltb (length (c :: s :: body)) 2) with false by (cbn [length]; symmetry; apply Nat.ltb_ge; lia).
    rewrite !andb_false_r. unfold idx. cbn [nth_error bind]. rewrite slice_tail2. cbn [bind].
    destruct (b2n s =? K_sel_Raw).
    { unfold content_raw_body, dec_Content, dec_bytes_max. change L_Content with 2048.
      destruct (2048 <? nlen body); cbn [bind]; [exact I|reflexivity]. }
    destruct (b2n s =? K_sel_ConnId).
    { unfold content_connid_body, dec_ConnectionId. destruct (nlen body =? 2) eqn:E; cbn [negb bind]; [|exact I].
      rewrite slice_whole2 by lia. reflexivity. }
    destruct (b2n s =? K_sel_Enrs); [|exact I].
    unfold content_enrs_body. destruct (dec_Enrs code_strict_zero_offset body); cbn [bind]; [reflexivity|exact I|exact I].
Qed.

(* C09: processOffer.  Model/Offer.v parses the ACCEPT with its own copy of the two UnmarshalSSZ functions and of
   ValidateBitlist (written over go-bitfield's Len); they accept exactly what the decoders of Model/Wire.v accept *)
Lemma le32_dec_le_dec (ob : bytes) : length ob = 4%nat -> le32_dec ob = Ok (le_dec ob).
Proof.
  intros H. destruct ob as [|b0 [|b1 [|b2 [|b3 [|? ?]]]]]; try discriminate. unfold le32_dec, idx. cbn [nth_error bind le_dec].
  f_equal. lia.
Qed.

Lemma unmarshal_head_cid6 {A} (k : bytes -> bytes -> res A) buf :
  same_class (bind (unmarshal_accept_head buf) (fun '(c, b) => k c b)) (dec_cid6 k buf).
Proof.
  unfold unmarshal_accept_head, dec_cid6. cbv zeta.
  destruct (Nat.ltb (length buf) 6) eqn:E6.
  - apply Nat.ltb_lt in E6. replace (nlen buf <? 6) with true by (unfold nlen; lia). exact I.
  - apply Nat.ltb_ge in E6. replace (nlen buf <? 6) with false by (unfold nlen; lia).
    destruct (slice_ok buf 0 2 ltac:(lia) ltac:(lia)) as [cid [-> _]]. cbn [bind].
    unfold read_offset_at. change (2 + 4)%nat with 6%nat.
    destruct (slice_ok buf 2 6 ltac:(lia) ltac:(lia)) as [ob [-> Hob]]. cbn [bind].
    rewrite le32_dec_le_dec by lia. unfold read_u32. replace (length ob <? 4)%nat with false by (symmetry; apply Nat.ltb_ge; lia).
    rewrite firstn_all2 by lia. cbn [bind].
    destruct (nlen buf <? le_dec ob); [exact I|]. destruct (le_dec ob =? 6) eqn:Eo; cbn [negb]; [|exact I].
    apply N.eqb_eq in Eo. rewrite Eo. unfold tail_from. replace (nlen buf <? 6) with false by (unfold nlen; lia).
    change (N.to_nat 6) with 6%nat. destruct (slice buf 6 (length buf)); cbn [bind]; [apply same_class_refl|exact I|exact I].
Qed.

Lemma len8_size x : len8 x = N.to_nat (N.size (b2n x)).
Proof. destruct x; reflexivity. Qed.

Lemma validate_bitlist_agree buf :
  same_class (Offer.validate_bitlist buf accept_keys_limit) (Ssz.validate_bitlist buf L_AcceptBits).
Proof.
  unfold Offer.validate_bitlist, Ssz.validate_bitlist, accept_keys_limit, L_AcceptBits.
  destruct buf as [|b0 t] using rev_ind; [exact I|]. clear IHt.
  replace (nlen (t ++ [b0]) =? 0) with false by (unfold nlen; rewrite app_length; cbn [length]; lia).
  destruct (t ++ [b0]) as [|y q] eqn:Eq; [destruct t; discriminate|]. rewrite <- Eq. clear y q Eq.
  change (N.shiftr 64 3 + 1) with 9. change (64 / 8 + 1)%nat with 9%nat.
  destruct (Nat.ltb 9 (length (t ++ [b0]))) eqn:E9.
  - apply Nat.ltb_lt in E9. replace (9 <? nlen (t ++ [b0])) with true by (unfold nlen; lia). exact I.
  - apply Nat.ltb_ge in E9. replace (9 <? nlen (t ++ [b0])) with false by (unfold nlen; lia).
    unfold idx. rewrite app_length. cbn [length]. replace (length t + 1 - 1)%nat with (length t) by lia.
    rewrite nth_error_app2 by lia. rewrite Nat.sub_diag. cbn [nth_error bind].
    rewrite bl_len_opt_snoc, len8_size.
    destruct (b2n b0 =? 0) eqn:Ez.
    + apply N.eqb_eq in Ez. rewrite Ez. exact I.
    + assert (Hs : 1 <= N.size (b2n b0)).
      { destruct (b2n b0) eqn:Eb; [discriminate|]. cbn. lia. }
      destruct (N.to_nat (N.size (b2n b0))) as [|m] eqn:Em; [lia|].
      unfold nlen. rewrite app_length. cbn [length].
      destruct (Nat.ltb 64 (8 * length t + m)) eqn:El.
      * apply Nat.ltb_lt in El. replace (64 <? 8 * (N.of_nat (length t + 1) - 1) + N.size (b2n b0) - 1) with true by lia. exact I.
      * apply Nat.ltb_ge in El. replace (64 <? 8 * (N.of_nat (length t + 1) - 1) + N.size (b2n b0) - 1) with false by lia. reflexivity.
Qed.

Lemma same_class_trans {A} (a b c : res A) : same_class a b -> same_class b c -> same_class a c.
Proof. destruct a, b, c; cbn; intros; try contradiction; auto; congruence. Qed.

Lemma dec_cid6_class {A} (k k' : bytes -> bytes -> res A) buf :
  (forall c b, same_class (k c b) (k' c b)) -> same_class (dec_cid6 k buf) (dec_cid6 k' buf).
Proof.
  intros Hk. unfold dec_cid6. cbv zeta. destruct (nlen buf <? 6); [exact I|].
  apply same_class_bind; [apply same_class_refl|]. intros cid.
  apply same_class_bind; [apply same_class_refl|]. intros o1.
  destruct (nlen buf <? o1); [exact I|]. destruct (negb (o1 =? 6)); [exact I|].
  apply same_class_bind; [apply same_class_refl|]. intros t. apply Hk.
Qed.

Lemma unmarshal_v0_agrees data : same_class (unmarshal_accept_v0 data) (dec_Accept data).
Proof.
  rewrite dec_Accept_eq. unfold unmarshal_accept_v0.
  eapply same_class_trans; [apply (unmarshal_head_cid6 (fun c b => bind (Offer.validate_bitlist b accept_keys_limit) (fun _ => Ok (c, b))))|].
  apply dec_cid6_class. intros c b. apply same_class_bind; [apply validate_bitlist_agree|]. intros _. reflexivity.
Qed.

Lemma divide_by_one a mx : divide_int2 a 1 mx = if mx <? a then Err E_LISTBIG else Ok a.
Proof.
  unfold divide_int2. change (1 =? 0) with false. cbv iota. rewrite N.mod_1_r, N.div_1_r. reflexivity.
Qed.

Lemma unmarshal_v1_agrees data : same_class (unmarshal_accept_v1 data) (dec_AcceptV1 data).
Proof.
  rewrite dec_AcceptV1_eq. unfold unmarshal_accept_v1.
  eapply same_class_trans;
    [apply (unmarshal_head_cid6 (fun c b => if Nat.ltb accept_keys_limit (length b) then Err E_LIST_TOO_BIG else Ok (c, b)))|].
  apply dec_cid6_class. intros c b. rewrite divide_by_one. unfold accept_keys_limit, L_AcceptV1Keys.
  destruct (Nat.ltb 64 (length b)) eqn:E.
  - apply Nat.ltb_lt in E. replace (64 <? nlen b) with true by (unfold nlen; lia). exact I.
  - apply Nat.ltb_ge in E. replace (64 <? nlen b) with false by (unfold nlen; lia). cbn [bind].
    unfold nlen. rewrite Nat2N.id, chunks1. cbn [bind]. now rewrite concat_singletons.
Qed.

(* the composed ACCEPT processor and the offering-side model of C09 agree on every response *)
Theorem full_process_offer_agrees st p req resp :
  same_class (full_process_offer_t st p req resp)
             (Offer.process_offer (peer_version st p) (offer_lookup st) resp req).
Proof.
  unfold full_process_offer_t, process_resp_t, Offer.process_offer, tail1.
  destruct resp as [|c rest]; [exact I|].
  cbn [length Nat.eqb]. unfold idx. cbn [nth_error bind].
  destruct (negb (b2n c =? K_msg_ACCEPT)); [exact I|].
  change (S (length rest)) with (length (c :: rest)). rewrite slice_tail. cbn [bind].
  change (same_class (accept_body (peer_version st p) (offer_lookup st) req rest)
            (bind (parse_offer_resp (peer_version st p) rest) (fun '(connid, body, klen, ixs) =>
             accept_tail (offer_lookup st) req connid body klen ixs))).
  unfold accept_body, parse_offer_resp. destruct (peer_version st p) as [v|e|]; [|exact I|exact I].
  destruct (accept_kind_of v) as [[|]|e|]; [| |exact I|exact I].
  - pose proof (unmarshal_v0_agrees rest) as H.
    destruct (unmarshal_accept_v0 rest) as [[c1 b1]| |], (dec_Accept rest) as [[c2 b2]| |]; cbn in H; try contradiction; cbn [bind]; try exact I.
    inversion H; subst. apply same_class_refl.
  - pose proof (unmarshal_v1_agrees rest) as H.
    destruct (unmarshal_accept_v1 rest) as [[c1 b1]| |], (dec_AcceptV1 rest) as [[c2 b2]| |]; cbn in H; try contradiction; cbn [bind]; try exact I.
    inversion H; subst. apply same_class_refl.
Qed.

(* ================================================================ the typed processors never panic either *)
Lemma erased_total {A} (r : res A) : bind r (fun _ => Ok tt) <> Panic -> r <> Panic.
Proof. destruct r; cbn [bind]; congruence. Qed.

Theorem full_talk_request_t_total st p shuf srt :
  node_ok st -> forall msg, full_talk_request_t st p shuf srt true msg <> Panic.
Proof.
  intros Hok msg Hp. apply (full_talk_request_total st p shuf srt Hok msg).
  rewrite full_talk_request_erases, Hp. reflexivity.
Qed.
Theorem full_process_pong_t_total st p resp : full_process_pong_t st p resp <> Panic.
Proof. apply erased_total. unfold full_process_pong_t. rewrite <- process_resp_erases. apply full_process_pong_total. Qed.
Theorem full_process_nodes_t_total enr_view sender dists resp : full_process_nodes_t enr_view sender dists resp <> Panic.
Proof. apply erased_total. unfold full_process_nodes_t. rewrite <- process_resp_erases. apply full_process_nodes_total. Qed.
Theorem full_process_content_t_total enr_view sender resp : full_process_content_t enr_view sender true resp <> Panic.
Proof. apply erased_total. unfold full_process_content_t. rewrite <- process_content_erases. apply full_process_content_total. Qed.
Theorem full_process_offer_t_total st p req resp : ns_versions st <> [] -> full_process_offer_t st p req resp <> Panic.
Proof.
  intros Hv. apply erased_total. unfold full_process_offer_t. rewrite <- process_resp_erases. now apply full_process_offer_total.
Qed.

(* hence the offering-side model of C09, fed with the negotiated version, never panics *)
Theorem process_offer_total st p req resp :
  ns_versions st <> [] -> Offer.process_offer (peer_version st p) (offer_lookup st) resp req <> Panic.
Proof.
  intros Hv. apply (same_class_no_panic _ _ (full_process_offer_agrees st p req resp)). now apply full_process_offer_t_total.
Qed.

(* the error payloads are the byte strings of pingext.errPayloadMap *)
Lemma err_payload_bytes :
  err_payload 0 = [x00; x00; x06; x00; x00; x00; x65; x78; x74; x65; x6e; x73; x69; x6f; x6e; x20; x69; x73; x20; x6e; x6f; x74;
                   x20; x73; x75; x70; x70; x6f; x72; x74; x65; x64] /\
  err_payload 1 = [x01; x00; x06; x00; x00; x00; x72; x65; x71; x75; x65; x73; x74; x65; x64; x20; x64; x61; x74; x61; x20; x6e;
                   x6f; x74; x20; x66; x6f; x75; x6e; x64] /\
  err_payload 2 = [x02; x00; x06; x00; x00; x00; x66; x61; x69; x6c; x65; x64; x20; x74; x6f; x20; x64; x65; x63; x6f; x64; x65;
                   x20; x70; x61; x79; x6c; x6f; x61; x64] /\
  err_payload 3 = [x03; x00; x06; x00; x00; x00; x73; x79; x73; x74; x65; x6d; x20; x65; x72; x72; x6f; x72].
Proof. repeat split; vm_compute; reflexivity. Qed.
