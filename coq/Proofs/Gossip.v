(* Proofs/Gossip.v : lemmas about Model/Gossip.v (C20) and the sort witnesses of Model/Handlers.v (also used by C08). *)
From Shisui Require Import Base.Bytes Gen.K_wire Gen.K_handlers Model.Handlers Model.Gossip Proofs.Handlers.
From Coq Require Import ZifyBool ZifyN ZifyNat Permutation.
Local Arguments N.add : simpl never.
Local Arguments N.sub : simpl never.
Local Arguments N.leb : simpl never.
Local Arguments N.ltb : simpl never.
Local Arguments N.eqb : simpl never.
Local Arguments N.size : simpl never.
Local Arguments N.lxor : simpl never.

(* ------------------------------------------------------------ radius cache *)
Lemma cache_get_set c id v id' : cache_get (cache_set c id v) id' = if id =? id' then Some v else cache_get c id'.
Proof. unfold cache_get, cache_set. cbn [find fst]. destruct (id =? id'); reflexivity. Qed.

Lemma update_radius_cache_get c id r id' :
  cache_get (update_radius_cache c id r) id' = if id =? id' then Some (RGood r) else cache_get c id'.
Proof.
  unfold update_radius_cache. destruct (cache_get c id) as [[r0|]|] eqn:E; try apply cache_get_set.
  destruct (r0 =? r) eqn:Er; [|apply cache_get_set].
  apply N.eqb_eq in Er. subst r0. destruct (id =? id') eqn:Ei; [|reflexivity]. apply N.eqb_eq in Ei. now subst.
Qed.

Lemma process_event_get sup c e id :
  cache_get (process_event sup c e) id =
  match (if ev_id e =? id then reported sup e else None) with Some r => Some (RGood r) | None => cache_get c id end.
Proof.
  unfold process_event, process_ping, process_pong, reported.
  destruct (ev_pong e); destruct (ev_present e); destruct (existsb (N.eqb (ev_ptype e)) sup);
    destruct (carries_radius (ev_ptype e)); destruct (ev_radius e) as [r|]; cbn [negb andb];
    try rewrite update_radius_cache_get; destruct (ev_id e =? id); reflexivity.
Qed.

Lemma run_events_get sup evs : forall c id,
  cache_get (run_events sup evs c) id =
  match last_reported sup evs id with Some r => Some (RGood r) | None => cache_get c id end.
Proof.
  unfold run_events. induction evs as [|e rest IH]; intros c id; cbn [fold_left last_reported]; [reflexivity|].
  rewrite IH. destruct (last_reported sup rest id); [reflexivity|]. apply process_event_get.
Qed.

(* an event that is not a report (sender absent from the table, unsupported or radius-less type, undecodable payload) changes nothing *)
Lemma process_event_no_report sup c e id : reported sup e = None -> cache_get (process_event sup c e) id = cache_get c id.
Proof. intros H. rewrite process_event_get, H. destruct (ev_id e =? id); reflexivity. Qed.

(* ------------------------------------------------------------ sorting witnesses *)
Definition dist_le (cid : N) (x y : nrec) : Prop := logdist (rid x) cid <= logdist (rid y) cid.

Lemma sorted_by_b_hd cid x l : sorted_by_b cid (x :: l) = true -> forall y, In y l -> dist_le cid x y.
Proof.
  revert x. induction l as [|z t IH]; intros x H y Hy; [destruct Hy|].
  cbn [sorted_by_b] in H. apply andb_true_iff in H as [H1 H2]. destruct Hy as [->|Hy]; unfold dist_le in *; [lia|].
  specialize (IH z H2 y Hy). lia.
Qed.
Lemma sorted_by_b_tl cid x l : sorted_by_b cid (x :: l) = true -> sorted_by_b cid l = true.
Proof. destruct l as [|z t]; [reflexivity|]. cbn [sorted_by_b]. intros H. now apply andb_true_iff in H as [_ H]. Qed.
Lemma sorted_by_b_cons cid x l : (forall y, In y l -> dist_le cid x y) -> sorted_by_b cid l = true -> sorted_by_b cid (x :: l) = true.
Proof.
  intros H Hs. destruct l as [|z t]; [reflexivity|]. cbn [sorted_by_b]. apply andb_true_intro. split; [|exact Hs].
  specialize (H z (or_introl eq_refl)). unfold dist_le in H. lia.
Qed.

Lemma sorted_by_b_app cid a : forall b, sorted_by_b cid (a ++ b) = true -> forall x y, In x a -> In y b -> dist_le cid x y.
Proof.
  induction a as [|h t IH]; intros b H x y Hx Hy; [destruct Hx|].
  cbn [app] in H. destruct Hx as [->|Hx].
  - apply (sorted_by_b_hd cid x (t ++ b) H). apply in_or_app. now right.
  - apply (IH b (sorted_by_b_tl _ _ _ H) x y Hx Hy).
Qed.

Lemma sorted_by_b_filter cid f l : sorted_by_b cid l = true -> sorted_by_b cid (filter f l) = true.
Proof.
  induction l as [|x t IH]; intros H; [reflexivity|]. cbn [filter].
  pose proof (sorted_by_b_tl _ _ _ H) as Ht. destruct (f x); [|now apply IH].
  apply sorted_by_b_cons; [|now apply IH]. intros y Hy. apply filter_In in Hy as [Hy _]. now apply (sorted_by_b_hd cid x t H).
Qed.

Lemma sorted_by_b_firstn cid k : forall l, sorted_by_b cid l = true -> sorted_by_b cid (firstn k l) = true.
Proof.
  induction k as [|k IH]; intros l H; [reflexivity|]. destruct l as [|x t]; [reflexivity|]. cbn [firstn].
  apply sorted_by_b_cons; [|apply IH; now apply (sorted_by_b_tl _ _ _ H)].
  intros y Hy. apply (sorted_by_b_hd cid x t H). revert Hy. clear. revert t. induction k; intros [|z t] H; cbn [firstn] in H; try destruct H.
  - now left.
  - right. auto.
Qed.

Lemma insert_by_perm cid x l : Permutation (insert_by cid x l) (x :: l).
Proof.
  induction l as [|y t IH]; cbn [insert_by]; [reflexivity|].
  destruct (logdist (rid y) cid <=? logdist (rid x) cid); [|reflexivity].
  rewrite IH. apply perm_swap.
Qed.
Lemma isort_by_perm cid l : Permutation (isort_by cid l) l.
Proof. induction l as [|x t IH]; cbn [isort_by]; [reflexivity|]. rewrite insert_by_perm. now constructor. Qed.

Lemma insert_by_sorted cid x l : sorted_by_b cid l = true -> sorted_by_b cid (insert_by cid x l) = true.
Proof.
  induction l as [|y t IH]; intros H; cbn [insert_by]; [reflexivity|].
  destruct (N.leb_spec (logdist (rid y) cid) (logdist (rid x) cid)) as [Hle|Hgt].
  - apply sorted_by_b_cons; [|apply IH; now apply (sorted_by_b_tl _ _ _ H)].
    intros z Hz. apply (Permutation_in _ (insert_by_perm cid x t)) in Hz. destruct Hz as [->|Hz]; [exact Hle|].
    now apply (sorted_by_b_hd cid y t H).
  - apply sorted_by_b_cons; [|exact H]. intros z [->|Hz]; unfold dist_le; [lia|].
    pose proof (sorted_by_b_hd cid y t H z Hz) as Hd. unfold dist_le in Hd. lia.
Qed.
Lemma isort_by_sorted cid l : sorted_by_b cid (isort_by cid l) = true.
Proof. induction l as [|x t IH]; cbn [isort_by]; [reflexivity|]. now apply insert_by_sorted. Qed.

(* what sort.Slice by log distance is allowed to return *)
Definition is_sort (cid : N) (srt : list nrec -> list nrec) : Prop :=
  forall l, Permutation (srt l) l /\ sorted_by_b cid (srt l) = true.

Lemma pick_sorted_is_sort cid w : is_sort cid (pick_sorted cid w).
Proof.
  intros l. unfold pick_sorted. destruct (is_perm_b w l && sorted_by_b cid w) eqn:E.
  - apply andb_true_iff in E as [E1 E2]. split; [now apply is_perm_b_sound|exact E2].
  - split; [apply isort_by_perm|apply isort_by_sorted].
Qed.

(* the first k of a sorted permutation are k nearest: nothing left out is strictly closer than anything taken *)
Lemma firstn_sorted_nearest cid srt k l x y : is_sort cid srt ->
  In x (firstn k (srt l)) -> In y l -> ~ In y (firstn k (srt l)) -> dist_le cid x y.
Proof.
  intros Hs Hx Hy Hny. destruct (Hs l) as [Hp Hsorted].
  apply (Permutation_in _ (Permutation_sym Hp)) in Hy. rewrite <- (firstn_skipn k (srt l)) in Hy, Hsorted.
  apply in_app_or in Hy as [Hy|Hy]; [contradiction|].
  apply (sorted_by_b_app cid _ _ Hsorted x y Hx Hy).
Qed.

(* ------------------------------------------------------------ gossip *)
Lemma gossip_filter_spec closest c src cid : forall g,
  gossip_filter closest c src cid = Ok g -> g = filter (covered_b c src cid) closest /\ no_bad_entries c closest = true.
Proof.
  induction closest as [|n rest IH]; intros g H; cbn [gossip_filter] in H.
  - inversion H. split; reflexivity.
  - cbn [filter no_bad_entries forallb]. unfold covered_b at 1.
    destruct (cache_get c (rid n)) as [[r|]|] eqn:Ec.
    + destruct (gossip_filter rest c src cid) as [tl| |] eqn:Er; try discriminate.
      destruct (IH tl eq_refl) as [I1 I2]. fold (no_bad_entries c rest). rewrite I2.
      destruct (in_range (rid n) r cid && not_source src (rid n)); inversion H; subst; split; reflexivity.
    + discriminate.
    + destruct (IH g H) as [I1 I2]. fold (no_bad_entries c rest). rewrite I2. split; [exact I1|reflexivity].
Qed.

Lemma gossip_filter_total closest c src cid :
  no_bad_entries c closest = true -> gossip_filter closest c src cid = Ok (filter (covered_b c src cid) closest).
Proof.
  induction closest as [|n rest IH]; intros H; [reflexivity|]. cbn [no_bad_entries forallb] in H.
  apply andb_true_iff in H as [H1 H2]. cbn [gossip_filter filter]. unfold covered_b at 1.
  destruct (cache_get c (rid n)) as [[r|]|]; [|discriminate|now apply IH].
  rewrite (IH H2). destruct (in_range (rid n) r cid && not_source src (rid n)); reflexivity.
Qed.

Lemma covered_b_facts c src cid n : covered_b c src cid n = true ->
  exists radius, cache_get c (rid n) = Some (RGood radius) /\ in_range (rid n) radius cid = true /\ src <> Some (rid n).
Proof.
  unfold covered_b. destruct (cache_get c (rid n)) as [[r|]|]; try discriminate.
  intros H. apply andb_true_iff in H as [H1 H2]. exists r. split; [reflexivity|]. split; [exact H1|].
  unfold not_source in H2. destruct src as [s|]; [|discriminate]. intros Heq. inversion Heq; subst. rewrite N.eqb_refl in H2. discriminate.
Qed.

(* what "covers" means under each of the two rules the code has had *)
Lemma in_range_xor_rule id radius cid : K_inRange_xor = 1 -> (in_range id radius cid = true <-> N.lxor id cid < radius).
Proof. intros H. unfold in_range. rewrite H. change (1 =? 1) with true. cbv iota. lia. Qed.
Lemma in_range_log_rule id radius cid : K_inRange_xor = 0 -> (in_range id radius cid = true <-> logdist id cid < radius).
Proof. intros H. unfold in_range. rewrite H. change (0 =? 1) with false. cbv iota. lia. Qed.

Lemma firstn_app_exact {A} (a b : list A) k : length a = k -> firstn k (a ++ b) = a.
Proof. intros <-. rewrite firstn_app, Nat.sub_diag, firstn_all. cbn [firstn]. apply app_nil_r. Qed.

Lemma Ok_inj {A} (a b : A) : Ok a = Ok b -> a = b.
Proof. congruence. Qed.

Section Select.
Variable shuf : list nrec -> list nrec.
Hypothesis shuf_perm : forall l, Permutation (shuf l) l.

Lemma gossip_select_spec nodelist srt c src cid nc nk res :
  gossip_select nodelist srt shuf c src cid nc nk = Ok res ->
  let g := filter (covered_b c src cid) (firstn gossip_candidates (srt nodelist)) in
  (length res <= 8)%nat /\
  (forall r, In r res -> In r g) /\
  firstn 4 res = firstn 4 g /\
  ((length g <= 4)%nat -> res = g) /\
  ((4 < length g)%nat -> (4 < length res)%nat).
Proof.
  unfold gossip_select. destruct (nc =? 0); [discriminate|]. destruct (nk <? nc); [discriminate|].
  unfold find_nodes_close.
  destruct (gossip_filter (firstn gossip_candidates (srt nodelist)) c src cid) as [g0| |] eqn:Ef; cbn [bind]; try discriminate.
  destruct (gossip_filter_spec _ _ _ _ _ Ef) as [Hg _]. intros H. rewrite <- Hg. clear Hg Ef.
  destruct g0 as [|x0 t0] eqn:Eg0.
  - inversion H; subst. cbn. repeat split; auto; try lia.
  - rewrite <- Eg0 in *. assert (Hne : g0 <> []) by (subst; discriminate). clear Eg0 x0 t0.
    change max_closest with 4%nat in H. change max_farther with 4%nat in H. destruct (Nat.ltb_spec 4 (length g0)) as [Hlt|Hge].
    + apply Ok_inj in H. subst res.
      assert (Hl4 : length (firstn 4 g0) = 4%nat) by (rewrite firstn_length; lia).
      split; [rewrite app_length, Hl4, firstn_length; lia|]. split.
      { intros r Hr. apply in_app_or in Hr as [Hr|Hr].
        - rewrite <- (firstn_skipn 4 g0). apply in_or_app. now left.
        - assert (In r (shuf (skipn 4 g0))) by (rewrite <- (firstn_skipn (Nat.min 4 (length (shuf (skipn 4 g0)))) (shuf (skipn 4 g0))); apply in_or_app; now left).
          apply (Permutation_in _ (shuf_perm _)) in H. rewrite <- (firstn_skipn 4 g0). apply in_or_app. now right. }
      split; [now apply firstn_app_exact|]. split; [lia|].
      intros _. rewrite app_length, Hl4, firstn_length.
      pose proof (Permutation_length (shuf_perm (skipn 4 g0))) as Hpl. rewrite skipn_length in Hpl. lia.
    + apply Ok_inj in H. subst res. split; [lia|]. split; [auto|]. split; [reflexivity|]. split; [reflexivity|lia].
Qed.
End Select.

Lemma gossip_offers_incl final : forall permits n, In n (gossip_offers final permits) -> In n final.
Proof.
  induction final as [|x t IH]; intros permits n H; cbn [gossip_offers] in H; [destruct H|].
  destruct permits as [|p]; [right; eapply IH; eassumption|]. destruct H as [->|H]; [now left|right; eapply IH; eassumption].
Qed.
Lemma gossip_offers_length final : forall permits, (length (gossip_offers final permits) <= length final)%nat /\ (length (gossip_offers final permits) <= permits)%nat.
Proof.
  induction final as [|x t IH]; intros permits; cbn [gossip_offers length]; [lia|].
  destruct permits as [|p]; [destruct (IH O); lia|]. cbn [length]. destruct (IH p). lia.
Qed.

(* ------------------------------------------------------------ statements assembled for Properties/C20.v *)
Definition is_shuffle1 (shuf : list nrec -> list nrec) : Prop := forall l, Permutation (shuf l) l.

Lemma gossip_targets shuf : is_shuffle1 shuf -> forall cid srt, is_sort cid srt ->
  forall nodelist c src nc nk res,
  gossip_select nodelist srt shuf c src cid nc nk = Ok res ->
  (length res <= 8)%nat /\
  forall r, In r res ->
    (* among the 32 nearest *)
    In r (firstn 32 (srt nodelist)) /\ In r nodelist /\
    (forall y, In y nodelist -> ~ In y (firstn 32 (srt nodelist)) -> logdist (rid r) cid <= logdist (rid y) cid) /\
    (* known radius that covers, not the source *)
    exists radius, cache_get c (rid r) = Some (RGood radius) /\ in_range (rid r) radius cid = true /\ src <> Some (rid r).
Proof.
  intros Hsh cid srt Hsort nodelist c src nc nk res H.
  destruct (gossip_select_spec shuf Hsh _ _ _ _ _ _ _ _ H) as (H1 & H2 & _). split; [exact H1|].
  intros r Hr. specialize (H2 r Hr). apply filter_In in H2 as [Hin Hcov]. unfold gossip_candidates in Hin.
  split; [exact Hin|]. split.
  { destruct (Hsort nodelist) as [Hp _]. apply (Permutation_in _ Hp). rewrite <- (firstn_skipn 32 (srt nodelist)). apply in_or_app. now left. }
  split; [|now apply covered_b_facts].
  intros y Hy Hny. apply (firstn_sorted_nearest cid srt 32 nodelist r y Hsort Hin Hy Hny).
Qed.

Lemma gossip_closest_first shuf : is_shuffle1 shuf -> forall cid srt, is_sort cid srt ->
  forall nodelist c src nc nk res,
  gossip_select nodelist srt shuf c src cid nc nk = Ok res ->
  let covered := filter (covered_b c src cid) (firstn 32 (srt nodelist)) in
  (* the covered ones among the 32 nearest, in order of non-decreasing distance ... *)
  sorted_by_b cid covered = true /\
  (* ... and the first min(4, n) targets are exactly the first min(4, n) of them; with at most 4 of them, they are all the targets *)
  firstn 4 res = firstn 4 covered /\
  ((length covered <= 4)%nat -> res = covered) /\
  ((4 < length covered)%nat -> (4 < length res)%nat).
Proof.
  intros Hsh cid srt Hsort nodelist c src nc nk res H covered.
  destruct (gossip_select_spec shuf Hsh _ _ _ _ _ _ _ _ H) as (_ & _ & H3 & H4 & H5).
  split; [|split; [exact H3|split; [exact H4|exact H5]]].
  unfold covered. apply sorted_by_b_filter, sorted_by_b_firstn. now destruct (Hsort nodelist).
Qed.

Lemma gossip_select_total shuf cid srt nodelist c src nc nk :
  nc <> 0 -> nc <= nk -> no_bad_entries c (firstn 32 (srt nodelist)) = true ->
  exists res, gossip_select nodelist srt shuf c src cid nc nk = Ok res.
Proof.
  intros H1 H2 H3. unfold gossip_select. destruct (N.eqb_spec nc 0); [contradiction|].
  destruct (N.ltb_spec nk nc); [lia|]. unfold find_nodes_close, gossip_candidates. rewrite (gossip_filter_total _ _ _ _ H3). cbn [bind].
  destruct (filter _ _); [eauto|]. destruct (Nat.ltb _ _); eauto.
Qed.

Lemma cache_after_events sup evs id :
  cache_get (run_events sup evs []) id =
  match last_reported sup evs id with Some r => Some (RGood r) | None => None end.
Proof. rewrite run_events_get. reflexivity. Qed.

Lemma last_reported_app sup a b id :
  last_reported sup (a ++ b) id = match last_reported sup b id with Some r => Some r | None => last_reported sup a id end.
Proof.
  induction a as [|e t IH]; cbn [app last_reported]; [destruct (last_reported sup b id); reflexivity|].
  rewrite IH. destruct (last_reported sup b id); reflexivity.
Qed.

(* the last event of a history that is a report by [id] decides the cached value *)
Lemma last_report_wins sup evs e rest r :
  reported sup e = Some r -> (forall e', In e' rest -> ev_id e' = ev_id e -> reported sup e' = None) ->
  cache_get (run_events sup (evs ++ e :: rest) []) (ev_id e) = Some (RGood r).
Proof.
  intros Hr Hrest. rewrite cache_after_events, last_reported_app. cbn [last_reported].
  assert (Hn : last_reported sup rest (ev_id e) = None).
  { induction rest as [|x t IH]; [reflexivity|]. cbn [last_reported]. rewrite IH by (intros; apply Hrest; [now right|assumption]).
    destruct (N.eqb_spec (ev_id x) (ev_id e)) as [Heq|]; [|reflexivity]. apply Hrest; [now left|exact Heq]. }
  rewrite Hn, N.eqb_refl, Hr. reflexivity.
Qed.

(* ------------------------------------------------------------ AddEnr and the node's own announcements *)
Lemma add_enr_keeps_report c id : process_add_enr c id false = c.
Proof. reflexivity. Qed.
Lemma add_enr_get c id added id' :
  cache_get (process_add_enr c id added) id' = if added && (id =? id') then Some (RGood max_distance) else cache_get c id'.
Proof. unfold process_add_enr. destruct added; cbn [andb]; [apply cache_get_set|reflexivity]. Qed.

Lemma pong_announces_current_radius sup t d r t' r' : pong_of_ping sup t d r = (t', Some r') -> r' = r /\ t' = t.
Proof.
  unfold pong_of_ping. destruct (negb (existsb (N.eqb t) sup)); [discriminate|].
  destruct (carries_radius t); [|discriminate]. destruct d; [|discriminate]. intros H; inversion H; auto.
Qed.
Lemma pong_for_radius_type sup t r :
  existsb (N.eqb t) sup = true -> carries_radius t = true -> pong_of_ping sup t true r = (t, Some r).
Proof. intros H1 H2. unfold pong_of_ping. rewrite H1, H2. reflexivity. Qed.
