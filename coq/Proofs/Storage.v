(* Proofs/Storage.v : lemmas about Model/Storage.v (C04, C05, C06, C17). *)
From Shisui Require Import Base.Bytes Base.Arith Gen.K_storage Model.Storage.
From Coq Require Import ZifyBool ZifyN ZifyNat.
Local Arguments N.add : simpl never.
Local Arguments N.mul : simpl never.
Local Arguments N.sub : simpl never.
Local Arguments N.pow : simpl never.
Local Arguments N.ltb : simpl never.
Local Arguments N.leb : simpl never.
Local Arguments N.lxor : simpl never.
Local Arguments N.compare : simpl never.

(* ================================================================ bytes: order *)

Lemma ncompare_b2n_eq x y : N.compare (b2n x) (b2n y) = Eq -> x = y.
Proof. intros H. apply N.compare_eq in H. now apply b2n_inj. Qed.

Lemma bcmp_refl a : bcmp a a = Eq.
Proof. induction a as [|x a IH]; cbn [bcmp]; [reflexivity|]. now rewrite N.compare_refl. Qed.

Lemma bcmp_eq a b : bcmp a b = Eq -> a = b.
Proof.
  revert b; induction a as [|x a IH]; intros [|y b]; cbn [bcmp]; try discriminate; [reflexivity|].
  destruct (N.compare (b2n x) (b2n y)) eqn:E; try discriminate.
  intros H. apply ncompare_b2n_eq in E. apply IH in H. now subst.
Qed.

Lemma bcmp_antisym a b : bcmp b a = CompOpp (bcmp a b).
Proof.
  revert b; induction a as [|x a IH]; intros [|y b]; cbn [bcmp]; try reflexivity.
  rewrite (N.compare_antisym (b2n x) (b2n y)).
  destruct (N.compare (b2n x) (b2n y)); cbn [CompOpp]; [apply IH | reflexivity | reflexivity].
Qed.

Lemma bcmp_lt_gt a b : bcmp a b = Lt <-> bcmp b a = Gt.
Proof. rewrite (bcmp_antisym a b). destruct (bcmp a b); cbn; split; congruence. Qed.

Lemma blt_trans a b c : blt a b -> blt b c -> blt a c.
Proof.
  unfold blt. revert b c; induction a as [|x a IH]; intros [|y b] [|z c]; cbn [bcmp]; try discriminate; try reflexivity.
  destruct (N.compare (b2n x) (b2n y)) eqn:E1; try discriminate;
  destruct (N.compare (b2n y) (b2n z)) eqn:E2; try discriminate; intros H1 H2.
  - apply N.compare_eq in E1, E2. rewrite E1, E2, N.compare_refl. eauto.
  - apply N.compare_eq in E1. now rewrite E1, E2.
  - apply N.compare_eq in E2. now rewrite <- E2, E1.
  - rewrite N.compare_lt_iff in E1, E2. assert (L : b2n x < b2n z) by lia.
    apply N.compare_lt_iff in L. now rewrite L.
Qed.

Lemma blt_irrefl a : ~ blt a a.
Proof. unfold blt. now rewrite bcmp_refl. Qed.

Lemma blt_neq a b : blt a b -> a <> b.
Proof. intros H E. subst. now apply blt_irrefl in H. Qed.

Lemma bytes_eqb_refl a : bytes_eqb a a = true.
Proof. now apply bytes_eqb_eq. Qed.

Lemma bytes_eqb_neq a b : a <> b -> bytes_eqb a b = false.
Proof. intros H. destruct (bytes_eqb a b) eqn:E; [|reflexivity]. apply bytes_eqb_eq in E. contradiction. Qed.

Lemma bytes_eq_dec (a b : bytes) : {a = b} + {a <> b}.
Proof. destruct (bytes_eqb a b) eqn:E; [left; now apply bytes_eqb_eq | right; intros H; apply bytes_eqb_eq in H; congruence]. Qed.

(* ================================================================ xor *)

Lemma lxor_lt_256 a b : a < 256 -> b < 256 -> N.lxor a b < 256.
Proof.
  intros Ha Hb.
  assert (E : N.lxor a b = (N.lxor a b) mod 2 ^ 8).
  { apply N.bits_inj; intros n. destruct (N.lt_ge_cases n 8) as [L|G].
    - now rewrite N.mod_pow2_bits_low.
    - rewrite N.mod_pow2_bits_high by assumption. rewrite N.lxor_spec.
      rewrite <- (N.mod_small a (2 ^ 8)) by exact Ha. rewrite <- (N.mod_small b (2 ^ 8)) by exact Hb.
      now rewrite !N.mod_pow2_bits_high by assumption. }
  rewrite E. apply N.mod_lt. discriminate.
Qed.

Lemma b2n_bxor a b : b2n (bxor a b) = N.lxor (b2n a) (b2n b).
Proof. unfold bxor. apply b2n_n2b_small. apply lxor_lt_256; apply b2n_lt. Qed.

Lemma bxor_inj_l a a' b : bxor a b = bxor a' b -> a = a'.
Proof.
  intros H. apply (f_equal b2n) in H. rewrite !b2n_bxor in H.
  apply b2n_inj. apply (f_equal (fun x => N.lxor x (b2n b))) in H.
  now rewrite !N.lxor_assoc, !N.lxor_nilpotent, !N.lxor_0_r in H.
Qed.

Lemma bxor_zero_iff a b : bxor a b = x00 <-> a = b.
Proof.
  split; intros H.
  - apply (f_equal b2n) in H. rewrite b2n_bxor in H. change (b2n x00) with 0 in H.
    apply N.lxor_eq in H. now apply b2n_inj.
  - subst. apply b2n_inj. rewrite b2n_bxor, N.lxor_nilpotent. reflexivity.
Qed.

Lemma xor_bytes_length a b : length a = length b -> length (xor_bytes a b) = length a.
Proof.
  revert b; induction a as [|x a IH]; intros [|y b] H; cbn in *; try lia. f_equal. apply IH. lia.
Qed.

Lemma xor_bytes_inj a a' b : length a = length b -> length a' = length b ->
  xor_bytes a b = xor_bytes a' b -> a = a'.
Proof.
  revert a' b; induction a as [|x a IH]; intros [|x' a'] [|y b] H1 H2 H; cbn in *; try lia; try reflexivity.
  inversion H. f_equal; [eapply bxor_inj_l; eassumption | eapply IH; [| |eassumption]; lia].
Qed.

Lemma xor_bytes_zero_iff a b : length a = length b ->
  xor_bytes a b = repeat x00 (length a) <-> a = b.
Proof.
  revert b; induction a as [|x a IH]; intros [|y b] H; cbn in *; try lia; [tauto|].
  assert (HL : length a = length b) by lia. specialize (IH b HL).
  split; intros E.
  - injection E as E1 E2. apply (proj1 (bxor_zero_iff _ _)) in E1. apply (proj1 IH) in E2. now subst.
  - injection E as E1 E2. subst. f_equal; [now apply (proj2 (bxor_zero_iff _ _)) | now apply (proj2 IH)].
Qed.

(* a 32-byte content id against a 32-byte node id *)
Lemma xor_key_32 id node : length id = 32%nat -> length node = 32%nat ->
  xor_key id node = Ok (xor_bytes id node).
Proof.
  intros H1 H2. unfold xor_key, pad_id. rewrite H1, H2. cbn [Nat.eqb]. rewrite H1. reflexivity.
Qed.

Lemma pad_id_length id node : length node = 32%nat -> length (pad_id id node) = 32%nat.
Proof.
  intros H. unfold pad_id. destruct (Nat.eqb (length id) (length node)) eqn:E.
  - apply Nat.eqb_eq in E. lia.
  - rewrite firstn_length, app_length. unfold zero32. rewrite repeat_length. lia.
Qed.

(* with a 32-byte node id the key derivation never panics and always yields 32 bytes *)
Lemma xor_key_total id node : length node = 32%nat ->
  exists k, xor_key id node = Ok k /\ length k = 32%nat.
Proof.
  intros H. unfold xor_key. pose proof (pad_id_length id node H) as P. rewrite P, H. cbn [Nat.leb].
  eexists; split; [reflexivity|]. rewrite xor_bytes_length; lia.
Qed.

Lemma xor_key_inj id1 id2 node k : length id1 = 32%nat -> length id2 = 32%nat -> length node = 32%nat ->
  xor_key id1 node = Ok k -> xor_key id2 node = Ok k -> id1 = id2.
Proof.
  intros H1 H2 H3. rewrite !xor_key_32 by assumption. intros E1 E2. inversion E1; inversion E2; subst.
  eapply xor_bytes_inj; [| |symmetry; eassumption]; lia.
Qed.

Lemma xor_key_sizekey_iff id node : length id = 32%nat -> length node = 32%nat ->
  xor_key id node = Ok sizekey <-> id = node.
Proof.
  intros H1 H2. rewrite xor_key_32 by assumption. unfold sizekey, zero32. rewrite <- H1.
  split; intros E.
  - inversion E. apply xor_bytes_zero_iff; [lia | assumption].
  - f_equal. apply xor_bytes_zero_iff; [lia | assumption].
Qed.

(* flipping one bit of one byte (the single-bit neighbours of the statement) *)
Definition flip_bit (id : bytes) (i : nat) (bit : N) : bytes :=
  firstn i id ++ match skipn i id with [] => [] | x :: t => n2b (N.lxor (b2n x) (2 ^ bit)) :: t end.

Lemma flip_bit_length id i bit : length (flip_bit id i bit) = length id.
Proof.
  unfold flip_bit. rewrite <- (firstn_skipn i id) at 3. rewrite !app_length. f_equal.
  destruct (skipn i id); reflexivity.
Qed.

Lemma flip_bit_neq id i bit : (i < length id)%nat -> bit < 8 -> flip_bit id i bit <> id.
Proof.
  intros Hi Hb E. unfold flip_bit in E. rewrite <- (firstn_skipn i id) in E at 3.
  apply app_inv_head in E. destruct (skipn i id) as [|x t] eqn:S.
  - apply (f_equal (@length byte)) in S. rewrite skipn_length in S. cbn in S. lia.
  - inversion E as [E1]. apply (f_equal b2n) in E1.
    assert (P : 2 ^ bit < 256) by (change 256 with (2 ^ 8); apply N.pow_lt_mono_r; lia).
    rewrite b2n_n2b_small in E1 by (apply lxor_lt_256; [apply b2n_lt | exact P]).
    apply (f_equal (N.lxor (b2n x))) in E1.
    rewrite <- N.lxor_assoc, !N.lxor_nilpotent, N.lxor_0_l in E1.
    assert (0 < 2 ^ bit) by (apply N.neq_0_lt_0, N.pow_nonzero; lia). lia.
Qed.

(* ================================================================ decoders: big-endian is the key order, little-endian is not *)

Definition mono (dec : bytes -> N) : Prop :=
  forall a b, length a = 32%nat -> length b = 32%nat -> blt a b -> dec a < dec b.
Definition bounded (dec : bytes -> N) : Prop := forall a, length a = 32%nat -> dec a <= MAXD.
Definition good (dec : bytes -> N) : Prop := mono dec /\ bounded dec.

Lemma be_to_N_bound b : be_to_N b < 256 ^ nlen b.
Proof.
  induction b as [|x b IH]; cbn [be_to_N]; [unfold nlen; cbn; lia|].
  pose proof (b2n_lt x) as Hx.
  replace (nlen (x :: b)) with (N.succ (nlen b)) by (unfold nlen; cbn [length]; lia).
  rewrite N.pow_succ_r'. nia.
Qed.

Lemma be_mono_gen a b : length a = length b -> blt a b -> be_to_N a < be_to_N b.
Proof.
  unfold blt. revert b; induction a as [|x a IH]; intros [|y b] HL; cbn [bcmp be_to_N]; try discriminate.
  cbn in HL. assert (HL' : length a = length b) by lia.
  assert (EL : nlen a = nlen b) by (unfold nlen; now rewrite HL').
  destruct (N.compare (b2n x) (b2n y)) eqn:E; try discriminate; intros H.
  - apply N.compare_eq in E. rewrite E, EL. specialize (IH b HL' H). lia.
  - rewrite N.compare_lt_iff in E. rewrite EL.
    pose proof (be_to_N_bound a) as Ba. rewrite EL in Ba. nia.
Qed.

Lemma be_mono : mono be_to_N.
Proof. intros a b Ha Hb. apply be_mono_gen. lia. Qed.

Lemma be_bounded : bounded be_to_N.
Proof.
  intros a Ha. pose proof (be_to_N_bound a) as B. unfold nlen in B. rewrite Ha in B.
  unfold MAXD. change (256 ^ N.of_nat 32) with (2 ^ 256) in B. lia.
Qed.

Lemma be_good : good be_to_N.
Proof. split; [apply be_mono | apply be_bounded]. Qed.

Lemma le_to_N_bound b : le_to_N b < 256 ^ nlen b.
Proof.
  induction b as [|x b IH]; cbn [le_to_N]; [unfold nlen; cbn; lia|].
  pose proof (b2n_lt x) as Hx.
  replace (nlen (x :: b)) with (N.succ (nlen b)) by (unfold nlen; cbn [length]; lia).
  rewrite N.pow_succ_r'. nia.
Qed.

Lemma le_bounded : bounded le_to_N.
Proof.
  intros a Ha. pose proof (le_to_N_bound a) as B. unfold nlen in B. rewrite Ha in B.
  unfold MAXD. change (256 ^ N.of_nat 32) with (2 ^ 256) in B. lia.
Qed.

(* witness: 00..00 02 sorts before 01 00..00 but reads as a larger little-endian number *)
Definition le_wit_a : bytes := repeat x00 31 ++ [x02].
Definition le_wit_b : bytes := x01 :: repeat x00 31.
Lemma le_not_mono : ~ mono le_to_N.
Proof.
  intros M. specialize (M le_wit_a le_wit_b eq_refl eq_refl eq_refl).
  revert M. vm_compute. intros M. discriminate M.
Qed.

(* for a monotone decoder, "not after in key order" means "not farther" *)
Lemma mono_le dec a b : mono dec -> length a = 32%nat -> length b = 32%nat ->
  bcmp a b <> Gt -> dec a <= dec b.
Proof.
  intros M Ha Hb H. destruct (bcmp a b) eqn:E; [| |congruence].
  - apply bcmp_eq in E. subst. lia.
  - specialize (M a b Ha Hb E). lia.
Qed.

(* ================================================================ sorted association lists *)

Section AssocFacts.
  Context {A : Type}.
  Implicit Types l : list (bytes * A).

  Fixpoint sorted l : Prop :=
    match l with
    | [] => True
    | (k, _) :: t => (forall k' a', In (k', a') t -> blt k k') /\ sorted t
    end.

  Lemma lookup_In l k a : lookup k l = Some a -> In (k, a) l.
  Proof.
    induction l as [|[k' a'] t IH]; cbn [lookup]; [discriminate|].
    destruct (bytes_eqb k k') eqn:E; intros H.
    - apply bytes_eqb_eq in E. inversion H; subst. now left.
    - right. now apply IH.
  Qed.

  Lemma In_lookup l k a : sorted l -> In (k, a) l -> lookup k l = Some a.
  Proof.
    induction l as [|[k' a'] t IH]; cbn [lookup sorted In]; [tauto|].
    intros [S1 S2] [H|H].
    - inversion H; subst. now rewrite bytes_eqb_refl.
    - rewrite bytes_eqb_neq; [now apply IH|]. intros E; subst. apply S1 in H. now apply blt_irrefl in H.
  Qed.

  Lemma lookup_ins_same l k a : lookup k (ins k a l) = Some a.
  Proof.
    induction l as [|[k' a'] t IH]; cbn [ins lookup]; [now rewrite bytes_eqb_refl|].
    destruct (bcmp k k') eqn:E; cbn [lookup]; try now rewrite bytes_eqb_refl.
    rewrite bytes_eqb_neq; [exact IH|]. intros ->. now rewrite bcmp_refl in E.
  Qed.

  Lemma lookup_ins_other l k k' a : k' <> k -> lookup k' (ins k a l) = lookup k' l.
  Proof.
    intros N. induction l as [|[k2 a2] t IH]; cbn [ins lookup].
    - now rewrite bytes_eqb_neq.
    - destruct (bcmp k k2) eqn:E; cbn [lookup].
      + apply bcmp_eq in E. subst. now rewrite bytes_eqb_neq.
      + now rewrite (bytes_eqb_neq k' k).
      + now rewrite IH.
  Qed.

  Lemma In_ins l k a k' a' : In (k', a') (ins k a l) -> (k' = k /\ a' = a) \/ In (k', a') l.
  Proof.
    induction l as [|[k2 a2] t IH]; cbn [ins In].
    - intros [H|[]]. inversion H. now left.
    - destruct (bcmp k k2) eqn:E; cbn [In]; intros [H|H].
      + inversion H. now left.
      + right. now right.
      + inversion H. now left.
      + now right.
      + right. now left.
      + apply IH in H. tauto.
  Qed.

  Lemma In_ins_new l k a : In (k, a) (ins k a l).
  Proof. apply lookup_In, lookup_ins_same. Qed.

  Lemma sorted_ins l k a : sorted l -> sorted (ins k a l).
  Proof.
    induction l as [|[k2 a2] t IH]; cbn [ins sorted]; [intros _; split; [intros ? ? []|exact I]|].
    intros [S1 S2]. destruct (bcmp k k2) eqn:E; cbn [sorted].
    - apply bcmp_eq in E. subst. now split.
    - split; [|now split]. intros k' a' [H|H].
      + inversion H; subst. exact E.
      + eapply blt_trans; [exact E | eapply S1; eassumption].
    - split; [|now apply IH]. intros k' a' H. apply In_ins in H as [[-> ->]|H].
      + now apply bcmp_lt_gt.
      + eapply S1; eassumption.
  Qed.

  (* with sorted keys an insert replaces: any other entry that survives has another key *)
  Lemma In_ins_strong l k a k' a' : sorted l -> In (k', a') (ins k a l) ->
    (k' = k /\ a' = a) \/ (k' <> k /\ In (k', a') l).
  Proof.
    intros S H. pose proof (sorted_ins l k a S) as S'.
    destruct (bytes_eq_dec k' k) as [->|N].
    - left. split; [reflexivity|]. apply (In_lookup _ _ _ S') in H. rewrite lookup_ins_same in H. now inversion H.
    - right. split; [exact N|]. apply In_ins in H as [[E _]|H]; [contradiction | exact H].
  Qed.

  Lemma In_del l k x : In x (del k l) -> In x l.
  Proof.
    induction l as [|[k2 a2] t IH]; cbn [del In]; [tauto|].
    destruct (bytes_eqb k k2); cbn [In]; [now right | intros [H|H]; [now left | right; now apply IH]].
  Qed.

  Lemma sorted_tail l x : sorted (x :: l) -> sorted l.
  Proof. destruct x. now intros [_ S]. Qed.

  Lemma sorted_app l1 l2 : sorted (l1 ++ l2) ->
    sorted l1 /\ sorted l2 /\ forall k a k' a', In (k, a) l1 -> In (k', a') l2 -> blt k k'.
  Proof.
    induction l1 as [|[k1 a1] t IH]; cbn [app sorted].
    - intros S. split; [exact I|]. split; [exact S|]. intros ? ? ? ? [].
    - intros [S1 S2]. destruct (IH S2) as (T1 & T2 & T3). split; [|split; [exact T2|]].
      + split; [|exact T1]. intros k' a' H. apply (S1 k' a'). apply in_or_app. now left.
      + intros k a k' a' [H|H] H'.
        * inversion H; subst. apply (S1 k' a'). apply in_or_app. now right.
        * eapply T3; eassumption.
  Qed.

  Lemma lookup_app_l l1 l2 k a : lookup k l1 = Some a -> lookup k (l1 ++ l2) = Some a.
  Proof.
    induction l1 as [|[k1 a1] t IH]; cbn [app lookup]; [discriminate|].
    destruct (bytes_eqb k k1); [tauto | exact IH].
  Qed.

  (* deleting the last key of a sorted list *)
  Lemma del_last l k a : (forall k' a', In (k', a') l -> k' <> k) -> del k (l ++ [(k, a)]) = l.
  Proof.
    induction l as [|[k2 a2] t IH]; cbn [app del]; intros H.
    - now rewrite bytes_eqb_refl.
    - rewrite bytes_eqb_neq by (intros E; apply (H k2 a2); [now left | now symmetry]).
      f_equal. apply IH. intros k' a' H'. apply (H k' a'). now right.
  Qed.

  (* deleting, farthest first, the keys of a suffix of a sorted list leaves the prefix *)
  Lemma del_suffix dropped : forall p, sorted (p ++ rev dropped) ->
    fold_left (fun l k => del k l) (map fst dropped) (p ++ rev dropped) = p.
  Proof.
    induction dropped as [|[k a] rest IH]; intros p S; cbn [map fold_left rev fst].
    - now rewrite app_nil_r.
    - cbn [rev] in S. rewrite app_assoc in S |- *. rewrite del_last.
      + apply IH. now apply sorted_app in S as (S1 & _).
      + intros k' a' H E. subst. apply sorted_app in S as (_ & _ & S3).
        specialize (S3 k a' k a H (or_introl eq_refl)). now apply blt_irrefl in S3.
  Qed.
End AssocFacts.

(* ================================================================ the store *)

Section StoreFacts.
  Context {V : Type}.
  Variable vlen : V -> N.
  Variable vhead8 : V -> res N.
  Variable dec : bytes -> N.

  Notation st := (@st V).
  Notation db := (@db V).
  Notation held_kv := (held_kv vlen).
  Notation held := (held vlen).
  Notation put := (put vlen dec).
  Notation prune := (prune vlen dec).
  Notation open := (open vlen vhead8 dec).
  Notation step := (step vlen vhead8 dec).
  Notation run := (run vlen vhead8 dec).
  Notation reopen_at := (reopen_at vlen vhead8 dec).

  (* ---------------- bytes held *)
  Lemma held_kv_cons k v l : held_kv ((k, v) :: l) = nlen k + vlen v + held_kv l.
  Proof. reflexivity. Qed.
  Lemma held_kv_nil : held_kv [] = 0.
  Proof. reflexivity. Qed.

  Lemma held_kv_app l1 l2 : held_kv (l1 ++ l2) = held_kv l1 + held_kv l2.
  Proof.
    induction l1 as [|[k v] t IH]; cbn [app]; [rewrite held_kv_nil; lia|].
    rewrite !held_kv_cons, IH. lia.
  Qed.

  Lemma held_kv_rev l : held_kv (rev l) = held_kv l.
  Proof.
    induction l as [|[k v] t IH]; [reflexivity|]. cbn [rev]. rewrite held_kv_app, IH.
    rewrite !held_kv_cons, held_kv_nil. lia.
  Qed.

  Lemma held_kv_ins_le k v l : held_kv (ins k v l) <= held_kv l + nlen k + vlen v.
  Proof.
    induction l as [|[k2 v2] t IH]; cbn [ins].
    - rewrite held_kv_cons, !held_kv_nil. lia.
    - destruct (bcmp k k2); rewrite !held_kv_cons; try lia.
  Qed.

  Lemma held_kv_ins_ge k v l : nlen k + vlen v <= held_kv (ins k v l).
  Proof.
    induction l as [|[k2 v2] t IH]; cbn [ins].
    - rewrite held_kv_cons. lia.
    - destruct (bcmp k k2); rewrite !held_kv_cons; lia.
  Qed.

  (* ---------------- the prune loop *)
  Lemma drop_far_spec e : forall rl f ds f' stop,
    drop_far vlen e f rl = (ds, f', stop) ->
    exists dropped kept, rl = dropped ++ kept /\ ds = map fst dropped /\ f' = f + held_kv dropped /\
      match stop with
      | None => kept = []
      | Some k => e <= f' /\ exists v t, kept = (k, v) :: t
      end.
  Proof.
    induction rl as [|[k v] t IH]; intros f ds f' stop; cbn [drop_far].
    - intros H. inversion H; subst. exists [], []. cbn. repeat split; lia.
    - destruct (f <? e) eqn:L.
      + destruct (drop_far vlen e (f + nlen k + vlen v) t) as [[ds1 f1] stop1] eqn:D. intros H. inversion H; subst.
        destruct (IH _ _ _ _ D) as (dr & kp & E1 & E2 & E3 & E4).
        exists ((k, v) :: dr), kp. subst. cbn [app map fst]. repeat split; [|exact E4].
        rewrite held_kv_cons. lia.
      + intros H. inversion H; subst. exists [], ((k, v) :: t). cbn [app map]. repeat split; [cbn; lia| lia |eauto].
  Qed.

  (* ---------------- invariants *)
  Definition kv_ok (l : list (bytes * V)) : Prop :=
    sorted l /\ forall k v, In (k, v) l -> length k = 32%nat /\ k <> sizekey.

  (* the database alone (what survives a crash); Q says where items may come from *)
  Definition DInv (Q : bytes -> V -> Prop) (d : db) : Prop :=
    kv_ok (kv d) /\ (forall k v, In (k, v) (kv d) -> Q k v) /\
    match rec d with
    | None => kv d = []
    | Some (SizeRec n) => held_kv (kv d) <= n          (* the persisted usage figure covers what is held *)
    | Some (Item _) => False
    end.

  Definition Inv (Q : bytes -> V -> Prop) (s : st) : Prop :=
    DInv Q (sdb s) /\ length (node s) = 32%nat /\
    match rec (sdb s) with
    | None => cnt s = 0
    | Some (SizeRec n) => n = cnt s                     (* persisted record = in-memory counter *)
    | Some (Item _) => False
    end.

  (* every retained item lies within the advertised radius *)
  Definition RInv (s : st) : Prop := forall k v, In (k, v) (kv (sdb s)) -> dec k <= rad s.

  Lemma DInv_mono (Q Q' : bytes -> V -> Prop) d : (forall k v, Q k v -> Q' k v) -> DInv Q d -> DInv Q' d.
  Proof. intros H (A & B & C). split; [exact A|]. split; [|exact C]. intros k v I. apply H, B, I. Qed.

  Lemma Inv_mono (Q Q' : bytes -> V -> Prop) s : (forall k v, Q k v -> Q' k v) -> Inv Q s -> Inv Q' s.
  Proof. intros H (A & B). split; [eapply DInv_mono; eassumption | exact B]. Qed.

  Lemma Inv_held Q s : Inv Q s -> held s <= cnt s.
  Proof.
    intros ((_ & _ & A) & _ & B). unfold Storage.held. destruct (rec (sdb s)) as [[n|v]|]; try contradiction.
    - subst. exact A.
    - rewrite A. cbn. lia.
  Qed.

  Lemma apply_dels ds : forall d : db, (forall k, In k ds -> k <> sizekey) ->
    fold_left (apply_op (V:=V)) (map BDel ds) d = {| rec := rec d; kv := fold_left (fun l k => del k l) ds (kv d) |}.
  Proof.
    induction ds as [|k t IH]; intros d H; cbn [map fold_left]; [now destruct d|].
    rewrite IH by (intros k' I; apply H; now right). cbn [apply_op].
    rewrite bytes_eqb_neq by (apply H; now left). reflexivity.
  Qed.

  (* prune() on a state whose counter covers what is held: it succeeds, removes a suffix of the key order,
     frees at least `expect` bytes or everything, and moves the radius to the farthest kept key *)
  Lemma prune_ok s : kv_ok (kv (sdb s)) -> held s <= cnt s ->
    exists kept dropped b,
      kv (sdb s) = kept ++ dropped /\
      let n := cnt s - held_kv dropped in
      let d' := {| rec := Some (SizeRec n); kv := kept |} in
      apply_batch (sdb s) b = d' /\
      ((kept = [] /\ prune s = (with_db s d' n (rad s), true, [(b, true)])) \/
       (exists k v kept', kept = kept' ++ [(k, v)] /\ expect s <= held_kv dropped /\
          prune s = (with_db s d' n (dec k), true, [(b, true)]))).
  Proof.
    intros (S & K) H. unfold Storage.prune.
    destruct (drop_far vlen (expect s) 0 (rev (kv (sdb s)))) as [[ds freed] stop] eqn:D.
    destruct (drop_far_spec _ _ _ _ _ _ D) as (dr & kp & E1 & E2 & E3 & E4).
    assert (EL : kv (sdb s) = rev kp ++ rev dr).
    { rewrite <- rev_app_distr, <- E1. now rewrite rev_involutive. }
    assert (HF : freed = held_kv (rev dr)) by (rewrite held_kv_rev; lia).
    assert (HLE : freed <= cnt s).
    { unfold Storage.held in H. rewrite EL, held_kv_app in H. lia. }
    replace (cnt s <? freed) with false by lia.
    exists (rev kp), (rev dr), (map BDel ds ++ [BSetSize (cnt s - freed)]).
    split; [exact EL|]. rewrite <- HF. cbn zeta.
    assert (AB : apply_batch (sdb s) (map BDel ds ++ [BSetSize (cnt s - freed)]) =
                 {| rec := Some (SizeRec (cnt s - freed)); kv := rev kp |}).
    { unfold apply_batch. rewrite fold_left_app, apply_dels.
      - cbn [fold_left apply_op kv]. f_equal. rewrite E2, EL. apply del_suffix. now rewrite <- EL.
      - intros k I. subst ds. apply in_map_iff in I as ([k' v'] & <- & I). cbn [fst].
        apply (K k' v'). rewrite EL. apply in_or_app. right. now apply -> in_rev. }
    split; [exact AB|]. rewrite AB.
    destruct stop as [k|].
    - destruct E4 as (E5 & v & t & ->). right. exists k, v, (rev t). cbn [rev]. split; [reflexivity|].
      split; [lia | reflexivity].
    - subst kp. left. split; reflexivity.
  Qed.

  Lemma kv_ok_prefix l1 l2 : kv_ok (l1 ++ l2) -> kv_ok l1.
  Proof.
    intros (S & K). split; [now apply sorted_app in S|]. intros k v I. apply (K k v). apply in_or_app. now left.
  Qed.

  Lemma kv_ok_ins k v l : kv_ok l -> length k = 32%nat -> k <> sizekey -> kv_ok (ins k v l).
  Proof.
    intros (S & K) H1 H2. split; [now apply sorted_ins|].
    intros k' v' I. apply In_ins in I as [[-> _]|I]; [now split | now apply (K k' v')].
  Qed.

  (* what a pruning pass does, in the terms of the properties *)
  Definition pruned_from (s s' : st) : Prop :=
    exists dropped, kv (sdb s) = kv (sdb s') ++ dropped /\
      cnt s' = cnt s - held_kv dropped /\
      (expect s <= held_kv dropped \/ kv (sdb s') = []) /\
      rec (sdb s') = Some (SizeRec (cnt s')) /\
      (kv (sdb s') = [] -> rad s' = rad s) /\
      (forall k v p, kv (sdb s') = p ++ [(k, v)] -> rad s' = dec k).

  Lemma last_inj {A} (p p' : list A) x x' : p ++ [x] = p' ++ [x'] -> x = x'.
  Proof. intros H. apply app_inj_tail in H. tauto. Qed.

  Lemma prune_inv Q s : DInv Q (sdb s) -> length (node s) = 32%nat -> held s <= cnt s ->
    exists s' b, prune s = (s', true, [(b, true)]) /\ Inv Q s' /\ sdb s' = apply_batch (sdb s) b /\
      capMB s' = capMB s /\ ppm s' = ppm s /\ node s' = node s /\ pruned_from s s'.
  Proof.
    intros (KO & HQ & HR) HN HH.
    destruct (prune_ok s KO HH) as (kept & dropped & b & EL & AB & C). cbn zeta in AB, C.
    assert (HK : held_kv kept <= cnt s - held_kv dropped).
    { unfold Storage.held in HH. rewrite EL, held_kv_app in HH. lia. }
    assert (I' : forall r, Inv Q (with_db s {| rec := Some (SizeRec (cnt s - held_kv dropped)); kv := kept |} (cnt s - held_kv dropped) r)).
    { intros r. split; [|split; [exact HN | reflexivity]]. cbn [sdb with_db kv rec]. split; [|split; [|exact HK]].
      - rewrite EL in KO. now apply kv_ok_prefix in KO.
      - intros k v I. apply HQ. rewrite EL. apply in_or_app. now left. }
    destruct C as [(E & P)|(k & v & kp & E & F & P)]; rewrite P; eexists _, b; (split; [reflexivity|]); (split; [apply I'|]);
      (split; [cbn [sdb with_db]; now rewrite AB|]); (split; [reflexivity|]); (split; [reflexivity|]); (split; [reflexivity|]);
      exists dropped; cbn [sdb with_db kv rec cnt rad].
    - repeat split; try assumption; try tauto.
      intros k v p E'. rewrite E in E'. now destruct p.
    - repeat split; try assumption; try tauto.
      + intros E'. rewrite E in E'. now destruct kp.
      + intros k' v' p E'. rewrite E in E'. apply last_inj in E'. now inversion E'.
  Qed.

  (* ---------------- Put *)
  Definition cfg_eq (s s' : st) : Prop := capMB s' = capMB s /\ ppm s' = ppm s /\ node s' = node s.

  Lemma put_inv Q s id v : Inv Q s -> length id = 32%nat -> id <> node s ->
    exists k, xor_key id (node s) = Ok k /\ length k = 32%nat /\ k <> sizekey /\
      ((dec k < rad s -> False) /\ put s id v = Ok (s, Refused, []) \/
       dec k < rad s /\
       let n := cnt s + 32 + vlen v in
       let s1 := with_db s {| rec := Some (SizeRec n); kv := ins k v (kv (sdb s)) |} n (rad s) in
       let b1 := [BSetSize n; BSetItem k v] in
       Inv (fun k' v' => Q k' v' \/ (k' = k /\ v' = v)) s1 /\ apply_batch (sdb s) b1 = sdb s1 /\
       ((n <= cap s /\ put s id v = Ok (s1, Stored, [(b1, false)])) \/
        (cap s < n /\ exists s2 b2, put s id v = Ok (s2, Stored, [(b1, false); (b2, true)]) /\
           Inv (fun k' v' => Q k' v' \/ (k' = k /\ v' = v)) s2 /\ sdb s2 = apply_batch (sdb s1) b2 /\
           cfg_eq s s2 /\ pruned_from s1 s2))).
  Proof.
    intros HI Hid Hne. pose proof HI as ((KO & HQ & HR) & HN & HC).
    assert (XK : xor_key id (node s) = Ok (xor_bytes id (node s))) by (now apply xor_key_32).
    set (k := xor_bytes id (node s)) in *.
    assert (Lk : length k = 32%nat) by (unfold k; rewrite xor_bytes_length; lia).
    assert (Nk : k <> sizekey).
    { intros E. apply Hne. apply (xor_key_sizekey_iff id (node s) Hid HN). now rewrite XK, E. }
    exists k. split; [exact XK|]. split; [exact Lk|]. split; [exact Nk|].
    unfold Storage.put. rewrite XK. cbn [bind].
    destruct (dec k <? rad s) eqn:ER; cbn [negb].
    2:{ left. split; [lia | reflexivity]. }
    right. split; [lia|]. cbn zeta.
    assert (EN : nlen id = 32) by (unfold nlen; rewrite Hid; reflexivity). rewrite EN.
    set (n := cnt s + 32 + vlen v).
    assert (AB : apply_batch (sdb s) [BSetSize n; BSetItem k v] = {| rec := Some (SizeRec n); kv := ins k v (kv (sdb s)) |}).
    { unfold apply_batch. cbn [fold_left apply_op]. now rewrite bytes_eqb_neq. }
    rewrite AB.
    set (s1 := with_db s {| rec := Some (SizeRec n); kv := ins k v (kv (sdb s)) |} n (rad s)).
    assert (Hh : held s <= cnt s) by (eapply Inv_held; eassumption).
    assert (I1 : Inv (fun k' v' => Q k' v' \/ (k' = k /\ v' = v)) s1).
    { split; [|split; [exact HN | reflexivity]]. cbn [s1 sdb with_db kv rec]. split; [now apply kv_ok_ins|]. split.
      - intros k' v' I. apply In_ins in I as [I|I]; [now right | left; now apply HQ].
      - pose proof (held_kv_ins_le k v (kv (sdb s))) as L. unfold nlen in L. rewrite Lk in L.
        unfold Storage.held in Hh. change (N.of_nat 32) with 32 in L. cbn [rec kv]. unfold n. lia. }
    split; [exact I1|]. split; [reflexivity|].
    change (cap s) with (cap s1). destruct (cap s1 <? n) eqn:EC.
    - right. split; [lia|].
      destruct (prune_inv _ s1 (proj1 I1) HN (Inv_held _ _ I1)) as (s2 & b2 & P & I2 & D2 & C1 & C2 & C3 & PF).
      rewrite P. exists s2, b2. split; [reflexivity|]. split; [exact I2|]. split; [exact D2|].
      split; [now split|exact PF].
    - left. split; [lia | reflexivity].
  Qed.

  (* ---------------- NewStorage *)
  Definition fresh (cm pp : N) (nd : bytes) (d : db) (c : N) : st :=
    {| sdb := d; cnt := c; rad := MAXD; capMB := cm; ppm := pp; node := nd |}.

  Definition reload_radius (s1 s2 : st) (size : N) : st :=
    if thr s1 <? size then
      match last_key (sdb s2) with
      | Some k => with_db s2 (sdb s2) (cnt s2) (dec k)
      | None => s2
      end
    else s2.

  Lemma open_inv Q cm pp nd d : DInv Q d -> length nd = 32%nat ->
    (rec d = None /\ open cm pp nd d = Ok (fresh cm pp nd d 0, []) /\ Inv Q (fresh cm pp nd d 0)) \/
    (exists n, rec d = Some (SizeRec n) /\
       let s1 := fresh cm pp nd d n in
       exists s2 bs, open cm pp nd d = Ok (reload_radius s1 s2 n, bs) /\ Inv Q s2 /\
         sdb s2 = fold_left apply_batch (map fst bs) d /\ cfg_eq s1 s2 /\
         ((n <= cap s1 /\ s2 = s1 /\ bs = []) \/
          (cap s1 < n /\ (exists b, bs = [(b, true)]) /\ pruned_from s1 s2))).
  Proof.
    intros HD HN. pose proof HD as (KO & HQ & HR). unfold Storage.open.
    destruct (rec d) as [[n|v]|] eqn:ER; [|contradiction|].
    - right. exists n. split; [reflexivity|]. cbn zeta. cbn [bind].
      fold (fresh cm pp nd d 0). change (with_db (fresh cm pp nd d 0) d n MAXD) with (fresh cm pp nd d n).
      set (s1 := fresh cm pp nd d n).
      assert (I1 : Inv Q s1).
      { split; [exact HD|]. split; [exact HN|]. cbn [s1 fresh sdb cnt]. now rewrite ER. }
      destruct (cap s1 <? n) eqn:EC.
      + destruct (prune_inv Q s1 HD HN) as (s2 & b & P & I2 & D2 & C1 & C2 & C3 & PF).
        { cbn [s1 fresh cnt sdb]. unfold Storage.held. cbn [sdb fresh]. exact HR. }
        rewrite P. cbn [bind]. exists s2, [(b, true)]. split; [unfold reload_radius; destruct (thr s1 <? n); [destruct (last_key (sdb s2))|]; reflexivity|]. split; [exact I2|].
        split; [cbn [map fst fold_left]; exact D2|]. split; [now split|].
        right. split; [lia|]. split; [now exists b | exact PF].
      + cbn [bind]. exists s1, []. split; [unfold reload_radius; destruct (thr s1 <? n); [destruct (last_key (sdb s1))|]; reflexivity|]. split; [exact I1|]. split; [reflexivity|].
        split; [now split|]. left. split; [lia|]. now split.
    - left. split; [reflexivity|]. split; [reflexivity|]. split; [exact HD|]. split; [exact HN|].
      cbn [fresh sdb cnt]. now rewrite ER.
  Qed.

  Lemma reload_radius_inv Q s1 s2 n : Inv Q s2 -> Inv Q (reload_radius s1 s2 n).
  Proof.
    intros I. unfold reload_radius. destruct (thr s1 <? n); [|exact I].
    destruct (last_key (sdb s2)); [|exact I]. destruct I as (A & B & C). now split.
  Qed.

  Lemma reload_radius_same s1 s2 n :
    sdb (reload_radius s1 s2 n) = sdb s2 /\ cnt (reload_radius s1 s2 n) = cnt s2 /\ cfg_eq s2 (reload_radius s1 s2 n).
  Proof.
    unfold reload_radius, cfg_eq. destruct (thr s1 <? n); [|tauto]. destruct (last_key (sdb s2)); cbn; tauto.
  Qed.

  (* ---------------- the system: store + disk *)
  Notation sys := (@sys V).

  Definition DkInv (Q : bytes -> V -> Prop) (dk : list (batch (V:=V))) (sy : nat) (d0 : db) : Prop :=
    replay dk = d0 /\ (sy <= length dk)%nat /\
    forall c, (sy <= c <= length dk)%nat -> DInv Q (replay (firstn c dk)).

  Definition SInv (Q : bytes -> V -> Prop) (y : sys) : Prop :=
    Inv Q (mem y) /\ DkInv Q (disk y) (synced y) (sdb (mem y)).

  Lemma replay_app (a b : list (batch (V:=V))) : replay (a ++ b) = fold_left apply_batch b (replay a).
  Proof. unfold replay. apply fold_left_app. Qed.

  Lemma DkInv_mono (Q Q' : bytes -> V -> Prop) dk sy d0 :
    (forall k v, Q k v -> Q' k v) -> DkInv Q dk sy d0 -> DkInv Q' dk sy d0.
  Proof.
    intros H (A & B & C). split; [exact A|]. split; [exact B|]. intros c Hc. eapply DInv_mono; [exact H | now apply C].
  Qed.

  (* committing the batches of one operation: either nothing was synced and at most one batch was written,
     or the last batch was synced *)
  Lemma commit_inv Q y d0 s' bs :
    DkInv Q (disk y) (synced y) d0 -> Inv Q s' ->
    sdb s' = fold_left apply_batch (map fst bs) d0 ->
    (any_synced bs = false -> (length bs <= 1)%nat) ->
    SInv Q (commit y s' bs).
  Proof.
    intros (A & B & C) I D SH. split; [exact I|]. cbn [commit mem disk synced].
    assert (R : replay (disk y ++ map fst bs) = sdb s') by (now rewrite replay_app, A).
    split; [exact R|]. destruct (any_synced bs) eqn:ES.
    - split; [lia|]. intros c Hc. replace c with (length (disk y ++ map fst bs)) by lia.
      rewrite firstn_all, R. apply I.
    - specialize (SH eq_refl). rewrite app_length, map_length. split; [lia|]. intros c Hc.
      destruct (Nat.le_gt_cases c (length (disk y))) as [L|G].
      + rewrite firstn_app. replace (c - length (disk y))%nat with 0%nat by lia. cbn [firstn]. rewrite app_nil_r.
        apply C. lia.
      + replace c with (length (disk y ++ map fst bs)) by (rewrite app_length, map_length; lia).
        rewrite firstn_all, R. apply I.
  Qed.

  Definition valid_op (nd : bytes) (o : op (V:=V)) : Prop :=
    match o with
    | OPut id _ => length id = 32%nat /\ id <> nd
    | _ => True
    end.

  (* items of the store were put: by some OPut of the history, under that id *)
  Definition was_put (nd : bytes) (ops : list (op (V:=V))) (k : bytes) (v : V) : Prop :=
    exists id, In (OPut id v) ops /\ xor_key id nd = Ok k.

  Lemma reopen_inv Q y c : SInv Q y -> (synced y <= c <= length (disk y))%nat ->
    exists y', reopen_at y c = Ok y' /\ SInv Q y' /\ cfg_eq (mem y) (mem y').
  Proof.
    intros (I & A & B & C) Hc. pose proof I as (_ & HN & _). unfold Storage.reopen_at.
    set (d := firstn c (disk y)). specialize (C c Hc). fold d in C.
    assert (DK0 : DkInv Q d (length d) (replay d)).
    { split; [reflexivity|]. split; [lia|]. intros c' Hc'. replace c' with (length d) by lia. now rewrite firstn_all. }
    destruct (open_inv Q (capMB (mem y)) (ppm (mem y)) (node (mem y)) (replay d) C HN)
      as [(E & O & IF)|(n & E & s2 & bs & O & I2 & D2 & CF & SH)]; rewrite O; cbn [bind].
    - eexists. split; [reflexivity|]. split; [|now split].
      apply (commit_inv Q {| mem := fresh (capMB (mem y)) (ppm (mem y)) (node (mem y)) (replay d) 0; disk := d; synced := length d |} (replay d));
        cbn [mem disk synced sdb fresh]; [exact DK0 | exact IF | reflexivity | cbn; lia].
    - eexists. split; [reflexivity|].
      destruct (reload_radius_same (fresh (capMB (mem y)) (ppm (mem y)) (node (mem y)) (replay d) n) s2 n) as (R1 & R2 & R3).
      split.
      + apply (commit_inv Q {| mem := reload_radius (fresh (capMB (mem y)) (ppm (mem y)) (node (mem y)) (replay d) n) s2 n; disk := d; synced := length d |} (replay d));
          cbn [mem disk synced].
        * exact DK0.
        * now apply reload_radius_inv.
        * now rewrite R1.
        * destruct SH as [(_ & _ & ->)|(_ & (b & ->) & _)]; cbn; [lia | discriminate].
      + cbn [commit mem]. destruct CF as (F1 & F2 & F3). destruct R3 as (G1 & G2 & G3). unfold cfg_eq.
        rewrite G1, G2, G3, F1, F2, F3. now split.
  Qed.

  Lemma get_total (s : st) id : length (node s) = 32%nat -> exists r, get s id = Ok r.
  Proof.
    intros HN. unfold Storage.get. destruct (xor_key_total id (node s) HN) as (k & E & _). rewrite E. cbn [bind]. eauto.
  Qed.

  Lemma step_inv Q y o : SInv Q y -> valid_op (node (mem y)) o ->
    exists y', step y o = Ok y' /\ SInv (fun k v => Q k v \/ was_put (node (mem y)) [o] k v) y' /\ cfg_eq (mem y) (mem y').
  Proof.
    intros (I & DK) HV. pose proof I as (_ & HN & _).
    destruct o as [id v|id| |c]; cbn [Storage.step].
    - destruct HV as (Hid & Hne).
      destruct (put_inv Q (mem y) id v I Hid Hne) as (k & XK & Lk & Nk & [(NR & P)|(HR & I1 & AB & [(LE & P)|(GT & s2 & b2 & P & I2 & D2 & CF & PF)])]);
        cbn zeta in *; rewrite P; cbn [bind]; eexists; (split; [reflexivity|]).
      + split; [|now split]. apply (commit_inv _ y (sdb (mem y))); [| |reflexivity|cbn; lia].
        * eapply DkInv_mono; [|exact DK]. tauto.
        * eapply Inv_mono; [|exact I]. tauto.
      + set (Q' := fun k' v' => Q k' v' \/ was_put (node (mem y)) [OPut id v] k' v').
        assert (QQ : forall k' v', Q k' v' \/ k' = k /\ v' = v -> Q' k' v').
        { intros k' v' [H|(-> & ->)]; [now left|]. right. exists id. split; [now left | exact XK]. }
        split; [|now split]. apply (commit_inv _ y (sdb (mem y))).
        * eapply DkInv_mono; [|exact DK]. intros; now left.
        * eapply Inv_mono; [exact QQ | exact I1].
        * cbn [map fst fold_left]. now rewrite AB.
        * cbn. lia.
      + set (Q' := fun k' v' => Q k' v' \/ was_put (node (mem y)) [OPut id v] k' v').
        assert (QQ : forall k' v', Q k' v' \/ k' = k /\ v' = v -> Q' k' v').
        { intros k' v' [H|(-> & ->)]; [now left|]. right. exists id. split; [now left | exact XK]. }
        split; [|exact CF]. apply (commit_inv _ y (sdb (mem y))).
        * eapply DkInv_mono; [|exact DK]. intros; now left.
        * eapply Inv_mono; [exact QQ | exact I2].
        * cbn [map fst fold_left]. now rewrite AB, D2.
        * cbn. discriminate.
    - destruct (get_total (mem y) id HN) as (r & ->). cbn [bind]. exists y. split; [reflexivity|].
      split; [|now split]. split; [eapply Inv_mono; [|exact I]; tauto | eapply DkInv_mono; [|exact DK]; tauto].
    - destruct (reopen_inv Q y (length (disk y)) (conj I DK)) as (y' & R & S' & CF).
      { destruct DK as (_ & B & _). lia. }
      exists y'. split; [exact R|]. split; [|exact CF].
      destruct S' as (I' & DK'). split; [eapply Inv_mono; [|exact I']; tauto | eapply DkInv_mono; [|exact DK']; tauto].
    - destruct (reopen_inv Q y (clamp_cut y c) (conj I DK)) as (y' & R & S' & CF).
      { destruct DK as (_ & B & _). unfold clamp_cut. lia. }
      exists y'. split; [exact R|]. split; [|exact CF].
      destruct S' as (I' & DK'). split; [eapply Inv_mono; [|exact I']; tauto | eapply DkInv_mono; [|exact DK']; tauto].
  Qed.

  Lemma SInv_mono (Q Q' : bytes -> V -> Prop) y : (forall k v, Q k v -> Q' k v) -> SInv Q y -> SInv Q' y.
  Proof. intros H (A & B). split; [eapply Inv_mono | eapply DkInv_mono]; eassumption. Qed.

  Lemma run_inv : forall ops Q y, SInv Q y -> Forall (valid_op (node (mem y))) ops ->
    exists y', run y ops = Ok y' /\ SInv (fun k v => Q k v \/ was_put (node (mem y)) ops k v) y' /\ cfg_eq (mem y) (mem y').
  Proof.
    induction ops as [|o t IH]; intros Q y S F; cbn [Storage.run].
    - exists y. split; [reflexivity|]. split; [eapply SInv_mono; [|exact S]; tauto | now split].
    - inversion F as [|? ? F1 F2]; subst.
      destruct (step_inv Q y o S F1) as (y1 & E1 & S1 & (C1 & C2 & C3)). rewrite E1. cbn [bind].
      rewrite <- C3 in F2. destruct (IH _ y1 S1 F2) as (y2 & E2 & S2 & (D1 & D2 & D3)).
      exists y2. split; [exact E2|]. split.
      + eapply SInv_mono; [|exact S2]. cbn beta. rewrite C3. intros k v [[H|(id & [H|[]] & X)]|(id & H & X)].
        * now left.
        * right. exists id. split; [left; exact H | exact X].
        * right. exists id. split; [right; exact H | exact X].
      + unfold cfg_eq. rewrite D1, D2, D3, C1, C2, C3. now split.
  Qed.

  Lemma init_SInv cm pp nd : length nd = 32%nat -> SInv (fun _ _ => False) (init cm pp nd).
  Proof.
    intros HN. split.
    - split; [|split; [exact HN | reflexivity]]. cbn. split; [split; [exact I | intros ? ? []]|]. split; [intros ? ? []|reflexivity].
    - split; [reflexivity|]. split; [cbn; lia|]. intros c Hc. cbn in Hc. replace c with 0%nat by lia. cbn.
      split; [split; [exact I | intros ? ? []]|]. split; [intros ? ? []|reflexivity].
  Qed.

  (* ---- the history theorem behind C04 (nothing but what was put), C05 (accounting) and C17 (all cuts) *)
  Theorem history_consistent cm pp nd ops : length nd = 32%nat -> Forall (valid_op nd) ops ->
    exists y, run (init cm pp nd) ops = Ok y /\
      Inv (was_put nd ops) (mem y) /\
      replay (disk y) = sdb (mem y) /\
      (forall c, (synced y <= c <= length (disk y))%nat -> DInv (was_put nd ops) (replay (firstn c (disk y)))) /\
      cfg_eq (mem (init cm pp nd)) (mem y).
  Proof.
    intros HN F. destruct (run_inv ops _ (init cm pp nd) (init_SInv cm pp nd HN) F) as (y & R & S & C).
    exists y. split; [exact R|]. cbn [init mem node] in S.
    assert (S' : SInv (was_put nd ops) y) by (eapply SInv_mono; [|exact S]; cbn; tauto).
    destruct S' as (I & A & B & D). split; [exact I|]. split; [exact A|]. split; [exact D | exact C].
  Qed.

  (* ---------------- radius (C06): needs a decoder that is monotone for the key order *)
  Lemma list_last_cases {A} (l : list A) : l = [] \/ exists p x, l = p ++ [x].
  Proof. destruct (rev l) eqn:E.
    - left. apply (f_equal (@rev A)) in E. now rewrite rev_involutive in E.
    - right. exists (rev l0), a. apply (f_equal (@rev A)) in E. now rewrite rev_involutive in E.
  Qed.

  Lemma last_key_last (d : db) p k v : kv d = p ++ [(k, v)] -> last_key d = Some k.
  Proof. intros E. unfold last_key. now rewrite E, rev_unit. Qed.

  Lemma last_key_empty (d : db) : kv d = [] -> last_key d = None.
  Proof. intros E. unfold last_key. now rewrite E. Qed.

  (* in a sorted list nothing is after the last key *)
  Lemma last_is_max p k v k' v' : kv_ok (p ++ [(k, v)]) -> In (k', v') (p ++ [(k, v)]) -> bcmp k' k <> Gt.
  Proof.
    intros (S & _) I. apply in_app_or in I as [I|[I|[]]].
    - apply sorted_app in S as (_ & _ & S3). specialize (S3 k' v' k v I (or_introl eq_refl)). unfold blt in S3. congruence.
    - inversion I; subst. rewrite bcmp_refl. discriminate.
  Qed.

  Lemma RInv_last s p k v : mono dec -> kv_ok (kv (sdb s)) -> kv (sdb s) = p ++ [(k, v)] -> rad s = dec k -> RInv s.
  Proof.
    intros M KO E R k' v' I. rewrite R. pose proof KO as (_ & K). rewrite E in KO, I.
    apply (mono_le dec k' k M).
    - apply (K k' v'). now rewrite E.
    - apply (K k v). rewrite E. apply in_or_app. right. now left.
    - eapply last_is_max; eassumption.
  Qed.

  Lemma pruned_rinv Q s1 s2 : mono dec -> Inv Q s2 -> pruned_from s1 s2 -> RInv s1 -> RInv s2 /\ rad s2 <= rad s1.
  Proof.
    intros M I2 (dropped & EL & _ & _ & _ & R0 & R1) R.
    destruct (list_last_cases (kv (sdb s2))) as [E|(p & [k v] & E)].
    - split; [intros k v I; rewrite E in I; destruct I | rewrite (R0 E); lia].
    - specialize (R1 k v p E). split.
      + eapply RInv_last; try eassumption. apply I2.
      + rewrite R1. apply (R k v). rewrite EL, E. apply in_or_app. left. apply in_or_app. right. now left.
  Qed.

  Lemma put_rinv Q s id v s' r bs : mono dec -> Inv Q s -> length id = 32%nat -> id <> node s -> RInv s ->
    put s id v = Ok (s', r, bs) -> RInv s' /\ rad s' <= rad s.
  Proof.
    intros M I Hid Hne R P.
    destruct (put_inv Q s id v I Hid Hne) as (k & XK & Lk & Nk & [(NR & P')|(HR & I1 & AB & [(LE & P')|(GT & s2 & b2 & P' & I2 & D2 & CF & PF)])]);
      cbn zeta in *; rewrite P' in P; inversion P; subst; clear P.
    - split; [exact R | lia].
    - split; [|cbn; lia]. intros k' v' H. cbn [sdb with_db kv rad] in *. apply In_ins in H as [(-> & _)|H]; [lia | now apply (R k' v')].
    - match type of PF with pruned_from ?s1 _ => assert (R1 : RInv s1) end.
      { intros k' v' H. cbn [sdb with_db kv rad] in *. apply In_ins in H as [(-> & _)|H]; [lia | now apply (R k' v')]. }
      destruct (pruned_rinv _ _ _ M I2 PF R1) as (R2 & L2). split; [exact R2 | exact L2].
  Qed.

  Lemma fresh_rinv cm pp nd (d : db) n : bounded dec -> kv_ok (kv d) -> RInv (fresh cm pp nd d n).
  Proof. intros B (_ & K) k v H. cbn [fresh rad]. apply B. now apply (K k v). Qed.

  Lemma reload_rinv s1 s2 n : mono dec -> kv_ok (kv (sdb s2)) -> RInv s2 -> RInv (reload_radius s1 s2 n).
  Proof.
    intros M KO R. unfold reload_radius. destruct (thr s1 <? n); [|exact R].
    destruct (list_last_cases (kv (sdb s2))) as [E|(p & [k v] & E)].
    - destruct (last_key (sdb s2)); [|exact R]. intros k v H. cbn [with_db sdb] in H. rewrite E in H. destruct H.
    - rewrite (last_key_last _ _ _ _ E). eapply RInv_last; [exact M | exact KO | exact E | reflexivity].
  Qed.

  Lemma open_rinv Q cm pp nd d s' bs : good dec -> DInv Q d -> length nd = 32%nat ->
    open cm pp nd d = Ok (s', bs) -> RInv s'.
  Proof.
    intros (M & B) HD HN O.
    destruct (open_inv Q cm pp nd d HD HN) as [(E & O' & IF)|(n & E & s2 & bs' & O' & I2 & D2 & CF & SH)];
      rewrite O' in O; inversion O; subst; clear O.
    - apply fresh_rinv; [exact B | apply HD].
    - apply reload_rinv; [exact M | apply I2 |].
      destruct SH as [(_ & -> & _)|(_ & _ & PF)].
      + apply fresh_rinv; [exact B | apply HD].
      + eapply pruned_rinv; try eassumption. apply fresh_rinv; [exact B | apply HD].
  Qed.

  Definition is_put_or_get (o : op (V:=V)) : bool :=
    match o with OPut _ _ | OGet _ => true | _ => false end.

  Lemma step_rinv Q y o y' : good dec -> SInv Q y -> valid_op (node (mem y)) o -> RInv (mem y) ->
    step y o = Ok y' -> RInv (mem y') /\ (is_put_or_get o = true -> rad (mem y') <= rad (mem y)).
  Proof.
    intros G (I & A & B & C) HV R ST. pose proof I as (_ & HN & _).
    destruct o as [id v|id| |c]; cbn [Storage.step] in ST.
    - destruct HV as (Hid & Hne). destruct (put (mem y) id v) as [[[s' r] bs]| |] eqn:P; cbn [bind] in ST; try discriminate.
      inversion ST; subst. cbn [commit mem]. destruct (put_rinv Q _ _ _ _ _ _ (proj1 G) I Hid Hne R P). tauto.
    - destruct (get (mem y) id); cbn [bind] in ST; try discriminate. inversion ST; subst. split; [exact R | lia].
    - unfold Storage.reopen_at in ST.
      destruct (open (capMB (mem y)) (ppm (mem y)) (node (mem y)) (replay (firstn (length (disk y)) (disk y)))) as [[s' bs]| |] eqn:O;
        cbn [bind] in ST; try discriminate. inversion ST; subst. cbn [commit mem]. split; [|discriminate].
      eapply open_rinv; [exact G | | exact HN | exact O]. apply C. lia.
    - unfold Storage.reopen_at in ST.
      destruct (open (capMB (mem y)) (ppm (mem y)) (node (mem y)) (replay (firstn (clamp_cut y c) (disk y)))) as [[s' bs]| |] eqn:O;
        cbn [bind] in ST; try discriminate. inversion ST; subst. cbn [commit mem]. split; [|discriminate].
      eapply open_rinv; [exact G | | exact HN | exact O]. apply C. unfold clamp_cut. lia.
  Qed.

  (* every retained item is within the advertised radius, at all times of every history (restarts and crashes included) *)
  Theorem history_radius cm pp nd ops y : good dec -> length nd = 32%nat -> Forall (valid_op nd) ops ->
    run (init cm pp nd) ops = Ok y -> RInv (mem y).
  Proof.
    intros G HN F. 
    assert (GEN : forall ops Q y0 y, SInv Q y0 -> Forall (valid_op (node (mem y0))) ops -> RInv (mem y0) ->
                   run y0 ops = Ok y -> RInv (mem y)).
    { clear ops F y. induction ops as [|o t IH]; intros Q y0 y S F R RU; cbn [Storage.run] in RU.
      - now inversion RU; subst.
      - inversion F as [|? ? F1 F2]; subst.
        destruct (step_inv Q y0 o S F1) as (y1 & E1 & S1 & (C1 & C2 & C3)). rewrite E1 in RU. cbn [bind] in RU.
        destruct (step_rinv Q y0 o y1 G S F1 R E1) as (R1 & _). rewrite <- C3 in F2. eapply IH; eassumption. }
    intros RU. eapply GEN; [apply (init_SInv cm pp nd HN) | exact F | | exact RU].
    intros k v [].
  Qed.

  (* the same from any consistent state *)
  Theorem run_rinv : forall ops Q (y0 y : sys), good dec -> SInv Q y0 -> Forall (valid_op (node (mem y0))) ops ->
    RInv (mem y0) -> run y0 ops = Ok y -> RInv (mem y).
  Proof.
    induction ops as [|o t IH]; intros Q y0 y G S F R RU; cbn [Storage.run] in RU.
    - now inversion RU; subst.
    - inversion F as [|? ? F1 F2]; subst.
      destruct (step_inv Q y0 o S F1) as (y1 & E1 & S1 & (C1 & C2 & C3)). rewrite E1 in RU. cbn [bind] in RU.
      destruct (step_rinv Q y0 o y1 G S F1 R E1) as (R1 & _). rewrite <- C3 in F2. eapply IH; eassumption.
  Qed.

  Lemma run_app : forall a b (y : sys), run y (a ++ b) = bind (run y a) (fun y1 => run y1 b).
  Proof.
    induction a as [|o a IH]; intros b y; cbn [app Storage.run bind]; [reflexivity|].
    destruct (step y o); cbn [bind]; [apply IH | reflexivity | reflexivity].
  Qed.

  (* the radius only shrinks during a run (no reopen in between) *)
  Theorem run_radius_antitone : forall ops Q y0 y, good dec -> SInv Q y0 -> RInv (mem y0) ->
    Forall (valid_op (node (mem y0))) ops -> forallb is_put_or_get ops = true ->
    run y0 ops = Ok y -> rad (mem y) <= rad (mem y0).
  Proof.
    induction ops as [|o t IH]; intros Q y0 y G S R F PG RU; cbn [Storage.run] in RU.
    - inversion RU; subst. lia.
    - inversion F as [|? ? F1 F2]; subst. cbn [forallb] in PG. apply andb_true_iff in PG as (PG1 & PG2).
      destruct (step_inv Q y0 o S F1) as (y1 & E1 & S1 & (C1 & C2 & C3)). rewrite E1 in RU. cbn [bind] in RU.
      destruct (step_rinv Q y0 o y1 G S F1 R E1) as (R1 & L1). rewrite <- C3 in F2.
      specialize (IH _ y1 y G S1 R1 F2 PG2 RU). specialize (L1 PG1). lia.
  Qed.

  (* ---------------- C04: what Get returns *)
  Definition valid_id (nd id : bytes) : Prop := length id = 32%nat /\ id <> nd.

  Lemma get_valid (s : st) id : length (node s) = 32%nat -> valid_id (node s) id ->
    get s id = Ok (option_map Item (lookup (xor_bytes id (node s)) (kv (sdb s)))) /\
    length (xor_bytes id (node s)) = 32%nat /\ xor_bytes id (node s) <> sizekey.
  Proof.
    intros HN (Hid & Hne). unfold Storage.get. rewrite (xor_key_32 id (node s) Hid HN). cbn [bind].
    assert (Nk : xor_bytes id (node s) <> sizekey).
    { intros E. apply Hne. apply (xor_key_sizekey_iff id (node s) Hid HN). now rewrite xor_key_32, E. }
    rewrite bytes_eqb_neq by exact Nk. split; [reflexivity|]. split; [rewrite xor_bytes_length; lia | exact Nk].
  Qed.

  Lemma lookup_prefix {A} (l1 l2 : list (bytes * A)) k : lookup k l1 = lookup k (l1 ++ l2) \/ lookup k l1 = None.
  Proof. destruct (lookup k l1) eqn:E; [left; symmetry; now apply lookup_app_l | now right]. Qed.

  (* a put: refused changes nothing; accepted makes exactly these bytes readable under this id and leaves every other
     id alone - except for what the pruning pass of the same call removed (only when the counter went over capacity) *)
  Theorem put_get Q s id v s' r bs : Inv Q s -> valid_id (node s) id -> put s id v = Ok (s', r, bs) ->
    (r = Refused /\ s' = s /\ bs = []) \/
    (r = Stored /\ forall id', valid_id (node s) id' ->
       get s' id' = (if bytes_eqb id' id then Ok (Some (Item v)) else get s id') \/
       (get s' id' = Ok None /\ cap s < cnt s + 32 + vlen v)).
  Proof.
    intros I (Hid & Hne) P. pose proof I as (_ & HN & _).
    destruct (put_inv Q s id v I Hid Hne) as (k & XK & Lk & Nk & [(NR & P')|(HR & I1 & AB & [(LE & P')|(GT & s2 & b2 & P' & I2 & D2 & CF & PF)])]);
      cbn zeta in *; rewrite P' in P; inversion P; subst; clear P.
    - left. tauto.
    - right. split; [reflexivity|]. intros id' V'. left.
      destruct (get_valid s id' HN V') as (G & _). rewrite G.
      match goal with |- get ?s1 _ = _ => destruct (get_valid s1 id' HN V') as (G1 & _); rewrite G1 end.
      cbn [with_db sdb kv node]. rewrite xor_key_32 in XK by (assumption || apply V'). inversion XK; subst k.
      destruct (bytes_eqb id' id) eqn:E.
      + apply bytes_eqb_eq in E. subst. now rewrite lookup_ins_same.
      + rewrite lookup_ins_other; [reflexivity|]. intros X. apply xor_bytes_inj in X; [|destruct V'; lia|lia].
        subst. now rewrite bytes_eqb_refl in E.
    - right. split; [reflexivity|]. intros id' V'. destruct CF as (_ & _ & CN).
      assert (V2 : valid_id (node s') id') by (now rewrite CN).
      assert (HN2 : length (node s') = 32%nat) by (now rewrite CN).
      destruct (get_valid s' id' HN2 V2) as (G2 & _). rewrite G2, CN.
      destruct PF as (dropped & EL & _). cbn [with_db sdb kv] in EL.
      destruct (lookup_prefix (kv (sdb s')) dropped (xor_bytes id' (node s))) as [E|E]; rewrite E.
      + left. rewrite <- EL. destruct (get_valid s id' HN V') as (G & _). rewrite G.
        rewrite xor_key_32 in XK by (assumption || apply V'). inversion XK; subst k.
        destruct (bytes_eqb id' id) eqn:E'.
        * apply bytes_eqb_eq in E'. subst. now rewrite lookup_ins_same.
        * rewrite lookup_ins_other; [reflexivity|]. intros X. apply xor_bytes_inj in X; [|destruct V'; lia|lia].
          subst. now rewrite bytes_eqb_refl in E'.
      + right. split; [reflexivity | exact GT].
  Qed.

  (* close + reopen: every get is preserved, except for what the prune-on-open removed (only when over capacity) *)
  Theorem reopen_get Q s s' bs : Inv Q s ->
    open (capMB s) (ppm s) (node s) (sdb s) = Ok (s', bs) ->
    forall id', valid_id (node s) id' -> get s' id' = get s id' \/ (get s' id' = Ok None /\ cap s < cnt s).
  Proof.
    intros I O id' V'. pose proof I as (HD & HN & HC).
    destruct (open_inv Q (capMB s) (ppm s) (node s) (sdb s) HD HN) as [(E & O' & IF)|(n & E & s2 & bs' & O' & I2 & D2 & CF & SH)];
      rewrite O' in O; inversion O; subst; clear O.
    - left. destruct (get_valid s id' HN V') as (G & _). rewrite G.
      destruct (get_valid (fresh (capMB s) (ppm s) (node s) (sdb s) 0) id' HN V') as (G1 & _). now rewrite G1.
    - rewrite E in HC. subst n.
      destruct (reload_radius_same (fresh (capMB s) (ppm s) (node s) (sdb s) (cnt s)) s2 (cnt s)) as (R1 & _ & (_ & _ & R3)).
      destruct CF as (_ & _ & CN). cbn [fresh node] in CN.
      set (s3 := reload_radius (fresh (capMB s) (ppm s) (node s) (sdb s) (cnt s)) s2 (cnt s)) in *.
      assert (N3 : node s3 = node s) by congruence.
      assert (V3 : valid_id (node s3) id') by (now rewrite N3).
      assert (HN3 : length (node s3) = 32%nat) by (now rewrite N3).
      destruct (get_valid s3 id' HN3 V3) as (G3 & _). rewrite G3, N3, R1.
      destruct (get_valid s id' HN V') as (G & _). rewrite G.
      destruct SH as [(_ & -> & _)|(GT & _ & (dropped & EL & _))].
      + now left.
      + cbn [fresh sdb] in EL. destruct (lookup_prefix (kv (sdb s2)) dropped (xor_bytes id' (node s))) as [X|X]; rewrite X.
        * left. now rewrite EL.
        * right. split; [reflexivity|]. exact GT.
  Qed.

  (* ---------------- C05: capacity *)
  Theorem put_within_capacity Q s id v s' r bs : Inv Q s -> valid_id (node s) id -> put s id v = Ok (s', r, bs) ->
    cnt s <= cap s -> 32 + vlen v <= expect s -> cnt s' <= cap s /\ held s' <= cap s.
  Proof.
    intros I (Hid & Hne) P LC SM.
    assert (GOAL : cnt s' <= cap s /\ Inv (fun k' v' => Q k' v' \/ True) s').
    { destruct (put_inv Q s id v I Hid Hne) as (k & XK & Lk & Nk & [(NR & P')|(HR & I1 & AB & [(LE & P')|(GT & s2 & b2 & P' & I2 & D2 & CF & PF)])]);
        cbn zeta in *; rewrite P' in P; inversion P; subst; clear P.
      - split; [exact LC | eapply Inv_mono; [|exact I]; tauto].
      - split; [exact LE | eapply Inv_mono; [|exact I1]; tauto].
      - split; [|eapply Inv_mono; [|exact I2]; tauto].
        destruct PF as (dropped & EL & EC & [FR|EM] & _); cbn [with_db sdb kv cnt expect capMB ppm] in *.
        + unfold expect in *. cbn [with_db capMB ppm] in FR. lia.
        + rewrite EM in EL. cbn [app] in EL. pose proof (held_kv_ins_ge k v (kv (sdb s))) as GE. rewrite EL in GE.
          unfold nlen in GE. rewrite Lk in GE. change (N.of_nat 32) with 32 in GE. lia. }
    destruct GOAL as (G1 & G2). split; [exact G1|]. pose proof (Inv_held _ _ G2). lia.
  Qed.

  (* a pruning pass removes a suffix of the key order: everything dropped sorts after everything kept *)
  Theorem prune_farthest_first (s s' : st) : kv_ok (kv (sdb s)) -> pruned_from s s' ->
    exists dropped, kv (sdb s) = kv (sdb s') ++ dropped /\
      forall k v k' v', In (k, v) (kv (sdb s')) -> In (k', v') dropped -> blt k k'.
  Proof.
    intros (S & _) (dropped & EL & _). exists dropped. split; [exact EL|]. rewrite EL in S.
    now apply sorted_app in S as (_ & _ & S3).
  Qed.

  (* histories of small items never leave the store over capacity (crash-free histories; restarts included) *)
  Definition small_op (nd : bytes) (ex : N) (o : op (V:=V)) : Prop :=
    match o with
    | OPut id v => valid_id nd id /\ 32 + vlen v <= ex
    | OGet _ | OReopen => True
    | OCrash _ => False
    end.

  Lemma small_valid nd ex o : small_op nd ex o -> valid_op nd o.
  Proof. destruct o; cbn [small_op valid_op]; unfold valid_id; tauto. Qed.

  Theorem history_within_capacity : forall ops Q y0 y, SInv Q y0 -> cnt (mem y0) <= cap (mem y0) ->
    Forall (small_op (node (mem y0)) (expect (mem y0))) ops -> run y0 ops = Ok y ->
    cnt (mem y) <= cap (mem y) /\ held (mem y) <= cap (mem y).
  Proof.
    induction ops as [|o t IH]; intros Q y0 y S LC F RU; cbn [Storage.run] in RU.
    - inversion RU; subst. split; [exact LC|]. pose proof (Inv_held _ _ (proj1 S)). lia.
    - inversion F as [|? ? F1 F2]; subst.
      destruct (step_inv Q y0 o S (small_valid _ _ _ F1)) as (y1 & E1 & S1 & (C1 & C2 & C3)). rewrite E1 in RU. cbn [bind] in RU.
      assert (EX : expect (mem y1) = expect (mem y0)) by (unfold expect; now rewrite C1, C2).
      assert (CP : cap (mem y1) = cap (mem y0)) by (unfold cap; now rewrite C1).
      rewrite <- C3, <- EX in F2.
      assert (L1 : cnt (mem y1) <= cap (mem y1)).
      { rewrite CP. destruct S as (I & DK). destruct o as [id v|id| |c]; cbn [Storage.step small_op] in *.
        - destruct F1 as (V1 & SM). destruct (put (mem y0) id v) as [[[s' r] bs]| |] eqn:P; cbn [bind] in E1; try discriminate.
          inversion E1; subst. cbn [commit mem]. eapply put_within_capacity; eassumption.
        - destruct (get (mem y0) id); cbn [bind] in E1; try discriminate. now inversion E1; subst.
        - unfold Storage.reopen_at in E1. destruct DK as (A & _). rewrite firstn_all, A in E1.
          pose proof I as (HD & HN & HC).
          destruct (open_inv Q (capMB (mem y0)) (ppm (mem y0)) (node (mem y0)) (sdb (mem y0)) HD HN)
            as [(E & O' & IF)|(n & E & s2 & bs' & O' & I2 & D2 & CF & SH)]; rewrite O' in E1; cbn [bind] in E1; inversion E1; subst; cbn [commit mem].
          + cbn. lia.
          + rewrite E in HC. subst n. destruct (reload_radius_same (fresh (capMB (mem y0)) (ppm (mem y0)) (node (mem y0)) (sdb (mem y0)) (cnt (mem y0))) s2 (cnt (mem y0))) as (_ & R2 & _).
            rewrite R2. destruct SH as [(_ & -> & _)|(GT & _)]; [exact LC|]. unfold cap in GT, LC. cbn [fresh capMB] in GT. lia.
        - contradiction. }
      eapply IH; eassumption.
  Qed.

  (* ---------------- C17: what NewStorage establishes *)
  Theorem open_facts Q cm pp nd d s' bs : DInv Q d -> length nd = 32%nat -> open cm pp nd d = Ok (s', bs) ->
    Inv Q s' /\ capMB s' = cm /\ ppm s' = pp /\ node s' = nd /\
    (* over capacity: pruned on open *)
    (forall n, rec d = Some (SizeRec n) -> cap s' < n ->
        exists dropped, kv d = kv (sdb s') ++ dropped /\ (expect s' <= held_kv dropped \/ kv (sdb s') = [])) /\
    (* not over capacity: nothing changes *)
    (forall n, rec d = Some (SizeRec n) -> n <= cap s' -> sdb s' = d /\ cnt s' = n) /\
    (* radius: the farthest retained key above 95 percent, the maximum otherwise *)
    (forall n p k v, rec d = Some (SizeRec n) -> thr s' < n -> kv (sdb s') = p ++ [(k, v)] -> rad s' = dec k) /\
    (forall n, rec d = Some (SizeRec n) -> n <= thr s' -> rad s' = MAXD) /\
    (kv (sdb s') = [] -> rad s' = MAXD) /\
    (rec d = None -> rad s' = MAXD /\ sdb s' = d /\ cnt s' = 0).
  Proof.
    intros HD HN O.
    destruct (open_inv Q cm pp nd d HD HN) as [(E & O' & IF)|(n & E & s2 & bs' & O' & I2 & D2 & CF & SH)];
      rewrite O' in O; inversion O; subst; clear O.
    - split; [exact IF|]. cbn [fresh capMB ppm node]. repeat split; try reflexivity; intros; congruence.
    - set (s1 := fresh cm pp nd d n) in *.
      destruct (reload_radius_same s1 s2 n) as (R1 & R2 & (R3 & R4 & R5)). destruct CF as (F1 & F2 & F3).
      set (s3 := reload_radius s1 s2 n) in *.
      assert (CM : capMB s3 = cm) by (rewrite R3, F1; reflexivity).
      assert (PP : ppm s3 = pp) by (rewrite R4, F2; reflexivity).
      split; [now apply reload_radius_inv|]. split; [exact CM|]. split; [exact PP|]. split; [rewrite R5, F3; reflexivity|].
      assert (CAP : cap s3 = cap s1) by (unfold cap; rewrite CM; reflexivity).
      assert (THR : thr s3 = thr s1) by (unfold thr; rewrite CM, PP; reflexivity).
      assert (EXP : expect s3 = expect s1) by (unfold expect; rewrite CM, PP; reflexivity).
      split; [|split; [|split; [|split; [|split]]]].
      + intros n' E' GT. rewrite E in E'. inversion E'; subst n'. rewrite CAP in GT.
        destruct SH as [(LE & _)|(_ & _ & (dropped & EL & _ & FR & _))]; [lia|].
        exists dropped. rewrite R1, EXP. split; [exact EL | exact FR].
      + intros n' E' LE. rewrite E in E'. inversion E'; subst n'. rewrite CAP in LE.
        destruct SH as [(_ & -> & _)|(GT & _)]; [|lia]. rewrite R1, R2. split; reflexivity.
      + intros n' p k v E' GT EK. rewrite E in E'. inversion E'; subst n'. rewrite THR in GT.
        rewrite R1 in EK. subst s3. unfold reload_radius. replace (thr s1 <? n) with true by lia.
        rewrite (last_key_last (sdb s2) p k v EK). reflexivity.
      + intros n' E' LE. rewrite E in E'. inversion E'; subst n'. rewrite THR in LE.
        subst s3. unfold reload_radius. replace (thr s1 <? n) with false by lia.
        destruct SH as [(_ & -> & _)|(GT & _)]; [reflexivity|].
        unfold thr, cap in *. cbn [s1 fresh capMB ppm] in *. nia.
      + intros EM. rewrite R1 in EM. subst s3. unfold reload_radius. rewrite (last_key_empty _ EM).
        assert (R2' : rad s2 = MAXD).
        { destruct SH as [(_ & -> & _)|(_ & _ & (dropped & _ & _ & _ & _ & R0 & _))]; [reflexivity|]. now rewrite (R0 EM). }
        destruct (thr s1 <? n); exact R2'.
      + intros E'. congruence.
  Qed.
End StoreFacts.

(* ================================================================ concrete instances: witnesses and refutations *)

(* values as bare lengths (V := N, vlen := id): enough to run the model on 300 kB items under vm_compute *)
Definition nv_len (n : N) : N := n.
Definition nv_head (_ : N) : res N := Panic.
Definition key32 (first last : byte) : bytes := first :: repeat x00 30 ++ [last].

Definition le_witness_ops : list (op (V:=N)) :=
  [OPut (key32 x01 x00) 300000; OPut (key32 x02 x00) 300000; OPut (key32 x03 x00) 300000; OPut (key32 x00 x09) 300000].

(* the code's instance (little-endian decode): after one prune the store advertises radius 2 and still holds
   01 00..00 (big-endian distance 2^248) and 00..00 09 (little-endian reading 9 * 2^248) *)
Lemma le_instance_refuted :
  exists y, run nv_len nv_head le_to_N (init 1 K_contentDeletionPPM zero32) le_witness_ops = Ok y /\
    Forall (valid_op zero32) le_witness_ops /\
    rad (mem y) = 2 /\
    In (key32 x01 x00, 300000) (kv (sdb (mem y))) /\ rad (mem y) < be_to_N (key32 x01 x00) /\
    In (key32 x00 x09, 300000) (kv (sdb (mem y))) /\ rad (mem y) < le_to_N (key32 x00 x09).
Proof.
  eexists. split; [vm_compute; reflexivity|].
  split; [repeat constructor; vm_compute; congruence|].
  split; [reflexivity|]. split; [vm_compute; tauto|]. split; [vm_compute; reflexivity|].
  split; [vm_compute; tauto | vm_compute; reflexivity].
Qed.

(* the same history under the big-endian decoder keeps the invariant (instance of history_radius) *)
Lemma be_instance_ok :
  exists y, run nv_len nv_head be_to_N (init 1 K_contentDeletionPPM zero32) le_witness_ops = Ok y /\
    forall k v, In (k, v) (kv (sdb (mem y))) -> be_to_N k <= rad (mem y).
Proof.
  destruct (history_consistent nv_len nv_head be_to_N 1 K_contentDeletionPPM zero32 le_witness_ops eq_refl) as (y & R & _).
  { repeat constructor; vm_compute; congruence. }
  exists y. split; [exact R|].
  apply (history_radius nv_len nv_head be_to_N 1 K_contentDeletionPPM zero32 le_witness_ops y be_good eq_refl); [|exact R].
  repeat constructor; vm_compute; congruence.
Qed.

(* inRange as written compares the radius with the LOG distance: radius 2^9, XOR distance 2^200 is "in range" *)
Definition inr_cid : bytes := repeat x00 6 ++ [x01] ++ repeat x00 25.
Lemma in_range_logdist_refuted :
  in_range_logdist zero32 (2 ^ 9) inr_cid = Ok true /\ in_range_spec zero32 (2 ^ 9) inr_cid = false /\
  be_to_N (xor_bytes zero32 inr_cid) = 2 ^ 200.
Proof. vm_compute. repeat split; reflexivity. Qed.

(* the repaired helper applies the rule of the property to every 32-byte content id, and never panics on one *)
Lemma in_range_agrees node radius cid : length cid = 32%nat ->
  in_range_code node radius cid = Ok (in_range_spec node radius cid).
Proof.
  intros H. unfold in_range_code, in_range_spec. rewrite H. cbn [Nat.ltb Nat.leb].
  rewrite <- H, firstn_all. reflexivity.
Qed.

(* excluded by the quantifier, stated not hidden: content id = node id is written under the SizeKey ... *)
Definition bv_len (b : bytes) : N := nlen b.
Definition bv_head (b : bytes) : res N := if Nat.ltb (length b) 8 then Panic else Ok (be_to_N (firstn 8 b)).
Lemma node_id_collides_with_size_record :
  exists y, run bv_len bv_head le_to_N (init 1 K_contentDeletionPPM zero32) [OPut zero32 [x01]; OPut (key32 x01 x01) [x02]] = Ok y /\
    get (mem y) zero32 = Ok (Some (SizeRec 66)).
Proof. eexists. split; vm_compute; reflexivity. Qed.
(* ... and ids of another length alias by zero-padding / truncation *)
Lemma short_ids_alias :
  xor_key [x07] zero32 = xor_key (x07 :: repeat x00 31) zero32 /\
  xor_key (x07 :: repeat x00 31 ++ [x09]) zero32 = xor_key (x07 :: repeat x00 31) zero32.
Proof. split; vm_compute; reflexivity. Qed.

(* overwrites inflate the counter: 26 puts of one id (40 kB, capacity 1 MB) prune the item itself; the store is
   empty with a counter above 95 percent.  With the repaired NewStorage it reopens with the maximum radius
   (before the fix: radius dec SizeKey = 0 and every later put refused). *)
Definition overwrite_ops : list (op (V:=N)) := repeat (OPut (key32 x55 x66) 40000) 26 ++ [OReopen].
Lemma overwrite_reopen_witness :
  exists y, run nv_len nv_head le_to_N (init 1 K_contentDeletionPPM zero32) overwrite_ops = Ok y /\
    kv (sdb (mem y)) = [] /\ cnt (mem y) = 960768 /\ thr (mem y) < cnt (mem y) /\ rad (mem y) = MAXD.
Proof. eexists. split; [vm_compute; reflexivity|]. repeat split; vm_compute; reflexivity. Qed.

(* non-vacuity: a history with a prune, a restart and a crash that satisfies every premise *)
Definition demo_ops : list (op (V:=N)) :=
  [OPut (key32 x00 x01) 900000; OPut (key32 x00 x02) 40000; OPut (key32 x00 x03) 20000; OPut (key32 x00 x04) 20000;
   OPut (key32 x00 x05) 20000; OReopen; OPut (key32 x00 x02) 7; OCrash 6; OGet (key32 x00 x02)].
Lemma demo_history :
  Forall (valid_op zero32) demo_ops /\
  exists y, run nv_len nv_head be_to_N (init 1 K_contentDeletionPPM zero32) demo_ops = Ok y /\
    map fst (kv (sdb (mem y))) = [key32 x00 x01; key32 x00 x02] /\ cnt (mem y) = 940064 /\ length (disk y) = 6%nat.
Proof.
  split; [repeat constructor; vm_compute; congruence|].
  eexists. split; [vm_compute; reflexivity|]. repeat split; vm_compute; reflexivity.
Qed.

(* ================================================================ corollaries restated in Properties/ *)
Lemma accounting_history (V : Type) (vlen : V -> N) (vhead8 : V -> res N) (dec : bytes -> N) cm pp nd ops :
  length nd = 32%nat -> Forall (valid_op nd) ops ->
  exists y, run vlen vhead8 dec (init cm pp nd) ops = Ok y /\ Inv vlen (was_put nd ops) (mem y) /\
    (forall c, (synced y <= c <= length (disk y))%nat -> DInv vlen (was_put nd ops) (replay (firstn c (disk y)))).
Proof.
  intros H F. destruct (history_consistent vlen vhead8 dec cm pp nd ops H F) as (y & A & B & _ & D & _). eauto.
Qed.

Lemma inv_meaning (V : Type) (vlen : V -> N) Q (s : st (V:=V)) : Inv vlen Q s ->
  held vlen s <= cnt s /\ (rec (sdb s) = None /\ cnt s = 0 \/ rec (sdb s) = Some (SizeRec (cnt s))).
Proof.
  intros I. split; [eapply Inv_held; exact I|]. destruct I as (_ & _ & C).
  destruct (rec (sdb s)) as [[n|v]|]; [right; now subst | contradiction | now left].
Qed.

Lemma dinv_meaning (V : Type) (vlen : V -> N) Q (d : db (V:=V)) : DInv vlen Q d ->
  (forall k v, In (k, v) (kv d) -> Q k v) /\
  (rec d = None /\ kv d = [] \/ exists n, rec d = Some (SizeRec n) /\ held_kv vlen (kv d) <= n).
Proof.
  intros (_ & A & B). split; [exact A|].
  destruct (rec d) as [[n|v]|]; [right; eauto | contradiction | now left].
Qed.

Lemma five_percent (V : Type) cm nd (d : db (V:=V)) c :
  let s := fresh cm K_contentDeletionPPM nd d c in
  20 * expect s = cap s /\ thr s + expect s = cap s.
Proof. unfold fresh, expect, thr, cap, K_contentDeletionPPM. cbn [capMB ppm]. split; lia. Qed.

Lemma refused_iff (V : Type) (vlen : V -> N) (vhead8 : V -> res N) (dec : bytes -> N) Q (s : st (V:=V)) id v s' r bs :
  Inv vlen Q s -> valid_id (node s) id -> put vlen dec s id v = Ok (s', r, bs) ->
  (r = Refused <-> rad s <= dec (xor_bytes id (node s))).
Proof.
  intros I (Hid & Hne) P. pose proof I as (_ & HN & _).
  destruct (put_inv vlen vhead8 dec Q s id v I Hid Hne) as (k & XK & _ & _ & C).
  rewrite xor_key_32 in XK by assumption. inversion XK; subst k. cbn zeta in C.
  destruct C as [(NR & P')|(HR & _ & _ & [(_ & P')|(_ & s2 & b2 & P' & _)])]; rewrite P' in P; inversion P; subst;
    split; intros H; try reflexivity; try discriminate; lia.
Qed.

Lemma demo_counter :
  exists y, run nv_len nv_head be_to_N (init 1 K_contentDeletionPPM zero32) demo_ops = Ok y /\ cnt (mem y) = 940064.
Proof. destruct demo_history as (_ & y & R & _ & C & _). eauto. Qed.
