(* Proofs/Framing.v : theorems about Model/Framing.v (C15). *)
From Shisui Require Import Base.Bytes Base.Arith Model.Framing.
From Coq Require Import ZifyBool ZifyN ZifyNat.
Ltac Zify.zify_post_hook ::= Z.div_mod_to_equations.

Local Arguments N.land : simpl never.
Local Arguments N.lor : simpl never.
Local Arguments N.shiftl : simpl never.
Local Arguments N.shiftr : simpl never.
Local Arguments N.modulo : simpl never.
Local Arguments N.div : simpl never.
Local Arguments N.pow : simpl never.
Local Arguments N.mul : simpl never.
Local Arguments N.add : simpl never.
Local Arguments N.ltb : simpl never.
Local Arguments N.eqb : simpl never.

(* ---------- encoder facts ---------- *)

Lemma leb_enc_aux_nonempty f v : leb_enc_aux (S f) v <> [].
Proof. cbn [leb_enc_aux]. destruct (N.shiftr v 7 =? 0); discriminate. Qed.

Lemma leb_enc_aux_length f v : (length (leb_enc_aux f v) <= f)%nat.
Proof.
  revert v; induction f as [|f IH]; intros v; cbn [leb_enc_aux]; [simpl; lia|].
  destruct (N.shiftr v 7 =? 0); simpl; [lia|]. specialize (IH (N.shiftr v 7)). lia.
Qed.

(* ---------- decode (encode v ++ r) ---------- *)

Lemma pow2_7_succ i : 2 ^ (7 * (i + 1)) = 128 * 2 ^ (7 * i).
Proof. replace (7 * (i + 1)) with (7 + 7 * i) by lia. rewrite N.pow_add_r. reflexivity. Qed.

Lemma leb_dec_enc_aux :
  forall fe v i ret r fd,
    v < 128 ^ N.of_nat (S fe) ->
    ret < 2 ^ (7 * i) ->
    ret + v * 2 ^ (7 * i) < two32 ->
    (N.to_nat i + fd = 5)%nat -> (1 <= fd)%nat ->
    leb_dec_aux fd i (7 * i) ret (leb_enc_aux (S fe) v ++ r)
    = Ok (ret + v * 2 ^ (7 * i), i + nlen (leb_enc_aux (S fe) v), r).
Proof.
  induction fe as [|fe IH]; intros v i ret r fd Hv Hret Hsum Hfd Hfd1.
  - change (128 ^ N.of_nat 1) with 128 in Hv.
    cbn [leb_enc_aux]. rewrite shiftr_7, land_127.
    destruct fd as [|fd]; [lia|].
    replace (v / 128 =? 0) with true by lia.
    rewrite N.mod_small by lia.
    cbn [app leb_dec_aux]. rewrite b2n_n2b_small by lia.
    replace (v <? 128) with true by lia.
    assert (Hov : (i =? 4) && (0 <? N.land v 240) = false).
    { destruct (i =? 4) eqn:Ei; [|reflexivity]. simpl.
      assert (i = 4) by lia; subst i.
      assert (v < 16). { change (7 * 4) with 28 in Hsum. change (2 ^ 28) with 268435456 in Hsum. unfold two32 in Hsum. lia. }
      rewrite land_240_small by assumption. reflexivity. }
    rewrite Hov. rewrite lor_add_shiftl by assumption.
    rewrite N.mod_small by assumption.
    reflexivity.
  - remember (S fe) as fe1 eqn:Hfe1. cbn [leb_enc_aux]. rewrite shiftr_7, land_127.
    destruct fd as [|fd]; [lia|].
    destruct (v / 128 =? 0) eqn:Ediv.
    + (* last byte *)
      assert (Hv128 : v < 128) by lia.
      rewrite N.mod_small by lia.
      cbn [app leb_dec_aux]. rewrite b2n_n2b_small by lia.
      replace (v <? 128) with true by lia.
      assert (Hov : (i =? 4) && (0 <? N.land v 240) = false).
      { destruct (i =? 4) eqn:Ei; [|reflexivity]. simpl.
        assert (i = 4) by lia; subst i.
        assert (v < 16). { change (7 * 4) with 28 in Hsum. change (2 ^ 28) with 268435456 in Hsum. unfold two32 in Hsum. lia. }
        rewrite land_240_small by assumption. reflexivity. }
      rewrite Hov. rewrite lor_add_shiftl by assumption.
      rewrite N.mod_small by assumption.
      reflexivity.
    + assert (Hv128 : 128 <= v) by lia.
      pose proof (N.mod_lt v 128 ltac:(lia)) as Hm.
      rewrite lor_128 by assumption.
      cbn [app leb_dec_aux]. rewrite b2n_n2b_small by lia.
      replace (v mod 128 + 128 <? 128) with false by lia.
      rewrite land127_ge128 by lia.
      replace (v mod 128 + 128 - 128) with (v mod 128) by lia.
      rewrite lor_add_shiftl by assumption.
      assert (Hlt : ret + v mod 128 * 2 ^ (7 * i) < two32).
      { assert (v mod 128 * 2 ^ (7 * i) <= v * 2 ^ (7 * i)) by (apply N.mul_le_mono_r; lia). lia. }
      rewrite N.mod_small by assumption.
      replace (7 * i + 7) with (7 * (i + 1)) by lia.
      (* i <= 3 because v >= 128 *)
      assert (Hi : i <= 3).
      { destruct (N.le_gt_cases i 3) as [L|G]; [assumption|exfalso].
        assert (i = 4) by lia. subst i.
        change (7 * 4) with 28 in Hsum. change (2 ^ 28) with 268435456 in Hsum. unfold two32 in Hsum. lia. }
      rewrite IH.
      * assert (E1 : ret + v mod 128 * 2 ^ (7 * i) + v / 128 * 2 ^ (7 * (i + 1)) = ret + v * 2 ^ (7 * i)).
        { rewrite pow2_7_succ.
          assert (E : v = 128 * (v / 128) + v mod 128) by (apply N.div_mod; lia).
          rewrite E at 3. lia. }
        assert (E2 : i + 1 + nlen (leb_enc_aux fe1 (v / 128)) = i + nlen (n2b (v mod 128 + 128) :: leb_enc_aux fe1 (v / 128))).
        { unfold nlen. simpl length. lia. }
        rewrite E1, E2. reflexivity.
      * subst fe1. rewrite Nnat.Nat2N.inj_succ in Hv. rewrite N.pow_succ_r' in Hv.
        apply N.div_lt_upper_bound; lia.
      * rewrite pow2_7_succ. 
        assert (v mod 128 * 2 ^ (7 * i) <= 127 * 2 ^ (7 * i)) by (apply N.mul_le_mono_r; lia).
        lia.
      * rewrite pow2_7_succ.
        assert (E : v = 128 * (v / 128) + v mod 128) by (apply N.div_mod; lia).
        replace (ret + v mod 128 * 2 ^ (7 * i) + v / 128 * (128 * 2 ^ (7 * i)))
          with (ret + (128 * (v / 128) + v mod 128) * 2 ^ (7 * i)) by lia.
        rewrite <- E. assumption.
      * lia.
      * lia.
Qed.

Lemma leb_decode_encode v r :
  v < two32 ->
  leb_decode_u32 (leb_encode_u32 v ++ r) = Ok (v, nlen (leb_encode_u32 v), r).
Proof.
  intros Hv. unfold leb_decode_u32, leb_encode_u32. rewrite N.mod_small by assumption.
  pose proof (leb_dec_enc_aux 9 v 0 0 r 5) as H.
  change (7 * 0) with 0 in H. change (2 ^ 0) with 1 in H.
  replace (0 + v * 1) with v in H by lia.
  replace (0 + nlen (leb_enc_aux 10 v)) with (nlen (leb_enc_aux 10 v)) in H by lia.
  apply H.
  - assert (E : 128 ^ N.of_nat 10 = 1180591620717411303424) by (vm_compute; reflexivity).
    rewrite E. unfold two32 in Hv. lia.
  - lia.
  - assumption.
  - reflexivity.
  - lia.
Qed.

(* ---------- the decoder reads a prefix, and only depends on it ---------- *)

Lemma leb_dec_consumes :
  forall fd i s ret data v n rest,
    leb_dec_aux fd i s ret data = Ok (v, n, rest) ->
    exists h, data = h ++ rest /\ n = i + nlen h /\ (1 <= length h <= fd)%nat /\
              forall r', leb_dec_aux fd i s ret (h ++ r') = Ok (v, n, r').
Proof.
  induction fd as [|fd IH]; intros i s ret data v n rest H; cbn [leb_dec_aux] in H; [discriminate|].
  destruct data as [|b data]; [discriminate|].
  destruct (b2n b <? 128) eqn:Eb.
  - destruct ((i =? 4) && (0 <? N.land (b2n b) 240)) eqn:Eo; [discriminate|].
    inversion H; subst. exists [b]. repeat split; try (unfold nlen; simpl; lia).
    intros r'. cbn [app leb_dec_aux]. rewrite Eb, Eo. reflexivity.
  - apply IH in H as (h & -> & -> & Hl & Hr).
    exists (b :: h). repeat split; try (unfold nlen; simpl length; lia).
    intros r'. cbn [app leb_dec_aux]. rewrite Eb. apply Hr.
Qed.

Lemma leb_decode_consumes data v n rest :
  leb_decode_u32 data = Ok (v, n, rest) ->
  exists h, data = h ++ rest /\ n = nlen h /\ (1 <= length h <= 5)%nat /\
            forall r', leb_decode_u32 (h ++ r') = Ok (v, n, r').
Proof.
  intros H. apply leb_dec_consumes in H as (h & ? & ? & ? & ?).
  exists h; repeat split; try assumption; lia.
Qed.

Lemma leb_dec_aux_bound fd : forall data i s ret v n rest,
  leb_dec_aux fd i s ret data = Ok (v, n, rest) -> v < two32.
Proof.
  induction fd as [|fd IH]; intros data i s ret v n rest H; cbn [leb_dec_aux] in H; [discriminate|].
  destruct data as [|b data]; [discriminate|].
  destruct (b2n b <? 128).
  - destruct ((i =? 4) && (0 <? N.land (b2n b) 240)); [discriminate|].
    inversion H; subst. apply N.mod_lt. unfold two32; lia.
  - eapply IH; eassumption.
Qed.

Lemma leb_dec_aux_no_panic fd : forall data i s ret, leb_dec_aux fd i s ret data <> Panic.
Proof.
  induction fd as [|fd IH]; intros data i s ret; cbn [leb_dec_aux]; [discriminate|].
  destruct data as [|b data]; [discriminate|]. destruct (b2n b <? 128); [|apply IH].
  destruct ((i =? 4) && (0 <? N.land (b2n b) 240)); discriminate.
Qed.

Lemma leb_decode_value_bound data v n rest :
  leb_decode_u32 data = Ok (v, n, rest) -> v < two32.
Proof. apply leb_dec_aux_bound. Qed.

Lemma leb_encode_len v : v < two32 -> (1 <= length (leb_encode_u32 v) <= 5)%nat.
Proof.
  intros Hv. pose proof (leb_decode_encode v [] Hv) as H.
  apply leb_decode_consumes in H as (h & E & _ & Hl & _).
  rewrite !app_nil_r in E. rewrite <- E in Hl. exact Hl.
Qed.

(* ---------- single item ---------- *)

Lemma slice_app_mid {A} (h c r : list A) :
  slice (h ++ c ++ r) (length h) (length h + length c) = Ok c.
Proof.
  unfold slice. rewrite !app_length.
  replace (Nat.leb (length h) (length h + length c)) with true by lia.
  replace (Nat.leb (length h + length c) (length h + (length c + length r))) with true by lia.
  simpl. f_equal.
  rewrite skipn_app, skipn_all, Nat.sub_diag. simpl.
  replace (length h + length c - length h)%nat with (length c) by lia.
  rewrite firstn_app, firstn_all, Nat.sub_diag. simpl. now rewrite app_nil_r.
Qed.

Lemma slice_app_tail {A} (h c r : list A) :
  slice (h ++ c ++ r) (length h + length c) (length (h ++ c ++ r)) = Ok r.
Proof.
  unfold slice. rewrite !app_length.
  replace (Nat.leb _ _ && Nat.leb _ _)%bool with true by lia.
  f_equal.
  replace (h ++ c ++ r) with ((h ++ c) ++ r) by now rewrite app_assoc.
  rewrite skipn_app. rewrite app_length. rewrite skipn_all2 by (rewrite app_length; lia).
  replace (length h + length c - (length h + length c))%nat with 0%nat by lia. simpl.
  apply firstn_all2. lia.
Qed.

Definition short (d : bytes) : Prop := nlen d < two32.

Theorem decode_single_encode d r :
  short d -> decode_single (encode_single d ++ r) = Ok (d, r).
Proof.
  intros Hd. unfold decode_single, encode_single. rewrite <- app_assoc.
  rewrite leb_decode_encode by assumption.
  set (h := leb_encode_u32 (nlen d)).
  replace (nlen (h ++ d ++ r) <? nlen h + nlen d) with false
    by (unfold nlen; rewrite !app_length; lia).
  unfold nlen. rewrite !Nnat.Nat2N.id.
  rewrite slice_app_mid. cbn [bind]. rewrite slice_app_tail. reflexivity.
Qed.

(* what a successful decode_single says about its input: forced split *)
Theorem decode_single_image data c rem :
  decode_single data = Ok (c, rem) ->
  exists h, data = h ++ c ++ rem /\ (1 <= length h <= 5)%nat /\
            (forall r', leb_decode_u32 (h ++ r') = Ok (nlen c, nlen h, r')) /\ short c.
Proof.
  unfold decode_single. intros H.
  destruct (leb_decode_u32 data) as [[[clen hsz] rest]| |] eqn:E; try discriminate.
  pose proof (leb_decode_value_bound _ _ _ _ E) as Hb.
  apply leb_decode_consumes in E as (h & -> & -> & Hl & Hr).
  destruct (nlen (h ++ rest) <? nlen h + clen) eqn:El; [discriminate|].
  unfold nlen in El. rewrite app_length in El.
  assert (Hc : (N.to_nat clen <= length rest)%nat) by lia.
  (* split rest into content and remaining *)
  rewrite <- (firstn_skipn (N.to_nat clen) rest) in H.
  set (cc := firstn (N.to_nat clen) rest) in *.
  set (rr := skipn (N.to_nat clen) rest) in *.
  assert (Hcc : length cc = N.to_nat clen) by (unfold cc; rewrite firstn_length; lia).
  unfold nlen in H. rewrite Nnat.Nat2N.id in H. rewrite <- Hcc in H.
  rewrite slice_app_mid in H. cbn [bind] in H. rewrite slice_app_tail in H.
  inversion H; subst c rem. exists h. split.
  - f_equal. symmetry. apply firstn_skipn.
  - split; [assumption|]. split.
    + intros r'. rewrite Hr. unfold nlen. rewrite Hcc, N2Nat.id. reflexivity.
    + unfold short, nlen. rewrite Hcc, N2Nat.id. assumption.
Qed.

(* a successful decode_single does not depend on what follows the bytes it looked at *)
Lemma decode_single_ext data c rem z :
  decode_single data = Ok (c, rem) -> decode_single (data ++ z) = Ok (c, rem ++ z).
Proof.
  intros H. apply decode_single_image in H as (h & -> & Hl & Hh & Hs).
  unfold decode_single. rewrite <- !app_assoc. rewrite Hh.
  replace (nlen (h ++ c ++ rem ++ z) <? nlen h + nlen c) with false
    by (unfold nlen; rewrite !app_length; lia).
  unfold nlen. rewrite !Nnat.Nat2N.id.
  rewrite slice_app_mid. cbn [bind]. rewrite slice_app_tail. reflexivity.
Qed.

Lemma decode_single_shrinks data c rem :
  decode_single data = Ok (c, rem) -> (length rem < length data)%nat.
Proof.
  intros H. apply decode_single_image in H as (h & -> & Hl & _). rewrite !app_length. lia.
Qed.

Lemma decode_single_no_panic data : decode_single data <> Panic.
Proof.
  unfold decode_single. destruct (leb_decode_u32 data) as [[[clen hsz] rest]| |] eqn:E; try discriminate.
  - apply leb_decode_consumes in E as (h & -> & -> & Hl & Hr).
    destruct (nlen (h ++ rest) <? nlen h + clen) eqn:El; [discriminate|].
    unfold nlen in El. rewrite app_length in El.
    rewrite <- (firstn_skipn (N.to_nat clen) rest).
    set (cc := firstn (N.to_nat clen) rest) in *.
    assert (Hcc : length cc = N.to_nat clen) by (unfold cc; rewrite firstn_length; lia).
    unfold nlen. rewrite Nnat.Nat2N.id. rewrite <- Hcc.
    rewrite slice_app_mid. cbn [bind]. rewrite slice_app_tail. discriminate.
  - exfalso. revert E. apply leb_dec_aux_no_panic.
Qed.

(* ---------- lists of items ---------- *)

Lemma decode_contents_aux_fuel :
  forall f1 f2 data, (length data <= f1)%nat -> (length data <= f2)%nat ->
    decode_contents_aux f1 data = decode_contents_aux f2 data.
Proof.
  induction f1 as [|f1 IH]; intros f2 data H1 H2.
  - destruct data; [|simpl in H1; lia]. destruct f2; reflexivity.
  - destruct data as [|b data]; [destruct f2; reflexivity|].
    destruct f2 as [|f2]; [simpl in H2; lia|].
    cbn [decode_contents_aux].
    destruct (decode_single (b :: data)) as [[c rem]| |] eqn:E; try reflexivity.
    apply decode_single_shrinks in E. rewrite (IH f2); [reflexivity| |]; simpl in *; lia.
Qed.

Lemma decode_contents_cons data c rem :
  data <> [] -> decode_single data = Ok (c, rem) ->
  decode_contents data = match decode_contents rem with Ok cs => Ok (c :: cs) | Err e => Err e | Panic => Panic end.
Proof.
  intros Hne E. unfold decode_contents. destruct data as [|b data]; [congruence|].
  cbn [length decode_contents_aux]. rewrite E.
  pose proof (decode_single_shrinks _ _ _ E) as Hs. simpl in Hs.
  rewrite (decode_contents_aux_fuel (length data) (length rem)); [reflexivity| lia | lia].
Qed.

Lemma encode_single_nonempty d : encode_single d <> [].
Proof.
  unfold encode_single, leb_encode_u32. intros H. apply app_eq_nil in H as [H _].
  revert H. apply leb_enc_aux_nonempty.
Qed.

Theorem decode_encode_contents l :
  Forall short l -> decode_contents (encode_contents l) = Ok l.
Proof.
  induction 1 as [|d l Hd Hl IH]; [reflexivity|].
  unfold encode_contents in *. cbn [map concat].
  rewrite (decode_contents_cons _ d (concat (map encode_single l))).
  - now rewrite IH.
  - intros H. apply app_eq_nil in H as [H _]. revert H. apply encode_single_nonempty.
  - now apply decode_single_encode.
Qed.

Theorem decode_contents_no_panic data : decode_contents data <> Panic.
Proof.
  remember (length data) as n eqn:Hn. revert data Hn.
  induction n as [n IH] using lt_wf_ind. intros data Hn.
  destruct data as [|b data]; [discriminate|].
  destruct (decode_single (b :: data)) as [[c rem]| |] eqn:E.
  - rewrite (decode_contents_cons _ c rem) by (congruence || assumption).
    pose proof (decode_single_shrinks _ _ _ E).
    specialize (IH (length rem) ltac:(lia) rem eq_refl).
    destruct (decode_contents rem); congruence.
  - unfold decode_contents. cbn [length decode_contents_aux]. rewrite E. discriminate.
  - exfalso. revert E. apply decode_single_no_panic.
Qed.

(* image characterisation: a successful split is the forced one *)
Inductive framed : bytes -> list bytes -> Prop :=
| framed_nil : framed [] []
| framed_cons h c rest cs :
    (1 <= length h <= 5)%nat ->
    (forall r', leb_decode_u32 (h ++ r') = Ok (nlen c, nlen h, r')) ->
    short c ->
    framed rest cs -> framed (h ++ c ++ rest) (c :: cs).

Theorem decode_contents_image data l :
  decode_contents data = Ok l -> framed data l.
Proof.
  remember (length data) as n eqn:Hn. revert data l Hn.
  induction n as [n IH] using lt_wf_ind. intros data l Hn H.
  destruct data as [|b data].
  - inversion H. constructor.
  - destruct (decode_single (b :: data)) as [[c rem]| |] eqn:E.
    + rewrite (decode_contents_cons _ c rem) in H by (congruence || assumption).
      pose proof (decode_single_shrinks _ _ _ E).
      destruct (decode_contents rem) as [cs| |] eqn:Er; try discriminate.
      inversion H; subst l.
      apply decode_single_image in E as (h & E' & Hl & Hh & Hs). rewrite E'.
      constructor; try assumption. eapply IH; [|reflexivity|exact Er]. lia.
    + unfold decode_contents in H. cbn [length decode_contents_aux] in H. rewrite E in H. discriminate.
    + exfalso. revert E. apply decode_single_no_panic.
Qed.

Lemma framed_decodes data l : framed data l -> decode_contents data = Ok l.
Proof.
  induction 1 as [|h c rest cs Hl Hh Hs Hf IH]; [reflexivity|].
  assert (E : decode_single (h ++ c ++ rest) = Ok (c, rest)).
  { unfold decode_single. rewrite Hh.
    replace (nlen (h ++ c ++ rest) <? nlen h + nlen c) with false
      by (unfold nlen; rewrite !app_length; lia).
    unfold nlen. rewrite !Nnat.Nat2N.id.
    rewrite slice_app_mid. cbn [bind]. rewrite slice_app_tail. reflexivity. }
  rewrite (decode_contents_cons _ c rest); [now rewrite IH| |exact E].
  destruct h; [simpl in Hl; lia|discriminate].
Qed.

(* truncation: a prefix of an encoding is rejected or is the encoding of a prefix of the list *)
Theorem decode_prefix l : Forall short l ->
  forall p z l', p ++ z = encode_contents l -> decode_contents p = Ok l' ->
    exists k, l' = firstn k l /\ p = encode_contents l'.
Proof.
  induction 1 as [|d l Hd Hl IH]; intros p z l' Hp Hdec.
  - unfold encode_contents in Hp. simpl in Hp. apply app_eq_nil in Hp as [-> _].
    inversion Hdec. exists 0%nat. split; reflexivity.
  - destruct p as [|b p].
    + inversion Hdec. exists 0%nat. split; reflexivity.
    + destruct (decode_single (b :: p)) as [[c rem]| |] eqn:E.
      * rewrite (decode_contents_cons _ c rem) in Hdec by (congruence || assumption).
        destruct (decode_contents rem) as [cs| |] eqn:Er; try discriminate.
        inversion Hdec; subst l'.
        pose proof (decode_single_ext _ _ _ z E) as E2. rewrite Hp in E2.
        unfold encode_contents in E2. cbn [map concat] in E2.
        rewrite decode_single_encode in E2 by assumption. inversion E2; subst c.
        destruct (IH rem z cs) as (k & Hk & Hrem); [symmetry; assumption | assumption |].
        exists (S k). split; [simpl; now rewrite <- Hk|].
        apply decode_single_image in E as (h & E' & _ & Hh & _).
        rewrite E'. unfold encode_contents. cbn [map concat]. fold (encode_contents cs). rewrite <- Hrem.
        unfold encode_single.
        (* the header is determined: decode of h gives |d|, and so does decode of the canonical header *)
        assert (h = leb_encode_u32 (nlen d)) as ->.
        { assert (Hx : b :: p ++ z = (h ++ d ++ rem) ++ z) by (rewrite <- E'; reflexivity).
          change (b :: p ++ z) with ((b :: p) ++ z) in Hp. rewrite E' in Hp.
          unfold encode_contents in Hp. cbn [map concat] in Hp. unfold encode_single at 1 in Hp.
          rewrite <- !app_assoc in Hp.
          pose proof (Hh (d ++ rem ++ z)) as Hq. rewrite Hp in Hq.
          rewrite leb_decode_encode in Hq by assumption.
          inversion Hq as [[Hlen Htail]].
          (* equal lengths and equal concatenations *)
          assert (Hl2 : length (leb_encode_u32 (nlen d)) = length h) by (apply Nnat.Nat2N.inj; exact Hlen).
          clear -Hp Hl2. revert Hp Hl2. generalize (leb_encode_u32 (nlen d)) as g.
          induction h as [|x h IHh]; intros [|y g] Hp Hl2; simpl in *; try lia; [reflexivity|].
          inversion Hp. f_equal. apply IHh; [assumption|lia]. }
        rewrite <- app_assoc. reflexivity.
      * unfold decode_contents in Hdec. cbn [length decode_contents_aux] in Hdec. rewrite E in Hdec. discriminate.
      * exfalso. revert E. apply decode_single_no_panic.
Qed.

(* ---------- rejection of malformed varints / lengths ---------- *)

Definition cont (b : byte) : Prop := 128 <= b2n b.   (* continuation bit set *)

Theorem leb_five_continuations b1 b2 b3 b4 b5 r :
  cont b1 -> cont b2 -> cont b3 -> cont b4 -> cont b5 ->
  leb_decode_u32 (b1 :: b2 :: b3 :: b4 :: b5 :: r) = Err E_OVERFLOW32.
Proof.
  unfold cont, leb_decode_u32. intros. cbn [leb_dec_aux].
  repeat match goal with H : 128 <= b2n ?b |- context [b2n ?b <? 128] =>
    replace (b2n b <? 128) with false by lia end.
  reflexivity.
Qed.

Theorem leb_fifth_byte_overflow b1 b2 b3 b4 b5 r :
  cont b1 -> cont b2 -> cont b3 -> cont b4 -> 16 <= b2n b5 ->
  leb_decode_u32 (b1 :: b2 :: b3 :: b4 :: b5 :: r) = Err E_OVERFLOW32.
Proof.
  unfold cont, leb_decode_u32. intros H1 H2 H3 H4 H5. cbn [leb_dec_aux].
  repeat match goal with H : 128 <= b2n ?b |- context [b2n ?b <? 128] =>
    replace (b2n b <? 128) with false by lia end.
  destruct (b2n b5 <? 128) eqn:E5; [|reflexivity].
  change (0 + 1 + 1 + 1 + 1 =? 4) with true. 
  pose proof (land_240_big (b2n b5) H5 ltac:(lia)).
  replace (0 <? N.land (b2n b5) 240) with true by lia. reflexivity.
Qed.

Theorem decode_single_truncated data clen hsz rest :
  leb_decode_u32 data = Ok (clen, hsz, rest) -> nlen rest < clen ->
  decode_single data = Err E_INSUFFICIENT.
Proof.
  intros E Hlt. unfold decode_single. rewrite E.
  apply leb_decode_consumes in E as (h & -> & -> & _).
  replace (nlen (h ++ rest) <? nlen h + clen) with true; [reflexivity|].
  unfold nlen in *. rewrite app_length. lia.
Qed.

Theorem decode_single_header_error data e :
  leb_decode_u32 data = Err e -> decode_single data = Err e.
Proof. intros E. unfold decode_single. now rewrite E. Qed.

(* ---------- uTP content (single item, exact cover) ---------- *)

Theorem decode_utp_v1_iff data c :
  decode_utp_content 1 data = Ok c <->
  exists h, data = h ++ c /\ (1 <= length h <= 5)%nat /\
            (forall r', leb_decode_u32 (h ++ r') = Ok (nlen c, nlen h, r')).
Proof.
  unfold decode_utp_content. change (1 =? 1) with true. cbv iota. split.
  - destruct (decode_single data) as [[c' rem]| |] eqn:E; try discriminate.
    destruct rem; [|discriminate]. intros H; inversion H; subst c'.
    apply decode_single_image in E as (h & -> & Hl & Hh & _).
    exists h. rewrite app_nil_r. auto.
  - intros (h & -> & Hl & Hh).
    assert (E : decode_single (h ++ c ++ []) = Ok (c, [])).
    { unfold decode_single. rewrite Hh.
      replace (nlen (h ++ c ++ []) <? nlen h + nlen c) with false
        by (unfold nlen; rewrite !app_length; simpl; lia).
      unfold nlen. rewrite !Nnat.Nat2N.id.
      rewrite slice_app_mid. cbn [bind]. rewrite slice_app_tail. reflexivity. }
    rewrite app_nil_r in E. rewrite E. reflexivity.
Qed.

Theorem utp_roundtrip v d :
  short d -> decode_utp_content v (encode_utp_content v d) = Ok d.
Proof.
  intros Hd. unfold decode_utp_content, encode_utp_content.
  destruct (v =? 1); [|reflexivity].
  rewrite <- (app_nil_r (encode_single d)). rewrite decode_single_encode by assumption. reflexivity.
Qed.

Theorem utp_v1_trailing_rejected d x r :
  short d -> decode_utp_content 1 (encode_single d ++ x :: r) = Err E_LEN_MISMATCH.
Proof.
  intros Hd. unfold decode_utp_content. change (1 =? 1) with true. cbv iota.
  rewrite decode_single_encode by assumption. reflexivity.
Qed.

(* joining what was split out of a joined stream gives the stream again, however often it is done
   (the gossip path offers received contents on to several peers) *)
Lemma rejoin_split_stream : forall (l : list bytes) k,
  Forall short l ->
  match decode_contents (encode_contents l) with
  | Ok l' => Nat.iter k (fun s => match decode_contents s with Ok x => encode_contents x | _ => s end) (encode_contents l') = encode_contents l
  | _ => False
  end.
Proof.
  intros l k Hl. rewrite (decode_encode_contents l Hl).
  induction k as [|k IH]; [reflexivity|].
  change (Nat.iter (S k) ?f ?x) with (f (Nat.iter k f x)).
  match goal with |- ?f (Nat.iter k ?g ?x) = _ => change (f (Nat.iter k g x)) with (match decode_contents (Nat.iter k g x) with Ok y => encode_contents y | _ => Nat.iter k g x end) end.
  rewrite IH, (decode_encode_contents l Hl). reflexivity.
Qed.
